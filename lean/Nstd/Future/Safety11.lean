/-
  Safety of the Future/ThreadPool model, part 11: every live worker thread has its context in `_threads`
  (`WInv`), hence `~ThreadPool` joins it before the pool is deleted; conclusion: `no_fault`.
-/
import Nstd.Future.Safety10
set_option linter.unusedSimpArgs false
set_option linter.unusedVariables false
namespace Nstd.Future

section eff
variable {s s' : State} {t : Tid} {fr : Frame} {p p' : Pool}

/-- an entry that is not erased survives the step -/
theorem CtxEff.surv (hE : CtxEff s s' t fr p p') {c : Ctx} (hc : c ∈ p.ctxs)
    (hfresh : freshFr fr = false)
    (herase : ∀ i d, fr = .cleanAt i → p.ctxs[i]? = some d → d.tid = none → c ≠ d)
    (hjoin : ∀ i w d, fr = .cleanJoin i w → p.ctxs[i]? = some d → c ≠ d)
    (hstart : ∀ k, fr = .runSpStart k → c.id ≠ k) :
    ∃ c' ∈ p'.ctxs, c'.id = c.id ∧ c'.tid = c.tid ∧ (c'.terminated = c.terminated ∨ c.tid = some t) := by
  cases hE with
  | same h1 _ _ => exact ⟨c, by rw [h1]; exact hc, rfl, rfl, Or.inl rfl⟩
  | term hf h1 _ =>
    refine ⟨termCtx t c, by rw [h1]; exact List.mem_map_of_mem hc, ?_, ?_, ?_⟩
    all_goals simp only [termCtx]
    all_goals split <;> simp_all
  | erase i d hf hd _ hdt h1 _ =>
    obtain ⟨j, hj⟩ := List.mem_iff_getElem?.mp hc
    refine ⟨c, ?_, rfl, rfl, Or.inl rfl⟩
    rw [h1, List.mem_eraseIdx_iff_getElem?]
    refine ⟨j, ?_, hj⟩
    intro e; subst e
    rw [hd] at hj; injection hj with hj
    exact herase j d hf hd hdt hj.symm
  | join i w hf h1 _ =>
    obtain ⟨j, hj⟩ := List.mem_iff_getElem?.mp hc
    refine ⟨c, ?_, rfl, rfl, Or.inl rfl⟩
    rw [h1, List.mem_eraseIdx_iff_getElem?]
    refine ⟨j, ?_, hj⟩
    intro e; subst e
    exact hjoin j w c hf hj rfl
  | append hf h1 _ => exact ⟨c, by rw [h1]; exact List.mem_append_left _ hc, rfl, rfl, Or.inl rfl⟩
  | start k hf h1 _ _ =>
    refine ⟨c, ?_, rfl, rfl, Or.inl rfl⟩
    rw [h1]
    have : startCtx k s.nthreads c = c := by simp [startCtx, hstart k hf]
    rw [← this]; exact List.mem_map_of_mem hc
  | fresh hf _ _ => rw [hf] at hfresh; cases hfresh

/-- where the entries after the step come from -/
theorem CtxEff.orig (hE : CtxEff s s' t fr p p') (hfresh : freshFr fr = false) {c' : Ctx} (hc' : c' ∈ p'.ctxs) :
    (∃ c ∈ p.ctxs, c'.id = c.id ∧
      (c'.tid = c.tid ∨ (fr = .runSpStart c.id ∧ c'.tid = some s.nthreads)) ∧
      (c'.terminated = c.terminated ∨ (fr = .wTerm ∧ c.tid = some t))) ∨
    (fr = .runSpChk ∧ c' = { id := p.nextCtx, tid := none, terminated := false }) := by
  cases hE with
  | same h1 _ _ => exact Or.inl ⟨c', by rw [← h1]; exact hc', rfl, Or.inl rfl, Or.inl rfl⟩
  | term hf h1 _ =>
    rw [h1] at hc'
    obtain ⟨c, hc, rfl⟩ := List.mem_map.mp hc'
    refine Or.inl ⟨c, hc, ?_, Or.inl ?_, ?_⟩
    all_goals simp only [termCtx]
    all_goals split <;> simp_all
  | erase i d hf hd _ _ h1 _ =>
    rw [h1] at hc'
    exact Or.inl ⟨c', List.mem_of_mem_eraseIdx hc', rfl, Or.inl rfl, Or.inl rfl⟩
  | join i w hf h1 _ =>
    rw [h1] at hc'
    exact Or.inl ⟨c', List.mem_of_mem_eraseIdx hc', rfl, Or.inl rfl, Or.inl rfl⟩
  | append hf h1 _ =>
    rw [h1] at hc'
    rcases List.mem_append.mp hc' with h | h
    · exact Or.inl ⟨c', h, rfl, Or.inl rfl, Or.inl rfl⟩
    · exact Or.inr ⟨hf, by simpa using h⟩
  | start k hf h1 _ _ =>
    rw [h1] at hc'
    obtain ⟨c, hc, rfl⟩ := List.mem_map.mp hc'
    refine Or.inl ⟨c, hc, ?_, ?_, Or.inl ?_⟩
    all_goals simp only [startCtx]
    · split <;> rfl
    · by_cases hk : c.id = k
      · right; simp [hk, hf]
      · left; simp [hk]
    · split <;> rfl
  | fresh hf _ _ => rw [hf] at hfresh; cases hfresh

/-- steps of threads outside `run`'s critical section keep the positions -/
theorem CtxEff.idx (hE : CtxEff s s' t fr p p') (hfresh : freshFr fr = false) (hcl : isClean fr = false)
    {j : Nat} {c' : Ctx} (hc' : p'.ctxs[j]? = some c') :
    (∃ c, p.ctxs[j]? = some c ∧ c'.id = c.id ∧
      (c'.tid = c.tid ∨ (fr = .runSpStart c.id ∧ c'.tid = some s.nthreads))) ∨
    (fr = .runSpChk ∧ c'.tid = none) := by
  cases hE with
  | same h1 _ _ => exact Or.inl ⟨c', by rw [← h1]; exact hc', rfl, Or.inl rfl⟩
  | term hf h1 _ =>
    rw [h1, List.getElem?_map] at hc'
    cases hj : p.ctxs[j]? with
    | none => rw [hj] at hc'; cases hc'
    | some c =>
      rw [hj] at hc'; simp only [Option.map_some, Option.some.injEq] at hc'; subst hc'
      refine Or.inl ⟨c, rfl, ?_, Or.inl ?_⟩
      all_goals simp only [termCtx]
      all_goals split <;> rfl
  | erase i d hf _ _ _ _ _ => subst hf; cases hcl
  | join i w hf _ _ => subst hf; cases hcl
  | append hf h1 _ =>
    rw [h1] at hc'
    by_cases hj : j < p.ctxs.length
    · rw [List.getElem?_append_left hj] at hc'
      exact Or.inl ⟨c', hc', rfl, Or.inl rfl⟩
    · right
      refine ⟨hf, ?_⟩
      rw [List.getElem?_append_right (by omega)] at hc'
      cases hx : j - p.ctxs.length with
      | zero => rw [hx] at hc'; simp at hc'; subst hc'; rfl
      | succ n => rw [hx] at hc'; simp at hc'
  | start k hf h1 _ _ =>
    rw [h1, List.getElem?_map] at hc'
    cases hj : p.ctxs[j]? with
    | none => rw [hj] at hc'; cases hc'
    | some c =>
      rw [hj] at hc'; simp only [Option.map_some, Option.some.injEq] at hc'; subst hc'
      refine Or.inl ⟨c, rfl, ?_, ?_⟩
      all_goals simp only [startCtx]
      · split <;> rfl
      · by_cases hk : c.id = k
        · right; simp [hk, hf]
        · left; simp [hk]
  | fresh hf _ _ => rw [hf] at hfresh; cases hfresh

/-- ... and forwards -/
theorem CtxEff.idx_fwd (hE : CtxEff s s' t fr p p') (hfresh : freshFr fr = false) (hcl : isClean fr = false)
    {j : Nat} {c : Ctx} (hc : p.ctxs[j]? = some c) :
    ∃ c', p'.ctxs[j]? = some c' ∧ c'.id = c.id ∧
      (c'.tid = c.tid ∨ (fr = .runSpStart c.id ∧ c'.tid = some s.nthreads)) := by
  cases hE with
  | same h1 _ _ => exact ⟨c, by rw [h1]; exact hc, rfl, Or.inl rfl⟩
  | term hf h1 _ =>
    refine ⟨termCtx t c, by rw [h1, List.getElem?_map, hc]; rfl, ?_, Or.inl ?_⟩
    all_goals simp only [termCtx]
    all_goals split <;> rfl
  | erase i d hf _ _ _ _ _ => subst hf; cases hcl
  | join i w hf _ _ => subst hf; cases hcl
  | append hf h1 _ =>
    have hj : j < p.ctxs.length := (List.getElem?_eq_some_iff.mp hc).1
    exact ⟨c, by rw [h1, List.getElem?_append_left hj]; exact hc, rfl, Or.inl rfl⟩
  | start k hf h1 _ _ =>
    refine ⟨startCtx k s.nthreads c, by rw [h1, List.getElem?_map, hc]; rfl, ?_, ?_⟩
    all_goals simp only [startCtx]
    · split <;> rfl
    · by_cases hk : c.id = k
      · right; simp [hk, hf]
      · left; simp [hk]
  | fresh hf _ _ => rw [hf] at hfresh; cases hfresh

theorem CtxEff.next_le (hE : CtxEff s s' t fr p p') (hfresh : freshFr fr = false) : p.nextCtx ≤ p'.nextCtx := by
  cases hE with
  | same _ h _ | term _ _ h | erase _ _ _ _ _ _ _ h | join _ _ _ _ h | start _ _ _ h _ => omega
  | append _ _ h => omega
  | fresh hf _ _ => rw [hf] at hfresh; cases hfresh

end eff

set_option maxHeartbeats 8000000 in
theorem newThread_cause (s : State) (t : Tid) (th : Thread) (fr : Frame)
    (h : (stepFrame s t th fr).1.nthreads ≠ s.nthreads) :
    (∃ i, fr = .mSpawn i) ∨ (∃ k, fr = .runSpStart k ∧ s.pool ≠ none) := by
  revert h
  cases fr <;> simp only [stepFrame] <;> repeat' split
  all_goals
    simp [setThread, setSig, setPool, setFut, withFault, destroySig]
    try (simp_all; done)

theorem fresh_pool_empty {s : State} {t : Tid} {th : Thread} {fr : Frame} {p' : Pool}
    (hf : freshFr fr = true) (hp : s.pool = none) (hp' : (stepFrame s t th fr).1.pool = some p') :
    p'.ctxs = [] ∧ p'.nextCtx = 0 := by
  cases fr <;> simp [freshFr] at hf
  case mInit =>
    simp only [stepFrame] at hp'
    split at hp'
    · simp [setThread, hp] at hp'
    · simp [setThread] at hp'; subst hp'; exact ⟨rfl, rfl⟩
  case cRdTp2 c =>
    simp only [stepFrame] at hp'
    split at hp'
    · simp [setThread, hp] at hp'
    · simp [setThread] at hp'; subst hp'; exact ⟨rfl, rfl⟩

theorem holdK_not_prePool {k : Nat} {f : Frame} (h : holdK k f = true) : prePool f = false := by
  cases f <;> simp [holdK, prePool] at h ⊢
  all_goals (split at h <;> simp_all)

theorem allPre_hold_zero {k : Nat} {l : List Frame} (h : AllPre l) : lsum (bn (holdK k)) l = 0 := by
  induction l with
  | nil => rfl
  | cons a l ih =>
    rw [allPre_cons] at h
    simp only [lsum_cons, ih h.2]
    cases hk : holdK k a with
    | false => simp [bn, hk]
    | true => rw [holdK_not_prePool hk] at h; cases h.1

theorem allPre_no_cleanJoin {l : List Frame} (h : AllPre l) (i : Nat) (w : Tid) : Frame.cleanJoin i w ∉ l := by
  intro hm; have := h _ hm; simp [prePool] at this

structure WInv (s : State) : Prop where
  w1 : ∀ w th, s.threads w = some th → th.isWorker = true → th.finished = false →
    ∃ p, s.pool = some p ∧ ∃ c ∈ p.ctxs, c.tid = some w
  c2 : ∀ t th k p, s.threads t = some th → s.pool = some p → 1 ≤ lsum (bn (holdK k)) th.stack →
    (∃ c ∈ p.ctxs, c.id = k) ∧ (∀ c ∈ p.ctxs, c.id = k → c.tid = none ∧ c.terminated = false) ∧ k < p.nextCtx
  c4 : ∀ p, s.pool = some p → ∀ c ∈ p.ctxs, c.id < p.nextCtx
  c5 : ∀ k, tsum s.nthreads (wtG (bn (holdK k)) s) ≤ 1
  c6 : ∀ t th i w p, s.threads t = some th → s.pool = some p → .cleanJoin i w ∈ th.stack →
    ∃ c, p.ctxs[i]? = some c ∧ c.tid = some w
  c7 : ∀ p, s.pool = some p → ∀ c ∈ p.ctxs, ∀ w, c.tid = some w → (s.threads w).isSome = true
  dd : ∀ t th p j c w, s.threads t = some th → s.pool = some p → HasDone j th.stack →
    p.ctxs[j]? = some c → c.tid = some w → ThFin s w

theorem wInv_init (cfg : Config) : WInv (State.init cfg) := by
  have hthr : ∀ t th, (State.init cfg).threads t = some th → t = 0 ∧ th = { stack := [Frame.mInit] } := by
    intro t th h
    simp only [State.init] at h
    split at h
    · next h0 => injection h with h; exact ⟨h0, h.symm⟩
    · cases h
  constructor
  · intro w th h hw; obtain ⟨_, rfl⟩ := hthr w th h; cases hw
  · intro t th k p _ hp; simp [State.init] at hp
  · intro p hp; simp [State.init] at hp
  · intro k
    have : wtG (bn (holdK k)) (State.init cfg) = fun _ => 0 := by
      funext u
      simp only [wtG]
      cases h : (State.init cfg).threads u with
      | none => rfl
      | some th => obtain ⟨_, rfl⟩ := hthr u th h; simp [bn, holdK]
    rw [this, tsum_const_zero]; omega
  · intro t th i w p _ hp; simp [State.init] at hp
  · intro p hp; simp [State.init] at hp
  · intro t th p j c w _ hp; simp [State.init] at hp

theorem cleanJoin_unblocked {s : State} {t : Tid} {i : Nat} {w : Tid} {thw : Thread}
    (hb : blockedFrame s t (.cleanJoin i w) = false) (hw : s.threads w = some thw) : thw.finished = true := by
  simp [blockedFrame, hw] at hb; exact hb

theorem dFin_done (j : Nat) (rest : List Frame) : HasDone j (.dFin :: rest) :=
  ⟨.dFin, List.mem_cons_self .., rfl⟩

/-- everything `wInv_step` knows about the step -/
structure StepCtx (cfg : Config) (s : State) (t : Tid) (th th' : Thread) (fr : Frame) (rest : List Frame) : Prop where
  hr : Reach cfg s
  hth : s.threads t = some th
  hst : th.stack = fr :: rest
  hfin : th.finished = false
  hblk : blockedFrame s t fr = false
  hth' : (stepFrame s t th fr).1.threads t = some th'
  hwk' : th'.isWorker = th.isWorker
  hS : ShapeS s (stepFrame s t th fr).1 t th fr rest
  hP : ShapeP s (stepFrame s t th fr).1 t th fr rest
  hE : ShapeE s (stepFrame s t th fr).1 t fr rest
  hinit : fr = .mInit → s.pool = none
  hne : t ≠ s.nthreads

theorem stepCtx_of {cfg : Config} {s s' : State} {t : Tid} {o : List String}
    (hr : Reach cfg s) (h : step s t = some (s', o)) :
    ∃ th th' fr rest, s' = (stepFrame s t th fr).1 ∧ StepCtx cfg s t th th' fr rest := by
  obtain ⟨th, fr, rest, hth, hst, hfin, hblk, rfl⟩ := step_inv2 h
  have hSim := reach_inv hr
  have hJ := reach_join hr
  have hrest : NoSpec rest := by
    have := hSim.ringTopOnly t th hth
    rw [hst] at this; exact this
  have hok : StackOk (fr :: rest) := by rw [← hst]; exact (reach_safe hr).stk t th hth
  have hbo : BotOnly (fr :: rest) := by rw [← hst]; exact hJ.botOnly t th hth
  have hS := shapeS s t th fr rest hth hst hrest hok
  obtain ⟨th', hth', _⟩ := (shape1 s t th fr rest hth hst hfin hrest).self
  refine ⟨th, th', fr, rest, rfl, ⟨hr, hth, hst, hfin, hblk, hth', (hS.self th' hth').2.1, hS,
    shapeP s t th fr rest hth hst (fun hb => botOnly_cons_bot hb hbo), shapeE s t th fr rest hth hst, ?_, ?_⟩⟩
  · intro e; subst e
    have := hSim.initOnly t th hth (by rw [hst]; rfl)
    rw [this]; rfl
  · intro e
    have := hSim.fresh t (by rw [e]; exact Nat.le_refl _)
    rw [hth] at this; cases this

section step
variable {cfg : Config} {s : State} {t : Tid} {th th' : Thread} {fr : Frame} {rest : List Frame}

/-- the threads of the new state -/
theorem StepCtx.cases_thread (X : StepCtx cfg s t th th' fr rest) {u : Tid} {thu : Thread}
    (hthu : (stepFrame s t th fr).1.threads u = some thu) :
    (u = t ∧ thu = th') ∨ (u ≠ t ∧ s.threads u = some thu) ∨
    (u ≠ t ∧ u = s.nthreads ∧ s.threads u = none ∧
      (thu = { stack := [.tStart, .wPop1], isWorker := true } ∨ ∃ sc, thu = { stack := [.tStart, .cNext], script := sc })) := by
  by_cases hu : u = t
  · subst hu; rw [X.hth'] at hthu; injection hthu with hthu; exact Or.inl ⟨rfl, hthu.symm⟩
  · rcases X.hS.others u hu with h2 | ⟨h2, h3 | ⟨sc, h3⟩⟩
    · exact Or.inr (Or.inl ⟨hu, by rw [← h2]; exact hthu⟩)
    · refine Or.inr (Or.inr ⟨hu, h2, ?_, Or.inl ?_⟩)
      · exact (reach_inv X.hr).fresh u (by rw [h2]; exact Nat.le_refl _)
      · rw [hthu] at h3; injection h3
    · refine Or.inr (Or.inr ⟨hu, h2, ?_, Or.inr ⟨sc, ?_⟩⟩)
      · exact (reach_inv X.hr).fresh u (by rw [h2]; exact Nat.le_refl _)
      · rw [hthu] at h3; injection h3

/-- an unfinished worker of the new state that is not the freshly started one was an unfinished worker before -/
theorem StepCtx.old_worker (X : StepCtx cfg s t th th' fr rest) {u : Tid} {thu : Thread}
    (hthu : (stepFrame s t th fr).1.threads u = some thu) (hw : thu.isWorker = true) (hf : thu.finished = false) :
    (∃ th0, s.threads u = some th0 ∧ th0.isWorker = true ∧ th0.finished = false) ∨
    (u = s.nthreads ∧ ∃ k, fr = .runSpStart k ∧ s.pool ≠ none) := by
  rcases X.cases_thread hthu with ⟨rfl, rfl⟩ | ⟨_, h2⟩ | ⟨hu, h2, h3, h4 | ⟨sc, h4⟩⟩
  · exact Or.inl ⟨th, X.hth, by rw [← X.hwk']; exact hw, X.hfin⟩
  · exact Or.inl ⟨thu, h2, hw, hf⟩
  · right
    refine ⟨h2, ?_⟩
    have hn : (stepFrame s t th fr).1.nthreads ≠ s.nthreads := by
      intro e
      have := (reach_inv (Reach.step t X.hr (s' := (stepFrame s t th fr).1) (o := (stepFrame s t th fr).2) ?_)).fresh u
        (by rw [e, h2]; exact Nat.le_refl _)
      · rw [hthu] at this; cases this
      · simp only [step, X.hth, X.hst, X.hfin, X.hblk]; rfl
    rcases newThread_cause s t th fr hn with ⟨i, rfl⟩ | h5
    · exfalso
      subst h4
      have : (stepFrame s t th (.mSpawn i)).1.threads s.nthreads = some { stack := [.tStart, .wPop1], isWorker := true } := by
        rw [← h2]; exact hthu
      simp only [stepFrame] at this
      split at this
      · simp [setThread, upd, X.hne, Ne.symm X.hne, h3, ← h2] at this
        exact hu this.1
      · simp [setThread, upd, X.hne, Ne.symm X.hne] at this
    · exact h5
  · subst h4; cases hw

end step

section step2
variable {cfg : Config} {s : State} {t : Tid} {th th' : Thread} {fr : Frame} {rest : List Frame}

/-- a frame that (re)creates the pool does so only while no context exists -/
theorem StepCtx.fresh_same (X : StepCtx cfg s t th th' fr rest) (hf : freshFr fr = true) {p : Pool}
    (hp : s.pool = some p) (hne : p.ctxs ≠ [] ∨ p.nextCtx ≠ 0) : (stepFrame s t th fr).1.pool = s.pool := by
  cases Classical.em ((stepFrame s t th fr).1.pool = s.pool) with
  | inl h => exact h
  | inr h =>
    exfalso
    have hinit2 : fr = .mInit → s = State.init s.cfg := by
      intro e; have := X.hinit e; rw [hp] at this; cases this
    have htp := fresh_tp hf hinit2 h
    have hE := early_of_fresh X.hr X.hth X.hst X.hfin hf htp
    have := hE.ctxs p hp
    subst this
    rcases hne with h1 | h1 <;> exact h1 rfl

theorem holdK_self (k : Nat) (rest : List Frame) : 1 ≤ lsum (bn (holdK k)) (.runSpStart k :: rest) := by
  simp [bn, holdK]

theorem StepCtx.w1 (X : StepCtx cfg s t th th' fr rest) (hI : WInv s) :
    ∀ w thw, (stepFrame s t th fr).1.threads w = some thw → thw.isWorker = true → thw.finished = false →
      ∃ p, (stepFrame s t th fr).1.pool = some p ∧ ∃ c ∈ p.ctxs, c.tid = some w := by
  intro u thu hthu hw hf
  rcases X.old_worker hthu hw hf with ⟨th0, h0, hw0, hf0⟩ | ⟨hu, k, hfr, hpn⟩
  · obtain ⟨p, hp, c, hc, hct⟩ := hI.w1 u th0 h0 hw0 hf0
    cases hp' : (stepFrame s t th fr).1.pool with
    | none =>
      exfalso
      have hfr : fr = .dFin := by
        cases Classical.em (fr = .dFin) with
        | inl h => exact h
        | inr h => exact absurd hp' (X.hP.keep h (by rw [hp]; exact fun h => by cases h))
      subst hfr
      obtain ⟨j, hj⟩ := List.mem_iff_getElem?.mp hc
      obtain ⟨thx, hx1, hx2⟩ := hI.dd t th p j c u X.hth hp (by rw [X.hst]; exact dFin_done j rest) hj hct
      rw [h0] at hx1; injection hx1 with hx1; subst hx1; rw [hf0] at hx2; cases hx2
    | some p' =>
      cases hfresh : freshFr fr with
      | true =>
        have := X.fresh_same hfresh hp (Or.inl (by intro e; rw [e] at hc; cases hc))
        rw [hp', hp] at this; injection this with this; subst this
        exact ⟨p', rfl, c, hc, hct⟩
      | false =>
        have hEff := shapeC s t th fr X.hne p p' hp hp'
        obtain ⟨c', hc', _, h2, _⟩ := hEff.surv hc hfresh
          (by
            intro i d _ _ hd e; subst e; rw [hd] at hct; cases hct)
          (by
            intro i w0 d hf2 hd e; subst e; subst hf2
            obtain ⟨d, hd1, hd2⟩ := hI.c6 t th i w0 p X.hth hp (by rw [X.hst]; exact List.mem_cons_self ..)
            rw [hd] at hd1; injection hd1 with hd1; subst hd1
            rw [hct] at hd2; injection hd2 with hd2; subst hd2
            have := cleanJoin_unblocked X.hblk h0
            rw [hf0] at this; cases this)
          (by
            intro k hf2 e; subst hf2
            have := ((hI.c2 t th k p X.hth hp (by rw [X.hst]; exact holdK_self k rest)).2.1 c hc e).1
            rw [hct] at this; cases this)
        exact ⟨p', rfl, c', hc', by rw [h2]; exact hct⟩
  · subst hfr
    cases hp : s.pool with
    | none => exact absurd hp hpn
    | some p =>
      obtain ⟨⟨c, hc, hck⟩, _, _⟩ := hI.c2 t th k p X.hth hp (by rw [X.hst]; exact holdK_self k rest)
      cases hp' : (stepFrame s t th (.runSpStart k)).1.pool with
      | none => exact absurd hp' (X.hP.keep (by intro e; cases e) hpn)
      | some p' =>
        have hEff := shapeC s t th (.runSpStart k) X.hne p p' hp hp'
        cases hEff with
        | same _ _ h => exact absurd rfl (h k)
        | term h _ _ => cases h
        | erase _ _ h _ _ _ _ _ => cases h
        | join _ _ h _ _ => cases h
        | append h _ _ => cases h
        | fresh h _ _ => cases h
        | start k' h h1 _ _ =>
          injection h with h; subst h
          refine ⟨p', rfl, startCtx k s.nthreads c, by rw [h1]; exact List.mem_map_of_mem hc, ?_⟩
          simp [startCtx, hck, hu]

end step2

end Nstd.Future
