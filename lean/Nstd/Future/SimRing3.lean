/-
  Simulation of the ring system by the full Future/ThreadPool model, part 3:
  while `Private::_threadPool` is still 0 (`tp = false`) and the pool has not been deleted, no thread is
  inside pool code (`Early`): a pool created then starts with no thread inside `push` / `pop`.
-/
import Nstd.Future.SimRing1
namespace Nstd.Future

/-- frames a thread can be in while `tp = false` -/
def prePool : Frame → Bool
  | .sSetLock _ | .sSetStore _ | .sSetUnlock _ | .sSetBcast _ _ | .sRstLock _ | .sRstStore _ | .sRstUnlock _
  | .sWaitLock _ | .sWaitChk _ | .sWaitUnlock _ | .sWaitCwait _ | .sWaitCwake _ | .sWaitRelock _ => true
  | .cNext | .cRdTp _ | .cSpin _ | .cRdTp2 _ | .cSwapTp _ | .cStarted _ _ | .join _ | .joinClr _
  | .evJoined _ | .evResult _ | .destroyF _ | .cEnd _ => true
  | .mInit | .mSpawn _ | .mSpawned _ _ | .mJoin _ | .mDel | .dPush _ | .dJoin _ | .dFin | .tStart | .tExit => true
  | _ => false

def AllPre (l : List Frame) : Prop := ∀ f ∈ l, prePool f = true

theorem allPre_nil : AllPre [] := by intro f hf; cases hf
theorem allPre_cons {a : Frame} {l : List Frame} : AllPre (a :: l) ↔ prePool a = true ∧ AllPre l := by
  simp [AllPre]
theorem AllPre.ringTop {l : List Frame} (h : AllPre l) : ringTop l = none := by
  cases l with
  | nil => rfl
  | cons a l =>
    have := h a (List.mem_cons_self ..)
    cases a <;> first | rfl | (simp [prePool] at this)

structure Early (s : State) : Prop where
  pre : ∀ t th, s.threads t = some th → AllPre th.stack
  ctxs : ∀ p, s.pool = some p → p = mkPool 0x100 0 4

structure Shape3 (s s' : State) (t : Tid) : Prop where
  self : ∃ th', s'.threads t = some th' ∧ AllPre th'.stack
  others : ∀ u, u ≠ t → s'.threads u = s.threads u ∨ ∃ thw, s'.threads u = some thw ∧ AllPre thw.stack
  ctxs : ∀ p', s'.pool = some p' → p' = mkPool 0x100 0 4

set_option maxHeartbeats 4000000 in
theorem shape3 (s : State) (t : Tid) (th : Thread) (fr : Frame) (rest : List Frame)
    (hth : s.threads t = some th) (hst : th.stack = fr :: rest)
    (hpre : AllPre (fr :: rest)) (hctx : ∀ p, s.pool = some p → p = mkPool 0x100 0 4) (htp : s.tp = false)
    (htp' : (stepFrame s t th fr).1.tp = false) (hl' : ((stepFrame s t th fr).1.sigs 0).live = true) :
    Shape3 s (stepFrame s t th fr).1 t := by
  rw [allPre_cons] at hpre
  obtain ⟨hfr, hrest⟩ := hpre
  have hrt : AllPre rest.tail := fun f hf => hrest f (List.mem_of_mem_tail hf)
  revert htp' hl'
  cases fr <;> simp only [prePool, Bool.false_eq_true] at hfr <;> simp only [stepFrame] <;> repeat' split
  all_goals
    intro htp' hl'
    first
    | (have h : s.tp = true := by assumption
       rw [htp] at h; cases h)
    | (simp [setThread] at htp'; done)
    | skip
  all_goals
    try (have hpp := hctx _ (by assumption); subst hpp)
    constructor
    · simp [setThread, setSig, setFut, withFault, destroySig, upd_same, Thread.cont, hst, hth, prePool, hrest, allPre_cons, allPre_nil]
      try (simp_all [mkPool]; done)
    · intro u hu
      simp [setThread, setSig, setFut, withFault, destroySig, upd_ne _ _ hu]
      try (by_cases hw : u = s.nthreads
           · right; subst hw; refine ⟨_, by rw [upd_same], ?_⟩
             simp [allPre_cons, allPre_nil, prePool]
           · left; exact upd_ne _ _ hw)
    · simp [setThread, setSig, setFut, withFault, destroySig]
      try assumption

end Nstd.Future
