/-
  Join side of deadlock freedom, part 2: token CONSERVATION per micro-step (the equality version of
  `Safety3.shapeT` / `Safety4.ringStep_tok`).
-/
import Nstd.Future.LiveJoin1
set_option linter.unusedSimpArgs false
set_option linter.unusedVariables false
namespace Nstd.Future.LJ

def lFresh : Frame → Bool
  | .mInit | .cRdTp2 _ => true
  | _ => false
def isDFin : Frame → Bool
  | .dFin => true
  | _ => false

structure ShapeTE (s s' : State) (t : Tid) (th : Thread) (fr : Frame) (c : Nat) : Prop where
  self : ∀ th', s'.threads t = some th' →
    weight c th' + s'.freeCount c = weight c th + s.freeCount c + (if s'.nextCall = s.nextCall + 1 ∧ c = s.nextCall then 1 else 0) ∧
    (s'.completed c = false → lsum (pw3 c) th'.stack + s'.freeCount c ≤ lsum (pw3 c) th.stack + s.freeCount c) ∧
    (s.completed c = true → s'.completed c = true)
  pool : ringTok c s'.pool = ringTok c s.pool ∨ lFresh fr = true ∨ isDFin fr = true

set_option maxHeartbeats 16000000 in
theorem shapeTE (s : State) (t : Tid) (th : Thread) (fr : Frame) (rest : List Frame) (c : Nat)
    (hth : s.threads t = some th) (hst : th.stack = fr :: rest) (hnc : NoChk rest)
    (hlast : LastOnly (fr :: rest))
    (hnr : isRing fr = false) (hrec : ∀ c', reads fr = some c' → s.calls c' ≠ none) :
    ShapeTE s (stepFrame s t th fr).1 t th fr c := by
  have hwb : ∀ rb rj, wS c rb rj rest = base c rj rest := fun rb rj => wS_eq_base hnc
  cases fr <;> simp only [isRing, Bool.true_eq_false] at hnr <;> simp only [reads, Option.some.injEq, forall_eq', false_implies, implies_true] at hrec <;> simp only [stepFrame] <;> repeat' split
  all_goals
    try (have hr := lastOnly_cons_last (a := _) rfl hlast; subst hr)
    constructor
    · intro th' h
      simp [setThread, setSig, setPool, setFut, withFault, destroySig, upd_same, hth] at h
      subst h
      simp [weight, Thread.cont, hst, hwb, topW, fw, pcW, pw3, upd, setThread, setSig, setPool, setFut, withFault, destroySig, *]
      try grind
    · simp [setThread, setSig, setPool, setFut, withFault, destroySig, ringTok_mk, ringTok_none, mkPool, Ring.init, cntLog_nil, lFresh, isDFin, *]
      try (simp [setFsState]; split <;> simp)

end Nstd.Future.LJ
