/-
  Join side of deadlock freedom, part 2: token CONSERVATION per micro-step (the equality version of
  `Safety3.shapeT` / `Safety4.ringStep_tok`).
-/
import Nstd.Future.LiveJoin1
set_option linter.unusedSimpArgs false
set_option linter.unusedVariables false
namespace Nstd.Future.LJ

def lFresh : Frame → Bool
  | .mInit | .cRdTp2 _ => true
  | _ => false
def isDFin : Frame → Bool
  | .dFin => true
  | _ => false

structure ShapeTE (s s' : State) (t : Tid) (th : Thread) (fr : Frame) (c : Nat) : Prop where
  self : ∀ th', s'.threads t = some th' →
    weight c th' + s'.freeCount c = weight c th + s.freeCount c + (if s'.nextCall = s.nextCall + 1 ∧ c = s.nextCall then 1 else 0) ∧
    (s'.completed c = false → lsum (pw3 c) th'.stack + s'.freeCount c ≤ lsum (pw3 c) th.stack + s.freeCount c) ∧
    (s.completed c = true → s'.completed c = true)
  pool : ringTok c s'.pool = ringTok c s.pool ∨ lFresh fr = true ∨ isDFin fr = true

set_option maxHeartbeats 16000000 in
theorem shapeTE (s : State) (t : Tid) (th : Thread) (fr : Frame) (rest : List Frame) (c : Nat)
    (hth : s.threads t = some th) (hst : th.stack = fr :: rest) (hnc : NoChk rest)
    (hlast : LastOnly (fr :: rest))
    (hnr : isRing fr = false) (hrec : ∀ c', reads fr = some c' → s.calls c' ≠ none) :
    ShapeTE s (stepFrame s t th fr).1 t th fr c := by
  have hwb : ∀ rb rj, wS c rb rj rest = base c rj rest := fun rb rj => wS_eq_base hnc
  cases fr <;> simp only [isRing, Bool.true_eq_false] at hnr <;> simp only [reads, Option.some.injEq, forall_eq', false_implies, implies_true] at hrec <;> simp only [stepFrame] <;> repeat' split
  all_goals
    try (have hr := lastOnly_cons_last (a := _) rfl hlast; subst hr)
    constructor
    · intro th' h
      simp [setThread, setSig, setPool, setFut, withFault, destroySig, upd_same, hth] at h
      subst h
      simp [weight, Thread.cont, hst, hwb, topW, fw, pcW, pw3, upd, setThread, setSig, setPool, setFut, withFault, destroySig, *]
      try grind
    · simp [setThread, setSig, setPool, setFut, withFault, destroySig, ringTok_mk, ringTok_none, mkPool, Ring.init, cntLog_nil, lFresh, isDFin, *]
      try (simp [setFsState]; split <;> simp)

/-! ### the ring part -/

theorem cntLog_push_eq (c : Nat) (push : List Job) (pop : List (Nat × Option Job)) (d : Job)
    (hlt : ∀ x ∈ pop.map Prod.fst, x < push.length) :
    cntLog c (push ++ [d]) pop = cntLog c push pop + (if d = some c then 1 else 0) := by
  simp only [cntLog, List.length_append, List.length_singleton, tsum]
  have h1 : tsum push.length (fun x => if (push ++ [d])[x]? = some (some c) ∧ x ∉ pop.map Prod.fst then 1 else 0)
      = tsum push.length (fun x => if push[x]? = some (some c) ∧ x ∉ pop.map Prod.fst then 1 else 0) := by
    apply tsum_congr
    intro u hu
    simp only [List.getElem?_append_left hu]
  rw [h1]
  have h2 : (push ++ [d])[push.length]? = some d := by simp
  have h3 : push.length ∉ pop.map Prod.fst := fun h => Nat.lt_irrefl _ (hlt _ h)
  rw [h2]
  by_cases hd : d = some c
  · simp [hd, h3]
  · have : ¬ (some d = some (some c) ∧ push.length ∉ pop.map Prod.fst) := by
      intro h; apply hd; injection h.1
    simp only [this, if_false, hd]

theorem wS_ret_push_eq {c : Nat} {rj d : Job} {rest : List Frame} {pc : RingPc Job} {b : Bool}
    (hlink : linkOk (.ring pc :: rest)) (hsl : slOk (.ring pc :: rest)) (hd : pushPay pc = some d) :
    wS c b rj rest = (if b = false ∧ d = some c then 1 else 0) + base c rj rest := by
  cases rest with
  | nil =>
    rcases d with _ | c'
    · simp
    · have := hsl.2 c' hd; simp at this
  | cons g r2 =>
    have hc : compat pc g := hlink
    have hp := pushPay_not_pop hd
    simp only [wS_cons, base_cons]
    rcases d with _ | c'
    · cases g <;> simp only [compat, hd, hp, Option.some.injEq, Bool.false_eq_true] at hc <;> simp [topW, fw] <;> grind
    · rcases hsl.2 c' hd with h | h <;> simp at h <;> subst h <;> simp [topW, fw]

theorem wS_ret_pop_eq {c : Nat} {rj j' : Job} {rest : List Frame} {pc : RingPc Job} {b : Bool}
    (hsl : slOk (.ring pc :: rest)) (hpop : isPop pc = true) (hnwd : NoWD rest) :
    wS c b j' rest = (if b = true ∧ j' = some c then 1 else 0) + base c rj rest := by
  have h := hsl.1 hpop
  cases rest with
  | nil => simp at h
  | cons g r2 =>
    obtain ⟨hg, hr2⟩ := noWD_cons.mp hnwd
    simp only [List.head?_cons, Option.any_some] at h
    simp only [wS_cons, base_cons, base_rj (rj := rj) (rj' := j') hr2]
    cases g <;> simp [isWChk] at h <;> simp [topW, fw]

theorem ringStep_tok_eq (c : Nat) (r : Ring Job) (pc : RingPc Job) (rj : Job) (rest : List Frame)
    (hlink : linkOk (.ring pc :: rest)) (hsl : slOk (.ring pc :: rest)) (hnwd : NoWD rest)
    (hF : ∀ x, pc = .popData x → (r.slots (x % r.cap)).data = r.pushLog[x]? ∧ x < r.pushLog.length ∧
      x ∉ r.popLog.map Prod.fst)
    (hlog : ∀ x ∈ r.popLog.map Prod.fst, x < r.pushLog.length) :
    tokRes c rj rest (ringStep r pc).2 + cntLog c (ringStep r pc).1.pushLog (ringStep r pc).1.popLog =
      pcW c pc + base c rj rest + cntLog c r.pushLog r.popLog := by
  cases pc with
  | pushRead d => simp [ringStep, tokRes, pcW]
  | pushChk d x =>
    simp only [ringStep]
    split
    · have := wS_ret_push_eq (c := c) (rj := rj) (b := false) hlink hsl rfl
      simp [tokRes, pcW] at this ⊢; omega
    · simp [tokRes, pcW]
  | pushCas d x =>
    simp only [ringStep]
    split
    · have := cntLog_push_eq c r.pushLog r.popLog d hlog
      simp [tokRes, pcW]; omega
    · simp [tokRes, pcW]
  | pushData d x => simp [ringStep, tokRes, pcW, Ring.setSlot]
  | pushPub d x =>
    have := wS_ret_push_eq (c := c) (rj := rj) (b := true) hlink hsl rfl
    simp [ringStep, tokRes, pcW, Ring.setSlot] at this ⊢; omega
  | popRead => simp [ringStep, tokRes, pcW]
  | popChk x =>
    simp only [ringStep]
    split
    · have := wS_ret_pop_eq (c := c) (rj := rj) (j' := rj) (b := false) hsl rfl hnwd
      simp [tokRes, pcW] at this ⊢; omega
    · simp [tokRes, pcW]
  | popCas x =>
    simp only [ringStep]
    split <;> simp [tokRes, pcW]
  | popData x =>
    obtain ⟨h1, h2, h3⟩ := hF x rfl
    have := cntLog_pop c r.pushLog r.popLog x _ h2 h1 h3
    simp [ringStep, tokRes, pcW, Ring.setSlot]; omega
  | popRel x d =>
    rcases d with _ | jj
    · have := wS_ret_pop_eq (c := c) (rj := rj) (j' := none) (b := true) hsl rfl hnwd
      simp [ringStep, tokRes, pcW, Ring.setSlot] at this ⊢; omega
    · have := wS_ret_pop_eq (c := c) (rj := rj) (j' := jj) (b := true) hsl rfl hnwd
      simp [ringStep, tokRes, pcW, Ring.setSlot] at this ⊢; omega

/-- token conservation of a `push`/`pop` micro-step -/
theorem shapeRE {s : State} {t : Tid} {th : Thread} {pc : RingPc Job} {rest : List Frame} {p : Pool}
    (hp : s.pool = some p) (hth : s.threads t = some th) (hst : th.stack = .ring pc :: rest)
    (hok : StackOk (.ring pc :: rest)) (hsl : slOk (.ring pc :: rest))
    (hF : ∀ x, pc = .popData x → (p.ring.slots (x % p.ring.cap)).data = p.ring.pushLog[x]? ∧
      x < p.ring.pushLog.length ∧ x ∉ p.ring.popLog.map Prod.fst)
    (hlog : ∀ x ∈ p.ring.popLog.map Prod.fst, x < p.ring.pushLog.length) :
    ∀ c th', (stepFrame s t th (.ring pc)).1.threads t = some th' →
      weight c th' + ringTok c (stepFrame s t th (.ring pc)).1.pool = weight c th + ringTok c s.pool := by
  obtain ⟨b, j, k, l, flt, hs', hcase⟩ := ring_step_some (t := t) hp hst
  rw [hs']
  have hnwd := (stackOk_ring hok).2
  intro c th' h
  simp [setThread, upd_same] at h
  subst h
  have key := ringStep_tok_eq c p.ring pc th.retJob rest hok.link hsl hnwd hF hlog
  simp only [weight, hst, wS_cons, setThread, setPool, ringTok_mk, hp]
  have htw : topW c th.retB th.retJob (.ring pc) = pcW c pc := rfl
  rw [htw]
  rcases hcase with ⟨pc', h1, rfl, rfl, rfl, rfl⟩ | ⟨ok, h1, rfl, rfl, rfl, rfl⟩ | ⟨h1, rfl, rfl, rfl, rfl⟩ |
    ⟨jj, h1, rfl, rfl, rfl, rfl⟩ | ⟨h1, rfl, rfl, rfl, rfl⟩
  all_goals
    rw [h1] at key
    simp only [tokRes] at key
    first | exact key | (simp only [wS_cons]; exact key)

end Nstd.Future.LJ
