/-
  Safety of the Future/ThreadPool model, part 6: the token invariant `SafeInv` and its preservation.
-/
import Nstd.Future.Safety5
set_option linter.unusedSimpArgs false
set_option linter.unusedVariables false
namespace Nstd.Future

/-- value of a thread slot -/
def valW (c : Nat) : Option Thread → Nat
  | some th => weight c th
  | none => 0
def valG (g : Frame → Nat) : Option Thread → Nat
  | some th => lsum g th.stack
  | none => 0

theorem wt_eq (s : State) (c : Nat) : wt s c = fun u => valW c (s.threads u) := by
  funext u; simp only [wt, valW]; cases s.threads u <;> rfl
theorem wtG_eq (g : Frame → Nat) (s : State) : wtG g s = fun u => valG g (s.threads u) := by
  funext u; simp only [wtG, valG]; cases s.threads u <;> rfl

structure SafeInv (s : State) : Prop where
  stk : ∀ t th, s.threads t = some th → StackOk th.stack
  last : ∀ t th, s.threads t = some th → LastOnly th.stack
  wk : ∀ t th, s.threads t = some th → th.isWorker = false → NoW th.stack
  tok : ∀ c, tsum s.nthreads (wt s c) + ringTok c s.pool + s.freeCount c ≤ 1
  zero : ∀ c, s.nextCall ≤ c → tsum s.nthreads (wt s c) + ringTok c s.pool + s.freeCount c = 0 ∧
    s.everCalls c = none ∧ s.calls c = none ∧ s.execArgs c = none
  exe : ∀ c, s.execCount c = tsum s.nthreads (wtG (pw2 c) s) + s.freeCount c
  comp : ∀ c, s.completed c = true → 1 ≤ tsum s.nthreads (wtG (pw3 c) s) + s.freeCount c
  recs : ∀ c, c < s.nextCall → s.everCalls c ≠ none ∧
    (s.calls c = s.everCalls c ∨ (s.calls c = none ∧ 1 ≤ s.freeCount c))
  args : ∀ c a b, s.execArgs c = some (a, b) → ∃ r, s.everCalls c = some r ∧ r.a = a ∧ r.b = b
  flt : s.fault = none ∨ s.fault = some "no pool"

theorem tsum_const_zero (n : Nat) : tsum n (fun _ => 0) = 0 := by
  induction n with
  | zero => rfl
  | succ k ih => simp [tsum, ih]

theorem safeInv_init (cfg : Config) : SafeInv (State.init cfg) := by
  have hthr : ∀ t th, (State.init cfg).threads t = some th → t = 0 ∧ th = { stack := [Frame.mInit] } := by
    intro t th h
    simp only [State.init] at h
    split at h
    · next h0 => injection h with h; exact ⟨h0, h.symm⟩
    · cases h
  have hw : ∀ c u, wt (State.init cfg) c u = 0 := by
    intro c u
    simp only [wt]
    cases h : (State.init cfg).threads u with
    | none => rfl
    | some th => obtain ⟨_, rfl⟩ := hthr u th h; simp [weight, topW, fw]
  have hg : ∀ g : Frame → Nat, g .mInit = 0 → ∀ u, wtG g (State.init cfg) u = 0 := by
    intro g h0 u
    simp only [wtG]
    cases h : (State.init cfg).threads u with
    | none => rfl
    | some th => obtain ⟨_, rfl⟩ := hthr u th h; simp [h0]
  have hsum : ∀ c, tsum (State.init cfg).nthreads (wt (State.init cfg) c) = 0 := by
    intro c; rw [show wt (State.init cfg) c = fun _ => 0 from funext (hw c)]; exact tsum_const_zero _
  constructor
  · intro t th h; obtain ⟨_, rfl⟩ := hthr t th h
    exact ⟨by simp [chkOk, noChk_nil], by simp [wdOk, noWD_nil], trivial⟩
  · intro t th h; obtain ⟨_, rfl⟩ := hthr t th h; exact lastOnly_singleton _
  · intro t th h _; obtain ⟨_, rfl⟩ := hthr t th h; simp [noW_cons, noW_nil, isW]
  · intro c; rw [hsum c]; simp [State.init, ringTok_none]
  · intro c _; rw [hsum c]; simp [State.init, ringTok_none]
  · intro c
    rw [show wtG (pw2 c) (State.init cfg) = fun _ => 0 from funext (hg _ rfl), tsum_const_zero]; rfl
  · intro c h; simp [State.init] at h
  · intro c h; simp [State.init] at h
  · intro c a b h; simp [State.init] at h
  · left; rfl

/-- per-thread sums across one step -/
theorem tsum_step {s s' : State} {t : Tid} {th : Thread} {fr : Frame} {rest : List Frame}
    (val : Option Thread → Nat) (h0 : val none = 0)
    (hw : val (some { stack := [.tStart, .wPop1], isWorker := true }) = 0)
    (hc : ∀ sc, val (some { stack := [.tStart, .cNext], script := sc }) = 0)
    (hS : ShapeS s s' t th fr rest) (hfresh : ∀ u, s.nthreads ≤ u → s.threads u = none) (ht : t < s.nthreads) :
    tsum s'.nthreads (fun u => val (s'.threads u)) + val (s.threads t) =
      tsum s.nthreads (fun u => val (s.threads u)) + val (s'.threads t) := by
  have hoth : ∀ u, u < s.nthreads → u ≠ t → val (s'.threads u) = val (s.threads u) := by
    intro u hu hne
    rcases hS.others u hne with h | ⟨h, _⟩
    · rw [h]
    · have : (u : Nat) = s.nthreads := h
      omega
  rcases hS.nth with hn | hn
  · rw [hn]; exact tsum_upd ht hoth
  · rw [hn]; simp only [tsum]
    have hnew : val (s'.threads s.nthreads) = 0 := by
      have hne : s.nthreads ≠ t := Nat.ne_of_gt ht
      rcases hS.others s.nthreads hne with h | ⟨_, h | ⟨sc, h⟩⟩
      · rw [h, hfresh _ (Nat.le_refl _)]; exact h0
      · rw [h]; exact hw
      · rw [h]; exact hc sc
    have := tsum_upd (f := fun u => val (s.threads u)) (g := fun u => val (s'.threads u)) ht hoth
    omega

/-- what the token invariant needs to know about one step -/
structure StepFacts (s s' : State) (th th' : Thread) : Prop where
  tok : ∀ c, weight c th' + ringTok c s'.pool + s'.freeCount c ≤
    weight c th + ringTok c s.pool + s.freeCount c + (if s'.nextCall = s.nextCall + 1 ∧ c = s.nextCall then 1 else 0)
  exe : ∀ c, s'.execCount c + lsum (pw2 c) th.stack + s.freeCount c =
    s.execCount c + lsum (pw2 c) th'.stack + s'.freeCount c
  p3 : ∀ c, lsum (pw3 c) th.stack + s.freeCount c ≤ lsum (pw3 c) th'.stack + s'.freeCount c
  comp : ∀ c, s'.completed c = true → s.completed c = true ∨ 1 ≤ lsum (pw3 c) th'.stack
  free : ∀ c, s.freeCount c ≤ s'.freeCount c
  nc : s'.nextCall = s.nextCall ∨
    (s'.nextCall = s.nextCall + 1 ∧ s'.everCalls s.nextCall ≠ none ∧ s'.calls s.nextCall = s'.everCalls s.nextCall)
  ever : ∀ c, s'.everCalls c = s.everCalls c ∨ (c = s.nextCall ∧ s'.nextCall = s.nextCall + 1)
  calls : ∀ c, s'.calls c = s.calls c ∨ (c = s.nextCall ∧ s'.nextCall = s.nextCall + 1) ∨
    (s'.calls c = none ∧ s'.freeCount c = s.freeCount c + 1)
  args : ∀ c, s'.execArgs c = s.execArgs c ∨ ∃ r, s.calls c = some r ∧ s'.execArgs c = some (r.a, r.b)
  flt : s'.fault = s.fault ∨ s'.fault = some (s.fault.getD "no pool")

theorem lsum_ring_stack {g : Frame → Nat} (hg : ∀ pc, g (.ring pc) = 0) {l rest : List Frame} {pc : RingPc Job}
    (h : l = rest ∨ ∃ pc', l = .ring pc' :: rest) : lsum g l = lsum g (.ring pc :: rest) := by
  rcases h with rfl | ⟨pc', rfl⟩ <;> simp [hg]

theorem stepFacts {cfg : Config} {s : State} {t : Tid} {th th' : Thread} {fr : Frame} {rest : List Frame}
    (hr : Reach cfg s) (hth : s.threads t = some th) (hst : th.stack = fr :: rest)
    (hok : StackOk (fr :: rest)) (hlast : LastOnly (fr :: rest))
    (hrec : ∀ c', reads fr = some c' → s.calls c' ≠ none)
    (hth' : (stepFrame s t th fr).1.threads t = some th') :
    StepFacts s (stepFrame s t th fr).1 th th' := by
  cases hring : isRing fr with
  | false =>
    have hnc : NoChk rest := by
      rcases hok.chk with h | h
      · exact h
      · simp [hring] at h
    have hT := fun c => shapeT s t th fr rest c hth hst hnc hlast hring hrec
    have hD := shapeD s t th fr hring hrec
    exact {
      tok := fun c => by have := ((hT c).self th' hth').1; have := (hT c).pool; omega
      exe := fun c => ((hT c).self th' hth').2.1
      p3 := fun c => ((hT c).self th' hth').2.2.1
      comp := fun c => ((hT c).self th' hth').2.2.2.1
      free := fun c => ((hT c).self th' hth').2.2.2.2
      nc := by
        rcases hD.nc with h | h
        · exact Or.inl h
        · exact Or.inr h.2
      ever := hD.ever
      calls := hD.calls
      args := hD.args
      flt := hD.flt }
  | true =>
    obtain ⟨pc, rfl⟩ : ∃ pc, fr = .ring pc := by
      cases fr <;> first | exact ⟨_, rfl⟩ | (simp [isRing] at hring)
    cases hp : s.pool with
    | none =>
      have hs' : (stepFrame s t th (.ring pc)).1 = withFault s "no pool" := by simp [stepFrame, hp]
      rw [hs'] at hth' ⊢
      have : th' = th := by
        simp [withFault, hth] at hth'; exact hth'.symm
      subst this
      exact {
        tok := fun c => by simp [withFault]
        exe := fun c => by simp [withFault]
        p3 := fun c => by simp [withFault]
        comp := fun c h => Or.inl h
        free := fun c => Nat.le_refl _
        nc := Or.inl rfl
        ever := fun c => Or.inl rfl
        calls := fun c => Or.inl rfl
        args := fun c => Or.inl rfl
        flt := Or.inr rfl }
    | some p =>
      have hF : ∀ x, pc = .popData x → (p.ring.slots (x % p.ring.cap)).data = p.ring.pushLog[x]? ∧
          x < p.ring.pushLog.length ∧ x ∉ p.ring.popLog.map Prod.fst := by
        intro x hx
        subst hx
        have htop : th.stack.head? = some (.ring (.popData x)) := by rw [hst]; rfl
        obtain ⟨h1, h2⟩ := full_popData_slot hr hp hth htop
        refine ⟨h2, h1, ?_⟩
        have hpc : (proj s).pcs t = some (.popData x) := by rw [full_pcs hp hth]; exact head?_ring htop
        have := ring_popData_not_logged (capOf_pos cfg) (reach_ring hr) hpc
        rwa [full_ring hp] at this
      have hR := shapeR hp hth hst hok hF
      obtain ⟨g1, g2, g3, g4, g5, g6, g7⟩ := hR.ghost
      have hstk := hR.stk th' hth'
      have hl2 : ∀ c, lsum (pw2 c) th'.stack = lsum (pw2 c) th.stack := by
        intro c; rw [hst]; exact lsum_ring_stack (fun _ => rfl) hstk
      have hl3 : ∀ c, lsum (pw3 c) th'.stack = lsum (pw3 c) th.stack := by
        intro c; rw [hst]; exact lsum_ring_stack (fun _ => rfl) hstk
      exact {
        tok := fun c => by have := hR.tok c th' hth'; rw [g1]; omega
        exe := fun c => by rw [g1, g2, hl2]
        p3 := fun c => by rw [g1, hl3]; omega
        comp := fun c h => by rw [g3] at h; exact Or.inl h
        free := fun c => by rw [g1]; exact Nat.le_refl _
        nc := Or.inl g4
        ever := fun c => by rw [g6]; exact Or.inl rfl
        calls := fun c => by rw [g5]; exact Or.inl rfl
        args := fun c => by rw [g7]; exact Or.inl rfl
        flt := by
          rcases hR.flt with h | ⟨x, hx⟩
          · exact Or.inl h
          · subst hx
            have htop : th.stack.head? = some (.ring (.popRel x none)) := by rw [hst]; rfl
            obtain ⟨j, hj⟩ := full_popRel_some hr hp hth htop
            cases hj }

theorem reads_weight {c' : Nat} {fr : Frame} {rb : Bool} {rj : Job} (h : reads fr = some c') :
    topW c' rb rj fr = 1 := by
  cases fr <;> simp [reads] at h <;> subst h <;> simp [topW, fw]

theorem stackOk_fresh (x : Frame) (h1 : isChk x = false) (h2 : isWD x = false) : StackOk [.tStart, x] :=
  ⟨Or.inl (by simp [noChk_cons, noChk_nil, h1]), Or.inl (by simp [noWD_cons, noWD_nil, h2]), trivial⟩

theorem safeInv_step {cfg : Config} {s s' : State} {t : Tid} {o : List String}
    (hr : Reach cfg s) (hI : SafeInv s) (h : step s t = some (s', o)) : SafeInv s' := by
  obtain ⟨th, fr, rest, hth, hst, hfin, rfl⟩ := step_inv h
  have hSim := reach_inv hr
  have hrest : NoSpec rest := by
    have := hSim.ringTopOnly t th hth
    rw [hst] at this; exact this
  have hok : StackOk (fr :: rest) := by rw [← hst]; exact hI.stk t th hth
  have hlast : LastOnly (fr :: rest) := by rw [← hst]; exact hI.last t th hth
  have hS := shapeS s t th fr rest hth hst hrest hok
  obtain ⟨th', hth', _⟩ := (shape1 s t th fr rest hth hst hfin hrest).self
  have ht : t < s.nthreads := by
    cases Nat.lt_or_ge t s.nthreads with
    | inl h => exact h
    | inr h => have := hSim.fresh t h; rw [hth] at this; cases this
  obtain ⟨hok', hwk', hnw', hlast'⟩ := hS.self th' hth'
  have hwt : ∀ c, wt s c t = weight c th := by intro c; simp [wt, hth]
  -- the record read by this step is alive
  have hrec : ∀ c', reads fr = some c' → s.calls c' ≠ none := by
    intro c' hc'
    have hw1 : 1 ≤ weight c' th := by
      simp only [weight, hst, wS_cons, reads_weight hc']; omega
    have hw2 : 1 ≤ tsum s.nthreads (wt s c') := by
      have := tsum_ge (f := wt s c') ht; rw [hwt] at this; omega
    have htok := hI.tok c'
    have hlt : c' < s.nextCall := by
      cases Nat.lt_or_ge c' s.nextCall with
      | inl h => exact h
      | inr h => have := (hI.zero c' h).1; omega
    obtain ⟨h1, h2 | h2⟩ := hI.recs c' hlt
    · rw [h2]; exact h1
    · omega
  have hF := stepFacts hr hth hst hok hlast hrec hth'
  generalize (stepFrame s t th fr).1 = s' at *
  -- sums
  have hsumW : ∀ c, tsum s'.nthreads (wt s' c) + weight c th = tsum s.nthreads (wt s c) + weight c th' := by
    intro c
    have := tsum_step (valW c) rfl (by simp [valW, weight, topW, fw]) (by intro sc; simp [valW, weight, topW, fw])
      hS hSim.fresh ht
    rw [hth, hth'] at this
    rw [wt_eq, wt_eq]; exact this
  have hsumG : ∀ g : Frame → Nat, g .tStart = 0 → g .wPop1 = 0 → g .cNext = 0 →
      tsum s'.nthreads (wtG g s') + lsum g th.stack = tsum s.nthreads (wtG g s) + lsum g th'.stack := by
    intro g g1 g2 g3
    have := tsum_step (valG g) rfl (by simp [valG, g1, g2]) (by intro sc; simp [valG, g1, g3]) hS hSim.fresh ht
    rw [hth, hth'] at this
    rw [wtG_eq, wtG_eq]; exact this
  have hnc : s.nextCall ≤ s'.nextCall := by rcases hF.nc with h | h <;> omega
  constructor
  · -- stk
    intro u thu hthu
    by_cases hu : u = t
    · subst hu; rw [hth'] at hthu; injection hthu with hthu; subst hthu; exact hok'
    · rcases hS.others u hu with h | ⟨_, h | ⟨sc, h⟩⟩
      · rw [h] at hthu; exact hI.stk u thu hthu
      · rw [h] at hthu; injection hthu with hthu; subst hthu; exact stackOk_fresh _ rfl rfl
      · rw [h] at hthu; injection hthu with hthu; subst hthu; exact stackOk_fresh _ rfl rfl
  · -- last
    intro u thu hthu
    by_cases hu : u = t
    · subst hu; rw [hth'] at hthu; injection hthu with hthu; subst hthu; exact hlast' hlast
    · rcases hS.others u hu with h | ⟨_, h | ⟨sc, h⟩⟩
      · rw [h] at hthu; exact hI.last u thu hthu
      · rw [h] at hthu; injection hthu with hthu; subst hthu; simp [lastOnly_cons_iff, isLast, lastOnly_nil]
      · rw [h] at hthu; injection hthu with hthu; subst hthu; simp [lastOnly_cons_iff, isLast, lastOnly_nil]
  · -- wk
    intro u thu hthu hw
    by_cases hu : u = t
    · subst hu; rw [hth'] at hthu; injection hthu with hthu; subst hthu
      rw [hwk'] at hw
      exact hnw' (by rw [← hst]; exact hI.wk u th hth hw)
    · rcases hS.others u hu with h | ⟨_, h | ⟨sc, h⟩⟩
      · rw [h] at hthu; exact hI.wk u thu hthu hw
      · rw [h] at hthu; injection hthu with hthu; subst hthu; cases hw
      · rw [h] at hthu; injection hthu with hthu; subst hthu; simp [noW_cons, noW_nil, isW]
  · -- tok
    intro c
    have h1 := hF.tok c
    have h2 := hsumW c
    have h3 := hI.tok c
    have h4 := tsum_ge (f := wt s c) ht
    rw [hwt] at h4
    by_cases ha : s'.nextCall = s.nextCall + 1 ∧ c = s.nextCall
    · obtain ⟨ha1, ha2⟩ := ha
      subst ha2
      have := (hI.zero s.nextCall (Nat.le_refl _)).1
      rw [if_pos ⟨ha1, rfl⟩] at h1
      omega
    · simp only [ha, if_false] at h1
      omega
  · -- zero
    intro c hc
    have hc0 : s.nextCall ≤ c := by omega
    obtain ⟨z1, z2, z3, z4⟩ := hI.zero c hc0
    have h1 := hF.tok c
    have h2 := hsumW c
    have h4 := tsum_ge (f := wt s c) ht
    rw [hwt] at h4
    have ha : ¬ (s'.nextCall = s.nextCall + 1 ∧ c = s.nextCall) := by omega
    simp only [ha, if_false] at h1
    refine ⟨by omega, ?_, ?_, ?_⟩
    · rcases hF.ever c with h | h
      · rw [h]; exact z2
      · omega
    · rcases hF.calls c with h | h | h
      · rw [h]; exact z3
      · omega
      · exact h.1
    · rcases hF.args c with h | ⟨r, h, _⟩
      · rw [h]; exact z4
      · rw [z3] at h; cases h
  · -- exe
    intro c
    have h1 := hF.exe c
    have h2 := hsumG (pw2 c) rfl rfl rfl
    have h3 := hI.exe c
    have h4 := tsum_ge (f := wtG (pw2 c) s) ht
    have : wtG (pw2 c) s t = lsum (pw2 c) th.stack := by simp [wtG, hth]
    omega
  · -- comp
    intro c hc
    have h2 := hsumG (pw3 c) rfl rfl rfl
    have h3 := hF.p3 c
    have h4 := tsum_ge (f := wtG (pw3 c) s) ht
    have h5 : wtG (pw3 c) s t = lsum (pw3 c) th.stack := by simp [wtG, hth]
    rcases hF.comp c hc with h | h
    · have := hI.comp c h; omega
    · omega
  · -- recs
    intro c hc
    by_cases hlt : c < s.nextCall
    · obtain ⟨r1, r2⟩ := hI.recs c hlt
      have he : s'.everCalls c = s.everCalls c := by
        rcases hF.ever c with h | h
        · exact h
        · omega
      rw [he]
      refine ⟨r1, ?_⟩
      have hfr := hF.free c
      rcases hF.calls c with h | h | h
      · rw [h]
        rcases r2 with r2 | r2
        · exact Or.inl r2
        · exact Or.inr ⟨r2.1, by omega⟩
      · omega
      · exact Or.inr ⟨h.1, by omega⟩
    · rcases hF.nc with h | ⟨h1, h2, h3⟩
      · omega
      · have : c = s.nextCall := by omega
        subst this
        exact ⟨h2, Or.inl h3⟩
  · -- args
    intro c a b hab
    rcases hF.args c with h | ⟨r, h1, h2⟩
    · rw [h] at hab
      obtain ⟨r, hr1, hr2⟩ := hI.args c a b hab
      rcases hF.ever c with he | he
      · exact ⟨r, by rw [he]; exact hr1, hr2⟩
      · have := (hI.zero c (by omega)).2.2.2
        rw [this] at hab; cases hab
    · rw [h2] at hab
      injection hab with hab; injection hab with ha hb
      have hlt : c < s.nextCall := by
        cases Nat.lt_or_ge c s.nextCall with
        | inl h => exact h
        | inr h => have := (hI.zero c h).2.2.1; rw [this] at h1; cases h1
      obtain ⟨r1, r2 | r2⟩ := hI.recs c hlt
      · refine ⟨r, ?_, ha, hb⟩
        rcases hF.ever c with he | he
        · rw [he, ← r2]; exact h1
        · omega
      · rw [r2.1] at h1; cases h1
  · -- flt
    rcases hF.flt with h | h
    · rw [h]; exact hI.flt
    · rw [h]
      rcases hI.flt with h0 | h0 <;> rw [h0] <;> right <;> rfl

theorem reach_safe {cfg : Config} {s : State} (h : Reach cfg s) : SafeInv s := by
  induction h with
  | init => exact safeInv_init cfg
  | step t hr hs ih => exact safeInv_step hr ih hs

end Nstd.Future
