/-
  Components (a) and (b) of the termination measure: the per-thread FRAME DISTANCE with ticket staleness.

  `FR.fd n tl hd` (`n` = number of client scripts, `tl`/`hd` = current `_tail`/`_head` of the ring) assigns a weight
  to every frame; `frameDist s t` = 100 * (remaining script length of `t`) + the sum of the weights over the stack
  of `t`.  Proved for the repaired model, every reachable state:

    * `quiet_step_decreases`: a micro-step whose top frame is neither a LOOP HEAD (`FR.isBack`, an explicit list of
      10 program points) nor one of the five program points that may move `_tail`/`_head` (`FR.movesRing`: the two
      CASes, `mInit`, `cRdTp2`, `dFin`) strictly decreases `frameDist` of the stepping thread and leaves `frameDist`
      of every other existing thread unchanged.  The sequential loops (client script loop `cNext`, end-of-scope loop
      `cEnd`, the spawn and join loops `mSpawn`/`mSpawned`/`mJoin` of the main thread) are absorbed into the weights.
    * `push_cas_fail_decreases` / `pop_cas_fail_decreases` (component (b)): a FAILING CAS does the same — a stale
      ticket weighs 2 more and the failing CAS replaces it by the current counter.  So the CAS retry loops are
      bounded relative to the number of WINNING CASes (the only steps that make tickets of other threads stale).
    * `straight_line_step_decreases`: the general form (hypothesis: the step does not move `_tail`/`_head`);
      `spin_acquire_step_decreases`: a successful `cSpin` decreases the distance too (the failing one is the
      state-preserving spin step); `FR.flRingStable`/`FR.flRingStableR`: which steps leave `_tail`/`_head` alone.

  What remains for the full measure are the genuinely cross-thread loops `FR.isBack`:
    * `sWaitRelock`               Signal::wait   while(!signaled) cond.wait
    * `runChk2`, `dChk2`, `dSet`  ThreadPool::run / ~ThreadPool  back-pressure loop and the loop over the threads
    * `wChk2`, `wAdd`             ThreadContext::proc  idle loop and job loop
    * `cleanAt`, `cleanJoin`      cleanup of terminated contexts (under the pool mutex)
    * `cSpin`                     spin lock (only the failing, state-preserving `xchg`)
    * `dJoin`                     ~ThreadPool: loop over the contexts
  and the effect of a winning CAS on the staleness of the other threads (≤ 2 per thread inside `push`/`pop`).
-/
import Nstd.Future.FairFix
import Nstd.Future.FairLock
set_option linter.unusedVariables false
set_option linter.unusedSimpArgs false
namespace Nstd.Future.FR

/-- weight of a `push`/`pop` program counter; `tl`/`hd` = current `_tail`/`_head` of the ring: a STALE ticket
    (one that differs from the current counter, so that the CAS on it must fail) costs 2 more, which pays for the
    back edge `pushCas → pushChk` / `popCas → popChk` -/
def rd (tl hd : Nat) : RingPc Job → Nat
  | .pushRead _ => 5 | .pushChk _ t => 4 + (if t = tl then 0 else 2) | .pushCas _ t => 3 + (if t = tl then 0 else 2)
  | .pushData _ _ => 2 | .pushPub _ _ => 1
  | .popRead => 5 | .popChk h => 4 + (if h = hd then 0 else 2) | .popCas h => 3 + (if h = hd then 0 else 2)
  | .popData _ => 2 | .popRel _ _ => 1

/-- frame distance -/
def fd (n tl hd : Nat) : Frame → Nat
  | .sSetLock _ => 4 | .sSetStore _ => 3 | .sSetBcast _ _ => 2 | .sSetUnlock _ => 1
  | .sRstLock _ => 3 | .sRstStore _ => 2 | .sRstUnlock _ => 1
  | .sWaitLock _ => 5 | .sWaitChk _ => 4 | .sWaitCwait _ => 3 | .sWaitCwake _ => 2 | .sWaitRelock _ => 1
  | .sWaitUnlock _ => 1
  | .fSet _ => 5 | .fRst _ => 9 | .fRstLoad _ => 5 | .fWait _ => 6
  | .ring pc => rd tl hd pc
  | .runStart _ => 48 | .runChk1 _ => 42 | .runPush2 _ => 32 | .runChk2 _ => 26 | .runSet => 25
  | .runAdd => 19 | .runRdProc _ => 18 | .runRdTc _ => 17 | .runClk1 => 1 | .runClk2 _ => 7 | .runClk3 => 16
  | .runSpLock => 6 | .runSpChk => 4 | .runSpUnlock _ => 3 | .runSpStart _ => 2 | .runSpawned _ => 1
  | .runRetLock => 15 | .runRetChk => 14 | .runRetAfter => 8 | .runRetUnlock => 1
  | .cleanAt _ => 1 | .cleanJoin _ _ => 1
  | .wPop1 => 42 | .wChk1 => 36 | .wPop2 => 26 | .wChk2 => 20 | .wDeq => 19 | .wDispatch => 13 | .wAdd => 1
  | .wTerm => 2
  | .pCall _ => 11 | .pBody _ => 10 | .pStore _ => 9 | .pSetRd _ => 8 | .pSetX _ _ => 7 | .pSig _ => 6
  | .pDelete _ => 1
  | .cNext => 200 | .cRdTp _ => 65 | .cSpin _ => 64 | .cRdTp2 _ => 63 | .cSwapTp _ => 62 | .cUnlockTp _ => 61
  | .cJoin _ => 60 | .cArm _ => 49 | .cStarted _ _ => 1
  | .join _ => 10 | .joinClr _ => 1 | .evJoined _ => 1 | .evResult _ => 1 | .destroyF _ => 1
  | .cEnd k => 2 + (16 - k) * 12
  | .mInit => 40 + 3 * n | .mSpawn i => 37 + n + 2 * (n + 1 - i) | .mSpawned i _ => 38 + n + 2 * (n - i)
  | .mJoin i => 35 + (n - i) | .mDel => 34
  | .dPush _ => 33 | .dChk1 _ => 27 | .dPush2 _ => 17 | .dChk2 _ => 11 | .dSet _ => 10 | .dJoin _ => 3
  | .dFin => 2
  | .tStart => 1 | .tExit => 1

/-- loop heads / back edges -/
def isBack : Frame → Bool
  | .sWaitRelock _ => true
  | .runChk2 _ | .dChk2 _ | .dSet _ => true
  | .wChk2 | .wAdd => true
  | .cleanAt _ | .cleanJoin _ _ => true
  | .cSpin _ => true
  | .dJoin _ => true
  | _ => false

/-- distance of a stack -/
def sd (n tl hd : Nat) : List Frame → Nat
  | [] => 0
  | f :: l => fd n tl hd f + sd n tl hd l

@[simp] theorem sd_nil (n tl hd : Nat) : sd n tl hd [] = 0 := rfl
@[simp] theorem sd_cons (n tl hd : Nat) (f : Frame) (l : List Frame) :
    sd n tl hd (f :: l) = fd n tl hd f + sd n tl hd l := rfl

/-- distance of a thread: remaining script, then the stack -/
def td (n tl hd : Nat) (th : Thread) : Nat := th.script.length * 100 + sd n tl hd th.stack

/-- `_tail` / `_head` of the ring of the pool (0 when there is no pool) -/
def rtl (s : State) : Nat := match s.pool with | some p => p.ring.tail | none => 0
def rhd (s : State) : Nat := match s.pool with | some p => p.ring.head | none => 0

theorem fl_idx_lt {α : Type} {l : List α} {i : Nat} {x : α} (h : l[i]? = some x) : i < l.length := by
  rcases Nat.lt_or_ge i l.length with h1 | h1
  · exact h1
  · rw [List.getElem?_eq_none h1] at h; cases h

theorem rd_cont {r r' : Ring Job} {pc pc' : RingPc Job} (h : ringStep r pc = (r', .cont pc'))
    (hT : r'.tail = r.tail) (hH : r'.head = r.head) : rd r.tail r.head pc' < rd r.tail r.head pc := by
  cases pc <;> simp only [ringStep] at h <;> (try split at h) <;>
    simp only [Prod.mk.injEq, RingRes.cont.injEq, reduceCtorEq, and_false] at h <;>
    (obtain ⟨h1, h⟩ := h; subst h; subst h1) <;> simp_all [rd] <;> first | omega | (split <;> omega)

theorem rd_pos (tl hd : Nat) (pc : RingPc Job) : 0 < rd tl hd pc := by cases pc <;> simp [rd] <;> omega

theorem fd_pos (n tl hd : Nat) (fr : Frame) : 0 < fd n tl hd fr := by
  cases fr <;> simp only [fd] <;> first | omega | exact rd_pos _ _ _

/-- a `push`/`pop` micro-step that does not move `_tail`/`_head` (everything but a winning CAS) decreases the
    distance — including the FAILING CAS, whose stale ticket is replaced by the current counter -/
theorem fdRing (n : Nat) (s : State) (t : Tid) (th : Thread) (pc : RingPc Job) (rest : List Frame)
    (hst : th.stack = .ring pc :: rest) :
    ∀ th', (stepFrame s t th (.ring pc)).1.threads t = some th' → (stepFrame s t th (.ring pc)).1.fault = none →
      rtl (stepFrame s t th (.ring pc)).1 = rtl s → rhd (stepFrame s t th (.ring pc)).1 = rhd s →
      td n (rtl s) (rhd s) th' < td n (rtl s) (rhd s) th := by
  intro th' h hf hT hH
  cases hp : s.pool with
  | none =>
    simp only [stepFrame, hp] at hf
    simp [withFault] at hf
  | some p =>
    have hpos := rd_pos p.ring.tail p.ring.head pc
    simp only [stepFrame, hp] at h hf hT hH
    simp only [rtl, rhd, hp]
    rcases hrs : ringStep p.ring pc with ⟨r', res⟩
    rw [hrs] at h hf hT hH
    cases res with
    | cont pc' =>
      simp [setThread, setPool, rtl, rhd, hp] at hT hH
      have hlt := rd_cont hrs hT hH
      simp [setThread, upd] at h
      subst h
      simp [td, Thread.cont, hst, fd]; omega
    | pushed ok =>
      simp [setThread, upd] at h
      subst h
      simp [td, Thread.cont, hst, fd]; omega
    | popped o =>
      rcases o with _ | _ | j
      · simp [setThread, upd] at h
        subst h
        simp [td, Thread.cont, hst, fd]; omega
      · simp [setThread, withFault, upd] at hf
      · simp [setThread, upd] at h
        subst h
        simp [td, Thread.cont, hst, fd]; omega

set_option maxHeartbeats 4000000 in
/-- every micro-step of a frame that is not a back edge decreases the distance of the stepping thread -/
theorem fdShape (s : State) (t : Tid) (th : Thread) (fr : Frame) (rest : List Frame)
    (hst : th.stack = fr :: rest) (hrep : s.cfg.repaired = true) (hb : isBack fr = false)
    (hnr : ∀ pc, fr ≠ .ring pc) :
    ∀ th', (stepFrame s t th fr).1.threads t = some th' → (stepFrame s t th fr).1.fault = none →
      ∀ tl hd, td s.cfg.scripts.length tl hd th' < td s.cfg.scripts.length tl hd th := by
  cases fr
  case ring pc => exact absurd rfl (hnr pc)
  all_goals first | (simp [isBack] at hb; done) | skip
  all_goals
    simp only [stepFrame, hrep]
    repeat' split
  all_goals
    intro th' h hf tl hd
    try simp [setThread, setSig, setPool, setFut, withFault, destroySig, upd, Thread.cont, hst] at h
    try simp [setThread, setSig, setPool, setFut, withFault, destroySig, upd, Thread.cont, hst] at hf
  all_goals
    first
    | (subst h
       (simp [td, hst, fd, rd, *] <;> omega)
       done)
    | (subst h
       have hlt := fl_idx_lt (by assumption)
       (simp [td, hst, fd, rd, *] <;> omega)
       done)
    | (exfalso; simp_all; done)

/-- frames whose micro-step may move `_tail`/`_head` of the ring: the two CASes (when they win) and the creation /
    destruction of the pool -/
def movesRing : Frame → Bool
  | .ring (.pushCas _ _) | .ring (.popCas _) => true
  | .mInit | .cRdTp2 _ | .dFin => true
  | _ => false

theorem ringStep_counters {r : Ring Job} {pc : RingPc Job}
    (h : match pc with | .pushCas _ x => r.tail ≠ x | .popCas x => r.head ≠ x | _ => True) :
    (ringStep r pc).1.tail = r.tail ∧ (ringStep r pc).1.head = r.head := by
  cases pc <;> simp only [ringStep] <;> (try split) <;> simp_all [Ring.setSlot]

/-- a `push`/`pop` micro-step other than a winning CAS leaves `_tail`/`_head` alone -/
theorem flRingStableR (s : State) (t : Tid) (th : Thread) (pc : RingPc Job)
    (h : ∀ p, s.pool = some p →
      match pc with | .pushCas _ x => p.ring.tail ≠ x | .popCas x => p.ring.head ≠ x | _ => True) :
    rtl (stepFrame s t th (.ring pc)).1 = rtl s ∧ rhd (stepFrame s t th (.ring pc)).1 = rhd s := by
  cases hp : s.pool with
  | none => simp only [stepFrame, hp]; simp [rtl, rhd, withFault, hp]
  | some p =>
    have hc := ringStep_counters (h p hp)
    simp only [stepFrame, hp]
    rcases hrs : ringStep p.ring pc with ⟨r', res⟩
    rw [hrs] at hc
    cases res with
    | cont pc' => simpa [rtl, rhd, setThread, setPool, hp] using hc
    | pushed ok => simpa [rtl, rhd, setThread, setPool, hp] using hc
    | popped o => rcases o with _ | _ | j <;> simpa [rtl, rhd, setThread, setPool, withFault, hp] using hc

theorem fl_setFs_ring (p : Pool) (fs v : Nat) : (setFsState p fs v).ring = p.ring := by
  simp only [setFsState]; split <;> rfl

set_option maxHeartbeats 4000000 in
/-- every other micro-step, except the creation / destruction of the pool, leaves `_tail`/`_head` alone -/
theorem flRingStable (s : State) (t : Tid) (th : Thread) (fr : Frame) (hk : movesRing fr = false) :
    rtl (stepFrame s t th fr).1 = rtl s ∧ rhd (stepFrame s t th fr).1 = rhd s := by
  cases fr
  case ring pc =>
    apply flRingStableR
    intro p _
    cases pc <;> first | trivial | (simp [movesRing] at hk; done)
  all_goals first | (simp [movesRing] at hk; done) | skip
  all_goals
    simp only [stepFrame]
    repeat' split
  all_goals first
    | (constructor <;> rfl)
    | (simp [rtl, rhd, setThread, setSig, setPool, setFut, withFault, destroySig, fl_setFs_ring, *]; done)

end Nstd.Future.FR

namespace Nstd.Future
open FR

/-- the frame distance of thread `t` (0 when the thread does not exist): 100 * remaining script length + the sum
    of the frame weights `FR.fd` over its stack (a `push`/`pop` frame holding a stale ticket weighs 2 more) -/
def frameDist (s : State) (t : Tid) : Nat :=
  match s.threads t with
  | some th => FR.td s.cfg.scripts.length (FR.rtl s) (FR.rhd s) th
  | none => 0

/-- COMPONENTS (a)+(b) OF THE MEASURE: in the repaired model a micro-step that does not move `_tail`/`_head` of the
    ring (i.e. any step but a winning CAS and the creation/destruction of the pool) and whose top frame is not a
    loop head / back edge (`FR.isBack`) strictly decreases the frame distance of the stepping thread.  This
    includes the failing CASes of `push`/`pop`: the retry loops are bounded relative to the winning CASes. -/
theorem straight_line_step_decreases {cfg : Config} {s s' : State} {t : Tid} {o : List String}
    (hrep : cfg.repaired = true) (hr : Reach cfg s) (h : step s t = some (s', o))
    {th : Thread} {fr : Frame} {rest : List Frame} (hth : s.threads t = some th) (hst : th.stack = fr :: rest)
    (hb : FR.isBack fr = false) (hT : FR.rtl s' = FR.rtl s) (hH : FR.rhd s' = FR.rhd s) :
    frameDist s' t < frameDist s t := by
  have hr' : Reach cfg s' := Reach.step t hr h
  have hflt : s'.fault = none := no_fault hr'
  have hrep' : s.cfg.repaired = true := by rw [reach_cfg hr]; exact hrep
  have hcfg : s'.cfg = s.cfg := by rw [reach_cfg hr, reach_cfg hr']
  simp only [step, hth, hst] at h
  split at h
  · cases h
  · simp only [Option.some.injEq] at h
    have h1 : (stepFrame s t th fr).1 = s' := by rw [h]
    subst h1
    simp only [frameDist, hth, hcfg, hT, hH]
    cases hth' : (stepFrame s t th fr).1.threads t with
    | none =>
      have := fd_pos s.cfg.scripts.length (rtl s) (rhd s) fr
      simp only [td, hst, sd_cons]
      omega
    | some th' =>
      simp only []
      by_cases hring : ∃ pc, fr = .ring pc
      · obtain ⟨pc, rfl⟩ := hring
        exact fdRing _ s t th pc rest hst th' hth' hflt hT hH
      · exact fdShape s t th fr rest hst hrep' hb (fun pc hpc => hring ⟨pc, hpc⟩) th' hth' hflt _ _

/-- a successful `xchg` of the spin lock decreases the frame distance as well -/
theorem spin_acquire_step_decreases {s : State} {t : Tid} {th : Thread} {c : Nat} {rest : List Frame}
    (hth : s.threads t = some th) (hst : th.stack = .cSpin c :: rest) (hl : s.tplock = 0) :
    frameDist (stepFrame s t th (.cSpin c)).1 t < frameDist s t := by
  simp [frameDist, stepFrame, setThread, upd, hth, hl, td, Thread.cont, hst, FR.fd, rtl, rhd]

/-- the threads other than the stepping one (and other than a freshly created one) keep their frame distance when
    the step does not move `_tail`/`_head` -/
theorem frameDist_others {cfg : Config} {s s' : State} {t u : Tid} {o : List String} (hr : Reach cfg s)
    (h : step s t = some (s', o)) (hu : u ≠ t) (hn : u ≠ s.nthreads)
    (hT : FR.rtl s' = FR.rtl s) (hH : FR.rhd s' = FR.rhd s) : frameDist s' u = frameDist s u := by
  have hr' : Reach cfg s' := Reach.step t hr h
  have hcfg : s'.cfg = s.cfg := by rw [reach_cfg hr, reach_cfg hr']
  rcases hth : s.threads t with _ | th
  · simp [step, hth] at h
  · rcases hst : th.stack with _ | ⟨fr, rest⟩
    · simp [step, hth, hst] at h
    · simp only [step, hth, hst] at h
      split at h
      · cases h
      · simp only [Option.some.injEq] at h
        have h1 : (stepFrame s t th fr).1 = s' := by rw [h]
        subst h1
        simp only [frameDist, hcfg, hT, hH, FR.flOthers s t th fr u hu hn]

theorem step_eq_stepFrame {s s' : State} {t : Tid} {o : List String} (h : step s t = some (s', o))
    {th : Thread} {fr : Frame} {rest : List Frame} (hth : s.threads t = some th) (hst : th.stack = fr :: rest) :
    s' = (stepFrame s t th fr).1 := by
  simp only [step, hth, hst] at h
  split at h
  · cases h
  · simp only [Option.some.injEq] at h
    rw [h]

/-- (a) every micro-step whose top frame is neither a loop head (`FR.isBack`) nor one of the five program points that
    may move the ring counters (`FR.movesRing`: the two CASes, `mInit`, `cRdTp2`, `dFin`) strictly decreases the
    frame distance of the stepping thread and leaves the frame distance of every other existing thread unchanged -/
theorem quiet_step_decreases {cfg : Config} {s s' : State} {t : Tid} {o : List String}
    (hrep : cfg.repaired = true) (hr : Reach cfg s) (h : step s t = some (s', o))
    {th : Thread} {fr : Frame} {rest : List Frame} (hth : s.threads t = some th) (hst : th.stack = fr :: rest)
    (hb : FR.isBack fr = false) (hm : FR.movesRing fr = false) :
    frameDist s' t < frameDist s t ∧ ∀ u, u ≠ t → u ≠ s.nthreads → frameDist s' u = frameDist s u := by
  have he := step_eq_stepFrame h hth hst
  obtain ⟨hT, hH⟩ := FR.flRingStable s t th fr hm
  rw [← he] at hT hH
  exact ⟨straight_line_step_decreases hrep hr h hth hst hb hT hH,
    fun u hu hn => frameDist_others hr h hu hn hT hH⟩

/-- (b) a FAILING CAS of `push` strictly decreases the frame distance of the stepping thread (its stale ticket is
    replaced by the current `_tail`) and leaves everybody else's unchanged: the retry loop of `push` can only be
    re-entered after some thread has WON a CAS on `_tail` -/
theorem push_cas_fail_decreases {cfg : Config} {s s' : State} {t : Tid} {o : List String}
    (hrep : cfg.repaired = true) (hr : Reach cfg s) (h : step s t = some (s', o))
    {th : Thread} {d : Job} {x : Nat} {rest : List Frame} {p : Pool} (hth : s.threads t = some th)
    (hst : th.stack = .ring (.pushCas d x) :: rest) (hp : s.pool = some p) (hne : p.ring.tail ≠ x) :
    frameDist s' t < frameDist s t ∧ ∀ u, u ≠ t → u ≠ s.nthreads → frameDist s' u = frameDist s u := by
  have he := step_eq_stepFrame h hth hst
  obtain ⟨hT, hH⟩ := FR.flRingStableR s t th (.pushCas d x)
    (fun p' hp' => by rw [hp] at hp'; cases hp'; exact hne)
  rw [← he] at hT hH
  exact ⟨straight_line_step_decreases hrep hr h hth hst rfl hT hH,
    fun u hu hn => frameDist_others hr h hu hn hT hH⟩

/-- (b) the same for `pop` and `_head` -/
theorem pop_cas_fail_decreases {cfg : Config} {s s' : State} {t : Tid} {o : List String}
    (hrep : cfg.repaired = true) (hr : Reach cfg s) (h : step s t = some (s', o))
    {th : Thread} {x : Nat} {rest : List Frame} {p : Pool} (hth : s.threads t = some th)
    (hst : th.stack = .ring (.popCas x) :: rest) (hp : s.pool = some p) (hne : p.ring.head ≠ x) :
    frameDist s' t < frameDist s t ∧ ∀ u, u ≠ t → u ≠ s.nthreads → frameDist s' u = frameDist s u := by
  have he := step_eq_stepFrame h hth hst
  obtain ⟨hT, hH⟩ := FR.flRingStableR s t th (.popCas x)
    (fun p' hp' => by rw [hp] at hp'; cases hp'; exact hne)
  rw [← he] at hT hH
  exact ⟨straight_line_step_decreases hrep hr h hth hst rfl hT hH,
    fun u hu hn => frameDist_others hr h hu hn hT hH⟩

end Nstd.Future
