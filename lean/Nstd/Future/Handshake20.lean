/-
  Completion handshake of a Future, part 20 (third layer, repaired code): mutual exclusion on the Signal of a
  future and "the executor is out of `Signal::set` before the owner passes `wait`", hence no thread is inside a
  Signal operation of a future when its owner destroys it.  This file: vocabulary and the generic shape lemma
  for the frames that are not Signal frames of a future signal.
-/
import Nstd.Future.Handshake19
set_option linter.unusedSimpArgs false
set_option linter.unusedVariables false
namespace Nstd.Future

def quiet3 : Frame → Bool
  | .sSetLock σ | .sSetStore σ | .sSetUnlock σ | .sSetBcast σ _ | .sRstLock σ | .sRstStore σ | .sRstUnlock σ
  | .sWaitLock σ | .sWaitChk σ | .sWaitUnlock σ | .sWaitCwait σ | .sWaitCwake σ | .sWaitRelock σ => decide (σ < 2)
  | .fSet k | .fRst k | .fRstLoad k | .fWait k => decide (k < 2)
  | .destroyF _ => false
  | _ => true

/-- not a frame that holds the mutex of a future signal, nor a frame past `wait` of `join` -/
def sigFree : Frame → Bool
  | .sSetStore σ | .sSetUnlock σ | .sSetBcast σ _ | .sRstLock σ | .sRstStore σ | .sRstUnlock σ
  | .sWaitChk σ | .sWaitUnlock σ | .sWaitCwait σ => decide (σ < 2)
  | .joinClr _ => false
  | _ => true

/-- frames that hold the mutex of signal `σ` -/
def critS (σ : Nat) : Frame → Bool
  | .sSetStore σ' | .sSetUnlock σ' | .sSetBcast σ' _ | .sRstStore σ' | .sRstUnlock σ'
  | .sWaitChk σ' | .sWaitUnlock σ' | .sWaitCwait σ' => σ' == σ
  | _ => false

/-- `Signal::set` after its store -/
def isSetPost (σ : Nat) : Frame → Bool
  | .sSetBcast σ' _ | .sSetUnlock σ' => σ' == σ
  | _ => false

theorem openB_sigFree {b : Frame} (h : openB b = true) : sigFree b = true := by
  cases b <;> first | rfl | exact h | (simp [openB] at h)
theorem afterB_sigFree {ev : Nat → Option CallRec} {f : Nat} {b : Frame} (h : AfterB ev f b) : sigFree b = true := by
  cases b <;> first | rfl | (simp [AfterB] at h)
theorem sigFree_of_other {ev} {b : Frame} (h : RelO ev .other (some b)) : sigFree b = true := openB_sigFree (h b rfl)
theorem sigFree_of_fs {ev k} {b : Frame} (h : RelO ev (.fs k) (some b)) : sigFree b = true := openB_sigFree (h.2 b rfl)
theorem sigFree_of_jn {ev f} {b : Frame} (h : RelO ev (.jn f) (some b)) : sigFree b = true := by
  obtain ⟨b', h1, h2⟩ := h; injection h1 with h1; subst h1; exact afterB_sigFree h2
theorem sigFree_of_set {ev σ} {b : Frame} (hσ : σ < 2) (h : RelO ev (.set σ) (some b)) : sigFree b = true := by
  rcases h with ⟨_, h⟩ | ⟨h2, _⟩
  · exact openB_sigFree (h b rfl)
  · omega
theorem sigFree_of_rst {ev σ} {b : Frame} (hσ : σ < 2) (h : RelO ev (.rst σ) (some b)) : sigFree b = true := by
  rcases h with ⟨_, h⟩ | ⟨h2, _⟩
  · exact openB_sigFree (h b rfl)
  · omega
theorem sigFree_of_wait {ev σ} {b : Frame} (hσ : σ < 2) (h : RelO ev (.wait σ) (some b)) : sigFree b = true := by
  rcases h with ⟨_, h⟩ | ⟨h2, _⟩
  · exact openB_sigFree (h b rfl)
  · omega
theorem sigFree_of_exit {ev} {b : Frame} (h : RelO ev .exit (some b)) : sigFree b = true := by cases h

theorem sigFree_critS {x : Frame} {σ : Nat} (h : sigFree x = true) (hσ : 2 ≤ σ) : critS σ x = false := by
  cases x <;> simp only [sigFree, decide_eq_true_eq, Bool.false_eq_true] at h <;> simp only [critS] <;>
    first
      | rfl
      | (simp; omega)
theorem isSetPost_critS {x : Frame} {σ : Nat} (h : isSetPost σ x = true) : critS σ x = true := by
  cases x <;> simp only [isSetPost, Bool.false_eq_true] at h <;> exact h
theorem sigFree_role {ev : Nat → Option CallRec} {x : Frame} {f : Nat} (h : sigFree x = true) :
    roleOf ev x ≠ some (.passed, f) ∧ roleOf ev x ≠ some (.rstDone, f) := by
  cases x <;> simp only [sigFree, decide_eq_true_eq, Bool.false_eq_true] at h <;> simp only [roleOf] <;>
    first
      | exact ⟨fun h => (by cases h), fun h => (by cases h)⟩
      | (rw [if_neg (by omega)]; exact ⟨fun h => (by cases h), fun h => (by cases h)⟩)
      | (constructor <;> (intro h'; cases hv : ev _ with
          | none => rw [hv] at h'; cases h'
          | some r => rw [hv] at h'; simp at h'))
      | (constructor <;> (intro h'; split at h' <;> simp at h'))

structure HsShapeQ3 (s s' : State) (t : Tid) (fr : Frame) : Prop where
  owner : ∀ σ, 2 ≤ σ → (s'.sigs σ).owner = (s.sigs σ).owner
  top : ∃ th', s'.threads t = some th' ∧ ∀ x, th'.stack.head? = some x → sigFree x = true
  jnx : ∀ f, (s'.futs f).joinable = (s.futs f).joinable ∨ (s'.futs f).joinable = true ∨ fr = .joinClr f
  ev : ∀ c r, s.everCalls c = some r → s'.everCalls c = some r ∨ c = s.nextCall

set_option maxHeartbeats 8000000 in
theorem hsShapeQ3 (s : State) (t : Tid) (th : Thread) (fr : Frame) (rest : List Frame)
    (hth : s.threads t = some th) (hst : th.stack = fr :: rest) (hq : quiet3 fr = true)
    (hlink : RelO s.everCalls (kindA fr) rest.head?) :
    HsShapeQ3 s (stepFrame s t th fr).1 t fr := by
  cases fr <;> simp only [quiet3, Bool.false_eq_true, decide_eq_true_eq] at hq <;> simp only [kindA] at hlink <;>
    simp only [stepFrame] <;> repeat' split
  all_goals
    constructor
    · intro σ hσ
      simp [setThread, setSig, setPool, setFut, withFault, destroySig, upd]
      try grind
    · simp [setThread, setSig, setPool, setFut, withFault, destroySig, upd_same, Thread.cont, hst, hth, sigFree, hq]
      try (intro x hx; rw [hx] at hlink
           first
             | exact sigFree_of_other hlink
             | exact sigFree_of_set hq hlink
             | exact sigFree_of_rst hq hlink
             | exact sigFree_of_wait hq hlink
             | exact sigFree_of_fs hlink
             | exact sigFree_of_jn hlink
             | exact sigFree_of_exit hlink)
    · intro f
      simp [setThread, setSig, setPool, setFut, withFault, destroySig, upd]
      try grind
    · intro c r
      simp [setThread, setSig, setPool, setFut, withFault, destroySig, upd]
      try grind

end Nstd.Future
