/-
  `no_fault`: the model's fault flag never fires (no use of a deleted call record, no double delete, no raw
  slot read, no pool code without a pool).

  `Safety.no_fault_partial` (token invariant) excludes every message except "no pool";
  `Progress6.no_pool_fault` (pool life-cycle: `~ThreadPool` returns only after every worker has exited)
  excludes that one.
-/
import Nstd.Future.Safety
import Nstd.Future.Safety9
import Nstd.Future.Progress6
namespace Nstd.Future

theorem no_fault {cfg : Config} {s : State} (h : Reach cfg s) : s.fault = none := by
  rcases no_fault_partial h with h1 | h1
  · exact h1
  · exact absurd h1 (no_pool_fault h)

end Nstd.Future
