/-
  Completion handshake of a Future, part 4: the bookkeeping invariant `Inv0` (records, ownership of client
  frames, adjacency of frames) holds in every reachable state.
-/
import Nstd.Future.Handshake3
set_option linter.unusedSimpArgs false
set_option linter.unusedVariables false
namespace Nstd.Future

structure Inv0 (s : State) : Prop where
  callsEv : ∀ c r, s.calls c = some r → s.everCalls c = some r
  evLt : ∀ c r, s.everCalls c = some r → c < s.nextCall
  complLt : ∀ c, s.completed c = true → c < s.nextCall
  curLt : ∀ f c, (s.futs f).curCall = some c → ∃ r, s.everCalls c = some r ∧ r.fut = f
  abReq : ∀ f, (s.futs f).aborting = true → (s.futs f).abortReq = true
  own : ∀ t th, s.threads t = some th →
      AllOwn s.everCalls (Owns s t) th.stack ∧ AllOp (Owns s t) th.script ∧ AllO (Owns s t) th.used
  chain : ∀ t th, s.threads t = some th → ChainOk s.everCalls th.stack

theorem frOwn_mono {ev ev' : Nat → Option CallRec} {O O' : Nat → Prop} {x : Frame}
    (hev : ∀ c r, ev c = some r → ev' c = some r) (hO : ∀ f, O f → O' f) (h : FrOwn ev O x) : FrOwn ev' O' x := by
  cases x <;> simp only [FrOwn] at h ⊢ <;>
    first
      | trivial
      | exact hO _ h
      | (rcases h with h | h
         · exact Or.inl h
         · exact Or.inr (hO _ h))
      | (obtain ⟨r, h1, h2⟩ := h; exact ⟨r, hev _ _ h1, hO _ h2⟩)

theorem afterB_mono {ev ev' : Nat → Option CallRec} {f : Nat} {b : Frame}
    (hev : ∀ c r, ev c = some r → ev' c = some r) (h : AfterB ev f b) : AfterB ev' f b := by
  cases b <;> simp only [AfterB] at h ⊢ <;>
    first
      | exact h
      | (obtain ⟨r, h1, h2⟩ := h; exact ⟨r, hev _ _ h1, h2⟩)

theorem relO_mono {ev ev' : Nat → Option CallRec} {k : Kind} {o : Option Frame}
    (hev : ∀ c r, ev c = some r → ev' c = some r) (h : RelO ev k o) : RelO ev' k o := by
  cases k <;> simp only [RelO] at h ⊢
  · exact h
  · exact h
  · rcases h with h | ⟨h1, c, r, h2, h3, h4⟩
    · exact Or.inl h
    · exact Or.inr ⟨h1, c, r, h2, hev _ _ h3, h4⟩
  · exact h
  · exact h
  · obtain ⟨b, h1, h2⟩ := h; exact ⟨b, h1, afterB_mono hev h2⟩
  · exact h

theorem chainOk_mono {ev ev' : Nat → Option CallRec} {l : List Frame}
    (hev : ∀ c r, ev c = some r → ev' c = some r) (h : ChainOk ev l) : ChainOk ev' l := by
  induction l with
  | nil => trivial
  | cons a l ih => exact ⟨relO_mono hev h.1, ih h.2⟩

theorem inv0_init (cfg : Config) : Inv0 (State.init cfg) := by
  have hthr : ∀ t th, (State.init cfg).threads t = some th → th = { stack := [Frame.mInit] } := by
    intro t th h
    simp only [State.init] at h
    split at h
    · injection h with h; exact h.symm
    · cases h
  constructor
  · intro c r h; cases h
  · intro c r h; cases h
  · intro c h; cases h
  · intro f c h; cases h
  · intro f h; cases h
  · intro t th h
    rw [hthr t th h]
    refine ⟨?_, ?_, ?_⟩
    · intro x hx; simp only [List.mem_singleton] at hx; subst hx; trivial
    · intro x hx; cases hx
    · intro x hx; cases hx
  · intro t th h
    rw [hthr t th h]
    simp [chainOk_cons, chainOk_nil, kindA, RelO]

theorem inv0_step {s s' : State} {t : Tid} {o : List String}
    (hJ : JoinInv s) (hI : Inv0 s) (h : step s t = some (s', o)) : Inv0 s' := by
  obtain ⟨th, fr, rest, hth, hst, hnf, hblk, rfl⟩ := step_inv2 h
  have hE := hsShapeE s t th fr rest hth hst
  obtain ⟨hown, hscr, hused⟩ := hI.own t th hth
  rw [hst, allOwn_cons] at hown
  have hch := hI.chain t th hth
  rw [hst, chainOk_cons] at hch
  have hS := hsShapeS s t th fr rest (Owns s t) hth hst hI.callsEv hown.1 hscr hused hch.1 hch.2
  -- monotonicity
  have hnc : s.nextCall ≤ (stepFrame s t th fr).1.nextCall := by
    rcases hE.ev with ⟨_, h2, _⟩ | ⟨r, _, _, h2⟩ <;> omega
  have hev : ∀ c r, s.everCalls c = some r → (stepFrame s t th fr).1.everCalls c = some r := by
    intro c r hc
    rcases hE.ev with ⟨h1, _, _⟩ | ⟨r0, h1, _, _⟩
    · rw [h1]; exact hc
    · rw [h1, upd_ne _ _ (by have := hI.evLt c r hc; omega)]; exact hc
  have hOw : ∀ u f, Owns s u f → Owns (stepFrame s t th fr).1 u f := by
    intro u f ⟨i, sc, h1, h2, h3⟩
    refine ⟨i, sc, ?_, by rw [hE.cfg]; exact h2, h3⟩
    rcases hE.ct with h4 | h4
    · rw [h4]; exact h1
    · rw [h4]
      have hi : i < s.clientTids.length := (List.getElem?_eq_some_iff.mp h1).1
      rw [List.getElem?_append_left hi]; exact h1
  constructor
  · intro c r hc
    rcases hE.ev with ⟨h1, _, h3⟩ | ⟨r0, h1, h2, _⟩
    · rw [h1]; exact hI.callsEv c r (h3 c r hc)
    · rw [h2] at hc; rw [h1]
      by_cases hcn : c = s.nextCall
      · subst hcn; rw [upd_same] at hc ⊢; exact hc
      · rw [upd_ne _ _ hcn] at hc ⊢; exact hI.callsEv c r hc
  · intro c r hc
    rcases hE.ev with ⟨h1, h2, _⟩ | ⟨r0, h1, _, h2⟩
    · rw [h1] at hc; rw [h2]; exact hI.evLt c r hc
    · rw [h1] at hc; rw [h2]
      by_cases hcn : c = s.nextCall
      · omega
      · rw [upd_ne _ _ hcn] at hc; have := hI.evLt c r hc; omega
  · intro c hc
    rcases hE.compl c hc with h1 | h1
    · have := hI.complLt c h1; omega
    · cases h2 : s.calls c with
      | none => rw [h2] at h1; cases h1
      | some r => have := hI.evLt c r (hI.callsEv c r h2); omega
  · intro f c hc
    rcases hE.cur f c hc with h1 | ⟨r, h1, h2⟩
    · obtain ⟨r, h2, h3⟩ := hI.curLt f c h1
      exact ⟨r, hev c r h2, h3⟩
    · exact ⟨r, hev c r (hI.callsEv c r h1), h2⟩
  · intro f hf
    rcases hE.ab f hf with h1 | ⟨h1, h2⟩
    · exact h1
    · rw [h2]; exact hI.abReq f h1
  · intro u thu hthu
    by_cases hu : u = t
    · subst hu
      obtain ⟨th', h1, h2, h3, h4⟩ := hS.own
      rw [h1] at hthu; injection hthu with hthu; subst hthu
      refine ⟨?_, fun a ha => hOw _ _ (h3 a ha), fun f hf => hOw _ _ (h4 f hf)⟩
      intro x hx
      rcases h2 x hx with h5 | h5
      · exact frOwn_mono hev (hOw u) (hown.2 x h5)
      · exact frOwn_mono (fun _ _ h => h) (hOw u) h5
    · rcases hE.others u hu with h1 | ⟨thw, h1, h2, h3, h4⟩ | ⟨i, sc, thw, h1, h2, h3, h4, h5, h6, h7⟩
      · rw [h1] at hthu
        obtain ⟨h2, h3, h4⟩ := hI.own u thu hthu
        exact ⟨fun x hx => frOwn_mono hev (hOw u) (h2 x hx), fun a ha => hOw _ _ (h3 a ha),
          fun f hf => hOw _ _ (h4 f hf)⟩
      · rw [h1] at hthu; injection hthu with hthu; subst hthu
        rw [h2, h3, h4]
        refine ⟨?_, ?_, ?_⟩
        · intro x hx; simp only [List.mem_cons, List.mem_nil_iff, or_false] at hx
          rcases hx with rfl | rfl <;> trivial
        · intro x hx; cases hx
        · intro x hx; cases hx
      · rw [h3] at hthu; injection hthu with hthu; subst hthu
        rw [h4, h5, h6]
        refine ⟨?_, ?_, ?_⟩
        · intro x hx; simp only [List.mem_cons, List.mem_nil_iff, or_false] at hx
          rcases hx with rfl | rfl <;> trivial
        · intro a ha
          have hph := hJ.phase t th hth fr (by rw [hst]; exact List.mem_cons_self ..)
          subst h1
          simp only [Phase] at hph
          refine ⟨i, sc, ?_, by rw [hE.cfg]; exact h2, a, ha, rfl⟩
          rw [h7, ← hph.1]; simp
        · intro x hx; cases hx
  · intro u thu hthu
    by_cases hu : u = t
    · subst hu
      obtain ⟨th', h1, h2⟩ := hS.chain
      rw [h1] at hthu; injection hthu with hthu; subst hthu
      exact chainOk_mono hev h2
    · rcases hE.others u hu with h1 | ⟨thw, h1, h2, h3, h4⟩ | ⟨i, sc, thw, h1, h2, h3, h4, h5, h6, h7⟩
      · rw [h1] at hthu
        exact chainOk_mono hev (hI.chain u thu hthu)
      · rw [h1] at hthu; injection hthu with hthu; subst hthu
        rw [h2]; simp [chainOk_cons, chainOk_nil, kindA, RelO, RelOther, openB]
      · rw [h3] at hthu; injection hthu with hthu; subst hthu
        rw [h4]; simp [chainOk_cons, chainOk_nil, kindA, RelO, RelOther, openB]

theorem reach_inv0 {cfg : Config} {s : State} (h : Reach cfg s) : Inv0 s := by
  induction h with
  | init => exact inv0_init cfg
  | step t hr hs ih => exact inv0_step (reach_join hr) ih hs

end Nstd.Future
