/-
  Completion handshake of a Future, part 5: the handshake invariant `HsInv` and the generic
  preservation lemma `hs_generic` (a step changes the handshake data of at most one future).
-/
import Nstd.Future.Handshake4
set_option linter.unusedSimpArgs false
set_option linter.unusedVariables false
namespace Nstd.Future

/-- obligations attached to the frame on top of a stack -/
inductive RK where
  | after    -- continuation of `join()`: `_joinable` is false
  | passed   -- `_sig.wait()` of `join()` has seen the signal
  | rstDone  -- `_sig.reset()` of `join()` has stored
  | exec     -- `proc` between the exchange of `_state` and the store of `Signal::set`
deriving DecidableEq

def roleOf (ev : Nat → Option CallRec) : Frame → Option (RK × Nat)
  | .cArm c => (ev c).map fun r => (RK.after, r.fut)
  | .evJoined f | .evResult f | .destroyF f => some (.after, f)
  | .sWaitUnlock σ | .sRstLock σ | .sRstStore σ => if 2 ≤ σ then some (.passed, σ - 2) else none
  | .sRstUnlock σ => if 2 ≤ σ then some (.rstDone, σ - 2) else none
  | .joinClr f => some (.rstDone, f)
  | .pSig c => (ev c).map fun r => (RK.exec, r.fut)
  | .sSetLock σ | .sSetStore σ => if 2 ≤ σ then some (.exec, σ - 2) else none
  | _ => none

def jn (s : State) (f : Nat) : Bool := (s.futs f).joinable
def cur (s : State) (f : Nat) : Option Nat := (s.futs f).curCall
def sg (s : State) (f : Nat) : Bool := (s.sigs (f + 2)).signaled
def DoneCur (s : State) (f : Nat) : Prop := ∀ c, cur s f = some c → s.completed c = true
def TopIs (s : State) (u : Tid) (x : Frame) : Prop := ∃ thu, s.threads u = some thu ∧ thu.stack.head? = some x
def Role (s : State) (u : Tid) (k : RK) (f : Nat) : Prop := ∃ x, TopIs s u x ∧ roleOf s.everCalls x = some (k, f)
def NoPassed (s : State) (f : Nat) : Prop := ∀ u, ¬ Role s u .passed f ∧ ¬ Role s u .rstDone f
def ExecSigOk (s : State) (f : Nat) : Prop := jn s f = true ∧ sg s f = false ∧ NoPassed s f ∧ DoneCur s f
def Obl (s : State) : RK → Nat → Prop
  | .after, f => jn s f = false
  | .passed, f => DoneCur s f
  | .rstDone, f => DoneCur s f ∧ sg s f = false
  | .exec, f => ExecSigOk s f
def PreArmed (s : State) (c : Nat) : Prop := ∃ u thu x, s.threads u = some thu ∧ x ∈ thu.stack ∧ hsPreArm c x = true
def QRight (s : State) (c f : Nat) : Prop := cur s f = some c ∧ jn s f = true ∧ sg s f = false ∧ NoPassed s f

structure HsInv (s : State) : Prop where
  q : ∀ c r, s.everCalls c = some r → s.completed c = false → PreArmed s c ∨ QRight s c r.fut
  c0 : ∀ c, PreArmed s c → s.completed c = false
  r : ∀ f, jn s f = false → sg s f = false
  i1 : ∀ f, sg s f = true → DoneCur s f
  g2 : ∀ f, jn s f = false → DoneCur s f
  top : ∀ u k f, Role s u k f → Obl s k f
  uniq : ∀ u v f, Role s u .exec f → Role s v .exec f → u = v

theorem doneCur_mono {s s' : State} {f : Nat} (hcur : cur s' f = cur s f)
    (hcm : ∀ c, s.completed c = true → s'.completed c = true) (h : DoneCur s f) : DoneCur s' f := by
  intro c hc; rw [hcur] at hc; exact hcm c (h c hc)

/-- generic preservation: the step of thread `t` changes `joinable`/`curCall`/`signaled` of at most the
    future `f0` (none: of no future) -/
theorem hs_generic {s s' : State} {t : Tid} (f0 : Option Nat) (hH : HsInv s)
    (hjn : ∀ f, some f ≠ f0 → jn s' f = jn s f) (hcur : ∀ f, some f ≠ f0 → cur s' f = cur s f)
    (hsg : ∀ f, some f ≠ f0 → sg s' f = sg s f)
    (hcm : ∀ c, s.completed c = true → s'.completed c = true)
    (hev : ∀ c r, s'.everCalls c = some r → s.everCalls c = some r ∨ PreArmed s' c)
    (hro : ∀ u, u ≠ t → ∀ k f, Role s' u k f → Role s u k f)
    (hpa1 : ∀ c r, s.everCalls c = some r → some r.fut ≠ f0 → PreArmed s c → PreArmed s' c)
    (hc0 : ∀ c, PreArmed s' c → s'.completed c = false)
    (ht : ∀ k f, Role s' t k f → Obl s' k f ∧ (k = .exec → ∀ v, v ≠ t → ¬ Role s v .exec f))
    (hnp : ∀ f, some f ≠ f0 → NoPassed s f → NoPassed s' f ∨ sg s f = true)
    (q0 : ∀ f c r, some f = f0 → s.everCalls c = some r → r.fut = f → s'.completed c = false →
        PreArmed s' c ∨ QRight s' c f)
    (r0 : ∀ f, some f = f0 → jn s' f = false → sg s' f = false)
    (i0 : ∀ f, some f = f0 → sg s' f = true → DoneCur s' f)
    (g0 : ∀ f, some f = f0 → jn s' f = false → DoneCur s' f)
    (o0 : ∀ f, some f = f0 → ∀ u, u ≠ t → ∀ k, Role s u k f → Obl s' k f) :
    HsInv s' := by
  have hdc : ∀ f, some f ≠ f0 → DoneCur s f → DoneCur s' f := fun f hf h => doneCur_mono (hcur f hf) hcm h
  have hcf : ∀ c, s'.completed c = false → s.completed c = false := by
    intro c hc
    cases h : s.completed c with
    | false => rfl
    | true => rw [hcm c h] at hc; cases hc
  constructor
  · intro c r hc hcf'
    rcases hev c r hc with hc1 | hc1
    · by_cases hf : some r.fut = f0
      · exact q0 r.fut c r hf hc1 rfl hcf'
      · rcases hH.q c r hc1 (hcf c hcf') with h1 | ⟨h1, h2, h3, h4⟩
        · exact Or.inl (hpa1 c r hc1 hf h1)
        · right
          refine ⟨by rw [hcur _ hf]; exact h1, by rw [hjn _ hf]; exact h2, by rw [hsg _ hf]; exact h3, ?_⟩
          rcases hnp _ hf h4 with h5 | h5
          · exact h5
          · rw [h3] at h5; cases h5
    · exact Or.inl hc1
  · exact hc0
  · intro f hf
    by_cases hf0 : some f = f0
    · exact r0 f hf0 hf
    · rw [hsg f hf0]; rw [hjn f hf0] at hf; exact hH.r f hf
  · intro f hf
    by_cases hf0 : some f = f0
    · exact i0 f hf0 hf
    · rw [hsg f hf0] at hf; exact hdc f hf0 (hH.i1 f hf)
  · intro f hf
    by_cases hf0 : some f = f0
    · exact g0 f hf0 hf
    · rw [hjn f hf0] at hf; exact hdc f hf0 (hH.g2 f hf)
  · intro u k f hr
    by_cases hu : u = t
    · subst hu; exact (ht k f hr).1
    · have hr0 := hro u hu k f hr
      by_cases hf0 : some f = f0
      · exact o0 f hf0 u hu k hr0
      · have ho := hH.top u k f hr0
        cases k with
        | after => simp only [Obl] at ho ⊢; rw [hjn f hf0]; exact ho
        | passed => exact hdc f hf0 ho
        | rstDone => exact ⟨hdc f hf0 ho.1, by rw [hsg f hf0]; exact ho.2⟩
        | exec =>
          obtain ⟨h1, h2, h3, h4⟩ := ho
          refine ⟨by rw [hjn f hf0]; exact h1, by rw [hsg f hf0]; exact h2, ?_, hdc f hf0 h4⟩
          rcases hnp f hf0 h3 with h5 | h5
          · exact h5
          · rw [h2] at h5; cases h5
  · intro u v f hru hrv
    by_cases hu : u = t
    · by_cases hv : v = t
      · rw [hu, hv]
      · subst hu
        exact absurd (hro v hv _ _ hrv) ((ht _ _ hru).2 rfl v hv)
    · by_cases hv : v = t
      · subst hv
        exact absurd (hro u hu _ _ hru) ((ht _ _ hrv).2 rfl u hu)
      · exact hH.uniq u v f (hro u hu _ _ hru) (hro v hv _ _ hrv)

end Nstd.Future
