/-
  No lost wake-up on the worker side of the repaired thread pool (C10 liveness, deadlock-freedom form), proved
  inside the FULL micro-step model (`Model.lean`, `cfg.repaired = true`) for every schedule, any number of
  threads and any queue capacity:

      no_stuck_worker_side :
        cfg.repaired = true → Reach cfg s → jobQueued s → (∃ w, liveWorker s w) → ∃ t, enabled s t = true

  It is the argument of `ProtoLemmas.lean` (`Inv1`, `Inv2`, `proto_no_stuck`) redone for the enqueued FastSignal
  (`p.enq` = `_state`, `s.sigs 0` = its Signal, units = ring tickets `head ≤ x < tail`) with the non-atomic
  `pop` of the lock-free ring.

    LiveWorker1  vocabulary; stack discipline (`AdjOk`, `HasLoop`, `AllW`) preserved by every micro-step
    LiveWorker2  `stk_reach`; `_state ≤ 1`; (I1) `i1_reach`
    LiveWorker3  witnesses of (I2): busy supplier `busyTop`, looking consumer `look`; non-ring steps (`shapeC`)
    LiveWorker4  ring steps (`ring_i2`, uses `ring_published_or_claimed` for the failing `popChk`); (I2) `i2_reach`
    LiveWorker5  plain statements `enq_le_one`, `enq_set_not_lost`, `queued_job_is_covered`;
                 `no_stuck_worker_side_partial` relative to the Signal-level facts `SigFacts`
    LiveWorker   (this file) `SigFacts` from `Progress.lean`; `no_stuck_worker_side`

  Proved (signatures; `open LW`):
    enq_le_one            : cfg.repaired = true → Reach cfg s → s.pool = some p → p.enq ≤ 1
    enq_set_not_lost      : cfg.repaired = true → Reach cfg s → s.pool = some p → p.enq = 1 →
                              (s.sigs 0).signaled = true ∨ ∃ t th fr rest, s.threads t = some th ∧ th.finished = false ∧
                                th.stack = fr :: rest ∧ (fr = .sSetLock 0 ∨ fr = .sSetStore 0 ∨ fr = .fRstLoad 0 ∨
                                  ((fr = .sRstLock 0 ∨ fr = .sRstStore 0 ∨ fr = .sRstUnlock 0) ∧
                                    rest.head? = some (.fRstLoad 0)))
    queued_job_is_covered : cfg.repaired = true → Reach cfg s → s.pool = some p → p.ring.head < p.ring.tail →
                              p.enq = 1 ∨ (s.sigs 0).signaled = true ∨ ∃ t th fr rest, s.threads t = some th ∧
                                th.finished = false ∧ th.stack = fr :: rest ∧
                                (busyTop th.retB fr = true ∨ look p.ring.head th.retB th.stack = true)
    no_stuck_worker_side  : (above), no hypothesis left.
-/
import Nstd.Future.LiveWorker5
import Nstd.Future.Progress
namespace Nstd.Future

variable {cfg : Config} {s : State}

/-- the Signal-level facts hold in every reachable state in which the pool exists (`Progress.lean`) -/
theorem sigFacts_reach {p : Pool} (hr : Reach cfg s) (hp : s.pool = some p) : SigFacts s := by
  constructor
  · intro t fr σ ht hfr hen
    obtain ⟨o, _, ho⟩ := sig_lock_waiter_has_enabled_owner hr ht hfr hen
    exact ⟨o, ho⟩
  · intro t ht hs
    obtain ⟨u, _, hu⟩ :=
      waiter_of_set_signal_has_enabled_setter hr (pool_signal_neverDestroyed hr (by omega) hp) ht hs
    exact ⟨u, hu⟩

/-- in the repaired system, whenever a job is queued and a worker thread is alive, some thread can step: no lost
    wake-up on the worker side, for every schedule, any number of threads, any capacity -/
theorem no_stuck_worker_side (hrep : cfg.repaired = true) (hr : Reach cfg s) (hq : jobQueued s)
    (hw : ∃ w, liveWorker s w) : ∃ t, enabled s t = true := by
  obtain ⟨p, hp, _⟩ := hq
  exact no_stuck_worker_side_partial hrep hr (sigFacts_reach hr hp) ⟨p, hp, by assumption⟩ hw

end Nstd.Future
