/-
  Progress lemmas of the Signal layer (`Signal` = pthread mutex + condition variable + flag) and of the pool mutex
  inside the FULL micro-step model of `Future`/`ThreadPool` (`Model.lean`): for every configuration, every
  reachable state (hence every schedule and any number of threads), both code orders unless stated otherwise.
  They are the Signal-level ingredients of deadlock freedom.

    Progress1  vocabulary (`critFrame`, `pendB`, `Pristine`) and the abstraction `SelfStep` of one micro-step
    Progress2  the Signal invariants over the abstraction, transferred to reachable states (`reach_sigInv`)
    Progress3  the pool mutex `ThreadPool::_mutex` (`holdStack`, `reach_poolInv`)
    Progress4  `ThreadPool::_threads`: a context marked terminated belongs to an exiting worker (`reach_ctxInv`)
    Progress5/6  `~ThreadPool` returns only after every worker has exited (`reach_finInv`), `no_pool_fault`
    Progress   (this file) the statements

  UNCONDITIONAL (all signals σ):
    `sig_owner_in_critical_section`, `sig_owner_enabled`, `sig_lock_waiter_has_enabled_owner`, `sig_owner_unique`,
    `waiter_at_cwake`, `waiters_nodup`.
  Note on `destroyF f` / `dFin`: they reset `owner := none` of a destroyed signal even when it is owned.  That
  cannot break "owner ⇒ inside the critical section" (it only removes owners), so statement 1 holds for every σ.
  It DOES break the converse (a thread inside the critical section of a destroyed-and-recreated signal is no
  longer its owner), hence mutual exclusion and the "no lost wake-up" invariant carry a hypothesis:
    * `NeverDestroyed s σ` (`live = true ∧ gen = 0`): `sig_mutex_exclusive`, `waiter_of_set_signal_has_pending_broadcast`
      (and `_orig`, `_has_pending_set`, `_has_enabled_setter`), `cwait_sees_unset`;
    * for the two pool signals (σ < 2) NO hypothesis is needed (section 6: `pool_sig_mutex_exclusive_always`,
      `pool_sig_waiter_has_pending_set`, `pool_sig_waiter_has_enabled_setter`), because after `dFin` every thread but
      the main thread has finished (`pool_deleted_all_finished`);
    * for future signals (σ = f + 2) that are destroyed and re-created: `SigClean cfg s σ` (section 2b), preserved by
      every step that does not destroy σ and re-established by `destroyF f` under a quiescence side condition.
  Without such a hypothesis the statements are FALSE for future signals in ill-formed configurations (two clients
  using one future: client B destroys `f` while client A sits at `sWaitCwait (f+2)`; a worker then sets the re-created
  signal and A enters the wait set of a set signal with no broadcast pending).

  OPEN: nothing in this file.  The quiescence side condition of `sigClean_recreated` ("when `~Future` runs `destroyF f`,
    no other thread is inside the critical section of signal `f + 2`") is a fact about the Future hand-shake; it is
    discharged in `Progress7.lean` from `destroy_no_signal_user` of `Handshake.lean` (cfg.WellFormed, repaired order),
    giving `sigClean_always`, `sig_mutex_exclusive_always`, `waiter_of_set_signal_has_pending_broadcast_always` for
    EVERY signal in EVERY reachable state.  For the ORIGINAL order and for ill-formed configurations the statements
    about re-created future signals are false (broadcast after unlock on a destroyed condition variable).
-/
import Nstd.Future.Progress6
namespace Nstd.Future

variable {cfg : Config} {s : State}

/-- signal `σ` has not been destroyed so far (neither `~Signal` by `destroyF`/`dFin`, nor re-created) -/
def NeverDestroyed (s : State) (σ : Nat) : Prop := (s.sigs σ).live = true ∧ (s.sigs σ).gen = 0

theorem topFrame_some {t : Tid} {fr : Frame} (h : topFrame s t = some fr) :
    ∃ th rest, s.threads t = some th ∧ th.stack = fr :: rest := by
  simp only [topFrame] at h
  split at h
  · next th hth =>
    cases hst : th.stack with
    | nil => rw [hst] at h; cases h
    | cons a l =>
      rw [hst] at h; simp only [List.head?_cons, Option.some.injEq] at h; subst h
      exact ⟨th, l, hth, hst⟩
  · cases h

theorem critF_not_blocked {rep : Bool} {σ : Nat} {fr : Frame} (t : Tid) (h : critF rep σ fr = true) :
    blockedFrame s t fr = false := by
  cases fr <;> first | rfl | (simp [critF] at h)

theorem enabled_of_top {t : Tid} {fr : Frame} (hr : Reach cfg s) (h : topFrame s t = some fr)
    (hb : blockedFrame s t fr = false) : enabled s t = true := by
  obtain ⟨th, rest, hth, hst⟩ := topFrame_some h
  have hnf : th.finished = false := by
    cases hf : th.finished
    · rfl
    · have := finished_stack_nil hr hth hf; rw [hst] at this; cases this
  simp only [enabled, hth, hst, hnf, hb]; rfl

/-! ### 1. the mutex of a Signal -/

/-- the owner of the mutex of signal `σ` is a live thread whose next micro-step is inside the critical section -/
theorem sig_owner_in_critical_section {σ : Nat} {o : Tid} (hr : Reach cfg s)
    (ho : (s.sigs σ).owner = some o) :
    ∃ th fr, s.threads o = some th ∧ th.finished = false ∧ th.stack.head? = some fr ∧ critFrame cfg σ fr = true := by
  obtain ⟨fr, h1, h2⟩ := (reach_sigInv hr).a.own σ o ho
  obtain ⟨th, rest, hth, hst⟩ := topFrame_some h1
  refine ⟨th, fr, hth, ?_, by rw [hst]; rfl, h2⟩
  cases hf : th.finished
  · rfl
  · have := finished_stack_nil hr hth hf; rw [hst] at this; cases this

/-- ... and it is never blocked -/
theorem sig_owner_enabled {σ : Nat} {o : Tid} (hr : Reach cfg s) (ho : (s.sigs σ).owner = some o) :
    enabled s o = true := by
  obtain ⟨fr, h1, h2⟩ := (reach_sigInv hr).a.own σ o ho
  exact enabled_of_top hr h1 (critF_not_blocked o h2)

/-- a thread blocked on the mutex of a Signal: the owner can step -/
theorem sig_lock_waiter_has_enabled_owner {σ : Nat} {t : Tid} {fr : Frame} (hr : Reach cfg s)
    (ht : topFrame s t = some fr)
    (hfr : fr = .sSetLock σ ∨ fr = .sRstLock σ ∨ fr = .sWaitLock σ ∨ fr = .sWaitRelock σ)
    (hen : enabled s t = false) : ∃ o, (s.sigs σ).owner = some o ∧ enabled s o = true := by
  have hb : blockedFrame s t fr = true := by
    cases hb : blockedFrame s t fr
    · rw [enabled_of_top hr ht hb] at hen; cases hen
    · rfl
  have : (s.sigs σ).owner.isSome = true := by
    rcases hfr with rfl | rfl | rfl | rfl <;> exact hb
  cases ho : (s.sigs σ).owner with
  | none => rw [ho] at this; cases this
  | some o => exact ⟨o, rfl, sig_owner_enabled hr ho⟩

/-- a thread owns at most one Signal mutex -/
theorem sig_owner_unique {σ σ' : Nat} {o : Tid} (hr : Reach cfg s)
    (h1 : (s.sigs σ).owner = some o) (h2 : (s.sigs σ').owner = some o) : σ = σ' := by
  obtain ⟨fr, a1, a2⟩ := (reach_sigInv hr).a.own σ o h1
  obtain ⟨fr', b1, b2⟩ := (reach_sigInv hr).a.own σ' o h2
  rw [a1] at b1; injection b1 with b1; subst b1
  cases fr <;> simp [critF] at a2 b2 <;> omega

/-- the pool signals are never re-created, and exist as long as the pool exists -/
theorem pool_signal_neverDestroyed {σ : Nat} {p : Pool} (hr : Reach cfg s) (hσ : σ < 2) (hp : s.pool = some p) :
    NeverDestroyed s σ := by
  have h0 : (s.sigs 0).live = true := pool_alive hr hp
  obtain ⟨h1, h2, h3⟩ := (reach_sigInv hr).p01
  have : σ = 0 ∨ σ = 1 := by omega
  rcases this with rfl | rfl
  · exact ⟨h0, h2⟩
  · exact ⟨by rw [h1]; exact h0, h3⟩

theorem pool_signal_gen {σ : Nat} (hr : Reach cfg s) (hσ : σ < 2) : (s.sigs σ).gen = 0 := by
  obtain ⟨_, h2, h3⟩ := (reach_sigInv hr).p01
  have : σ = 0 ∨ σ = 1 := by omega
  rcases this with rfl | rfl
  · exact h2
  · exact h3

/-- a thread inside the critical section of a never-destroyed signal owns its mutex -/
theorem sig_critical_is_owner {σ : Nat} {t : Tid} {fr : Frame} (hr : Reach cfg s) (hnd : NeverDestroyed s σ)
    (ht : topFrame s t = some fr) (hc : critFrame cfg σ fr = true) : (s.sigs σ).owner = some t :=
  ((reach_sigInv hr).b σ hnd).excl t fr ht hc

/-- mutual exclusion: two different threads are never both inside the critical section of a
    (never-destroyed) signal -/
theorem sig_mutex_exclusive {σ : Nat} {t u : Tid} {a b : Frame} (hr : Reach cfg s) (hnd : NeverDestroyed s σ)
    (htu : t ≠ u) (ht : topFrame s t = some a) (hu : topFrame s u = some b)
    (ha : critFrame cfg σ a = true) (hb : critFrame cfg σ b = true) : False := by
  have h1 := sig_critical_is_owner hr hnd ht ha
  have h2 := sig_critical_is_owner hr hnd hu hb
  rw [h1] at h2; injection h2 with h2; exact htu h2

/-- ... in particular for the two signals of the pool while the pool exists -/
theorem pool_sig_mutex_exclusive {σ : Nat} {p : Pool} {t u : Tid} {a b : Frame} (hr : Reach cfg s) (hσ : σ < 2)
    (hp : s.pool = some p) (htu : t ≠ u) (ht : topFrame s t = some a) (hu : topFrame s u = some b)
    (ha : critFrame cfg σ a = true) (hb : critFrame cfg σ b = true) : False :=
  sig_mutex_exclusive hr (pool_signal_neverDestroyed hr hσ hp) htu ht hu ha hb

/-! ### 2. the condition variable of a Signal -/

/-- a thread in the wait set of the condition variable sits in `pthread_cond_wait` -/
theorem waiter_at_cwake {σ : Nat} {t : Tid} (hr : Reach cfg s) (ht : t ∈ (s.sigs σ).waiters) :
    topFrame s t = some (.sWaitCwake σ) := (reach_sigInv hr).a.wait σ t ht

theorem waiters_nodup {σ : Nat} (hr : Reach cfg s) : (s.sigs σ).waiters.Nodup := (reach_sigInv hr).a.nodup σ

/-- a thread about to enter the wait set has seen the flag unset, and the flag is still unset -/
theorem cwait_sees_unset {σ : Nat} {t : Tid} (hr : Reach cfg s) (hnd : NeverDestroyed s σ)
    (ht : topFrame s t = some (.sWaitCwait σ)) : (s.sigs σ).signaled = false :=
  ((reach_sigInv hr).b σ hnd).chk t ht

/-- no sleeper misses a set signal, both code orders: some thread is inside `Signal::set` on `σ` after the store
    and before (or at) the broadcast -/
theorem waiter_of_set_signal_has_pending_set {σ : Nat} {t : Tid} (hr : Reach cfg s) (hnd : NeverDestroyed s σ)
    (ht : t ∈ (s.sigs σ).waiters) (hs : (s.sigs σ).signaled = true) :
    ∃ u, (cfg.repaired = false ∧ topFrame s u = some (.sSetUnlock σ)) ∨ ∃ gen, topFrame s u = some (.sSetBcast σ gen) := by
  have hne : (s.sigs σ).waiters ≠ [] := by intro e; rw [e] at ht; cases ht
  obtain ⟨u, fr, h1, h2⟩ := ((reach_sigInv hr).b σ hnd).pend hne hs
  refine ⟨u, ?_⟩
  cases fr <;> simp [pendB] at h2
  · next σ' => obtain ⟨h3, rfl⟩ := h2; exact Or.inl ⟨h3, h1⟩
  · next σ' g => subst h2; exact Or.inr ⟨g, h1⟩

/-- repaired order (store, broadcast, unlock): the broadcast is pending -/
theorem waiter_of_set_signal_has_pending_broadcast {σ : Nat} {t : Tid} (hrep : cfg.repaired = true)
    (hr : Reach cfg s) (hnd : NeverDestroyed s σ)
    (ht : t ∈ (s.sigs σ).waiters) (hs : (s.sigs σ).signaled = true) :
    ∃ u gen, topFrame s u = some (.sSetBcast σ gen) := by
  obtain ⟨u, ⟨h1, _⟩ | ⟨g, h2⟩⟩ := waiter_of_set_signal_has_pending_set hr hnd ht hs
  · rw [hrep] at h1; cases h1
  · exact ⟨u, g, h2⟩

/-- original order (store, unlock, broadcast) -/
theorem waiter_of_set_signal_has_pending_broadcast_orig {σ : Nat} {t : Tid}
    (hr : Reach cfg s) (hnd : NeverDestroyed s σ)
    (ht : t ∈ (s.sigs σ).waiters) (hs : (s.sigs σ).signaled = true) :
    ∃ u, topFrame s u = some (.sSetUnlock σ) ∨ ∃ gen, topFrame s u = some (.sSetBcast σ gen) := by
  obtain ⟨u, ⟨_, h1⟩ | h2⟩ := waiter_of_set_signal_has_pending_set hr hnd ht hs
  · exact ⟨u, Or.inl h1⟩
  · exact ⟨u, Or.inr h2⟩

/-- progress form: a sleeper on a set signal is never the only hope — the thread that owes the broadcast is enabled -/
theorem waiter_of_set_signal_has_enabled_setter {σ : Nat} {t : Tid} (hr : Reach cfg s) (hnd : NeverDestroyed s σ)
    (ht : t ∈ (s.sigs σ).waiters) (hs : (s.sigs σ).signaled = true) :
    ∃ u, u ≠ t ∧ enabled s u = true := by
  have hw := waiter_at_cwake hr ht
  obtain ⟨u, ⟨_, h1⟩ | ⟨g, h1⟩⟩ := waiter_of_set_signal_has_pending_set hr hnd ht hs
  all_goals
    refine ⟨u, ?_, enabled_of_top hr h1 rfl⟩
    intro e; subst e; rw [hw] at h1; cases h1

/-! ### 2b. signals that ARE destroyed and re-created (future signals `f + 2`)

  `SigClean cfg s σ`: the three invariants of `σ` that rest on mutual exclusion.  They hold for a never-destroyed signal
  (`sigClean_of_neverDestroyed`), survive every step that does not destroy `σ` (`sigClean_step`), and are re-established
  by `destroyF f` when no other thread is inside the critical section of `f + 2` at that moment
  (`sigClean_recreated`; that side condition is a fact about the `Future` protocol, not about the Signal layer).
  The consequences below take `SigClean` as hypothesis. -/

def SigClean (cfg : Config) (s : State) (σ : Nat) : Prop := BInv cfg.repaired (topFrame s) s.sigs σ

theorem sigClean_of_neverDestroyed {σ : Nat} (hr : Reach cfg s) (hnd : NeverDestroyed s σ) : SigClean cfg s σ :=
  (reach_sigInv hr).b σ hnd

theorem sigClean_step {σ : Nat} {s' : State} {t : Tid} {o : List String} (hr : Reach cfg s) (hc : SigClean cfg s σ)
    (h : step s t = some (s', o)) (hnd : ∀ fr, topFrame s t = some fr → destroys fr σ = false) :
    SigClean cfg s' σ :=
  binv_step (reach_sigInv hr).a hc (astep_of_step hr (reach_sigInv hr).noInner h).1 hnd

theorem sigClean_recreated {f : Nat} {s' : State} {t : Tid} {o : List String} (hr : Reach cfg s)
    (ht : topFrame s t = some (.destroyF f)) (h : step s t = some (s', o))
    (hq : ∀ u fr, u ≠ t → topFrame s u = some fr → critFrame cfg (f + 2) fr = false) : SigClean cfg s' (f + 2) :=
  binv_recreated (astep_of_step hr (reach_sigInv hr).noInner h).1 ht hq

theorem SigClean.critical_is_owner {σ : Nat} {t : Tid} {fr : Frame} (hc : SigClean cfg s σ)
    (ht : topFrame s t = some fr) (hcr : critFrame cfg σ fr = true) : (s.sigs σ).owner = some t :=
  hc.excl t fr ht hcr

theorem SigClean.mutex_exclusive {σ : Nat} {t u : Tid} {a b : Frame} (hc : SigClean cfg s σ)
    (htu : t ≠ u) (ht : topFrame s t = some a) (hu : topFrame s u = some b)
    (ha : critFrame cfg σ a = true) (hb : critFrame cfg σ b = true) : False := by
  have h1 := hc.critical_is_owner ht ha
  have h2 := hc.critical_is_owner hu hb
  rw [h1] at h2; injection h2 with h2; exact htu h2

theorem SigClean.pending_set {σ : Nat} {t : Tid} (hc : SigClean cfg s σ)
    (ht : t ∈ (s.sigs σ).waiters) (hs : (s.sigs σ).signaled = true) :
    ∃ u, (cfg.repaired = false ∧ topFrame s u = some (.sSetUnlock σ)) ∨ ∃ gen, topFrame s u = some (.sSetBcast σ gen) := by
  have hne : (s.sigs σ).waiters ≠ [] := by intro e; rw [e] at ht; cases ht
  obtain ⟨u, fr, h1, h2⟩ := hc.pend hne hs
  refine ⟨u, ?_⟩
  cases fr <;> simp [pendB] at h2
  · next σ' => obtain ⟨h3, rfl⟩ := h2; exact Or.inl ⟨h3, h1⟩
  · next σ' g => subst h2; exact Or.inr ⟨g, h1⟩

theorem SigClean.enabled_setter {σ : Nat} {t : Tid} (hr : Reach cfg s) (hc : SigClean cfg s σ)
    (ht : t ∈ (s.sigs σ).waiters) (hs : (s.sigs σ).signaled = true) : ∃ u, u ≠ t ∧ enabled s u = true := by
  have hw := waiter_at_cwake hr ht
  obtain ⟨u, ⟨_, h1⟩ | ⟨g, h1⟩⟩ := hc.pending_set ht hs
  all_goals
    refine ⟨u, ?_, enabled_of_top hr h1 rfl⟩
    intro e; subst e; rw [hw] at h1; cases h1

/-! ### 3. the pool mutex (`ThreadPool::_mutex`)

  `holdStack l` (Progress3): `l = pre ++ h :: post` where `h` is one of the marker frames of `ThreadPool::run` between
  `runSpLock`/`runRetLock` and the matching unlock (`poolHold`: `runSpChk`, `runSpUnlock _`, `runRetChk`, `runRetAfter`,
  `runRetUnlock`), `pre` consists of frames of code called under the mutex (`poolAbove`: `cleanAt`, `cleanJoin`,
  `ring _` (push of the retire job), `fSet 0` and `Signal::set` on signal 0), and `post` (the callers) has no marker. -/

theorem holdStack_iff (l : List Frame) : holdStack l = true ↔
    ∃ pre h post, l = pre ++ h :: post ∧ (∀ f ∈ pre, poolAbove f = true) ∧ poolHold h = true ∧
      (∀ f ∈ post, poolHold f = false) := by
  have hno : ∀ l : List Frame, noHold l = true ↔ ∀ f ∈ l, poolHold f = false := by
    intro l
    induction l with
    | nil => simp [noHold]
    | cons a l ih => simp [noHold, ih]
  have hdisj : ∀ f, poolAbove f = true → poolHold f = false := by
    intro f hf; cases f <;> first | rfl | (simp [poolAbove] at hf)
  induction l with
  | nil => simp [holdStack]
  | cons a l ih =>
    simp only [holdStack, Bool.or_eq_true, Bool.and_eq_true, ih, hno]
    constructor
    · rintro (⟨h1, h2⟩ | ⟨h1, pre, h, post, rfl, h3, h4, h5⟩)
      · exact ⟨[], a, l, rfl, by simp, h1, h2⟩
      · refine ⟨a :: pre, h, post, rfl, ?_, h4, h5⟩
        intro f hf; rcases List.mem_cons.mp hf with rfl | hf
        · exact h1
        · exact h3 f hf
    · rintro ⟨pre, h, post, he, h3, h4, h5⟩
      cases pre with
      | nil =>
        simp only [List.nil_append, List.cons.injEq] at he
        obtain ⟨rfl, rfl⟩ := he
        exact Or.inl ⟨h4, h5⟩
      | cons b pre =>
        simp only [List.cons_append, List.cons.injEq] at he
        obtain ⟨rfl, rfl⟩ := he
        exact Or.inr ⟨h3 _ (List.mem_cons_self ..), pre, h, post, rfl, fun f hf => h3 f (List.mem_cons_of_mem _ hf), h4, h5⟩

/-- the owner of the pool mutex is a live thread inside the critical section of `ThreadPool::run` -/
theorem pool_owner_in_critical_section {p : Pool} {o : Tid} (hr : Reach cfg s) (hp : s.pool = some p)
    (ho : p.mOwner = some o) : ∃ th, s.threads o = some th ∧ th.finished = false ∧ holdStack th.stack = true := by
  obtain ⟨th, h1, h2⟩ := (reach_poolInv hr).own p o hp ho
  refine ⟨th, h1, ?_, h2⟩
  cases hf : th.finished
  · rfl
  · have := finished_stack_nil hr h1 hf; rw [this] at h2; cases h2

/-- a thread inside the critical section owns the pool mutex -/
theorem pool_critical_is_owner {p : Pool} {t : Tid} {th : Thread} (hr : Reach cfg s) (hp : s.pool = some p)
    (hth : s.threads t = some th) (hh : holdStack th.stack = true) : p.mOwner = some t :=
  (reach_poolInv hr).excl p t th hp hth hh

/-- mutual exclusion of the pool mutex -/
theorem pool_mutex_exclusive {p : Pool} {t u : Tid} {tht thu : Thread} (hr : Reach cfg s) (hp : s.pool = some p)
    (htu : t ≠ u) (ht : s.threads t = some tht) (hu : s.threads u = some thu)
    (h1 : holdStack tht.stack = true) (h2 : holdStack thu.stack = true) : False := by
  have a := pool_critical_is_owner hr hp ht h1
  have b := pool_critical_is_owner hr hp hu h2
  rw [a] at b; injection b with b; exact htu b

/-- no thread holds the pool mutex twice / at most one marker frame per stack -/
theorem pool_marker_unique {t : Tid} {th : Thread} (hr : Reach cfg s) (hth : s.threads t = some th) :
    holdStack th.stack = true ∨ noHold th.stack = true := (reach_poolInv hr).g t th hth

/-- a thread blocked on the pool mutex: the owner is a live thread inside the critical section, and it can step unless
    it is itself waiting in `cleanup` for a terminated worker to exit (`cleanJoin`) or for the mutex of the enqueued
    signal (`sSetLock 0`) -/
theorem pool_lock_waiter_has_owner {p : Pool} {t : Tid} {fr : Frame} (hr : Reach cfg s) (hp : s.pool = some p)
    (ht : topFrame s t = some fr) (hfr : fr = .runSpLock ∨ fr = .runRetLock) (hen : enabled s t = false) :
    ∃ o th fo, p.mOwner = some o ∧ s.threads o = some th ∧ th.finished = false ∧ holdStack th.stack = true ∧
      th.stack.head? = some fo ∧ (enabled s o = true ∨ (∃ i w, fo = .cleanJoin i w) ∨ fo = .sSetLock 0) := by
  have hb : blockedFrame s t fr = true := by
    cases hb : blockedFrame s t fr
    · rw [enabled_of_top hr ht hb] at hen; cases hen
    · rfl
  have : p.mOwner.isSome = true := by
    rcases hfr with rfl | rfl <;> simpa [blockedFrame, hp] using hb
  cases ho : p.mOwner with
  | none => rw [ho] at this; cases this
  | some o =>
    obtain ⟨th, h1, h2, h3⟩ := pool_owner_in_critical_section hr hp ho
    cases hst : th.stack with
    | nil => rw [hst] at h3; cases h3
    | cons fo rest =>
      refine ⟨o, th, fo, rfl, h1, h2, h3, by rw [hst]; rfl, ?_⟩
      have htop : topFrame s o = some fo := by simp only [topFrame, h1, hst]; rfl
      rw [hst] at h3
      simp only [holdStack, Bool.or_eq_true, Bool.and_eq_true] at h3
      cases hbo : blockedFrame s o fo with
      | false => exact Or.inl (enabled_of_top hr htop hbo)
      | true =>
        right
        rcases h3 with ⟨h4, _⟩ | ⟨h4, _⟩
        · cases fo <;> simp [poolHold] at h4 <;> simp [blockedFrame] at hbo
        · cases fo <;> simp [poolAbove] at h4 <;> simp [blockedFrame] at hbo <;>
            first | exact Or.inl ⟨_, _, rfl⟩ | (subst h4; exact Or.inr rfl)

/-! ### 4. `cleanup` under the pool mutex joins only exiting workers -/

/-- a ThreadContext marked `terminated` belongs to a worker that is at `pthread_exit` or has finished -/
theorem terminated_ctx_exiting {p : Pool} {c : Ctx} (hr : Reach cfg s) (hp : s.pool = some p) (hc : c ∈ p.ctxs)
    (ht : c.terminated = true) : ∃ w, c.tid = some w ∧ Exiting s w := (reach_ctxInv hr).term p c hp hc ht

/-- the thread `cleanup` joins (while holding the pool mutex) is at `pthread_exit` or has finished -/
theorem pool_cleanJoin_target_exiting {t w : Tid} {i : Nat} (hr : Reach cfg s)
    (ht : topFrame s t = some (.cleanJoin i w)) : Exiting s w := (reach_ctxInv hr).join t i w ht

/-- ... hence a blocked `cleanJoin` waits for an enabled thread -/
theorem pool_cleanJoin_blocked_target_enabled {t w : Tid} {i : Nat} (hr : Reach cfg s)
    (ht : topFrame s t = some (.cleanJoin i w)) (hen : enabled s t = false) : enabled s w = true := by
  have hb : blockedFrame s t (.cleanJoin i w) = true := by
    cases hb : blockedFrame s t (.cleanJoin i w)
    · rw [enabled_of_top hr ht hb] at hen; cases hen
    · rfl
  obtain ⟨thw, h1, h2⟩ := pool_cleanJoin_target_exiting hr ht
  simp only [blockedFrame, h1, Bool.not_eq_true'] at hb
  rcases h2 with h2 | h2
  · rw [hb] at h2; cases h2
  · exact enabled_of_top hr (by rw [topFrame, h1]; exact h2) rfl

/-- a thread blocked on the pool mutex is never the only hope: some other thread is enabled (the owner itself, or the
    exiting worker it joins, or the owner of the mutex of the enqueued signal it waits for) -/
theorem pool_lock_waiter_some_enabled {p : Pool} {t : Tid} {fr : Frame} (hr : Reach cfg s) (hp : s.pool = some p)
    (ht : topFrame s t = some fr) (hfr : fr = .runSpLock ∨ fr = .runRetLock) (hen : enabled s t = false) :
    ∃ u, u ≠ t ∧ enabled s u = true := by
  have hne : ∀ u, enabled s u = true → u ≠ t := by
    intro u hu e; subst e; rw [hu] at hen; cases hen
  obtain ⟨o, th, fo, _, h1, _, _, h2, h3⟩ := pool_lock_waiter_has_owner hr hp ht hfr hen
  have htop : topFrame s o = some fo := by rw [topFrame, h1]; exact h2
  cases ho : enabled s o with
  | true => exact ⟨o, hne o ho, ho⟩
  | false =>
    rcases h3 with h3 | ⟨i, w, h3⟩ | h3
    · rw [ho] at h3; cases h3
    · subst h3
      have := pool_cleanJoin_blocked_target_enabled hr htop ho
      exact ⟨w, hne w this, this⟩
    · subst h3
      obtain ⟨o2, _, h4⟩ := sig_lock_waiter_has_enabled_owner hr htop (Or.inl rfl) ho
      exact ⟨o2, hne o2 h4, h4⟩


/-! ### 5. summary: what a stuck thread can be waiting for when NO thread is enabled -/

/-- In a reachable state in which no thread can step, every thread that still has code to run sleeps in
    `pthread_cond_wait` of some signal `σ` (it is in the wait set, no spurious wake-up is left, and — when `σ` is clean,
    e.g. has never been destroyed: `sigClean_of_neverDestroyed` — the flag of `σ` is unset), or is the main thread joining a client / a worker (`mJoin`, `dJoin`).
    In particular no thread is stuck on a Signal mutex, on the pool mutex, or in `cleanup`'s join. -/
theorem global_deadlock_shape {t : Tid} {fr : Frame} (hr : Reach cfg s) (hdead : ∀ u, enabled s u = false)
    (ht : topFrame s t = some fr) :
    (∃ σ, fr = .sWaitCwake σ ∧ t ∈ (s.sigs σ).waiters ∧ s.spurious = 0 ∧
        (SigClean cfg s σ → (s.sigs σ).signaled = false)) ∨
    (∃ i, fr = .mJoin i) ∨ (∃ i, fr = .dJoin i) := by
  have hb : blockedFrame s t fr = true := by
    cases hb : blockedFrame s t fr
    · have := enabled_of_top hr ht hb; rw [hdead t] at this; cases this
    · rfl
  have hsig : ∀ σ, (fr = .sSetLock σ ∨ fr = .sRstLock σ ∨ fr = .sWaitLock σ ∨ fr = .sWaitRelock σ) → False := by
    intro σ h
    obtain ⟨o, _, h2⟩ := sig_lock_waiter_has_enabled_owner hr ht h (hdead t)
    rw [hdead o] at h2; cases h2
  have hpool : (fr = .runSpLock ∨ fr = .runRetLock) → False := by
    intro h
    cases hp : s.pool with
    | none => rcases h with rfl | rfl <;> simp [blockedFrame, hp] at hb
    | some p =>
      obtain ⟨u, _, h2⟩ := pool_lock_waiter_some_enabled hr hp ht h (hdead t)
      rw [hdead u] at h2; cases h2
  cases fr <;> try (simp [blockedFrame] at hb; done)
  case sSetLock σ => exact (hsig σ (Or.inl rfl)).elim
  case sRstLock σ => exact (hsig σ (Or.inr (Or.inl rfl))).elim
  case sWaitLock σ => exact (hsig σ (Or.inr (Or.inr (Or.inl rfl)))).elim
  case sWaitRelock σ => exact (hsig σ (Or.inr (Or.inr (Or.inr rfl)))).elim
  case runSpLock => exact (hpool (Or.inl rfl)).elim
  case runRetLock => exact (hpool (Or.inr rfl)).elim
  case cleanJoin i w =>
    have := pool_cleanJoin_blocked_target_enabled hr ht (hdead t)
    rw [hdead w] at this; cases this
  case mJoin i => exact Or.inr (Or.inl ⟨i, rfl⟩)
  case dJoin i => exact Or.inr (Or.inr ⟨i, rfl⟩)
  case sWaitCwake σ =>
    left
    simp only [blockedFrame, Bool.and_eq_true, List.contains_iff_mem, beq_iff_eq] at hb
    refine ⟨σ, rfl, hb.1, hb.2, ?_⟩
    intro hnd
    cases hs : (s.sigs σ).signaled with
    | false => rfl
    | true =>
      obtain ⟨u, _, h2⟩ := hnd.enabled_setter hr hb.1 hs
      rw [hdead u] at h2; cases h2

/-! ### 6. after `~ThreadPool`: the pool signals without the hypothesis "the pool exists"

  `pool_deleted_all_finished` (Progress6): once `dFin` has run, every thread but the main thread has finished (the
  destructor has joined every worker, all clients were joined before).  Hence the statements about the two pool
  signals (σ < 2) hold in EVERY reachable state.  (Progress6 also gives `pool_frame_has_pool` and `no_pool_fault`.) -/

theorem pool_signal_neverDestroyed_of_alive {σ : Nat} (hr : Reach cfg s) (hσ : σ < 2) (hl : poolAlive s) :
    NeverDestroyed s σ := by
  obtain ⟨h1, h2, h3⟩ := (reach_sigInv hr).p01
  have : σ = 0 ∨ σ = 1 := by omega
  rcases this with rfl | rfl
  · exact ⟨hl, h2⟩
  · exact ⟨by rw [h1]; exact hl, h3⟩

/-- after the pool is deleted only the main thread can still have a top frame, and it is `tExit` -/
theorem dead_top {t : Tid} {fr : Frame} (hr : Reach cfg s) (hl : ¬ poolAlive s) (ht : topFrame s t = some fr) :
    t = 0 ∧ fr = .tExit := by
  obtain ⟨th, rest, hth, hst⟩ := topFrame_some ht
  obtain ⟨hall, hm0⟩ := (reach_finInv hr).dead hl
  have ht0 : t = 0 := by
    cases Nat.decEq t 0 with
    | isTrue h0 => exact h0
    | isFalse h0 =>
      have := finished_stack_nil hr hth (hall t th h0 hth)
      rw [hst] at this; cases this
  subst ht0
  refine ⟨rfl, ?_⟩
  rcases hm0 th hth with h2 | h2
  · rw [hst] at h2; injection h2
  · rw [hst] at h2; cases h2

/-- mutual exclusion of the mutexes of the two pool signals, in every reachable state -/
theorem pool_sig_mutex_exclusive_always {σ : Nat} {t u : Tid} {a b : Frame} (hr : Reach cfg s) (hσ : σ < 2)
    (htu : t ≠ u) (ht : topFrame s t = some a) (hu : topFrame s u = some b)
    (ha : critFrame cfg σ a = true) (hb : critFrame cfg σ b = true) : False := by
  by_cases hl : poolAlive s
  · exact sig_mutex_exclusive hr (pool_signal_neverDestroyed_of_alive hr hσ hl) htu ht hu ha hb
  · exact htu ((dead_top hr hl ht).1.trans (dead_top hr hl hu).1.symm)

/-- no sleeper of a pool signal misses a set flag, in every reachable state (both code orders) -/
theorem pool_sig_waiter_has_pending_set {σ : Nat} {t : Tid} (hr : Reach cfg s) (hσ : σ < 2)
    (ht : t ∈ (s.sigs σ).waiters) (hs : (s.sigs σ).signaled = true) :
    ∃ u, (cfg.repaired = false ∧ topFrame s u = some (.sSetUnlock σ)) ∨ ∃ gen, topFrame s u = some (.sSetBcast σ gen) := by
  by_cases hl : poolAlive s
  · exact waiter_of_set_signal_has_pending_set hr (pool_signal_neverDestroyed_of_alive hr hσ hl) ht hs
  · have := (dead_top hr hl (waiter_at_cwake hr ht)).2; cases this

theorem pool_sig_waiter_has_enabled_setter {σ : Nat} {t : Tid} (hr : Reach cfg s) (hσ : σ < 2)
    (ht : t ∈ (s.sigs σ).waiters) (hs : (s.sigs σ).signaled = true) : ∃ u, u ≠ t ∧ enabled s u = true := by
  by_cases hl : poolAlive s
  · exact waiter_of_set_signal_has_enabled_setter hr (pool_signal_neverDestroyed_of_alive hr hσ hl) ht hs
  · have := (dead_top hr hl (waiter_at_cwake hr ht)).2; cases this

/-- in a state where no thread is enabled, a sleeper on a pool signal sees its flag unset (no hypothesis) -/
theorem deadlock_pool_sleeper_flag_unset {σ : Nat} {t : Tid} (hr : Reach cfg s) (hdead : ∀ u, enabled s u = false)
    (hσ : σ < 2) (ht : t ∈ (s.sigs σ).waiters) : (s.sigs σ).signaled = false := by
  cases hs : (s.sigs σ).signaled with
  | false => rfl
  | true =>
    obtain ⟨u, _, h2⟩ := pool_sig_waiter_has_enabled_setter hr hσ ht hs
    rw [hdead u] at h2; cases h2

end Nstd.Future
