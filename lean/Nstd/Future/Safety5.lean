/-
  Safety of the Future/ThreadPool model, part 5: effect of a micro-step (frame other than `push`/`pop`)
  on the record table and the ghost data.
-/
import Nstd.Future.Safety4
set_option linter.unusedSimpArgs false
set_option linter.unusedVariables false
namespace Nstd.Future

structure ShapeD (s s' : State) (fr : Frame) : Prop where
  nc : s'.nextCall = s.nextCall ∨
    (isCNext fr = true ∧ s'.nextCall = s.nextCall + 1 ∧ s'.everCalls s.nextCall ≠ none ∧
      s'.calls s.nextCall = s'.everCalls s.nextCall)
  ever : ∀ c, s'.everCalls c = s.everCalls c ∨ (c = s.nextCall ∧ s'.nextCall = s.nextCall + 1)
  calls : ∀ c, s'.calls c = s.calls c ∨ (c = s.nextCall ∧ s'.nextCall = s.nextCall + 1) ∨
    (s'.calls c = none ∧ s'.freeCount c = s.freeCount c + 1)
  args : ∀ c, s'.execArgs c = s.execArgs c ∨ ∃ r, s.calls c = some r ∧ s'.execArgs c = some (r.a, r.b)
  flt : s'.fault = s.fault ∨ s'.fault = some (s.fault.getD "no pool")

set_option maxHeartbeats 16000000 in
theorem shapeD (s : State) (t : Tid) (th : Thread) (fr : Frame)
    (hnr : isRing fr = false) (hrec : ∀ c', reads fr = some c' → s.calls c' ≠ none) :
    ShapeD s (stepFrame s t th fr).1 fr := by
  cases fr <;> simp only [isRing, Bool.true_eq_false] at hnr <;> simp only [reads, Option.some.injEq, forall_eq', false_implies, implies_true] at hrec <;> simp only [stepFrame] <;> repeat' split
  all_goals
    constructor
    · simp [setThread, setSig, setPool, setFut, withFault, destroySig, isCNext, upd]
    · intro c
      simp [setThread, setSig, setPool, setFut, withFault, destroySig, upd]
      try grind
    · intro c
      simp [setThread, setSig, setPool, setFut, withFault, destroySig, upd]
      try grind
    · intro c
      simp [setThread, setSig, setPool, setFut, withFault, destroySig, upd]
      try grind
    · simp [setThread, setSig, setPool, setFut, withFault, destroySig]
      try (simp_all; done)

end Nstd.Future
