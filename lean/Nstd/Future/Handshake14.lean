/-
  Completion handshake of a Future, part 14: `HsInv` holds in every reachable state (given the executor facts);
  the first two handshake theorems.
-/
import Nstd.Future.Handshake13
set_option linter.unusedSimpArgs false
set_option linter.unusedVariables false
namespace Nstd.Future

theorem hs_step {cfg : Config} {s s' : State} {t : Tid} {o : List String} (hwf : cfg.WellFormed)
    (hS : SimInv cfg s) (h0 : Inv0 s) (hX : ExecFacts s) (hH : HsInv s) (h : step s t = some (s', o)) :
    HsInv s' := by
  obtain ⟨th, fr, rest, hth, hst, hnf, hblk, rfl⟩ := step_inv2 h
  have hwf' : s.cfg.WellFormed := by rw [hS.cfgEq]; exact hwf
  by_cases hq : quiet fr = true
  · exact hs_quiet hS h0 hH hth hst hq
  · have hch := h0.chain t th hth
    rw [hst, chainOk_cons] at hch
    have hlink := hch.1
    cases fr with
    | sSetLock σ => exact hs_sSetLock hS h0 hH hth hst (by simpa [quiet] using hq)
    | sSetStore σ => exact hs_sSetStore hS h0 hH hth hst (by simpa [quiet] using hq)
    | sRstLock σ => exact hs_sRstLock hS h0 hH hth hst (by simpa [quiet] using hq)
    | sRstStore σ => exact hs_sRstStore hS h0 hH hth hst (by simpa [quiet] using hq)
    | sRstUnlock σ => exact hs_sRstUnlock hS h0 hH hth hst (by simpa [quiet] using hq)
    | sWaitChk σ => exact hs_sWaitChk hS h0 hH hth hst (by simpa [quiet] using hq)
    | sWaitUnlock σ => exact hs_sWaitUnlock hS h0 hH hth hst (by simpa [quiet] using hq)
    | fSet k => exact absurd (relO_fs_lt hlink) (by simpa [quiet] using hq)
    | fRst k => exact absurd (relO_fs_lt hlink) (by simpa [quiet] using hq)
    | fRstLoad k => exact absurd (relO_fs_lt hlink) (by simpa [quiet] using hq)
    | fWait k => exact absurd (relO_fs_lt hlink) (by simpa [quiet] using hq)
    | pStore c => exact hs_pStore hS h0 hH hth hst
    | pSetRd c => exact hs_pSetRd hS h0 hH hth hst
    | pSetX c ab => exact hs_pSetX hS h0 hX hH hth hst
    | pSig c => exact hs_pSig hS h0 hH hth hst
    | cArm c => exact hs_cArm hwf' hS h0 hH hth hst
    | join f => exact hs_join hS h0 hH hth hst
    | joinClr f => exact hs_joinClr hwf' hS h0 hH hth hst
    | destroyF f => exact hs_destroyF hwf' hS h0 hH hth hst
    | cNext =>
      by_cases hs : ∃ f a b rest', th.script = .start f a b :: rest'
      · obtain ⟨f, a, b, rest', hs⟩ := hs
        exact hs_cNext_start hS h0 hX hH hth hst hs
      · exact hs_cNext_other hS h0 hH hth hst (fun f a b rest' e => hs ⟨f, a, b, rest', e⟩)
    | _ => exact absurd rfl hq

theorem hs_init (cfg : Config) : HsInv (State.init cfg) := by
  have hthr : ∀ t th, (State.init cfg).threads t = some th → th = { stack := [Frame.mInit] } := by
    intro t th h
    simp only [State.init] at h
    split at h
    · injection h with h; exact h.symm
    · cases h
  have hrole : ∀ u k f, ¬ Role (State.init cfg) u k f := by
    rintro u k f ⟨x, ⟨thu, h1, h2⟩, h3⟩
    rw [hthr u thu h1] at h2
    simp at h2; subst h2; cases h3
  constructor
  · intro c r h; cases h
  · rintro c ⟨u, thu, x, h1, h2, h3⟩
    rw [hthr u thu h1] at h2
    simp at h2; subst h2; cases h3
  · intro f _; rfl
  · intro f h; cases h
  · intro f _ c h; cases h
  · intro u k f h; exact absurd h (hrole u k f)
  · intro u v f h; exact absurd h (hrole u _ f)

theorem reach_hs {cfg : Config} (hwf : cfg.WellFormed) (hex : ∀ s, Reach cfg s → ExecFacts s)
    {s : State} (h : Reach cfg s) : HsInv s := by
  induction h with
  | init => exact hs_init cfg
  | step t hr hs ih => exact hs_step hwf (reach_inv hr) (reach_inv0 hr) (hex _ hr) ih hs

theorem role_of_topFrame {s : State} {t : Tid} {x : Frame} (h : topFrame s t = some x) : TopIs s t x := by
  simp only [topFrame] at h
  split at h
  · next th hth => exact ⟨th, hth, h⟩
  · cases h

/-- when `join()` has returned from `_sig.wait(); _sig.reset();` the call started last on the future has completed -/
theorem join_after_completion_of {cfg : Config} {s : State} {t : Tid} {f c : Nat} (hwf : cfg.WellFormed)
    (hex : ∀ s, Reach cfg s → ExecFacts s) (h : Reach cfg s)
    (htop : topFrame s t = some (.joinClr f)) (hc : (s.futs f).curCall = some c) : s.completed c = true :=
  ((reach_hs hwf hex h).top t .rstDone f ⟨_, role_of_topFrame htop, rfl⟩).1 c hc

/-- a future that is not joinable (a `join()` returns immediately) has completed its last call -/
theorem joined_means_completed_of {cfg : Config} {s : State} {f c : Nat} (hwf : cfg.WellFormed)
    (hex : ∀ s, Reach cfg s → ExecFacts s) (h : Reach cfg s)
    (hj : (s.futs f).joinable = false) (hc : (s.futs f).curCall = some c) : s.completed c = true :=
  (reach_hs hwf hex h).g2 f hj c hc

end Nstd.Future
