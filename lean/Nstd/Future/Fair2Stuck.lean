import Nstd.Future.Safety
import Nstd.Future.Fair2Neg
set_option linter.unusedVariables false
set_option linter.unusedSimpArgs false
/-
  NEGATION WITNESS for the ORIGINAL code (`cfg.repaired = false`).  Defect: the FastSignal `_enqueuedSignal` can get
  STUCK in the state
      `_state = 0`  ∧  its Signal is signaled  ∧  no thread is anywhere inside `set()` / `reset()` of that signal.
  In that state an idle worker busy-spins (`F2N.phase_step`): `FastSignal::reset` exchanges 0 for 0 and so does not reset
  the Signal, `FastSignal::wait` sees `_state = 0` and calls `Signal::wait`, which returns at once because the flag is
  set.  Nothing that is in flight will clear the flag: only a LATER `set()` (a later push) followed by a `reset()` does.
  Fixed by fixes/future/0005: `FastSignal::reset` calls `_signal.reset()` unconditionally (model: `stepFrame`, case
  `.fRst fs`, branch `s.cfg.repaired`), so the spinning worker clears the flag in its next `reset()`.

  How it arises (race between `FastSignal::set` and `FastSignal::reset` of the original code), schedule
  `F2S.stuckSched` (thread 0 = main, 1 = client, 2 = worker):
    1  the client starts f0: pushes job 0, `set()` completes (`_state = 1`, flag set), spawns worker 2;
    2  worker 2 pops and runs job 0, its next pop fails, `reset()` completes (`_state = 0`, flag cleared);
    3  the client starts f1: pushes job 1 and stands before `_enqueuedSignal.set()` (`runSet`);
    4  worker 2 (at `wPop2`) pops and runs job 1; its next pop fails (`wChk1`), it is about to call `reset()`;
    5  the client performs the xchg of `set()`: `_state` 0 -> 1, old = 0, so it will call `Signal::set` (`sSetLock 0`);
    6  worker 2 runs the whole `reset()`: xchg old = 1 (`_state := 0`), `Signal::reset`: lock, flag cleared, unlock;
    7  the client runs `Signal::set`: lock, flag := true, unlock, broadcast, and continues (`runAdd`);
    8  worker 2: second pop fails, `FastSignal::wait` (state 0) -> `Signal::wait` returns immediately -> head of the
       loop (`wPop1`): `F2N.Phase s 2 0`.
-/
namespace Nstd.Future
namespace F2S

/-- the frame is a program point inside `FastSignal::set` / `FastSignal::reset` of `_enqueuedSignal`
    (fs = 0) or inside `Signal::set` / `Signal::reset` of its Signal (σ = 0) -/
def inSetReset0 : Frame → Bool
  | .sSetLock σ | .sSetStore σ | .sSetUnlock σ | .sSetBcast σ _ | .sRstLock σ | .sRstStore σ | .sRstUnlock σ => σ == 0
  | .fSet fs | .fRst fs | .fRstLoad fs => fs == 0
  | _ => false

/-- `inSetReset0` is true exactly for the ten program points of set()/reset() on signal 0 -/
theorem inSetReset0_iff (fr : Frame) : inSetReset0 fr = true ↔
    (fr = .sSetLock 0 ∨ fr = .sSetStore 0 ∨ fr = .sSetUnlock 0 ∨ (∃ g, fr = .sSetBcast 0 g) ∨ fr = .sRstLock 0 ∨
     fr = .sRstStore 0 ∨ fr = .sRstUnlock 0 ∨ fr = .fSet 0 ∨ fr = .fRst 0 ∨ fr = .fRstLoad 0) := by
  cases fr <;> simp [inSetReset0]

/-- no frame of any thread `< nthreads` is inside set()/reset() of signal 0 -/
def noSetReset (s : State) : Bool :=
  (List.range s.nthreads).all fun t =>
    match s.threads t with
    | some th => th.stack.all fun fr => !inSetReset0 fr
    | none => true

/-- ORIGINAL code, queue capacity 1, one client `start f0(11,5); start f1(12,6); join f0; join f1` -/
def stuckCfg : Config := F2N.negCfg

/-- see the header: constructed by hand (run thread `t` up to a named program point, nine times) -/
def stuckSched : List Tid :=
  [0, 0, 0, 0, 1, 1, 1, 1, 1, 1, 1, 1, 1, 1, 1, 1, 1, 1, 1, 1, 1, 1, 1, 1, 1, 1, 1, 1, 1, 1, 1, 1, 1, 2, 2, 2, 2, 2,
   2, 2, 2, 2, 2, 2, 2, 2, 2, 2, 2, 2, 2, 2, 2, 2, 2, 2, 2, 2, 2, 2, 2, 2, 2, 2, 2, 2, 2, 2, 1, 1, 1, 1, 1, 1, 1, 1,
   1, 1, 1, 1, 1, 2, 2, 2, 2, 2, 2, 2, 2, 2, 2, 2, 2, 2, 2, 2, 2, 2, 2, 2, 2, 2, 2, 2, 2, 2, 2, 1, 1, 2, 2, 2, 2, 1,
   1, 1, 1, 2, 2, 2, 2, 2, 2, 2, 2]

theorem stuckSched_length : stuckSched.length = 125 := by decide +kernel

/-- worker `w` is at the head of its idle loop, `_state = 0`, flag set, mutex free, ring empty, nobody in set/reset -/
def stuckChkAt (w : Tid) (s : State) : Bool :=
  match s.pool, s.threads w with
  | some p, some th =>
    F2N.stackIsLoopHead th.stack && p.enq == 0 && (s.sigs 0).signaled && (s.sigs 0).owner.isNone && !th.finished &&
      F2N.ringEmptyB p && noSetReset s && !s.cfg.repaired
  | _, _ => false

def stuckChk : Bool :=
  match runSched (State.init stuckCfg) stuckSched with
  | some s => stuckChkAt 2 s
  | none => false

theorem stuckChk_true : stuckChk = true := by decide +kernel

theorem facts_of_chk {w : Tid} {s : State} (h : stuckChkAt w s = true) :
    (∃ p, s.pool = some p ∧ p.enq = 0) ∧ (s.sigs 0).signaled = true ∧ (s.sigs 0).owner = none ∧
    noSetReset s = true ∧ F2N.Phase s w 0 := by
  unfold stuckChkAt at h
  split at h
  · next p th hp hth =>
    simp only [Bool.and_eq_true, beq_iff_eq, Bool.not_eq_true', Option.isNone_iff_eq_none] at h
    obtain ⟨⟨⟨⟨⟨⟨⟨h1, h2⟩, h3⟩, h4⟩, h5⟩, h6⟩, h7⟩, h8⟩ := h
    refine ⟨⟨p, hp, h2⟩, h3, h4, h7, ?_⟩
    cases hst : th.stack with
    | nil => rw [hst] at h1; cases h1
    | cons fr rest =>
      rw [hst] at h1
      cases fr <;> first | (cases h1; done) | skip
      refine ⟨p, th, rest, hp, h2, h3, by simpa using h4, ?_, hth, h5, by simp [F2N.stk, hst], by simp, h8⟩
      intro he
      unfold F2N.ringEmptyB at h6
      rw [he] at h6
      simp at h6
  · cases h

theorem noSetReset_spec {cfg : Config} {s : State} (hr : Reach cfg s) (h : noSetReset s = true) :
    ∀ t th, s.threads t = some th → ∀ fr ∈ th.stack, inSetReset0 fr = false := by
  intro t th hth fr hfr
  have hlt : t < s.nthreads := thread_lt hr hth
  unfold noSetReset at h
  rw [List.all_eq_true] at h
  have h1 := h t (List.mem_range.mpr hlt)
  rw [hth] at h1
  simp only [List.all_eq_true] at h1
  have h2 := h1 fr hfr
  simpa using h2

theorem stuckCfg_wellFormed : stuckCfg.WellFormed := F2N.negCfg_wellFormed

theorem stuck_state : ∃ s, Reach stuckCfg s ∧ stuckChkAt 2 s = true := by
  have h := stuckChk_true
  unfold stuckChk at h
  split at h
  · next s hs => exact ⟨s, runSched_reach Reach.init hs, h⟩
  · cases h

end F2S

/-- ORIGINAL code, well-formed configuration: a reachable state in which `_enqueuedSignal._state = 0`, its Signal is
    signaled, its mutex is free, NO thread is inside `set()` / `reset()` of that signal (neither the FastSignal nor the
    Signal part), and worker 2 stands at the head of its idle loop with an empty ring (`F2N.Phase s 2 0`, so by
    `F2N.phase_step` it runs through the 13-step idle loop alone and returns to the same phase: a busy spin that only a
    later push can end). -/
theorem stuck_signaled_reachable : ∃ cfg s, cfg.repaired = false ∧ cfg.WellFormed ∧ Reach cfg s ∧
    (∃ p, s.pool = some p ∧ p.enq = 0) ∧ (s.sigs 0).signaled = true ∧ (s.sigs 0).owner = none ∧
    (∀ t th, s.threads t = some th → ∀ fr ∈ th.stack, F2S.inSetReset0 fr = false) ∧
    (∃ t, F2N.Phase s t 0) := by
  obtain ⟨s, hr, hc⟩ := F2S.stuck_state
  obtain ⟨hp, hsig, hown, hns, hph⟩ := F2S.facts_of_chk hc
  exact ⟨F2S.stuckCfg, s, rfl, F2S.stuckCfg_wellFormed, hr, hp, hsig, hown, F2S.noSetReset_spec hr hns, 2, hph⟩

/-- the stuck state is a spin state: the idle worker alone has an infinite chain of state-changing micro-steps from it,
    although no set()/reset() is in flight -/
theorem stuck_signaled_spins : ∃ cfg s, cfg.repaired = false ∧ cfg.WellFormed ∧ F2N.SpinSet cfg s ∧
    (∀ t th, s.threads t = some th → ∀ fr ∈ th.stack, F2S.inSetReset0 fr = false) := by
  obtain ⟨s, hr, hc⟩ := F2S.stuck_state
  obtain ⟨hp, hsig, hown, hns, hph⟩ := F2S.facts_of_chk hc
  exact ⟨F2S.stuckCfg, s, rfl, F2S.stuckCfg_wellFormed, ⟨hr, 2, 0, by omega, hph⟩, F2S.noSetReset_spec hr hns⟩

end Nstd.Future
