/-
  Completion handshake of a Future, part 7: the step of a quiet frame preserves `HsInv`.
-/
import Nstd.Future.Handshake6
set_option linter.unusedSimpArgs false
set_option linter.unusedVariables false
namespace Nstd.Future

theorem others_of_step {cfg : Config} {s : State} {t : Tid} {th : Thread} {fr : Frame} {rest : List Frame}
    (hS : SimInv cfg s) (hth : s.threads t = some th) (hst : th.stack = fr :: rest) :
    Others s (stepFrame s t th fr).1 t := by
  intro u hu
  rcases (shape4 s t th fr rest hth hst).others u hu with h | ⟨h1, thw, h2, _, h3⟩
  · exact Or.inl h
  · right
    have h1' : (u : Nat) = s.nthreads := h1
    refine ⟨by rw [h1']; exact hS.fresh _ (Nat.le_refl _), thw, h2, ?_⟩
    rcases h3 with h3 | ⟨h3, _⟩
    · exact Or.inl h3
    · exact Or.inr h3

theorem hs_quiet {cfg : Config} {s : State} {t : Tid} {th : Thread} {fr : Frame} {rest : List Frame}
    (hS : SimInv cfg s) (h0 : Inv0 s) (hH : HsInv s)
    (hth : s.threads t = some th) (hst : th.stack = fr :: rest) (hq : quiet fr = true) :
    HsInv (stepFrame s t th fr).1 := by
  have hO := others_of_step hS hth hst
  have hch := h0.chain t th hth
  rw [hst, chainOk_cons] at hch
  have hQ := hsShapeQ s t th fr rest hth hst hq hch.1
  obtain ⟨th', hth', htop⟩ := hQ.top
  obtain ⟨th'', hth'', hpre⟩ := hQ.pre
  rw [hth'] at hth''; injection hth'' with hth''; subst hth''
  rw [← hst] at hpre
  have hnoRole : ∀ k f, ¬ Role (stepFrame s t th fr).1 t k f := by
    intro k f hr
    obtain ⟨x, h1, h2⟩ := role_self hth' hr
    rw [dull_role (htop x h1)] at h2; cases h2
  apply hs_generic (t := t) none hH
  · intro f _; simp only [jn, hQ.futs]
  · intro f _; simp only [cur, hQ.futs]
  · intro f _; exact hQ.sigs (f + 2) (by omega)
  · intro c hc; rw [hQ.compl]; exact hc
  · intro c r hc; rw [hQ.ev] at hc; exact Or.inl hc
  · intro u hu k f hr; exact role_other_eq hO hQ.ev hu hr
  · intro c r _ _ hp; exact preArmed_fwd hO hth hth' (hpre c).mpr hp
  · intro c hp; rw [hQ.compl]; exact hH.c0 c (preArmed_bwd hO hth hth' (hpre c).mp hp)
  · intro k f hr; exact absurd hr (hnoRole k f)
  · intro f _ hn
    left
    refine noPassed_keep hO hth' (fun u x k f _ h1 _ => by rw [← hQ.ev]; exact h1) ?_ hn
    intro x hx
    rw [dull_role (htop x hx)]
    exact ⟨fun h => (by cases h), fun h => (by cases h)⟩
  · intro f c r h; cases h
  · intro f h; cases h
  · intro f h; cases h
  · intro f h; cases h
  · intro f h; cases h

end Nstd.Future
