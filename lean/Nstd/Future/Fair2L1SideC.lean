/-
  Fields `ctxsLe` / `dtorIdx` of `L1.Side` (Fair2L1Def.lean) and the bound on `_threadCount`, for reachable states:
  conservation law  `|ctxs| + U(s) ≤ N`, `threadCount + U(s) ≤ N`  with
  U(s) = Σ_threads (nStart script + Σ_frames scFw frame)   (PRE frames weigh 1, the main thread's spawn frames carry
  the `start` ops of the scripts not yet handed out).
-/
import Nstd.Future.Fair2L1Def
import Nstd.Future.FairDist
set_option linter.unusedVariables false
set_option linter.unusedSimpArgs false
namespace Nstd.Future.L1
open Nstd.Future

/-- frame weight: 1 for the frames of a `run` before its spawn decision; unspawned scripts for the main thread -/
def scFw (sc : List (List ClientOp)) : Frame → Nat
  | .cRdTp _ | .cSpin _ | .cRdTp2 _ | .cSwapTp _ | .cUnlockTp _ | .cJoin _ | .cArm _ => 1
  | .runStart _ | .runChk1 _ | .runPush2 _ | .runChk2 _ | .runSet | .runAdd | .runRdProc _ | .runRdTc _
  | .runClk2 _ | .runSpLock | .runSpChk => 1
  | .mInit => nCfg sc
  | .mSpawn i => nCfg (sc.drop i)
  | .mSpawned i _ => nCfg (sc.drop (i + 1))
  | _ => 0

def scSw (sc : List (List ClientOp)) : List Frame → Nat
  | [] => 0
  | f :: l => scFw sc f + scSw sc l

@[simp] theorem scSw_nil (sc : List (List ClientOp)) : scSw sc [] = 0 := rfl
@[simp] theorem scSw_cons (sc : List (List ClientOp)) (f : Frame) (l : List Frame) :
    scSw sc (f :: l) = scFw sc f + scSw sc l := rfl
theorem scSw_append (sc : List (List ClientOp)) (a b : List Frame) : scSw sc (a ++ b) = scSw sc a + scSw sc b := by
  induction a with
  | nil => simp
  | cons f l ih => simp [ih]; omega

def scTw (sc : List (List ClientOp)) (th : Thread) : Nat := nStart th.script + scSw sc th.stack
def scOw (sc : List (List ClientOp)) : Option Thread → Nat
  | none => 0
  | some th => scTw sc th
def scPC (s : State) : Nat := match s.pool with | some p => p.ctxs.length | none => 0
def scPT (s : State) : Nat := match s.pool with | some p => p.threadCount | none => 0
def scNew (sc : List (List ClientOp)) (s s' : State) : Nat :=
  if s'.nthreads = s.nthreads then 0 else scOw sc (s'.threads s.nthreads)
def scU (sc : List (List ClientOp)) (s : State) : Nat := tsum s.nthreads (fun u => scOw sc (s.threads u))

theorem scDrop {l : List (List ClientOp)} {i : Nat} {x : List ClientOp} (h : l[i]? = some x) :
    nCfg (l.drop i) = nStart x + nCfg (l.drop (i + 1)) := by
  induction l generalizing i with
  | nil => simp at h
  | cons a l ih =>
    cases i with
    | zero => simp at h; subst h; simp [nCfg]
    | succ i => simp at h; simpa using ih h

theorem scDrop0 (l : List (List ClientOp)) : nCfg (l.drop 0) = nCfg l := by simp

theorem scErase (l : List Ctx) (i : Nat) : (l.eraseIdx i).length ≤ l.length := by
  rw [List.length_eraseIdx]; split <;> omega

@[simp] theorem scFs_ctxs (p : Pool) (fs v : Nat) : (setFsState p fs v).ctxs = p.ctxs := by
  unfold setFsState; split <;> rfl
@[simp] theorem scFs_tc (p : Pool) (fs v : Nat) : (setFsState p fs v).threadCount = p.threadCount := by
  unfold setFsState; split <;> rfl

set_option maxHeartbeats 4000000 in
theorem scBalC (s : State) (t : Tid) (th : Thread) (rest : List Frame) (hth : s.threads t = some th)
    (hne : s.nthreads ≠ t) : ∀ fr, th.stack = fr :: rest →
    scPC (stepFrame s t th fr).1 + scOw s.cfg.scripts ((stepFrame s t th fr).1.threads t)
      + scNew s.cfg.scripts s (stepFrame s t th fr).1
      ≤ scPC s + (nStart th.script + (scFw s.cfg.scripts fr + scSw s.cfg.scripts rest)) := by
  intro fr0 ; cases fr0
  case ring pc =>
     intro hst
     cases hp : s.pool with
     | none => simp [stepFrame, hp, withFault, scPC, scPT, scNew, hth, scOw, scTw, hst, scFw]
     | some p =>
       simp only [stepFrame, hp]
       rcases hrs : ringStep p.ring pc with ⟨r', res⟩
       cases res with
       | cont pc' => simp [setThread, setPool, withFault, upd_same, Thread.cont, scPC, scPT, scNew, scOw, scTw, hst, scFw, hp, scSw_append]
       | pushed ok => simp [setThread, setPool, withFault, upd_same, Thread.cont, scPC, scPT, scNew, scOw, scTw, hst, scFw, hp, scSw_append]
       | popped o => rcases o with _ | _ | j <;> simp [setThread, setPool, withFault, upd_same, Thread.cont, scPC, scPT, scNew, scOw, scTw, hst, scFw, hp, scSw_append]
  all_goals
     intro hst
     simp only [stepFrame]
     repeat' split
  all_goals
     simp [setThread, setSig, setPool, setFut, withFault, destroySig, upd_same, upd_ne _ _ hne, Thread.cont,
       scPC, scPT, scNew, scOw, scTw, hst, scFw, scSw_append, hth, nStart, scDrop0, mkPool, *]
     try first
       | omega
       | exact scErase _ _
       | (rename_i h; have := scDrop h; omega)

set_option maxHeartbeats 4000000 in
theorem scBalT (s : State) (t : Tid) (th : Thread) (rest : List Frame) (hth : s.threads t = some th)
    (hne : s.nthreads ≠ t) : ∀ fr, th.stack = fr :: rest →
    scPT (stepFrame s t th fr).1 + scOw s.cfg.scripts ((stepFrame s t th fr).1.threads t)
      + scNew s.cfg.scripts s (stepFrame s t th fr).1
      ≤ scPT s + (nStart th.script + (scFw s.cfg.scripts fr + scSw s.cfg.scripts rest)) := by
  intro fr0 ; cases fr0
  case ring pc =>
     intro hst
     cases hp : s.pool with
     | none => simp [stepFrame, hp, withFault, scPC, scPT, scNew, hth, scOw, scTw, hst, scFw]
     | some p =>
       simp only [stepFrame, hp]
       rcases hrs : ringStep p.ring pc with ⟨r', res⟩
       cases res with
       | cont pc' => simp [setThread, setPool, withFault, upd_same, Thread.cont, scPC, scPT, scNew, scOw, scTw, hst, scFw, hp, scSw_append]
       | pushed ok => simp [setThread, setPool, withFault, upd_same, Thread.cont, scPC, scPT, scNew, scOw, scTw, hst, scFw, hp, scSw_append]
       | popped o => rcases o with _ | _ | j <;> simp [setThread, setPool, withFault, upd_same, Thread.cont, scPC, scPT, scNew, scOw, scTw, hst, scFw, hp, scSw_append]
  all_goals
     intro hst
     simp only [stepFrame]
     repeat' split
  all_goals
     simp [setThread, setSig, setPool, setFut, withFault, destroySig, upd_same, upd_ne _ _ hne, Thread.cont,
       scPC, scPT, scNew, scOw, scTw, hst, scFw, scSw_append, hth, nStart, scDrop0, mkPool, *]
     try first
       | omega
       | exact scErase _ _
       | (rename_i h; have := scDrop h; omega)

set_option maxHeartbeats 4000000 in
theorem scNth (s : State) (t : Tid) (th : Thread) (fr : Frame) :
    (stepFrame s t th fr).1.nthreads = s.nthreads ∨ (stepFrame s t th fr).1.nthreads = s.nthreads + 1 := by
  cases fr
  case ring pc =>
    cases hp : s.pool with
    | none => simp [stepFrame, hp, withFault]
    | some p =>
      simp only [stepFrame, hp]
      rcases hrs : ringStep p.ring pc with ⟨r', res⟩
      cases res with
      | cont pc' => simp [setThread, setPool]
      | pushed ok => simp [setThread, setPool]
      | popped o => rcases o with _ | _ | j <;> simp [setThread, setPool, withFault]
  all_goals
    simp only [stepFrame]
    repeat' split
  all_goals
    simp [setThread, setSig, setPool, setFut, withFault, destroySig]

theorem scU_step (sc : List (List ClientOp)) (s s' : State) (t : Tid) (hlt : t < s.nthreads)
    (hoth : ∀ u, u ≠ t → u ≠ s.nthreads → s'.threads u = s.threads u)
    (hn : s'.nthreads = s.nthreads ∨ s'.nthreads = s.nthreads + 1) :
    scU sc s' + scOw sc (s.threads t) = scU sc s + scOw sc (s'.threads t) + scNew sc s s' := by
  have h1 := tsum_upd (n := s.nthreads) (t := t) (f := fun u => scOw sc (s.threads u))
    (g := fun u => scOw sc (s'.threads u)) hlt
    (fun u hu hne => by show scOw sc (s'.threads u) = scOw sc (s.threads u); rw [hoth u hne (Nat.ne_of_lt hu)])
  try dsimp only at h1
  rcases hn with h | h
  · simp only [scU, scNew, h, if_true]; omega
  · have hne : ¬ (s.nthreads + 1 = s.nthreads) := by omega
    simp only [scU, scNew, h, tsum, hne, if_false]; omega

/-- the conservation law -/
theorem count_reach {cfg : Config} {s : State} (hr : Reach cfg s) :
    scPC s + scU cfg.scripts s ≤ nCfg cfg.scripts ∧ scPT s + scU cfg.scripts s ≤ nCfg cfg.scripts := by
  induction hr with
  | init => simp [State.init, scPC, scPT, scU, tsum, scOw, scTw, scFw, nStart]
  | @step s s' o t hr hs ih =>
    have hcfg := reach_cfg hr
    cases hth : s.threads t with
    | none => simp [step, hth] at hs
    | some th =>
      cases hst : th.stack with
      | nil => simp [step, hth, hst] at hs
      | cons fr rest =>
        have hs' := step_eq_stepFrame hs hth hst
        subst hs'
        have hlt := thread_lt hr hth
        have hne : s.nthreads ≠ t := (Nat.ne_of_lt hlt).symm
        have hC := scBalC s t th rest hth hne fr hst
        have hT := scBalT s t th rest hth hne fr hst
        rw [hcfg] at hC hT
        have hU := scU_step cfg.scripts s (stepFrame s t th fr).1 t hlt
          (fun u hu hn => FR.flOthers s t th fr u hu hn) (scNth s t th fr)
        have hw : scOw cfg.scripts (s.threads t)
            = nStart th.script + (scFw cfg.scripts fr + scSw cfg.scripts rest) := by
          simp [hth, scOw, scTw, hst]
        omega

theorem ctxsLe_reach {cfg : Config} {s : State} (hrep : cfg.repaired = true) (hr : Reach cfg s) :
    ∀ p, s.pool = some p → p.ctxs.length ≤ nCfg s.cfg.scripts := by
  intro p hp
  have h := (count_reach hr).1
  rw [reach_cfg hr]
  simp only [scPC, hp] at h; omega

theorem tcLe_reach {cfg : Config} {s : State} (hrep : cfg.repaired = true) (hr : Reach cfg s) :
    ∀ p, s.pool = some p → p.threadCount ≤ nCfg s.cfg.scripts := by
  intro p hp
  have h := (count_reach hr).2
  rw [reach_cfg hr]
  simp only [scPT, hp] at h; omega

/-! ### the destructor's loop counter -/

def scDf (N : Nat) : Frame → Bool
  | .dChk1 i | .dPush2 i | .dChk2 i | .dSet i => decide (i < N)
  | _ => true

def scDL (N : Nat) (l : List Frame) : Prop := ∀ f ∈ l, scDf N f = true

theorem scDL_nil (N : Nat) : scDL N [] := by intro f hf; cases hf
theorem scDL_cons (N : Nat) (f : Frame) (l : List Frame) : scDL N (f :: l) ↔ scDf N f = true ∧ scDL N l := by
  simp [scDL]
theorem scDL_append (N : Nat) (a b : List Frame) : scDL N (a ++ b) ↔ scDL N a ∧ scDL N b := by
  simp only [scDL, List.mem_append]
  constructor
  · intro h; exact ⟨fun f hf => h f (Or.inl hf), fun f hf => h f (Or.inr hf)⟩
  · rintro ⟨h1, h2⟩ f (hf | hf)
    · exact h1 f hf
    · exact h2 f hf

set_option maxHeartbeats 4000000 in
theorem scDStep (N : Nat) (s : State) (t : Tid) (th : Thread) (rest : List Frame) (hth : s.threads t = some th)
    (hne : s.nthreads ≠ t) (hrep : s.cfg.repaired = true) (htc : ∀ p, s.pool = some p → p.threadCount ≤ N)
    (hrest : scDL N rest) : ∀ fr, th.stack = fr :: rest → scDf N fr = true →
    (∀ th', (stepFrame s t th fr).1.threads t = some th' → scDL N th'.stack) ∧
    (∀ th', (stepFrame s t th fr).1.threads s.nthreads = some th' →
      s.threads s.nthreads = some th' ∨ scDL N th'.stack) := by
  intro fr0 ; cases fr0
  case ring pc =>
    intro hst hf
    cases hp : s.pool with
    | none =>
      simp only [stepFrame, hp]
      refine ⟨?_, ?_⟩ <;> intro th' h <;> simp [withFault, hth] at h <;>
        first
          | exact Or.inl h
          | (subst h; simp [scDL_cons, scDL_nil, scDL_append, scDf, hrest, hst])
    | some p =>
      simp only [stepFrame, hp]
      rcases hrs : ringStep p.ring pc with ⟨r', res⟩
      cases res with
      | cont pc' =>
        refine ⟨?_, ?_⟩ <;> intro th' h <;>
          simp [setThread, setPool, withFault, upd_same, upd_ne _ _ hne, Thread.cont, hst] at h <;>
          first
            | exact Or.inl h
            | (subst h; simp [scDL_cons, scDL_nil, scDL_append, scDf, hrest, hst])
      | pushed ok =>
        refine ⟨?_, ?_⟩ <;> intro th' h <;>
          simp [setThread, setPool, withFault, upd_same, upd_ne _ _ hne, Thread.cont, hst] at h <;>
          first
            | exact Or.inl h
            | (subst h; simp [scDL_cons, scDL_nil, scDL_append, scDf, hrest, hst])
      | popped o =>
        rcases o with _ | _ | j <;>
        refine ⟨?_, ?_⟩ <;> intro th' h <;>
          simp [setThread, setPool, withFault, upd_same, upd_ne _ _ hne, Thread.cont, hst] at h <;>
          first
            | exact Or.inl h
            | (subst h; simp [scDL_cons, scDL_nil, scDL_append, scDf, hrest, hst])
  all_goals
    intro hst hf
    simp only [stepFrame, hrep, if_true, ite_true]
    repeat' split
  all_goals
    refine ⟨?_, ?_⟩ <;> intro th' h <;>
      simp [setThread, setSig, setPool, setFut, withFault, destroySig, upd_same, upd_ne _ _ hne, Thread.cont,
        hst, hth] at h <;>
      first
        | exact Or.inl h
        | (subst h; simp [scDL_cons, scDL_nil, scDL_append, scDf, hrest, hst] at hf ⊢;
           try first
             | assumption
             | omega
             | (have := htc _ (by assumption); omega))

def scDAll (N : Nat) (s : State) : Prop := ∀ t th, s.threads t = some th → scDL N th.stack

theorem scDAll_reach {cfg : Config} {s : State} (hrep : cfg.repaired = true) (hr : Reach cfg s) :
    scDAll (nCfg cfg.scripts) s := by
  induction hr with
  | init =>
    intro t th h
    simp only [State.init] at h
    split at h
    · simp only [Option.some.injEq] at h; subst h; simp [scDL_cons, scDL_nil, scDf]
    · cases h
  | @step s s' o t hr hs ih =>
    have hcfg := reach_cfg hr
    cases hth : s.threads t with
    | none => simp [step, hth] at hs
    | some th =>
      cases hst : th.stack with
      | nil => simp [step, hth, hst] at hs
      | cons fr rest =>
        have hs' := step_eq_stepFrame hs hth hst
        subst hs'
        have hlt := thread_lt hr hth
        have hne : s.nthreads ≠ t := (Nat.ne_of_lt hlt).symm
        have hstk := ih t th hth
        rw [hst, scDL_cons] at hstk
        have htc : ∀ p, s.pool = some p → p.threadCount ≤ nCfg cfg.scripts := by
          intro p hp; have := tcLe_reach hrep hr p hp; rw [hcfg] at this; exact this
        have hD := scDStep (nCfg cfg.scripts) s t th rest hth hne (by rw [hcfg]; exact hrep) htc hstk.2 fr hst hstk.1
        intro u thu hu
        by_cases hut : u = t
        · subst hut; exact hD.1 thu hu
        · by_cases hun : u = s.nthreads
          · subst hun
            rcases hD.2 thu hu with h | h
            · exact ih _ thu h
            · exact h
          · rw [FR.flOthers s t th fr u hut hun] at hu
            exact ih u thu hu

theorem dtorIdx_reach {cfg : Config} {s : State} (hrep : cfg.repaired = true) (hr : Reach cfg s) :
    ∀ t th pc i rest, s.threads t = some th →
      (th.stack = .ring pc :: .dChk1 i :: rest ∨ th.stack = .ring pc :: .dChk2 i :: rest) →
      i < nCfg s.cfg.scripts := by
  intro t th pc i rest hth hst
  have h := scDAll_reach hrep hr t th hth
  rw [reach_cfg hr]
  rcases hst with hst | hst <;> rw [hst] at h <;> simp [scDL_cons, scDf] at h <;> exact h.1

end Nstd.Future.L1
