/-
  Fair termination of the Future/ThreadPool model, round 2 — overview (details in the headers of the files).

  1. NEGATIVE RESULTS about the code BEFORE fix 0005 (Fair2Neg.lean, Fair2Stuck.lean; kernel-checked witnesses, now
     stated for `repaired := false`; they were found on the then-repaired model and are the reason for fix 0005):
       * the FastSignal can get stuck in `_state = 0 ∧ signaled = true` with nobody inside `set()`/`reset()`
         (set: xchg 0→1 | reset: xchg 1→0, Signal.reset | set: Signal.set); `reset()` with `_state = 0` did not clear the
         Signal, so an idle worker busy-spins through `pop fails → reset → pop fails → wait (returns at once)`;
       * hence the relation "state-changing micro-step" is NOT well-founded: one thread alone cycles.
     Fix 0005 (`FastSignal::reset` always clears the Signal and re-signals when `_state` is set again) removes this:
     in the current model every wait-loop iteration is paid for by a flag change.

  2. STRONG fairness, generic (Fair2Red.lean): `StrongFairRun`, `StrongFairRun.toFairRun`, the certificate
     `F2.SpinCert`, `strong_fair_runs_terminate_of_cert`, `join_eventually_strong_of_cert`; concrete mutex hand-over
     facts (Fair2Lock.lean: `F2.LockWait`, `F2.Crit`, `lockWait_*`, `crit_*`), the instantiation
     `join_eventually_strong_of_measure` (Fair2Inst.lean, spinner vocabulary Fair2Sp.lean).  These stay valid for the
     current model but are superseded by 3.

  3. WEAK fairness for the CURRENT model (after fix 0005): lexicographic measure (L1, L2, L3, Σ frameDist) with
       L1 = `lev1` (Fair2L1Def.lean, Fair2L1A–E.lean, Fair2L1.lean by agent `level1`; side invariants `L1.Side` in
            Fair2L1SideA–D.lean): an amortised count of the remaining WORK EVENTS `F2.workFr`,
       L2 = `F2.lev2` (spurious budget, credits of threads inside `Signal::set`, 7·(1 + #resetters) per set `_state`),
       L3 = `F2.lev3` (loop credits `F2.phi`: 2 by default, 1 + 2·[flag up] after the thread's own reset, 2·[flag up]
            after the back edge, 2·[signaled] inside `Signal::wait`, 0 asleep, 1 + 2·[signaled] woken).
     Fair2Pot.lean  (definitions), Fair2Lev.lean (`progresses_wf_of_levels`, `join_eventually_of_levels`),
     Fair2Lev2.lean (`lev2_step`, `lev2_set_strict`, `lev2_spurious_strict`, stack invariant `l2_reach_ok`),
     Fair2Lev3.lean (`lev3_step'`, `lev3_relock`, `lev3_chk2`, stack discipline `disc_reach`),
     Fair2Final.lean (`tplock_le_one`, `failing_spin_fixpoint`, `lev23_step`, `lev23_back`, and THE RESULT
       `progresses_wf_of_lev1`, `fair_runs_terminate_of_lev1`, `join_eventually_of_lev1`:
       every WEAKLY fair run of the repaired model reaches a complete success state, given ONLY a counter `L1` of the
       work events — non-increasing on every micro-step, strictly decreasing on every state-changing work event).

  4. THE RESULT (Fair2Main.lean): `progresses_wf`, `fair_runs_terminate`, `join_eventually` (weak fairness, outright:
     `cfg.repaired = true → cfg.WellFormed → FairRun cfg σ run → ∃ n, complete success state`), `join_eventually_strong`.

  OPEN: nothing (for the model after fix 0005).  The strong-fairness certificate of 2. is no longer needed.
-/
import Nstd.Future.Fair2Inst
import Nstd.Future.Fair2Final
import Nstd.Future.Fair2Neg
import Nstd.Future.Fair2Stuck
import Nstd.Future.Fair2Main


/-
OPEN: nothing.
  (History: before fix 0005 the statement was FALSE for weak fairness and unprovable via `Progresses`: see Fair2Neg.lean /
  Fair2Stuck.lean — `progresses_not_wf_orig`, `stuck_signaled_reachable` for `repaired := false`.)
-/
