/-
  `include/nstd/Call.hpp` for EVERY arity (round 4).  All `Call<A>::ArgsN<D…, P…>` / `Call<A>::Member<C>::ArgsN<…>` have one shape:

      struct ArgsN : FuncN<D…> { P p; Q q; …; void* z;
        A call() { return FuncN::a(p, q, …); }                          // Member: (FuncN::c->*FuncN::a)(p, q, …)
        ArgsN(A (*a)(D…), const P& p, const Q& q, …, void* z) : FuncN(a), p(p), q(q), …, z(z) {} };

  i.e. the constructor receives REFERENCES into the caller's variables and copy-constructs one member per argument; `call()`
  applies the stored function to the stored copies; a `Member` record additionally keeps a POINTER to the object.  The model below
  is that shape with the number of arguments as the length of a list (the header instantiates it for 0…5 free / 0…4 member
  arguments); `Model.lean`'s `CallRec` is the instance of length 2 (`model_record_is_args2`).  Core Lean only.
-/
namespace Nstd.Future.CallModel

abbrev Loc := Nat
/-- the caller's variables (and the heap objects a member call refers to) at one moment -/
abbrev Store (V : Type) := Loc → V

/-- `Call<A>::ArgsN`: function pointer, the by-value copies, the owning future -/
structure ArgsRec (V A : Type) where
  fn : List V → A
  vals : List V
  z : Nat

/-- `new ArgsN(func, p, q, …, this)` in `Future::start`: `refs` are the `const P&` parameters (locations of the caller's
    variables), the member initialisers `p(p), q(q), …` copy the values the variables hold NOW -/
def capture {V A : Type} (σ : Store V) (fn : List V → A) (refs : List Loc) (z : Nat) : ArgsRec V A :=
  { fn := fn, vals := refs.map σ, z := z }

/-- `call()` — runs later, on a pool worker, in whatever state the caller's variables are then (`σ'` is not even a parameter:
    the record holds no reference into the caller's store) -/
def ArgsRec.call {V A : Type} (r : ArgsRec V A) : A := r.fn r.vals

/-- `Call<A>::Member<C>::ArgsN`: as above plus `C* c` -/
structure MemberRec (V O A : Type) where
  obj : Loc
  fn : O → List V → A
  vals : List V
  z : Nat

def captureMember {V O A : Type} (σ : Store V) (obj : Loc) (fn : O → List V → A) (refs : List Loc) (z : Nat) : MemberRec V O A :=
  { obj := obj, fn := fn, vals := refs.map σ, z := z }

/-- `(c->*a)(p, q, …)`: the OBJECT is read when the call runs (`heap` = the objects at that moment), the arguments are the copies -/
def MemberRec.call {V O A : Type} (r : MemberRec V O A) (heap : Loc → O) : A := r.fn (heap r.obj) r.vals

/-- by-value capture for every arity: the call applies the function to the values the caller's variables had at `start()`;
    nothing the caller does to its variables afterwards (`σ'`) can change the record -/
theorem call_sees_values_at_start {V A : Type} (σ σ' : Store V) (fn : List V → A) (refs : List Loc) (z : Nat) :
    (capture σ fn refs z).call = fn (refs.map σ) ∧
    (capture σ fn refs z).vals.length = refs.length ∧
    (∀ i (h : i < refs.length), (capture σ fn refs z).vals[i]? = some (σ (refs[i]))) ∧
    ((∀ l ∈ refs, σ' l = σ l) → capture σ' fn refs z = capture σ fn refs z) := by
  refine ⟨rfl, by simp [capture], ?_, ?_⟩
  · intro i h; simp [capture, h]
  · intro h
    have : refs.map σ' = refs.map σ := List.map_congr_left h
    simp [capture, this]

/-- member functions: arguments by value (as at `start()`), the object by reference (as at the time of the call) -/
theorem member_call_sees_values_at_start_and_object_at_call {V O A : Type} (σ : Store V) (obj : Loc) (fn : O → List V → A)
    (refs : List Loc) (z : Nat) (heapAtCall : Loc → O) :
    (captureMember σ obj fn refs z).call heapAtCall = fn (heapAtCall obj) (refs.map σ) := rfl

/-- two records captured from stores that agree on the referenced variables are equal — and differ as soon as one referenced
    variable differs (the record really depends on every argument: non-vacuity of "the arguments given") -/
theorem capture_injective_in_the_arguments {V A : Type} (σ σ' : Store V) (fn : List V → A) (refs : List Loc) (z : Nat)
    (h : capture σ fn refs z = capture σ' fn refs z) : ∀ l ∈ refs, σ l = σ' l := by
  have hv : refs.map σ = refs.map σ' := by
    have := congrArg ArgsRec.vals h
    simpa [capture] using this
  intro l hl
  exact List.map_inj_left.mp hv l hl

end Nstd.Future.CallModel
