/-
  "The program cannot stop early", part 1: vocabulary and the per-frame facts.
  A client thread destroys (join + ~Future) every future it has started before it exits: `cEnd k` walks over the
  futures `futK k`, k = 0..15.  `Pend f th`: thread `th` has started `f` and still has the destructor of `f` ahead
  (a `cNext`/`cEnd k` frame with k ≤ idxF f, or the `destroyF f` frame itself).
-/
import Nstd.Future.Handshake
set_option linter.unusedSimpArgs false
set_option linter.unusedVariables false
namespace Nstd.Future.TM
open Nstd.Future

def idxF (f : Nat) : Nat := if f < 8 then 2 * f else 2 * (f - 8) + 1

def pendFr (f : Nat) : Frame → Bool
  | .cNext => true
  | .cEnd k => decide (k ≤ idxF f)
  | .destroyF f' => f' == f
  | _ => false

def HasPend (f : Nat) (l : List Frame) : Prop := ∃ x ∈ l, pendFr f x = true
theorem hasPend_nil {f} : ¬ HasPend f [] := by intro ⟨x, hx, _⟩; cases hx
theorem hasPend_cons {f a l} : HasPend f (a :: l) ↔ pendFr f a = true ∨ HasPend f l := by
  simp [HasPend]
theorem hasPend_suffix {f l l'} (h : l <:+ l') (hp : HasPend f l) : HasPend f l' := by
  obtain ⟨x, hx, hpx⟩ := hp
  exact ⟨x, h.subset hx, hpx⟩

def Pend (f : Nat) (th : Thread) : Prop := f ∈ th.used ∧ HasPend f th.stack

def HasPre (c : Nat) (l : List Frame) : Prop := ∃ x ∈ l, hsPreArm c x = true
theorem hasPre_nil {c} : HasPre c [] ↔ False := by
  constructor
  · intro ⟨x, hx, _⟩; cases hx
  · intro h; cases h
theorem hasPre_cons {c a l} : HasPre c (a :: l) ↔ hsPreArm c a = true ∨ HasPre c l := by
  simp [HasPre]

/-- a thread inside the prefix of `startProc` for record `c` has registered the future of `c` in `used` and
    returns to `cNext` -/
def PreOk (ev : Nat → Option CallRec) (th : Thread) : Prop :=
  ∀ c, HasPre c th.stack → ∃ r, ev c = some r ∧ r.fut ∈ th.used ∧ Frame.cNext ∈ th.stack

/-- frames handled by explicit lemmas -/
def special : Frame → Bool
  | .cNext | .cEnd _ | .destroyF _ | .cArm _ | .tExit => true
  | _ => false

theorem pendFr_special {f : Nat} {x : Frame} (h : pendFr f x = true) : special x = true := by
  cases x <;> first | rfl | (cases h)

set_option maxHeartbeats 8000000 in
theorem shapeT_self (s : State) (t : Tid) (th : Thread) (fr : Frame) (rest : List Frame)
    (hth : s.threads t = some th) (hst : th.stack = fr :: rest) (hq : special fr = false) :
    ∀ th', (stepFrame s t th fr).1.threads t = some th' → th'.used = th.used ∧ rest <:+ th'.stack := by
  cases fr <;> simp only [special, Bool.true_eq_false] at hq <;> simp only [stepFrame] <;> repeat' split
  all_goals
    intro th' h
    simp [setThread, setSig, setPool, setFut, withFault, destroySig, upd_same, hth] at h
    subst h
    simp [Thread.cont, hst, List.suffix_cons_iff]

set_option maxHeartbeats 8000000 in
theorem shapeT_pre (s : State) (t : Tid) (th : Thread) (fr : Frame) (rest : List Frame)
    (hth : s.threads t = some th) (hst : th.stack = fr :: rest) (hq : special fr = false) :
    ∀ th', (stepFrame s t th fr).1.threads t = some th' →
      ∀ c, HasPre c th'.stack → HasPre c rest ∨ hsPreArm c fr = true := by
  cases fr <;> simp only [special, Bool.true_eq_false] at hq <;> simp only [stepFrame] <;> repeat' split
  all_goals
    intro th' h c
    simp [setThread, setSig, setPool, setFut, withFault, destroySig, upd_same, hth] at h
    subst h
    simp [Thread.cont, hst, hasPre_cons, hsPreArm]
    try grind

set_option maxHeartbeats 8000000 in
theorem shapeT_jn (s : State) (t : Tid) (th : Thread) (fr : Frame)
    (hq : special fr = false) :
    ∀ f, ((stepFrame s t th fr).1.futs f).joinable = true → (s.futs f).joinable = true := by
  cases fr <;> simp only [special, Bool.true_eq_false] at hq <;> simp only [stepFrame] <;> repeat' split
  all_goals
    intro f
    simp [setThread, setSig, setPool, setFut, withFault, destroySig, upd]
    try grind

end Nstd.Future.TM
