/-
  "The program cannot stop early", part 3: the invariant `TInv` (a joinable future has a client thread that still
  has the destructor of that future ahead) holds in every reachable state of a well-formed configuration.
-/
import Nstd.Future.Terminal2
import Nstd.Future.LiveGlue1
set_option linter.unusedSimpArgs false
set_option linter.unusedVariables false
namespace Nstd.Future.TM
open Nstd.Future

structure TInv (s : State) : Prop where
  /-- a joinable future belongs to a thread that will still destroy (hence join) it -/
  pend : ∀ f, (s.futs f).joinable = true → ∃ t th, s.threads t = some th ∧ Pend f th
  pre : ∀ t th, s.threads t = some th → PreOk s.everCalls th

theorem self_of {ev ev' : Nat → Option CallRec} {th th' : Thread} {fr : Frame} {rest : List Frame}
    (hst : th.stack = fr :: rest) (hne : fr ≠ .cNext)
    (hevm : ∀ c r, ev c = some r → ev' c = some r) (hpre : PreOk ev th)
    (hu : th'.used = th.used) (hsuf : rest <:+ th'.stack) (hp : ∀ c, HasPre c th'.stack → HasPre c th.stack) :
    PreOk ev' th' ∧ ∀ f, pendFr f fr = false → Pend f th → Pend f th' := by
  constructor
  · intro c hc
    obtain ⟨r, h1, h2, h3⟩ := hpre c (hp c hc)
    refine ⟨r, hevm c r h1, by rw [hu]; exact h2, ?_⟩
    rw [hst] at h3
    rcases List.mem_cons.mp h3 with h4 | h4
    · exact absurd h4.symm hne
    · exact hsuf.subset h4
  · intro f hpf ⟨hm, x, hx, hpx⟩
    refine ⟨by rw [hu]; exact hm, x, ?_, hpx⟩
    rw [hst] at hx
    rcases List.mem_cons.mp hx with h4 | h4
    · subst h4; rw [hpf] at hpx; cases hpx
    · exact hsuf.subset h4

theorem self_step {s : State} {t : Tid} {th : Thread} {fr : Frame} {rest : List Frame}
    (hth : s.threads t = some th) (hst : th.stack = fr :: rest)
    (hlink : RelO s.everCalls (kindA fr) rest.head?)
    (hcev : ∀ c r, s.calls c = some r → s.everCalls c = some r)
    (hevm : ∀ c r, s.everCalls c = some r → (stepFrame s t th fr).1.everCalls c = some r)
    (h16 : ∀ f ∈ th.used, f < 16)
    (hpre : PreOk s.everCalls th) :
    ∀ th', (stepFrame s t th fr).1.threads t = some th' →
      PreOk (stepFrame s t th fr).1.everCalls th' ∧
      ∀ f, ((stepFrame s t th fr).1.futs f).joinable = true →
        (Pend f th → Pend f th') ∧ ((s.futs f).joinable = true ∨ Pend f th') := by
  intro th' h
  by_cases hsp : special fr = true
  · cases fr <;> first | (cases hsp; done) | skip
    case tExit =>
      have hr : rest = [] := List.head?_eq_none_iff.mp (by simpa [kindA, RelO] using hlink)
      subst hr
      obtain ⟨hev, hf, hs⟩ := tExit_step s t th
      have hs' := hs th' h
      refine ⟨?_, ?_⟩
      · intro c hc; rw [hs'] at hc; exact absurd hc (by simp [hasPre_nil])
      · intro f hjf
        refine ⟨?_, Or.inl (by rw [hf] at hjf; exact hjf)⟩
        intro ⟨_, x, hx, hpx⟩
        rw [hst] at hx
        simp only [List.mem_singleton] at hx
        subst hx; cases hpx
    case destroyF f0 =>
      obtain ⟨hev, hj, hs⟩ := destroyF_step s t th f0 rest hth hst
      obtain ⟨hu, hs'⟩ := hs th' h
      have hso := self_of (ev' := (stepFrame s t th (.destroyF f0)).1.everCalls) hst (by intro e; cases e) hevm hpre hu
        (by rw [hs']; exact List.suffix_refl _)
        (by intro c hc; rw [hs'] at hc; rw [hst]; exact hasPre_cons.mpr (Or.inr hc))
      refine ⟨hso.1, ?_⟩
      intro f hjf
      obtain ⟨hjs, hne⟩ := hj f hjf
      refine ⟨hso.2 f ?_, Or.inl hjs⟩
      simp only [pendFr, beq_eq_false_iff_ne, ne_eq]
      exact fun e => hne e.symm
    case cArm c =>
      obtain ⟨hev, hj, hs⟩ := cArm_step s t th c rest hth hst
      obtain ⟨hu, hsuf, hp⟩ := hs th' h
      have hso := self_of (ev' := (stepFrame s t th (.cArm c)).1.everCalls) hst (by intro e; cases e) hevm hpre hu hsuf
        (by intro c' hc; rw [hst]; exact hp c' hc)
      refine ⟨hso.1, ?_⟩
      intro f hjf
      refine ⟨hso.2 f rfl, ?_⟩
      rcases hj f hjf with h1 | ⟨r, hr, hrf⟩
      · exact Or.inl h1
      · right
        obtain ⟨r', h2, h3, h4⟩ := hpre c (by rw [hst]; exact hasPre_cons.mpr (Or.inl (by simp [hsPreArm])))
        have h5 := hcev c r hr
        rw [h2] at h5; injection h5 with h5; subst h5
        rw [hst] at h4
        rcases List.mem_cons.mp h4 with h6 | h6
        · cases h6
        · subst hrf
          exact ⟨by rw [hu]; exact h3, .cNext, hsuf.subset h6, rfl⟩
    case cEnd k =>
      have hr : rest = [] := List.head?_eq_none_iff.mp (by simpa [kindA, RelO] using hlink)
      subst hr
      obtain ⟨hev, hf, hs⟩ := cEnd_step s t th k [] hth hst
      obtain ⟨hu, hcase⟩ := hs th' h
      refine ⟨?_, ?_⟩
      · intro c hc
        rcases hcase with ⟨_, h1⟩ | ⟨_, _, h1⟩ | ⟨_, _, h1⟩ <;>
          (rw [h1] at hc; simp [hasPre_cons, hasPre_nil, hsPreArm] at hc)
      · intro f hjf
        refine ⟨?_, Or.inl (by rw [hf] at hjf; exact hjf)⟩
        intro ⟨hm, x, hx, hpx⟩
        rw [hst] at hx
        simp only [List.mem_singleton] at hx
        subst hx
        simp only [pendFr, decide_eq_true_eq] at hpx
        have hf16 := h16 f hm
        have hi := idxF_lt hf16
        refine ⟨by rw [hu]; exact hm, ?_⟩
        rcases hcase with ⟨h0, h1⟩ | ⟨h0, hmk, h1⟩ | ⟨h0, hmk, h1⟩
        · omega
        · rw [h1]
          by_cases hk : k = idxF f
          · refine ⟨.destroyF (futK k), by simp, ?_⟩
            rw [hk, futK_idxF hf16]; simp [pendFr]
          · refine ⟨.cEnd (k + 1), by simp, ?_⟩
            simp only [pendFr, decide_eq_true_eq]; omega
        · rw [h1]
          have hk : k ≠ idxF f := by
            intro e; rw [e, futK_idxF hf16] at hmk; exact hmk hm
          refine ⟨.cEnd (k + 1), by simp, ?_⟩
          simp only [pendFr, decide_eq_true_eq]; omega
    case cNext =>
      have hr : rest = [] := List.head?_eq_none_iff.mp (by simpa [kindA, RelO] using hlink)
      subst hr
      obtain ⟨hj, hs⟩ := cNext_step s t th [] hth hst
      obtain ⟨hum, hcn, hp⟩ := hs th' h
      refine ⟨?_, ?_⟩
      · intro c hc
        rcases hp c hc with h1 | h1
        · exact absurd h1 (by simp [hasPre_nil])
        · exact h1
      · intro f hjf
        refine ⟨?_, Or.inl (by rw [hj] at hjf; exact hjf)⟩
        intro ⟨hm, _⟩
        refine ⟨hum f hm, ?_⟩
        rcases hcn with h1 | h1
        · exact ⟨.cNext, h1, rfl⟩
        · rw [h1]; exact ⟨.cEnd 0, by simp, by simp [pendFr]⟩
  · have hq : special fr = false := by
      cases hx : special fr with
      | false => rfl
      | true => exact absurd hx hsp
    obtain ⟨hu, hsuf⟩ := shapeT_self s t th fr rest hth hst hq th' h
    have hp := shapeT_pre s t th fr rest hth hst hq th' h
    have hj := shapeT_jn s t th fr hq
    have hne : fr ≠ .cNext := by intro e; subst e; cases hq
    have hso := self_of (ev' := (stepFrame s t th fr).1.everCalls) hst hne hevm hpre hu hsuf
      (by intro c hc; rw [hst]
          rcases hp c hc with h1 | h1
          · exact hasPre_cons.mpr (Or.inr h1)
          · exact hasPre_cons.mpr (Or.inl h1))
    refine ⟨hso.1, ?_⟩
    intro f hjf
    refine ⟨hso.2 f ?_, Or.inl (hj f hjf)⟩
    cases hx : pendFr f fr with
    | false => rfl
    | true => rw [pendFr_special hx] at hq; cases hq

theorem tinv_init (cfg : Config) : TInv (State.init cfg) := by
  constructor
  · intro f h; cases h
  · intro t th h c hc
    simp only [State.init] at h
    split at h
    · injection h with h; subst h
      simp [hasPre_cons, hasPre_nil, hsPreArm] at hc
    · cases h

theorem tinv_step {cfg : Config} {s s' : State} {t : Tid} {o : List String} (hwf : cfg.WellFormed)
    (hr : Reach cfg s) (hT : TInv s) (h : step s t = some (s', o)) : TInv s' := by
  obtain ⟨th, fr, rest, hth, hst, hnf, hblk, rfl⟩ := step_inv2 h
  have hI := reach_inv0 hr
  have hS := reach_inv hr
  have hE := hsShapeE s t th fr rest hth hst
  have hnt : s.nthreads ≠ t := by
    intro e
    have := hS.fresh t (by rw [e]; exact Nat.le_refl _)
    rw [hth] at this; cases this
  have hG := LG.shapeG s t th fr rest hth hst hnt
  have hch := hI.chain t th hth
  rw [hst, chainOk_cons] at hch
  have hevm : ∀ c r, s.everCalls c = some r → (stepFrame s t th fr).1.everCalls c = some r := by
    intro c r hc
    rcases hE.ev with ⟨h1, _, _⟩ | ⟨r0, h1, _, _⟩
    · rw [h1]; exact hc
    · rw [h1, upd_ne _ _ (by have := hI.evLt c r hc; omega)]; exact hc
  have h16 : ∀ f ∈ th.used, f < 16 := by
    intro f hf
    obtain ⟨i, sc, _, h2, a, ha, hfa⟩ := (hI.own t th hth).2.2 f hf
    rw [hS.cfgEq] at h2
    rw [← hfa]
    exact hwf.2 sc (List.mem_of_getElem? h2) a ha
  have hself := self_step hth hst hch.1 hI.callsEv hevm h16 (hT.pre t th hth)
  have hkeep : ∀ u thu, u ≠ t → s.threads u = some thu → (stepFrame s t th fr).1.threads u = some thu := by
    intro u thu hu hthu
    rcases hG.others u hu with h1 | ⟨h1, _⟩
    · rw [h1]; exact hthu
    · have := hS.fresh u (by rw [h1]; exact Nat.le_refl _)
      rw [hthu] at this; cases this
  constructor
  · intro f hjf
    obtain ⟨th', hth', _⟩ := hG.self
    obtain ⟨_, hp⟩ := hself th' hth'
    obtain ⟨hA, hB⟩ := hp f hjf
    rcases hB with hjs | hpd
    · obtain ⟨u, thu, hthu, hpu⟩ := hT.pend f hjs
      by_cases hu : u = t
      · subst hu
        rw [hth] at hthu; injection hthu with hthu; subst hthu
        exact ⟨u, th', hth', hA hpu⟩
      · exact ⟨u, thu, hkeep u thu hu hthu, hpu⟩
    · exact ⟨t, th', hth', hpd⟩
  · intro u thu hthu
    by_cases hu : u = t
    · subst hu; exact (hself thu hthu).1
    · rcases hE.others u hu with h1 | ⟨thw, h1, h2, h3, h4⟩ | ⟨i, sc, thw, h1, h2, h3, h4, h5, h6, h7⟩
      · rw [h1] at hthu
        intro c hc
        obtain ⟨r, a1, a2, a3⟩ := hT.pre u thu hthu c hc
        exact ⟨r, hevm c r a1, a2, a3⟩
      · rw [h1] at hthu; injection hthu with hthu; subst hthu
        intro c hc; rw [h2] at hc
        simp [hasPre_cons, hasPre_nil, hsPreArm] at hc
      · rw [h3] at hthu; injection hthu with hthu; subst hthu
        intro c hc; rw [h4] at hc
        simp [hasPre_cons, hasPre_nil, hsPreArm] at hc

theorem reach_tinv {cfg : Config} {s : State} (hwf : cfg.WellFormed) (h : Reach cfg s) : TInv s := by
  induction h with
  | init => exact tinv_init cfg
  | step t hr hs ih => exact tinv_step hwf hr ih hs

end Nstd.Future.TM
