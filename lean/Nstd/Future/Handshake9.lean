/-
  Completion handshake of a Future, part 9: the frames that change only the top of the stack, one by one.
-/
import Nstd.Future.Handshake8
set_option linter.unusedSimpArgs false
set_option linter.unusedVariables false
namespace Nstd.Future

/-- the view of the handshake data is unchanged by this step -/
macro "hs_view" : tactic => `(tactic|
  first
    | (intro f; simp [stepFrame, setThread, setSig, setFut, withFault, jn, cur, sg, upd, *]; try (split <;> simp_all); done)
    | (simp [stepFrame, setThread, setSig, setFut, withFault, *]; done))

theorem hs_fault {s : State} (m : String) (hH : HsInv s) : HsInv (withFault s m) :=
  ⟨hH.q, hH.c0, hH.r, hH.i1, hH.g2, hH.top, hH.uniq⟩

theorem sub_add_two {σ : Nat} (h : 2 ≤ σ) : σ - 2 + 2 = σ := by omega

section frames
variable {cfg : Config} {s : State} {t : Tid} {th : Thread} {rest : List Frame}

theorem head_of {th : Thread} {fr : Frame} {rest : List Frame} (hst : th.stack = fr :: rest) :
    th.stack.head? = some fr := by rw [hst]; rfl

theorem hs_sSetLock {σ : Nat} (hS : SimInv cfg s) (h0 : Inv0 s) (hH : HsInv s)
    (hth : s.threads t = some th) (hst : th.stack = .sSetLock σ :: rest) (hσ : 2 ≤ σ) :
    HsInv (stepFrame s t th (.sSetLock σ)).1 := by
  have hO := others_of_step hS hth hst
  have hrole : roleOf s.everCalls (.sSetLock σ) = some (.exec, σ - 2) := by simp [roleOf, hσ]
  refine hs_toponly (th' := th.cont [.sSetStore σ]) hH hO hth (head_of hst) ?_ ?_ ?_ ?_ ?_ ?_ ?_ ?_
  · simp [stepFrame, setThread, upd_same]
  · intro f; simp [stepFrame, setThread, setSig, jn]
  · intro f; simp [stepFrame, setThread, setSig, cur]
  · intro f; simp [stepFrame, setThread, setSig, sg, upd]; split <;> simp_all
  · simp [stepFrame, setThread, setSig]
  · simp [stepFrame, setThread, setSig]
  · intro c; simp [Thread.cont, hst, hsPreArm]
  · intro x hx k f hr
    simp [Thread.cont, hst] at hx; subst hx
    simp [roleOf, hσ] at hr
    obtain ⟨rfl, rfl⟩ := hr
    exact ⟨hH.top t _ _ ⟨_, ⟨th, hth, head_of hst⟩, hrole⟩, fun _ => hrole, fun h => by simp at h⟩

theorem hs_sRstLock {σ : Nat} (hS : SimInv cfg s) (h0 : Inv0 s) (hH : HsInv s)
    (hth : s.threads t = some th) (hst : th.stack = .sRstLock σ :: rest) (hσ : 2 ≤ σ) :
    HsInv (stepFrame s t th (.sRstLock σ)).1 := by
  have hO := others_of_step hS hth hst
  have hrole : roleOf s.everCalls (.sRstLock σ) = some (.passed, σ - 2) := by simp [roleOf, hσ]
  refine hs_toponly (th' := th.cont [.sRstStore σ]) hH hO hth (head_of hst) ?_ ?_ ?_ ?_ ?_ ?_ ?_ ?_
  · simp [stepFrame, setThread, upd_same]
  · hs_view
  · hs_view
  · hs_view
  · hs_view
  · hs_view
  · intro c; simp [Thread.cont, hst, hsPreArm]
  · intro x hx k f hr
    simp [Thread.cont, hst] at hx; subst hx
    simp [roleOf, hσ] at hr
    obtain ⟨rfl, rfl⟩ := hr
    exact ⟨hH.top t _ _ ⟨_, ⟨th, hth, head_of hst⟩, hrole⟩, fun h => by simp at h, fun _ => Or.inl (Or.inl hrole)⟩

theorem hs_sRstUnlock {σ : Nat} (hS : SimInv cfg s) (h0 : Inv0 s) (hH : HsInv s)
    (hth : s.threads t = some th) (hst : th.stack = .sRstUnlock σ :: rest) (hσ : 2 ≤ σ) :
    HsInv (stepFrame s t th (.sRstUnlock σ)).1 := by
  have hO := others_of_step hS hth hst
  have hrole : roleOf s.everCalls (.sRstUnlock σ) = some (.rstDone, σ - 2) := by simp [roleOf, hσ]
  have hch := h0.chain t th hth
  rw [hst, chainOk_cons] at hch
  have hhd : rest.head? = some (.joinClr (σ - 2)) := by
    rcases hch.1 with ⟨h1, _⟩ | ⟨_, h1⟩
    · omega
    · exact h1
  refine hs_toponly (th' := th.cont []) hH hO hth (head_of hst) ?_ ?_ ?_ ?_ ?_ ?_ ?_ ?_
  · simp [stepFrame, setThread, upd_same]
  · hs_view
  · hs_view
  · hs_view
  · hs_view
  · hs_view
  · intro c; simp [Thread.cont, hst, hsPreArm]
  · intro x hx k f hr
    simp [Thread.cont, hst, hhd] at hx; subst hx
    simp [roleOf] at hr
    obtain ⟨rfl, rfl⟩ := hr
    exact ⟨hH.top t _ _ ⟨_, ⟨th, hth, head_of hst⟩, hrole⟩, fun h => by simp at h, fun _ => Or.inl (Or.inr hrole)⟩

theorem hs_sWaitUnlock {σ : Nat} (hS : SimInv cfg s) (h0 : Inv0 s) (hH : HsInv s)
    (hth : s.threads t = some th) (hst : th.stack = .sWaitUnlock σ :: rest) (hσ : 2 ≤ σ) :
    HsInv (stepFrame s t th (.sWaitUnlock σ)).1 := by
  have hO := others_of_step hS hth hst
  have hrole : roleOf s.everCalls (.sWaitUnlock σ) = some (.passed, σ - 2) := by simp [roleOf, hσ]
  have hch := h0.chain t th hth
  rw [hst, chainOk_cons] at hch
  have hhd : rest.head? = some (.sRstLock σ) := by
    rcases hch.1 with ⟨h1, _⟩ | ⟨_, h1⟩
    · omega
    · exact h1
  refine hs_toponly (th' := th.cont []) hH hO hth (head_of hst) ?_ ?_ ?_ ?_ ?_ ?_ ?_ ?_
  · simp [stepFrame, setThread, upd_same]
  · hs_view
  · hs_view
  · hs_view
  · hs_view
  · hs_view
  · intro c; simp [Thread.cont, hst, hsPreArm]
  · intro x hx k f hr
    simp [Thread.cont, hst, hhd] at hx; subst hx
    simp [roleOf, hσ] at hr
    obtain ⟨rfl, rfl⟩ := hr
    exact ⟨hH.top t _ _ ⟨_, ⟨th, hth, head_of hst⟩, hrole⟩, fun h => by simp at h, fun _ => Or.inl (Or.inl hrole)⟩

theorem hs_sWaitChk {σ : Nat} (hS : SimInv cfg s) (h0 : Inv0 s) (hH : HsInv s)
    (hth : s.threads t = some th) (hst : th.stack = .sWaitChk σ :: rest) (hσ : 2 ≤ σ) :
    HsInv (stepFrame s t th (.sWaitChk σ)).1 := by
  have hO := others_of_step hS hth hst
  have hrole : roleOf s.everCalls (.sWaitChk σ) = none := rfl
  cases hsig : (s.sigs σ).signaled with
  | true =>
    have hsg : sg s (σ - 2) = true := by simp only [sg, sub_add_two hσ]; exact hsig
    refine hs_toponly (th' := th.cont [.sWaitUnlock σ]) hH hO hth (head_of hst) ?_ ?_ ?_ ?_ ?_ ?_ ?_ ?_
    · simp [stepFrame, setThread, upd_same, hsig]
    · hs_view
    · hs_view
    · hs_view
    · hs_view
    · hs_view
    · intro c; simp [Thread.cont, hst, hsPreArm]
    · intro x hx k f hr
      simp [Thread.cont, hst] at hx; subst hx
      simp [roleOf, hσ] at hr
      obtain ⟨rfl, rfl⟩ := hr
      exact ⟨hH.i1 _ hsg, fun h => by simp at h, fun _ => Or.inr hsg⟩
  | false =>
    refine hs_toponly (th' := th.cont [.sWaitCwait σ]) hH hO hth (head_of hst) ?_ ?_ ?_ ?_ ?_ ?_ ?_ ?_
    · simp [stepFrame, setThread, upd_same, hsig]
    · hs_view
    · hs_view
    · hs_view
    · hs_view
    · hs_view
    · intro c; simp [Thread.cont, hst, hsPreArm]
    · intro x hx k f hr
      simp [Thread.cont, hst] at hx; subst hx
      simp [roleOf] at hr

end frames

end Nstd.Future
