/-
  Termination of weakly fair schedules of the repaired Future/ThreadPool model — what is proved here (the reduction); the measure itself is in Fair2*.lean.

  PROVED (FairRed.lean, FairFix.lean, FairLock.lean, FairCore.lean; every reachable state, every configuration):

    * `fair_runs_terminate_of_measure` / `join_eventually_of_measure` (FairRed.lean): the generic reduction
      "measure decreasing except on state-preserving spin steps + an enabled non-spinner exists whenever somebody
      spins ⟹ every weakly fair run reaches a terminal state, which is a complete success state".
    * `fixpoint_step_is_spinStep` (FairFix.lean): the ONLY micro-steps that leave a reachable state unchanged are
      the failing `xchg` of the spin lock `tplock` of the lazily created pool (`cSpin c` with `tplock ≠ 0`).
    * `spinner_has_holder` (FairLock.lean): when `tplock ≠ 0` the lock holder (top frame `cRdTp2`/`cSwapTp`/
      `cUnlockTp`) exists and is enabled; `spin_step_has_enabled_non_spinner` (FairCore).
    * hence (FairCore.lean): `fair_runs_terminate_of_step_decreases`, `join_eventually_of_step_decreases`,
      `fair_runs_terminate_of_wf`, `join_eventually_of_wf`: the whole liveness statement is reduced to ONE
      purely sequential-looking obligation, with no reference to schedules, fairness or spinning:

          "the relation  s ⟶ s'  (some micro-step of some thread, s' ≠ s)  on reachable states has no infinite
           chain",  i.e. a measure that strictly decreases on every STATE-CHANGING micro-step.

    * `fair_run_progresses_or_terminal`: unconditionally, a weakly fair run never gets stuck in a non-terminal
      state (it changes its state again); `fair_run_stutters_or_progresses`, `terminal_is_permanent`: bookkeeping.
    * FairDist.lean, components (a)+(b) of the measure: `frameDist s t` (100 * remaining script + frame weights
      over the stack, a stale `push`/`pop` ticket weighs 2 more) strictly decreases for the stepping thread and is
      unchanged for all others on EVERY micro-step except (i) ten explicitly listed cross-thread loop heads
      `FR.isBack`, (ii) a winning CAS, (iii) `mInit`/`cRdTp2`/`dFin` (`quiet_step_decreases`,
      `push_cas_fail_decreases`, `pop_cas_fail_decreases`, `spin_acquire_step_decreases`).

    * FairBudget.lean, component "spurious budget": `spurious_nonincreasing`, `spurious_le_budget`,
      `spurious_wakeup_consumes`.

    * FairLex.lean, THE INTERFACE FOR THE REMAINING WORK: `progresses_wf_of_budget`, `fair_runs_terminate_of_budget`,
      `join_eventually_of_budget`: any `B : State → Nat` that never increases and strictly decreases on the
      state-changing steps of the loop heads `FR.isBack`, on thread creations and on moves of `_tail`/`_head` yields
      the full liveness theorem (measure = lexicographic pair (B, Σ_t frameDist)).

  Files: FairRed (generic reduction), FairFix (fixpoint steps), FairLock (spin-lock holder), FairCore (concrete
  reduction), FairDist (frame distance + staleness), FairBudget (spurious budget), FairLex (budget interface).

  OPEN: nothing (see the block at the end of the file: closed in round 2 by Fair2*.lean).
-/
import Nstd.Future.FairLex

/-
OPEN: nothing.  (State after round 2: the measure asked for here was constructed in Fair2*.lean — lexicographic (`lev1`, `F2.lev2`,
  `F2.lev3`, Σ `frameDist`), see the overview in Fair2.lean — and `progresses_wf`, `fair_runs_terminate`, `join_eventually` are
  proved outright in Fair2Main.lean (`cfg.repaired = true`; `join_eventually` also `cfg.WellFormed`) and restated in Props.lean.
  The budget interface `progresses_wf_of_budget` of FairLex.lean stayed unused: the final proof goes through
  `progresses_wf_of_lev1` (Fair2Final.lean), whose level 1 counts the remaining work events instead of bounding the back edges.)
-/
