/-
  Termination of weakly fair schedules of the repaired Future/ThreadPool model — what is proved, what is open.

  PROVED (FairRed.lean, FairFix.lean, FairLock.lean, FairCore.lean; every reachable state, every configuration):

    * `fair_runs_terminate_of_measure` / `join_eventually_of_measure` (FairRed.lean): the generic reduction
      "measure decreasing except on state-preserving spin steps + an enabled non-spinner exists whenever somebody
      spins ⟹ every weakly fair run reaches a terminal state, which is a complete success state".
    * `fixpoint_step_is_spinStep` (FairFix.lean): the ONLY micro-steps that leave a reachable state unchanged are
      the failing `xchg` of the spin lock `tplock` of the lazily created pool (`cSpin c` with `tplock ≠ 0`).
    * `spinner_has_holder` (FairLock.lean): when `tplock ≠ 0` the lock holder (top frame `cRdTp2`/`cSwapTp`/
      `cUnlockTp`) exists and is enabled; `spin_step_has_enabled_non_spinner` (FairCore).
    * hence (FairCore.lean): `fair_runs_terminate_of_step_decreases`, `join_eventually_of_step_decreases`,
      `fair_runs_terminate_of_wf`, `join_eventually_of_wf`: the whole liveness statement is reduced to ONE
      purely sequential-looking obligation, with no reference to schedules, fairness or spinning:

          "the relation  s ⟶ s'  (some micro-step of some thread, s' ≠ s)  on reachable states has no infinite
           chain",  i.e. a measure that strictly decreases on every STATE-CHANGING micro-step.

    * `fair_run_progresses_or_terminal`: unconditionally, a weakly fair run never gets stuck in a non-terminal
      state (it changes its state again); `fair_run_stutters_or_progresses`, `terminal_is_permanent`: bookkeeping.
    * FairDist.lean, components (a)+(b) of the measure: `frameDist s t` (100 * remaining script + frame weights
      over the stack, a stale `push`/`pop` ticket weighs 2 more) strictly decreases for the stepping thread and is
      unchanged for all others on EVERY micro-step except (i) ten explicitly listed cross-thread loop heads
      `FR.isBack`, (ii) a winning CAS, (iii) `mInit`/`cRdTp2`/`dFin` (`quiet_step_decreases`,
      `push_cas_fail_decreases`, `pop_cas_fail_decreases`, `spin_acquire_step_decreases`).

    * FairBudget.lean, component "spurious budget": `spurious_nonincreasing`, `spurious_le_budget`,
      `spurious_wakeup_consumes`.

    * FairLex.lean, THE INTERFACE FOR THE REMAINING WORK: `progresses_wf_of_budget`, `fair_runs_terminate_of_budget`,
      `join_eventually_of_budget`: any `B : State → Nat` that never increases and strictly decreases on the
      state-changing steps of the loop heads `FR.isBack`, on thread creations and on moves of `_tail`/`_head` yields
      the full liveness theorem (measure = lexicographic pair (B, Σ_t frameDist)).

  Files: FairRed (generic reduction), FairFix (fixpoint steps), FairLock (spin-lock holder), FairCore (concrete
  reduction), FairDist (frame distance + staleness), FairBudget (spurious budget), FairLex (budget interface).

  OPEN: see the block at the end of the file.
-/
import Nstd.Future.FairLex

/-
OPEN:
  The measure itself, i.e. for `cfg.repaired = true`, `cfg.WellFormed`:

    theorem progresses_wf (hrep : cfg.repaired = true) (hwf : cfg.WellFormed) : WellFounded (Progresses cfg)

  (equivalently a `μ` with `hdec` of `fair_runs_terminate_of_step_decreases`), from which

    theorem fair_runs_terminate (hrep : cfg.repaired = true) (hwf : cfg.WellFormed) (hf : FairRun cfg σ run) :
        ∃ n, ∀ t, enabled (run n) t = false
    theorem join_eventually (hrep : cfg.repaired = true) (hwf : cfg.WellFormed) (hf : FairRun cfg σ run) :
        ∃ n, (∀ t th, (run n).threads t = some th → th.finished = true) ∧
          (∀ c, c < (run n).nextCall →
            (run n).completed c = true ∧ (run n).execCount c = 1 ∧ (run n).freeCount c = 1)

  follow by `fair_runs_terminate_of_wf` / `join_eventually_of_wf` (one line each).
  By `progresses_wf_of_budget` (FairLex.lean) it suffices to give a budget `B : State → Nat` with `hle`, `hlt`.
  Intended shape of `μ` (lexicographic): remaining client-script ops and main-thread phases; pushes still to come;
  pops still to come; wake credits (FastSignal states set + `signaled` flags + woken-not-yet-rechecked threads +
  `s.spurious`); Σ ticket staleness (`tail − t` at `pushChk/pushCas`, `head − h` at `popChk/popCas`);
  Σ per-thread frame distance.  The last two components are DONE (FairDist.lean: `frameDist`); what is missing is
  a bound on the back edges `FR.isBack` (`sWaitRelock`, `runChk2`, `dChk2`, `dSet`, `wChk2`, `wAdd`, `cleanAt`,
  `cleanJoin`, `dJoin`) and on the winning CASes, i.e. components "remaining pushes/pops" and "wake credits" together
  with the invariants that make them decrease (every further iteration of a wait loop needs a new set event or a
  spurious wake-up; set events come from successful pushes/pops and from the re-signal of `fRstLoad`).
-/
