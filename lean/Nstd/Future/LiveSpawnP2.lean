/-
  FIFO potential of a queued ticket (`spPot`), part 2: the effect of one micro-step of a frame other than a `push`/`pop`
  frame on the O-weight of the stepping thread and on `_threadCount`.
    `sppShape1`:  O' + tc ≤ O + tc'        (`runRetAfter`: O 1 → 0 with tc − 1; `runSpChk`: tc + 1)
    `sppShape2`:  O' ≤ O
    `sppShape3`:  a fresh `dJoin`/`dFin` frame: O' + tc ≤ O   (`dPush i` with `tc ≤ i`)
-/
import Nstd.Future.LiveSpawn1
set_option linter.unusedSimpArgs false
set_option linter.unusedVariables false
namespace Nstd.Future.SPP

open LS SP

set_option maxHeartbeats 32000000 in
theorem sppShape1 (s : State) (t : Tid) (th : Thread) (fr : Frame) (rest : List Frame)
    (hth : s.threads t = some th) (hst : th.stack = fr :: rest) (hnr : lsRingOf fr = none)
    (hrep : s.cfg.repaired = true) (hni : fr ≠ .mInit)
    (hnc : ∀ c, fr = .cRdTp2 c → s.tp = true)
    (h0 : fr = .tExit → ∀ rb ab, spOStk rb ab rest = 0)
    (htc : fr = .runRetAfter → th.retB = true → 0 < lsTc s) :
    (stepFrame s t th fr).1.pool.isSome = true →
      spOAt (stepFrame s t th fr).1 t + lsTc s ≤ spOAt s t + lsTc (stepFrame s t th fr).1 := by
  cases fr
  case ring pc => cases hnr
  case mInit => exact absurd rfl hni
  case cRdTp2 c =>
    have htp := hnc c rfl
    rcases hp : s.pool with _ | p
    all_goals
      simp only [stepFrame, htp, if_true]
      simp [lsTc, spOAt, spOVal, spOW, hp, hth, hst, setThread, upd_same, Thread.cont, spOFr, lsRingOf]
  case tExit =>
    have h1 := h0 rfl
    rcases hp : s.pool with _ | p
    all_goals
      simp only [stepFrame]
      simp [lsTc, spOAt, spOVal, spOW, hp, hth, hst, setThread, upd_same, spOFr, lsRingOf, h1]
  all_goals
    rcases hp : s.pool with _ | p
  all_goals
    simp only [stepFrame, hp]
    repeat' split
  all_goals
    try simp [lsTc, hp] at htc
  all_goals
    simp [lsTc, spOAt, spOVal, spOW, hp, hth, hst, hrep, setThread, setSig, setPool, setFut, withFault, destroySig,
      upd_same, Thread.cont, spOFr, lsRingOf, lsCapt, lsCaptPc, setFsState_tc, *]
    try grind

set_option maxHeartbeats 32000000 in
theorem sppShape2 (s : State) (t : Tid) (th : Thread) (fr : Frame) (rest : List Frame)
    (hth : s.threads t = some th) (hst : th.stack = fr :: rest) (hnr : lsRingOf fr = none)
    (hrep : s.cfg.repaired = true) (hni : fr ≠ .mInit)
    (hnc : ∀ c, fr = .cRdTp2 c → s.tp = true)
    (h0 : fr = .tExit → ∀ rb ab, spOStk rb ab rest = 0) :
    (stepFrame s t th fr).1.pool.isSome = true →
      spOAt (stepFrame s t th fr).1 t ≤ spOAt s t := by
  cases fr
  case ring pc => cases hnr
  case mInit => exact absurd rfl hni
  case cRdTp2 c =>
    have htp := hnc c rfl
    rcases hp : s.pool with _ | p
    all_goals
      simp only [stepFrame, htp, if_true]
      simp [spOAt, spOVal, spOW, hp, hth, hst, setThread, upd_same, Thread.cont, spOFr, lsRingOf]
  case tExit =>
    have h1 := h0 rfl
    rcases hp : s.pool with _ | p
    all_goals
      simp only [stepFrame]
      simp [spOAt, spOVal, spOW, hp, hth, hst, setThread, upd_same, spOFr, lsRingOf, h1]
  all_goals
    rcases hp : s.pool with _ | p
  all_goals
    simp only [stepFrame, hp]
    repeat' split
  all_goals
    simp [spOAt, spOVal, spOW, hp, hth, hst, hrep, setThread, setSig, setPool, setFut, withFault, destroySig,
      upd_same, Thread.cont, spOFr, lsRingOf, lsCapt, lsCaptPc, *]
    try grind

set_option maxHeartbeats 32000000 in
theorem sppShape3 (s : State) (t : Tid) (th : Thread) (fr : Frame) (rest : List Frame)
    (hth : s.threads t = some th) (hst : th.stack = fr :: rest) (hnr : lsRingOf fr = none)
    (hrep : s.cfg.repaired = true) (hni : fr ≠ .mInit)
    (hnc : ∀ c, fr = .cRdTp2 c → s.tp = true)
    (h0 : fr = .tExit → ∀ rb ab, spOStk rb ab rest = 0)
    (hD : fr = .tExit → lsum lsDJ rest = 0) :
    (stepFrame s t th fr).1.pool.isSome = true → 1 ≤ lsDjAt (stepFrame s t th fr).1 t →
      1 ≤ lsDjAt s t ∨ spOAt (stepFrame s t th fr).1 t + lsTc s ≤ spOAt s t := by
  cases fr
  case ring pc => cases hnr
  case mInit => exact absurd rfl hni
  case cRdTp2 c =>
    have htp := hnc c rfl
    rcases hp : s.pool with _ | p
    all_goals
      simp only [stepFrame, htp, if_true]
      simp [lsDjAt, lsDJ, lsTc, spOAt, spOVal, spOW, hp, hth, hst, setThread, upd_same, Thread.cont, spOFr, lsRingOf]
      try (intro h; exact Or.inl h)
  case tExit =>
    have h1 := h0 rfl
    have h2 := hD rfl
    rcases hp : s.pool with _ | p
    all_goals
      simp only [stepFrame]
      simp [lsDjAt, lsDJ, lsTc, spOAt, spOVal, spOW, hp, hth, hst, setThread, upd_same, spOFr, lsRingOf, h1, h2]
  all_goals
    rcases hp : s.pool with _ | p
  all_goals
    simp only [stepFrame, hp]
    repeat' split
  all_goals
    simp [lsDjAt, lsDJ, lsTc, spOAt, spOVal, spOW, hp, hth, hst, hrep, setThread, setSig, setPool, setFut, withFault,
      destroySig, upd_same, Thread.cont, spOFr, lsRingOf, lsCapt, lsCaptPc, setFsState_tc, *]
    try grind

end Nstd.Future.SPP
