/-
  Spawn side of deadlock freedom, part 5: `SpInv` across a `push`/`pop` micro-step (`spInv_ring`).
-/
import Nstd.Future.LiveSpawn4
import Nstd.Future.LiveSpawnP
import Nstd.Future.LiveSpawnC
set_option linter.unusedSimpArgs false
set_option linter.unusedVariables false
namespace Nstd.Future.SP

open LS

/-! ### `SpPotGe` and the potential of LiveSpawnP -/

theorem spPotGe_iff (s : State) (p : Pool) (x : Nat) : SpPotGe s p x ↔ 1 ≤ SPP.spPot s p x := by
  by_cases hd : lsDone s
  · rw [SPP.spPot_done p x hd]
    simp only [SpPotGe, hd, not_true_eq_false, false_implies, true_and, forall_const]
    omega
  · rw [SPP.spPot_notDone p x hd]
    simp only [SpPotGe, hd, not_false_eq_true, forall_const, false_implies, and_true]
    omega

theorem spPotGe_mono {cfg : Config} {s s' : State} {t : Tid} {o : List String} {p p' : Pool}
    (hrep : cfg.repaired = true) (hr : Reach cfg s) (hs : step s t = some (s', o)) (hp : s.pool = some p)
    (hp' : s'.pool = some p') {x : Nat} (hx : x ≤ p.ring.pushLog.length) (h : SpPotGe s p x) : SpPotGe s' p' x := by
  rw [spPotGe_iff] at h ⊢
  have := fifo_potential_mono hrep hr hs hp hp' hx
  omega

/-! ### the A-weight of the caller across one ring micro-step -/

theorem sp_ring_A (r : Ring Job) (pc : RingPc Job) (c : Frame) (rb : Bool) (rj : Job)
    (hcall : LW.callerOk pc (some c) = true) (hpay : lsePayC pc (some c) = true) :
    spAFr rb (some pc) c ≤ spAFr (lsAfter rb rj (ringStep r pc).2).1 (lsAfter rb rj (ringStep r pc).2).2.2 c ∧
    (∀ d, (ringStep r pc).1.pushLog = r.pushLog ++ [some d] →
      1 ≤ spAFr (lsAfter rb rj (ringStep r pc).2).1 (lsAfter rb rj (ringStep r pc).2).2.2 c) := by
  cases pc
  case pushCas d tk =>
    simp only [ringStep]
    split
    · simp only [lsAfter]
      cases c <;> simp [LW.callerOk, LW.isPopPc, LW.pushCaller] at hcall <;>
        simp [lsePayC, LW.isPopPc, lsRestr, lsNonePc] at hpay <;>
        simp [spAFr, lsCapt, lsCaptPc, hpay]
    · simp only [lsAfter]
      cases c <;> simp [LW.callerOk, LW.isPopPc, LW.pushCaller] at hcall <;> simp [spAFr, lsCapt, lsCaptPc]
  case popCas h =>
    simp only [ringStep]
    split <;> simp only [lsAfter] <;>
      cases c <;> simp [LW.callerOk, LW.isPopPc, LW.popCaller] at hcall <;> simp [spAFr]
  case popRel x d =>
    simp only [ringStep, Ring.setSlot]
    rcases d with _ | _ | j <;> simp only [lsAfter] <;>
      cases c <;> simp [LW.callerOk, LW.isPopPc, LW.popCaller] at hcall <;> simp [spAFr]
  case pushRead d =>
    simp only [ringStep, lsAfter]
    cases c <;> simp [LW.callerOk, LW.isPopPc, LW.pushCaller] at hcall <;> simp [spAFr, lsCapt, lsCaptPc]
  case pushChk d tk =>
    simp only [ringStep]
    split <;> simp only [lsAfter] <;>
      cases c <;> simp [LW.callerOk, LW.isPopPc, LW.pushCaller] at hcall <;> simp [spAFr, lsCapt, lsCaptPc]
  case pushData d tk =>
    simp only [ringStep, lsAfter, Ring.setSlot]
    cases c <;> simp [LW.callerOk, LW.isPopPc, LW.pushCaller] at hcall <;> simp [spAFr, lsCapt, lsCaptPc]
  case pushPub d tk =>
    simp only [ringStep, lsAfter, Ring.setSlot]
    cases c <;> simp [LW.callerOk, LW.isPopPc, LW.pushCaller] at hcall <;> simp [spAFr, lsCapt, lsCaptPc]
  case popRead =>
    simp only [ringStep, lsAfter]
    cases c <;> simp [LW.callerOk, LW.isPopPc, LW.popCaller] at hcall <;> simp [spAFr]
  case popChk h =>
    simp only [ringStep]
    split <;> simp only [lsAfter] <;>
      cases c <;> simp [LW.callerOk, LW.isPopPc, LW.popCaller] at hcall <;> simp [spAFr]
  case popData h =>
    simp only [ringStep, lsAfter, Ring.setSlot]
    cases c <;> simp [LW.callerOk, LW.isPopPc, LW.popCaller] at hcall <;> simp [spAFr]

/-- the head only grows, the log only grows by appending -/
theorem sp_ring_mono (r : Ring Job) (pc : RingPc Job) :
    r.head ≤ (ringStep r pc).1.head ∧
    ((ringStep r pc).1.pushLog = r.pushLog ∨ ∃ d, (ringStep r pc).1.pushLog = r.pushLog ++ [d]) := by
  refine ⟨?_, ls_ring_log r pc⟩
  cases pc <;> simp only [ringStep, Ring.setSlot]
  all_goals (try split)
  all_goals (try simp only [])
  all_goals omega

theorem spCovTh_congr {p p' : Pool} (th : Thread) (h1 : p'.pushed = p.pushed) (h2 : p'.maxT = p.maxT) :
    spCovTh p' th = spCovTh p th := by simp only [spCovTh, h1, h2]

theorem spReal_append {log : List Job} {x : Nat} (d : Job) (hx : x < log.length) :
    spReal (log ++ [d]) x = spReal log x := by
  simp only [spReal, List.getElem?_append_left hx]

theorem spReal_append_none {log : List Job} {x : Nat} (hx : x < (log ++ [none]).length)
    (h : spReal (log ++ [none]) x = true) : x < log.length := by
  by_cases hlt : x < log.length
  · exact hlt
  · exfalso
    have hxe : x = log.length := by simp at hx; omega
    subst hxe
    simp [spReal] at h

/-! ### `SpInv` across a ring micro-step -/

theorem spInv_ring {cfg : Config} {s : State} {t : Tid} {th : Thread} {pc : RingPc Job} {rest : List Frame}
    {p : Pool} {o : List String}
    (hrep : cfg.repaired = true) (hr : Reach cfg s) (hI : SpInv s)
    (hth : s.threads t = some th) (hst : th.stack = .ring pc :: rest) (hp : s.pool = some p)
    (hstep : step s t = some ((stepFrame s t th (.ring pc)).1, o)) : SpInv (stepFrame s t th (.ring pc)).1 := by
  have hL := lse_reach hrep hr
  have hadj := (LW.stk_reach hrep hr).adj t th hth
  rw [hst] at hadj
  have hcall0 : LW.callerOk pc rest.head? = true := hadj.1
  obtain ⟨c, rest2, hrest⟩ : ∃ c rest2, rest = c :: rest2 := by
    cases rest with
    | nil => simp [LW.callerOk] at hcall0
    | cons c rest2 => exact ⟨c, rest2, rfl⟩
  subst hrest
  have hcall : LW.callerOk pc (some c) = true := hcall0
  have hpay : lsePayC pc (some c) = true := by
    have := hL.pay t th hth; rw [hst] at this; exact this.1
  have hallB : LsAllB rest2 := by
    have := hL.cb t th hth; rw [hst] at this
    exact this.2.1 (by simp [lseC, lsC_of_caller hcall])
  obtain ⟨th', h1, h2, h3, h4, h5, h6⟩ := ls_ring_desc s t th pc (c :: rest2) p hp hst
  have hA := sp_ring_A p.ring pc c th.retB th.retJob hcall hpay
  have hcovc : ∀ pu mx, spCovFr pu mx c = false := by
    intro pu mx
    simp only [LW.callerOk] at hcall
    split at hcall
    · cases c <;> first | rfl | (simp [LW.popCaller] at hcall)
    · cases c <;> first | rfl | (simp [LW.pushCaller] at hcall)
  have hAW0 : spAW th = spAFr th.retB (some pc) c := by
    simp only [spAW, hst, spAStk_cons, lsRingOf, spAFr, spAStk_base _ _ hallB]; omega
  have hAW1 : spAW th' = spAFr (lsAfter th.retB th.retJob (ringStep p.ring pc).2).1
      (lsAfter th.retB th.retJob (ringStep p.ring pc).2).2.2 c := by
    simp only [spAW, h6, h4]
    cases hres : (ringStep p.ring pc).2 with
    | cont pc' => simp only [lsAfterStk, lsAfter, spAStk_cons, lsRingOf, spAFr, spAStk_base _ _ hallB]; omega
    | pushed ok => simp only [lsAfterStk, lsAfter, spAStk_cons, spAStk_base _ _ hallB]; omega
    | popped x =>
      rcases x with _ | _ | j <;> simp only [lsAfterStk, lsAfter, spAStk_cons, spAStk_base _ _ hallB] <;> omega
  have hcov0 : ∀ pu mx, spHasCov pu mx th.stack = false := by
    intro pu mx
    simp only [hst, spHasCov_cons, hcovc, spHasCov_base pu mx hallB, Bool.or_false]
    rfl
  have hth' : (stepFrame s t th (.ring pc)).1.threads t = some th' := by rw [h1, upd_same]
  intro p' hp'
  rw [h2] at hp'; injection hp' with hp'; subst hp'
  have hcovA : 1 ≤ spAW th' → SpCov (stepFrame s t th (.ring pc)).1 { p with ring := (ringStep p.ring pc).1 } := by
    intro h
    refine ⟨t, th', hth', ?_⟩
    simp only [spCovTh, Bool.or_eq_true, decide_eq_true_eq]
    exact Or.inl h
  rcases hI p hp with ⟨u, thu, hthu, hc⟩ | hpot
  · left
    by_cases hu : u = t
    · subst hu
      rw [hth] at hthu; injection hthu with hthu; subst hthu
      apply hcovA
      simp only [spCovTh, hcov0, Bool.or_false, decide_eq_true_eq] at hc
      rw [hAW1]; rw [hAW0] at hc
      exact Nat.le_trans hc hA.1
    · refine ⟨u, thu, by rw [h1, upd_ne _ _ hu]; exact hthu, ?_⟩
      refine Eq.trans (spCovTh_congr thu ?_ ?_) hc <;> rfl
  · by_cases hnew : ∃ d, (ringStep p.ring pc).1.pushLog = p.ring.pushLog ++ [some d]
    · obtain ⟨d, hd⟩ := hnew
      left
      apply hcovA
      rw [hAW1]
      exact hA.2 d hd
    · right
      have hm := sp_ring_mono p.ring pc
      intro x hx1 hx2 hx3
      simp only [] at hx1 hx2 hx3
      have hxr : x < p.ring.pushLog.length ∧ spReal p.ring.pushLog x = true := by
        rcases hm.2 with he | ⟨d, he⟩
        · rw [he] at hx2 hx3; exact ⟨hx2, hx3⟩
        · rw [he] at hx2 hx3
          cases d with
          | some d => exact absurd ⟨d, he⟩ hnew
          | none =>
            have := spReal_append_none hx2 hx3
            exact ⟨this, by rw [← spReal_append none this]; exact hx3⟩
      have h0 := hpot x (Nat.le_trans hm.1 hx1) hxr.1 hxr.2
      exact spPotGe_mono hrep hr hstep hp h2 (Nat.le_of_lt hxr.1) h0

end Nstd.Future.SP
