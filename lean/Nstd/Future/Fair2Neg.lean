import Nstd.Future.FairCore
import Nstd.Future.HandshakeWitness
set_option linter.unusedVariables false
set_option linter.unusedSimpArgs false
/-
  NEGATION WITNESS for the ORIGINAL code (`cfg.repaired = false`).  Defect: the FastSignal `_enqueuedSignal` can get
  stuck in `_state = 0 ∧ signaled = true` (see Fair2Stuck.lean for how it arises), and then an idle worker busy-spins
  ALONE through its idle loop
      pop fails -> FastSignal::reset (xchg 0 -> 0, old = 0: the Signal is NOT reset) -> pop fails ->
      FastSignal::wait (state 0) -> Signal::wait: lock, flag is set, unlock -> pop ...
  13 micro-steps, each of which changes the state (the stack of the worker), and the 13th returns to the first state.
  Hence the progress relation `Progresses cfg` ("one state-changing micro-step from a reachable state", FairCore.lean)
  is NOT well-founded for the original code, even for a well-formed configuration.

  Fixed by fixes/future/0005: `FastSignal::reset` calls `_signal.reset()` unconditionally.  In the model
  (`stepFrame`, case `.fRst fs`) the repaired code always continues with `[.sRstLock fs, .fRstLoad fs]`; the original
  code does so only if the exchanged value was 1.  The loop below therefore exists only for `repaired = false`:
  `Phase` carries `s.cfg.repaired = false`, which is needed in phase 4 (`fRst 0` with `_state = 0` just pops).
-/
namespace Nstd.Future
namespace F2N

/-- the stack of the spinning worker in phase `k` of its idle loop (`h` = ring head read by the pop) -/
def stk (k : Nat) (h : Nat) (rest : List Frame) : List Frame :=
  if k = 0 then .wPop1 :: rest
  else if k = 1 then .ring .popRead :: .wChk1 :: rest
  else if k = 2 then .ring (.popChk h) :: .wChk1 :: rest
  else if k = 3 then .wChk1 :: rest
  else if k = 4 then .fRst 0 :: .wPop2 :: rest
  else if k = 5 then .wPop2 :: rest
  else if k = 6 then .ring .popRead :: .wChk2 :: rest
  else if k = 7 then .ring (.popChk h) :: .wChk2 :: rest
  else if k = 8 then .wChk2 :: rest
  else if k = 9 then .fWait 0 :: .wPop1 :: rest
  else if k = 10 then .sWaitLock 0 :: .wPop1 :: rest
  else if k = 11 then .sWaitChk 0 :: .wPop1 :: rest
  else .sWaitUnlock 0 :: .wPop1 :: rest

/-- worker `t` is in phase `k` of the solitary idle loop of the ORIGINAL code: `_enqueuedSignal._state = 0`, its Signal
    is signaled, the ring is empty -/
def Phase (s : State) (t : Tid) (k : Nat) : Prop :=
  ∃ p th rest, s.pool = some p ∧ p.enq = 0 ∧ (s.sigs 0).signaled = true ∧
    (s.sigs 0).owner = (if 11 ≤ k then some t else none) ∧
    (p.ring.slots (p.ring.head % p.ring.cap)).headT ≠ some p.ring.head ∧
    s.threads t = some th ∧ th.finished = false ∧ th.stack = stk k p.ring.head rest ∧
    ((k = 3 ∨ k = 8) → th.retB = false) ∧ s.cfg.repaired = false

theorem step_of {s : State} {t : Tid} {th : Thread} {fr : Frame} {rest : List Frame}
    (hth : s.threads t = some th) (hst : th.stack = fr :: rest) (hfin : th.finished = false)
    (hb : blockedFrame s t fr = false) : step s t = some (stepFrame s t th fr) := by
  simp [step, hth, hst, hfin, hb]

theorem ne_of_threads {s s' : State} {t : Tid} {th th' : Thread} (h : s.threads t = some th)
    (h' : s'.threads t = some th') (hne : th'.stack ≠ th.stack) : s' ≠ s := by
  intro e; subst e; rw [h] at h'; cases h'; exact hne rfl

theorem cons_ne_self' {α} (a : α) (l : List α) : l ≠ a :: l := by
  intro e; have := congrArg List.length e; simp at this
theorem cons_ne_self2 {α} (a b : α) (l : List α) : b :: l ≠ a :: b :: l := cons_ne_self' a (b :: l)

theorem phase0 {s : State} {t : Tid} (h : Phase s t 0) :
    ∃ s' o, step s t = some (s', o) ∧ s' ≠ s ∧ Phase s' t 1 := by
  obtain ⟨p, th, rest, hp, henq, hsig, hown, hemp, hth, hfin, hst, hret, hrep⟩ := h
  simp [stk] at hst hown hret
  have hstep := step_of hth hst hfin (by simp [blockedFrame, hown])
  cases hsf : stepFrame s t th _ with
  | mk S O =>
    rw [hsf] at hstep
    simp only [stepFrame, hret, hsig, hp, hrep] at hsf
    simp [ringStep, fsState, setFsState, henq, hemp] at hsf
    obtain ⟨rfl, rfl⟩ := hsf
    refine ⟨_, _, hstep, ?_, ?_⟩
    · refine ne_of_threads hth (th' := th.cont [.ring .popRead, .wChk1]) ?_ ?_
      · simp [setThread, setSig, setPool, upd]
      · simp [Thread.cont, hst, cons_ne_self', cons_ne_self2]
    · refine ⟨p, th.cont [.ring .popRead, .wChk1], rest, ?_⟩
      simp [setThread, setSig, setPool, upd, Thread.cont, hst, hp, henq, hsig, hown, hemp, hfin, hret, hrep, stk]
      try (cases p; simp at henq; subst henq; rfl)

theorem phase1 {s : State} {t : Tid} (h : Phase s t 1) :
    ∃ s' o, step s t = some (s', o) ∧ s' ≠ s ∧ Phase s' t 2 := by
  obtain ⟨p, th, rest, hp, henq, hsig, hown, hemp, hth, hfin, hst, hret, hrep⟩ := h
  simp [stk] at hst hown hret
  have hstep := step_of hth hst hfin (by simp [blockedFrame, hown])
  cases hsf : stepFrame s t th _ with
  | mk S O =>
    rw [hsf] at hstep
    simp only [stepFrame, hret, hsig, hp, hrep] at hsf
    simp [ringStep, fsState, setFsState, henq, hemp] at hsf
    obtain ⟨rfl, rfl⟩ := hsf
    refine ⟨_, _, hstep, ?_, ?_⟩
    · refine ne_of_threads hth (th' := th.cont [.ring (.popChk p.ring.head)]) ?_ ?_
      · simp [setThread, setSig, setPool, upd]
      · simp [Thread.cont, hst, cons_ne_self', cons_ne_self2]
    · refine ⟨p, th.cont [.ring (.popChk p.ring.head)], rest, ?_⟩
      simp [setThread, setSig, setPool, upd, Thread.cont, hst, hp, henq, hsig, hown, hemp, hfin, hret, hrep, stk]
      try (cases p; simp at henq; subst henq; rfl)

theorem phase2 {s : State} {t : Tid} (h : Phase s t 2) :
    ∃ s' o, step s t = some (s', o) ∧ s' ≠ s ∧ Phase s' t 3 := by
  obtain ⟨p, th, rest, hp, henq, hsig, hown, hemp, hth, hfin, hst, hret, hrep⟩ := h
  simp [stk] at hst hown hret
  have hstep := step_of hth hst hfin (by simp [blockedFrame, hown])
  cases hsf : stepFrame s t th _ with
  | mk S O =>
    rw [hsf] at hstep
    simp only [stepFrame, hret, hsig, hp, hrep] at hsf
    simp [ringStep, fsState, setFsState, henq, hemp] at hsf
    obtain ⟨rfl, rfl⟩ := hsf
    refine ⟨_, _, hstep, ?_, ?_⟩
    · refine ne_of_threads hth (th' := ({ th with retB := false } : Thread).cont []) ?_ ?_
      · simp [setThread, setSig, setPool, upd]
      · simp [Thread.cont, hst, cons_ne_self', cons_ne_self2]
    · refine ⟨p, ({ th with retB := false } : Thread).cont [], rest, ?_⟩
      simp [setThread, setSig, setPool, upd, Thread.cont, hst, hp, henq, hsig, hown, hemp, hfin, hret, hrep, stk]
      try (cases p; simp at henq; subst henq; rfl)

theorem phase3 {s : State} {t : Tid} (h : Phase s t 3) :
    ∃ s' o, step s t = some (s', o) ∧ s' ≠ s ∧ Phase s' t 4 := by
  obtain ⟨p, th, rest, hp, henq, hsig, hown, hemp, hth, hfin, hst, hret, hrep⟩ := h
  simp [stk] at hst hown hret
  have hstep := step_of hth hst hfin (by simp [blockedFrame, hown])
  cases hsf : stepFrame s t th _ with
  | mk S O =>
    rw [hsf] at hstep
    simp only [stepFrame, hret, hsig, hp, hrep] at hsf
    simp [ringStep, fsState, setFsState, henq, hemp] at hsf
    obtain ⟨rfl, rfl⟩ := hsf
    refine ⟨_, _, hstep, ?_, ?_⟩
    · refine ne_of_threads hth (th' := th.cont [.fRst 0, .wPop2]) ?_ ?_
      · simp [setThread, setSig, setPool, upd]
      · simp [Thread.cont, hst, cons_ne_self', cons_ne_self2]
    · refine ⟨p, th.cont [.fRst 0, .wPop2], rest, ?_⟩
      simp [setThread, setSig, setPool, upd, Thread.cont, hst, hp, henq, hsig, hown, hemp, hfin, hret, hrep, stk]
      try (cases p; simp at henq; subst henq; rfl)

theorem phase4 {s : State} {t : Tid} (h : Phase s t 4) :
    ∃ s' o, step s t = some (s', o) ∧ s' ≠ s ∧ Phase s' t 5 := by
  obtain ⟨p, th, rest, hp, henq, hsig, hown, hemp, hth, hfin, hst, hret, hrep⟩ := h
  simp [stk] at hst hown hret
  have hstep := step_of hth hst hfin (by simp [blockedFrame, hown])
  cases hsf : stepFrame s t th _ with
  | mk S O =>
    rw [hsf] at hstep
    simp only [stepFrame, hret, hsig, hp, hrep] at hsf
    simp [ringStep, fsState, setFsState, henq, hemp] at hsf
    obtain ⟨rfl, rfl⟩ := hsf
    refine ⟨_, _, hstep, ?_, ?_⟩
    · refine ne_of_threads hth (th' := th.cont []) ?_ ?_
      · simp [setThread, setSig, setPool, upd]
      · simp [Thread.cont, hst, cons_ne_self', cons_ne_self2]
    · refine ⟨{ p with enq := 0 }, th.cont [], rest, ?_⟩
      simp [setThread, setSig, setPool, upd, Thread.cont, hst, hp, henq, hsig, hown, hemp, hfin, hret, hrep, stk]
      try (cases p; simp at henq; subst henq; rfl)

theorem phase5 {s : State} {t : Tid} (h : Phase s t 5) :
    ∃ s' o, step s t = some (s', o) ∧ s' ≠ s ∧ Phase s' t 6 := by
  obtain ⟨p, th, rest, hp, henq, hsig, hown, hemp, hth, hfin, hst, hret, hrep⟩ := h
  simp [stk] at hst hown hret
  have hstep := step_of hth hst hfin (by simp [blockedFrame, hown])
  cases hsf : stepFrame s t th _ with
  | mk S O =>
    rw [hsf] at hstep
    simp only [stepFrame, hret, hsig, hp, hrep] at hsf
    simp [ringStep, fsState, setFsState, henq, hemp] at hsf
    obtain ⟨rfl, rfl⟩ := hsf
    refine ⟨_, _, hstep, ?_, ?_⟩
    · refine ne_of_threads hth (th' := th.cont [.ring .popRead, .wChk2]) ?_ ?_
      · simp [setThread, setSig, setPool, upd]
      · simp [Thread.cont, hst, cons_ne_self', cons_ne_self2]
    · refine ⟨p, th.cont [.ring .popRead, .wChk2], rest, ?_⟩
      simp [setThread, setSig, setPool, upd, Thread.cont, hst, hp, henq, hsig, hown, hemp, hfin, hret, hrep, stk]
      try (cases p; simp at henq; subst henq; rfl)

theorem phase6 {s : State} {t : Tid} (h : Phase s t 6) :
    ∃ s' o, step s t = some (s', o) ∧ s' ≠ s ∧ Phase s' t 7 := by
  obtain ⟨p, th, rest, hp, henq, hsig, hown, hemp, hth, hfin, hst, hret, hrep⟩ := h
  simp [stk] at hst hown hret
  have hstep := step_of hth hst hfin (by simp [blockedFrame, hown])
  cases hsf : stepFrame s t th _ with
  | mk S O =>
    rw [hsf] at hstep
    simp only [stepFrame, hret, hsig, hp, hrep] at hsf
    simp [ringStep, fsState, setFsState, henq, hemp] at hsf
    obtain ⟨rfl, rfl⟩ := hsf
    refine ⟨_, _, hstep, ?_, ?_⟩
    · refine ne_of_threads hth (th' := th.cont [.ring (.popChk p.ring.head)]) ?_ ?_
      · simp [setThread, setSig, setPool, upd]
      · simp [Thread.cont, hst, cons_ne_self', cons_ne_self2]
    · refine ⟨p, th.cont [.ring (.popChk p.ring.head)], rest, ?_⟩
      simp [setThread, setSig, setPool, upd, Thread.cont, hst, hp, henq, hsig, hown, hemp, hfin, hret, hrep, stk]
      try (cases p; simp at henq; subst henq; rfl)

theorem phase7 {s : State} {t : Tid} (h : Phase s t 7) :
    ∃ s' o, step s t = some (s', o) ∧ s' ≠ s ∧ Phase s' t 8 := by
  obtain ⟨p, th, rest, hp, henq, hsig, hown, hemp, hth, hfin, hst, hret, hrep⟩ := h
  simp [stk] at hst hown hret
  have hstep := step_of hth hst hfin (by simp [blockedFrame, hown])
  cases hsf : stepFrame s t th _ with
  | mk S O =>
    rw [hsf] at hstep
    simp only [stepFrame, hret, hsig, hp, hrep] at hsf
    simp [ringStep, fsState, setFsState, henq, hemp] at hsf
    obtain ⟨rfl, rfl⟩ := hsf
    refine ⟨_, _, hstep, ?_, ?_⟩
    · refine ne_of_threads hth (th' := ({ th with retB := false } : Thread).cont []) ?_ ?_
      · simp [setThread, setSig, setPool, upd]
      · simp [Thread.cont, hst, cons_ne_self', cons_ne_self2]
    · refine ⟨p, ({ th with retB := false } : Thread).cont [], rest, ?_⟩
      simp [setThread, setSig, setPool, upd, Thread.cont, hst, hp, henq, hsig, hown, hemp, hfin, hret, hrep, stk]
      try (cases p; simp at henq; subst henq; rfl)

theorem phase8 {s : State} {t : Tid} (h : Phase s t 8) :
    ∃ s' o, step s t = some (s', o) ∧ s' ≠ s ∧ Phase s' t 9 := by
  obtain ⟨p, th, rest, hp, henq, hsig, hown, hemp, hth, hfin, hst, hret, hrep⟩ := h
  simp [stk] at hst hown hret
  have hstep := step_of hth hst hfin (by simp [blockedFrame, hown])
  cases hsf : stepFrame s t th _ with
  | mk S O =>
    rw [hsf] at hstep
    simp only [stepFrame, hret, hsig, hp, hrep] at hsf
    simp [ringStep, fsState, setFsState, henq, hemp] at hsf
    obtain ⟨rfl, rfl⟩ := hsf
    refine ⟨_, _, hstep, ?_, ?_⟩
    · refine ne_of_threads hth (th' := th.cont [.fWait 0, .wPop1]) ?_ ?_
      · simp [setThread, setSig, setPool, upd]
      · simp [Thread.cont, hst, cons_ne_self', cons_ne_self2]
    · refine ⟨p, th.cont [.fWait 0, .wPop1], rest, ?_⟩
      simp [setThread, setSig, setPool, upd, Thread.cont, hst, hp, henq, hsig, hown, hemp, hfin, hret, hrep, stk]
      try (cases p; simp at henq; subst henq; rfl)

theorem phase9 {s : State} {t : Tid} (h : Phase s t 9) :
    ∃ s' o, step s t = some (s', o) ∧ s' ≠ s ∧ Phase s' t 10 := by
  obtain ⟨p, th, rest, hp, henq, hsig, hown, hemp, hth, hfin, hst, hret, hrep⟩ := h
  simp [stk] at hst hown hret
  have hstep := step_of hth hst hfin (by simp [blockedFrame, hown])
  cases hsf : stepFrame s t th _ with
  | mk S O =>
    rw [hsf] at hstep
    simp only [stepFrame, hret, hsig, hp, hrep] at hsf
    simp [ringStep, fsState, setFsState, henq, hemp] at hsf
    obtain ⟨rfl, rfl⟩ := hsf
    refine ⟨_, _, hstep, ?_, ?_⟩
    · refine ne_of_threads hth (th' := th.cont [.sWaitLock 0]) ?_ ?_
      · simp [setThread, setSig, setPool, upd]
      · simp [Thread.cont, hst, cons_ne_self', cons_ne_self2]
    · refine ⟨p, th.cont [.sWaitLock 0], rest, ?_⟩
      simp [setThread, setSig, setPool, upd, Thread.cont, hst, hp, henq, hsig, hown, hemp, hfin, hret, hrep, stk]
      try (cases p; simp at henq; subst henq; rfl)

theorem phase10 {s : State} {t : Tid} (h : Phase s t 10) :
    ∃ s' o, step s t = some (s', o) ∧ s' ≠ s ∧ Phase s' t 11 := by
  obtain ⟨p, th, rest, hp, henq, hsig, hown, hemp, hth, hfin, hst, hret, hrep⟩ := h
  simp [stk] at hst hown hret
  have hstep := step_of hth hst hfin (by simp [blockedFrame, hown])
  cases hsf : stepFrame s t th _ with
  | mk S O =>
    rw [hsf] at hstep
    simp only [stepFrame, hret, hsig, hp, hrep] at hsf
    simp [ringStep, fsState, setFsState, henq, hemp] at hsf
    obtain ⟨rfl, rfl⟩ := hsf
    refine ⟨_, _, hstep, ?_, ?_⟩
    · refine ne_of_threads hth (th' := th.cont [.sWaitChk 0]) ?_ ?_
      · simp [setThread, setSig, setPool, upd]
      · simp [Thread.cont, hst, cons_ne_self', cons_ne_self2]
    · refine ⟨p, th.cont [.sWaitChk 0], rest, ?_⟩
      simp [setThread, setSig, setPool, upd, Thread.cont, hst, hp, henq, hsig, hown, hemp, hfin, hret, hrep, stk]
      try (cases p; simp at henq; subst henq; rfl)

theorem phase11 {s : State} {t : Tid} (h : Phase s t 11) :
    ∃ s' o, step s t = some (s', o) ∧ s' ≠ s ∧ Phase s' t 12 := by
  obtain ⟨p, th, rest, hp, henq, hsig, hown, hemp, hth, hfin, hst, hret, hrep⟩ := h
  simp [stk] at hst hown hret
  have hstep := step_of hth hst hfin (by simp [blockedFrame, hown])
  cases hsf : stepFrame s t th _ with
  | mk S O =>
    rw [hsf] at hstep
    simp only [stepFrame, hret, hsig, hp, hrep] at hsf
    simp [ringStep, fsState, setFsState, henq, hemp] at hsf
    obtain ⟨rfl, rfl⟩ := hsf
    refine ⟨_, _, hstep, ?_, ?_⟩
    · refine ne_of_threads hth (th' := th.cont [.sWaitUnlock 0]) ?_ ?_
      · simp [setThread, setSig, setPool, upd]
      · simp [Thread.cont, hst, cons_ne_self', cons_ne_self2]
    · refine ⟨p, th.cont [.sWaitUnlock 0], rest, ?_⟩
      simp [setThread, setSig, setPool, upd, Thread.cont, hst, hp, henq, hsig, hown, hemp, hfin, hret, hrep, stk]
      try (cases p; simp at henq; subst henq; rfl)

theorem phase12 {s : State} {t : Tid} (h : Phase s t 12) :
    ∃ s' o, step s t = some (s', o) ∧ s' ≠ s ∧ Phase s' t 0 := by
  obtain ⟨p, th, rest, hp, henq, hsig, hown, hemp, hth, hfin, hst, hret, hrep⟩ := h
  simp [stk] at hst hown hret
  have hstep := step_of hth hst hfin (by simp [blockedFrame, hown])
  cases hsf : stepFrame s t th _ with
  | mk S O =>
    rw [hsf] at hstep
    simp only [stepFrame, hret, hsig, hp, hrep] at hsf
    simp [ringStep, fsState, setFsState, henq, hemp] at hsf
    obtain ⟨rfl, rfl⟩ := hsf
    refine ⟨_, _, hstep, ?_, ?_⟩
    · refine ne_of_threads hth (th' := th.cont []) ?_ ?_
      · simp [setThread, setSig, setPool, upd]
      · simp [Thread.cont, hst, cons_ne_self', cons_ne_self2]
    · refine ⟨p, th.cont [], rest, ?_⟩
      simp [setThread, setSig, setPool, upd, Thread.cont, hst, hp, henq, hsig, hown, hemp, hfin, hret, hrep, stk]
      try (cases p; simp at henq; subst henq; rfl)


/-- one step of the spinning worker: phase `k` leads to phase `k + 1 mod 13` by a state-changing micro-step of `t` -/
theorem phase_step {s : State} {t : Tid} {k : Nat} (hk : k < 13) (h : Phase s t k) :
    ∃ s' o, step s t = some (s', o) ∧ s' ≠ s ∧ Phase s' t ((k + 1) % 13) := by
  match k, hk with
  | 0, _ => exact phase0 h
  | 1, _ => exact phase1 h
  | 2, _ => exact phase2 h
  | 3, _ => exact phase3 h
  | 4, _ => exact phase4 h
  | 5, _ => exact phase5 h
  | 6, _ => exact phase6 h
  | 7, _ => exact phase7 h
  | 8, _ => exact phase8 h
  | 9, _ => exact phase9 h
  | 10, _ => exact phase10 h
  | 11, _ => exact phase11 h
  | 12, _ => exact phase12 h
  | k + 13, hk => omega

/-- reachable states in which some worker is somewhere in its solitary idle loop -/
def SpinSet (cfg : Config) (s : State) : Prop := Reach cfg s ∧ ∃ t k, k < 13 ∧ Phase s t k

/-- the set is closed under a `Progresses` step: it has no minimal element -/
theorem spinSet_closed {cfg : Config} {s : State} (h : SpinSet cfg s) :
    ∃ s', Progresses cfg s' s ∧ SpinSet cfg s' := by
  obtain ⟨hr, t, k, hk, hph⟩ := h
  obtain ⟨s', o, hs, hne, hph'⟩ := phase_step hk hph
  exact ⟨s', ⟨hr, hne, t, o, hs⟩, Reach.step t hr hs, t, (k + 1) % 13, Nat.mod_lt _ (by omega), hph'⟩

theorem not_wf_of_spinSet {cfg : Config} {s : State} (h : SpinSet cfg s) : ¬ WellFounded (Progresses cfg) := by
  intro hwf
  have hno : ∀ s, ¬ SpinSet cfg s := fun s =>
    hwf.induction (C := fun s => ¬ SpinSet cfg s) s (fun s ih hs => by
      obtain ⟨s', hp, hs'⟩ := spinSet_closed hs
      exact ih s' hp hs')
  exact hno s h

/-! ### a concrete reachable state at the head of the loop -/

/-- ORIGINAL code, queue capacity 1, one client `start f0(11,5); start f1(12,6); join f0; join f1` -/
def negCfg : Config :=
  { q := 1, minT := 0, maxT := 3, lazy := false, tick := 0, spurious := 0, repaired := false,
    scripts := [[.start 0 11 5, .start 1 12 6, .join 0, .join 1]] }

/-- the spinning worker of `negSched` -/
def negW : Tid := 3

/-- micro-step schedule found by the compiled explorer (`drv_future`, command
    `C 3000 5 q=1 min=0 max=3 lazy=0 tick=0 sp=0 rep=0 | s0:11:5 s1:12:6 j0 j1`), continued by steps of worker `negW`
    up to the head of its loop (`wPop1` on top) -/
def negSched : List Tid := [0,0,1,0,1,1,0,1,1,1,1,1,1,1,1,1,1,1,1,1,1,1,1,1,1,1,1,1,1,1,1,1,1,2,2,2,2,1,2,2,2,1,2,2,2,2,2,1,2,1,1,1,2,1,2,1,1,2,2,2,2,1,1,2,2,2,1,2,2,1,1,2,1,2,2,2,2,2,2,2,1,2,1,2,1,2,2,1,2,1,2,1,1,2,2,2,2,2,1,2,2,2,1,2,2,2,2,2,1,2,3,2,3,2,
  3,3,3,3,3,3,3,3,3,3,3,3]

def ringEmptyB (p : Pool) : Bool :=
  match (p.ring.slots (p.ring.head % p.ring.cap)).headT with
  | some h' => h' != p.ring.head
  | none => true

def stackIsLoopHead : List Frame → Bool
  | .wPop1 :: _ => true
  | _ => false

def spinChkAt (w : Tid) (s : State) : Bool :=
  match s.pool, s.threads w with
  | some p, some th =>
    stackIsLoopHead th.stack && p.enq == 0 && (s.sigs 0).signaled && (s.sigs 0).owner.isNone && !th.finished &&
      ringEmptyB p && !s.cfg.repaired
  | _, _ => false

def spinChk : Bool :=
  match runSched (State.init negCfg) negSched with
  | some s => spinChkAt negW s
  | none => false

theorem spinChk_true : spinChk = true := by decide +kernel

theorem phase0_of_chk {w : Tid} {s : State} (h : spinChkAt w s = true) : Phase s w 0 := by
  unfold spinChkAt at h
  split at h
  · next p th hp hth =>
    simp only [Bool.and_eq_true, beq_iff_eq, Bool.not_eq_true', Option.isNone_iff_eq_none] at h
    obtain ⟨⟨⟨⟨⟨⟨h1, h2⟩, h3⟩, h4⟩, h5⟩, h6⟩, h7⟩ := h
    cases hst : th.stack with
    | nil => rw [hst] at h1; cases h1
    | cons fr rest =>
      rw [hst] at h1
      cases fr <;> first | (cases h1; done) | skip
      refine ⟨p, th, rest, hp, h2, h3, by simpa using h4, ?_, hth, h5, by simp [stk, hst], by simp, h7⟩
      intro he
      unfold ringEmptyB at h6
      rw [he] at h6
      simp at h6
  · cases h

theorem negCfg_wellFormed : negCfg.WellFormed := by
  constructor
  · intro i j si sj hi hj hij
    match i, j with
    | 0, 0 => exact absurd rfl hij
    | 0, j + 1 => simp [negCfg] at hj
    | i + 1, _ => simp [negCfg] at hi
  · intro sc hsc a ha
    simp [negCfg] at hsc
    subst hsc
    simp at ha
    rcases ha with rfl | rfl | rfl | rfl <;> simp [opFut]

theorem negCfg_spin : ∃ s, Reach negCfg s ∧ Phase s negW 0 := by
  have h := spinChk_true
  unfold spinChk at h
  split at h
  · next s hs => exact ⟨s, runSched_reach Reach.init hs, phase0_of_chk h⟩
  · cases h

end F2N

open F2N in
/-- ORIGINAL code: a reachable state of a well-formed configuration in which worker `t` stands at the head of an idle
    loop that it can run through alone, returning to the same phase (`F2N.phase_step`) -/
theorem solo_spin_cycle : ∃ cfg s t, cfg.repaired = false ∧ cfg.WellFormed ∧ Reach cfg s ∧ F2N.Phase s t 0 := by
  obtain ⟨s, hr, hp⟩ := negCfg_spin
  exact ⟨negCfg, s, negW, rfl, negCfg_wellFormed, hr, hp⟩

/-- every state of the solitary idle loop has a `Progresses` successor inside the loop -/
theorem solo_spin_closed {cfg : Config} {s : State} (h : F2N.SpinSet cfg s) :
    ∃ s', Progresses cfg s' s ∧ F2N.SpinSet cfg s' := F2N.spinSet_closed h

/-- NEGATION WITNESS (original code): `WellFounded (Progresses cfg)` is false for a well-formed configuration of the
    ORIGINAL code: with `_enqueuedSignal` stuck in `_state = 0 ∧ signaled`, an idle worker alone produces an infinite
    chain of state-changing micro-steps.  (Repaired by fixes/future/0005.) -/
theorem progresses_not_wf_orig :
    ∃ cfg : Config, cfg.repaired = false ∧ cfg.WellFormed ∧ ¬ WellFounded (Progresses cfg) := by
  obtain ⟨s, hr, hp⟩ := F2N.negCfg_spin
  exact ⟨F2N.negCfg, rfl, F2N.negCfg_wellFormed, F2N.not_wf_of_spinSet ⟨hr, F2N.negW, 0, by omega, hp⟩⟩

end Nstd.Future
