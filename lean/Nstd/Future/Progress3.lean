/-
  Progress lemmas, part 3: the pool mutex (`ThreadPool::_mutex`, `Pool.mOwner`).
  `holdStack l`: the shape of the stack of a thread inside the critical section of the pool mutex
  (`runSpLock` ... `runSpUnlock`, `runRetLock` ... `runRetUnlock`): code called under the mutex (`cleanup`, the `push` of the
  retire job, `_enqueuedSignal.set()`), exactly ONE marker frame of `run`, then caller frames without marker.
  `PoolInv`: every stack has at most one marker; the owner has a `holdStack`; a thread with a `holdStack` is the owner.
-/
import Nstd.Future.Progress2
set_option linter.unusedSimpArgs false
set_option linter.unusedVariables false
namespace Nstd.Future

/-- frames of `ThreadPool::run` executed while holding `ThreadPool::_mutex` (marker frames: exactly one of them is in
    the stack of the holder) -/
def poolHold : Frame → Bool
  | .runSpChk | .runSpUnlock _ | .runRetChk | .runRetAfter | .runRetUnlock => true
  | _ => false

/-- frames that run on top of a marker frame, i.e. code called while the pool mutex is held:
    `cleanup` (`cleanAt`, `cleanJoin`), the queue `push` of the retire job, and `_enqueuedSignal.set()` -/
def poolAbove : Frame → Bool
  | .cleanAt _ | .cleanJoin _ _ | .ring _ => true
  | .fSet σ | .sSetLock σ | .sSetStore σ | .sSetUnlock σ | .sSetBcast σ _ => σ == 0
  | _ => false

def poolLock : Frame → Bool
  | .runSpLock | .runRetLock => true
  | _ => false

def poolUnlock : Frame → Bool
  | .runSpUnlock _ | .runRetUnlock => true
  | _ => false

/-- no marker frame in the stack -/
def noHold : List Frame → Bool
  | [] => true
  | f :: l => !poolHold f && noHold l

/-- the stack of a thread inside the critical section of the pool mutex: called code, ONE marker frame, caller frames -/
def holdStack : List Frame → Bool
  | [] => false
  | f :: l => (poolHold f && noHold l) || (poolAbove f && holdStack l)

theorem holdStack_false_of_noHold {l : List Frame} (h : noHold l = true) : holdStack l = false := by
  induction l with
  | nil => rfl
  | cons a l ih =>
    simp only [noHold, Bool.and_eq_true, Bool.not_eq_true'] at h
    simp only [holdStack, h.1, ih h.2, Bool.false_and, Bool.and_false, Bool.or_false]

theorem setFsState_mOwner (p : Pool) (fs v : Nat) : (setFsState p fs v).mOwner = p.mOwner := by
  simp only [setFsState]; split <;> rfl

structure Shape5 (s s' : State) (t : Tid) (fr : Frame) (rest : List Frame) : Prop where
  g : (holdStack (fr :: rest) = true ∨ noHold (fr :: rest) = true) →
      ∃ th', s'.threads t = some th' ∧ (holdStack th'.stack = true ∨ noHold th'.stack = true)
  keep : holdStack (fr :: rest) = true → poolUnlock fr = false → ∃ th', s'.threads t = some th' ∧ holdStack th'.stack = true
  lock : poolLock fr = true → noHold rest = true → ∀ p', s'.pool = some p' → ∃ th', s'.threads t = some th' ∧ holdStack th'.stack = true
  newHold : noHold (fr :: rest) = true → poolLock fr = false → ∃ th', s'.threads t = some th' ∧ noHold th'.stack = true
  unl : poolUnlock fr = true → noHold rest = true → ∀ p', s'.pool = some p' → ∃ th', s'.threads t = some th' ∧ noHold th'.stack = true
  unlOwner : poolUnlock fr = true → ∀ p', s'.pool = some p' → p'.mOwner = none
  lockOwner : poolLock fr = true → ∀ p', s'.pool = some p' → p'.mOwner = some t
  ownerSame : poolLock fr = false → poolUnlock fr = false → ∀ p', s'.pool = some p' →
      (∃ p, s.pool = some p ∧ p'.mOwner = p.mOwner) ∨ (p'.mOwner = none ∧ (fr = .mInit ∨ s.tp = false))

set_option maxHeartbeats 8000000 in
theorem shape5 (s : State) (t : Tid) (th : Thread) (fr : Frame) (rest : List Frame)
    (hth : s.threads t = some th) (hst : th.stack = fr :: rest) :
    Shape5 s (stepFrame s t th fr).1 t fr rest := by
  cases fr <;> simp only [stepFrame] <;> repeat' split
  all_goals
    constructor
    · intro hb
      simp [holdStack, noHold, poolHold, poolAbove] at hb <;>
      simp [setThread, setSig, setPool, setFut, withFault, destroySig, upd_same, Thread.cont, hst, hth, hb,
        holdStack, noHold, poolHold, poolAbove] <;>
      try (rcases hb with hb | hb <;> simp [hb])
    · intro hb hu
      simp [holdStack, noHold, poolHold, poolAbove, poolUnlock] at hb hu <;>
      simp [setThread, setSig, setPool, setFut, withFault, destroySig, upd_same, Thread.cont, hst, hth, hb,
        holdStack, noHold, poolHold, poolAbove]
    · intro hl hb
      simp [poolLock] at hl <;>
      simp [setThread, setSig, setPool, setFut, withFault, destroySig, upd_same, Thread.cont, hst, hth, hb,
        holdStack, noHold, poolHold, poolAbove] <;>
      try (intro p' hp'; simp_all; done)
    · intro hb hl
      simp [holdStack, noHold, poolHold, poolAbove, poolLock] at hb hl <;>
      simp [setThread, setSig, setPool, setFut, withFault, destroySig, upd_same, Thread.cont, hst, hth, hb,
        holdStack, noHold, poolHold, poolAbove]
    · intro hl hb
      simp [poolUnlock] at hl <;>
      simp [setThread, setSig, setPool, setFut, withFault, destroySig, upd_same, Thread.cont, hst, hth, hb,
        holdStack, noHold, poolHold, poolAbove] <;>
      try (intro p' hp'; simp_all; done)
    · intro hl
      simp [poolUnlock] at hl <;>
      simp [setThread, setSig, setPool, setFut, withFault, destroySig] <;>
      try (intro p' hp'; simp_all; done)
    · intro hl
      simp [poolLock] at hl <;>
      simp [setThread, setSig, setPool, setFut, withFault, destroySig] <;>
      try (intro p' hp'; simp_all; done)
    · intro hl hu
      simp [poolLock, poolUnlock] at hl hu <;>
      simp [setThread, setSig, setPool, setFut, withFault, destroySig, setFsState_mOwner] <;>
      try (first | (intro p' hp'; left; exact ⟨_, hp', rfl⟩) | (left; exact ⟨_, by assumption, rfl⟩) | (right; simp_all [mkPool]; done))

theorem noHold_of_allPre {l : List Frame} (h : AllPre l) : noHold l = true := by
  induction l with
  | nil => rfl
  | cons a l ih =>
    rw [allPre_cons] at h
    have : poolHold a = false := by
      have h1 := h.1
      cases a <;> first | rfl | (simp [prePool] at h1)
    simp only [noHold, this, ih h.2]; rfl

theorem cRdTp2_pool {s : State} {t : Tid} {th : Thread} {c : Nat} (h : s.tp = true) :
    (stepFrame s t th (.cRdTp2 c)).1.pool = s.pool := by
  simp [stepFrame, h, setThread]

structure PoolInv (s : State) : Prop where
  g : ∀ t th, s.threads t = some th → holdStack th.stack = true ∨ noHold th.stack = true
  own : ∀ p o, s.pool = some p → p.mOwner = some o → ∃ th, s.threads o = some th ∧ holdStack th.stack = true
  excl : ∀ p u th, s.pool = some p → s.threads u = some th → holdStack th.stack = true → p.mOwner = some u

theorem poolInv_init (cfg : Config) : PoolInv (State.init cfg) := by
  have hthr : ∀ t th, (State.init cfg).threads t = some th → th = { stack := [Frame.mInit] } := by
    intro t th h
    simp only [State.init] at h
    split at h
    · injection h with h; exact h.symm
    · cases h
  refine ⟨?_, ?_, ?_⟩
  · intro t th h; rw [hthr t th h]; right; rfl
  · intro p o h; simp [State.init] at h
  · intro p u th h; simp [State.init] at h

theorem poolInv_step {cfg : Config} {s s' : State} {t : Tid} {o : List String}
    (hr : Reach cfg s) (hr' : Reach cfg s') (hI : PoolInv s) (h : step s t = some (s', o)) : PoolInv s' := by
  obtain ⟨th, fr, rest, hth, hst, hnf, hblk, rfl⟩ := step_inv2 h
  have hS := reach_inv hr
  have h4 := shape4 s t th fr rest hth hst
  have h5 := shape5 s t th fr rest hth hst
  have hfresh : s.threads s.nthreads = none := hS.fresh _ (Nat.le_refl _)
  have hG : holdStack (fr :: rest) = true ∨ noHold (fr :: rest) = true := by rw [← hst]; exact hI.g t th hth
  -- threads other than `t`
  have hoth : ∀ u thu, u ≠ t → (stepFrame s t th fr).1.threads u = some thu →
      s.threads u = some thu ∨ (s.threads u = none ∧ noHold thu.stack = true) := by
    intro u thu hu hthu
    rcases h4.others u hu with h2 | ⟨h2, thw, h3, _, h6⟩
    · left; rw [← h2]; exact hthu
    · right
      have h2' : (u : Nat) = s.nthreads := h2
      rw [hthu] at h3; injection h3 with h3; subst h3
      refine ⟨by rw [h2']; exact hfresh, ?_⟩
      rcases h6 with h6 | ⟨h6, _⟩ <;> rw [h6] <;> rfl
  have hkeepth : ∀ u thu, u ≠ t → s.threads u = some thu → (stepFrame s t th fr).1.threads u = some thu := by
    intro u thu hu hthu
    rcases h4.others u hu with h2 | ⟨h2, _⟩
    · rw [h2]; exact hthu
    · have h2' : (u : Nat) = s.nthreads := h2
      rw [h2', hfresh] at hthu; cases hthu
  -- a pool in the new state: either there was one, or it has just been created while no thread was inside pool code
  have hpoolCases : ∀ p', (stepFrame s t th fr).1.pool = some p' →
      (∃ p, s.pool = some p) ∨ (∀ u thu, s.threads u = some thu → noHold thu.stack = true) := by
    intro p' hp'
    cases hp : s.pool with
    | some p => exact Or.inl ⟨p, rfl⟩
    | none =>
      right
      have halive : poolAlive s := (shape1 s t th fr rest hth hst hnf (by
        have := hS.ringTopOnly t th hth; rw [hst] at this; exact this)).live (pool_alive hr' hp')
      have htp : s.tp = false := by
        cases Classical.em (fr = .mInit) with
        | inl e =>
          have := hS.initOnly t th hth (by rw [hst, e]; rfl)
          rw [this]; rfl
        | inr e =>
          cases Classical.em (∃ c, fr = .cRdTp2 c) with
          | inl e2 =>
            obtain ⟨c, rfl⟩ := e2
            cases htp : s.tp
            · rfl
            · rw [cRdTp2_pool htp, hp] at hp'; cases hp'
          | inr e2 =>
            have := h4.poolNone e (fun c hc => e2 ⟨c, hc⟩) hp
            rw [this] at hp'; cases hp'
      intro u thu hthu
      exact noHold_of_allPre ((hS.early halive htp).pre u thu hthu)
  have hearlyOwner : ∀ p, s.pool = some p → s.tp = false → p.mOwner = none := by
    intro p hp htp
    have := (hS.early (pool_alive hr hp) htp).ctxs p hp
    rw [this]; rfl
  -- mOwner of the new state, traced back
  have hownerBack : poolLock fr = false → poolUnlock fr = false → ∀ p' u, (stepFrame s t th fr).1.pool = some p' →
      p'.mOwner = some u → ∃ p, s.pool = some p ∧ p.mOwner = some u := by
    intro hl hu p' u hp' hm
    rcases h5.ownerSame hl hu p' hp' with ⟨p, h1, h2⟩ | ⟨h1, _⟩
    · exact ⟨p, h1, by rw [← h2]; exact hm⟩
    · rw [h1] at hm; cases hm
  have hownerFwd : poolLock fr = false → poolUnlock fr = false → ∀ p p' u, s.pool = some p → p.mOwner = some u →
      (stepFrame s t th fr).1.pool = some p' → p'.mOwner = some u := by
    intro hl hu p p' u hp hm hp'
    rcases h5.ownerSame hl hu p' hp' with ⟨p2, h1, h2⟩ | ⟨_, h2⟩
    · rw [hp] at h1; injection h1 with h1; subst h1; rw [h2]; exact hm
    · exfalso
      rcases h2 with h2 | h2
      · have := hS.initOnly t th hth (by rw [hst, h2]; rfl)
        rw [this] at hp; cases hp
      · rw [hearlyOwner p hp h2] at hm; cases hm
  refine ⟨?_, ?_, ?_⟩
  · -- g
    intro u thu hthu
    by_cases hu : u = t
    · subst hu
      obtain ⟨th', h1, h2⟩ := h5.g hG
      rw [h1] at hthu; injection hthu with hthu; subst hthu; exact h2
    · rcases hoth u thu hu hthu with h2 | ⟨_, h2⟩
      · exact hI.g u thu h2
      · exact Or.inr h2
  · -- own
    intro p' o hp' hm
    cases hl : poolLock fr with
    | true =>
      have := h5.lockOwner hl p' hp'
      rw [this] at hm; injection hm with hm; subst hm
      have hnr : noHold rest = true := by
        rcases hG with h1 | h1
        · cases fr <;> simp [poolLock] at hl <;> simp [holdStack, poolHold, poolAbove] at h1
        · simp only [noHold, Bool.and_eq_true] at h1; exact h1.2
      exact h5.lock hl hnr p' hp'
    | false =>
      cases hu : poolUnlock fr with
      | true => rw [h5.unlOwner hu p' hp'] at hm; cases hm
      | false =>
        obtain ⟨p, hp, hm2⟩ := hownerBack hl hu p' o hp' hm
        obtain ⟨tho, h1, h2⟩ := hI.own p o hp hm2
        by_cases hot : o = t
        · subst hot
          rw [hth] at h1; injection h1 with h1; subst h1
          exact h5.keep (by rw [← hst]; exact h2) hu
        · exact ⟨tho, hkeepth o tho hot h1, h2⟩
  · -- excl
    intro p' u thu hp' hthu hhs
    -- a pool existed before
    have hold : ∀ v thv, s.threads v = some thv → holdStack thv.stack = true → ∃ p, s.pool = some p ∧ p.mOwner = some v := by
      intro v thv hthv hh
      rcases hpoolCases p' hp' with ⟨p, hp⟩ | hno
      · exact ⟨p, hp, hI.excl p v thv hp hthv hh⟩
      · rw [holdStack_false_of_noHold (hno v thv hthv)] at hh; cases hh
    by_cases hut : u = t
    · subst hut
      rcases hG with h1 | h1
      · -- the thread was inside the critical section
        obtain ⟨p, hp, hm⟩ := hold u th hth (by rw [hst]; exact h1)
        cases hl : poolLock fr with
        | true => cases fr <;> simp [poolLock] at hl <;> simp [holdStack, poolHold, poolAbove] at h1
        | false =>
          cases hu : poolUnlock fr with
          | true =>
            have hnr : noHold rest = true := by
              cases fr <;> simp [poolUnlock] at hu <;> simpa [holdStack, poolHold, poolAbove] using h1
            obtain ⟨th', h2, h3⟩ := h5.unl hu hnr p' hp'
            rw [h2] at hthu; injection hthu with hthu; subst hthu
            rw [holdStack_false_of_noHold h3] at hhs; cases hhs
          | false => exact hownerFwd hl hu p p' u hp hm hp'
      · cases hl : poolLock fr with
        | true => exact h5.lockOwner hl p' hp'
        | false =>
          obtain ⟨th', h2, h3⟩ := h5.newHold h1 hl
          rw [h2] at hthu; injection hthu with hthu; subst hthu
          rw [holdStack_false_of_noHold h3] at hhs; cases hhs
    · rcases hoth u thu hut hthu with h2 | ⟨_, h2⟩
      · obtain ⟨p, hp, hm⟩ := hold u thu h2 hhs
        cases hl : poolLock fr with
        | true =>
          -- `t` cannot take the mutex: it is owned
          exfalso
          have : blockedFrame s t fr = true := by
            cases fr <;> simp [poolLock] at hl <;> simp [blockedFrame, hp, hm]
          rw [this] at hblk; cases hblk
        | false =>
          cases hu : poolUnlock fr with
          | true =>
            -- `t` is at an unlock frame, hence the owner
            exfalso
            have h1 : holdStack (fr :: rest) = true := by
              rcases hG with h1 | h1
              · exact h1
              · cases fr <;> simp [poolUnlock] at hu <;> simp [noHold, poolHold] at h1
            have := hI.excl p t th hp hth (by rw [hst]; exact h1)
            rw [hm] at this; injection this with this; exact hut this
          | false => exact hownerFwd hl hu p p' u hp hm hp'
      · rw [holdStack_false_of_noHold h2] at hhs; cases hhs

theorem reach_poolInv {cfg : Config} {s : State} (h : Reach cfg s) : PoolInv s := by
  induction h with
  | init => exact poolInv_init cfg
  | step t hr hs ih => exact poolInv_step hr (Reach.step t hr hs) ih hs

end Nstd.Future
