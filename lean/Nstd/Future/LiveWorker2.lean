/-
  No lost wake-up on the worker side, part 2: the stack discipline holds in every reachable state of the
  repaired model; `_enqueuedSignal._state ≤ 1`; the FastSignal core invariant (I1) in the full model:
  `_state = 1` implies that the Signal is set or a thread is inside `set()`/`reset()` of the enqueued
  FastSignal at a point from which it is still going to set the Signal.
-/
import Nstd.Future.LiveWorker1
set_option linter.unusedSimpArgs false
set_option linter.unusedVariables false
namespace Nstd.Future.LW

/-! ### the stack discipline in reachable states -/

structure StkInv (s : State) : Prop where
  adj : ∀ t th, s.threads t = some th → AdjOk th.stack
  loop : ∀ t th, s.threads t = some th → th.finished = false → HasLoop th.stack
  wk : ∀ t th, s.threads t = some th → th.isWorker = true → AllW th.stack

theorem stkInv_init (cfg : Config) : StkInv (State.init cfg) := by
  have hthr : ∀ t th, (State.init cfg).threads t = some th → th = { stack := [Frame.mInit] } := by
    intro t th h
    simp only [State.init] at h
    split at h
    · injection h with h; exact h.symm
    · cases h
  constructor
  · intro t th h; rw [hthr t th h]; simp [adjOk_cons, adjOk_nil, adj]
  · intro t th h _; rw [hthr t th h]; simp [hasLoop_cons, loopFr]
  · intro t th h hw; rw [hthr t th h] at hw; cases hw

theorem stkInv_step {s s' : State} {t : Tid} {o : List String} (hrep : s.cfg.repaired = true)
    (hI : StkInv s) (h : step s t = some (s', o)) : StkInv s' := by
  obtain ⟨th, fr, rest, hth, hst, hfin, rfl⟩ := step_inv h
  have hk := shapeK s t th fr rest hth hst hrep
  obtain ⟨th', hth', hwk', hadj', hloop', hallw'⟩ := hk.self
  have hoth : ∀ u thu, u ≠ t → (stepFrame s t th fr).1.threads u = some thu →
      s.threads u = some thu ∨ thu = { stack := [.tStart, .wPop1], isWorker := true } ∨
        ∃ sc, thu = { stack := [.tStart, .cNext], script := sc } := by
    intro u thu hu hthu
    rcases hk.others u hu with h2 | ⟨_, h2 | ⟨sc, h2⟩⟩
    · left; rw [← h2]; exact hthu
    · right; left; rw [hthu] at h2; injection h2
    · right; right; rw [hthu] at h2; injection h2 with h2; exact ⟨sc, h2⟩
  constructor
  · intro u thu hthu
    by_cases hu : u = t
    · subst hu; rw [hth'] at hthu; injection hthu with hthu; subst hthu
      exact hadj' (by rw [← hst]; exact hI.adj u th hth)
    · rcases hoth u thu hu hthu with h2 | rfl | ⟨sc, rfl⟩
      · exact hI.adj u thu h2
      · simp [adjOk_cons, adjOk_nil, adj]
      · simp [adjOk_cons, adjOk_nil, adj]
  · intro u thu hthu hf
    by_cases hu : u = t
    · subst hu; rw [hth'] at hthu; injection hthu with hthu; subst hthu
      exact hloop' (by rw [← hst]; exact hI.loop u th hth hfin) hf
    · rcases hoth u thu hu hthu with h2 | rfl | ⟨sc, rfl⟩
      · exact hI.loop u thu h2 hf
      · simp [hasLoop_cons, loopFr]
      · simp [hasLoop_cons, loopFr]
  · intro u thu hthu hw
    by_cases hu : u = t
    · subst hu; rw [hth'] at hthu; injection hthu with hthu; subst hthu
      exact hallw' (by rw [← hst]; exact hI.wk u th hth (by rw [← hwk']; exact hw))
    · rcases hoth u thu hu hthu with h2 | rfl | ⟨sc, rfl⟩
      · exact hI.wk u thu h2 hw
      · simp [allW_cons, allW_nil, wkFr]
      · cases hw

theorem stk_reach {cfg : Config} (hrep : cfg.repaired = true) {s : State} (h : Reach cfg s) : StkInv s := by
  induction h with
  | init => exact stkInv_init cfg
  | step t hr hs ih => exact stkInv_step (by rw [reach_cfg hr]; exact hrep) ih hs

/-- threads other than the stepping one keep their record (new threads did not exist before) -/
theorem step_keep {cfg : Config} {s : State} (hr : Reach cfg s) {t : Tid} {th : Thread} {fr : Frame}
    {rest : List Frame} (hth : s.threads t = some th) (hst : th.stack = fr :: rest) (hrep : s.cfg.repaired = true) :
    ∀ u thu, u ≠ t → s.threads u = some thu → (stepFrame s t th fr).1.threads u = some thu := by
  intro u thu hu hthu
  rcases (shapeK s t th fr rest hth hst hrep).others u hu with h2 | ⟨h2, _⟩
  · rw [h2]; exact hthu
  · have := (reach_inv hr).fresh u (by rw [h2]; exact Nat.le_refl _)
    rw [hthu] at this; cases this

/-! ### I1 -/

/-- top frames inside `set()`/`reset()` of the enqueued FastSignal from which the thread is still going to store
    `signaled := true` (for `fRstLoad 0`: unless it reads `_state = 0`) -/
def w1 : Frame → Bool
  | .sSetLock σ | .sSetStore σ | .sRstLock σ | .sRstStore σ | .sRstUnlock σ => σ == 0
  | .fRstLoad fs => fs == 0
  | _ => false

def w1S (l : List Frame) : Bool := match l.head? with | some fr => w1 fr | none => false
def w1At (s : State) (t : Tid) : Bool := match s.threads t with | some th => w1S th.stack | none => false

theorem setFsState_enq (p : Pool) (fs v : Nat) : (setFsState p fs v).enq = if fs = 0 then v else p.enq := by
  unfold setFsState; split <;> rfl
theorem setFsState_ring (p : Pool) (fs v : Nat) : (setFsState p fs v).ring = p.ring := by
  unfold setFsState; split <;> rfl

structure ShapeE (s s' : State) (t : Tid) (fr : Frame) (rest : List Frame) : Prop where
  le : enqOf s ≤ 1 → enqOf s' ≤ 1
  g1 : enqOf s ≤ 1 → enqOf s' = 1 → enqOf s = 1 ∨ sig0 s' = true ∨ w1At s' t = true
  g2 : enqOf s' = 1 → sig0 s = true → sig0 s' = true ∨ w1At s' t = true
  g3 : AdjOk (fr :: rest) → enqOf s' = 1 → w1S (fr :: rest) = true → sig0 s' = true ∨ w1At s' t = true

set_option maxHeartbeats 8000000 in
theorem shapeE (s : State) (t : Tid) (th : Thread) (fr : Frame) (rest : List Frame)
    (hth : s.threads t = some th) (hst : th.stack = fr :: rest) (hrep : s.cfg.repaired = true) :
    ShapeE s (stepFrame s t th fr).1 t fr rest := by
  cases fr
  case ring pc =>
    cases hp : s.pool with
    | none =>
      rw [ring_step_noPool s t th pc hp]
      refine ⟨fun h => h, fun _ h => Or.inl h, fun _ h => Or.inl h, fun _ _ h => ?_⟩
      simp [w1S, w1] at h
    | some p =>
      obtain ⟨th', h1, h2, h3, h4, h5, h6⟩ := ring_step_desc s t th pc rest p hp hst
      have he : enqOf (stepFrame s t th (.ring pc)).1 = enqOf s := by simp only [enqOf, h2, hp]
      have hs : sig0 (stepFrame s t th (.ring pc)).1 = sig0 s := by simp only [sig0, h3]
      refine ⟨fun h => by rw [he]; exact h, fun _ h => Or.inl (by rw [← he]; exact h),
        fun _ h => Or.inl (by rw [hs]; exact h), fun _ _ h => ?_⟩
      simp [w1S, w1] at h
  all_goals
    rcases hp : s.pool with _ | p
  all_goals
    simp only [stepFrame, hp]
    repeat' split
  all_goals (try simp only [fsState] at *)
  all_goals
    constructor
    · intro h1
      simp [enqOf, hp, setThread, setSig, setPool, setFut, withFault, destroySig, setFsState_enq, mkPool] at h1 ⊢
      try grind
    · intro h0 h1
      simp [enqOf, sig0, w1At, w1S, w1, hp, hth, hst, hrep, setThread, setSig, setPool, setFut, withFault, destroySig,
        setFsState_enq, fsState, mkPool, upd_same, Thread.cont] at h0 h1 ⊢
      try grind [upd]
    · intro h1 h2
      simp [enqOf, sig0, w1At, w1S, w1, hp, hth, hst, hrep, setThread, setSig, setPool, setFut, withFault, destroySig,
        setFsState_enq, fsState, mkPool, upd_same, Thread.cont] at h1 h2 ⊢
      try grind [upd]
    · intro hb h1 h2
      simp only [adjOk_cons, adj] at hb
      simp [enqOf, sig0, w1At, w1S, w1, hp, hth, hst, hrep, setThread, setSig, setPool, setFut, withFault, destroySig,
        setFsState_enq, fsState, mkPool, upd_same, Thread.cont] at h1 h2 ⊢
      try grind [upd]

/-- (I1) in the vocabulary of this file -/
def I1 (s : State) : Prop := enqOf s = 1 → sig0 s = true ∨ ∃ u, w1At s u = true

theorem enqLe_reach {cfg : Config} (hrep : cfg.repaired = true) {s : State} (h : Reach cfg s) : enqOf s ≤ 1 := by
  induction h with
  | init => simp [enqOf, State.init]
  | step t hr hs ih =>
    obtain ⟨th, fr, rest, hth, hst, hfin, rfl⟩ := step_inv hs
    exact (shapeE _ t th fr rest hth hst (by rw [reach_cfg hr]; exact hrep)).le ih

theorem i1_reach {cfg : Config} (hrep : cfg.repaired = true) {s : State} (h : Reach cfg s) : I1 s := by
  induction h with
  | init => intro h; simp [enqOf, State.init] at h
  | @step s s' o t hr hs ih =>
    obtain ⟨th, fr, rest, hth, hst, hfin, rfl⟩ := step_inv hs
    have hrep' : s.cfg.repaired = true := by rw [reach_cfg hr]; exact hrep
    have hE := shapeE s t th fr rest hth hst hrep'
    have hkeep := step_keep hr hth hst hrep'
    intro h1
    rcases hE.g1 (enqLe_reach hrep hr) h1 with h | h | h
    · rcases ih h with h2 | ⟨u, h2⟩
      · rcases hE.g2 h1 h2 with h3 | h3
        · exact Or.inl h3
        · exact Or.inr ⟨t, h3⟩
      · by_cases hu : u = t
        · subst hu
          have hadj : AdjOk (fr :: rest) := by rw [← hst]; exact (stk_reach hrep hr).adj u th hth
          have h4 : w1S (fr :: rest) = true := by
            simp only [w1At, hth] at h2; rw [← hst]; exact h2
          rcases hE.g3 hadj h1 h4 with h3 | h3
          · exact Or.inl h3
          · exact Or.inr ⟨u, h3⟩
        · right
          refine ⟨u, ?_⟩
          cases hthu : s.threads u with
          | none => simp [w1At, hthu] at h2
          | some thu =>
            simp only [w1At, hthu] at h2
            simp only [w1At, hkeep u thu hu hthu]; exact h2
    · exact Or.inl h
    · exact Or.inr ⟨t, h⟩

end Nstd.Future.LW
