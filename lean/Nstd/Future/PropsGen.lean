import Nstd.Generated.FutureBody
import Nstd.Future.SimRing
import Nstd.Future.RingLemmas
import Nstd.Future.GenLemmas
import Nstd.Future.Handshake
/-
  Property C10 — tie by TRANSLATION (round 7).

  `Nstd.Generated.FutureBody` is written by tools/gen_future.py from the CURRENT src/Future.cpp on every run of the check
  (tokenizer + parser of the C++ subset; every access to a shared location starts one micro-step, the thread-local code after it
  runs on inside the step; anything outside the subset is refused).  This file proves that the translated bodies ARE the
  hand-written model steps the whole C10 proof is about:

    push / pop            `push_body_is_ringStep`, `pop_body_is_ringStep` : step-by-step simulation of `ringStep` (Ring.lean) by the
                          translated `pushStep` / `popStep` — same next program counter, same locals, same result, same ring up to the
                          ghost logs — for every ring whose capacity is a power of two; `pool_ring_capacity_is_a_power_of_two`: that is
                          every reachable state of the full model (so the hypothesis is not a restriction).
    FastSignal            `fastsignal_set_is_translated`, `…_reset_…`, `…_reset_recheck_…`, `…_wait_…` : the four FastSignal frames of
                          `stepFrame` (repaired code = the current source) are the translated bodies.
    constructors          `queue_ctor_is_ring_init`, `queue_ctor_capacity_upto_1024` (bounded: see OPEN), `pool_ctor_is_mkPool`,
                          `lazy_pool_is_default_ctor`.
    worker loop           `worker_loop_is_translated` : every decision / access frame of `ThreadContext::proc` (`wPop1`, `wChk1`, `wChk2`,
                          `wDispatch`, `wAdd`, `wTerm`) is the translated micro-step with the same number (pool equal, pushed frames equal
                          after expanding the model's call-site frames `wPop2`, `wDeq`: `worker_call_sites`).
    run(), first half     `run_push_loop_is_translated` : the push loop with back-pressure, the increment of `_pushedJobs` and the read of
                          `_processedJobs` (`runStart … runRdProc`), likewise (`run_call_sites`); a helper the loop is moved into is inlined.
    run()                 `run_decision_is_translated` : the branch the model takes after the two counter reads is the decision TREE the
                          translator obtains from the current source by symbolic execution (counter arithmetic with the source's
                          `usize`/`ssize` wrap-around, every condition, early returns or nested ifs alike), for all counters < 2^62;
                          `run_clock_cond_is_translated`, `run_clock_frames_do_what_the_tree_says`, `run_counters_are_translated`.
                          The effect statements (mutex, purge, Thread::start, terminate job) are opaque to the translator.
    Future.hpp            `join_is_translated`, `join_clear_is_translated`, `abort_is_translated`, `flags_are_translated`,
                          `destructor_is_translated`, `set_is_translated` (Future<void>::set of Future.cpp), `result_conversion_is_translated`,
                          `proc_order_is_translated`, `fut_ctor_is_default`, `state_enum_is_translated`; `flags_after_join_translated`:
                          the last sentence of C10 stated with the translated `isFinished()` / `isAborted()`.
    startProc             `start_proc_is_translated` : `cRdTp, cSpin, cRdTp2, cSwapTp, cUnlockTp` are the translated micro-steps 0–4 (lazy pool under
                          the spin lock), `cJoin` the call site of `join()` (`start_call_site`), `cArm` the composition of the two arming stores
                          (either order) + `threadPool->run(proc, args)`.
    Signal.cpp            `signal_set_is_translated`, `signal_reset_is_translated`, `signal_wait_is_translated` : `Signal::set / reset / wait()`
                          (pthread branch; `pthread_cond_wait` = release+enqueue, wake, re-lock) are the frames `sSet* / sRst* / sWait*`.
    re-polling            `failed_pop_is_pure`, `fastsignal_set_when_already_set_is_a_no_op` (any re-poll budget; C10-h5).
    size()                `size_body_never_underflows` : the translated `LockFreeQueue::size` (reads `_head`, then `_tail`), run against
                          arbitrary steps of other threads in between, subtracts a head that is not above the tail it reads.

  A change of one of these C++ bodies changes the generated definition and the corresponding proof below fails.
-/
set_option linter.unusedSimpArgs false
namespace Nstd.Future.C10
open Nstd.Generated.FutureBody

/-- the part of a ring the code can see (the ghost logs cleared) -/
def Ring.code {α : Type} (r : Ring α) : Ring α := { r with pushLog := [], popLog := [] }

/-! ## push -/

/-- program counter and locals of the translated `push` that represent a model program counter
    (`v0` = `node` as slot index, `v2` = `tail`; declaration order of the locals in the source) -/
def PushRel {α : Type} (r : Ring α) (d : α) : RingPc α → Nat → PushL → Prop
  | .pushRead d', n, _ => d' = d ∧ n = 0
  | .pushChk d' t, n, L => d' = d ∧ n = 1 ∧ L.v2 = t ∧ L.v0 = t % r.cap
  | .pushCas d' t, n, L => d' = d ∧ n = 2 ∧ L.v2 = t ∧ L.v0 = t % r.cap
  | .pushData d' t, n, L => d' = d ∧ n = 3 ∧ L.v2 = t ∧ L.v0 = t % r.cap
  | .pushPub d' t, n, L => d' = d ∧ n = 4 ∧ L.v2 = t ∧ L.v0 = t % r.cap
  | _, _, _ => False

/-- outcome of a model step and of a translated step agree -/
def PushAgree {α : Type} (d : α) : Ring α × RingRes α → Ring α × GStep PushL Bool → Prop
  | (r1, .cont pc'), (g1, .goto n' L') => Ring.code r1 = Ring.code g1 ∧ PushRel r1 d pc' n' L'
  | (r1, .pushed b), (g1, .ret b' _) => Ring.code r1 = Ring.code g1 ∧ b = b'
  | _, _ => False

theorem and_mask {k : Nat} (x cap : Nat) (h : cap = 2 ^ k) : x &&& (cap - 1) = x % cap := by
  subst h; exact Nat.and_two_pow_sub_one_eq_mod x k

theorem code_eq {α : Type} {r g : Ring α} (h : Ring.code r = Ring.code g) :
    r.cap = g.cap ∧ r.head = g.head ∧ r.tail = g.tail ∧ r.slots = g.slots := by
  cases r; cases g
  simp only [Ring.code, Ring.mk.injEq] at h
  exact ⟨h.1, h.2.1, h.2.2.1, h.2.2.2.1⟩

/-- **`push_body_is_ringStep`** — the translated body of `LockFreeQueue<T>::push` simulates the model's `ringStep` micro-step by
    micro-step: from related program counters (`PushRel`) on rings with the same code-visible part, both take the same step —
    same successor pc and locals, same returned value, same ring (up to the ghost logs). -/
theorem push_body_is_ringStep {α : Type} {k : Nat} (r g : Ring α) (d : α) (pc : RingPc α) (n : Nat) (L : PushL)
    (hcap : r.cap = 2 ^ k) (hcode : Ring.code r = Ring.code g) (hrel : PushRel r d pc n L) :
    PushAgree d (ringStep r pc) (pushStep d g n L) := by
  obtain ⟨hc, hh, ht, hs⟩ := code_eq hcode
  have hm : ∀ x, x &&& (g.cap - 1) = x % r.cap := fun x => by rw [← hc]; exact and_mask x r.cap hcap
  cases pc with
  | pushRead d' =>
    obtain ⟨rfl, rfl⟩ := hrel
    simp [ringStep, pushStep, PushAgree, PushRel, hm, ht, hcode]
  | pushChk d' t =>
    obtain ⟨rfl, rfl, h2, h0⟩ := hrel
    by_cases hx : (r.slots (t % r.cap)).tailT = t
    · simp [ringStep, pushStep, PushAgree, PushRel, h0, h2, ← hs, hx, hcode]
    · simp [ringStep, pushStep, PushAgree, PushRel, h0, h2, ← hs, hx, hcode]
  | pushCas d' t =>
    obtain ⟨rfl, rfl, h2, h0⟩ := hrel
    by_cases hx : r.tail = t
    · have hx' : g.tail = t := ht ▸ hx
      simp [ringStep, pushStep, PushAgree, PushRel, h0, h2, hx, hx']
      cases r; cases g
      simp only [Ring.code, Ring.mk.injEq] at hcode ⊢
      simp_all
    · have hx' : ¬ g.tail = t := ht ▸ hx
      simp [ringStep, pushStep, PushAgree, PushRel, h0, h2, hx, hx', hm, hcode, ht]
  | pushData d' t =>
    obtain ⟨rfl, rfl, h2, h0⟩ := hrel
    simp [ringStep, pushStep, PushAgree, PushRel, h0, h2]
    refine ⟨?_, ?_⟩
    · cases r; cases g
      simp only [Ring.code, Ring.mk.injEq, Ring.setSlot] at hcode ⊢
      simp_all
    · simp [Ring.setSlot]
  | pushPub d' t =>
    obtain ⟨rfl, rfl, h2, h0⟩ := hrel
    simp [ringStep, pushStep, PushAgree, PushRel, h0, h2]
    cases r; cases g
    simp only [Ring.code, Ring.mk.injEq, Ring.setSlot] at hcode ⊢
    simp_all
  | popRead => exact hrel.elim
  | popChk _ => exact hrel.elim
  | popCas _ => exact hrel.elim
  | popData _ => exact hrel.elim
  | popRel _ _ => exact hrel.elim

/-- `push(d)` starts related: the model's entry pc and the translated body's first shared access with fresh locals -/
theorem push_entry_related {α : Type} (r : Ring α) (d : α) : PushRel r d (.pushRead d) 0 {} := ⟨rfl, rfl⟩

/-! ## pop -/

/-- (`v0` = `node`, `v2` = `head`, `out` = the out parameter `result`) -/
def PopRel {α : Type} (r : Ring α) : RingPc α → Nat → PopL α → Prop
  | .popRead, n, _ => n = 0
  | .popChk h, n, L => n = 1 ∧ L.v2 = h ∧ L.v0 = h % r.cap
  | .popCas h, n, L => n = 2 ∧ L.v2 = h ∧ L.v0 = h % r.cap
  | .popData h, n, L => n = 3 ∧ L.v2 = h ∧ L.v0 = h % r.cap
  | .popRel h d, n, L => n = 4 ∧ L.v2 = h ∧ L.v0 = h % r.cap ∧ L.out = d
  | _, _, _ => False

def PopAgree {α : Type} : Ring α × RingRes α → Ring α × GStep (PopL α) Bool → Prop
  | (r1, .cont pc'), (g1, .goto n' L') => Ring.code r1 = Ring.code g1 ∧ PopRel r1 pc' n' L'
  | (r1, .popped none), (g1, .ret b _) => Ring.code r1 = Ring.code g1 ∧ b = false
  | (r1, .popped (some d)), (g1, .ret b L') => Ring.code r1 = Ring.code g1 ∧ b = true ∧ L'.out = d
  | _, _ => False

/-- **`pop_body_is_ringStep`** — the same for `LockFreeQueue<T>::pop`: `false` ↔ `.popped none`; `true` with the payload left in the
    out parameter ↔ `.popped (some payload)`. -/
theorem pop_body_is_ringStep {α : Type} {k : Nat} (r g : Ring α) (pc : RingPc α) (n : Nat) (L : PopL α)
    (hcap : r.cap = 2 ^ k) (hcode : Ring.code r = Ring.code g) (hrel : PopRel r pc n L) :
    PopAgree (ringStep r pc) (popStep g n L) := by
  obtain ⟨hc, hh, ht, hs⟩ := code_eq hcode
  have hm : ∀ x, x &&& (g.cap - 1) = x % r.cap := fun x => by rw [← hc]; exact and_mask x r.cap hcap
  cases pc with
  | popRead =>
    obtain rfl := hrel
    simp [ringStep, popStep, PopAgree, PopRel, hm, hh, hcode]
  | popChk h =>
    obtain ⟨rfl, h2, h0⟩ := hrel
    by_cases hx : (r.slots (h % r.cap)).headT = some h
    · simp [ringStep, popStep, PopAgree, PopRel, h0, h2, ← hs, hx, hcode]
    · simp [ringStep, popStep, PopAgree, PopRel, h0, h2, ← hs, hx, hcode]
  | popCas h =>
    obtain ⟨rfl, h2, h0⟩ := hrel
    by_cases hx : r.head = h
    · have hx' : g.head = h := hh ▸ hx
      simp [ringStep, popStep, PopAgree, PopRel, h0, h2, hx, hx']
      cases r; cases g
      simp only [Ring.code, Ring.mk.injEq] at hcode ⊢
      simp_all
    · have hx' : ¬ g.head = h := hh ▸ hx
      simp [ringStep, popStep, PopAgree, PopRel, h0, h2, hx, hx', hm, hcode, hh]
  | popData h =>
    obtain ⟨rfl, h2, h0⟩ := hrel
    simp [ringStep, popStep, PopAgree, PopRel, h0, h2, ← hs]
    refine ⟨?_, ?_⟩
    · cases r; cases g
      simp only [Ring.code, Ring.mk.injEq, Ring.setSlot] at hcode ⊢
      simp_all
    · simp [Ring.setSlot]
  | popRel h d =>
    obtain ⟨rfl, h2, h0, ho⟩ := hrel
    cases d with
    | none =>
      simp [ringStep, popStep, PopAgree, PopRel, h0, h2, ho, ← hc]
      cases r; cases g
      simp only [Ring.code, Ring.mk.injEq, Ring.setSlot] at hcode ⊢
      simp_all
    | some d =>
      simp [ringStep, popStep, PopAgree, PopRel, h0, h2, ho, ← hc]
      cases r; cases g
      simp only [Ring.code, Ring.mk.injEq, Ring.setSlot] at hcode ⊢
      simp_all
  | pushRead _ => exact hrel.elim
  | pushChk _ _ => exact hrel.elim
  | pushCas _ _ => exact hrel.elim
  | pushData _ _ => exact hrel.elim
  | pushPub _ _ => exact hrel.elim

theorem pop_entry_related {α : Type} (r : Ring α) : PopRel r .popRead 0 {} := rfl

/-! ## the capacity hypothesis holds in every reachable state of the full model -/

theorem ceilPow2Aux_pow (fuel : Nat) : ∀ (j n : Nat), ∃ k, ceilPow2Aux fuel (2 ^ j) n = 2 ^ k := by
  induction fuel with
  | zero => intro j n; exact ⟨j, rfl⟩
  | succ f ih =>
    intro j n
    simp only [ceilPow2Aux]
    by_cases h : n ≤ 2 ^ j
    · exact ⟨j, by simp [h]⟩
    · obtain ⟨k, hk⟩ := ih (j + 1) n
      exact ⟨k, by simp only [h, if_false]; rw [← hk, Nat.pow_succ, Nat.mul_comm]⟩

theorem ceilPow2_is_a_power_of_two (n : Nat) : ∃ k, ceilPow2 n = 2 ^ k := by
  have := ceilPow2Aux_pow 64 0 n
  simpa [ceilPow2] using this

/-- in every reachable state of the full model the queue's capacity is a power of two (the hypothesis of the two simulation
    theorems above), so the mask arithmetic of the source and the `%` of the model agree -/
theorem pool_ring_capacity_is_a_power_of_two {cfg : Config} {s : State} {p : Pool} (h : Reach cfg s) (hp : s.pool = some p) :
    ∃ k, p.ring.cap = 2 ^ k := by
  have hr := reach_ring h
  have hc := ring_cap_const (capOf_pos cfg) hr
  have : (proj s).ring = p.ring := by simp [proj, hp]
  rw [this] at hc
  rw [hc]
  simp only [capOf]
  split <;> exact ceilPow2_is_a_power_of_two _

/-- non-vacuity of the simulation: the first three steps of a `push(7)` on the initial ring of capacity 2 agree -/
example : PushAgree (7 : Nat) (ringStep (Ring.init 2) (.pushRead 7)) (pushStep 7 (Ring.init 2) 0 {}) :=
  push_body_is_ringStep (k := 1) _ _ 7 _ 0 {} rfl rfl (push_entry_related _ 7)

/-! ## FastSignal (frames `fSet`, `fRst`, `fRstLoad`, `fWait` of the full model; current source = repaired code) -/

/-- frames a translated step of a FastSignal body leaves on the stack: `entry` = the frames of the return address inside the body -/
def fsCallee (fs : Nat) : Callee → List Frame
  | .sigSet => [.sSetLock fs]
  | .sigReset => [.sRstLock fs]
  | .sigWait => [.sWaitLock fs]
  | _ => []

def fsFrames (fs : Nat) (entryOfPc : Nat → List Frame) {L R : Type} : GStep L R → List Frame
  | .ret _ _ => []
  | .goto n _ => entryOfPc n
  | .call cs nx _ => cs.flatMap (fsCallee fs) ++ (match nx with | some n => entryOfPc n | none => [])
  | .stuck => []

/-- the state after thread `t` took a translated step of a FastSignal body -/
def fsApply (s : State) (t : Tid) (th : Thread) (fs : Nat) (entryOfPc : Nat → List Frame) {L R : Type} (x : Pool × GStep L R) : State :=
  setThread (setPool s x.1) t (th.cont (fsFrames fs entryOfPc x.2))

/-- the only return address inside a FastSignal body: the re-check of `reset()` -/
def fsResetPc (fs : Nat) : Nat → List Frame
  | 1 => [.fRstLoad fs]
  | _ => []

theorem fastsignal_set_is_translated (s : State) (t : Tid) (th : Thread) (fs : Nat) (p : Pool) (hp : s.pool = some p) :
    (stepFrame s t th (.fSet fs)).1 = fsApply s t th fs (fun _ => []) (fsSetStep fs p 0 {}) := by
  simp only [stepFrame, hp, fsApply, fsSetStep, if_true]
  by_cases h : fsState p fs = 0 <;> simp [h, fsFrames, fsCallee]

theorem fastsignal_reset_is_translated (s : State) (t : Tid) (th : Thread) (fs : Nat) (p : Pool) (hp : s.pool = some p)
    (hrep : s.cfg.repaired = true) :
    (stepFrame s t th (.fRst fs)).1 = fsApply s t th fs (fsResetPc fs) (fsResetStep fs p 0 {}) := by
  simp [stepFrame, hp, fsApply, fsResetStep, hrep, fsFrames, fsResetPc, fsCallee]

theorem fastsignal_reset_recheck_is_translated (s : State) (t : Tid) (th : Thread) (fs : Nat) (p : Pool) (hp : s.pool = some p) :
    (stepFrame s t th (.fRstLoad fs)).1 = fsApply s t th fs (fsResetPc fs) (fsResetStep fs p 1 {}) := by
  simp only [stepFrame, hp, fsApply, fsResetStep]
  by_cases h : fsState p fs = 0 <;> simp [h, fsFrames, fsCallee, setPool, hp] <;> (cases s; simp_all)

theorem fastsignal_wait_is_translated (s : State) (t : Tid) (th : Thread) (fs : Nat) (p : Pool) (hp : s.pool = some p) :
    (stepFrame s t th (.fWait fs)).1 = fsApply s t th fs (fun _ => []) (fsWaitStep fs p 0 {}) := by
  simp only [stepFrame, hp, fsApply, fsWaitStep]
  by_cases h : fsState p fs = 0 <;> simp [h, fsFrames, fsCallee, setPool, hp] <;> (cases s; simp_all)

/-! ## constructors -/

/-- the queue the constructor builds (slots' tickets, `_head`, `_tail`; no payload constructed) is the model's `Ring.init` -/
theorem queue_ctor_is_ring_init {α : Type} (cap : Nat) :
    (Ring.init cap : Ring α) =
      { cap := cap, head := queueCtorHead, tail := queueCtorTail, slots := queueCtorSlot α, pushLog := [], popLog := [] } := rfl

/-- **`queue_ctor_capacity_is_ceilPow2`** — the capacity computed by the constructor's bit smearing (`mask = capacity - 1; mask |= mask >> 1;
    … >> 16; _capacity = mask + 1`) is the model's `ceilPow2`, for EVERY requested size 1 … 2^32 (`Smeared`, GenLemmas.lean: every
    smearing step doubles the window of bits below the top bit that are set).  (Size 0 wraps in the C++ code — `_capacity` becomes 0 —
    and is outside: the pool never asks for it.) -/
theorem queue_ctor_capacity_is_ceilPow2 (q : Nat) (h1 : 1 ≤ q) (h2 : q ≤ 2 ^ 32) : queueCtorCapacity q = ceilPow2 q := by
  have e : queueCtorCapacity q = smear5 (q - 1) + 1 := rfl
  rw [e, smeared_is_ceilPow2 (smear5_smeared (q - 1)) (by omega)]
  congr 1
  omega

/-- `new ThreadPool(min, max, q)`: member initialisers and the `_maxThreads < 3` clamp are the model's `mkPool` -/
theorem pool_ctor_is_mkPool (q mn mx : Nat) : mkPool q mn mx = poolCtor mn mx q := by
  simp only [mkPool, poolCtor, poolCtorMaxThreads]

/-- the pool `startProc` creates lazily is the constructor with its default arguments on a machine reporting 4 processors (what the
    harness reports to the library; request option `ncpu`) -/
theorem lazy_pool_is_default_ctor : mkPool 0x100 0 4 = poolCtorDefault 4 := by
  simp only [poolCtorDefault, pool_ctor_is_mkPool]

/-! ## `ThreadContext::proc` — the worker loop -/

/-- frames of the model that only push a call and its return address (no access, no decision): expanding them gives the translator's
    convention "consecutive calls are one entry" (`stepFrame` of these frames does exactly this push: `worker_call_sites`) -/
def expandW : Frame → List Frame
  | .wPop1 => [.ring .popRead, .wChk1]
  | .wPop2 => [.ring .popRead, .wChk2]
  | .wDeq => [.fSet 1, .wDispatch]
  | f => [f]

/-- first frame of a callee of the worker loop (`c` = the call record of the popped job) -/
def calleeW (retJob : Job) : Callee → List Frame
  | .pop => [.ring .popRead]
  | .fsSetEnq => [.fSet 0]
  | .fsResetEnq => [.fRst 0]
  | .fsWaitEnq => [.fWait 0]
  | .fsSetDeq => [.fSet 1]
  | .jobProc => (match retJob with | some c => [.pCall c] | none => [])
  | _ => []

/-- the frame of a return address inside the worker loop -/
def workerPc : Nat → List Frame
  | 1 => [.wChk1]
  | 2 => [.wChk2]
  | 3 => [.wDispatch]
  | 4 => [.wAdd]
  | 5 => [.wTerm]
  | _ => []

/-- frames a translated step of the worker loop leaves on the stack (`return` = the thread function ends: `tExit`) -/
def workerFrames (retJob : Job) {L R : Type} : GStep L R → List Frame
  | .ret _ _ => [.tExit]
  | .goto n _ => workerPc n
  | .call cs nx _ => cs.flatMap (calleeW retJob) ++ (match nx with | some n => workerPc n | none => [.tExit])
  | .stuck => []

theorem worker_call_sites (s : State) (t : Tid) (th : Thread) :
    (stepFrame s t th .wPop1).1 = setThread s t (th.cont (expandW .wPop1)) ∧
    (stepFrame s t th .wPop2).1 = setThread s t (th.cont (expandW .wPop2)) ∧
    (stepFrame s t th .wDeq).1 = setThread s t (th.cont (expandW .wDeq)) := by
  simp [stepFrame, expandW]

/-- **`worker_loop_is_translated`** — every decision and access frame of the worker loop (`wPop1` = entry, `wChk1`, `wChk2`, `wDispatch`,
    `wAdd`, `wTerm`) is the translated micro-step with the same number: same pool afterwards, and the frames it pushes are, after
    expanding the model's call-site frames, the calls and the return address of the translated step. -/
theorem worker_loop_is_translated (s : State) (t : Tid) (th : Thread) (p : Pool) (hp : s.pool = some p) (hrep : s.cfg.repaired = true)
    (L : WorkerL) :
    -- entry: `while (!queue.pop(job))`
    (expandW .wPop1 = workerFrames th.retJob (workerStep t th.retB th.retJob p 0 L).2) ∧
    -- the two tests of pop's result
    ((stepFrame s t th .wChk1).1.threads t =
        some (th.cont (if th.retB then [.wDeq] else [.fRst 0, .wPop2])) ∧
      (if th.retB then [Frame.wDeq] else [.fRst 0, .wPop2]).flatMap expandW =
        workerFrames th.retJob (workerStep t th.retB th.retJob p 1 L).2) ∧
    ((stepFrame s t th .wChk2).1.threads t =
        some (th.cont (if th.retB then [.wDeq] else [.fWait 0, .wPop1])) ∧
      (if th.retB then [Frame.wDeq] else [.fWait 0, .wPop1]).flatMap expandW =
        workerFrames th.retJob (workerStep t th.retB th.retJob p 2 L).2) ∧
    -- `if (job.proc)`: run the call and count it, or pass the wake-up on and leave
    ((stepFrame s t th .wDispatch).1.threads t =
        some (th.cont (workerFrames th.retJob (workerStep t th.retB th.retJob p 3 L).2)) ∧
      (stepFrame s t th .wDispatch).1.pool = some (workerStep t th.retB th.retJob p 3 L).1) ∧
    -- `Atomic::increment(_pool->_processedJobs)` and back to the head of the loop
    ((stepFrame s t th .wAdd).1.pool = some (workerStep t th.retB th.retJob p 4 L).1 ∧
      (stepFrame s t th .wAdd).1.threads t = some (th.cont [.wPop1]) ∧
      expandW .wPop1 = workerFrames th.retJob (workerStep t th.retB th.retJob p 4 L).2) ∧
    -- `_terminated = true; return 0;`
    ((stepFrame s t th .wTerm).1.pool = some (workerStep t th.retB th.retJob p 5 L).1 ∧
      (stepFrame s t th .wTerm).1.threads t = some (th.cont (workerFrames th.retJob (workerStep t th.retB th.retJob p 5 L).2))) := by
  refine ⟨?_, ⟨?_, ?_⟩, ⟨?_, ?_⟩, ⟨?_, ?_⟩, ⟨?_, ?_, ?_⟩, ⟨?_, ?_⟩⟩
  · simp [expandW, workerFrames, workerStep, calleeW, workerPc]
  · cases h : th.retB <;> simp [stepFrame, h, setThread, upd]
  · cases h : th.retB <;> simp [h, expandW, workerFrames, workerStep, calleeW, workerPc]
  · cases h : th.retB <;> simp [stepFrame, h, setThread, upd]
  · cases h : th.retB <;> simp [h, expandW, workerFrames, workerStep, calleeW, workerPc]
  · cases h : th.retJob <;> simp [stepFrame, h, hrep, setThread, upd, workerFrames, workerStep, calleeW, workerPc]
  · cases h : th.retJob <;> simp [stepFrame, h, hp, setThread, upd, workerStep]
  · simp [stepFrame, hp, setThread, setPool, upd, workerStep]
  · simp [stepFrame, hp, setThread, setPool, upd]
  · simp [expandW, workerFrames, workerStep, calleeW, workerPc]
  · simp [stepFrame, hp, setThread, setPool, upd, workerStep]
  · simp [stepFrame, hp, setThread, setPool, upd, workerFrames, workerStep]

/-! ## `ThreadPool::run` — the push loop with back-pressure and the three counter accesses -/

/-- call-site frames of the push loop (they only push a call and its return address: `run_call_sites`) -/
def expandR : Frame → List Frame
  | .runStart j => [.ring (.pushRead j), .runChk1 j]
  | .runPush2 j => [.ring (.pushRead j), .runChk2 j]
  | .runSet => [.fSet 0, .runAdd]
  | f => [f]

def calleeR (j : Job) : Callee → List Frame
  | .push => [.ring (.pushRead j)]
  | .fsSetEnq => [.fSet 0]
  | .fsResetDeq => [.fRst 1]
  | .fsWaitDeq => [.fWait 1]
  | _ => []

/-- the frame of a return address / shared access inside the translated prefix of `run()` (`pj` = the value the increment returned,
    `busy` = the busy count computed at the second read: the locals the model carries in its frames) -/
def runPc (j : Job) (pj : Nat) (busy : Int) : Nat → List Frame
  | 1 => [.runChk1 j]
  | 2 => [.runChk2 j]
  | 3 => [.runAdd]
  | 4 => [.runRdProc pj]
  | 5 => [.runRdTc busy]
  | _ => []

def runFrames (j : Job) (pj : Nat) (busy : Int) {L R : Type} : GStep L R → List Frame
  | .ret _ _ => []
  | .goto n _ => runPc j pj busy n
  | .call cs nx _ => cs.flatMap (calleeR j) ++ (match nx with | some n => runPc j pj busy n | none => [])
  | .stuck => []

theorem run_call_sites (s : State) (t : Tid) (th : Thread) (j : Job) :
    (stepFrame s t th (.runStart j)).1 = setThread s t (th.cont (expandR (.runStart j))) ∧
    (stepFrame s t th (.runPush2 j)).1 = setThread s t (th.cont (expandR (.runPush2 j))) ∧
    (stepFrame s t th .runSet).1 = setThread s t (th.cont (expandR .runSet)) := by
  simp [stepFrame, expandR]

/-- **`run_push_loop_is_translated`** — the frames of the first half of `ThreadPool::run` (`runStart` = entry, `runChk1`, `runChk2`: the
    push loop with back-pressure; `runAdd`, `runRdProc`: the increment of `_pushedJobs` and the read of `_processedJobs`) are the
    translated micro-steps with the same numbers: same pool afterwards, and the frames pushed are (after expanding the model's call-site
    frames) the calls and the return address of the translated step.  (The third read, `_threadCount`, and the decision after it:
    `run_decision_is_translated`.) -/
theorem run_push_loop_is_translated (s : State) (t : Tid) (th : Thread) (p : Pool) (hp : s.pool = some p) (j : Job) (pj : Nat)
    (L : RunPrefixL) :
    (expandR (.runStart j) = runFrames j pj 0 (runPrefixStep th.retB p 0 L).2) ∧
    ((stepFrame s t th (.runChk1 j)).1.threads t = some (th.cont (if th.retB then [.runSet] else [.fRst 1, .runPush2 j])) ∧
      (if th.retB then [Frame.runSet] else [.fRst 1, .runPush2 j]).flatMap expandR = runFrames j pj 0 (runPrefixStep th.retB p 1 L).2) ∧
    ((stepFrame s t th (.runChk2 j)).1.threads t = some (th.cont (if th.retB then [.runSet] else [.fWait 1, .runStart j])) ∧
      (if th.retB then [Frame.runSet] else [.fWait 1, .runStart j]).flatMap expandR = runFrames j pj 0 (runPrefixStep th.retB p 2 L).2) ∧
    ((stepFrame s t th .runAdd).1.pool = some (runPrefixStep th.retB p 3 L).1 ∧
      (stepFrame s t th .runAdd).1.threads t = some (th.cont (runFrames j (p.pushed + 1) 0 (runPrefixStep th.retB p 3 L).2))) ∧
    ((stepFrame s t th (.runRdProc pj)).1.pool = some (runPrefixStep th.retB p 4 L).1 ∧
      (stepFrame s t th (.runRdProc pj)).1.threads t =
        some (th.cont (runFrames j pj ((pj : Int) - p.processed) (runPrefixStep th.retB p 4 L).2))) ∧
    (∃ L', runPrefixStep th.retB p 5 L = (p, .ret () L')) := by
  refine ⟨?_, ⟨?_, ?_⟩, ⟨?_, ?_⟩, ⟨?_, ?_⟩, ⟨?_, ?_⟩, ?_⟩
  · simp [expandR, runFrames, runPrefixStep, calleeR, runPc]
  · cases h : th.retB <;> simp [stepFrame, h, setThread, upd]
  · cases h : th.retB <;> simp [h, expandR, runFrames, runPrefixStep, calleeR, runPc]
  · cases h : th.retB <;> simp [stepFrame, h, setThread, upd]
  · cases h : th.retB <;> simp [h, expandR, runFrames, runPrefixStep, calleeR, runPc]
  · simp [stepFrame, hp, setThread, setPool, upd, runPrefixStep]
  · simp [stepFrame, hp, setThread, setPool, upd, runPrefixStep, runFrames, runPc]
  · simp [stepFrame, hp, setThread, setPool, upd, runPrefixStep]
  · simp [stepFrame, hp, setThread, setPool, upd, runPrefixStep, runFrames, runPc]
  · simp only [runPrefixStep]
    exact ⟨_, rfl⟩

/-! ## `ThreadPool::run`: the worker-count decision -/

theorem ite_eq_of_pos {α : Type} {c : Prop} [Decidable c] {a b x : α} (hc : c) (h : a = x) : (if c then a else b) = x := by
  rw [if_pos hc]; exact h
theorem ite_eq_of_neg {α : Type} {c : Prop} [Decidable c] {a b x : α} (hc : ¬ c) (h : b = x) : (if c then a else b) = x := by
  rw [if_neg hc]; exact h

/-- evaluates the translated decision tree in a context that fixes the model's branch: every condition of the tree (whatever its
    syntactic form: `<= 0` or `< 1`, signed or wrapped unsigned intermediate values, nested or early-return shape) is decided by `omega`
    from the bounds and the model's condition -/
macro "run_tree_tac" : tactic => `(tactic| (
  simp only [runTree, wrapU, toS]
  repeat' (first
    | (refine ite_eq_of_pos (by (try simp only [U64, S63]); omega) ?_)
    | (refine ite_eq_of_neg (by (try simp only [U64, S63]); omega) ?_)
    | rfl)))

/-- **`run_decision_is_translated`** — the branch the model takes after `run()` has read `_processedJobs` and `_threadCount`
    (`runRdTc` with the busy count the model computed from the two values read before) IS the decision tree obtained from the current
    source by symbolic execution, with the source's own `usize`/`ssize` wrap-around arithmetic, for all counter values below 2^62. -/
theorem run_decision_is_translated (s : State) (t : Tid) (th : Thread) (pj processed : Nat) (p : Pool) (hp : s.pool = some p)
    (h1 : pj < 4611686018427387904) (h2 : processed < 4611686018427387904) (h3 : p.threadCount < 4611686018427387904)
    (h4 : p.minT < 4611686018427387904) (h5 : p.maxT < 4611686018427387904) :
    ∃ fs, (stepFrame s t th (.runRdTc ((pj : Int) - processed))).1 = setThread s t (th.cont fs) ∧
      ((fs = [.runClk1] ∧ runTree pj processed p.threadCount p.minT p.maxT = .done [.clockStore]) ∨
       (fs = [.runClk2 p.threadCount] ∧ runTree pj processed p.threadCount p.minT p.maxT =
          (if p.threadCount < p.maxT then .done [.clockStore, .spawn] else .done [.clockStore])) ∨
       (fs = [.runClk3] ∧ runTree pj processed p.threadCount p.minT p.maxT = .clock (.done [.retire]) (.done [])) ∨
       (fs = [] ∧ runTree pj processed p.threadCount p.minT p.maxT = .done [])) := by
  simp only [stepFrame, hp]
  by_cases c1 : (p.threadCount : Int) - ((pj : Int) - processed) = 1
  · refine ⟨[.runClk1], by simp [c1], Or.inl ⟨rfl, ?_⟩⟩
    run_tree_tac
  · by_cases c2 : (p.threadCount : Int) - ((pj : Int) - processed) ≤ 0
    · refine ⟨[.runClk2 p.threadCount], by simp [c1, c2], Or.inr (Or.inl ⟨rfl, ?_⟩)⟩
      by_cases c3 : p.threadCount < p.maxT
      · rw [if_pos c3]; run_tree_tac
      · rw [if_neg c3]; run_tree_tac
    · by_cases c3 : (p.threadCount : Int) - ((pj : Int) - processed) > 1 ∧ p.threadCount > p.minT
      · refine ⟨[.runClk3], by simp [c1, c2, c3], Or.inr (Or.inr (Or.inl ⟨rfl, ?_⟩))⟩
        run_tree_tac
      · refine ⟨[], by simp [c1, c2, c3], Or.inr (Or.inr (Or.inr ⟨rfl, ?_⟩))⟩
        run_tree_tac

/-- the clock comparison of the source is the model's `now - _idleResetTime > 1` -/
theorem run_clock_cond_is_translated (now r : Nat) : runClockCond now r ↔ now - r > 1 := by
  unfold runClockCond; omega

/-- the three clock frames do what `frameOutcome` says: store the clock / compare it, then spawn path, retire path or return -/
theorem run_clock_frames_do_what_the_tree_says (s : State) (t : Tid) (th : Thread) (tc : Nat) (p : Pool) (hp : s.pool = some p) :
    ((stepFrame s t th .runClk1).1.threads t = some (th.cont []) ∧
      (stepFrame s t th .runClk1).1.pool = some { p with idleReset := clockMs s / 1024 }) ∧
    ((stepFrame s t th (.runClk2 tc)).1.threads t = some (th.cont (if tc < p.maxT then [.runSpLock] else [])) ∧
      (stepFrame s t th (.runClk2 tc)).1.pool = some { p with idleReset := clockMs s / 1024 }) ∧
    ((stepFrame s t th .runClk3).1.threads t =
        some (th.cont (if runClockCond (clockMs s / 1024) p.idleReset then [.runRetLock] else [])) ∧
      (stepFrame s t th .runClk3).1.pool = some p) := by
  refine ⟨⟨?_, ?_⟩, ⟨?_, ?_⟩, ⟨?_, ?_⟩⟩
  · simp [stepFrame, hp, setThread, setPool, upd]
  · simp [stepFrame, hp, setThread, setPool, upd]
  · by_cases h : tc < p.maxT <;> simp [stepFrame, hp, h, setThread, setPool, upd]
  · by_cases h : tc < p.maxT <;> simp [stepFrame, hp, h, setThread, setPool, upd]
  · have e := run_clock_cond_is_translated (clockMs s / 1024) p.idleReset
    by_cases h : clockMs s / 1024 - p.idleReset > 1
    · have h' := e.mpr h
      simp [stepFrame, hp, h, h', setThread, upd]
    · have h' := mt e.mp h
      simp [stepFrame, hp, h, h', setThread, upd]
  · by_cases h : clockMs s / 1024 - p.idleReset > 1 <;> simp [stepFrame, hp, h, setThread, upd]

/-- the first of the two reads: the model's busy count is `pushedJobs - _processedJobs` as a signed number -/
theorem run_counters_are_translated (s : State) (t : Tid) (th : Thread) (pj : Nat) (p : Pool) (hp : s.pool = some p) :
    (stepFrame s t th (.runRdProc pj)).1 = setThread s t (th.cont [.runRdTc ((pj : Int) - p.processed)]) := by
  simp [stepFrame, hp]

/-! ## Future.hpp: `Future<void>` members, `Future<void>::set`, `Future<A>` conversion / destructor, the two `proc` templates -/

/-- first frame of a modelled callee, for the Signal / the object of future `f` (the callees of the pool code do not occur here) -/
def calleeFrame (f : Nat) : Callee → List Frame
  | .sigSet => [.sSetLock (f + 2)]
  | .sigReset => [.sRstLock (f + 2)]
  | .sigWait => [.sWaitLock (f + 2)]
  | .futJoin => [.join f]
  | _ => []

/-- frames a translated step of a member of future `f` leaves on the stack (`retOfPc` = the frame of a return address inside the body) -/
def futFrames (f : Nat) (retOfPc : Nat → List Frame) {L R : Type} : GStep L R → List Frame
  | .ret _ _ => []
  | .goto n _ => retOfPc n
  | .call fs nx _ => fs.flatMap (calleeFrame f) ++ (match nx with | some n => retOfPc n | none => [])
  | .stuck => []

/-- value returned by a translated step -/
def retVal {L R : Type} (d : R) : GStep L R → R
  | .ret v _ => v
  | _ => d

theorem fut_ctor_is_default : futCtor = ({} : Fut) := rfl

theorem state_enum_is_translated : state_idleState = 0 ∧ state_finishedState = 2 ∧ state_abortedState = 3 := ⟨rfl, rfl, rfl⟩

/-- `join()`: the frame `join f` is the first translated micro-step (test of `_joinable`, then `_sig.wait(); _sig.reset();`, return
    address = the store), the frame `joinClr f` the second (`_joinable = false`) -/
theorem join_is_translated (s : State) (t : Tid) (th : Thread) (f : Nat) :
    (futJoinStep (s.futs f) 0 {}).1 = s.futs f ∧
    (stepFrame s t th (.join f)).1 =
      setThread s t (th.cont (futFrames f (fun n => if n = 1 then [.joinClr f] else []) (futJoinStep (s.futs f) 0 {}).2)) := by
  simp only [stepFrame, futJoinStep]
  by_cases h : (s.futs f).joinable = true <;> simp [h, futFrames, calleeFrame]

theorem join_clear_is_translated (s : State) (t : Tid) (th : Thread) (f : Nat) (L : FutJoinL) :
    (stepFrame s t th (.joinClr f)).1 =
      setThread (setFut s f (futJoinStep (s.futs f) 1 L).1) t (th.cont (futFrames f (fun _ => []) (futJoinStep (s.futs f) 1 L).2)) := by
  simp [stepFrame, futJoinStep, futFrames]

/-- `abort()`: the client op stores `_aborting = true` (and sets the ghost `abortReq`) -/
theorem abort_is_translated (s : State) (t : Tid) (th : Thread) (f : Nat) (rest : List ClientOp) (hs : th.script = .abort f :: rest) :
    (stepFrame s t th .cNext).1.futs f = { (futAbortStep (s.futs f) 0 {}).1 with abortReq := true } := by
  simp [stepFrame, hs, futAbortStep, setThread, setFut, upd]

/-- `isAborting() / isFinished() / isAborted()` as the `query` op of the model prints them -/
theorem flags_are_translated (s : State) (t : Tid) (th : Thread) (f : Nat) (rest : List ClientOp) (hs : th.script = .query f :: rest) :
    (stepFrame s t th .cNext).2 =
      [s!"E {t} query {futName f} aborted={if retVal false (futIsAbortedStep (s.futs f) 0 {}).2 then 1 else 0} finished={if retVal false (futIsFinishedStep (s.futs f) 0 {}).2 then 1 else 0} aborting={if retVal false (futIsAbortingStep (s.futs f) 0 {}).2 then 1 else 0}"] := by
  simp only [stepFrame, hs, futIsAbortedStep, futIsFinishedStep, futIsAbortingStep, retVal, if_true]
  by_cases h3 : (s.futs f).state = 3 <;> by_cases h2 : (s.futs f).state = 2 <;> cases ha : (s.futs f).aborting <;> simp [h3, h2, ha]

/-- `~Future()` = `join()` and then the members die (`destroyF`): the `destroy` op and the end of a client -/
theorem destructor_is_translated (s : State) (t : Tid) (th : Thread) (f : Nat) (rest : List ClientOp) (hs : th.script = .destroy f :: rest) :
    (stepFrame s t th .cNext).1.threads t =
      some ({ th with script := rest }.cont (futFrames f (fun _ => []) (futDtorStep (s.futs f) 0 {}).2 ++ [Frame.destroyF f, Frame.cNext])) ∧
    (futADtorStep (s.futs f) 0 {}).2 = .call [.futJoin] none {} := by
  simp [stepFrame, hs, futDtorStep, futADtorStep, futFrames, calleeFrame, setThread, upd]

/-- `Future<void>::set()`: `pSetRd` reads `_aborting` (first micro-step; the value read travels in the locals `L1` resp. in the frame
    `pSetX c ab`), `pSetX` — in any later state `s'` — exchanges `_state` with the enumerator chosen by that value (second micro-step),
    then `_sig.set()` (frame `pSig` pushes it, and below it the `delete` of `proc`) -/
theorem set_is_translated (s : State) (t : Tid) (th : Thread) (c : Nat) (r : CallRec) (hc : s.calls c = some r) :
    match futSetStep (s.futs r.fut) 0 {} with
    | (x', .goto 1 L1) =>
        x' = s.futs r.fut ∧
        (stepFrame s t th (.pSetRd c)).1 = setThread s t (th.cont [.pSetX c (s.futs r.fut).aborting]) ∧
        (∀ (s' : State) (th' : Thread), s'.calls c = some r →
          (stepFrame s' t th' (.pSetX c (s.futs r.fut).aborting)).1.futs r.fut = (futSetStep (s'.futs r.fut) 1 L1).1 ∧
          (stepFrame s' t th' (.pSetX c (s.futs r.fut).aborting)).1.threads t = some (th'.cont [.pSig c]) ∧
          (stepFrame s' t th' (.pSig c)).1 =
            setThread s' t (th'.cont (futFrames r.fut (fun _ => []) (futSetStep (s'.futs r.fut) 1 L1).2 ++ [.pDelete c])))
    | _ => False := by
  simp only [futSetStep, if_true]
  refine ⟨trivial, by simp [stepFrame, hc], ?_⟩
  intro s' th' hc'
  cases hab : (s.futs r.fut).aborting <;>
    simp [stepFrame, hc', futSetStep, futFrames, calleeFrame, setThread, setFut, upd]

/-- `Future<A>::operator const A&`: `future.join()` and then the read of `result` (frame `evResult`) -/
theorem result_conversion_is_translated (s : State) (t : Tid) (th : Thread) (f : Nat) (rest : List ClientOp) (hs : th.script = .result f :: rest) :
    (stepFrame s t th .cNext).1.threads t =
      some ({ th with script := rest }.cont
        (futFrames f (fun n => if n = 1 then [.evResult f] else []) (futAResultStep (s.futs f) 0 {}).2 ++ [Frame.cNext])) ∧
    (stepFrame s t th (.evResult f)).2 =
      [s!"E {t} result {futName f} {match retVal none (futAResultStep (s.futs f) 1 {}).2 with | some v => toString v | none => "unset"}"] := by
  refine ⟨by simp [stepFrame, hs, futAResultStep, futFrames, calleeFrame, setThread, upd], ?_⟩
  simp only [stepFrame, futAResultStep, retVal]
  cases (s.futs f).result <;> simp

/-- the order of the actions of the two `proc` templates: body (with the result store for `Future<A>`), `set()`, `delete` — and the
    model's frames follow it: `pBody → pStore` (stores `result` for the futures `f0…f7` = `Future<A>`, nothing for `g0…g7` =
    `Future<void>`) `→ pSetRd` (= `set()`, above) `… pSig → pDelete` -/
theorem proc_order_is_translated (s : State) (t : Tid) (th : Thread) (c : Nat) (r : CallRec) (hc : s.calls c = some r) :
    procA = [.bodyIntoResult, .set, .deleteRecord] ∧ procVoid = [.body, .set, .deleteRecord] ∧
    (stepFrame s t th (.pCall c)).1.threads t = some (th.cont [.pBody c]) ∧
    (stepFrame s t th (.pBody c)).1 = setThread s t (th.cont [.pStore c]) ∧
    (stepFrame s t th (.pStore c)).1.threads t = some (th.cont [.pSetRd c]) ∧
    ((stepFrame s t th (.pStore c)).1.futs r.fut).result = (if r.fut < 8 then some (r.a * 100 + r.b) else (s.futs r.fut).result) ∧
    (stepFrame s t th (.pDelete c)).1.calls c = none := by
  refine ⟨rfl, rfl, ?_, ?_, ?_, ?_, ?_⟩
  · simp [stepFrame, hc, setThread, upd]
  · simp [stepFrame, hc]
  · by_cases h : r.fut < 8 <;> simp [stepFrame, hc, h, setThread, setFut, upd]
  · by_cases h : r.fut < 8 <;> simp [stepFrame, hc, h, setThread, setFut, upd]
  · simp [stepFrame, hc, setThread, upd]

/-- **C10, last sentence, in terms of the TRANSLATED `isFinished()` / `isAborted()`**: in every reachable state of a well-formed
    configuration, once `join()` has returned for the current call of `f`, exactly one of the two translated query functions answers
    `true`, and `isAborted()` does so only if `abort()` was requested since the start (`abortReq`; as a history predicate:
    `flags_after_join_across_restarts`, PropsRestart.lean). -/
theorem flags_after_join_translated {cfg : Config} {s : State} (hwf : cfg.WellFormed) (h : Reach cfg s) {f c : Nat}
    (hj : (s.futs f).joinable = false) (hc : (s.futs f).curCall = some c) :
    ((retVal false (futIsFinishedStep (s.futs f) 0 {}).2 = true ∧ retVal false (futIsAbortedStep (s.futs f) 0 {}).2 = false) ∨
     (retVal false (futIsFinishedStep (s.futs f) 0 {}).2 = false ∧ retVal false (futIsAbortedStep (s.futs f) 0 {}).2 = true)) ∧
    (retVal false (futIsAbortedStep (s.futs f) 0 {}).2 = true → (s.futs f).abortReq = true) := by
  obtain ⟨h1, h2⟩ := Nstd.Future.state_after_join hwf h hj hc
  simp only [futIsFinishedStep, futIsAbortedStep, retVal, if_true]
  rcases h1 with h1 | h1
  · simp [h1]
  · simp [h1, h2 h1]

/-! ## `Future<void>::startProc` — lazily created pool under the spin lock, `join()`, arming, `run` -/

/-- the part of the model state `startProc` of future `f` works on -/
def toStart (s : State) (f : Nat) : StartSt :=
  { tp := if s.tp then 1 else 0, tplock := s.tplock, created := false, fut := s.futs f }

/-- the frame of a program counter of the translated `startProc` for call record `c` (future `f`); `cJoin c` is the model's call-site
    frame of `join()` with the return address `cArm c` (pc 5) -/
def startPc (c : Nat) : Nat → List Frame
  | 1 => [.cSpin c]
  | 2 => [.cRdTp2 c]
  | 3 => [.cSwapTp c]
  | 4 => [.cUnlockTp c]
  | _ => []

/-- frames a translated step of `startProc` leaves (`join()` with return address 5 = the model's `cJoin c`; `run` = `runStart`) -/
def startFrames (c : Nat) {L R : Type} : GStep L R → List Frame
  | .goto n _ => startPc c n
  | .call [.futJoin] (some 5) _ => [.cJoin c]
  | .call [.poolRun] none _ => [.runStart (some c)]
  | _ => []

theorem start_call_site (s : State) (t : Tid) (th : Thread) (c : Nat) (r : CallRec) (hc : s.calls c = some r) :
    (stepFrame s t th (.cJoin c)).1 = setThread s t (th.cont [.join r.fut, .cArm c]) := by
  simp [stepFrame, hc]

/-- **`start_proc_is_translated`** — the frames `cRdTp, cSpin, cRdTp2, cSwapTp, cUnlockTp` are the translated micro-steps 0–4 (same
    `_threadPool` / `_threadPoolLock` afterwards, a pool is constructed exactly when the translated step says so, same next frame), and
    `cArm` is the composition of the two arming stores 5 and 6 (in either order) followed by `threadPool->run(proc, args)`. -/
theorem start_proc_is_translated (s : State) (t : Tid) (th : Thread) (c f : Nat) (L : StartProcL) :
    -- 0: read of `_threadPool`
    ((stepFrame s t th (.cRdTp c)).1.threads t = some (th.cont (startFrames c (startProcStep (toStart s f) 0 L).2)) ∧
      (stepFrame s t th (.cRdTp c)).1.tp = s.tp ∧ (startProcStep (toStart s f) 0 L).1 = toStart s f) ∧
    -- 1: test-and-set of the spin lock
    ((stepFrame s t th (.cSpin c)).1.threads t = some (th.cont (startFrames c (startProcStep (toStart s f) 1 L).2)) ∧
      (stepFrame s t th (.cSpin c)).1.tplock = (startProcStep (toStart s f) 1 L).1.tplock) ∧
    -- 2: second read; the pool is constructed when it is still null
    ((stepFrame s t th (.cRdTp2 c)).1.threads t = some (th.cont (startFrames c (startProcStep (toStart s f) 2 L).2)) ∧
      ((startProcStep (toStart s f) 2 L).1.created = true ↔ s.tp = false) ∧
      (s.tp = false → (stepFrame s t th (.cRdTp2 c)).1.pool = some (mkPool 0x100 0 4))) ∧
    -- 3: publication of the pool (the local holds the new pointer)
    (L.v0 = 1 →
      (stepFrame s t th (.cSwapTp c)).1.threads t = some (th.cont (startFrames c (startProcStep (toStart s f) 3 L).2)) ∧
      (if (stepFrame s t th (.cSwapTp c)).1.tp then 1 else 0) = (startProcStep (toStart s f) 3 L).1.tp) ∧
    -- 4: release of the spin lock, then join()
    ((stepFrame s t th (.cUnlockTp c)).1.threads t = some (th.cont (startFrames c (startProcStep (toStart s f) 4 L).2)) ∧
      (stepFrame s t th (.cUnlockTp c)).1.tplock = (startProcStep (toStart s f) 4 L).1.tplock) ∧
    -- 5, 6: the two arming stores and run()
    (∀ r, s.calls c = some r → r.fut = f →
      match startProcStep (toStart s f) 5 L with
      | (x5, .goto 6 L5) =>
          ((stepFrame s t th (.cArm c)).1.futs f).joinable = (startProcStep x5 6 L5).1.fut.joinable ∧
          ((stepFrame s t th (.cArm c)).1.futs f).aborting = (startProcStep x5 6 L5).1.fut.aborting ∧
          (startProcStep x5 6 L5).1.fut.joinable = true ∧ (startProcStep x5 6 L5).1.fut.aborting = false ∧
          (stepFrame s t th (.cArm c)).1.threads t = some (th.cont (startFrames c (startProcStep x5 6 L5).2))
      | _ => False) := by
  refine ⟨⟨?_, ?_, ?_⟩, ⟨?_, ?_⟩, ⟨?_, ?_, ?_⟩, ?_, ⟨?_, ?_⟩, ?_⟩
  · cases h : s.tp <;> simp [stepFrame, h, toStart, startProcStep, startFrames, startPc, setThread, upd]
  · cases h : s.tp <;> simp [stepFrame, h, setThread]
  · simp [startProcStep]; split <;> rfl
  · by_cases h : s.tplock = 0 <;> simp [stepFrame, h, toStart, startProcStep, startFrames, startPc, setThread, upd]
  · by_cases h : s.tplock = 0 <;> simp [stepFrame, h, toStart, startProcStep, setThread]
  · cases h : s.tp <;> simp [stepFrame, h, toStart, startProcStep, startFrames, startPc, setThread, upd]
  · cases h : s.tp <;> simp [h, toStart, startProcStep]
  · intro h; simp [stepFrame, h, setThread]
  · intro h1
    refine ⟨by simp [stepFrame, toStart, startProcStep, startFrames, startPc, setThread, upd], ?_⟩
    simp [stepFrame, toStart, startProcStep, h1, setThread]
  · simp [stepFrame, toStart, startProcStep, startFrames, startPc, setThread, upd]
  · simp [stepFrame, toStart, startProcStep, setThread]
  · intro r hc hf
    subst hf
    simp [startProcStep, stepFrame, hc, toStart, startFrames, setThread, setFut, upd]

/-! ## `Signal::set / reset / wait()` (src/Signal.cpp, pthread branch) on the frames `sSet* / sRst* / sWait*` -/

/-- the frame of program counter `n` of the translated `Signal::set` on signal `σ` (`gen` = the incarnation ghost the model's broadcast frame carries) -/
def sigSetPc (σ gen : Nat) : Nat → List Frame
  | 1 => [.sSetStore σ]
  | 2 => [.sSetBcast σ gen]
  | 3 => [.sSetUnlock σ]
  | _ => []
def sigResetPc (σ : Nat) : Nat → List Frame
  | 1 => [.sRstStore σ]
  | 2 => [.sRstUnlock σ]
  | _ => []
def sigWaitPc (σ : Nat) : Nat → List Frame
  | 1 => [.sWaitChk σ]
  | 2 => [.sWaitUnlock σ]
  | 3 => [.sWaitCwait σ]
  | 4 => [.sWaitCwake σ]
  | 5 => [.sWaitRelock σ]
  | _ => []

/-- frames a translated step of a Signal member leaves on the stack -/
def sigFrames (pcf : Nat → List Frame) {L R : Type} : GStep L R → List Frame
  | .goto n _ => pcf n
  | _ => []

/-- **`signal_set_is_translated`** — the four frames of `Signal::set` (lock, store of the flag, broadcast, unlock — in this order: the
    repaired code, fixes/sync/0001) are the four translated micro-steps: same Signal afterwards, same next frame. -/
theorem signal_set_is_translated (s : State) (t : Tid) (th : Thread) (σ : Nat) (hrep : s.cfg.repaired = true) (L : SigSetL) :
    ((stepFrame s t th (.sSetLock σ)).1.sigs σ = (sigSetStep t (s.sigs σ) 0 L).1 ∧
      (stepFrame s t th (.sSetLock σ)).1.threads t = some (th.cont (sigFrames (sigSetPc σ (s.sigs σ).gen) (sigSetStep t (s.sigs σ) 0 L).2))) ∧
    ((stepFrame s t th (.sSetStore σ)).1.sigs σ = (sigSetStep t (s.sigs σ) 1 L).1 ∧
      (stepFrame s t th (.sSetStore σ)).1.threads t = some (th.cont (sigFrames (sigSetPc σ (s.sigs σ).gen) (sigSetStep t (s.sigs σ) 1 L).2))) ∧
    (∀ gen, (stepFrame s t th (.sSetBcast σ gen)).1.sigs σ = (sigSetStep t (s.sigs σ) 2 L).1 ∧
      (stepFrame s t th (.sSetBcast σ gen)).1.threads t = some (th.cont (sigFrames (sigSetPc σ gen) (sigSetStep t (s.sigs σ) 2 L).2))) ∧
    ((stepFrame s t th (.sSetUnlock σ)).1.sigs σ = (sigSetStep t (s.sigs σ) 3 L).1 ∧
      (stepFrame s t th (.sSetUnlock σ)).1.threads t = some (th.cont (sigFrames (sigSetPc σ 0) (sigSetStep t (s.sigs σ) 3 L).2))) := by
  refine ⟨⟨?_, ?_⟩, ⟨?_, ?_⟩, fun gen => ⟨?_, ?_⟩, ⟨?_, ?_⟩⟩ <;>
    simp [stepFrame, hrep, sigSetStep, sigFrames, sigSetPc, setThread, setSig, upd]

theorem signal_reset_is_translated (s : State) (t : Tid) (th : Thread) (σ : Nat) (L : SigResetL) :
    ((stepFrame s t th (.sRstLock σ)).1.sigs σ = (sigResetStep t (s.sigs σ) 0 L).1 ∧
      (stepFrame s t th (.sRstLock σ)).1.threads t = some (th.cont (sigFrames (sigResetPc σ) (sigResetStep t (s.sigs σ) 0 L).2))) ∧
    ((stepFrame s t th (.sRstStore σ)).1.sigs σ = (sigResetStep t (s.sigs σ) 1 L).1 ∧
      (stepFrame s t th (.sRstStore σ)).1.threads t = some (th.cont (sigFrames (sigResetPc σ) (sigResetStep t (s.sigs σ) 1 L).2))) ∧
    ((stepFrame s t th (.sRstUnlock σ)).1.sigs σ = (sigResetStep t (s.sigs σ) 2 L).1 ∧
      (stepFrame s t th (.sRstUnlock σ)).1.threads t = some (th.cont (sigFrames (sigResetPc σ) (sigResetStep t (s.sigs σ) 2 L).2))) := by
  refine ⟨⟨?_, ?_⟩, ⟨?_, ?_⟩, ⟨?_, ?_⟩⟩ <;>
    simp [stepFrame, sigResetStep, sigFrames, sigResetPc, setThread, setSig, upd]

/-- **`signal_wait_is_translated`** — `Signal::wait()`: lock; test of the flag (→ unlock and return, or → `pthread_cond_wait` = release +
    enter the wait set, be woken, re-lock, and test again).  The six frames are the six translated micro-steps.  For the wake-up frame the
    Signal is compared only when the wake-up is a regular one (`t` has been removed from the wait set by a broadcast); a spurious wake-up
    is a step of the simulated POSIX layer (it removes `t` from the wait set and consumes the budget), not of the translated code. -/
theorem signal_wait_is_translated (s : State) (t : Tid) (th : Thread) (σ : Nat) (L : SigWaitL) :
    ((stepFrame s t th (.sWaitLock σ)).1.sigs σ = (sigWaitStep t (s.sigs σ) 0 L).1 ∧
      (stepFrame s t th (.sWaitLock σ)).1.threads t = some (th.cont (sigFrames (sigWaitPc σ) (sigWaitStep t (s.sigs σ) 0 L).2))) ∧
    ((stepFrame s t th (.sWaitChk σ)).1.sigs σ = (sigWaitStep t (s.sigs σ) 1 L).1 ∧
      (stepFrame s t th (.sWaitChk σ)).1.threads t = some (th.cont (sigFrames (sigWaitPc σ) (sigWaitStep t (s.sigs σ) 1 L).2))) ∧
    ((stepFrame s t th (.sWaitUnlock σ)).1.sigs σ = (sigWaitStep t (s.sigs σ) 2 L).1 ∧
      (stepFrame s t th (.sWaitUnlock σ)).1.threads t = some (th.cont (sigFrames (sigWaitPc σ) (sigWaitStep t (s.sigs σ) 2 L).2))) ∧
    ((stepFrame s t th (.sWaitCwait σ)).1.sigs σ = (sigWaitStep t (s.sigs σ) 3 L).1 ∧
      (stepFrame s t th (.sWaitCwait σ)).1.threads t = some (th.cont (sigFrames (sigWaitPc σ) (sigWaitStep t (s.sigs σ) 3 L).2))) ∧
    (((s.sigs σ).waiters.contains t = false → (stepFrame s t th (.sWaitCwake σ)).1.sigs σ = (sigWaitStep t (s.sigs σ) 4 L).1) ∧
      (stepFrame s t th (.sWaitCwake σ)).1.threads t = some (th.cont (sigFrames (sigWaitPc σ) (sigWaitStep t (s.sigs σ) 4 L).2))) ∧
    ((stepFrame s t th (.sWaitRelock σ)).1.sigs σ = (sigWaitStep t (s.sigs σ) 5 L).1 ∧
      (stepFrame s t th (.sWaitRelock σ)).1.threads t = some (th.cont (sigFrames (sigWaitPc σ) (sigWaitStep t (s.sigs σ) 5 L).2))) := by
  refine ⟨⟨?_, ?_⟩, ⟨?_, ?_⟩, ⟨?_, ?_⟩, ⟨?_, ?_⟩, ⟨?_, ?_⟩, ⟨?_, ?_⟩⟩
  · simp [stepFrame, sigWaitStep, sigFrames, sigWaitPc, setThread, setSig, upd]
  · simp [stepFrame, sigWaitStep, sigFrames, sigWaitPc, setThread, setSig, upd]
  · cases h : (s.sigs σ).signaled <;> simp [stepFrame, h, sigWaitStep, sigFrames, sigWaitPc, setThread, setSig, upd]
  · cases h : (s.sigs σ).signaled <;> simp [stepFrame, h, sigWaitStep, sigFrames, sigWaitPc, setThread, setSig, upd]
  · simp [stepFrame, sigWaitStep, sigFrames, sigWaitPc, setThread, setSig, upd]
  · simp [stepFrame, sigWaitStep, sigFrames, sigWaitPc, setThread, setSig, upd]
  · simp [stepFrame, sigWaitStep, sigFrames, sigWaitPc, setThread, setSig, upd]
  · simp [stepFrame, sigWaitStep, sigFrames, sigWaitPc, setThread, setSig, upd]
  · intro h
    have h' : ¬ t ∈ (s.sigs σ).waiters := by simpa using h
    simp [stepFrame, h', sigWaitStep, sigFrames, sigWaitPc, setThread, setSig, upd]
  · by_cases h' : t ∈ (s.sigs σ).waiters <;> simp [stepFrame, h', sigWaitStep, sigFrames, sigWaitPc, setThread, setSig, upd]
  · simp [stepFrame, sigWaitStep, sigFrames, sigWaitPc, setThread, setSig, upd]
  · simp [stepFrame, sigWaitStep, sigFrames, sigWaitPc, setThread, setSig, upd]

/-! ## facts that make re-polling and "load before test-and-set" harmless (any re-poll budget; harmless change C10-h5) -/

/-- **`failed_pop_is_pure`** — every micro-step of a `pop()` up to the point where it fails (`popRead`, `popChk`, a losing `popCas`) leaves
    the ring exactly as it was, and once the CAS has been won the pop cannot fail any more: a worker may poll an empty queue any number
    of times (any re-poll budget) without any effect on the queue. -/
theorem failed_pop_is_pure {α : Type} (r : Ring α) :
    (ringStep r (.popRead : RingPc α)).1 = r ∧
    (∀ h, (ringStep r (.popChk h : RingPc α)).1 = r) ∧
    (∀ h, r.head ≠ h → (ringStep r (.popCas h : RingPc α)).1 = r) ∧
    (∀ pc, (ringStep r pc).2 = .popped none → (ringStep r pc).1 = r ∧ ∃ h, pc = .popChk h) ∧
    (∀ h, ∃ pc', (ringStep r (.popData h : RingPc α)).2 = .cont pc') ∧
    (∀ h d, (ringStep r (.popRel h d : RingPc α)).2 = .popped (some d)) := by
  refine ⟨rfl, ?_, ?_, ?_, ?_, ?_⟩
  · intro h; simp only [ringStep]; split <;> rfl
  · intro h hne; simp [ringStep, hne]
  · intro pc hpc
    cases pc <;> simp only [ringStep] at hpc ⊢ <;> (try split at hpc) <;> simp_all
  · intro h; exact ⟨_, rfl⟩
  · intro h d; rfl

/-- **`fastsignal_set_when_already_set_is_a_no_op`** — with `_state` already 1, `FastSignal::set()` changes nothing and does not touch the
    Signal: reading `_state` first and skipping the test-and-set in that case (C10-h5) has the same effect. -/
theorem fastsignal_set_when_already_set_is_a_no_op (fs : Nat) (p : Pool) (L : FsSetL) (h : fsState p fs = 1) :
    (fsSetStep fs p 0 L).1 = p ∧ ∃ L', (fsSetStep fs p 0 L).2 = .ret () L' := by
  constructor
  · simp only [fsSetStep, if_true]
    have : setFsState p fs 1 = p := by
      cases p
      by_cases h0 : fs = 0 <;> simp_all [setFsState, fsState]
    split <;> exact this
  · simp [fsSetStep, h]

/-! ## `LockFreeQueue::size` (not used by the pool; the closed ring system with arbitrary steps of other threads in between) -/

/-- any number of steps of any threads of the ring system -/
inductive RingSteps {α : Type} : RingSys α → RingSys α → Prop where
  | refl (s : RingSys α) : RingSteps s s
  | step {s s' s'' : RingSys α} (t : Nat) (a : RingAct α) : RingSteps s s' → s'.step t a = some s'' → RingSteps s s''

theorem head_mono_step {α : Type} {s s' : RingSys α} {t : Nat} {a : RingAct α} (h : s.step t a = some s') :
    s.ring.head ≤ s'.ring.head := by
  cases a with
  | callPush d =>
    simp only [RingSys.step] at h
    split at h
    · simp only [Option.some.injEq] at h; subst h; simp [RingSys.setPc]
    · cases h
  | callPop =>
    simp only [RingSys.step] at h
    split at h
    · simp only [Option.some.injEq] at h; subst h; simp [RingSys.setPc]
    · cases h
  | step =>
    simp only [RingSys.step] at h
    split at h
    · cases h
    · next pc hpc =>
      cases pc <;> simp only [ringStep] at h <;> (repeat' split at h) <;>
        simp only [Option.some.injEq] at h <;> subst h <;> simp [RingSys.setPc, Ring.setSlot] <;> omega

theorem head_mono {α : Type} {s s' : RingSys α} (h : RingSteps s s') : s.ring.head ≤ s'.ring.head := by
  induction h with
  | refl => exact Nat.le_refl _
  | step t a _ hs ih => exact Nat.le_trans ih (head_mono_step hs)

theorem ringSteps_reach {α : Type} {cap : Nat} {s s' : RingSys α} (hr : RingReach cap s) (h : RingSteps s s') :
    RingReach cap s' := by
  induction h with
  | refl => exact hr
  | step t a _ hs ih => exact RingReach.step t a ih hs

/-- **`size_body_never_underflows`** — the translated `size()` reads `_head` in a reachable state `s` and `_tail` in a later state `s'`
    (any steps of any threads in between): the value it returns is `tail' - head` WITHOUT truncation (`v + head = tail'`: the `usize`
    subtraction cannot wrap, because `_head` is read first and never exceeds `_tail`), and it is at least the number of queued elements
    at the moment of the second read and at most that number plus the pops that happened in between. -/
theorem size_body_never_underflows {α : Type} {cap : Nat} (hc : 0 < cap) {s s' : RingSys α} (hr : RingReach cap s)
    (hsteps : RingSteps s s') (L : SizeL) :
    ∃ L1 L2 v, sizeStep s.ring 0 L = (s.ring, .goto 1 L1) ∧ sizeStep s'.ring 1 L1 = (s'.ring, .ret v L2) ∧
      v + s.ring.head = s'.ring.tail ∧ s'.ring.tail - s'.ring.head ≤ v ∧ v ≤ (s'.ring.tail - s'.ring.head) + (s'.ring.head - s.ring.head) := by
  have hm := head_mono hsteps
  have hle := (ringInv_of_reach hc (ringSteps_reach hr hsteps)).hLeT
  refine ⟨{ L with v0 := s.ring.head }, { L with v0 := s.ring.head, x0 := s'.ring.tail }, s'.ring.tail - s.ring.head, ?_, ?_, ?_, ?_, ?_⟩
  · simp [sizeStep]
  · simp [sizeStep]
  · omega
  · omega
  · omega

/-
OPEN:
  * NOT translated (hand translation in Model.lean, tied by the step-by-step replay only): the effect statements of `ThreadPool::run` after its
    decision (the spawn / retire branches under the mutex, the purge of the context list, `Thread::start` and its failure branch), `~ThreadPool`
    (counted loop over `_threadCount` + iterator loop of joins), of `Signal.cpp` the constructor / destructor / `wait(timeout)`.
  * the semantics the translator gives to the C++ subset (one micro-step per shared access with the thread-local run-on, ring tickets as `Nat`,
    mask arithmetic, `(usize)-1` as `none`, the destructor of the trivially destructible `Job`, `Atomic::*`) is an assumption (MANIFEST note);
    `worker_loop_is_translated` / `run_push_loop_is_translated` compare frames after expanding the model's call-site frames
    (`expandW`, `expandR`: frames that only push a call and its return address).
-/

end Nstd.Future.C10
