/-
  Completion handshake of a Future, part 18: second layer, the steps of the owner of a future
  (`abort`, `cArm`, `joinClr`, `destroyF`) and the dispatcher.
-/
import Nstd.Future.Handshake17
set_option linter.unusedSimpArgs false
set_option linter.unusedVariables false
namespace Nstd.Future

/-- a step that changes the record of future `f0` only, keeps `completed`/`everCalls` and leaves no
    `pSetRd`/`pSetX` frame on top of the stepping thread -/
theorem hs2_owner {s s' : State} {t : Tid} {th' : Thread} (f0 : Nat) (h0 : Inv0 s) (hI : HsInv2 s)
    (hO : Others s s' t) (hth' : s'.threads t = some th')
    (htop : ∀ x, th'.stack.head? = some x → notP x = true)
    (hev : s'.everCalls = s.everCalls) (hcompl : s'.completed = s.completed)
    (hfo : ∀ f, f ≠ f0 → s'.futs f = s.futs f)
    (hA : ∀ c, cur s' f0 = some c → s.completed c = true →
        cur s f0 = some c ∧ (s'.futs f0).state = (s.futs f0).state ∧
        ((s.futs f0).abortReq = true → (s'.futs f0).abortReq = true) ∧ (s'.futs f0).result = (s.futs f0).result)
    (hB : ∀ u x c r, u ≠ t → TopIs s u x → hsPreX c x = true → s.everCalls c = some r → r.fut = f0 →
        (s'.futs f0).result = (s.futs f0).result ∧ ((s.futs f0).abortReq = true → (s'.futs f0).abortReq = true)) :
    HsInv2 s' := by
  have hother : ∀ u x, notP x = false → TopIs s' u x → u ≠ t ∧ TopIs s u x := by
    intro u x hx hti
    rcases top_cases hO hth' hx hti with ⟨_, h1⟩ | h
    · rw [htop x h1] at hx; cases hx
    · exact h
  constructor
  · intro f c hc hcc
    rw [hcompl] at hcc
    by_cases hf : f = f0
    · subst hf
      obtain ⟨h1, h2, h3, _⟩ := hA c hc hcc
      obtain ⟨h4, h5⟩ := hI.st f c h1 hcc
      refine ⟨by rw [h2]; exact h4, fun h => h3 (h5 (by rw [← h2]; exact h))⟩
    · simp only [cur, StOk, hfo f hf] at hc ⊢; exact hI.st f c hc hcc
  · intro f c r hc hcc hr
    rw [hcompl] at hcc; rw [hev] at hr
    by_cases hf : f = f0
    · subst hf
      obtain ⟨h1, _, _, h4⟩ := hA c hc hcc
      obtain ⟨r0, h5, h6⟩ := h0.curLt f c h1
      rw [hr] at h5; injection h5 with h5; subst h5
      have := hI.res f c r h1 hcc hr
      intro h8; rw [h6, h4, ← h6]; exact this h8
    · simp only [cur, hfo f hf] at hc
      obtain ⟨r0, h5, h6⟩ := h0.curLt f c hc
      rw [hr] at h5; injection h5 with h5; subst h5
      have := hI.res f c r hc hcc hr
      intro h8; rw [hfo _ (by rw [h6]; exact hf)]; exact this h8
  · intro u c r hti hr
    rw [hev] at hr
    obtain ⟨hu, h1⟩ := hother u _ rfl hti
    have := hI.topRd u c r h1 hr
    intro h8
    by_cases hf : r.fut = f0
    · rw [hf, (hB u _ c r hu h1 (by simp [hsPreX]) hr hf).1, ← hf]; exact this h8
    · rw [hfo _ hf]; exact this h8
  · intro u c ab r hti hr
    rw [hev] at hr
    obtain ⟨hu, h1⟩ := hother u _ rfl hti
    obtain ⟨h2, h3⟩ := hI.topX u c ab r h1 hr
    by_cases hf : r.fut = f0
    · obtain ⟨h4, h5⟩ := hB u _ c r hu h1 (by simp [hsPreX]) hr hf
      refine ⟨fun h8 => by rw [hf, h4, ← hf]; exact h2 h8, fun h => ?_⟩
      rw [hf]; exact h5 (by rw [← hf]; exact h3 h)
    · refine ⟨fun h8 => by rw [hfo _ hf]; exact h2 h8, fun h => by rw [hfo _ hf]; exact h3 h⟩

section frames
variable {cfg : Config} {s : State} {t : Tid} {th : Thread} {rest : List Frame}

theorem hs2_cArm {c : Nat} (hS : SimInv cfg s) (h0 : Inv0 s) (hX : ExecFacts s) (hH : HsInv s) (hI : HsInv2 s)
    (hth : s.threads t = some th) (hst : th.stack = .cArm c :: rest) :
    HsInv2 (stepFrame s t th (.cArm c)).1 := by
  have hO := others_of_step hS hth hst
  cases hc : s.calls c with
  | none => simp only [stepFrame, hc]; exact hs2_fault _ hI
  | some r =>
    have hevc := h0.callsEv c r hc
    have hrole : Role s t .after r.fut := ⟨_, ⟨th, hth, head_of hst⟩, by simp [roleOf, hevc]⟩
    have hj0 : jn s r.fut = false := hH.top t _ _ hrole
    have hnc : s.completed c = false :=
      hH.c0 c ⟨t, th, .cArm c, hth, by rw [hst]; exact List.mem_cons_self .., by simp [hsPreArm]⟩
    refine hs2_owner (th' := th.cont [.runStart (some c)]) r.fut h0 hI hO ?_ ?_ ?_ ?_ ?_ ?_ ?_
    · simp [stepFrame, setThread, upd_same, hc]
    · intro x hx; simp [Thread.cont, hst] at hx; subst hx; rfl
    · simp [stepFrame, setThread, setFut, hc]
    · simp [stepFrame, setThread, setFut, hc]
    · intro f hf; simp [stepFrame, setThread, setFut, hc, upd, hf]
    · intro c' hc' hcc
      have : cur (stepFrame s t th (.cArm c)).1 r.fut = some c := by
        simp [stepFrame, setThread, setFut, hc, cur, upd]
      rw [this] at hc'; injection hc' with hc'; subst hc'
      rw [hnc] at hcc; cases hcc
    · intro u x c2 r2 hu hti hp hr2 hf
      obtain ⟨⟨_, h1, _⟩, _⟩ := exec_qright h0 hX hH hti hp hr2
      rw [hf, hj0] at h1; cases h1

theorem hs2_joinClr {f : Nat} (hS : SimInv cfg s) (h0 : Inv0 s) (hI : HsInv2 s)
    (hth : s.threads t = some th) (hst : th.stack = .joinClr f :: rest) :
    HsInv2 (stepFrame s t th (.joinClr f)).1 := by
  have hO := others_of_step hS hth hst
  have hch := h0.chain t th hth
  rw [hst, chainOk_cons] at hch
  refine hs2_owner (th' := th.cont []) f h0 hI hO ?_ ?_ ?_ ?_ ?_ ?_ ?_
  · simp [stepFrame, setThread, upd_same]
  · intro x hx; simp [Thread.cont, hst] at hx; rw [hx] at hch; exact relO_notP hch.1
  · simp [stepFrame, setThread, setFut]
  · simp [stepFrame, setThread, setFut]
  · intro f' hf; simp [stepFrame, setThread, setFut, upd, hf]
  · intro c hc _
    refine ⟨?_, ?_, ?_, ?_⟩
    · simpa [stepFrame, setThread, setFut, cur, upd] using hc
    all_goals simp [stepFrame, setThread, setFut, upd]
  · intro u x c2 r2 _ _ _ _ _
    constructor <;> simp [stepFrame, setThread, setFut, upd]

theorem hs2_destroyF {f : Nat} (hS : SimInv cfg s) (h0 : Inv0 s) (hX : ExecFacts s) (hH : HsInv s) (hI : HsInv2 s)
    (hth : s.threads t = some th) (hst : th.stack = .destroyF f :: rest) :
    HsInv2 (stepFrame s t th (.destroyF f)).1 := by
  have hO := others_of_step hS hth hst
  have hrole : Role s t .after f := ⟨_, ⟨th, hth, head_of hst⟩, rfl⟩
  have hj0 : jn s f = false := hH.top t _ _ hrole
  have hch := h0.chain t th hth
  rw [hst, chainOk_cons] at hch
  refine hs2_owner (th' := th.cont []) f h0 hI hO ?_ ?_ ?_ ?_ ?_ ?_ ?_
  · simp [stepFrame, setThread, upd_same]
  · intro x hx; simp [Thread.cont, hst] at hx; rw [hx] at hch; exact relO_notP hch.1
  · simp [stepFrame, setThread, setFut, destroySig, setSig]
  · simp [stepFrame, setThread, setFut, destroySig, setSig]
  · intro f' hf; simp [stepFrame, setThread, setFut, destroySig, setSig, upd, hf]
  · intro c hc _
    have : cur (stepFrame s t th (.destroyF f)).1 f = none := by
      simp [stepFrame, setThread, setFut, destroySig, setSig, cur, upd]
    rw [this] at hc; cases hc
  · intro u x c2 r2 hu hti hp hr2 hf
    obtain ⟨⟨_, h1, _⟩, _⟩ := exec_qright h0 hX hH hti hp hr2
    rw [hf, hj0] at h1; cases h1

theorem hs2_cNext (hS : SimInv cfg s) (h0 : Inv0 s) (hX : ExecFacts s) (hI : HsInv2 s)
    (hth : s.threads t = some th) (hst : th.stack = .cNext :: rest) :
    HsInv2 (stepFrame s t th .cNext).1 := by
  have hO := others_of_step hS hth hst
  cases hs : th.script with
  | nil =>
    refine hs2_same (th' := ({ th with script := [] } : Thread).cont [.cEnd 0]) h0 hX hI hO ?_ ?_ ?_ ?_ ?_
    · simp only [stepFrame, hs]; simp [setThread, upd_same]
    · simp [stepFrame, hs, setThread]
    · simp [stepFrame, hs, setThread]
    · intro c r h; left; simpa [stepFrame, hs, setThread] using h
    · intro x hx; simp [Thread.cont, hst] at hx; subst hx; rfl
  | cons op rest' =>
    cases op with
    | start f a b =>
      refine hs2_same (th' := ({ th with script := rest', used := if th.used.contains f then th.used else th.used ++ [f] } : Thread).cont
        [.cRdTp s.nextCall, .cStarted f a, .cNext]) h0 hX hI hO ?_ ?_ ?_ ?_ ?_
      · simp only [stepFrame, hs]; simp [setThread, upd_same]
      · simp [stepFrame, hs, setThread]
      · simp [stepFrame, hs, setThread]
      · intro c r h
        have hev : (stepFrame s t th .cNext).1.everCalls = upd s.everCalls s.nextCall (some { a := a, b := b, fut := f }) := by
          simp [stepFrame, hs, setThread]
        rw [hev] at h
        by_cases hcn : c = s.nextCall
        · exact Or.inr hcn
        · rw [upd_ne _ _ hcn] at h; exact Or.inl h
      · intro x hx; simp [Thread.cont, hst] at hx; subst hx; rfl
    | join f =>
      refine hs2_same (th' := ({ th with script := rest' } : Thread).cont [.join f, .evJoined f, .cNext]) h0 hX hI hO ?_ ?_ ?_ ?_ ?_
      · simp only [stepFrame, hs]; simp [setThread, upd_same]
      · simp [stepFrame, hs, setThread]
      · simp [stepFrame, hs, setThread]
      · intro c r h; left; simpa [stepFrame, hs, setThread] using h
      · intro x hx; simp [Thread.cont, hst] at hx; subst hx; rfl
    | result f =>
      refine hs2_same (th' := ({ th with script := rest' } : Thread).cont [.join f, .evResult f, .cNext]) h0 hX hI hO ?_ ?_ ?_ ?_ ?_
      · simp only [stepFrame, hs]; simp [setThread, upd_same]
      · simp [stepFrame, hs, setThread]
      · simp [stepFrame, hs, setThread]
      · intro c r h; left; simpa [stepFrame, hs, setThread] using h
      · intro x hx; simp [Thread.cont, hst] at hx; subst hx; rfl
    | destroy f =>
      refine hs2_same (th' := ({ th with script := rest' } : Thread).cont [.join f, .destroyF f, .cNext]) h0 hX hI hO ?_ ?_ ?_ ?_ ?_
      · simp only [stepFrame, hs]; simp [setThread, upd_same]
      · simp [stepFrame, hs, setThread]
      · simp [stepFrame, hs, setThread]
      · intro c r h; left; simpa [stepFrame, hs, setThread] using h
      · intro x hx; simp [Thread.cont, hst] at hx; subst hx; rfl
    | query f =>
      refine hs2_same (th' := ({ th with script := rest' } : Thread).cont [.cNext]) h0 hX hI hO ?_ ?_ ?_ ?_ ?_
      · simp only [stepFrame, hs]; simp [setThread, upd_same]
      · simp [stepFrame, hs, setThread]
      · simp [stepFrame, hs, setThread]
      · intro c r h; left; simpa [stepFrame, hs, setThread] using h
      · intro x hx; simp [Thread.cont, hst] at hx; subst hx; rfl
    | abort f =>
      refine hs2_owner (th' := ({ th with script := rest' } : Thread).cont [.cNext]) f h0 hI hO ?_ ?_ ?_ ?_ ?_ ?_ ?_
      · simp only [stepFrame, hs]; simp [setThread, upd_same]
      · intro x hx; simp [Thread.cont, hst] at hx; subst hx; rfl
      · simp [stepFrame, hs, setThread, setFut]
      · simp [stepFrame, hs, setThread, setFut]
      · intro f' hf; simp [stepFrame, hs, setThread, setFut, upd, hf]
      · intro c hc _
        refine ⟨?_, ?_, ?_, ?_⟩
        · simpa [stepFrame, hs, setThread, setFut, cur, upd] using hc
        all_goals simp [stepFrame, hs, setThread, setFut, upd]
      · intro u x c2 r2 _ _ _ _ _
        constructor <;> simp [stepFrame, hs, setThread, setFut, upd]

end frames

end Nstd.Future
