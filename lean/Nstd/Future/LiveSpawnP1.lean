/-
  FIFO potential of a queued ticket (`spPot`), part 1: base frames carry no O-weight, the O-weight is bounded by the
  counters `lsM2`/`lsRA` of LiveShutdown5, the count across one `push`/`pop` micro-step (`spp_ring_pure`) and the effect
  of one micro-step of a frame other than a `push`/`pop` frame on the O-weight (`sppShape1/2/3`).
-/
import Nstd.Future.LiveSpawn1
set_option linter.unusedSimpArgs false
set_option linter.unusedVariables false
namespace Nstd.Future.SPP

open LS SP

/-! ### small facts about the O-weight -/

theorem sppOFr_base (rb : Bool) (ab : Option (RingPc Job)) {f : Frame} (h : lsB f = true) : spOFr rb ab f = 0 := by
  cases f <;> first | rfl | (simp [lsB] at h)

theorem sppOStk_base (rb : Bool) (ab : Option (RingPc Job)) {l : List Frame} (h : LsAllB l) :
    spOStk rb ab l = 0 := by
  induction l generalizing ab with
  | nil => rfl
  | cons a l ih =>
    rw [lsAllB_cons] at h
    simp only [spOStk_cons, sppOFr_base rb ab h.1, ih _ h.2]

theorem sppOFr_ring (rb : Bool) (ab : Option (RingPc Job)) (pc : RingPc Job) : spOFr rb ab (.ring pc) = 0 := rfl

theorem sppCapt_le (rb : Bool) (ab : Option (RingPc Job)) : lsCapt rb ab ≤ 1 := by
  rcases ab with _ | pc
  · simp only [lsCapt]; split <;> omega
  · cases pc <;> simp [lsCapt, lsCaptPc]

theorem sppOFr_le (rb : Bool) (ab : Option (RingPc Job)) (f : Frame) : spOFr rb ab f ≤ lsM2 f + lsRA f := by
  have := sppCapt_le rb ab
  cases f <;> simp only [spOFr, lsM2, lsRA] <;> omega

theorem sppOStk_le (rb : Bool) (ab : Option (RingPc Job)) (l : List Frame) :
    spOStk rb ab l ≤ lsum lsM2 l + lsum lsRA l := by
  induction l generalizing ab with
  | nil => simp
  | cons a l ih =>
    have h1 := sppOFr_le rb ab a
    have h2 := ih (lsRingOf a)
    simp only [spOStk_cons, lsum_cons]; omega

theorem sppOAt_le (s : State) (u : Tid) : spOAt s u ≤ lsM2At s u + lsRaAt s u := by
  simp only [spOAt, lsM2At, lsRaAt]
  cases s.threads u with
  | none => simp [spOVal]
  | some th => exact sppOStk_le _ _ _

/-! ### one ring micro-step -/

set_option maxHeartbeats 4000000 in
theorem spp_ring_pure (r : Ring Job) (pc : RingPc Job) (c : Frame) (rb : Bool) (rj : Job) (x : Nat)
    (hcall : LW.callerOk pc (some c) = true) (hpay : lsePayC pc (some c) = true)
    (hx : x ≤ r.pushLog.length) :
    spOFr (lsAfter rb rj (ringStep r pc).2).1 (lsAfter rb rj (ringStep r pc).2).2.2 c + lsTq x r.pushLog
      ≤ spOFr rb (some pc) c + lsTq x (ringStep r pc).1.pushLog := by
  cases pc
  case pushCas d tk =>
    simp only [ringStep]
    split
    · next heq =>
      simp only [lsAfter, lsTq_push _ _ _ hx]
      cases c <;> simp [LW.callerOk, LW.isPopPc, LW.pushCaller] at hcall <;>
        simp [lsePayC, LW.isPopPc, lsRestr, lsNonePc] at hpay <;>
        simp [spOFr, lsCapt, lsCaptPc, hpay]
      all_goals first | omega | (cases d <;> simp_all <;> omega)
    · simp only [lsAfter]
      cases c <;> simp [LW.callerOk, LW.isPopPc, LW.pushCaller] at hcall <;> simp [spOFr, lsCapt, lsCaptPc]
  case popCas h =>
    simp only [ringStep]
    split
    · simp only [lsAfter]
      cases c <;> simp [LW.callerOk, LW.isPopPc, LW.popCaller] at hcall <;> simp [spOFr]
    · simp only [lsAfter]
      cases c <;> simp [LW.callerOk, LW.isPopPc, LW.popCaller] at hcall <;> simp [spOFr]
  case popRel x d =>
    simp only [ringStep, Ring.setSlot]
    cases c <;> simp [LW.callerOk, LW.isPopPc, LW.popCaller] at hcall <;> simp [spOFr]
  case pushRead d =>
    simp only [ringStep, lsAfter]
    cases c <;> simp [LW.callerOk, LW.isPopPc, LW.pushCaller] at hcall <;> simp [spOFr, lsCapt, lsCaptPc]
  case pushChk d tk =>
    simp only [ringStep]
    split <;> simp only [lsAfter] <;>
      cases c <;> simp [LW.callerOk, LW.isPopPc, LW.pushCaller] at hcall <;> simp [spOFr, lsCapt, lsCaptPc]
  case pushData d tk =>
    simp only [ringStep, lsAfter, Ring.setSlot]
    cases c <;> simp [LW.callerOk, LW.isPopPc, LW.pushCaller] at hcall <;> simp [spOFr, lsCapt, lsCaptPc]
  case pushPub d tk =>
    simp only [ringStep, lsAfter, Ring.setSlot]
    cases c <;> simp [LW.callerOk, LW.isPopPc, LW.pushCaller] at hcall <;> simp [spOFr, lsCapt, lsCaptPc]
  case popRead =>
    simp only [ringStep, lsAfter]
    cases c <;> simp [LW.callerOk, LW.isPopPc, LW.popCaller] at hcall <;> simp [spOFr]
  case popChk h =>
    simp only [ringStep]
    split <;> simp only [lsAfter] <;>
      cases c <;> simp [LW.callerOk, LW.isPopPc, LW.popCaller] at hcall <;> simp [spOFr]
  case popData h =>
    simp only [ringStep, lsAfter, Ring.setSlot]
    cases c <;> simp [LW.callerOk, LW.isPopPc, LW.popCaller] at hcall <;> simp [spOFr]

end Nstd.Future.SPP
