/-
  While a client thread is alive at most one retire job is in flight and the destructor loop has not started:
  the O-weight of all threads together is at most 1 (`spp_O_le_one`).
-/
import Nstd.Future.LiveSpawnP1
import Nstd.Future.Safety8
set_option linter.unusedSimpArgs false
set_option linter.unusedVariables false
namespace Nstd.Future.SPP

open LS SP

theorem sppRA_le_one {l : List Frame} (h : LseCB l) : lsum lsRA l ≤ 1 := by
  induction l with
  | nil => simp
  | cons a l ih =>
    rw [lseCB_cons] at h
    simp only [lsum_cons]
    by_cases ha : 1 ≤ lsRA a
    · have hc : lseC a = true := by cases a <;> first | rfl | (simp [lsRA] at ha)
      have h1 : lsRA a ≤ 1 := by cases a <;> simp [lsRA]
      have := lsRA_base (h.1 hc)
      omega
    · have := ih h.2
      omega

theorem spp_tsum_le_one {n : Nat} {f : Nat → Nat} (h1 : ∀ v, v < n → f v ≤ 1)
    (h2 : ∀ v w, v < n → w < n → v ≠ w → 1 ≤ f v → 1 ≤ f w → False) : tsum n f ≤ 1 := by
  induction n with
  | zero => simp [tsum]
  | succ k ih =>
    simp only [tsum]
    by_cases hk : 1 ≤ f k
    · have hz : tsum k f = 0 := by
        apply tsum_zero_of
        intro u hu
        cases Nat.eq_zero_or_pos (f u) with
        | inl h => exact h
        | inr h => exact (h2 u k (by omega) (by omega) (by omega) h hk).elim
      have := h1 k (by omega)
      omega
    · have := ih (fun v hv => h1 v (by omega)) (fun v w hv hw => h2 v w (by omega) (by omega))
      omega

theorem spp_O_le_one {cfg : Config} {s : State} {p : Pool} (hrep : cfg.repaired = true) (hr : Reach cfg s)
    (hp : s.pool = some p) {u : Tid} {thu : Thread} (hu : s.threads u = some thu) (hf : thu.finished = false)
    (hcl : thu.isWorker = false) (hu0 : u ≠ 0) : tsum s.nthreads (spOAt s) ≤ 1 := by
  have hI := lse_reach hrep hr
  have huc : u ∈ s.clientTids := by
    rcases (Safe.reach_pinv hr).k3 u thu hu with h | h | h
    · exact absurd h hu0
    · exact h
    · rw [hcl] at h; cases h
  have hnall : ¬ AllFin s := by
    intro hall
    obtain ⟨th2, h4, h5⟩ := hall u huc
    rw [hu] at h4; injection h4 with h4; subst h4; rw [hf] at h5; cases h5
  have hm : ∀ v, lsM2At s v = 0 := by
    intro v
    cases Nat.eq_zero_or_pos (lsM2At s v) with
    | inl h => exact h
    | inr h => exact absurd (lse_m2_allfin hr h) hnall
  have hra : ∀ v, lsRaAt s v ≤ 1 := by
    intro v
    simp only [lsRaAt]
    cases hv : s.threads v with
    | none => simp
    | some thv => exact sppRA_le_one (hI.cb v thv hv)
  have hle : ∀ v, spOAt s v ≤ lsRaAt s v := by
    intro v
    have := sppOAt_le s v
    have := hm v
    omega
  apply spp_tsum_le_one
  · intro v _
    have := hle v; have := hra v; omega
  · intro v w _ _ hvw h1 h2
    have h1' : 1 ≤ lsRaAt s v := by have := hle v; omega
    have h2' : 1 ≤ lsRaAt s w := by have := hle w; omega
    cases hv : s.threads v with
    | none => simp [lsRaAt, hv] at h1'
    | some thv =>
      cases hw : s.threads w with
      | none => simp [lsRaAt, hw] at h2'
      | some thw =>
        simp only [lsRaAt, hv] at h1'
        simp only [lsRaAt, hw] at h2'
        have hh1 : holdStack thv.stack = true := by
          rcases pool_marker_unique hr hv with h3 | h3
          · exact h3
          · rw [lsRA_noHold h1'] at h3; cases h3
        have hh2 : holdStack thw.stack = true := by
          rcases pool_marker_unique hr hw with h3 | h3
          · exact h3
          · rw [lsRA_noHold h2'] at h3; cases h3
        exact pool_mutex_exclusive hr hp hvw hv hw hh1 hh2

end Nstd.Future.SPP
