/-
  Completion handshake of a Future, part 21 (third layer): the invariant `HsInv3` (repaired code) and its
  preservation by frames that are not Signal frames of a future signal; the generic lemma for Signal frames.
-/
import Nstd.Future.Handshake20
set_option linter.unusedSimpArgs false
set_option linter.unusedVariables false
namespace Nstd.Future

structure HsInv3 (s : State) : Prop where
  /-- a thread inside the critical section of a future signal holds its mutex -/
  own : ∀ u x σ, 2 ≤ σ → TopIs s u x → critS σ x = true → (s.sigs σ).owner = some u
  /-- while an executor is in `Signal::set` after the store, the future is joinable and its owner has not passed `wait` -/
  post : ∀ u x f, TopIs s u x → isSetPost (f + 2) x = true → jn s f = true ∧ NoPassed s f

theorem role_pr_indep {ev ev' : Nat → Option CallRec} {x : Frame} {f : Nat} :
    (roleOf ev x = some (.passed, f) → roleOf ev' x = some (.passed, f)) ∧
    (roleOf ev x = some (.rstDone, f) → roleOf ev' x = some (.rstDone, f)) := by
  cases x <;> simp only [roleOf] <;>
    first
      | exact ⟨fun h => h, fun h => h⟩
      | (constructor <;> (intro h'; cases hv : ev _ with
          | none => rw [hv] at h'; cases h'
          | some r => rw [hv] at h'; simp at h'))

/-- `NoPassed` survives a step whose new top frame has no passed/rstDone role (or had it before) -/
theorem noPassed_step {s s' : State} {t : Tid} {th' : Thread} (hO : Others s s' t) (hth' : s'.threads t = some th')
    {f : Nat} (hk : ∀ x, th'.stack.head? = some x →
      roleOf s'.everCalls x ≠ some (.passed, f) ∧ roleOf s'.everCalls x ≠ some (.rstDone, f))
    (hn : NoPassed s f) : NoPassed s' f := by
  intro v
  by_cases hv : v = t
  · subst hv
    constructor
    · intro hr; obtain ⟨x, h1, h2⟩ := role_self hth' hr; exact (hk x h1).1 h2
    · intro hr; obtain ⟨x, h1, h2⟩ := role_self hth' hr; exact (hk x h1).2 h2
  · constructor
    · rintro ⟨x, h1, h2⟩
      rcases topIs_other hO hv h1 with h3 | h3
      · exact (hn v).1 ⟨x, h3, role_pr_indep.1 h2⟩
      · subst h3; cases h2
    · rintro ⟨x, h1, h2⟩
      rcases topIs_other hO hv h1 with h3 | h3
      · exact (hn v).2 ⟨x, h3, role_pr_indep.2 h2⟩
      · subst h3; cases h2

theorem hs3_quiet {cfg : Config} {s : State} {t : Tid} {th : Thread} {fr : Frame} {rest : List Frame}
    (hS : SimInv cfg s) (h0 : Inv0 s) (hI : HsInv3 s)
    (hth : s.threads t = some th) (hst : th.stack = fr :: rest) (hq : quiet3 fr = true) :
    HsInv3 (stepFrame s t th fr).1 := by
  have hO := others_of_step hS hth hst
  have hch := h0.chain t th hth
  rw [hst, chainOk_cons] at hch
  have hQ := hsShapeQ3 s t th fr rest hth hst hq hch.1
  obtain ⟨th', hth', htop⟩ := hQ.top
  have hother : ∀ u x σ, 2 ≤ σ → critS σ x = true → TopIs (stepFrame s t th fr).1 u x → u ≠ t ∧ TopIs s u x := by
    intro u x σ hσ hc hti
    by_cases hu : u = t
    · subst hu
      obtain ⟨thu, h1, h2⟩ := hti
      rw [hth'] at h1; injection h1 with h1; subst h1
      rw [sigFree_critS (htop x h2) hσ] at hc; cases hc
    · refine ⟨hu, ?_⟩
      rcases topIs_other hO hu hti with h | h
      · exact h
      · subst h; cases hc
  constructor
  · intro u x σ hσ hti hc
    obtain ⟨_, h1⟩ := hother u x σ hσ hc hti
    rw [hQ.owner σ hσ]; exact hI.own u x σ hσ h1 hc
  · intro u x f hti hp
    obtain ⟨hu, h1⟩ := hother u x (f + 2) (by omega) (isSetPost_critS hp) hti
    obtain ⟨h2, h3⟩ := hI.post u x f h1 hp
    constructor
    · rcases hQ.jnx f with h4 | h4 | h4
      · simp only [jn] at h2 ⊢; rw [h4]; exact h2
      · exact h4
      · subst h4
        exact absurd ⟨_, ⟨th, hth, head_of hst⟩, rfl⟩ (h3 t).2
    · exact noPassed_step hO hth' (fun y hy => sigFree_role (htop y hy)) h3

/-- generic lemma for the step of a Signal frame on the future signal `σ0` -/
theorem hs3_sig {s s' : State} {t : Tid} {th th' : Thread} {fr : Frame} {σ0 : Nat} (hI : HsInv3 s)
    (hO : Others s s' t) (hth : s.threads t = some th) (hfr : th.stack.head? = some fr)
    (hth' : s'.threads t = some th') (hσ0 : 2 ≤ σ0)
    (hfut : s'.futs = s.futs) (hev : s'.everCalls = s.everCalls)
    (hown_o : ∀ σ, σ ≠ σ0 → (s'.sigs σ).owner = (s.sigs σ).owner)
    (hx1 : ∀ x, th'.stack.head? = some x → ∀ σ, σ ≠ σ0 → critS σ x = false)
    (hx2 : ∀ x, th'.stack.head? = some x → critS σ0 x = true → (s'.sigs σ0).owner = some t)
    (hx3 : ∀ x, th'.stack.head? = some x → ∀ f, isSetPost (f + 2) x = true → jn s f = true ∧ NoPassed s f)
    (hx4 : ∀ x, th'.stack.head? = some x → ∀ f,
        (roleOf s.everCalls x = some (.passed, f) ∨ roleOf s.everCalls x = some (.rstDone, f)) →
        (roleOf s.everCalls fr = some (.passed, f) ∨ roleOf s.everCalls fr = some (.rstDone, f)) ∨
        ∀ u y, u ≠ t → TopIs s u y → isSetPost (f + 2) y = false)
    (hoth : ∀ u y, u ≠ t → TopIs s u y → critS σ0 y = true → (s'.sigs σ0).owner = some u) :
    HsInv3 s' := by
  have hsplit : ∀ u x, TopIs s' u x → (u = t ∧ th'.stack.head? = some x) ∨ (u ≠ t ∧ (TopIs s u x ∨ x = .tStart)) := by
    intro u x hti
    by_cases hu : u = t
    · subst hu
      obtain ⟨thu, h1, h2⟩ := hti
      rw [hth'] at h1; injection h1 with h1; subst h1
      exact Or.inl ⟨rfl, h2⟩
    · exact Or.inr ⟨hu, topIs_other hO hu hti⟩
  have hjn : ∀ f, jn s' f = jn s f := fun f => by simp only [jn, hfut]
  constructor
  · intro u x σ hσ hti hc
    rcases hsplit u x hti with ⟨rfl, h1⟩ | ⟨hu, h1 | h1⟩
    · by_cases hs : σ = σ0
      · subst hs; exact hx2 x h1 hc
      · rw [hx1 x h1 σ hs] at hc; cases hc
    · by_cases hs : σ = σ0
      · subst hs; exact hoth u x hu h1 hc
      · rw [hown_o σ hs]; exact hI.own u x σ hσ h1 hc
    · subst h1; cases hc
  · intro u x f hti hp
    have hnp : ∀ v y, v ≠ t → TopIs s v y → isSetPost (f + 2) y = true → NoPassed s f → NoPassed s' f := by
      intro v y hv hy hyp hn
      refine noPassed_step hO hth' ?_ hn
      intro z hz
      rw [hev]
      constructor
      · intro hr
        rcases hx4 z hz f (Or.inl hr) with h | h
        · rcases h with h | h
          · exact (hn t).1 ⟨fr, ⟨th, hth, hfr⟩, h⟩
          · exact (hn t).2 ⟨fr, ⟨th, hth, hfr⟩, h⟩
        · rw [h v y hv hy] at hyp; cases hyp
      · intro hr
        rcases hx4 z hz f (Or.inr hr) with h | h
        · rcases h with h | h
          · exact (hn t).1 ⟨fr, ⟨th, hth, hfr⟩, h⟩
          · exact (hn t).2 ⟨fr, ⟨th, hth, hfr⟩, h⟩
        · rw [h v y hv hy] at hyp; cases hyp
    rcases hsplit u x hti with ⟨rfl, h1⟩ | ⟨hu, h1 | h1⟩
    · obtain ⟨h2, h3⟩ := hx3 x h1 f hp
      refine ⟨by rw [hjn]; exact h2, ?_⟩
      refine noPassed_step hO hth' ?_ h3
      intro z hz
      rw [h1] at hz; injection hz with hz; subst hz
      cases x <;> simp only [isSetPost, Bool.false_eq_true] at hp <;> simp only [roleOf] <;>
        exact ⟨fun h => (by cases h), fun h => (by cases h)⟩
    · obtain ⟨h2, h3⟩ := hI.post u x f h1 hp
      exact ⟨by rw [hjn]; exact h2, hnp u x hu h1 hp h3⟩
    · subst h1; cases hp

end Nstd.Future
