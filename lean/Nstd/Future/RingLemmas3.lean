/-
  Second invariant of the ring, on top of `RingInv`: which slots hold raw memory.  It shows that the
  placement-new of `push` always hits raw memory and that a released slot has been destructed.
-/
import Nstd.Future.RingLemmas2
namespace Nstd.Future
variable {α : Type}

/-- second, dependent invariant: which slots hold raw (unconstructed / destructed) memory -/
structure RingInvData (cap : Nat) (s : RingSys α) : Prop where
  rawFree : ∀ i, i < cap → PrevHead cap (s.ring.slots i) →
    (∀ t d, s.pcs t ≠ some (.pushPub d (s.ring.slots i).tailT)) → (s.ring.slots i).data = none
  rawRel : ∀ t h d, s.pcs t = some (.popRel h d) → (s.ring.slots (h % cap)).data = none

theorem ringInvData_init {cap : Nat} : RingInvData cap (RingSys.init cap : RingSys α) := by
  constructor <;> simp [RingSys.init, Ring.init]

theorem invData_pcOnly {cap : Nat} {s : RingSys α} (t : Nat) (p' : Option (RingPc α))
    (hD : RingInvData cap s)
    (hold : ∀ p, s.pcs t = some p → pushTicket p = none ∧ popTicket p = none)
    (hnew : ∀ p, p' = some p → pushTicket p = none ∧ popTicket p = none) :
    RingInvData cap (s.setPc t p') := by
  constructor <;> simp only [RingSys.setPc]
  case rawFree =>
    intro i hi hp hn
    apply hD.rawFree i hi hp
    intro u d hu
    have := hn u d
    have := hold (.pushPub d (s.ring.slots i).tailT)
    grind [pushTicket]
  case rawRel =>
    intro u h d hu
    have := hD.rawRel u h d
    have := hnew (.popRel h d)
    grind [popTicket]

theorem invData_pushCas_ok {cap : Nat} {s : RingSys α} {t : Nat} {d : α} {x : Nat}
    (hD : RingInvData cap s) (hpc : s.pcs t = some (.pushCas d x)) :
    RingInvData cap (({ s with ring := { s.ring with tail := x + 1, pushLog := s.ring.pushLog ++ [d] } } :
      RingSys α).setPc t (some (.pushData d x))) := by
  constructor <;> simp only [RingSys.setPc]
  case rawFree =>
    intro i hi hp hn
    apply hD.rawFree i hi hp
    intro u d' hu
    have := hn u d'
    grind
  case rawRel =>
    intro u h d' hu
    have := hD.rawRel u h d'
    grind

theorem invData_pushData {cap : Nat} (hc : 0 < cap) {s : RingSys α} {t : Nat} {d : α} {x : Nat}
    (hI : RingInv cap s) (hD : RingInvData cap s) (hpc : s.pcs t = some (.pushData d x)) :
    RingInvData cap (({ s with ring := s.ring.setSlot (x % cap) { s.ring.slots (x % cap) with data := some d } } : RingSys α).setPc t (some (.pushPub d x))) := by
  have hxc : x % cap < cap := Nat.mod_lt _ hc
  obtain ⟨hxT, hslot, hprev, hlog⟩ := hI.pcPushData t d x hpc
  have hT : ∀ j, ((if j = x % cap then { s.ring.slots (x % cap) with data := some d } else s.ring.slots j) : Slot α).tailT
      = (s.ring.slots j).tailT := by intro j; split <;> simp [*]
  have hH : ∀ j, ((if j = x % cap then { s.ring.slots (x % cap) with data := some d } else s.ring.slots j) : Slot α).headT
      = (s.ring.slots j).headT := by intro j; split <;> simp [*]
  have hP : ∀ j, PrevHead cap ((if j = x % cap then { s.ring.slots (x % cap) with data := some d } else s.ring.slots j) : Slot α)
      ↔ PrevHead cap (s.ring.slots j) := fun j => prevHead_congr (hT j) (hH j)
  constructor <;> simp only [RingSys.setPc, Ring.setSlot, hT, hP]
  case rawFree =>
    intro i hi hp hn
    by_cases hix : i = x % cap
    · subst hix
      have := hn t d
      rw [hslot] at this
      simp at this
    · rw [if_neg hix]
      apply hD.rawFree i hi hp
      intro u d' hu
      have := hn u d'
      grind
  case rawRel =>
    intro u h d' hu
    have h0 := hD.rawRel u h d'
    have h1 := hI.pcPopRel u h d'
    have h2 := @not_prevHead_of_headT _ cap hc (s.ring.slots (x % cap))
    grind

theorem invData_pushPub {cap : Nat} (hc : 0 < cap) {s : RingSys α} {t : Nat} {d : α} {x : Nat}
    (hI : RingInv cap s) (hD : RingInvData cap s) (hpc : s.pcs t = some (.pushPub d x)) :
    RingInvData cap (({ s with ring := s.ring.setSlot (x % cap) { s.ring.slots (x % cap) with headT := some x } } : RingSys α).setPc t none) := by
  have hxc : x % cap < cap := Nat.mod_lt _ hc
  obtain ⟨hxT, hslot, hprev, hlog, hdata⟩ := hI.pcPushPub t d x hpc
  have hT : ∀ j, ((if j = x % cap then { s.ring.slots (x % cap) with headT := some x } else s.ring.slots j) : Slot α).tailT
      = (s.ring.slots j).tailT := by intro j; split <;> simp [*]
  have hDt : ∀ j, ((if j = x % cap then { s.ring.slots (x % cap) with headT := some x } else s.ring.slots j) : Slot α).data
      = (s.ring.slots j).data := by intro j; split <;> simp [*]
  have hP : ∀ j, PrevHead cap ((if j = x % cap then { s.ring.slots (x % cap) with headT := some x } else s.ring.slots j) : Slot α)
      ↔ (j ≠ x % cap ∧ PrevHead cap (s.ring.slots j)) := by
    intro j
    by_cases hj : j = x % cap
    · simp only [hj, if_true, ne_eq, not_true_eq_false, false_and, iff_false]
      apply not_prevHead_of_headT hc
      simp only [hslot]
    · simp only [hj, if_false, ne_eq, not_false_eq_true, true_and]
  constructor <;> simp only [RingSys.setPc, Ring.setSlot, hT, hDt, hP]
  case rawFree =>
    intro i hi hp hn
    apply hD.rawFree i hi hp.2
    intro u d' hu
    have := hn u d'
    have := hI.slotMod i hi
    grind
  case rawRel =>
    intro u h d' hu
    have h0 := hD.rawRel u h d'
    grind

theorem invData_popCas_ok {cap : Nat} {s : RingSys α} {t : Nat} {h : Nat}
    (hD : RingInvData cap s) (hpc : s.pcs t = some (.popCas h)) :
    RingInvData cap (({ s with ring := { s.ring with head := h + 1 } } : RingSys α).setPc t (some (.popData h))) := by
  constructor <;> simp only [RingSys.setPc]
  case rawFree =>
    intro i hi hp hn
    apply hD.rawFree i hi hp
    intro u d' hu
    have := hn u d'
    grind
  case rawRel =>
    intro u h d' hu
    have := hD.rawRel u h d'
    grind

theorem invData_popData {cap : Nat} {s : RingSys α} {t : Nat} {h : Nat}
    (hD : RingInvData cap s) (hpc : s.pcs t = some (.popData h)) :
    RingInvData cap (({ s with ring := { (s.ring.setSlot (h % cap) { s.ring.slots (h % cap) with data := none }) with popLog := s.ring.popLog ++ [(h, (s.ring.slots (h % cap)).data)] } } : RingSys α).setPc t (some (.popRel h (s.ring.slots (h % cap)).data))) := by
  have hT : ∀ j, ((if j = h % cap then { s.ring.slots (h % cap) with data := none } else s.ring.slots j) : Slot α).tailT
      = (s.ring.slots j).tailT := by intro j; split <;> simp [*]
  have hH : ∀ j, ((if j = h % cap then { s.ring.slots (h % cap) with data := none } else s.ring.slots j) : Slot α).headT
      = (s.ring.slots j).headT := by intro j; split <;> simp [*]
  have hP : ∀ j, PrevHead cap ((if j = h % cap then { s.ring.slots (h % cap) with data := none } else s.ring.slots j) : Slot α)
      ↔ PrevHead cap (s.ring.slots j) := fun j => prevHead_congr (hT j) (hH j)
  constructor <;> simp only [RingSys.setPc, Ring.setSlot, hT, hP]
  case rawFree =>
    intro i hi hp hn
    by_cases hix : i = h % cap
    · rw [if_pos hix]
    · rw [if_neg hix]
      apply hD.rawFree i hi hp
      intro u d' hu
      have := hn u d'
      grind
  case rawRel =>
    intro u y d' hu
    have h0 := hD.rawRel u y d'
    grind

theorem invData_popRel {cap : Nat} {s : RingSys α} {t : Nat} {h : Nat} {d : Option α}
    (hI : RingInv cap s) (hD : RingInvData cap s) (hpc : s.pcs t = some (.popRel h d)) :
    RingInvData cap (({ s with ring := s.ring.setSlot (h % cap) { s.ring.slots (h % cap) with tailT := h + cap } } : RingSys α).setPc t none) := by
  have hraw := hD.rawRel t h d hpc
  obtain ⟨hhH, hslot, hhead, hdata⟩ := hI.pcPopRel t h d hpc
  have hT : ∀ j, ((if j = h % cap then { s.ring.slots (h % cap) with tailT := h + cap } else s.ring.slots j) : Slot α).tailT
      = if j = h % cap then h + cap else (s.ring.slots j).tailT := by intro j; split <;> simp [*]
  have hDt : ∀ j, ((if j = h % cap then { s.ring.slots (h % cap) with tailT := h + cap } else s.ring.slots j) : Slot α).data
      = (s.ring.slots j).data := by intro j; split <;> simp [*]
  have hP : ∀ j, PrevHead cap ((if j = h % cap then { s.ring.slots (h % cap) with tailT := h + cap } else s.ring.slots j) : Slot α)
      ↔ (j = h % cap ∨ PrevHead cap (s.ring.slots j)) := by
    intro j
    by_cases hj : j = h % cap
    · simp only [hj, if_true, true_or, iff_true]
      right; exact ⟨h, hhead, rfl⟩
    · simp only [hj, if_false, false_or]
  constructor <;> simp only [RingSys.setPc, Ring.setSlot, hT, hP, hDt]
  case rawFree =>
    intro i hi hp hn
    by_cases hix : i = h % cap
    · rw [hix]; exact hraw
    · simp only [if_neg hix] at hn
      apply hD.rawFree i hi (hp.resolve_left hix)
      intro u d' hu
      have := hn u d'
      grind
  case rawRel =>
    intro u y d' hu
    have h0 := hD.rawRel u y d'
    grind

end Nstd.Future
