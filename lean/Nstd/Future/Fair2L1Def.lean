/-
  LEVEL 1 of the weak-fairness termination measure (Fair2Lev.lean): `lev1 : State → Nat`, an amortised count of the
  WORK EVENTS (`F2.workFr`) that can still happen.

      lev1 s = Σ_threads (Σ remaining script ops `L1.opw` + Σ frames of the stack `L1.w1`)
               + 2 * |p.ctxs| + 5 * (p.ring.tail - p.ring.head)

  * N = number of `start` ops of the configuration (bounds `_threads.size()` and `_threadCount`);
  * every frame weight is STATE-INDEPENDENT except for the flag `won` of the callers of `push`/`pop`
    (`runChk1/2`, `dChk1/2`, `runRetAfter`, `wChk1/2`): `won` = "the `push`/`pop` above has won its CAS"
    (program counter `pushData/pushPub/popData/popRel` directly above) resp. `retB` when the caller is on top;
  * a queued job (ticket in [head, tail)) weighs 5 = its pop CAS + `wChk2` + `fSet 1` + (`pSig` + `wAdd` | `fSet 0`);
    a winning push pays 1 + 5, a winning pop receives 4;
  * a ThreadContext weighs 2 (its `cleanAt`→`cleanJoin`→`cleanAt` removal); a traversal `cleanAt 0` is budgeted
    with 2N+1, the destructor loop with 9 per iteration (≤ N iterations) and N+2 for the `dJoin` loop;
  * a `start` op weighs 2N+18.
-/
import Nstd.Future.Fair2Pot
set_option linter.unusedVariables false
namespace Nstd.Future.L1

/-- number of `start` ops of a script -/
def nStart : List ClientOp → Nat
  | [] => 0
  | .start _ _ _ :: l => 1 + nStart l
  | _ :: l => nStart l

/-- N: number of `start` ops of the configuration -/
def nCfg : List (List ClientOp) → Nat
  | [] => 0
  | sc :: l => nStart sc + nCfg l

/-- weight of a script op -/
def opw (N : Nat) : ClientOp → Nat
  | .start _ _ _ => 2 * N + 18
  | .destroy _ => 1
  | _ => 0

def scriptw (N : Nat) : List ClientOp → Nat
  | [] => 0
  | op :: l => opw N op + scriptw N l

@[simp] theorem scriptw_nil (N : Nat) : scriptw N [] = 0 := rfl
@[simp] theorem scriptw_cons (N : Nat) (op : ClientOp) (l : List ClientOp) :
    scriptw N (op :: l) = opw N op + scriptw N l := rfl

/-- weight of the scripts not yet spawned: thread creation + `cEnd` loop + script -/
def spw (N : Nat) : List (List ClientOp) → Nat
  | [] => 0
  | sc :: l => 17 + scriptw N sc + spw N l

@[simp] theorem spw_nil (N : Nat) : spw N [] = 0 := rfl
@[simp] theorem spw_cons (N : Nat) (sc : List ClientOp) (l : List (List ClientOp)) :
    spw N (sc :: l) = 17 + scriptw N sc + spw N l := rfl

/-- the `push`/`pop` above has won its CAS -/
def pcWon : RingPc Job → Bool
  | .pushData _ _ | .pushPub _ _ | .popData _ | .popRel _ _ => true
  | _ => false

/-- weight of the destructor loop head `dPush i` -/
def dpw (N i : Nat) : Nat := 9 * (N - i) + (N + 2)

/-- frame weight; `won` only matters for the callers of `push`/`pop` -/
def w1 (N : Nat) (scripts : List (List ClientOp)) (won : Bool) : Frame → Nat
  | .fSet _ => 1
  | .runStart _ => 2 * N + 16 | .runChk1 _ => if won then 2 * N + 10 else 2 * N + 16
  | .runPush2 _ => 2 * N + 16 | .runChk2 _ => if won then 2 * N + 10 else 2 * N + 16
  | .runSet => 2 * N + 9
  | .runAdd => 2 * N + 8 | .runRdProc _ => 2 * N + 8 | .runRdTc _ => 2 * N + 8
  | .runClk1 => 0 | .runClk2 _ => 2 * N + 4 | .runClk3 => 2 * N + 8
  | .runSpLock => 2 * N + 4 | .runSpChk => 3
  | .runSpUnlock ctx => (match ctx with | some _ => 1 | none => 0)
  | .runSpStart _ => 1 | .runSpawned _ => 0
  | .runRetLock => 2 * N + 8 | .runRetChk => 2 * N + 8
  | .runRetAfter => if won then 2 * N + 2 else 2 * N + 8
  | .runRetUnlock => 0
  | .cleanAt i => 2 * (N - i) + 1 | .cleanJoin i _ => 2 * (N - i)
  | .wChk1 => if won then 4 else 0 | .wChk2 => if won then 4 else 0
  | .wDeq => 3 | .wDispatch => 2 | .wAdd => 1
  | .pCall _ => 1 | .pBody _ => 1 | .pStore _ => 1 | .pSetRd _ => 1 | .pSetX _ _ => 1 | .pSig _ => 1
  | .cNext => 16 | .cRdTp _ => 2 * N + 18 | .cSpin _ => 2 * N + 18 | .cRdTp2 _ => 2 * N + 17
  | .cSwapTp _ => 2 * N + 16 | .cUnlockTp _ => 2 * N + 16 | .cJoin _ => 2 * N + 16 | .cArm _ => 2 * N + 16
  | .destroyF _ => 1
  | .cEnd k => 16 - k
  | .mInit => 3 + spw N scripts + dpw N 0
  | .mSpawn i => 2 + spw N (scripts.drop i) + dpw N 0
  | .mSpawned i _ => 2 + spw N (scripts.drop (i + 1)) + dpw N 0
  | .mJoin _ => 1 + dpw N 0 | .mDel => 1 + dpw N 0
  | .dPush i => dpw N i | .dChk1 i => if won then dpw N (i + 1) + 3 else dpw N i
  | .dPush2 i => dpw N i | .dChk2 i => if won then dpw N (i + 1) + 3 else dpw N i
  | .dSet i => dpw N (i + 1) + 2
  | .dJoin i => (N - i) + 2 | .dFin => 1
  | _ => 0

/-- the program counter of a `push`/`pop` frame -/
def ringOf : Frame → Option (RingPc Job)
  | .ring pc => some pc
  | _ => none

def wonOf (ab : Option (RingPc Job)) (retB : Bool) : Bool :=
  match ab with
  | some pc => pcWon pc
  | none => retB

/-- weight of a stack; `ab` = the `push`/`pop` program counter directly above -/
def stk (N : Nat) (scripts : List (List ClientOp)) (retB : Bool) : Option (RingPc Job) → List Frame → Nat
  | _, [] => 0
  | ab, f :: l => w1 N scripts (wonOf ab retB) f + stk N scripts retB (ringOf f) l

@[simp] theorem stk_nil (N : Nat) (scripts : List (List ClientOp)) (retB : Bool) (ab : Option (RingPc Job)) :
    stk N scripts retB ab [] = 0 := rfl
@[simp] theorem stk_cons (N : Nat) (scripts : List (List ClientOp)) (retB : Bool) (ab : Option (RingPc Job))
    (f : Frame) (l : List Frame) :
    stk N scripts retB ab (f :: l) = w1 N scripts (wonOf ab retB) f + stk N scripts retB (ringOf f) l := rfl

/-- potential of a thread -/
def thw (N : Nat) (scripts : List (List ClientOp)) (th : Thread) : Nat :=
  scriptw N th.script + stk N scripts th.retB none th.stack

/-- potential of the pool: 2 per ThreadContext, 5 per queued job -/
def poolw (p : Pool) : Nat := 2 * p.ctxs.length + 5 * (p.ring.tail - p.ring.head)

def poolTerm (s : State) : Nat :=
  match s.pool with
  | some p => poolw p
  | none => 0

def thAt (s : State) (t : Tid) : Nat :=
  match s.threads t with
  | some th => thw (nCfg s.cfg.scripts) s.cfg.scripts th
  | none => 0

/-- callers of `push` / `pop` -/
def pushCallerB : Frame → Bool
  | .runChk1 _ | .runChk2 _ | .dChk1 _ | .dChk2 _ | .runRetAfter => true
  | _ => false
def popCallerB : Frame → Bool
  | .wChk1 | .wChk2 => true
  | _ => false
def isPopB : RingPc Job → Bool
  | .popRead | .popChk _ | .popCas _ | .popData _ | .popRel _ _ => true
  | _ => false

/-- SIDE INVARIANTS used by the level-1 step lemmas -/
structure Side (s : State) : Prop where
  /-- `_threads.size()` is bounded by the number of `start` ops -/
  ctxsLe : ∀ p, s.pool = some p → p.ctxs.length ≤ nCfg s.cfg.scripts
  /-- a `push`/`pop` frame sits directly above one of its callers -/
  caller : ∀ t th pc rest, s.threads t = some th → th.stack = .ring pc :: rest →
    ∃ c rest', rest = c :: rest' ∧ (if isPopB pc then popCallerB c else pushCallerB c) = true
  /-- the loop counter of the destructor, while its push is in flight, is below N -/
  dtorIdx : ∀ t th pc i rest, s.threads t = some th →
    (th.stack = .ring pc :: .dChk1 i :: rest ∨ th.stack = .ring pc :: .dChk2 i :: rest) → i < nCfg s.cfg.scripts
  /-- `cleanJoin i w` joins the thread of the i-th context -/
  cjIdx : ∀ p t th i w rest, s.pool = some p → s.threads t = some th → th.stack = .cleanJoin i w :: rest →
    i < p.ctxs.length
  /-- a winning `pop` CAS takes a queued ticket -/
  popWin : ∀ p t th h rest, s.pool = some p → s.threads t = some th → th.stack = .ring (.popCas h) :: rest →
    p.ring.head = h → h < p.ring.tail

end Nstd.Future.L1

namespace Nstd.Future

/-- LEVEL 1 -/
def lev1 (s : State) : Nat := tsum s.nthreads (L1.thAt s) + L1.poolTerm s

end Nstd.Future
