/-
  Safety of the Future/ThreadPool model, part 9: the pool mutex (`_mutex`, guards `_threads`):
  at most one thread is inside a critical section of `ThreadPool::run`.
-/
import Nstd.Future.Safety8
set_option linter.unusedSimpArgs false
set_option linter.unusedVariables false
namespace Nstd.Future.Safe

/-- the frames of `run` between `Mutex::Guard` and its release (level frames) -/
def isLM : Frame → Bool
  | .runSpChk | .runSpUnlock _ | .runRetChk | .runRetAfter | .runRetUnlock => true
  | _ => false
/-- the clean-up loop over `_threads` called from there -/
def isClean : Frame → Bool
  | .cleanAt _ | .cleanJoin _ _ => true
  | _ => false
def isMx (f : Frame) : Bool := isLM f || isClean f
def isLock : Frame → Bool
  | .runSpLock | .runRetLock => true
  | _ => false
def isUnlock : Frame → Bool
  | .runSpUnlock _ | .runRetUnlock => true
  | _ => false
def pushesClean : Frame → Bool
  | .runSpLock | .runRetChk | .runRetAfter => true
  | _ => false

def freshFr : Frame → Bool
  | .mInit | .cRdTp2 _ => true
  | _ => false

def bn (g : Frame → Bool) (f : Frame) : Nat := if g f = true then 1 else 0

/-- a clean-up frame has a level frame below it -/
def cbOk : List Frame → Prop
  | [] => True
  | a :: rest => (isClean a = true → 1 ≤ lsum (bn isLM) rest) ∧ cbOk rest

def HasMx (l : List Frame) : Prop := ∃ f ∈ l, isMx f = true
theorem hasMx_nil : HasMx [] ↔ False := by simp [HasMx]
theorem hasMx_cons {a : Frame} {l : List Frame} : HasMx (a :: l) ↔ isMx a = true ∨ HasMx l := by simp [HasMx]

theorem no_clean_of_cb {l : List Frame} (h : cbOk l) (h0 : lsum (bn isLM) l = 0) : ∀ f ∈ l, isClean f = false := by
  induction l with
  | nil => intro f hf; cases hf
  | cons a l ih =>
    simp only [lsum_cons] at h0
    intro f hf
    rcases List.mem_cons.mp hf with rfl | hf
    · cases hc : isClean f with
      | false => rfl
      | true => have := h.1 hc; omega
    · exact ih h.2 (by omega) f hf

theorem lsum_mem' {g : Frame → Nat} {l : List Frame} {f : Frame} (h : f ∈ l) : g f ≤ lsum g l := by
  induction l with
  | nil => cases h
  | cons a l ih =>
    simp only [lsum_cons]
    rcases List.mem_cons.mp h with rfl | h
    · omega
    · have := ih h; omega

theorem no_lm_of_zero {l : List Frame} (h0 : lsum (bn isLM) l = 0) : ∀ f ∈ l, isLM f = false := by
  intro f hf
  have := lsum_mem' (g := bn isLM) hf
  cases hc : isLM f with
  | false => rfl
  | true => simp [bn, hc] at this; omega

theorem noMx_below_level {fr : Frame} {rest : List Frame} (hl : isLM fr = true)
    (hc : lsum (bn isLM) (fr :: rest) ≤ 1) (hcb : cbOk (fr :: rest)) : ¬ HasMx rest := by
  have h0 : lsum (bn isLM) rest = 0 := by simp [lsum_cons, bn, hl] at hc; omega
  intro ⟨f, hf, hm⟩
  simp only [isMx, Bool.or_eq_true] at hm
  rcases hm with hm | hm
  · rw [no_lm_of_zero h0 f hf] at hm; cases hm
  · rw [no_clean_of_cb hcb.2 h0 f hf] at hm; cases hm

structure ShapeM (s s' : State) (t : Tid) (fr : Frame) (rest : List Frame) : Prop where
  self : ∀ th', s'.threads t = some th' →
    lsum (bn isLM) th'.stack ≤ lsum (bn isLM) (fr :: rest) + (if isLock fr = true then 1 else 0) ∧
    lsum (bn isClean) th'.stack ≤ lsum (bn isClean) (fr :: rest) + (if pushesClean fr = true then 1 else 0) ∧
    (cbOk (fr :: rest) → cbOk th'.stack) ∧
    (HasMx th'.stack → HasMx (fr :: rest) ∨ isLock fr = true) ∧
    (isUnlock fr = true → s.pool ≠ none → HasMx th'.stack → HasMx rest)
  mo : ∀ p, s.pool = some p → s'.pool = none ∨ ∃ p', s'.pool = some p' ∧
    (isLock fr = true → p'.mOwner = some t) ∧ (isUnlock fr = true → p'.mOwner = none) ∧
    (isLock fr = false → isUnlock fr = false → p'.mOwner = p.mOwner ∨
      (freshFr fr = true ∧ p'.mOwner = none ∧ p'.ctxs = [] ∧ p'.nextCtx = 0 ∧ s.tp = false))
  mo0 : s.pool = none → ∀ p', s'.pool = some p' → freshFr fr = true

set_option maxHeartbeats 16000000 in
theorem shapeM (s : State) (t : Tid) (th : Thread) (fr : Frame) (rest : List Frame)
    (hth : s.threads t = some th) (hst : th.stack = fr :: rest) (hinit : fr = .mInit → s.pool = none) :
    ShapeM s (stepFrame s t th fr).1 t fr rest := by
  cases fr <;> simp only [stepFrame] <;> repeat' split
  all_goals
    constructor
    · intro th' h
      simp [setThread, setSig, setPool, setFut, withFault, destroySig, upd_same, hth] at h
      subst h
      refine ⟨?_, ?_, ?_, ?_, ?_⟩
      · simp [Thread.cont, hst, bn, isLM, isLock]
        try omega
      · simp [Thread.cont, hst, bn, isClean, pushesClean]
        try omega
      · simp [Thread.cont, hst, cbOk, isClean, bn, isLM]
        try (intros; first | assumption | omega | (simp_all; done))
      · simp [Thread.cont, hst, hasMx_cons, hasMx_nil, isMx, isLM, isClean, isLock]
      · simp [Thread.cont, hst, hasMx_cons, hasMx_nil, isMx, isLM, isClean, isUnlock]
        try (intros; simp_all; done)
    · intro p hp
      simp [setThread, setSig, setPool, setFut, withFault, destroySig, isLock, isUnlock, setFsState, freshFr, mkPool] at hp ⊢
      try (simp_all; done)
      try (have := hinit rfl; simp_all; done)
      try (split <;> simp_all <;> done)
    · intro hp p' hp'
      simp [setThread, setSig, setPool, setFut, withFault, destroySig, mkPool, freshFr] at hp hp' ⊢
      try (simp_all; done)

theorem isMx_not_prePool {f : Frame} (h : isMx f = true) : prePool f = false := by
  cases f <;> simp [isMx, isLM, isClean, prePool] at h ⊢

theorem allPre_noMx {l : List Frame} (h : AllPre l) : ¬ HasMx l := by
  intro ⟨f, hf, hm⟩
  have := h f hf
  rw [isMx_not_prePool hm] at this; cases this

theorem lm_zero_of_noMx {l : List Frame} (h : ¬ HasMx l) : lsum (bn isLM) l = 0 := by
  induction l with
  | nil => rfl
  | cons a l ih =>
    rw [hasMx_cons] at h
    simp only [lsum_cons]
    have h1 : isLM a = false := by
      cases hc : isLM a with
      | false => rfl
      | true => exact absurd (Or.inl (by simp [isMx, hc])) h
    rw [ih (fun h2 => h (Or.inr h2))]
    simp [bn, h1]

theorem isLock_props {f : Frame} (h : isLock f = true) :
    isUnlock f = false ∧ isMx f = false ∧ freshFr f = false := by
  cases f <;> simp [isLock, isUnlock, isMx, isLM, isClean, freshFr] at h ⊢
theorem isUnlock_props {f : Frame} (h : isUnlock f = true) : isLM f = true ∧ isMx f = true := by
  cases f <;> simp [isUnlock, isMx, isLM, isClean] at h ⊢
theorem lock_blocked {s : State} {t : Tid} {f : Frame} {p : Pool} (h : isLock f = true) (hp : s.pool = some p)
    (hb : blockedFrame s t f = false) : p.mOwner = none := by
  cases f <;> simp [isLock] at h <;> simp [blockedFrame, hp] at hb <;> exact hb


theorem early_of_fresh {cfg : Config} {s : State} {t : Tid} {th : Thread} {fr : Frame} {rest : List Frame}
    (hr : Reach cfg s) (hth : s.threads t = some th) (hst : th.stack = fr :: rest) (hfin : th.finished = false)
    (hf : freshFr fr = true) (htp : s.tp = false) : Early s := by
  have hSim := reach_inv hr
  have hl : poolAlive s := by
    cases Classical.em (poolAlive s) with
    | inl h => exact h
    | inr h =>
      exfalso
      have hJ := reach_join hr
      rcases hJ.kinds t th hth with h2 | h2
      · obtain ⟨th2, h3, h4⟩ := clients_finished_of_dead hr h t h2
        rw [hth] at h3; injection h3 with h3; subst h3; rw [hfin] at h4; cases h4
      · have hnb := (hJ.dead h).2.1 t th hth fr (by rw [hst]; exact List.mem_cons_self ..)
        have hnc := h2 fr (by rw [hst]; exact List.mem_cons_self ..)
        cases fr <;> simp [freshFr] at hf <;> simp [bottomFr, ncFr] at hnb hnc
  exact hSim.early hl htp

theorem fresh_tp {s : State} {t : Tid} {th : Thread} {fr : Frame} (hf : freshFr fr = true)
    (hinit : fr = .mInit → s = State.init s.cfg)
    (hne : (stepFrame s t th fr).1.pool ≠ s.pool) : s.tp = false := by
  cases fr <;> simp [freshFr] at hf
  case mInit => have := hinit rfl; rw [this]; rfl
  case cRdTp2 c =>
    cases htp : s.tp with
    | false => rfl
    | true => simp [stepFrame, htp, setThread] at hne

/-- the pool mutex: a thread with a critical-section frame owns `_mutex` -/
structure MInv (s : State) : Prop where
  lm : ∀ t th, s.threads t = some th → lsum (bn isLM) th.stack ≤ 1
  cb : ∀ t th, s.threads t = some th → cbOk th.stack
  mx : ∀ t th p, s.threads t = some th → s.pool = some p → HasMx th.stack → p.mOwner = some t

theorem mInv_init (cfg : Config) : MInv (State.init cfg) := by
  have hthr : ∀ t th, (State.init cfg).threads t = some th → t = 0 ∧ th = { stack := [Frame.mInit] } := by
    intro t th h
    simp only [State.init] at h
    split at h
    · next h0 => injection h with h; exact ⟨h0, h.symm⟩
    · cases h
  constructor
  · intro t th h; obtain ⟨_, rfl⟩ := hthr t th h; simp [bn, isLM]
  · intro t th h; obtain ⟨_, rfl⟩ := hthr t th h; simp [cbOk, isClean]
  · intro t th p h hp; simp [State.init] at hp

theorem mInv_step {cfg : Config} {s s' : State} {t : Tid} {o : List String}
    (hr : Reach cfg s) (hI : MInv s) (h : step s t = some (s', o)) : MInv s' := by
  obtain ⟨th, fr, rest, hth, hst, hfin, hblk, rfl⟩ := step_inv2 h
  have hSim := reach_inv hr
  have hJ := reach_join hr
  have hrest : NoSpec rest := by
    have := hSim.ringTopOnly t th hth
    rw [hst] at this; exact this
  have hok : StackOk (fr :: rest) := by rw [← hst]; exact (reach_safe hr).stk t th hth
  have hS := shapeS s t th fr rest hth hst hrest hok
  have h1 := shape1 s t th fr rest hth hst hfin hrest
  have hinit : fr = .mInit → s.pool = none := by
    intro e; subst e
    have := hSim.initOnly t th hth (by rw [hst]; rfl)
    rw [this]; rfl
  have hM := shapeM s t th fr rest hth hst hinit
  obtain ⟨th', hth', _⟩ := h1.self
  obtain ⟨hlm, _, hcb, hmx, hun⟩ := hM.self th' hth'
  have hlm0 : lsum (bn isLM) (fr :: rest) ≤ 1 := by rw [← hst]; exact hI.lm t th hth
  have hcb0 : cbOk (fr :: rest) := by rw [← hst]; exact hI.cb t th hth
  -- fresh threads have no critical-section frames
  have hoth : ∀ u thu, u ≠ t → (stepFrame s t th fr).1.threads u = some thu →
      s.threads u = some thu ∨ (thu.stack = [.tStart, .wPop1] ∨ thu.stack = [.tStart, .cNext]) := by
    intro u thu hu hthu
    rcases hS.others u hu with h2 | ⟨h2, h3 | ⟨sc, h3⟩⟩
    · left; rw [← h2]; exact hthu
    · right; rw [hthu] at h3; injection h3 with h3; subst h3; exact Or.inl rfl
    · right; rw [hthu] at h3; injection h3 with h3; subst h3; exact Or.inr rfl
  constructor
  · intro u thu hthu
    by_cases hu : u = t
    · subst hu; rw [hth'] at hthu; injection hthu with hthu; subst hthu
      cases hl : isLock fr with
      | false => simp only [hl, Bool.false_eq_true, if_false] at hlm; omega
      | true =>
        simp only [hl, if_true] at hlm
        -- the lock was free, so this thread had no critical-section frame
        cases hp : s.pool with
        | none =>
          have : (stepFrame s u th fr).1.threads u = some th := by
            cases fr <;> simp [isLock] at hl <;> simp [stepFrame, hp, withFault, hth]
          rw [hth'] at this; injection this with this; subst this
          exact hI.lm u _ hth
        | some p =>
          have hfree := lock_blocked hl hp hblk
          have hno : ¬ HasMx (fr :: rest) := by
            intro hm
            have := hI.mx u th p hth hp (by rw [hst]; exact hm)
            rw [hfree] at this; cases this
          have := lm_zero_of_noMx hno
          omega
    · rcases hoth u thu hu hthu with h2 | h2 | h2
      · exact hI.lm u thu h2
      · rw [h2]; simp [bn, isLM]
      · rw [h2]; simp [bn, isLM]
  · intro u thu hthu
    by_cases hu : u = t
    · subst hu; rw [hth'] at hthu; injection hthu with hthu; subst hthu; exact hcb hcb0
    · rcases hoth u thu hu hthu with h2 | h2 | h2
      · exact hI.cb u thu h2
      · rw [h2]; simp [cbOk, isClean]
      · rw [h2]; simp [cbOk, isClean]
  · intro u thu p' hthu hp' hm
    have hinit2 : fr = .mInit → s = State.init s.cfg := by
      intro e; subst e
      have := hSim.initOnly t th hth (by rw [hst]; rfl)
      rw [this]; rfl
    -- when the step creates the pool, no thread is in pool code
    have hfreshNo : freshFr fr = true → s.tp = false → False := by
      intro hf htp
      have hE := early_of_fresh hr hth hst hfin hf htp
      by_cases hu : u = t
      · subst hu; rw [hth'] at hthu; injection hthu with hthu; subst hthu
        rcases hmx hm with h2 | h2
        · exact allPre_noMx (by rw [← hst]; exact hE.pre u th hth) h2
        · cases fr <;> simp [freshFr] at hf <;> simp [isLock] at h2
      · rcases hoth u thu hu hthu with h2 | h2 | h2
        · exact allPre_noMx (hE.pre u thu h2) hm
        · rw [h2] at hm; simp [hasMx_cons, hasMx_nil, isMx, isLM, isClean] at hm
        · rw [h2] at hm; simp [hasMx_cons, hasMx_nil, isMx, isLM, isClean] at hm
    cases hp : s.pool with
    | none =>
      exfalso
      have hfr := hM.mo0 hp p' hp'
      exact hfreshNo hfr (fresh_tp hfr hinit2 (by rw [hp, hp']; exact fun h => by cases h))
    | some p =>
      rcases hM.mo p hp with h2 | ⟨p2, h2, hk, hun2, hsame⟩
      · rw [h2] at hp'; cases hp'
      · rw [h2] at hp'; injection hp' with hp'; subst hp'
        by_cases hu : u = t
        · subst hu; rw [hth'] at hthu; injection hthu with hthu; subst hthu
          cases hl : isLock fr with
          | true => exact hk hl
          | false =>
            rcases hmx hm with hold | hlock
            · have hown := hI.mx u th p hth hp (by rw [hst]; exact hold)
              cases hul : isUnlock fr with
              | true =>
                exact (noMx_below_level (isUnlock_props hul).1 hlm0 hcb0 (hun hul (by rw [hp]; exact fun h => by cases h) hm)).elim
              | false =>
                rcases hsame hl hul with h3 | ⟨h3, _, _, _, h4⟩
                · rw [h3]; exact hown
                · exact (hfreshNo h3 h4).elim
            · rw [hl] at hlock; cases hlock
        · rcases hoth u thu hu hthu with h3 | h3 | h3
          · have hown := hI.mx u thu p h3 hp hm
            cases hl : isLock fr with
            | true => rw [lock_blocked hl hp hblk] at hown; cases hown
            | false =>
              cases hul : isUnlock fr with
              | true =>
                have := hI.mx t th p hth hp (by rw [hst]; exact hasMx_cons.mpr (Or.inl (isUnlock_props hul).2))
                rw [this] at hown; injection hown with hown; exact absurd hown.symm hu
              | false =>
                rcases hsame hl hul with h4 | ⟨h4, _, _, _, h5⟩
                · rw [h4]; exact hown
                · exact (hfreshNo h4 h5).elim
          · rw [h3] at hm; simp [hasMx_cons, hasMx_nil, isMx, isLM, isClean] at hm
          · rw [h3] at hm; simp [hasMx_cons, hasMx_nil, isMx, isLM, isClean] at hm

theorem reach_minv {cfg : Config} {s : State} (h : Reach cfg s) : MInv s := by
  induction h with
  | init => exact mInv_init cfg
  | step t hr hs ih => exact mInv_step hr ih hs

/-- mutual exclusion of the critical sections of `ThreadPool::run` -/
theorem pool_mutex_exclusive {cfg : Config} {s : State} (h : Reach cfg s) {t u : Tid} {tht thu : Thread}
    (ht : s.threads t = some tht) (hu : s.threads u = some thu)
    (hmt : HasMx tht.stack) (hmu : HasMx thu.stack) (hp : s.pool ≠ none) : t = u := by
  cases hpp : s.pool with
  | none => exact absurd hpp hp
  | some p =>
    have h1 := (reach_minv h).mx t tht p ht hpp hmt
    have h2 := (reach_minv h).mx u thu p hu hpp hmu
    rw [h1] at h2; injection h2

end Nstd.Future.Safe
