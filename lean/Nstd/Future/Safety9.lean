/-
  Safety of the Future/ThreadPool model, part 9: the pool mutex (`_mutex`, guards `_threads`):
  at most one thread is inside a critical section of `ThreadPool::run`.
-/
import Nstd.Future.Safety8
set_option linter.unusedSimpArgs false
set_option linter.unusedVariables false
namespace Nstd.Future

/-- the frames of `run` between `Mutex::Guard` and its release (level frames) -/
def isLM : Frame → Bool
  | .runSpChk | .runSpUnlock _ | .runRetChk | .runRetAfter | .runRetUnlock => true
  | _ => false
/-- the clean-up loop over `_threads` called from there -/
def isClean : Frame → Bool
  | .cleanAt _ | .cleanJoin _ _ => true
  | _ => false
def isMx (f : Frame) : Bool := isLM f || isClean f
def isLock : Frame → Bool
  | .runSpLock | .runRetLock => true
  | _ => false
def isUnlock : Frame → Bool
  | .runSpUnlock _ | .runRetUnlock => true
  | _ => false
def pushesClean : Frame → Bool
  | .runSpLock | .runRetChk | .runRetAfter => true
  | _ => false

def bn (g : Frame → Bool) (f : Frame) : Nat := if g f = true then 1 else 0

/-- a clean-up frame has a level frame below it -/
def cbOk : List Frame → Prop
  | [] => True
  | a :: rest => (isClean a = true → 1 ≤ lsum (bn isLM) rest) ∧ cbOk rest

def HasMx (l : List Frame) : Prop := ∃ f ∈ l, isMx f = true
theorem hasMx_nil : HasMx [] ↔ False := by simp [HasMx]
theorem hasMx_cons {a : Frame} {l : List Frame} : HasMx (a :: l) ↔ isMx a = true ∨ HasMx l := by simp [HasMx]

theorem no_clean_of_cb {l : List Frame} (h : cbOk l) (h0 : lsum (bn isLM) l = 0) : ∀ f ∈ l, isClean f = false := by
  induction l with
  | nil => intro f hf; cases hf
  | cons a l ih =>
    simp only [lsum_cons] at h0
    intro f hf
    rcases List.mem_cons.mp hf with rfl | hf
    · cases hc : isClean f with
      | false => rfl
      | true => have := h.1 hc; omega
    · exact ih h.2 (by omega) f hf

theorem lsum_mem' {g : Frame → Nat} {l : List Frame} {f : Frame} (h : f ∈ l) : g f ≤ lsum g l := by
  induction l with
  | nil => cases h
  | cons a l ih =>
    simp only [lsum_cons]
    rcases List.mem_cons.mp h with rfl | h
    · omega
    · have := ih h; omega

theorem no_lm_of_zero {l : List Frame} (h0 : lsum (bn isLM) l = 0) : ∀ f ∈ l, isLM f = false := by
  intro f hf
  have := lsum_mem' (g := bn isLM) hf
  cases hc : isLM f with
  | false => rfl
  | true => simp [bn, hc] at this; omega

theorem noMx_below_level {fr : Frame} {rest : List Frame} (hl : isLM fr = true)
    (hc : lsum (bn isLM) (fr :: rest) ≤ 1) (hcb : cbOk (fr :: rest)) : ¬ HasMx rest := by
  have h0 : lsum (bn isLM) rest = 0 := by simp [lsum_cons, bn, hl] at hc; omega
  intro ⟨f, hf, hm⟩
  simp only [isMx, Bool.or_eq_true] at hm
  rcases hm with hm | hm
  · rw [no_lm_of_zero h0 f hf] at hm; cases hm
  · rw [no_clean_of_cb hcb.2 h0 f hf] at hm; cases hm

structure ShapeM (s s' : State) (t : Tid) (fr : Frame) (rest : List Frame) : Prop where
  self : ∀ th', s'.threads t = some th' →
    lsum (bn isLM) th'.stack ≤ lsum (bn isLM) (fr :: rest) + (if isLock fr = true then 1 else 0) ∧
    lsum (bn isClean) th'.stack ≤ lsum (bn isClean) (fr :: rest) + (if pushesClean fr = true then 1 else 0) ∧
    (cbOk (fr :: rest) → cbOk th'.stack) ∧
    (HasMx th'.stack → HasMx (fr :: rest) ∨ isLock fr = true) ∧
    (isUnlock fr = true → s.pool ≠ none → HasMx th'.stack → HasMx rest)
  mo : ∀ p, s.pool = some p → s'.pool = none ∨ ∃ p', s'.pool = some p' ∧
    (p'.mOwner = p.mOwner ∨ (isLock fr = true ∧ p'.mOwner = some t) ∨ (isUnlock fr = true ∧ p'.mOwner = none) ∨
      (p' = mkPool 0x100 0 4))
  mo0 : s.pool = none → ∀ p', s'.pool = some p' → p'.mOwner = none

set_option maxHeartbeats 16000000 in
theorem shapeM (s : State) (t : Tid) (th : Thread) (fr : Frame) (rest : List Frame)
    (hth : s.threads t = some th) (hst : th.stack = fr :: rest) :
    ShapeM s (stepFrame s t th fr).1 t fr rest := by
  cases fr <;> simp only [stepFrame] <;> repeat' split
  all_goals
    constructor
    · intro th' h
      simp [setThread, setSig, setPool, setFut, withFault, destroySig, upd_same, hth] at h
      subst h
      refine ⟨?_, ?_, ?_, ?_, ?_⟩
      · simp [Thread.cont, hst, bn, isLM, isLock]
        try omega
      · simp [Thread.cont, hst, bn, isClean, pushesClean]
        try omega
      · simp [Thread.cont, hst, cbOk, isClean, bn, isLM]
        try (intros; first | assumption | omega | (simp_all; done))
      · simp [Thread.cont, hst, hasMx_cons, hasMx_nil, isMx, isLM, isClean, isLock]
      · simp [Thread.cont, hst, hasMx_cons, hasMx_nil, isMx, isLM, isClean, isUnlock]
        try (intros; simp_all; done)
    · intro p hp
      simp [setThread, setSig, setPool, setFut, withFault, destroySig, isLock, isUnlock, setFsState] at hp ⊢
      try (simp_all; done)
      try (split <;> simp_all <;> done)
    · intro hp p' hp'
      simp [setThread, setSig, setPool, setFut, withFault, destroySig, mkPool] at hp hp' ⊢
      try (simp_all; done)
      try (subst hp'; rfl)

end Nstd.Future
