/-
  Shutdown side of deadlock freedom, part 2: the counting of one `push`/`pop` micro-step (`ls_ring_pure`), the exact
  description of such a step in the full model (`ls_ring_desc`) and small facts about weights.
-/
import Nstd.Future.LiveShutdown1
set_option linter.unusedSimpArgs false
set_option linter.unusedVariables false
namespace Nstd.Future.LS

/-! ### terminate tickets in the queue -/

theorem lsCnt_append (l : List Job) (d : Job) : lsCnt (l ++ [d]) = lsCnt l + (if d = none then 1 else 0) := by
  induction l with
  | nil => simp [lsCnt]
  | cons a l ih => simp only [List.cons_append, lsCnt, ih]; omega

theorem lsTq_push (h : Nat) (log : List Job) (d : Job) (hh : h ≤ log.length) :
    lsTq h (log ++ [d]) = lsTq h log + (if d = none then 1 else 0) := by
  simp only [lsTq, List.drop_append_of_le_length hh, lsCnt_append]

theorem lsTq_pop (h : Nat) (log : List Job) (hh : h < log.length) :
    lsTq h log = (if log[h]? = some none then 1 else 0) + lsTq (h + 1) log := by
  simp only [lsTq]
  rw [List.drop_eq_getElem_cons hh]
  simp only [lsCnt, List.getElem?_eq_getElem hh, Option.some.injEq]

theorem lsTq_empty (h : Nat) (log : List Job) (hh : log.length ≤ h) : lsTq h log = 0 := by
  simp only [lsTq, List.drop_eq_nil_of_le hh, lsCnt]

/-! ### base frames weigh nothing -/

theorem lsFr_base (rb : Bool) (rj : Job) (log : List Job) (ab : Option (RingPc Job)) {f : Frame}
    (h : lsB f = true) : lsFr rb rj log ab f = 0 := by
  cases f <;> first | rfl | (simp [lsB] at h)

theorem lsStk_base (rb : Bool) (rj : Job) (log : List Job) (ab : Option (RingPc Job)) {l : List Frame}
    (h : LsAllB l) : lsStk rb rj log ab l = 0 := by
  induction l generalizing ab with
  | nil => rfl
  | cons a l ih =>
    rw [lsAllB_cons] at h
    simp only [lsStk_cons, lsFr_base rb rj log ab h.1, ih _ h.2]

theorem lsC_of_caller {pc : RingPc Job} {c : Frame} (h : LW.callerOk pc (some c) = true) : lsC c = true := by
  simp only [LW.callerOk] at h
  split at h
  · cases c <;> first | rfl | (simp [LW.popCaller] at h)
  · cases c <;> first | rfl | (simp [LW.pushCaller] at h)

/-! ### one ring micro-step: thread-local data afterwards -/

def lsAfter (rb : Bool) (rj : Job) : RingRes Job → Bool × Job × Option (RingPc Job)
  | .cont pc' => (rb, rj, some pc')
  | .pushed ok => (ok, rj, none)
  | .popped none => (false, rj, none)
  | .popped (some none) => (true, none, none)
  | .popped (some (some j)) => (true, j, none)

def lsAfterStk : RingRes Job → List Frame → List Frame
  | .cont pc', rest => .ring pc' :: rest
  | .pushed _, rest => rest
  | .popped _, rest => rest

theorem ls_ring_desc (s : State) (t : Tid) (th : Thread) (pc : RingPc Job) (rest : List Frame) (p : Pool)
    (hp : s.pool = some p) (hst : th.stack = .ring pc :: rest) :
    ∃ th', (stepFrame s t th (.ring pc)).1.threads = upd s.threads t (some th') ∧
      (stepFrame s t th (.ring pc)).1.pool = some { p with ring := (ringStep p.ring pc).1 } ∧
      (stepFrame s t th (.ring pc)).1.nthreads = s.nthreads ∧
      th'.retB = (lsAfter th.retB th.retJob (ringStep p.ring pc).2).1 ∧
      th'.retJob = (lsAfter th.retB th.retJob (ringStep p.ring pc).2).2.1 ∧
      th'.stack = lsAfterStk (ringStep p.ring pc).2 rest := by
  simp only [stepFrame, hp]
  rcases hrs : ringStep p.ring pc with ⟨r', res⟩
  cases res with
  | cont pc' => exact ⟨_, rfl, rfl, rfl, rfl, rfl, by simp [Thread.cont, hst, lsAfterStk]⟩
  | pushed ok => exact ⟨_, rfl, rfl, rfl, rfl, rfl, by simp [Thread.cont, hst, lsAfterStk]⟩
  | popped o =>
    rcases o with _ | _ | j
    · exact ⟨_, rfl, rfl, rfl, rfl, rfl, by simp [Thread.cont, hst, lsAfterStk]⟩
    · exact ⟨_, rfl, rfl, rfl, rfl, rfl, by simp [Thread.cont, hst, lsAfterStk]⟩
    · exact ⟨_, rfl, rfl, rfl, rfl, rfl, by simp [Thread.cont, hst, lsAfterStk]⟩

/-! ### one ring micro-step: the count -/

set_option maxHeartbeats 4000000 in
/-- the caller's weight plus the terminate tickets in the queue does not grow -/
theorem ls_ring_pure (r : Ring Job) (pc : RingPc Job) (c : Frame) (rb : Bool) (rj : Job)
    (hcall : LW.callerOk pc (some c) = true) (hpay : lsPayC pc (some c) = true)
    (hht : r.head ≤ r.pushLog.length)
    (hcas : ∀ h, pc = .popCas h → r.head = h → h < r.pushLog.length)
    (hrel : ∀ x d, pc = .popRel x d → ∃ j, d = some j ∧ r.pushLog[x]? = some j) :
    lsFr (lsAfter rb rj (ringStep r pc).2).1 (lsAfter rb rj (ringStep r pc).2).2.1 (ringStep r pc).1.pushLog
        (lsAfter rb rj (ringStep r pc).2).2.2 c + lsTq r.head r.pushLog
      ≤ lsFr rb rj r.pushLog (some pc) c + lsTq (ringStep r pc).1.head (ringStep r pc).1.pushLog := by
  cases pc
  case pushCas d tk =>
    simp only [ringStep]
    split
    · next heq =>
      simp only [lsAfter, lsTq_push _ _ _ hht]
      cases c <;> simp [LW.callerOk, LW.isPopPc, LW.pushCaller] at hcall <;>
        simp [lsPayC, lsRestr, lsNonePc] at hpay <;>
        simp [lsFr, lsCapt, lsCaptPc, hpay]
      all_goals omega
    · simp only [lsAfter]
      cases c <;> simp [LW.callerOk, LW.isPopPc, LW.pushCaller] at hcall <;> simp [lsFr, lsCapt, lsCaptPc]
  case popCas h =>
    simp only [ringStep]
    split
    · next heq =>
      have hlt := hcas h rfl heq
      simp only [lsAfter]
      rw [heq, lsTq_pop h _ hlt]
      cases c <;> simp [LW.callerOk, LW.isPopPc, LW.popCaller] at hcall <;>
        simp [lsFr, lsServ, lsServPc]
      all_goals (split <;> omega)
    · simp only [lsAfter]
      cases c <;> simp [LW.callerOk, LW.isPopPc, LW.popCaller] at hcall <;> simp [lsFr, lsServ, lsServPc]
  case popRel x d =>
    obtain ⟨j, rfl, hj⟩ := hrel x d rfl
    simp only [ringStep, lsAfter, Ring.setSlot]
    cases c <;> simp [LW.callerOk, LW.isPopPc, LW.popCaller] at hcall <;>
      simp [lsFr, lsServ, lsServPc, hj]
    all_goals (cases j <;> simp)
  case pushRead d =>
    simp only [ringStep, lsAfter]
    cases c <;> simp [LW.callerOk, LW.isPopPc, LW.pushCaller] at hcall <;> simp [lsFr, lsCapt, lsCaptPc]
  case pushChk d tk =>
    simp only [ringStep]
    split <;> simp only [lsAfter] <;>
      cases c <;> simp [LW.callerOk, LW.isPopPc, LW.pushCaller] at hcall <;> simp [lsFr, lsCapt, lsCaptPc]
  case pushData d tk =>
    simp only [ringStep, lsAfter, Ring.setSlot]
    cases c <;> simp [LW.callerOk, LW.isPopPc, LW.pushCaller] at hcall <;> simp [lsFr, lsCapt, lsCaptPc]
  case pushPub d tk =>
    simp only [ringStep, lsAfter, Ring.setSlot]
    cases c <;> simp [LW.callerOk, LW.isPopPc, LW.pushCaller] at hcall <;> simp [lsFr, lsCapt, lsCaptPc]
  case popRead =>
    simp only [ringStep, lsAfter]
    cases c <;> simp [LW.callerOk, LW.isPopPc, LW.popCaller] at hcall <;> simp [lsFr, lsServ, lsServPc]
  case popChk h =>
    simp only [ringStep]
    split <;> simp only [lsAfter] <;>
      cases c <;> simp [LW.callerOk, LW.isPopPc, LW.popCaller] at hcall <;> simp [lsFr, lsServ, lsServPc]
  case popData h =>
    simp only [ringStep, lsAfter, Ring.setSlot]
    cases c <;> simp [LW.callerOk, LW.isPopPc, LW.popCaller] at hcall <;> simp [lsFr, lsServ, lsServPc]

/-- the pool fields a ring micro-step leaves alone -/
theorem ls_ring_log (r : Ring Job) (pc : RingPc Job) :
    (ringStep r pc).1.pushLog = r.pushLog ∨ ∃ d, (ringStep r pc).1.pushLog = r.pushLog ++ [d] := by
  cases pc <;> simp only [ringStep, Ring.setSlot]
  all_goals (try split)
  all_goals first | exact Or.inl trivial | exact Or.inl rfl | exact Or.inr ⟨_, rfl⟩

/-! ### the weight of a thread depends on the push log only through its claimed pop ticket -/

def lsTicket : Option (RingPc Job) → Option Nat
  | some (.popData x) | some (.popRel x _) => some x
  | _ => none

theorem lsFr_log (rb : Bool) (rj : Job) {log log' : List Job} {ab : Option (RingPc Job)} (f : Frame)
    (h : ∀ x, lsTicket ab = some x → log'[x]? = log[x]?) :
    lsFr rb rj log' ab f = lsFr rb rj log ab f := by
  cases f <;> simp only [lsFr]
  all_goals
    rcases ab with _ | pc
    · rfl
    · cases pc <;> simp only [lsServ, lsServPc]
      all_goals rw [h _ rfl]

theorem lsStk_log (rb : Bool) (rj : Job) {log log' : List Job} (ab : Option (RingPc Job)) (l : List Frame)
    (hab : ∀ x, lsTicket ab = some x → log'[x]? = log[x]?)
    (hl : ∀ f ∈ l, ∀ x, lsTicket (lsRingOf f) = some x → log'[x]? = log[x]?) :
    lsStk rb rj log' ab l = lsStk rb rj log ab l := by
  induction l generalizing ab with
  | nil => rfl
  | cons a l ih =>
    simp only [lsStk_cons]
    rw [lsFr_log rb rj a hab, ih _ (hl a (List.mem_cons_self ..)) (fun f hf => hl f (List.mem_cons_of_mem _ hf))]

end Nstd.Future.LS
