/-
  `spk_client_not_done`: while an unfinished non-worker thread other than the main thread exists the destructor
  has not left its push loop.
-/
import Nstd.Future.LiveShutdown6
import Nstd.Future.Safety8
set_option linter.unusedSimpArgs false
set_option linter.unusedVariables false
namespace Nstd.Future.SPK

open LS

theorem spk_is_client {cfg : Config} {s : State} {t : Tid} {th : Thread} (hr : Reach cfg s)
    (hth : s.threads t = some th) (hw : th.isWorker = false) (ht0 : t ≠ 0) : t ∈ s.clientTids := by
  rcases (Safe.reach_pinv hr).k3 t th hth with h | h | h
  · exact absurd h ht0
  · exact h
  · rw [hw] at h; cases h

theorem spk_not_allfin {cfg : Config} {s : State} {t : Tid} {th : Thread} (hr : Reach cfg s)
    (hth : s.threads t = some th) (hfin : th.finished = false) (hw : th.isWorker = false) (ht0 : t ≠ 0) :
    ¬ AllFin s := by
  intro hall
  obtain ⟨th2, h4, h5⟩ := hall t (spk_is_client hr hth hw ht0)
  rw [hth] at h4; injection h4 with h4; subst h4; rw [hfin] at h5; cases h5

theorem spk_client_not_done {cfg : Config} {s : State} {t : Tid} {th : Thread} (hr : Reach cfg s)
    (hth : s.threads t = some th) (hfin : th.finished = false) (hw : th.isWorker = false) (ht0 : t ≠ 0) :
    ¬ lsDone s :=
  fun hd => spk_not_allfin hr hth hfin hw ht0 (lse_done_allfin hr hd)

end Nstd.Future.SPK
