/-
  UNCONDITIONAL deadlock freedom of the repaired thread pool, RELATIVE to one remaining statement
  (C10 liveness, deadlock-freedom form; FULL micro-step model `Model.lean`, `cfg.repaired = true`, well-formed
  configurations, every schedule, any number of threads, any capacity).

  All side theorems (`no_stuck_producer_side`, `no_stuck_sleeper_on_deq`, `no_stuck_join_side`,
  `no_stuck_shutdown_side`, `no_stuck_while_a_worker_lives`) carry the hypothesis `∃ w, liveWorker s w`, but use it only
  at the very end, to turn "a job is queued" (`jobQueued s`: `head < tail`) into an enabled thread via
  `no_stuck_worker_side`.  Here that hypothesis is removed: everything is reduced to

      QueuedJobServed cfg  :=  ∀ s, Reach cfg s → jobQueued s → (∀ w, ¬ liveWorker s w) → ∃ t, enabled s t = true

  ("a queued job with no live worker ⇒ somebody can step": the spawn arithmetic of `ThreadPool::run`).

  Proved here (signatures):
    LR.sleeper_on_deq_pool   : cfg.repaired = true → Reach cfg s → asleepOnDeq s t → ∃ p, s.pool = some p
    sleeper_on_deq_reduces   : cfg.repaired = true → Reach cfg s → (∃ t, asleepOnDeq s t) →
                                 (∃ t, enabled s t = true) ∨ jobQueued s
    sleeper_in_join_reduces  : cfg.repaired = true → cfg.WellFormed → Reach cfg s →
                                 (∃ t f, topFrame s t = some (.sWaitCwake (f + 2)) ∧ t ∈ (s.sigs (f + 2)).waiters) →
                                 (∃ t, enabled s t = true) ∨ jobQueued s ∨ (∃ w, liveWorker s w) ∨ (∃ t, asleepOnDeq s t)
                               (the third disjunct is never produced: `LR.sleeper_in_join_reduces'` is the sharper form
                                without it)
    dead_state_has_queued_job : cfg.repaired = true → cfg.WellFormed → Reach cfg s → (∀ w, ¬ liveWorker s w) →
                                 (∃ t th, s.threads t = some th ∧ th.finished = false) →
                                 (∃ t, enabled s t = true) ∨ jobQueued s
    no_stuck_of_queuedJobServed : cfg.repaired = true → cfg.WellFormed → QueuedJobServed cfg → Reach cfg s →
                                 (∃ t th, s.threads t = some th ∧ th.finished = false) → ∃ t, enabled s t = true

  Argument of `dead_state_has_queued_job` (no live worker, nothing enabled, some thread unfinished).  The main thread is
  unfinished (`lg_main_outlives`) and has a top frame (`lg_unfinished_top`); by `global_deadlock_shape` it is
  `sWaitCwake σ` (in the wait set), `mJoin i` or `dJoin i`.
    * `dJoin i` blocked: the thread of ThreadContext `i` is unfinished and is a worker (`LS.ls_ctxw_reach`): live worker.
    * `mJoin i` blocked: client `clientTids[i]` is unfinished; its top frame is `sWaitCwake σ` (`mJoin`/`dJoin` occur
      only in thread 0).
    * a sleeper at `sWaitCwake σ`:  σ = 0 is a worker (`lg_nonworker_not_on_enq`), hence a live worker;
      σ = 1: `sleeper_on_deq_reduces` (the pool exists: below `sWaitCwake 1` sits `runStart`/`dPush`, `LP.adj_reach`;
      (J2)/(J1) of LiveProducer, queue full ⇒ `head < tail` since `cap > 0`);
      σ = f + 2: `sleeper_in_join_reduces` (token conservation `LJ.uncompleted_call_has_holder`: the token of the
      uncompleted current call is in the ring ⇒ `jobQueued s`; every other holder is impossible in a dead state, or is a
      sleeper on the dequeued signal ⇒ previous case).

  OPEN: `QueuedJobServed cfg` itself (hypothesis by design).
-/
import Nstd.Future.LiveAll
set_option linter.unusedSimpArgs false
set_option linter.unusedVariables false
namespace Nstd.Future

open LW LP LG

/-- the one remaining statement: a queued job with no live worker implies that some thread can step -/
def QueuedJobServed (cfg : Config) : Prop :=
  ∀ s, Reach cfg s → jobQueued s → (∀ w, ¬ liveWorker s w) → ∃ t, enabled s t = true

variable {cfg : Config} {s : State}

namespace LR

theorem lr_dead_of_not (h : ¬ ∃ t, enabled s t = true) : ∀ t, enabled s t = false := by
  intro t
  cases he : enabled s t
  · rfl
  · exact absurd ⟨t, he⟩ h

/-- a thread with a top frame lives in a state whose pool has not been deleted -/
theorem lr_alive_of_top {t : Tid} {σ : Nat} (hr : Reach cfg s) (htop : topFrame s t = some (.sWaitCwake σ)) :
    poolAlive s := by
  cases Classical.em (poolAlive s) with
  | inl h => exact h
  | inr h => have := (dead_top hr h htop).2; cases this

/-- a thread sleeping in `_dequeuedSignal.wait()` is inside a back-pressure loop (`runStart`/`dPush` directly below):
    the pool exists -/
theorem sleeper_on_deq_pool {t : Tid} (hrep : cfg.repaired = true) (hr : Reach cfg s) (h : asleepOnDeq s t) :
    ∃ p, s.pool = some p := by
  obtain ⟨htop, _⟩ := h
  obtain ⟨th, rest, hth, hst⟩ := topFrame_some htop
  have hl : poolAlive s := lr_alive_of_top hr htop
  have hadj := adj_reach hrep hr t th hth
  rw [hst] at hadj
  have h2 : optB isRestart rest.head? = true := hadj.1 rfl
  cases rest with
  | nil => simp [optB] at h2
  | cons b l =>
    simp only [List.head?_cons, optB] at h2
    have hb : b ∈ th.stack := by rw [hst]; simp
    have hne : s.pool ≠ none := by
      cases hD : Safe.dFr b with
      | true => exact (Safe.reach_pinv hr).pm t th hth ⟨b, hb, hD⟩
      | false =>
        have htp : s.tp = true := by
          cases htp : s.tp with
          | true => rfl
          | false =>
            have hpre := ((reach_inv hr).early hl htp).pre t th hth b hb
            cases b <;> simp [isRestart] at h2 <;> first | (simp [prePool] at hpre; done) | (simp [Safe.dFr] at hD; done)
        exact (Safe.reach_pinv hr).p1 hl htp
    cases hp : s.pool with
    | none => exact absurd hp hne
    | some p => exact ⟨p, rfl⟩

end LR

open LR

/-- PRODUCER SIDE WITHOUT THE WORKER HYPOTHESIS: in the repaired system, whenever a thread sleeps on the dequeued
    signal, some thread can step or a job is queued (free slot: (J2)/(J1) of `LiveProducer`; full queue: `cap > 0`) -/
theorem sleeper_on_deq_reduces (hrep : cfg.repaired = true) (hr : Reach cfg s) (hsl : ∃ t, asleepOnDeq s t) :
    (∃ t, enabled s t = true) ∨ jobQueued s := by
  apply Classical.byContradiction
  intro hcon
  have hne : ∀ t, enabled s t = false := lr_dead_of_not (fun h => hcon (Or.inl h))
  have hnq : ¬ jobQueued s := fun h => hcon (Or.inr h)
  obtain ⟨P, hPtop, hPw⟩ := hsl
  obtain ⟨p, hp⟩ := sleeper_on_deq_pool hrep hr ⟨hPtop, hPw⟩
  by_cases hlt : p.ring.tail < p.ring.head + p.ring.cap
  · obtain ⟨thP, restP, hthP, hstP⟩ := topFrame_some hPtop
    -- the sleeper is a committed pusher
    have hcom : ∃ u, commitAt s (tlOf s) u = true :=
      ⟨P, by simp [commitAt, hthP, hstP, commitP_cons, commitTop]⟩
    have hfreeS : freeS s := by simp only [freeS, hdOf, tlOf, cpOf, hp]; exact hlt
    have hnd := pool_signal_neverDestroyed hr (by omega : 1 < 2) hp
    -- in a dead state every top frame is `sWaitCwake`, `mJoin` or `dJoin`
    have hshape : ∀ (t : Tid) (th : Thread) (fr : Frame) (rest : List Frame), s.threads t = some th →
        th.stack = fr :: rest → (∃ σ, fr = .sWaitCwake σ) ∨ (∃ i, fr = .mJoin i) ∨ (∃ i, fr = .dJoin i) := by
      intro t th fr rest hth hst
      rcases global_deadlock_shape hr hne (Nstd.Future.topFrame_of_stack hth hst) with ⟨σ, h, _⟩ | h | h
      · exact Or.inl ⟨σ, h⟩
      · exact Or.inr (Or.inl h)
      · exact Or.inr (Or.inr h)
    -- hence the Signal of the dequeued FastSignal is not set
    have hsig : sig1 s = true → False := by
      intro hs
      obtain ⟨u, _, hu⟩ := waiter_of_set_signal_has_enabled_setter hr hnd hPw hs
      rw [hne u] at hu; cases hu
    -- (J2): the free slot is covered
    rcases j2_reach hrep hr hfreeS hcom with he | hs | hlt2 | ⟨v, hv⟩
    · -- (J1)
      rcases j1_reach hrep hr he with hs | ⟨u, hu⟩
      · exact hsig hs
      · obtain ⟨th, fr, rest, hth, hst, hw1⟩ := w1PAt_iff.mp hu
        exact w1P_not_dead hw1 (hshape u th fr rest hth hst)
    · exact hsig hs
    · -- the queue is not empty
      exact hnq ⟨p, hp, by simpa only [hdOf, tlOf, hp] using hlt2⟩
    · obtain ⟨th, fr, rest, hth, hst, hwit⟩ := witAtP_iff.mp hv
      rw [hst] at hwit
      exact witP_not_dead hwit (hshape v th fr rest hth hst)
  · have hcap := full_cap hr hp
    have hpos := capOf_pos cfg
    exact hnq ⟨p, hp, by omega⟩

namespace LR

/-- the argument of `LJ.no_stuck_join_side_of` without the worker hypothesis: the token of the uncompleted current
    call of the future is queued in the ring -/
theorem sleeper_in_join_reduces_of (hJ : LJ.JoinFacts s) (hrep : cfg.repaired = true) (hwf : cfg.WellFormed)
    (hr : Reach cfg s)
    (hsl : ∃ t f, topFrame s t = some (.sWaitCwake (f + 2)) ∧ t ∈ (s.sigs (f + 2)).waiters)
    (hdeq : ¬ ∃ t, asleepOnDeq s t) : (∃ t, enabled s t = true) ∨ jobQueued s := by
  apply Classical.byContradiction
  intro hcon
  have hdead : ∀ t, enabled s t = false := lr_dead_of_not (fun h => hcon (Or.inl h))
  have hnq : ¬ jobQueued s := fun h => hcon (Or.inr h)
  obtain ⟨t, f, htop, hwait⟩ := hsl
  have hl : poolAlive s := lr_alive_of_top hr htop
  have hjn := hJ.jw t _ f htop rfl
  obtain ⟨c, hc⟩ := hJ.jc f hjn
  obtain ⟨r, hev, _⟩ := (reach_inv0 hr).curLt f c hc
  have hcl : c < s.nextCall := (reach_inv0 hr).evLt c r hev
  cases hcomp : s.completed c with
  | true =>
    rcases hJ.flag f c hc hcomp hjn with hsg | ⟨u, hex⟩ | ⟨u, hps | hps⟩
    · obtain ⟨u, _, hu⟩ := LJ.future_sleeper_has_setter hwf hrep hr hwait hsg
      rw [hdead u] at hu; cases hu
    · exact LJ.role_dead hr hdead hex
    · exact LJ.role_dead hr hdead hps
    · exact LJ.role_dead hr hdead hps
  | false =>
    rcases LJ.uncompleted_call_has_holder hr hl hcl hcomp with ⟨u, thu, hthu, hfin, hwt⟩ | ⟨p, x, hp, h1, h2, _⟩ |
      ⟨p, x, u, thu, hp, _, hthu, hfin, hx⟩
    · -- a thread holds the token
      rcases LJ.weight_pos_cases hwt with ⟨a, l, hst, ha⟩ | ⟨fr, hfr, hfw⟩
      · have ht := LJ.topFrame_of_stack hthu hst
        rcases LJ.dead_top_kind hr hdead ht with ⟨σ, rfl, _⟩ | ⟨i, rfl⟩ | ⟨i, rfl⟩ <;> simp [topW, fw] at ha
      · cases hst : thu.stack with
        | nil => rw [hst] at hfr; cases hfr
        | cons a l =>
          rw [hst] at hfr
          simp only [List.tail_cons] at hfr
          have ht := LJ.topFrame_of_stack hthu hst
          rcases LJ.dead_top_kind hr hdead ht with ⟨σ, rfl, hwt2⟩ | ⟨i, rfl⟩ | ⟨i, rfl⟩
          · -- asleep on a signal
            have hσ : σ = 0 ∨ σ = 1 ∨ 2 ≤ σ := by omega
            rcases hσ with rfl | rfl | hσ
            · have := hJ.fw0 u thu _ l hthu hst rfl fr hfr c
              omega
            · exact hdeq ⟨u, ht, hwt2⟩
            · have hpa := hJ.jt u thu _ l σ hthu hst rfl hσ fr hfr c hfw
              have := hJ.np f c hc u thu fr hthu (by rw [hst]; exact List.mem_cons_of_mem _ hfr)
              rw [hpa] at this; cases this
          · have hbo : BotOnly (.mJoin i :: l) := by rw [← hst]; exact (reach_join hr).botOnly u thu hthu
            have := botOnly_cons_bot rfl hbo
            subst this; cases hfr
          · have hbo : BotOnly (.dJoin i :: l) := by rw [← hst]; exact (reach_join hr).botOnly u thu hthu
            have := botOnly_cons_bot rfl hbo
            subst this; cases hfr
    · -- the job is queued
      exact hnq ⟨p, hp, by omega⟩
    · -- a popper is about to read it
      have ht : topFrame s u = some (.ring (.popData x)) := by simp [topFrame, hthu, hx]
      rcases LJ.dead_top_kind hr hdead ht with ⟨σ, h, _⟩ | ⟨i, h⟩ | ⟨i, h⟩ <;> cases h

/-- sharper form of `sleeper_in_join_reduces` -/
theorem sleeper_in_join_reduces' (hrep : cfg.repaired = true) (hwf : cfg.WellFormed) (hr : Reach cfg s)
    (hsl : ∃ t f, topFrame s t = some (.sWaitCwake (f + 2)) ∧ t ∈ (s.sigs (f + 2)).waiters)
    (hdeq : ¬ ∃ t, asleepOnDeq s t) : (∃ t, enabled s t = true) ∨ jobQueued s :=
  sleeper_in_join_reduces_of (LJ.joinFacts_of_reach hwf hr (LJ.reach_flag hwf hr)) hrep hwf hr hsl hdeq

end LR

/-- JOIN SIDE WITHOUT THE WORKER HYPOTHESIS: in the repaired system (well-formed configuration), whenever a client
    sleeps in `join()` on the Signal of its future, some thread can step, or a job is queued, or a worker is alive, or
    a thread sleeps on the dequeued signal (then `sleeper_on_deq_reduces` applies) -/
theorem sleeper_in_join_reduces (hrep : cfg.repaired = true) (hwf : cfg.WellFormed) (hr : Reach cfg s)
    (hsl : ∃ t f, topFrame s t = some (.sWaitCwake (f + 2)) ∧ t ∈ (s.sigs (f + 2)).waiters) :
    (∃ t, enabled s t = true) ∨ jobQueued s ∨ (∃ w, liveWorker s w) ∨ (∃ t, asleepOnDeq s t) := by
  cases Classical.em (∃ t, asleepOnDeq s t) with
  | inl hd => exact Or.inr (Or.inr (Or.inr hd))
  | inr hd =>
    rcases LR.sleeper_in_join_reduces' hrep hwf hr hsl hd with h | h
    · exact Or.inl h
    · exact Or.inr (Or.inl h)

/-- a thread asleep in `pthread_cond_wait` of any signal, with no live worker: some thread can step or a job is
    queued -/
theorem LR.sleeper_reduces (hrep : cfg.repaired = true) (hwf : cfg.WellFormed) (hr : Reach cfg s)
    (hnw : ∀ w, ¬ liveWorker s w) {t : Tid} {σ : Nat} (htop : topFrame s t = some (.sWaitCwake σ))
    (hin : t ∈ (s.sigs σ).waiters) : (∃ t, enabled s t = true) ∨ jobQueued s := by
  match σ, htop, hin with
  | 0, htop, hin =>
    exfalso
    obtain ⟨th, rest, hth, hst⟩ := topFrame_some htop
    have hfin := unfinished_of_stack hr hth hst
    cases hw : th.isWorker with
    | true => exact hnw t ⟨th, hth, hw, hfin⟩
    | false => exact lg_nonworker_not_on_enq hr hth hw htop
  | 1, htop, hin => exact sleeper_on_deq_reduces hrep hr ⟨t, htop, hin⟩
  | f + 2, htop, hin =>
    rcases sleeper_in_join_reduces hrep hwf hr ⟨t, f, htop, hin⟩ with h | h | ⟨w, h⟩ | h
    · exact Or.inl h
    · exact Or.inr h
    · exact absurd h (hnw w)
    · exact sleeper_on_deq_reduces hrep hr h

/-- in the repaired system, a state with an unfinished thread and no live worker has an enabled thread or a queued
    job -/
theorem dead_state_has_queued_job (hrep : cfg.repaired = true) (hwf : cfg.WellFormed) (h : Reach cfg s)
    (hnw : ∀ w, ¬ liveWorker s w) (hl : ∃ t th, s.threads t = some th ∧ th.finished = false) :
    (∃ t, enabled s t = true) ∨ jobQueued s := by
  apply Classical.byContradiction
  intro hcon
  have hdead : ∀ t, enabled s t = false := lr_dead_of_not (fun h => hcon (Or.inl h))
  -- no thread is asleep on a signal
  have hsleep : ∀ (t : Tid) (σ : Nat), topFrame s t = some (.sWaitCwake σ) → t ∈ (s.sigs σ).waiters → False :=
    fun t σ htop hin => hcon (LR.sleeper_reduces hrep hwf h hnw htop hin)
  obtain ⟨t, th, hth, hf⟩ := hl
  obtain ⟨th0, h0, h0w⟩ := (ginv_reach h).main0
  -- the main thread is alive and has a top frame
  have h0f : th0.finished = false := by
    by_cases ht : t = 0
    · subst ht; rw [h0] at hth; injection hth with hth; subst hth; exact hf
    · exact (lg_main_outlives h ht hth hf h0).1
  obtain ⟨fr0, hfr0⟩ := lg_unfinished_top hrep h h0 h0f
  rcases global_deadlock_shape h hdead hfr0 with ⟨σ, rfl, hin, _⟩ | ⟨i, rfl⟩ | ⟨i, rfl⟩
  · exact hsleep 0 σ hfr0 hin
  · -- the main thread joins client `i`, which is unfinished
    have hb : blockedFrame s 0 (.mJoin i) = true := by
      cases hb : blockedFrame s 0 (.mJoin i)
      · have := enabled_of_top h hfr0 hb; rw [hdead 0] at this; cases this
      · rfl
    cases hc : s.clientTids[i]? with
    | none => simp [blockedFrame, hc] at hb
    | some c =>
      cases hthc : s.threads c with
      | none => simp [blockedFrame, hc, hthc] at hb
      | some thc =>
        simp only [blockedFrame, hc, hthc, Bool.not_eq_true'] at hb
        have hcm : c ∈ s.clientTids := List.mem_of_getElem? hc
        obtain ⟨frc, hfrc⟩ := lg_unfinished_top hrep h hthc hb
        rcases global_deadlock_shape h hdead hfrc with ⟨σ, rfl, hin, _⟩ | hjn | hjn
        · exact hsleep c σ hfrc hin
        · exact lg_client_not_main h hcm (lg_join_frames_main_only h hfrc (Or.inl hjn))
        · exact lg_client_not_main h hcm (lg_join_frames_main_only h hfrc (Or.inr hjn))
  · -- the main thread joins a worker in `~ThreadPool`: that worker is alive
    have hb : blockedFrame s 0 (.dJoin i) = true := by
      cases hb : blockedFrame s 0 (.dJoin i) with
      | true => rfl
      | false => have := enabled_of_top h hfr0 hb; rw [hdead 0] at this; cases this
    cases hp : s.pool with
    | none => simp [blockedFrame, hp] at hb
    | some p =>
      cases hc : p.ctxs[i]? with
      | none => simp [blockedFrame, hp, hc] at hb
      | some c =>
        rcases c with ⟨cid, ctid, cterm⟩
        cases ctid with
        | none => simp [blockedFrame, hp, hc] at hb
        | some w =>
          cases hthw : s.threads w with
          | none => simp [blockedFrame, hp, hc, hthw] at hb
          | some thw =>
            simp [blockedFrame, hp, hc, hthw] at hb
            obtain ⟨thw2, h1, hw⟩ := LS.ls_ctxw_reach hrep h p _ w hp (List.mem_of_getElem? hc) rfl
            rw [hthw] at h1; injection h1 with h1; subst h1
            exact hnw w ⟨thw, hthw, hw, hb⟩

/-- THE REPAIRED SYSTEM IS NEVER DEADLOCKED (every schedule, any number of threads, any capacity; each future used by
    one client thread), relative to `QueuedJobServed`: while some thread is unfinished, some thread can step -/
theorem no_stuck_of_queuedJobServed (hrep : cfg.repaired = true) (hwf : cfg.WellFormed) (hS : QueuedJobServed cfg)
    (h : Reach cfg s) (hl : ∃ t th, s.threads t = some th ∧ th.finished = false) : ∃ t, enabled s t = true := by
  cases Classical.em (∃ w, liveWorker s w) with
  | inl hw => exact no_stuck_while_a_worker_lives hrep hwf h hw
  | inr hnw =>
    have hnw' : ∀ w, ¬ liveWorker s w := fun w hw => hnw ⟨w, hw⟩
    rcases dead_state_has_queued_job hrep hwf h hnw' hl with he | hq
    · exact he
    · exact hS s h hq hnw'

end Nstd.Future
