/-
  FIFO potential of a queued ticket never decreases: final statements.

  `SPP.spPot s p x` = `_threadCount` (counted as 0 once the destructor has left its push loop, `lsDone s`)
      + terminate tickets `≥ x` in the push log − O-weight of all threads (`SP.spOAt`: retire jobs in flight after the
      successful CAS of their push, terminate jobs queued by the destructor loop).
  `fifo_potential_mono`: across every step of the repaired model that neither creates nor deletes the pool the
  potential of a fixed ticket position `x ≤ pushLog.length` does not decrease.
-/
import Nstd.Future.LiveSpawnP1
import Nstd.Future.LiveSpawnP2
import Nstd.Future.LiveSpawnP3
import Nstd.Future.LiveSpawnP4
set_option linter.unusedSimpArgs false
set_option linter.unusedVariables false
namespace Nstd.Future

open LS SP

theorem fifo_potential_mono {cfg : Config} {s s' : State} {t : Tid} {o : List String} {p p' : Pool}
    (hrep : cfg.repaired = true) (hr : Reach cfg s)
    (hs : step s t = some (s', o)) (hp : s.pool = some p) (hp' : s'.pool = some p') {x : Nat}
    (hx : x ≤ p.ring.pushLog.length) :
    SPP.spPot s p x ≤ SPP.spPot s' p' x := by
  have hI := lse_reach hrep hr
  have hI' := lse_reach hrep (Reach.step t hr hs)
  obtain ⟨th, fr, rest, hth, hst, hfin, rfl⟩ := step_inv hs
  cases hnr : lsRingOf fr with
  | some pc =>
    have hfr : fr = .ring pc := by cases fr <;> simp [lsRingOf] at hnr; rw [hnr]
    subst hfr
    exact SPP.spp_pot_ring hrep hr hI hth hst hp hp' hx
  | none =>
    by_cases hni : fr = .mInit
    · subst hni
      have hinit := (reach_inv hr).initOnly t th hth (by rw [hst]; rfl)
      rw [hinit] at hp
      simp [State.init] at hp
    · by_cases hc : ∃ c, fr = .cRdTp2 c ∧ s.tp = false
      · obtain ⟨c, rfl, htp⟩ := hc
        have hp2 : p' = mkPool 0x100 0 4 := by
          simp [stepFrame, htp, setThread] at hp'
          exact hp'.symm
        have hl : poolAlive s := by
          cases Classical.em (poolAlive s) with
          | inl h => exact h
          | inr hl =>
            exfalso
            obtain ⟨hall, _, _⟩ := (reach_join hr).dead hl
            have h3 := lse_allfin_nonclient hr hall hth hfin
            rw [hst, allNC_cons] at h3; simp [ncFr] at h3
        have hE := (reach_inv hr).early hl htp
        have hpm := hE.ctxs p hp
        exact SPP.spp_pot_zero hI' hp hp' (by rw [hpm]; rfl) (by rw [hpm]; rfl) (by rw [hp2]; rfl)
      · refine SPP.spp_pot_plain hrep hr hI hth hst hfin hnr hni ?_ hp hp'
        intro c hfr
        cases htp : s.tp with
        | true => rfl
        | false => exact absurd ⟨c, hfr, htp⟩ hc

/-- while a client thread is alive the destructor loop has not started and at most one retire job is in flight -/
theorem retire_in_flight_le_one {cfg : Config} {s : State} {p : Pool} (hrep : cfg.repaired = true)
    (hr : Reach cfg s) (hp : s.pool = some p) {u : Tid} {thu : Thread} (hu : s.threads u = some thu)
    (hf : thu.finished = false) (hcl : thu.isWorker = false) (hu0 : u ≠ 0) :
    tsum s.nthreads (SP.spOAt s) ≤ 1 :=
  SPP.spp_O_le_one hrep hr hp hu hf hcl hu0

end Nstd.Future
