/-
  Deadlock freedom of the repaired thread pool while a worker thread is alive (C10 liveness), assembled from the side
  theorems, inside the FULL micro-step model (`Model.lean`, `cfg.repaired = true`), for every schedule:

      no_stuck_while_a_worker_lives_of :
        cfg.repaired = true → JoinSide cfg → ShutdownSide cfg → Reach cfg s → (∃ w, liveWorker s w) →
          ∃ t, enabled s t = true

  `JoinSide` (no thread sleeps for ever in `Future::join`, i.e. on a future signal) and `ShutdownSide` (`~ThreadPool`
  never waits for ever for a worker to exit) are the statements of the two side theorems proved elsewhere; they are
  explicit hypotheses here.  Used without hypothesis: `no_stuck_sleeper_on_deq` (LiveProducer, which contains
  `no_stuck_worker_side`), `global_deadlock_shape` (Progress), `reach_join` (SimRing5), `reach_finInv` (Progress6),
  `LW.stk_reach` (LiveWorker2).

  Argument.  Assume no thread is enabled and worker `W` is alive.
    * `W` is not the main thread and not a client (`lg_worker_not_main`, `lg_client_not_worker`), so it is registered in
      `_threads` of an existing pool (`FinInv.reg`): the pool exists (`lg_live_worker_pool`).
    * The main thread outlives every other thread (`lg_main_outlives`), so it is unfinished and has a top frame
      (`lg_unfinished_top`).  By `global_deadlock_shape` that frame is `sWaitCwake σ` (in the wait set), `mJoin i` or
      `dJoin i`.
    * A sleeper on the dequeued signal (σ = 1) contradicts `no_stuck_sleeper_on_deq`, a sleeper on a future signal
      (σ ≥ 2) contradicts `JoinSide`; a sleeper on the enqueued signal (σ = 0) is a worker
      (`lg_nonworker_not_on_enq`) -- the main thread and the clients are not.
    * `dJoin i` contradicts `ShutdownSide`.
    * `mJoin i` blocked: client `clientTids[i]` exists and is unfinished; its top frame is again `sWaitCwake σ` (same
      three cases) -- `mJoin`/`dJoin` occur only in thread 0 (`reach_join`), and a client is not thread 0.

  LiveGlue1  vocabulary, per-frame facts (`shapeG`, `bot_step`, `exit_step`)
  LiveGlue2  invariants `GInv` (`ginv_reach`), `MainQ` (`mainQ_reach`)
  LiveGlue   (this file) named corollaries and the theorem

  OPEN: nothing in this file (the two side theorems are hypotheses by design).
-/
import Nstd.Future.LiveGlue2
import Nstd.Future.LiveWorker
import Nstd.Future.LiveProducer
set_option linter.unusedVariables false
namespace Nstd.Future

open LW LG

/-- statement of the join side theorem: a thread sleeping on the signal of a future, while a worker is alive -/
def JoinSide (cfg : Config) : Prop :=
  ∀ s, Reach cfg s → (∃ t f, topFrame s t = some (.sWaitCwake (f + 2)) ∧ t ∈ (s.sigs (f + 2)).waiters) →
    (∃ w, liveWorker s w) → ∃ t, enabled s t = true

/-- statement of the shutdown side theorem: the main thread joining a worker in `~ThreadPool` -/
def ShutdownSide (cfg : Config) : Prop :=
  ∀ s, Reach cfg s → (∃ i, topFrame s 0 = some (.dJoin i)) → ∃ t, enabled s t = true

variable {cfg : Config} {s : State}

/-! ### named invariants (consequences of `GInv`, `MainQ`, `LW.StkInv`) -/

/-- thread 0 (the main thread) always exists -/
theorem lg_main_exists (hr : Reach cfg s) : ∃ th0, s.threads 0 = some th0 := by
  obtain ⟨th0, h0, _⟩ := (ginv_reach hr).main0; exact ⟨th0, h0⟩

/-- worker threads are created only by `runSpStart`, with a fresh thread id: a worker is never thread 0 -/
theorem lg_worker_not_main {w : Tid} {th : Thread} (hr : Reach cfg s) (hth : s.threads w = some th)
    (hw : th.isWorker = true) : w ≠ 0 := by
  intro e; subst e
  obtain ⟨th0, h0, h0w⟩ := (ginv_reach hr).main0
  rw [h0] at hth; injection hth with hth; subst hth
  rw [hw] at h0w; cases h0w

/-- a client thread (created by `mSpawn`) is not the main thread -/
theorem lg_client_not_main {w : Tid} (hr : Reach cfg s) (hw : w ∈ s.clientTids) : w ≠ 0 :=
  ((ginv_reach hr).cl w hw).1

/-- a client thread is not a worker -/
theorem lg_client_not_worker {w : Tid} {th : Thread} (hr : Reach cfg s) (hw : w ∈ s.clientTids)
    (hth : s.threads w = some th) : th.isWorker = false := by
  obtain ⟨_, thx, hx, hxw⟩ := (ginv_reach hr).cl w hw
  rw [hth] at hx; injection hx with hx; subst hx; exact hxw

/-- a thread that is not a worker runs no worker-only code (`ThreadContext::proc`, `_enqueuedSignal.wait()`) -/
theorem lg_nonworker_noWO {t : Tid} {th : Thread} (hr : Reach cfg s) (hth : s.threads t = some th)
    (hw : th.isWorker = false) : NoWO th.stack := (ginv_reach hr).nowo t th hth hw

/-- only workers sleep on the enqueued signal -/
theorem lg_nonworker_not_on_enq {t : Tid} {th : Thread} (hr : Reach cfg s) (hth : s.threads t = some th)
    (hw : th.isWorker = false) : topFrame s t ≠ some (.sWaitCwake 0) := by
  intro htop
  obtain ⟨th', rest, hth', hst⟩ := topFrame_some htop
  rw [hth] at hth'; injection hth' with hth'; subst hth'
  have := lg_nonworker_noWO hr hth hw (.sWaitCwake 0) (by rw [hst]; exact List.mem_cons_self ..)
  simp [wOnly] at this

/-- frames that never return (`LW.loopFr`, e.g. `tExit`, the main thread's own frames) sit at the bottom of their stack -/
theorem lg_loop_frames_at_bottom {t : Tid} {th : Thread} (hr : Reach cfg s) (hth : s.threads t = some th) :
    LoopBot th.stack := (ginv_reach hr).lb t th hth

/-- an unfinished thread has a non-empty stack (threads finish only in `tExit`, which empties the stack and sets
    `finished` together; every other frame leaves a frame that never returns on the stack) -/
theorem lg_unfinished_top {t : Tid} {th : Thread} (hrep : cfg.repaired = true) (hr : Reach cfg s)
    (hth : s.threads t = some th) (hf : th.finished = false) : ∃ fr, topFrame s t = some fr := by
  obtain ⟨f, hf1, _⟩ := (stk_reach hrep hr).loop t th hth hf
  cases hst : th.stack with
  | nil => rw [hst] at hf1; cases hf1
  | cons a l => exact ⟨a, by simp only [topFrame, hth, hst]; rfl⟩

/-- the main thread outlives every other thread: while some other thread is unfinished, the main thread is unfinished
    and the bottom frame of its stack is a frame of its own code (`mInit` ... `dFin`) -/
theorem lg_main_outlives {u : Tid} {thu th0 : Thread} (hr : Reach cfg s) (hu : u ≠ 0)
    (hthu : s.threads u = some thu) (hf : thu.finished = false) (h0 : s.threads 0 = some th0) :
    th0.finished = false ∧ mainBot th0.stack = true := by
  rcases mainQ_reach hr th0 h0 with h1 | ⟨_, h2⟩
  · exact h1
  · have := h2 u thu hu hthu; rw [hf] at this; cases this

/-- while a worker is alive the pool exists -/
theorem lg_live_worker_pool {w : Tid} (hr : Reach cfg s) (hw : liveWorker s w) : ∃ p, s.pool = some p := by
  obtain ⟨th, hth, hww, hf⟩ := hw
  rcases (reach_finInv hr).reg w th hth hf with h1 | h1 | ⟨p, _, hp, _⟩
  · exact absurd h1 (lg_worker_not_main hr hth hww)
  · have := lg_client_not_worker hr h1 hth; rw [hww] at this; cases this
  · exact ⟨p, hp⟩

/-- the frames `mJoin`/`dJoin` occur only in thread 0 -/
theorem lg_join_frames_main_only {t : Tid} {fr : Frame} (hr : Reach cfg s) (ht : topFrame s t = some fr)
    (hfr : (∃ i, fr = .mJoin i) ∨ (∃ i, fr = .dJoin i)) : t = 0 := by
  cases Nat.decEq t 0 with
  | isTrue h => exact h
  | isFalse h =>
    obtain ⟨th, rest, hth, hst⟩ := topFrame_some ht
    have := (reach_join hr).mainOnly t th hth h fr (by rw [hst]; exact List.mem_cons_self ..)
    rcases hfr with ⟨i, rfl⟩ | ⟨i, rfl⟩ <;> cases this

/-- in a dead state of the repaired system in which a worker is alive, a sleeping thread sleeps on the enqueued
    signal (given the join side theorem; the dequeued signal is excluded by `no_stuck_sleeper_on_deq`) -/
theorem lg_dead_sleeper_on_enq (hrep : cfg.repaired = true) (hj : JoinSide cfg) (hr : Reach cfg s)
    (hw : ∃ w, liveWorker s w) (hdead : ∀ u, enabled s u = false) {t : Tid} {σ : Nat}
    (ht : topFrame s t = some (.sWaitCwake σ)) (hin : t ∈ (s.sigs σ).waiters) : σ = 0 := by
  obtain ⟨W, hW⟩ := hw
  match σ, ht, hin with
  | 0, _, _ => rfl
  | 1, ht, hin =>
    obtain ⟨p, hp⟩ := lg_live_worker_pool hr hW
    obtain ⟨u, hu⟩ := no_stuck_sleeper_on_deq hrep hr hp ⟨t, ht, hin⟩ ⟨W, hW⟩
    rw [hdead u] at hu; cases hu
  | f + 2, ht, hin =>
    obtain ⟨u, hu⟩ := hj s hr ⟨t, f, ht, hin⟩ ⟨W, hW⟩
    rw [hdead u] at hu; cases hu

/-- ... hence a thread that is not a worker (the main thread, a client) is not asleep in `pthread_cond_wait` at all -/
theorem lg_dead_nonworker_not_asleep (hrep : cfg.repaired = true) (hj : JoinSide cfg) (hr : Reach cfg s)
    (hw : ∃ w, liveWorker s w) (hdead : ∀ u, enabled s u = false) {t : Tid} {th : Thread} {σ : Nat}
    (hth : s.threads t = some th) (hnw : th.isWorker = false)
    (ht : topFrame s t = some (.sWaitCwake σ)) (hin : t ∈ (s.sigs σ).waiters) : False := by
  have := lg_dead_sleeper_on_enq hrep hj hr hw hdead ht hin
  subst this
  exact lg_nonworker_not_on_enq hr hth hnw ht

/-! ### the theorem -/

/-- given the join side and the shutdown side theorems, the repaired system is never deadlocked while a worker thread
    is alive -/
theorem no_stuck_while_a_worker_lives_of (hrep : cfg.repaired = true) (hj : JoinSide cfg) (hs : ShutdownSide cfg)
    (h : Reach cfg s) (hw : ∃ w, liveWorker s w) : ∃ t, enabled s t = true := by
  apply Classical.byContradiction
  intro hcon
  have hdead : ∀ t, enabled s t = false := by
    intro t
    cases he : enabled s t
    · rfl
    · exact absurd ⟨t, he⟩ hcon
  obtain ⟨W, thW, hthW, hWw, hWf⟩ := hw
  have hw : ∃ w, liveWorker s w := ⟨W, thW, hthW, hWw, hWf⟩
  obtain ⟨th0, h0, h0w⟩ := (ginv_reach h).main0
  -- the main thread is alive and has a top frame
  have h0f := (lg_main_outlives h (lg_worker_not_main h hthW hWw) hthW hWf h0).1
  obtain ⟨fr0, hfr0⟩ := lg_unfinished_top hrep h h0 h0f
  rcases global_deadlock_shape h hdead hfr0 with ⟨σ, rfl, hin, _⟩ | ⟨i, rfl⟩ | ⟨i, rfl⟩
  · exact lg_dead_nonworker_not_asleep hrep hj h hw hdead h0 h0w hfr0 hin
  · -- the main thread joins client `i`, which is unfinished
    have hb : blockedFrame s 0 (.mJoin i) = true := by
      cases hb : blockedFrame s 0 (.mJoin i)
      · have := enabled_of_top h hfr0 hb; rw [hdead 0] at this; cases this
      · rfl
    cases hc : s.clientTids[i]? with
    | none => simp [blockedFrame, hc] at hb
    | some c =>
      cases hthc : s.threads c with
      | none => simp [blockedFrame, hc, hthc] at hb
      | some thc =>
        simp only [blockedFrame, hc, hthc, Bool.not_eq_true'] at hb
        have hcm : c ∈ s.clientTids := List.mem_of_getElem? hc
        obtain ⟨frc, hfrc⟩ := lg_unfinished_top hrep h hthc hb
        rcases global_deadlock_shape h hdead hfrc with ⟨σ, rfl, hin, _⟩ | hjn | hjn
        · exact lg_dead_nonworker_not_asleep hrep hj h hw hdead hthc (lg_client_not_worker h hcm hthc) hfrc hin
        · exact lg_client_not_main h hcm (lg_join_frames_main_only h hfrc (Or.inl hjn))
        · exact lg_client_not_main h hcm (lg_join_frames_main_only h hfrc (Or.inr hjn))
  · -- the main thread joins a worker in `~ThreadPool`
    obtain ⟨u, hu⟩ := hs s h ⟨i, hfr0⟩
    rw [hdead u] at hu; cases hu

end Nstd.Future
