/-
  Spawn side of deadlock freedom ("a queued job is served"), part 1: vocabulary.

  Counters of `ThreadPool::run` / `ThreadContext::proc` (all weights follow the conventions of `LiveShutdown1`:
  `ab` = the push/pop frame directly above the frame, `rb`/`rj` = `retB`/`retJob` of the thread):
    * `spAFr`  A-weight: a client that has queued a real job (successful CAS of its push) and has not yet executed
               `runAdd` (`_pushedJobs + 1`),
    * `spXFr`  X-weight: a worker that has claimed a real ticket (successful CAS of its pop) and has not yet executed
               `wAdd` (`_processedJobs + 1`),
    * `spR`    real tickets `x ≥ head` of the push log,
    * `spOFr`  O-weight ("other" part of the weight `lsFr` of LiveShutdown): a retire job in flight (`runRetAfter`
               after the successful CAS of its push) and the terminate jobs queued by the destructor loop.
  FIFO potential of a queued real ticket `x`:   `spTcEff s p + lsTq x log − O`   (`spPot`), where by the balance (K)
  of LiveShutdown this is (serving workers + pending contexts) − (terminate tickets in `[head, x)`).
-/
import Nstd.Future.LiveShutdown
set_option linter.unusedVariables false
namespace Nstd.Future.SP

open LS

/-- ticket `x` of the push log carries a real job -/
def spReal (log : List Job) (x : Nat) : Bool :=
  match log[x]? with
  | some (some _) => true
  | _ => false

def spRealCnt : List Job → Nat
  | [] => 0
  | j :: l => (if j = none then 0 else 1) + spRealCnt l

/-- real tickets not yet claimed by a popper -/
def spR (head : Nat) (log : List Job) : Nat := spRealCnt (log.drop head)

/-! ### A: pushed a real job, `runAdd` not yet executed -/

def spAFr (rb : Bool) (ab : Option (RingPc Job)) : Frame → Nat
  | .runChk1 _ | .runChk2 _ => lsCapt rb ab
  | .runSet | .runAdd => 1
  | _ => 0

def spAStk (rb : Bool) : Option (RingPc Job) → List Frame → Nat
  | _, [] => 0
  | ab, f :: l => spAFr rb ab f + spAStk rb (lsRingOf f) l

@[simp] theorem spAStk_nil (rb : Bool) (ab : Option (RingPc Job)) : spAStk rb ab [] = 0 := rfl
@[simp] theorem spAStk_cons (rb : Bool) (ab : Option (RingPc Job)) (f : Frame) (l : List Frame) :
    spAStk rb ab (f :: l) = spAFr rb ab f + spAStk rb (lsRingOf f) l := rfl

def spAW (th : Thread) : Nat := spAStk th.retB none th.stack
def spAVal : Option Thread → Nat
  | some th => spAW th
  | none => 0
def spAAt (s : State) (t : Tid) : Nat := spAVal (s.threads t)

/-! ### X: claimed a real ticket, `wAdd` not yet executed -/

def spXPc (log : List Job) : RingPc Job → Nat
  | .popData x | .popRel x _ => if spReal log x = true then 1 else 0
  | .pushRead _ | .pushChk _ _ | .pushCas _ _ | .pushData _ _ | .pushPub _ _ | .popRead | .popChk _ | .popCas _ => 0

def spXRet (rb : Bool) (rj : Job) (log : List Job) : Option (RingPc Job) → Nat
  | none => if rb = true ∧ rj ≠ none then 1 else 0
  | some pc => spXPc log pc

def spXFr (rb : Bool) (rj : Job) (log : List Job) (ab : Option (RingPc Job)) : Frame → Nat
  | .wChk1 | .wChk2 => spXRet rb rj log ab
  | .wDeq | .wDispatch => if rj = none then 0 else 1
  | .wAdd => 1
  | _ => 0

def spXStk (rb : Bool) (rj : Job) (log : List Job) : Option (RingPc Job) → List Frame → Nat
  | _, [] => 0
  | ab, f :: l => spXFr rb rj log ab f + spXStk rb rj log (lsRingOf f) l

@[simp] theorem spXStk_nil (rb : Bool) (rj : Job) (log : List Job) (ab : Option (RingPc Job)) :
    spXStk rb rj log ab [] = 0 := rfl
@[simp] theorem spXStk_cons (rb : Bool) (rj : Job) (log : List Job) (ab : Option (RingPc Job)) (f : Frame)
    (l : List Frame) : spXStk rb rj log ab (f :: l) = spXFr rb rj log ab f + spXStk rb rj log (lsRingOf f) l := rfl

def spXW (log : List Job) (th : Thread) : Nat := spXStk th.retB th.retJob log none th.stack
def spXVal (log : List Job) : Option Thread → Nat
  | some th => spXW log th
  | none => 0
def spXAt (log : List Job) (s : State) (t : Tid) : Nat := spXVal log (s.threads t)

/-! ### O: retire job in flight, terminate jobs of the destructor loop -/

def spOFr (rb : Bool) (ab : Option (RingPc Job)) : Frame → Nat
  | .runRetAfter => lsCapt rb ab
  | .dPush i | .dPush2 i => i
  | .dSet i => i + 1
  | .dChk1 i | .dChk2 i => i + lsCapt rb ab
  | _ => 0

def spOStk (rb : Bool) : Option (RingPc Job) → List Frame → Nat
  | _, [] => 0
  | ab, f :: l => spOFr rb ab f + spOStk rb (lsRingOf f) l

@[simp] theorem spOStk_nil (rb : Bool) (ab : Option (RingPc Job)) : spOStk rb ab [] = 0 := rfl
@[simp] theorem spOStk_cons (rb : Bool) (ab : Option (RingPc Job)) (f : Frame) (l : List Frame) :
    spOStk rb ab (f :: l) = spOFr rb ab f + spOStk rb (lsRingOf f) l := rfl

def spOW (th : Thread) : Nat := spOStk th.retB none th.stack
def spOVal : Option Thread → Nat
  | some th => spOW th
  | none => 0
def spOAt (s : State) (t : Tid) : Nat := spOVal (s.threads t)

/-! ### the decision phase of `run`: covering frames -/

/-- frames of the decision phase of the LAST incrementer of `_pushedJobs` that still promise a worker -/
def spCovFr (pushed maxT : Nat) : Frame → Bool
  | .runRdProc idx => idx == pushed
  | .runRdTc busy => decide (1 ≤ busy)
  | .runClk2 tc => decide (tc < maxT)
  | .runSpLock | .runSpChk => true
  | _ => false

def spHasCov (pushed maxT : Nat) (l : List Frame) : Bool := l.any (spCovFr pushed maxT)

/-- the thread covers the queued real jobs -/
def spCovTh (p : Pool) (th : Thread) : Bool := decide (1 ≤ spAW th) || spHasCov p.pushed p.maxT th.stack

def spDoneFr : Frame → Bool
  | .dJoin _ | .dFin => true
  | _ => false

/-- `_threadCount` until the destructor has left its push loop, `0` afterwards -/
def spTcEffOf (done : Bool) (p : Pool) : Nat := if done then 0 else p.threadCount

end Nstd.Future.SP
