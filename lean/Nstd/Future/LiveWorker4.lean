/-
  No lost wake-up on the worker side, part 4: the coverage invariant (I2) is preserved by ring micro-steps
  (`ring_i2`: the only steps that move `head`/`tail`, and the only ones where a looking consumer can turn into
  a sleeper-to-be -- the failing `popChk`, covered by `ring_published_or_claimed`) and by all other steps
  (`shapeC`); hence it holds in every reachable state of the repaired model (`i2_reach`).
-/
import Nstd.Future.LiveWorker3
set_option linter.unusedSimpArgs false
set_option linter.unusedVariables false
namespace Nstd.Future.LW

/-- (I2) in the vocabulary of these files -/
def I2 (s : State) : Prop :=
  hdOf s < tlOf s → enqOf s = 1 ∨ sig0 s = true ∨ ∃ u, witAt s (hdOf s) u = true

theorem RingSelf.cont {th th' : Thread} {pc pc' : RingPc Job} {rest : List Frame}
    (h : RingSelf th th' pc rest (.cont pc')) : th'.stack = .ring pc' :: rest ∧ th'.retB = th.retB := by
  rcases h.shape with ⟨q, e, hs, hb⟩ | ⟨ok, e, _, _⟩ | ⟨o, e, _, _⟩
  · injection e with e; subst e; exact ⟨hs, hb⟩
  · cases e
  · cases e

theorem RingSelf.pushed {th th' : Thread} {pc : RingPc Job} {ok : Bool} {rest : List Frame}
    (h : RingSelf th th' pc rest (.pushed ok)) : th'.stack = rest ∧ th'.retB = ok := by
  rcases h.shape with ⟨q, e, _, _⟩ | ⟨ok', e, hs, hb⟩ | ⟨o, e, _, _⟩
  · cases e
  · injection e with e; subst e; exact ⟨hs, hb⟩
  · cases e

theorem RingSelf.popped {th th' : Thread} {pc : RingPc Job} {o : Option (Option Job)} {rest : List Frame}
    (h : RingSelf th th' pc rest (.popped o)) : th'.stack = rest ∧ th'.retB = o.isSome := by
  rcases h.shape with ⟨q, e, _, _⟩ | ⟨ok', e, _, _⟩ | ⟨o', e, hs, hb⟩
  · cases e
  · cases e
  · injection e with e; subst e; exact ⟨hs, hb⟩

theorem lookTop_ring_push {H : Nat} {rb : Bool} {pc : RingPc Job} (o : Option Frame) (h : isPopPc pc = false) :
    lookTop H rb (.ring pc) o = false := by
  rcases o with _ | c
  · rfl
  · cases c <;> simp [lookTop, h]

theorem witS_ring_push {H : Nat} {rb : Bool} {pc : RingPc Job} (rest : List Frame) (h : isPopPc pc = false)
    (h2 : pushOwn pc = false) : witS H rb (.ring pc :: rest) = false := by
  simp [witS, busyTop, h2, look_cons, transp, lookTop_ring_push _ h]

theorem witS_ring_own {H : Nat} {rb : Bool} {pc : RingPc Job} (rest : List Frame)
    (h2 : pushOwn pc = true) : witS H rb (.ring pc :: rest) = true := by
  simp [witS, busyTop, h2]

theorem popCaller_cases {c : Frame} (h : popCaller c = true) : c = .wChk1 ∨ c = .wChk2 := by
  cases c <;> simp [popCaller] at h <;> simp

theorem callerOk_pop {pc : RingPc Job} {o : Option Frame} (h : callerOk pc o = true) (hp : isPopPc pc = true) :
    o = some .wChk1 ∨ o = some .wChk2 := by
  rcases o with _ | c
  · cases h
  · simp only [callerOk, hp, if_true] at h
    rcases popCaller_cases h with rfl | rfl <;> simp

theorem callerOk_push {pc : RingPc Job} {o : Option Frame} (h : callerOk pc o = true) (hp : isPopPc pc = false) :
    ∃ c, o = some c ∧ pushCaller c = true := by
  rcases o with _ | c
  · cases h
  · simp only [callerOk, hp] at h
    exact ⟨c, rfl, by simpa using h⟩

theorem callerOk_congr {pc pc' : RingPc Job} {o : Option Frame} (h : callerOk pc o = true)
    (hp : isPopPc pc' = isPopPc pc) : callerOk pc' o = true := by
  rcases o with _ | c
  · cases h
  · simp only [callerOk, hp] at h ⊢; exact h

/-- a pop frame with a non-stale ticket is a looking consumer -/
theorem witS_ring_pop {H : Nat} {rb : Bool} {pc : RingPc Job} {rest : List Frame}
    (hc : callerOk pc rest.head? = true) (hp : isPopPc pc = true) (hf : freshPc H pc = true) :
    witS H rb (.ring pc :: rest) = true := by
  rcases callerOk_pop hc hp with h | h <;> simp [witS, look_cons, transp, lookTop, h, hp, hf]

/-- back in the caller after a successful push: busy supplier -/
theorem witS_pushed {H : Nat} {pc : RingPc Job} {rest : List Frame}
    (hc : callerOk pc rest.head? = true) (hp : isPopPc pc = false) : witS H true rest = true := by
  obtain ⟨c, h, h2⟩ := callerOk_push hc hp
  have : busyTop true c = true := by cases c <;> simp [pushCaller] at h2 <;> rfl
  simp [witS, h, this]

/-- back in the caller after a successful pop: looking consumer -/
theorem witS_popped {H : Nat} {pc : RingPc Job} {rest : List Frame}
    (hc : callerOk pc rest.head? = true) (hp : isPopPc pc = true) : witS H true rest = true := by
  cases rest with
  | nil => rcases callerOk_pop hc hp with h | h <;> cases h
  | cons a l =>
    rcases callerOk_pop hc hp with h | h <;>
      (simp only [List.head?_cons, Option.some.injEq] at h; subst h; simp [witS, look_cons, transp, lookTop])

/-- back in `wChk1` after a failed pop: still a looking consumer -/
theorem witS_failed1 {H : Nat} {rb : Bool} {rest : List Frame} (h : rest.head? = some .wChk1) :
    witS H rb rest = true := by
  cases rest with
  | nil => cases h
  | cons a l =>
    simp only [List.head?_cons, Option.some.injEq] at h; subst h; simp [witS, look_cons, transp, lookTop]

theorem ringPcOf_stack {th : Thread} {pc : RingPc Job} (h : ringPcOf th = some pc) :
    ∃ l, th.stack = .ring pc :: l := by
  rw [ringPcOf_eq] at h
  cases hs : th.stack with
  | nil => rw [hs] at h; cases h
  | cons a l =>
    rw [hs] at h
    cases a <;> simp only [ringTop] at h <;> first | (injection h with h; subst h; exact ⟨l, rfl⟩) | cases h

set_option maxHeartbeats 1000000 in
theorem ring_i2 {cfg : Config} (hrep : cfg.repaired = true) {s : State} (hr : Reach cfg s) (hI : I2 s)
    {t : Tid} {th : Thread} {pc : RingPc Job} {rest : List Frame}
    (hth : s.threads t = some th) (hst : th.stack = .ring pc :: rest) :
    I2 (stepFrame s t th (.ring pc)).1 := by
  cases hp : s.pool with
  | none => rw [ring_step_noPool s t th pc hp]; exact hI
  | some p =>
    obtain ⟨th', h1, h2, h3, h4, h5, h6⟩ := ring_step_desc s t th pc rest p hp hst
    generalize (stepFrame s t th (.ring pc)).1 = s' at *
    have hadj : callerOk pc rest.head? = true := by
      have := (stk_reach hrep hr).adj t th hth
      rw [hst] at this; exact this.1
    have henq : enqOf s' = enqOf s := by simp only [enqOf, h2, hp]
    have hsig : sig0 s' = sig0 s := by simp only [sig0, h3]
    have hH : hdOf s = p.ring.head := by simp only [hdOf, hp]
    have hT : tlOf s = p.ring.tail := by simp only [tlOf, hp]
    have hH' : hdOf s' = (ringStep p.ring pc).1.head := by simp only [hdOf, h2]
    have hT' : tlOf s' = (ringStep p.ring pc).1.tail := by simp only [tlOf, h2]
    have hwit' : ∀ H, witAt s' H t = witS H th'.retB th'.stack := by
      intro H; simp only [witAt, h1, upd_same]
    have hwit : ∀ H, witAt s H t = witS H th.retB (.ring pc :: rest) := by
      intro H; simp only [witAt, hth, hst]
    have hkeep : ∀ H u, u ≠ t → witAt s' H u = witAt s H u := by
      intro H u hu; simp only [witAt, h1, upd_ne _ _ hu]
    have pself : witS (hdOf s') th'.retB th'.stack = true → I2 s' := by
      intro hw _; exact Or.inr (Or.inr ⟨t, by rw [hwit']; exact hw⟩)
    have psame : hdOf s' = hdOf s → tlOf s' = tlOf s →
        (witS (hdOf s) th.retB (.ring pc :: rest) = true → witS (hdOf s) th'.retB th'.stack = true) → I2 s' := by
      intro e1 e2 hw hlt
      rw [e1, e2] at hlt
      rcases hI hlt with h | h | ⟨u, hu⟩
      · exact Or.inl (by rw [henq]; exact h)
      · exact Or.inr (Or.inl (by rw [hsig]; exact h))
      · refine Or.inr (Or.inr ⟨u, ?_⟩)
        rw [e1]
        by_cases hut : u = t
        · subst hut; rw [hwit'] ; rw [hwit] at hu; exact hw hu
        · rw [hkeep _ u hut]; exact hu
    cases pc with
    | pushRead d =>
      have e : ringStep p.ring (.pushRead d) = (p.ring, .cont (.pushChk d p.ring.tail)) := rfl
      rw [e] at h6 hH' hT'
      refine psame (by rw [hH', hH]) (by rw [hT', hT]) (fun hw => ?_)
      rw [witS_ring_push rest rfl rfl] at hw; cases hw
    | pushChk d x =>
      by_cases hc : (p.ring.slots (x % p.ring.cap)).tailT ≠ x
      · have e : ringStep p.ring (.pushChk d x) = (p.ring, .pushed false) := by simp [ringStep, hc]
        rw [e] at h6 hH' hT'
        refine psame (by rw [hH', hH]) (by rw [hT', hT]) (fun hw => ?_)
        rw [witS_ring_push rest rfl rfl] at hw; cases hw
      · have e : ringStep p.ring (.pushChk d x) = (p.ring, .cont (.pushCas d x)) := by simp [ringStep, hc]
        rw [e] at h6 hH' hT'
        refine psame (by rw [hH', hH]) (by rw [hT', hT]) (fun hw => ?_)
        rw [witS_ring_push rest rfl rfl] at hw; cases hw
    | pushCas d x =>
      by_cases hc : p.ring.tail = x
      · have e : ringStep p.ring (.pushCas d x) =
            ({ p.ring with tail := x + 1, pushLog := p.ring.pushLog ++ [d] }, .cont (.pushData d x)) := by
          simp [ringStep, hc]
        rw [e] at h6
        obtain ⟨hs, hb⟩ := h6.cont
        apply pself
        rw [hs]; exact witS_ring_own rest rfl
      · have e : ringStep p.ring (.pushCas d x) = (p.ring, .cont (.pushChk d p.ring.tail)) := by
          simp [ringStep, hc]
        rw [e] at h6 hH' hT'
        refine psame (by rw [hH', hH]) (by rw [hT', hT]) (fun hw => ?_)
        rw [witS_ring_push rest rfl rfl] at hw; cases hw
    | pushData d x =>
      have e : ringStep p.ring (.pushData d x) =
          (p.ring.setSlot (x % p.ring.cap) { p.ring.slots (x % p.ring.cap) with data := some d }, .cont (.pushPub d x)) := rfl
      rw [e] at h6
      obtain ⟨hs, hb⟩ := h6.cont
      apply pself
      rw [hs]; exact witS_ring_own rest rfl
    | pushPub d x =>
      have e : ringStep p.ring (.pushPub d x) =
          (p.ring.setSlot (x % p.ring.cap) { p.ring.slots (x % p.ring.cap) with headT := some x }, .pushed true) := rfl
      rw [e] at h6
      obtain ⟨hs, hb⟩ := h6.pushed
      apply pself
      rw [hs, hb]; exact witS_pushed hadj rfl
    | popRead =>
      have e : ringStep p.ring (.popRead : RingPc Job) = (p.ring, .cont (.popChk p.ring.head)) := rfl
      rw [e] at h6 hH'
      obtain ⟨hs, hb⟩ := h6.cont
      apply pself
      rw [hs, hH']
      exact witS_ring_pop (callerOk_congr hadj rfl) rfl (by simp [freshPc])
    | popChk h =>
      by_cases hc : (p.ring.slots (h % p.ring.cap)).headT ≠ some h
      · have e : ringStep p.ring (.popChk h : RingPc Job) = (p.ring, .popped none) := by simp [ringStep, hc]
        rw [e] at h6 hH' hT'
        obtain ⟨hs, hb⟩ := h6.popped
        intro hlt
        have e1 : hdOf s' = hdOf s := by rw [hH', hH]
        rw [e1, hT', ← hT] at hlt
        rcases hI hlt with h | h | ⟨u, hu⟩
        · exact Or.inl (by rw [henq]; exact h)
        · exact Or.inr (Or.inl (by rw [hsig]; exact h))
        · refine Or.inr (Or.inr ?_)
          rw [e1]
          by_cases hut : u = t
          · subst hut
            rw [hwit] at hu
            rcases callerOk_pop hadj rfl with hh | hh
            · exact ⟨u, by rw [hwit', hs]; exact witS_failed1 hh⟩
            · -- second pop: the ticket was the current head, so its pusher has not published yet
              have hfr : h = hdOf s := by
                simp [witS, busyTop, pushOwn, look_cons, transp, lookTop, hh, isPopPc, freshPc] at hu
                exact hu
              have hR := reach_ring hr
              have hcap := full_cap hr hp
              have hring := full_ring (s := s) hp
              have hx := ring_published_or_claimed (capOf_pos cfg) hR (x := hdOf s)
                (by rw [hring, ← hT]; exact hlt) (by rw [hring, hH]; exact Nat.le_refl _)
              rw [hring, ← hcap] at hx
              rcases hx with ⟨hpub, _⟩ | ⟨v, d, hv⟩
              · rw [← hfr] at hpub; exact absurd hpub hc
              · rw [proj_some hp] at hv
                simp only [pcsOf] at hv
                cases hthv : s.threads v with
                | none => rw [hthv] at hv; rcases hv with hv | hv <;> cases hv
                | some thv =>
                  rw [hthv] at hv
                  have hvt : v ≠ u := by
                    intro hvt; subst hvt
                    rw [hth] at hthv; injection hthv with hthv; subst hthv
                    simp only [ringPcOf_eq, hst, ringTop] at hv
                    rcases hv with hv | hv <;> cases hv
                  refine ⟨v, ?_⟩
                  rw [hkeep _ v hvt]
                  simp only [witAt, hthv]
                  rcases hv with hv | hv
                  · obtain ⟨l, hl⟩ := ringPcOf_stack hv
                    rw [hl]; exact witS_ring_own l rfl
                  · obtain ⟨l, hl⟩ := ringPcOf_stack hv
                    rw [hl]; exact witS_ring_own l rfl
          · exact ⟨u, by rw [hkeep _ u hut]; exact hu⟩
      · have e : ringStep p.ring (.popChk h : RingPc Job) = (p.ring, .cont (.popCas h)) := by simp [ringStep, hc]
        rw [e] at h6
        obtain ⟨hs, hb⟩ := h6.cont
        apply pself
        rw [hs]
        exact witS_ring_pop (callerOk_congr hadj rfl) rfl rfl
    | popCas h =>
      by_cases hc : p.ring.head = h
      · have e : ringStep p.ring (.popCas h : RingPc Job) = ({ p.ring with head := h + 1 }, .cont (.popData h)) := by
          simp [ringStep, hc]
        rw [e] at h6
        obtain ⟨hs, hb⟩ := h6.cont
        apply pself
        rw [hs]
        exact witS_ring_pop (callerOk_congr hadj rfl) rfl rfl
      · have e : ringStep p.ring (.popCas h : RingPc Job) = (p.ring, .cont (.popChk p.ring.head)) := by
          simp [ringStep, hc]
        rw [e] at h6 hH'
        obtain ⟨hs, hb⟩ := h6.cont
        apply pself
        rw [hs, hH']
        exact witS_ring_pop (callerOk_congr hadj rfl) rfl (by simp [freshPc])
    | popData h =>
      have e : ringStep p.ring (.popData h : RingPc Job) =
          ({ (p.ring.setSlot (h % p.ring.cap) { p.ring.slots (h % p.ring.cap) with data := none }) with
              popLog := p.ring.popLog ++ [(h, (p.ring.slots (h % p.ring.cap)).data)] },
            .cont (.popRel h (p.ring.slots (h % p.ring.cap)).data)) := rfl
      rw [e] at h6
      obtain ⟨hs, hb⟩ := h6.cont
      apply pself
      rw [hs]
      exact witS_ring_pop (callerOk_congr hadj rfl) rfl rfl
    | popRel h d =>
      have e : ringStep p.ring (.popRel h d) =
          (p.ring.setSlot (h % p.ring.cap) { p.ring.slots (h % p.ring.cap) with tailT := h + p.ring.cap },
            .popped (some d)) := rfl
      rw [e] at h6
      obtain ⟨hs, hb⟩ := h6.popped
      apply pself
      rw [hs, hb]
      exact witS_popped hadj rfl

theorem i2_init (cfg : Config) : I2 (State.init cfg) := by
  intro h; simp [hdOf, tlOf, State.init] at h

theorem i2_step {cfg : Config} (hrep : cfg.repaired = true) {s s' : State} {t : Tid} {o : List String}
    (hr : Reach cfg s) (hI : I2 s) (hs : step s t = some (s', o)) : I2 s' := by
  obtain ⟨th, fr, rest, hth, hst, hfin, rfl⟩ := step_inv hs
  have hrep' : s.cfg.repaired = true := by rw [reach_cfg hr]; exact hrep
  by_cases hring : ∃ pc, fr = .ring pc
  · obtain ⟨pc, rfl⟩ := hring
    exact ring_i2 hrep hr hI hth hst
  · have hnr : ∀ pc, fr ≠ .ring pc := fun pc h => hring ⟨pc, h⟩
    have hC := shapeC s t th fr rest hth hst hrep' hnr
    have hkeep := step_keep hr hth hst hrep'
    have hadj : AdjOk (fr :: rest) := by rw [← hst]; exact (stk_reach hrep hr).adj t th hth
    intro hlt'
    rcases hC.pool with ⟨hh, ht⟩ | h0
    · have hlt : hdOf s < tlOf s := by omega
      rw [hh]
      rcases hI hlt with he | hsg | ⟨u, hu⟩
      · rcases hC.f2 hadj he with h | h | h
        · exact Or.inl h
        · exact Or.inr (Or.inr ⟨t, h⟩)
        · omega
      · rcases hC.f3 hadj hsg with h | h | h
        · exact Or.inr (Or.inl h)
        · exact Or.inr (Or.inr ⟨t, h⟩)
        · omega
      · by_cases hut : u = t
        · subst hut
          have h4 : witS (hdOf s) th.retB (fr :: rest) = true := by
            simp only [witAt, hth] at hu; rw [← hst]; exact hu
          rcases hC.f4 h4 with h | h | h
          · exact Or.inr (Or.inr ⟨u, h⟩)
          · exact Or.inl h
          · omega
        · refine Or.inr (Or.inr ⟨u, ?_⟩)
          cases hthu : s.threads u with
          | none => simp [witAt, hthu] at hu
          | some thu =>
            simp only [witAt, hthu] at hu
            simp only [witAt, hkeep u thu hut hthu]; exact hu
    · omega

theorem i2_reach {cfg : Config} (hrep : cfg.repaired = true) {s : State} (h : Reach cfg s) : I2 s := by
  induction h with
  | init => exact i2_init cfg
  | step t hr hs ih => exact i2_step hrep hr ih hs

end Nstd.Future.LW
