/-
  Completion handshake of a Future, part 15: frames that do not touch the `Fut` records, `completed`,
  `everCalls` and do not put `pSetRd`/`pSetX` on top.
-/
import Nstd.Future.Handshake14
set_option linter.unusedSimpArgs false
set_option linter.unusedVariables false
namespace Nstd.Future

def quiet2 : Frame → Bool
  | .pStore _ | .pSetRd _ | .pSetX _ _ | .cNext | .cArm _ | .joinClr _ | .destroyF _ => false
  | _ => true

/-- not a frame of `proc` between the store of the result and the exchange of `_state` -/
def notP : Frame → Bool
  | .pSetRd _ | .pSetX _ _ => false
  | _ => true

theorem openB_notP {b : Frame} (h : openB b = true) : notP b = true := by
  cases b <;> first | rfl | (simp [openB] at h)

theorem afterB_notP {ev : Nat → Option CallRec} {f : Nat} {b : Frame} (h : AfterB ev f b) : notP b = true := by
  cases b <;> first | rfl | (simp [AfterB] at h)

theorem relO_notP {ev : Nat → Option CallRec} {k : Kind} {b : Frame} (h : RelO ev k (some b)) : notP b = true := by
  cases k <;> simp only [RelO] at h
  · exact openB_notP (h b rfl)
  · cases h
  · rcases h with ⟨_, h⟩ | ⟨_, c, r, h, _⟩
    · exact openB_notP (h b rfl)
    · injection h with h; subst h; rfl
  · rcases h with ⟨_, h⟩ | ⟨_, h⟩
    · exact openB_notP (h b rfl)
    · injection h with h; subst h; rfl
  · rcases h with ⟨_, h⟩ | ⟨_, h⟩
    · exact openB_notP (h b rfl)
    · injection h with h; subst h; rfl
  · obtain ⟨b', h1, h2⟩ := h; injection h1 with h1; subst h1; exact afterB_notP h2
  · exact openB_notP (h.2 b rfl)

structure HsShapeQ2 (s s' : State) (t : Tid) : Prop where
  futs : s'.futs = s.futs
  compl : s'.completed = s.completed
  ev : s'.everCalls = s.everCalls
  top : ∃ th', s'.threads t = some th' ∧ ∀ x, th'.stack.head? = some x → notP x = true

set_option maxHeartbeats 8000000 in
theorem hsShapeQ2 (s : State) (t : Tid) (th : Thread) (fr : Frame) (rest : List Frame)
    (hth : s.threads t = some th) (hst : th.stack = fr :: rest) (hq : quiet2 fr = true)
    (hlink : RelO s.everCalls (kindA fr) rest.head?) :
    HsShapeQ2 s (stepFrame s t th fr).1 t := by
  cases fr <;> simp only [quiet2, Bool.false_eq_true] at hq <;>
    simp only [stepFrame] <;> repeat' split
  all_goals
    constructor
    · simp [setThread, setSig, setPool, setFut, withFault, destroySig]
    · simp [setThread, setSig, setPool, setFut, withFault, destroySig]
    · simp [setThread, setSig, setPool, setFut, withFault, destroySig]
    · simp [setThread, setSig, setPool, setFut, withFault, destroySig, upd_same, Thread.cont, hst, hth, notP]
      try (intro x hx; rw [hx] at hlink; exact relO_notP hlink)

end Nstd.Future
