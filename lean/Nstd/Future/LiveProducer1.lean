/-
  No lost wake-up on the producer side, part 1: vocabulary (the dequeued FastSignal as seen from a state), the
  stack discipline the argument needs on top of `LW.StkInv` (`AdjP`: every FastSignal frame is one of the two
  FastSignals of the pool; what sits directly below the frames of `_dequeuedSignal.reset()` / `.wait()`), and the
  FastSignal core invariant (J1) for the dequeued signal: `_state = 1` implies that its Signal is set or a thread is
  inside `set()`/`reset()` at a point from which it is still going to set the Signal.
-/
import Nstd.Future.LiveWorker
set_option linter.unusedSimpArgs false
set_option linter.unusedVariables false
namespace Nstd.Future.LP
open LW

/-! ### the state as seen by the dequeued FastSignal -/

/-- `_dequeuedSignal._state` (0 when there is no pool) -/
def deqOf (s : State) : Nat := match s.pool with | some p => p.deq | none => 0
/-- capacity of the ring (0 when there is no pool) -/
def cpOf (s : State) : Nat := match s.pool with | some p => p.ring.cap | none => 0
/-- the flag of the Signal of `_dequeuedSignal` -/
def sig1 (s : State) : Bool := (s.sigs 1).signaled

/-! ### stack discipline -/

/-- the second push attempt of a back-pressure loop -/
def isPush2 : Frame → Bool
  | .runPush2 _ | .dPush2 _ => true
  | _ => false
/-- the restart of a back-pressure loop (what `_dequeuedSignal.wait()` returns to) -/
def isRestart : Frame → Bool
  | .runStart _ | .dPush _ => true
  | _ => false
def optB (f : Frame → Bool) : Option Frame → Bool
  | some c => f c
  | none => false

/-- what must sit directly below a frame -/
def adjP : Frame → Option Frame → Prop
  | .fSet fs, _ => fs ≤ 1
  | .fRst fs, o => fs ≤ 1 ∧ (fs = 1 → optB isPush2 o = true)
  | .fRstLoad fs, o => fs ≤ 1 ∧ (fs = 1 → optB isPush2 o = true)
  | .fWait fs, o => fs ≤ 1 ∧ (fs = 1 → optB isRestart o = true)
  | .sRstLock σ, o => σ = 1 → o = some (.fRstLoad 1)
  | .sRstStore σ, o => σ = 1 → o = some (.fRstLoad 1)
  | .sRstUnlock σ, o => σ = 1 → o = some (.fRstLoad 1)
  | .sWaitLock σ, o => σ = 1 → optB isRestart o = true
  | .sWaitChk σ, o => σ = 1 → optB isRestart o = true
  | .sWaitUnlock σ, o => σ = 1 → optB isRestart o = true
  | .sWaitCwait σ, o => σ = 1 → optB isRestart o = true
  | .sWaitCwake σ, o => σ = 1 → optB isRestart o = true
  | .sWaitRelock σ, o => σ = 1 → optB isRestart o = true
  | _, _ => True

def AdjP : List Frame → Prop
  | [] => True
  | a :: l => adjP a l.head? ∧ AdjP l

theorem adjP_nil : AdjP [] := trivial
theorem adjP_cons {a : Frame} {l : List Frame} : AdjP (a :: l) ↔ adjP a l.head? ∧ AdjP l := Iff.rfl

/-- what one step does to `AdjP` of the stepping thread -/
def ShapeA (s' : State) (t : Tid) (fr : Frame) (rest : List Frame) : Prop :=
  ∃ th', s'.threads t = some th' ∧ (AdjP (fr :: rest) → AdjP th'.stack)

set_option maxHeartbeats 8000000 in
theorem shapeA (s : State) (t : Tid) (th : Thread) (fr : Frame) (rest : List Frame)
    (hth : s.threads t = some th) (hst : th.stack = fr :: rest) (hrep : s.cfg.repaired = true) :
    ShapeA (stepFrame s t th fr).1 t fr rest := by
  cases fr
  case ring pc =>
    cases hp : s.pool with
    | none =>
      rw [ring_step_noPool s t th pc hp]
      exact ⟨th, hth, fun h => by rw [hst]; exact h⟩
    | some p =>
      obtain ⟨th', h1, h2, h3, h4, h5, h6⟩ := ring_step_desc s t th pc rest p hp hst
      refine ⟨th', by rw [h1, upd_same], ?_⟩
      intro h
      rcases h6.shape with ⟨pc', hr, hs, _⟩ | ⟨ok, _, hs, _⟩ | ⟨o, _, hs, _⟩
      · rw [hs]; exact ⟨trivial, h.2⟩
      · rw [hs]; exact h.2
      · rw [hs]; exact h.2
  all_goals
    simp only [stepFrame]
    repeat' split
  all_goals
    simp only [ShapeA, setThread, setSig, setPool, setFut, withFault, destroySig, upd_same, hth, Option.some.injEq,
      exists_eq_left']
    intro hb
    simp only [adjP_cons, adjP] at hb
    simp [Thread.cont, hst, hrep, adjP_cons, adjP_nil, adjP, optB, isPush2, isRestart, hb]
    try (simp_all [optB, isPush2, isRestart]; done)

/-! ### the discipline in reachable states -/

def AdjInv (s : State) : Prop := ∀ t th, s.threads t = some th → AdjP th.stack

theorem adjInv_init (cfg : Config) : AdjInv (State.init cfg) := by
  intro t th h
  simp only [State.init] at h
  split at h
  · injection h with h; subst h; simp [adjP_cons, adjP_nil, adjP]
  · cases h

theorem adjInv_step {s s' : State} {t : Tid} {o : List String} (hrep : s.cfg.repaired = true)
    (hI : AdjInv s) (h : step s t = some (s', o)) : AdjInv s' := by
  obtain ⟨th, fr, rest, hth, hst, hfin, rfl⟩ := step_inv h
  have hk := shapeK s t th fr rest hth hst hrep
  obtain ⟨th', hth', hadj'⟩ := shapeA s t th fr rest hth hst hrep
  intro u thu hthu
  by_cases hu : u = t
  · subst hu; rw [hth'] at hthu; injection hthu with hthu; subst hthu
    exact hadj' (by rw [← hst]; exact hI u th hth)
  · rcases hk.others u hu with h2 | ⟨_, h2 | ⟨sc, h2⟩⟩
    · rw [h2] at hthu; exact hI u thu hthu
    · rw [hthu] at h2; injection h2 with h2; subst h2; simp [adjP_cons, adjP_nil, adjP]
    · rw [hthu] at h2; injection h2 with h2; subst h2; simp [adjP_cons, adjP_nil, adjP]

theorem adj_reach {cfg : Config} (hrep : cfg.repaired = true) {s : State} (h : Reach cfg s) : AdjInv s := by
  induction h with
  | init => exact adjInv_init cfg
  | step t hr hs ih => exact adjInv_step (by rw [reach_cfg hr]; exact hrep) ih hs

/-! ### J1 -/

/-- top frames inside `set()`/`reset()` of the dequeued FastSignal from which the thread is still going to store
    `signaled := true` (for `fRstLoad 1`: unless it reads `_state = 0`) -/
def w1P : Frame → Bool
  | .sSetLock σ | .sSetStore σ | .sRstLock σ | .sRstStore σ | .sRstUnlock σ => σ == 1
  | .fRstLoad fs => fs == 1
  | _ => false

def w1PS (l : List Frame) : Bool := match l.head? with | some fr => w1P fr | none => false
def w1PAt (s : State) (t : Tid) : Bool := match s.threads t with | some th => w1PS th.stack | none => false

theorem setFsState_deq (p : Pool) (fs v : Nat) : (setFsState p fs v).deq = if fs = 0 then p.deq else v := by
  unfold setFsState; split <;> rfl

structure ShapeD (s s' : State) (t : Tid) (fr : Frame) (rest : List Frame) : Prop where
  le : AdjP (fr :: rest) → deqOf s ≤ 1 → deqOf s' ≤ 1
  g1 : AdjP (fr :: rest) → deqOf s ≤ 1 → deqOf s' = 1 → deqOf s = 1 ∨ sig1 s' = true ∨ w1PAt s' t = true
  g2 : deqOf s' = 1 → sig1 s = true → sig1 s' = true ∨ w1PAt s' t = true
  g3 : AdjP (fr :: rest) → deqOf s' = 1 → w1PS (fr :: rest) = true → sig1 s' = true ∨ w1PAt s' t = true

set_option maxHeartbeats 8000000 in
theorem shapeD (s : State) (t : Tid) (th : Thread) (fr : Frame) (rest : List Frame)
    (hth : s.threads t = some th) (hst : th.stack = fr :: rest) (hrep : s.cfg.repaired = true) :
    ShapeD s (stepFrame s t th fr).1 t fr rest := by
  cases fr
  case ring pc =>
    cases hp : s.pool with
    | none =>
      rw [ring_step_noPool s t th pc hp]
      refine ⟨fun _ h => h, fun _ _ h => Or.inl h, fun _ h => Or.inl h, fun _ _ h => ?_⟩
      simp [w1PS, w1P] at h
    | some p =>
      obtain ⟨th', h1, h2, h3, h4, h5, h6⟩ := ring_step_desc s t th pc rest p hp hst
      have he : deqOf (stepFrame s t th (.ring pc)).1 = deqOf s := by simp only [deqOf, h2, hp]
      have hs : sig1 (stepFrame s t th (.ring pc)).1 = sig1 s := by simp only [sig1, h3]
      refine ⟨fun _ h => by rw [he]; exact h, fun _ _ h => Or.inl (by rw [← he]; exact h),
        fun _ h => Or.inl (by rw [hs]; exact h), fun _ _ h => ?_⟩
      simp [w1PS, w1P] at h
  all_goals
    rcases hp : s.pool with _ | p
  all_goals
    simp only [stepFrame, hp]
    repeat' split
  all_goals (try simp only [fsState] at *)
  all_goals
    constructor
    · intro hb h1
      simp only [adjP_cons, adjP] at hb
      simp [deqOf, hp, setThread, setSig, setPool, setFut, withFault, destroySig, setFsState_deq, mkPool] at h1 ⊢
      try grind
    · intro hb h0 h1
      simp only [adjP_cons, adjP] at hb
      simp [deqOf, sig1, w1PAt, w1PS, w1P, hp, hth, hst, hrep, setThread, setSig, setPool, setFut, withFault, destroySig,
        setFsState_deq, fsState, mkPool, upd_same, Thread.cont] at h0 h1 ⊢
      try grind [upd]
    · intro h1 h2
      simp [deqOf, sig1, w1PAt, w1PS, w1P, hp, hth, hst, hrep, setThread, setSig, setPool, setFut, withFault, destroySig,
        setFsState_deq, fsState, mkPool, upd_same, Thread.cont] at h1 h2 ⊢
      try grind [upd]
    · intro hb h1 h2
      simp only [adjP_cons, adjP] at hb
      simp [deqOf, sig1, w1PAt, w1PS, w1P, hp, hth, hst, hrep, setThread, setSig, setPool, setFut, withFault, destroySig,
        setFsState_deq, fsState, mkPool, upd_same, Thread.cont] at h1 h2 ⊢
      try grind [upd]

/-- (J1) in the vocabulary of this file -/
def J1 (s : State) : Prop := deqOf s = 1 → sig1 s = true ∨ ∃ u, w1PAt s u = true

theorem deqLe_reach {cfg : Config} (hrep : cfg.repaired = true) {s : State} (h : Reach cfg s) : deqOf s ≤ 1 := by
  induction h with
  | init => simp [deqOf, State.init]
  | @step s s' o t hr hs ih =>
    obtain ⟨th, fr, rest, hth, hst, hfin, rfl⟩ := step_inv hs
    have hadj : AdjP (fr :: rest) := by rw [← hst]; exact adj_reach hrep hr t th hth
    exact (shapeD _ t th fr rest hth hst (by rw [reach_cfg hr]; exact hrep)).le hadj ih

theorem j1_reach {cfg : Config} (hrep : cfg.repaired = true) {s : State} (h : Reach cfg s) : J1 s := by
  induction h with
  | init => intro h; simp [deqOf, State.init] at h
  | @step s s' o t hr hs ih =>
    obtain ⟨th, fr, rest, hth, hst, hfin, rfl⟩ := step_inv hs
    have hrep' : s.cfg.repaired = true := by rw [reach_cfg hr]; exact hrep
    have hE := shapeD s t th fr rest hth hst hrep'
    have hkeep := step_keep hr hth hst hrep'
    have hadj : AdjP (fr :: rest) := by rw [← hst]; exact adj_reach hrep hr t th hth
    intro h1
    rcases hE.g1 hadj (deqLe_reach hrep hr) h1 with h | h | h
    · rcases ih h with h2 | ⟨u, h2⟩
      · rcases hE.g2 h1 h2 with h3 | h3
        · exact Or.inl h3
        · exact Or.inr ⟨t, h3⟩
      · by_cases hu : u = t
        · subst hu
          have h4 : w1PS (fr :: rest) = true := by
            simp only [w1PAt, hth] at h2; rw [← hst]; exact h2
          rcases hE.g3 hadj h1 h4 with h3 | h3
          · exact Or.inl h3
          · exact Or.inr ⟨u, h3⟩
        · right
          refine ⟨u, ?_⟩
          cases hthu : s.threads u with
          | none => simp [w1PAt, hthu] at h2
          | some thu =>
            simp only [w1PAt, hthu] at h2
            simp only [w1PAt, hkeep u thu hu hthu]; exact h2
    · exact Or.inl h
    · exact Or.inr ⟨t, h⟩

end Nstd.Future.LP
