/-
  Non-vacuity of the handshake theorems: concrete schedules of the well-formed configuration `hsCfg`
  (client A: `start f0(1,2); result; start f0(5,6); join`, client B: `start g1(3,4); abort; join; destroy`)
  reach states in which the hypotheses of `join_after_completion`, `result_is_return_value` and
  `state_after_join` hold (and the conclusions are the expected concrete values).
-/
import Nstd.Future.Handshake
namespace Nstd.Future

theorem runSched_reach {cfg : Config} {l : List Tid} : ∀ {s s' : State}, Reach cfg s → runSched s l = some s' → Reach cfg s' := by
  induction l with
  | nil => intro s s' hr h; simp only [runSched] at h; injection h with h; subst h; exact hr
  | cons t l ih =>
    intro s s' hr h
    simp only [runSched] at h
    split at h
    · next s1 o hs => exact ih (Reach.step t hr hs) h
    · cases h

/-- client A (thread 1) has returned from `wait`/`reset` of its first join: `joinClr f0` is on top -/
def hsSched1 : List Tid :=
  [0, 0, 1, 1, 1, 1, 1, 1, 1, 1, 1, 1, 1, 1, 1, 1, 1, 1, 1, 1, 1, 1, 1, 1, 1, 1, 1, 1, 1, 1, 1, 1, 1, 1, 1, 1, 1, 1, 1,
   1, 1, 0, 0, 0, 0, 2, 2, 2, 2, 2, 2, 2, 2, 2, 2, 2, 2, 2, 2, 2, 2, 2, 2, 2, 2, 2, 2, 2, 2, 1, 2, 1, 1, 1, 1, 1, 1]
/-- one step later: `evResult f0` is on top -/
def hsSched2 : List Tid := hsSched1 ++ [1]
/-- client B (thread 2) starts `g1`, aborts it before a worker runs it, joins: the state is `aborted` -/
def hsSched3 : List Tid :=
  [0, 0, 0, 0, 2, 2, 2, 2, 2, 2, 2, 2, 2, 2, 2, 2, 2, 2, 2, 2, 2, 2, 2, 2, 2, 2, 2, 2, 2, 2, 2, 2, 2, 2, 2, 2, 2, 2, 2,
   2, 2, 2, 2, 2, 0, 0, 1, 1, 1, 1, 1, 1, 1, 1, 1, 1, 1, 1, 1, 1, 1, 1, 1, 1, 1, 1, 1, 1, 1, 1, 1, 1, 1, 1, 1, 1, 1, 1,
   3, 3, 3, 3, 3, 3, 3, 3, 3, 3, 3, 3, 3, 3, 3, 3, 3, 3, 3, 3, 3, 3, 3, 3, 2, 3, 2, 2, 2, 2, 2, 2, 2]

def hsCheck1 : Bool :=
  match runSched (State.init hsCfg) hsSched1 with
  | some s => (match topFrame s 1 with | some (.joinClr 0) => true | _ => false) && (s.futs 0).curCall == some 0 &&
      s.completed 0 && s.execCount 0 == 1
  | none => false
def hsCheck2 : Bool :=
  match runSched (State.init hsCfg) hsSched2 with
  | some s => (match topFrame s 1 with | some (.evResult 0) => true | _ => false) && (s.futs 0).curCall == some 0 &&
      (match s.everCalls 0 with | some r => r.a == 1 && r.b == 2 | none => false) && (s.futs 0).result == some 102
  | none => false
def hsCheck3 : Bool :=
  match runSched (State.init hsCfg) hsSched3 with
  | some s => (s.futs 9).joinable == false && (s.futs 9).curCall.isSome && (s.futs 9).state == 3 && (s.futs 9).abortReq
  | none => false

theorem hsCheck1_true : hsCheck1 = true := by decide +kernel
theorem hsCheck2_true : hsCheck2 = true := by decide +kernel
theorem hsCheck3_true : hsCheck3 = true := by decide +kernel

/-- the hypotheses of `join_after_completion` are satisfiable -/
theorem join_after_completion_nonvacuous :
    ∃ s t f c, Reach hsCfg s ∧ topFrame s t = some (.joinClr f) ∧ (s.futs f).curCall = some c := by
  have h := hsCheck1_true
  simp only [hsCheck1] at h
  split at h
  · next s hs =>
    refine ⟨s, 1, 0, 0, runSched_reach Reach.init hs, ?_, ?_⟩
    · split at h
      · assumption
      · simp at h
    · simp only [Bool.and_eq_true, beq_iff_eq] at h; exact h.1.1.2
  · cases h

/-- the hypotheses of `result_is_return_value` are satisfiable (the value read is 1 * 100 + 2) -/
theorem result_is_return_value_nonvacuous :
    ∃ s t f c r, Reach hsCfg s ∧ topFrame s t = some (.evResult f) ∧ f < 8 ∧ (s.futs f).curCall = some c ∧
      s.everCalls c = some r := by
  have h := hsCheck2_true
  simp only [hsCheck2] at h
  split at h
  · next s hs =>
    simp only [Bool.and_eq_true, beq_iff_eq] at h
    obtain ⟨⟨⟨h1, h2⟩, h3⟩, _⟩ := h
    cases hr : s.everCalls 0 with
    | none => rw [hr] at h3; cases h3
    | some r =>
      refine ⟨s, 1, 0, 0, r, runSched_reach Reach.init hs, ?_, by omega, h2, hr⟩
      split at h1
      · assumption
      · cases h1
  · cases h

/-- the hypotheses of `state_after_join` are satisfiable, with the aborted state -/
theorem state_after_join_nonvacuous :
    ∃ s f c, Reach hsCfg s ∧ (s.futs f).joinable = false ∧ (s.futs f).curCall = some c ∧ (s.futs f).state = 3 := by
  have h := hsCheck3_true
  simp only [hsCheck3] at h
  split at h
  · next s hs =>
    simp only [Bool.and_eq_true, beq_iff_eq] at h
    obtain ⟨⟨⟨h1, h2⟩, h3⟩, _⟩ := h
    cases hc : (s.futs 9).curCall with
    | none => rw [hc] at h2; cases h2
    | some c => exact ⟨s, 9, c, runSched_reach Reach.init hs, h1, hc, h3⟩
  · cases h

end Nstd.Future
