/-
  The only micro-steps of the model that leave the state unchanged are the failing `xchg` of the spin lock
  `tplock` of the lazily created pool (`cSpin c` with `tplock ≠ 0`): every other micro-step changes the stack
  of the stepping thread (or raises a fault, which `SafetyFault.no_fault` excludes for reachable states).
-/
import Nstd.Future.FairRed
import Nstd.Future.SafetyFault
set_option linter.unusedVariables false
set_option linter.unusedSimpArgs false
namespace Nstd.Future.FR

theorem fl_ne_cons {α : Type} (a : α) (l : List α) : l ≠ a :: l := by
  intro h
  have := congrArg List.length h
  simp only [List.length_cons] at this
  omega

theorem fl_ne_cons2 {α : Type} (a b c : α) (l : List α) : a :: b :: l ≠ c :: l := by
  intro h
  have := congrArg List.length h
  simp only [List.length_cons] at this
  omega

theorem fl_ne_cons3 {α : Type} (a b d c : α) (l : List α) : a :: b :: d :: l ≠ c :: l := by
  intro h
  have := congrArg List.length h
  simp only [List.length_cons] at this
  omega

theorem fl_erase_ne {α : Type} (l : List α) (i : Nat) (c : α) (h : l[i]? = some c) : l.eraseIdx i ≠ l := by
  intro he
  have hl := congrArg List.length he
  have hi : i < l.length := by
    rcases Nat.lt_or_ge i l.length with h1 | h1
    · exact h1
    · rw [List.getElem?_eq_none h1] at h; cases h
  rw [List.length_eraseIdx] at hl
  simp only [hi, if_true] at hl
  omega

set_option maxHeartbeats 4000000 in
/-- a micro-step (other than of a `push`/`pop` frame) that leaves the record of the stepping thread, the pool and the
    absence of a fault unchanged is a failing spin -/
theorem fixShape (s : State) (t : Tid) (th : Thread) (fr : Frame) (rest : List Frame)
    (hst : th.stack = fr :: rest) (hnr : ∀ pc, fr ≠ .ring pc) :
    ∀ th', (stepFrame s t th fr).1.threads t = some th' → (stepFrame s t th fr).1.fault = none →
      th' = th → (stepFrame s t th fr).1.pool = s.pool → (∃ c, fr = .cSpin c) ∧ s.tplock ≠ 0 := by
  cases fr
  case ring pc => exact absurd rfl (hnr pc)
  case cSpin c =>
    intro th' h hf hs _
    refine ⟨⟨c, rfl⟩, ?_⟩
    intro h0
    simp [stepFrame, setThread, upd, Thread.cont, hst, h0] at h
    subst hs
    have := congrArg Thread.stack h
    simp [hst] at this
  all_goals
    simp only [stepFrame]
    repeat' split
  all_goals
    intro th' h hf hs hp
    try simp [setThread, setSig, setPool, setFut, withFault, destroySig, upd, Thread.cont, hst] at h
    try simp [setThread, setSig, setPool, setFut, withFault, destroySig, upd, Thread.cont, hst] at hf
  all_goals
    first
    | (subst hs
       have hstk := congrArg Thread.stack h
       simp [hst, fl_ne_cons, fl_ne_cons2, fl_ne_cons3] at hstk; done)
    | (subst hs
       have hscr := congrArg Thread.script h
       simp [fl_ne_cons, *] at hscr; done)
    | (rename_i i _ p hp0 _ c hc _ _ _
       exfalso
       simp [setThread, setPool, hp0] at hp
       have := congrArg Pool.ctxs hp
       exact fl_erase_ne _ _ _ hc this)

theorem fl_ringStep_cont_ne {r r' : Ring Job} {pc pc' : RingPc Job} (h : ringStep r pc = (r', .cont pc')) :
    pc' ≠ pc := by
  cases pc <;> simp only [ringStep] at h <;> (try split at h) <;>
    simp only [Prod.mk.injEq, RingRes.cont.injEq, reduceCtorEq, and_false] at h <;>
    (obtain ⟨_, h⟩ := h; subst h; intro h; cases h)

/-- a `push`/`pop` micro-step changes the stack of the stepping thread (or raises a fault) -/
theorem fixRing (s : State) (t : Tid) (th : Thread) (pc : RingPc Job) (rest : List Frame)
    (hst : th.stack = .ring pc :: rest) :
    ∀ th', (stepFrame s t th (.ring pc)).1.threads t = some th' → (stepFrame s t th (.ring pc)).1.fault = none →
      th'.stack ≠ .ring pc :: rest := by
  intro th' h hf
  cases hp : s.pool with
  | none =>
    simp only [stepFrame, hp] at hf
    simp [withFault] at hf
  | some p =>
    simp only [stepFrame, hp] at h hf
    rcases hrs : ringStep p.ring pc with ⟨r', res⟩
    rw [hrs] at h hf
    cases res with
    | cont pc' =>
      have hne := fl_ringStep_cont_ne hrs
      simp [setThread, upd] at h
      subst h
      simp [Thread.cont, hst, hne]
    | pushed ok =>
      simp [setThread, upd] at h
      subst h
      simp [Thread.cont, hst, fl_ne_cons]
    | popped o =>
      rcases o with _ | _ | j
      · simp [setThread, upd] at h
        subst h
        simp [Thread.cont, hst, fl_ne_cons]
      · simp [setThread, withFault, upd] at hf
      · simp [setThread, upd] at h
        subst h
        simp [Thread.cont, hst, fl_ne_cons]

end Nstd.Future.FR

namespace Nstd.Future
open FR

/-- a micro-step of thread `t` from state `s` is a SPIN step: `t` is at the `xchg` of the spin lock of the lazily
    created pool and the lock is taken -/
def isSpinStep (s : State) (t : Tid) : Prop :=
  s.tplock ≠ 0 ∧ ∃ th c rest, s.threads t = some th ∧ th.stack = .cSpin c :: rest

/-- the only micro-steps that leave a reachable state unchanged are spin steps -/
theorem fixpoint_step_is_spinStep {cfg : Config} {s : State} {t : Tid} {o : List String} (hr : Reach cfg s)
    (h : step s t = some (s, o)) : isSpinStep s t := by
  have hflt : s.fault = none := no_fault hr
  rcases hth : s.threads t with _ | th
  · simp [step, hth] at h
  · rcases hst : th.stack with _ | ⟨fr, rest⟩
    · simp [step, hth, hst] at h
    · simp only [step, hth, hst] at h
      split at h
      · cases h
      · simp only [Option.some.injEq] at h
        have h1 : (stepFrame s t th fr).1 = s := by rw [h]
        have e1 : (stepFrame s t th fr).1.threads t = some th := by rw [h1]; exact hth
        have e2 : (stepFrame s t th fr).1.fault = none := by rw [h1]; exact hflt
        have e3 : (stepFrame s t th fr).1.pool = s.pool := by rw [h1]
        by_cases hring : ∃ pc, fr = .ring pc
        · obtain ⟨pc, rfl⟩ := hring
          exact absurd hst (fixRing s t th pc rest hst th e1 e2)
        · have hnr : ∀ pc, fr ≠ .ring pc := fun pc hpc => hring ⟨pc, hpc⟩
          obtain ⟨⟨c, rfl⟩, hl⟩ := fixShape s t th fr rest hst hnr th e1 e2 rfl e3
          exact ⟨hl, th, c, rest, hth, hst⟩

end Nstd.Future
