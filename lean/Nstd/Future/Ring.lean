/-
  Model of `Future<void>::Private::LockFreeQueue<T>` (src/Future.cpp:258-332), the bounded
  multi-producer multi-consumer ring with per-slot tickets.

  Every shared-memory access of `push` / `pop` is one micro-step (`ringStep`), so that all
  interleavings the hardware can produce under sequentially consistent atomics are schedules of
  this model.  Tickets are unbounded naturals (wrap-around of `usize` at 2^64 is outside the model);
  the initial `head = (usize)-1` of a slot, which equals no reachable ticket, is `none`.

  Ghost state (never read by the code): `pushLog` = payloads in ticket order (appended by the
  successful CAS on `_tail`), `popLog` = (ticket, payload read) events of the poppers, in the order of their data reads.

    push:  usize tail = _tail;                                   -- pushRead
           for(;; tail = next) {
             node = &_queue[tail & mask];
             if(node->tail != tail) return false;                -- pushChk
             if((next = CAS(_tail, tail, tail + 1)) == tail) break;   -- pushCas
           }
           new (&node->data) T(data);                            -- pushData
           Atomic::swap(node->head, tail); return true;          -- pushPub
    pop:   symmetric with _head / node->head / node->tail = head + capacity.
-/
namespace Nstd.Future

structure Slot (α : Type) where
  data : Option α        -- constructed payload (`none` = raw / destructed memory)
  tailT : Nat            -- node->tail
  headT : Option Nat     -- node->head (`none` = initial (usize)-1)

structure Ring (α : Type) where
  cap : Nat              -- _capacity (a power of two, ≥ 1); slot index = ticket % cap  (= ticket & mask)
  head : Nat             -- _head
  tail : Nat             -- _tail
  slots : Nat → Slot α
  pushLog : List α       -- ghost
  popLog : List (Nat × Option α)   -- ghost: (ticket, payload read) appended by the popper's data read

/-- `LockFreeQueue(capacity)`: capacity rounded up to a power of two by the bit smearing of the constructor -/
def ceilPow2Aux : Nat → Nat → Nat → Nat
  | 0, p, _ => p
  | fuel + 1, p, n => if n ≤ p then p else ceilPow2Aux fuel (2 * p) n

def ceilPow2 (n : Nat) : Nat := ceilPow2Aux 64 1 n

def Ring.init {α : Type} (cap : Nat) : Ring α :=
  { cap := cap, head := 0, tail := 0,
    slots := fun i => { data := none, tailT := i, headT := none },
    pushLog := [], popLog := [] }

def Ring.setSlot {α : Type} (r : Ring α) (i : Nat) (s : Slot α) : Ring α :=
  { r with slots := fun j => if j = i then s else r.slots j }

/-- program counter of a thread inside `push(d)` / `pop()`; the local variable `tail`/`head` is carried along -/
inductive RingPc (α : Type) where
  | pushRead (d : α)
  | pushChk (d : α) (t : Nat)
  | pushCas (d : α) (t : Nat)
  | pushData (d : α) (t : Nat)
  | pushPub (d : α) (t : Nat)
  | popRead
  | popChk (h : Nat)
  | popCas (h : Nat)
  | popData (h : Nat)
  | popRel (h : Nat) (d : Option α)

/-- outcome of one micro-step -/
inductive RingRes (α : Type) where
  | cont (pc : RingPc α)
  | pushed (ok : Bool)
  | popped (res : Option (Option α))   -- none = `false`; some d = `true` with payload d (d = none: raw memory was read)

def ringStep {α : Type} (r : Ring α) : RingPc α → Ring α × RingRes α
  | .pushRead d => (r, .cont (.pushChk d r.tail))
  | .pushChk d t =>
      if (r.slots (t % r.cap)).tailT ≠ t then (r, .pushed false) else (r, .cont (.pushCas d t))
  | .pushCas d t =>
      if r.tail = t then
        ({ r with tail := t + 1, pushLog := r.pushLog ++ [d] }, .cont (.pushData d t))
      else (r, .cont (.pushChk d r.tail))
  | .pushData d t =>
      let s := r.slots (t % r.cap)
      (r.setSlot (t % r.cap) { s with data := some d }, .cont (.pushPub d t))
  | .pushPub _ t =>
      let s := r.slots (t % r.cap)
      (r.setSlot (t % r.cap) { s with headT := some t }, .pushed true)
  | .popRead => (r, .cont (.popChk r.head))
  | .popChk h =>
      if (r.slots (h % r.cap)).headT ≠ some h then (r, .popped none) else (r, .cont (.popCas h))
  | .popCas h =>
      if r.head = h then ({ r with head := h + 1 }, .cont (.popData h))
      else (r, .cont (.popChk r.head))
  | .popData h =>
      let s := r.slots (h % r.cap)
      ({ (r.setSlot (h % r.cap) { s with data := none }) with
          popLog := r.popLog ++ [(h, s.data)] },
        .cont (.popRel h s.data))
  | .popRel h d =>
      let s := r.slots (h % r.cap)
      (r.setSlot (h % r.cap) { s with tailT := h + r.cap }, .popped (some d))

/-! ### The ring as a closed transition system (arbitrarily many threads, arbitrary operations) -/

structure RingSys (α : Type) where
  ring : Ring α
  pcs : Nat → Option (RingPc α)     -- thread ↦ pc inside an operation, `none` = outside

inductive RingAct (α : Type) where
  | callPush (d : α)     -- an idle thread enters push(d)
  | callPop              -- an idle thread enters pop()
  | step                 -- a thread inside an operation executes its next micro-step

def RingSys.init {α : Type} (cap : Nat) : RingSys α := { ring := Ring.init cap, pcs := fun _ => none }

def RingSys.setPc {α : Type} (s : RingSys α) (t : Nat) (p : Option (RingPc α)) : RingSys α :=
  { s with pcs := fun u => if u = t then p else s.pcs u }

/-- one step of thread `t`; `none` when the action is not possible in this state -/
def RingSys.step {α : Type} (s : RingSys α) (t : Nat) : RingAct α → Option (RingSys α)
  | .callPush d => match s.pcs t with
      | none => some (s.setPc t (some (.pushRead d)))
      | some _ => none
  | .callPop => match s.pcs t with
      | none => some (s.setPc t (some .popRead))
      | some _ => none
  | .step => match s.pcs t with
      | none => none
      | some pc =>
        let (r', res) := ringStep s.ring pc
        match res with
        | .cont pc' => some ({ s with ring := r' }.setPc t (some pc'))
        | .pushed _ => some ({ s with ring := r' }.setPc t none)
        | .popped _ => some ({ s with ring := r' }.setPc t none)

/-- reachable states of the ring for capacity `cap` under every schedule and every workload -/
inductive RingReach {α : Type} (cap : Nat) : RingSys α → Prop where
  | init : RingReach cap (RingSys.init cap)
  | step {s s' : RingSys α} (t : Nat) (a : RingAct α) :
      RingReach cap s → s.step t a = some s' → RingReach cap s'

end Nstd.Future
