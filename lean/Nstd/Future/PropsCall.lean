import Nstd.Future.Handshake
import Nstd.Future.SpawnFailLemmas
import Nstd.Future.CallModel
/-
  Property C10 — the `Future<A>` / `Call<A>` layer (include/nstd/Future.hpp, Call.hpp), round 3:
  result object lifetime, argument capture, restart of a Future object.

  Model facts used: a call record (`CallRec`, the model of `Call<A>::Args2<..>` — the other arities only differ in the number of
  captured values, see docs/future.md) is allocated by `start()` with the argument VALUES (`cNext`, event `rec-new`), is
  never written afterwards (`everCalls`), is read by `proc` (`pCall`: `b->call()`), the return value is stored into the `result`
  member of `Future<A>` (`pStore`) BEFORE the state exchange (`pSetX`), the Signal is set after it, the record is deleted last.
  `~Future<A>()` is `join()` followed by the destruction of the members (`result`, then the embedded `Future<void>` with its
  Signal): frames `join f`, `destroyF f`.
-/
namespace Nstd.Future.C10

/-- **`result_store_before_destroy`** — when `~Future<A>` destroys the members of future `f` (frame `destroyF f`: the `result`
    object and the Signal die here, after the destructor's `join()` has returned), NO thread is inside `Future<A>::proc` at or
    before the result store / state publication (`pCall … pStore … pSetX`) of ANY call ever started on `f`: every result store
    into this object has happened, none can come later.  (This is what the seeded change C10-6 breaks: without the
    `join()` in `~Future<A>` the implicit destructor destroys `result` first and joins afterwards.) -/
theorem result_store_before_destroy {cfg : Config} {s : State} (hwf : cfg.WellFormed) (h : Reach cfg s)
    {t : Tid} {f : Nat} (htop : topFrame s t = some (.destroyF f))
    {c : Nat} {r : CallRec} (hc : s.everCalls c = some r) (hf : r.fut = f) :
    ∀ u th fr, s.threads u = some th → fr ∈ th.stack → preX c fr = false := by
  have hH := reach_hs hwf execFacts_of_reach h
  have hj : jn s f = false := hH.top t .after f ⟨_, role_of_topFrame htop, rfl⟩
  intro u th fr hth hfr
  cases hpx : preX c fr with
  | false => rfl
  | true =>
    exfalso
    have hnd := safe_notDone h u th fr c hth hfr hpx
    rcases hH.q c r hc hnd with hpa | hq
    · obtain ⟨v, thv, y, hv, hy, hpy⟩ := hpa
      have hex : executes s u c := ⟨th, hth, fr, hfr, preX_inProc hpx⟩
      have hno := (safe_started h u c hex).2 v thv y hv hy
      rw [hsPreArm_eq] at hpy
      rw [hno] at hpy; cases hpy
    · rw [hf] at hq
      rw [hq.2.1] at hj; cases hj

/-- ... and the call started last on `f` has completed and was executed exactly once when the members are destroyed. -/
theorem destroy_after_completion {cfg : Config} {s : State} (hwf : cfg.WellFormed) (h : Reach cfg s)
    {t : Tid} {f c : Nat} (htop : topFrame s t = some (.destroyF f)) (hc : (s.futs f).curCall = some c) :
    s.completed c = true ∧ s.execCount c = 1 :=
  ⟨Nstd.Future.destroy_after_completion hwf h htop hc,
   completed_exec_once h (Nstd.Future.destroy_after_completion hwf h htop hc)⟩

/-- The same with failing thread creations (`XReach`, SpawnFail.lean). -/
theorem result_store_before_destroy_with_failing_thread_creation {cfg : Config} {x : XState} (hwf : cfg.WellFormed)
    (h : XReach cfg x) {t : Tid} {f : Nat} (htop : topFrame x.s t = some (.destroyF f))
    {c : Nat} {r : CallRec} (hc : x.s.everCalls c = some r) (hf : r.fut = f) :
    ∀ u th fr, x.s.threads u = some th → fr ∈ th.stack → preX c fr = false :=
  result_store_before_destroy hwf (xreach_reach h) htop hc hf

/-- **`args_as_at_start`** — argument capture by value: the record allocated by `start()` is never changed by any step
    (whatever the caller does to its variables afterwards), it is alive and equal to the allocated one while a thread is inside
    `proc` for it, and the values the body was called with are the ones of that record. -/
theorem args_as_at_start {cfg : Config} {s : State} (h : Reach cfg s) (c : Nat) :
    (∀ s' t o r, step s t = some (s', o) → s.everCalls c = some r → s'.everCalls c = some r) ∧
    (∀ t th fr, s.threads t = some th → fr ∈ th.stack → inProc c fr = true →
        ∃ r, s.calls c = some r ∧ s.everCalls c = some r) ∧
    (∀ a b, s.execArgs c = some (a, b) → ∃ r, s.everCalls c = some r ∧ r.a = a ∧ r.b = b) :=
  ⟨fun _ _ _ _ hs he => everCalls_stable h hs he,
   fun _ _ _ hth hfr hp => exec_record_alive h hth hfr hp,
   fun _ _ he => exec_args_are_start_args h he⟩

/-- **restart, part 1** — `start()` on a Future object that has been started before joins first: the future is armed for the
    new call (`cArm c'`: `_joinable = true; _aborting = false; run(..)`) only after the call started before has completed,
    and that call was executed exactly once. -/
theorem restart_waits_for_previous_call {cfg : Config} {s : State} (hwf : cfg.WellFormed) (h : Reach cfg s)
    {t : Tid} {c' c : Nat} {r : CallRec} (htop : topFrame s t = some (.cArm c')) (hr : s.calls c' = some r)
    (hc : (s.futs r.fut).curCall = some c) : s.completed c = true ∧ s.execCount c = 1 :=
  ⟨restart_after_completion hwf h htop hr hc, completed_exec_once h (restart_after_completion hwf h htop hr hc)⟩

/-- **restart, part 2** — a second start behaves like a fresh one: whatever the history of the object, the arming step leaves
    it joinable, not aborting, with no abort request and with the new call as its current call — exactly the fields the
    handshake theorems (`join_after_completion`, `state_after_join`, `result_is_return_value`, all stated for the CURRENT call)
    depend on; `_state` and `result` keep the values of the previous call until the new call publishes its own
    (so `isFinished()` may still answer for the previous call while the new one runs: the property speaks about the flags
    after join only). -/
theorem restart_arms_like_fresh (s : State) (t : Tid) (th : Thread) (c : Nat) {r : CallRec} (hr : s.calls c = some r) :
    let s' := (stepFrame s t th (.cArm c)).1
    (s'.futs r.fut).joinable = true ∧ (s'.futs r.fut).aborting = false ∧ (s'.futs r.fut).abortReq = false ∧
    (s'.futs r.fut).curCall = some c ∧ (s'.futs r.fut).state = (s.futs r.fut).state ∧
    (s'.futs r.fut).result = (s.futs r.fut).result := by
  simp [stepFrame, hr, setFut, setThread, upd]

/-- `abort()` / `isAborting()`: a request made after the start is what the completing worker reads — if the state after join
    is "aborted" then `abort()` was called since the start, and `isAborting()` (the `_aborting` flag) is cleared by every start
    (`restart_arms_like_fresh`).  Restated from `state_after_join` for the flags a client can query. -/
theorem flags_after_join {cfg : Config} {s : State} (hwf : cfg.WellFormed) (h : Reach cfg s) {f c : Nat}
    (hj : (s.futs f).joinable = false) (hc : (s.futs f).curCall = some c) :
    (((s.futs f).state = 2 ∧ (s.futs f).state ≠ 3) ∨ ((s.futs f).state = 3 ∧ (s.futs f).state ≠ 2)) ∧
    ((s.futs f).state = 3 → (s.futs f).abortReq = true) := by
  obtain ⟨h1, h2⟩ := Nstd.Future.state_after_join hwf h hj hc
  refine ⟨?_, h2⟩
  rcases h1 with h1 | h1
  · left; exact ⟨h1, by rw [h1]; decide⟩
  · right; exact ⟨h1, by rw [h1]; decide⟩

/-! ## every arity of Call.hpp (round 4): `CallModel.lean` -/

/-- the model's call record as an instance of the generic capture record: `Args2` with the harness body `a*100+b` -/
def toArgs2 (r : CallRec) : CallModel.ArgsRec Int Int :=
  { fn := fun l => l.getD 0 0 * 100 + l.getD 1 0, vals := [r.a, r.b], z := r.fut }

theorem model_record_is_args2 (r : CallRec) : (toArgs2 r).call = r.a * 100 + r.b := by
  simp [toArgs2, CallModel.ArgsRec.call]

/-- **`args_as_at_start` for every arity the header provides** (and any other): for a list of argument references of ANY length,
    the record built by `start()` holds the values the caller's variables had then; `call()` applies the function to exactly
    those; a later state `σ'` of the caller's variables is irrelevant, and the record is determined by (and determines) the
    values of the referenced variables. -/
theorem args_as_at_start_all_arities {V A : Type} (σ σ' : CallModel.Store V) (fn : List V → A) (refs : List CallModel.Loc)
    (z : Nat) :
    (CallModel.capture σ fn refs z).call = fn (refs.map σ) ∧
    (CallModel.capture σ fn refs z).vals.length = refs.length ∧
    (∀ i (h : i < refs.length), (CallModel.capture σ fn refs z).vals[i]? = some (σ (refs[i]))) ∧
    ((∀ l ∈ refs, σ' l = σ l) → CallModel.capture σ' fn refs z = CallModel.capture σ fn refs z) ∧
    (CallModel.capture σ fn refs z = CallModel.capture σ' fn refs z → ∀ l ∈ refs, σ l = σ' l) :=
  ⟨(CallModel.call_sees_values_at_start σ σ' fn refs z).1, (CallModel.call_sees_values_at_start σ σ' fn refs z).2.1,
   (CallModel.call_sees_values_at_start σ σ' fn refs z).2.2.1, (CallModel.call_sees_values_at_start σ σ' fn refs z).2.2.2,
   CallModel.capture_injective_in_the_arguments σ σ' fn refs z⟩

/-- member-function starts (`Member<C>::ArgsN`): arguments as at `start()`, the object as it is when the call runs -/
theorem member_args_as_at_start {V O A : Type} (σ : CallModel.Store V) (obj : CallModel.Loc) (fn : O → List V → A)
    (refs : List CallModel.Loc) (z : Nat) (heapAtCall : CallModel.Loc → O) :
    (CallModel.captureMember σ obj fn refs z).call heapAtCall = fn (heapAtCall obj) (refs.map σ) := rfl

/-- composition with the pool model: whatever the record holds, the record a worker executes for call `c` IS the record `start()`
    allocated for `c`, alive and unchanged (record identity and immutability do not depend on the payload) — and for the modelled
    payload (`Args2`) its `call()` is the generic one. -/
theorem executed_record_is_the_started_record {cfg : Config} {s : State} (h : Reach cfg s) {t : Tid} {th : Thread} {fr : Frame}
    {c : Nat} (hth : s.threads t = some th) (hfr : fr ∈ th.stack) (hp : inProc c fr = true) :
    ∃ r, s.calls c = some r ∧ s.everCalls c = some r ∧ (toArgs2 r).call = r.a * 100 + r.b ∧ (toArgs2 r).vals = [r.a, r.b] := by
  obtain ⟨r, h1, h2⟩ := exec_record_alive h hth hfr hp
  exact ⟨r, h1, h2, model_record_is_args2 r, rfl⟩

/-- non-vacuity of `result_store_before_destroy`: a well-formed configuration whose client destroys a future un-joined -/
example : ({ q := 2, minT := 0, maxT := 3, lazy := false, tick := 0, spurious := 0, repaired := true,
             scripts := [[.start 0 11 5, .destroy 0, .start 0 12 6]] } : Config).WellFormed := by
  constructor
  · intro i j si sj hi hj hij
    rcases i with _ | i <;> rcases j with _ | j <;> simp at hi hj
    exact absurd rfl hij
  · decide

/-
OPEN:
  * `Call.hpp`: the shape of all `ArgsN` / `Member<C>::ArgsN` records is modelled for any number of arguments (`CallModel.lean`,
    `args_as_at_start_all_arities`, `member_args_as_at_start`); the POOL model still carries the `Args2` instance (`toArgs2`), so the
    composition "the record a worker executes is the started record" is proved with that payload and is payload-independent only by
    inspection of `Model.lean` (no step looks into `a`, `b` except `pCall`/`pStore`); the hand translation header → `CallModel` is tied
    by the harness request `arity` (all 22 overloads, by-value capture checked on the real code).
  * the result object's lifetime is expressed through program counters (`destroyF f` = the point where `result` and the
    Signal are destroyed) rather than through a live/dead flag in `Fut`: adding the flag means editing `Model.lean`
    (whole-chain rebuild); the harness keeps that ledger on the real object (tracked result type `Res`).
-/

end Nstd.Future.C10
