/-
  Core of the fair-termination reduction (see Fair.lean for the overview): concrete spin classification,
  `fair_runs_terminate_of_step_decreases`, `Progresses`, `fair_runs_terminate_of_wf`, `join_eventually_of_wf`,
  `fair_run_progresses_or_terminal`.
-/
import Nstd.Future.FairFix
import Nstd.Future.FairLock
import Nstd.Future.FairDist
import Nstd.Future.FairBudget
set_option linter.unusedVariables false
namespace Nstd.Future
open FR

variable {cfg : Config} {s : State} {σ : Nat → Tid} {run : Nat → State}

/-- a holder of the spin lock is not spinning -/
theorem holder_not_spinStep {u : Tid} {th : Thread} {fr : Frame} {rest : List Frame}
    (hth : s.threads u = some th) (hst : th.stack = fr :: rest) (hh : FR.holderFr fr = true) :
    ¬ isSpinStep s u := by
  rintro ⟨_, th', c, rest', hth', hst'⟩
  rw [hth] at hth'
  cases hth'
  rw [hst] at hst'
  cases hst'
  cases hh

/-- whenever some thread spins on `tplock`, an enabled thread exists whose next micro-step is not a spin step
    (the lock holder) -/
theorem spin_step_has_enabled_non_spinner (hr : Reach cfg s) {t : Tid} (hsp : isSpinStep s t) :
    ∃ u, enabled s u = true ∧ ¬ isSpinStep s u := by
  obtain ⟨u, th, fr, rest, hth, _, hst, hh, hen⟩ := spinner_has_holder hr hsp.1
  exact ⟨u, hen, holder_not_spinStep hth hst hh⟩

/-- the step of the lock holder changes the state -/
theorem spin_step_has_progressing_thread (hr : Reach cfg s) {t : Tid} (hsp : isSpinStep s t) :
    ∃ u s' o, step s u = some (s', o) ∧ s' ≠ s := by
  obtain ⟨u, hen, hns⟩ := spin_step_has_enabled_non_spinner hr hsp
  obtain ⟨⟨s', o⟩, hs⟩ := step_isSome_of_enabled hen
  refine ⟨u, s', o, hs, ?_⟩
  intro he
  subst he
  exact hns (fixpoint_step_is_spinStep hr hs)

/-- THE REDUCTION, concrete form: a measure into a well-founded order that strictly decreases on every
    state-changing micro-step from a reachable state makes every weakly fair run terminate.  (Spin steps need no
    treatment: they are exactly the steps that do not change the state.) -/
theorem fair_runs_terminate_of_step_decreases {α : Type} (μ : State → α) (r : α → α → Prop) (hwfr : WellFounded r)
    (hdec : ∀ (s s' : State) (t : Tid) (o : List String), Reach cfg s → step s t = some (s', o) → s' ≠ s →
      r (μ s') (μ s))
    (hf : FairRun cfg σ run) : ∃ n, ∀ t, enabled (run n) t = false := by
  refine fair_runs_terminate_of_measure μ r hwfr isSpinStep ?_ ?_ hf
  · intro s s' t o hr hs
    by_cases he : s' = s
    · subst he
      exact Or.inr ⟨rfl, fixpoint_step_is_spinStep hr hs⟩
    · exact Or.inl (hdec s s' t o hr hs he)
  · intro s t hr _ hsp
    exact spin_step_has_enabled_non_spinner hr hsp

/-- ... and the terminal state it reaches is a complete success state -/
theorem join_eventually_of_step_decreases {α : Type} (μ : State → α) (r : α → α → Prop) (hwfr : WellFounded r)
    (hdec : ∀ (s s' : State) (t : Tid) (o : List String), Reach cfg s → step s t = some (s', o) → s' ≠ s →
      r (μ s') (μ s))
    (hrep : cfg.repaired = true) (hwf : cfg.WellFormed) (hf : FairRun cfg σ run) :
    ∃ n, (∀ t th, (run n).threads t = some th → th.finished = true) ∧
      (∀ c, c < (run n).nextCall →
        (run n).completed c = true ∧ (run n).execCount c = 1 ∧ (run n).freeCount c = 1) := by
  obtain ⟨n, hn⟩ := fair_runs_terminate_of_step_decreases μ r hwfr hdec hf
  exact ⟨n, terminal_state_is_complete hrep hwf (run_reach hf n) hn⟩

/-- the progress relation of configuration `cfg`: `s'` arises from the reachable state `s` by one state-changing
    micro-step -/
def Progresses (cfg : Config) (s' s : State) : Prop :=
  Reach cfg s ∧ s' ≠ s ∧ ∃ t o, step s t = some (s', o)

/-- measure-free form: if no infinite chain of state-changing micro-steps exists, every weakly fair run
    terminates -/
theorem fair_runs_terminate_of_wf (hwfp : WellFounded (Progresses cfg)) (hf : FairRun cfg σ run) :
    ∃ n, ∀ t, enabled (run n) t = false :=
  fair_runs_terminate_of_step_decreases (fun s => s) (Progresses cfg) hwfp
    (fun s s' t o hr hs hne => ⟨hr, hne, t, o, hs⟩) hf

theorem join_eventually_of_wf (hwfp : WellFounded (Progresses cfg))
    (hrep : cfg.repaired = true) (hwf : cfg.WellFormed) (hf : FairRun cfg σ run) :
    ∃ n, (∀ t th, (run n).threads t = some th → th.finished = true) ∧
      (∀ c, c < (run n).nextCall →
        (run n).completed c = true ∧ (run n).execCount c = 1 ∧ (run n).freeCount c = 1) :=
  join_eventually_of_step_decreases (fun s => s) (Progresses cfg) hwfp
    (fun s s' t o hr hs hne => ⟨hr, hne, t, o, hs⟩) hrep hwf hf

/-- conversely the hypothesis is NECESSARY up to fairness of the chain: a terminating fair run has only finitely
    many state-changing steps — every step of a run either stutters or is a `Progresses` step -/
theorem fair_run_stutters_or_progresses (hf : FairRun cfg σ run) (n : Nat) :
    run (n + 1) = run n ∨ Progresses cfg (run (n + 1)) (run n) := by
  by_cases he : run (n + 1) = run n
  · exact Or.inl he
  · rcases hf.next n with ⟨o, h⟩ | ⟨_, h⟩
    · exact Or.inr ⟨run_reach hf n, he, σ n, o, h⟩
    · exact absurd h he

/-- unconditional corollary of the reduction machinery: in a weakly fair run, from every time on, either the
    run has reached a terminal state or the state changes again (no fair run gets stuck spinning or stuttering:
    weak-fairness + `spinner_has_holder`) -/
theorem fair_run_progresses_or_terminal (hf : FairRun cfg σ run) (n : Nat) :
    (∀ t, enabled (run n) t = false) ∨ ∃ m, n ≤ m ∧ run (m + 1) ≠ run m := by
  by_cases hterm : ∀ t, enabled (run n) t = false
  · exact Or.inl hterm
  · refine Or.inr ?_
    apply Classical.byContradiction
    intro hno
    have hfr : Frozen run n := by
      intro m hm
      induction m with
      | zero => have : n = 0 := by omega
                subst this; rfl
      | succ m ihm =>
        by_cases hnm : n = m + 1
        · subst hnm; rfl
        · have hle : n ≤ m := by omega
          have : run (m + 1) = run m := by
            apply Classical.byContradiction
            intro hne
            exact hno ⟨m, hle, hne⟩
          rw [this]; exact ihm hle
    have : ∃ t, enabled (run n) t = true := by
      apply Classical.byContradiction
      intro hno'
      apply hterm
      intro t
      cases he : enabled (run n) t
      · rfl
      · exact absurd ⟨t, he⟩ hno'
    obtain ⟨t, hen⟩ := this
    have hrn := run_reach hf n
    obtain ⟨m, o, _, hs⟩ := frozen_scheduled hf hfr hen
    obtain ⟨u, hu, hnsp⟩ := spin_step_has_enabled_non_spinner hrn (fixpoint_step_is_spinStep hrn hs)
    obtain ⟨m', o', _, hs'⟩ := frozen_scheduled hf hfr hu
    exact hnsp (fixpoint_step_is_spinStep hrn hs')


end Nstd.Future
