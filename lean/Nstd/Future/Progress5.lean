/-
  Progress lemmas, part 5 (towards "~ThreadPool returns only after every worker has exited"): more per-frame facts
  (`Shape7`: the pool is deleted only by `dFin`, `_threadPool` is published only after the pool exists, `cleanup`
  frames sit above a marker frame of the pool mutex, which steps can raise the "no pool" fault) and the exact
  effect of a step on `_threads` (`FwdRel`).
-/
import Nstd.Future.Progress4
set_option linter.unusedSimpArgs false
set_option linter.unusedVariables false
namespace Nstd.Future

/-- frames whose step dereferences `Private::_threadPool` (they fault with "no pool" when there is none) -/
def needsPool : Frame → Bool
  | .fSet _ | .fRst _ | .fRstLoad _ | .fWait _ | .ring _ => true
  | .runAdd | .runRdProc _ | .runRdTc _ | .runClk1 | .runClk2 _ | .runClk3 => true
  | .runSpLock | .cleanAt _ | .cleanJoin _ _ | .runSpChk | .runSpUnlock _ | .runSpStart _ => true
  | .runRetLock | .runRetChk | .runRetAfter | .runRetUnlock => true
  | .wAdd | .wTerm | .dPush _ | .dJoin _ => true
  | _ => false

def isClean : Frame → Bool
  | .cleanAt _ | .cleanJoin _ _ => true
  | _ => false

def noClean : List Frame → Bool
  | [] => true
  | f :: l => !isClean f && noClean l

/-- every `cleanup` frame in the stack sits above a marker frame of the pool mutex (with only called code in between) -/
def cleanOK : List Frame → Bool
  | [] => true
  | f :: l => (!isClean f || holdStack l) && cleanOK l

def isSwap : Frame → Bool
  | .cSwapTp _ => true
  | _ => false

def hasSwap : List Frame → Bool
  | [] => false
  | f :: l => isSwap f || hasSwap l

structure Shape7 (s s' : State) (t : Tid) (fr : Frame) (rest : List Frame) : Prop where
  poolKeep : fr ≠ .dFin → ∀ p, s.pool = some p → ∃ p', s'.pool = some p'
  tpBack : s'.tp = true → s.tp = true ∨ ((∃ c, fr = .cSwapTp c) ∨ fr = .mInit) ∧ ((∃ p, s.pool = some p) → ∃ p', s'.pool = some p')
  initPool : fr = .mInit → s.tp = false → s'.tp = true → ∃ p', s'.pool = some p'
  swapNew : ∀ th', s'.threads t = some th' → hasSwap th'.stack = true → hasSwap (fr :: rest) = true ∨ ∃ p', s'.pool = some p'
  cleanG : (holdStack (fr :: rest) = true ∨ noHold (fr :: rest) = true) → cleanOK (fr :: rest) = true →
      ∃ th', s'.threads t = some th' ∧ cleanOK th'.stack = true
  fault : s'.fault = some "no pool" → s.fault = some "no pool" ∨ (needsPool fr = true ∧ s.pool = none)

theorem getD_no_pool {o : Option String} {m : String} (hm : m ≠ "no pool") (h : o.getD m = "no pool") : o = some "no pool" := by
  cases o with
  | none => exact absurd h hm
  | some x => simp at h; rw [h]

set_option maxHeartbeats 8000000 in
theorem shape7 (s : State) (t : Tid) (th : Thread) (fr : Frame) (rest : List Frame)
    (hth : s.threads t = some th) (hst : th.stack = fr :: rest) :
    Shape7 s (stepFrame s t th fr).1 t fr rest := by
  cases fr <;> simp only [stepFrame] <;> repeat' split
  all_goals
    constructor
    · intro hne p hp
      simp [setThread, setSig, setPool, setFut, withFault, destroySig, hp] <;> try (simp at hne)
    · simp [setThread, setSig, setPool, setFut, withFault, destroySig] <;> try (intro h; exact Or.inl h)
    · intro h
      simp at h <;> simp [setThread, setSig, setPool, setFut, withFault, destroySig] <;>
      try (intro a b; rw [a] at b; cases b)
    · intro th' h1 h2
      simp [setThread, setSig, setPool, setFut, withFault, destroySig, upd_same, hth] at h1
      subst h1
      simp [Thread.cont, hst, hasSwap, isSwap] at h2 ⊢ <;> try (first | exact Or.inl h2 | (simp [h2]; done) | (right; exact ⟨_, rfl⟩))
    · intro hb hc
      simp [holdStack, noHold, cleanOK, isClean, poolHold, poolAbove] at hb hc <;>
      simp [setThread, setSig, setPool, setFut, withFault, destroySig, upd_same, Thread.cont, hst, hth, hb, hc,
        holdStack, noHold, cleanOK, isClean, poolHold, poolAbove] <;>
      try (rcases hb with hb | hb <;> simp [hb, hc])
    · simp [setThread, setSig, setPool, setFut, withFault, destroySig, needsPool] <;>
      try (first | (intro h; exact Or.inl h) | (intro h; simp_all; done) | (intro h; left; exact getD_no_pool (by decide) h) | (intro h; exact getD_no_pool (by decide) h))

/-- how `_threads` of the new state is computed from the old one -/
def FwdRel (s : State) (t : Tid) (fr : Frame) (p p' : Pool) : Prop :=
  p'.ctxs = p.ctxs ∨
  (fr = .runSpChk ∧ p'.ctxs = p.ctxs ++ [⟨p.nextCtx, none, false⟩]) ∨
  (∃ k, fr = .runSpStart k ∧ p'.ctxs = p.ctxs.map (fun c => if c.id = k then { c with tid := some s.nthreads } else c)) ∨
  (fr = .wTerm ∧ p'.ctxs = p.ctxs.map (fun c => if c.tid = some t then { c with terminated := true } else c)) ∨
  (∃ i c, fr = .cleanAt i ∧ p.ctxs[i]? = some c ∧ c.terminated = true ∧ c.tid = none ∧ p'.ctxs = p.ctxs.eraseIdx i) ∨
  (∃ i w, fr = .cleanJoin i w ∧ p'.ctxs = p.ctxs.eraseIdx i) ∨
  (p'.ctxs = [] ∧ (fr = .mInit ∨ s.tp = false))

theorem ctxFwd_of (s : State) (t : Tid) (th : Thread) (fr : Frame) (rest : List Frame)
    (hth : s.threads t = some th) (hst : th.stack = fr :: rest) {p p' : Pool} (hp : s.pool = some p)
    (hp' : (stepFrame s t th fr).1.pool = some p') : FwdRel s t fr p p' := by
  cases hct : ctxTouch fr with
  | false =>
    rcases (shape6 s t th fr rest hth hst).same hct p' hp' with ⟨h1, _, h2⟩ | ⟨p2, h1, h2, _⟩
    · exact Or.inr (Or.inr (Or.inr (Or.inr (Or.inr (Or.inr ⟨h1, h2⟩)))))
    · rw [hp] at h1; injection h1 with h1; subst h1; exact Or.inl h2
  | true =>
    cases fr <;> simp [ctxTouch] at hct
    case runSpChk =>
      by_cases hlt : p.threadCount < p.maxT
      · simp [stepFrame, hp, hlt, setThread, setPool] at hp'
        subst hp'
        exact Or.inr (Or.inl ⟨rfl, rfl⟩)
      · simp [stepFrame, hp, hlt, setThread, setPool] at hp'
        subst hp'
        exact Or.inl rfl
    case runSpStart k =>
      simp [stepFrame, hp, setThread, setPool] at hp'
      subst hp'
      exact Or.inr (Or.inr (Or.inl ⟨k, rfl, rfl⟩))
    case wTerm =>
      simp [stepFrame, hp, setThread, setPool] at hp'
      subst hp'
      exact Or.inr (Or.inr (Or.inr (Or.inl ⟨rfl, rfl⟩)))
    case cleanJoin i w =>
      simp [stepFrame, hp, setThread, setPool] at hp'
      subst hp'
      exact Or.inr (Or.inr (Or.inr (Or.inr (Or.inr (Or.inl ⟨i, w, rfl, rfl⟩)))))
    case cleanAt i =>
      cases hi : p.ctxs[i]? with
      | none =>
        simp [stepFrame, hp, hi, setThread, setPool] at hp'
        subst hp'; exact Or.inl rfl
      | some c =>
        cases hterm : c.terminated with
        | false =>
          simp [stepFrame, hp, hi, hterm, setThread, setPool] at hp'
          subst hp'; exact Or.inl rfl
        | true =>
          cases htid : c.tid with
          | some w =>
            simp [stepFrame, hp, hi, hterm, htid, setThread, setPool] at hp'
            subst hp'; exact Or.inl rfl
          | none =>
            simp [stepFrame, hp, hi, hterm, htid, setThread, setPool] at hp'
            subst hp'
            exact Or.inr (Or.inr (Or.inr (Or.inr (Or.inl ⟨i, c, rfl, hi, hterm, htid, rfl⟩))))

end Nstd.Future
