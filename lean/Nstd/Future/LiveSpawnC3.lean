/-
  Counters identity (C1) of the thread pool, part 3: the induction over `Reach`.
-/
import Nstd.Future.LiveSpawnC1
import Nstd.Future.LiveSpawnC2
set_option linter.unusedSimpArgs false
set_option linter.unusedVariables false
namespace Nstd.Future.SPC

open LS SP

/-- `_pushedJobs + A = _processedJobs + X + R` -/
def SpcInv (s : State) : Prop := ∀ p, s.pool = some p →
  p.pushed + tsum s.nthreads (spAAt s)
    = p.processed + tsum s.nthreads (spXAt p.ring.pushLog s) + spR p.ring.head p.ring.pushLog

theorem spcInv_init (cfg : Config) : SpcInv (State.init cfg) := by
  intro p h; simp [State.init] at h

/-! ### a `push`/`pop` micro-step -/

theorem spc_num_ring {cfg : Config} {s : State} {t : Tid} {th : Thread} {pc : RingPc Job} {rest : List Frame}
    {p : Pool} {o : List String}
    (hrep : cfg.repaired = true) (hr : Reach cfg s) (hI : SpcInv s)
    (hth : s.threads t = some th) (hst : th.stack = .ring pc :: rest) (hp : s.pool = some p)
    (hstep : step s t = some ((stepFrame s t th (.ring pc)).1, o)) : SpcInv (stepFrame s t th (.ring pc)).1 := by
  have hL := lse_reach hrep hr
  have hr' : Reach cfg (stepFrame s t th (.ring pc)).1 := Reach.step t hr hstep
  have htlt := ls_thread_lt hr hth
  have hadj := (LW.stk_reach hrep hr).adj t th hth
  rw [hst] at hadj
  have hcall0 : LW.callerOk pc rest.head? = true := hadj.1
  obtain ⟨c, rest2, hrest⟩ : ∃ c rest2, rest = c :: rest2 := by
    cases rest with
    | nil => simp [LW.callerOk] at hcall0
    | cons c rest2 => exact ⟨c, rest2, rfl⟩
  subst hrest
  have hcall : LW.callerOk pc (some c) = true := hcall0
  have hpay : lsePayC pc (some c) = true := by
    have := hL.pay t th hth; rw [hst] at this; exact this.1
  have hallB : LsAllB rest2 := by
    have := hL.cb t th hth; rw [hst] at this
    exact this.2.1 (by simp [lseC, lsC_of_caller hcall])
  obtain ⟨th', h1, h2, h3, h4, h5, h6⟩ := ls_ring_desc s t th pc (c :: rest2) p hp hst
  intro p0 hp0
  rw [h2] at hp0; injection hp0 with hp0; subst hp0
  simp only []
  have hlen := full_pushLog_len hr hp
  have hht : p.ring.head ≤ p.ring.pushLog.length := by rw [hlen]; exact full_head_le_tail hr hp
  have hcas : ∀ h, pc = .popCas h → p.ring.head = h → h < p.ring.pushLog.length := by
    intro h hpc heq
    subst hpc
    have h7 := full_head_le_tail hr' h2
    simp [ringStep, heq] at h7
    omega
  have hrel : ∀ x d, pc = .popRel x d → ∃ j, d = some j ∧ p.ring.pushLog[x]? = some j := by
    intro x d hpc
    subst hpc
    have htop : th.stack.head? = some (.ring (.popRel x d)) := by rw [hst]; rfl
    obtain ⟨_, h8⟩ := full_popRel_payload hr hp hth htop
    obtain ⟨j, h9⟩ := full_popRel_some hr hp hth htop
    exact ⟨j, h9, by rw [← h8, h9]⟩
  have hpure := spc_ring_pure p.ring pc c th.retB th.retJob hcall hpay hht hcas hrel
  have haA : spAAt s t = spAFr th.retB (some pc) c := by
    simp [spAAt, spAVal, hth, spAW, hst, spcAFr_ring, lsRingOf, spcAStk_base _ _ hallB]
  have haX : spXAt p.ring.pushLog s t = spXFr th.retB th.retJob p.ring.pushLog (some pc) c := by
    simp [spXAt, spXVal, hth, spXW, hst, spcXFr_ring, lsRingOf, spcXStk_base _ _ _ _ hallB]
  have haA' : spAAt (stepFrame s t th (.ring pc)).1 t =
      spAFr (lsAfter th.retB th.retJob (ringStep p.ring pc).2).1 (lsAfter th.retB th.retJob (ringStep p.ring pc).2).2.2 c := by
    simp only [spAAt, h1, upd_same, spAVal, spAW, h4, h6]
    cases hres : (ringStep p.ring pc).2 with
    | cont pc' => simp [lsAfter, lsAfterStk, spcAFr_ring, lsRingOf, spcAStk_base _ _ hallB]
    | pushed ok => simp [lsAfter, lsAfterStk, spcAFr_ring, lsRingOf, spcAStk_base _ _ hallB]
    | popped x =>
      rcases x with _ | _ | j <;> simp [lsAfter, lsAfterStk, spcAFr_ring, lsRingOf, spcAStk_base _ _ hallB]
  have haX' : spXAt (ringStep p.ring pc).1.pushLog (stepFrame s t th (.ring pc)).1 t =
      spXFr (lsAfter th.retB th.retJob (ringStep p.ring pc).2).1 (lsAfter th.retB th.retJob (ringStep p.ring pc).2).2.1
        (ringStep p.ring pc).1.pushLog (lsAfter th.retB th.retJob (ringStep p.ring pc).2).2.2 c := by
    simp only [spXAt, h1, upd_same, spXVal, spXW, h4, h5, h6]
    cases hres : (ringStep p.ring pc).2 with
    | cont pc' => simp [lsAfter, lsAfterStk, spcXFr_ring, lsRingOf, spcXStk_base _ _ _ _ hallB]
    | pushed ok => simp [lsAfter, lsAfterStk, spcXFr_ring, lsRingOf, spcXStk_base _ _ _ _ hallB]
    | popped x =>
      rcases x with _ | _ | j <;> simp [lsAfter, lsAfterStk, spcXFr_ring, lsRingOf, spcXStk_base _ _ _ _ hallB]
  have hothA : ∀ u, u < s.nthreads → u ≠ t → spAAt (stepFrame s t th (.ring pc)).1 u = spAAt s u := by
    intro u hu hne
    simp only [spAAt, h1, upd_ne _ _ hne]
  have hothX : ∀ u, u < s.nthreads → u ≠ t →
      spXAt (ringStep p.ring pc).1.pushLog (stepFrame s t th (.ring pc)).1 u = spXAt p.ring.pushLog s u := by
    intro u hu hne
    simp only [spXAt, h1, upd_ne _ _ hne]
    cases hthu : s.threads u with
    | none => rfl
    | some thu =>
      simp only [spXVal]
      rcases ls_ring_log p.ring pc with h | ⟨d, h⟩
      · rw [h]
      · rw [h]; exact spc_log_stable hr hp hthu d
  have hsumA := ls_sum (s := s) (s' := (stepFrame s t th (.ring pc)).1) (f := spAAt s)
    (g := spAAt (stepFrame s t th (.ring pc)).1) htlt hothA (Or.inl h3)
  have hsumX := ls_sum (s := s) (s' := (stepFrame s t th (.ring pc)).1) (f := spXAt p.ring.pushLog s)
    (g := spXAt (ringStep p.ring pc).1.pushLog (stepFrame s t th (.ring pc)).1) htlt hothX (Or.inl h3)
  rw [if_pos h3] at hsumA hsumX
  have := hI p hp
  omega

/-! ### a step that creates the pool -/

theorem spc_num_create {s s' : State} {t : Tid} {th : Thread} {fr X : Frame} {rest : List Frame}
    (hth : s.threads t = some th) (hst : th.stack = fr :: rest)
    (hX : s'.threads = upd s.threads t (some (th.cont [X])))
    (hXa : ∀ rb ab, spAFr rb ab X = 0) (hXx : ∀ rb rj log ab, spXFr rb rj log ab X = 0)
    (hXr : lsRingOf X = none) (hfr : lsRingOf fr = none)
    (hn : s'.nthreads = s.nthreads)
    (hlog : ∀ p', s'.pool = some p' → p'.ring.pushLog = [] ∧ p'.pushed = 0 ∧ p'.processed = 0)
    (hZa : ∀ u thu, s.threads u = some thu → spAW thu = 0)
    (hZx : ∀ u thu, s.threads u = some thu → ∀ log, spXW log thu = 0) : SpcInv s' := by
  intro p' hp'
  obtain ⟨h1, h2, h3⟩ := hlog p' hp'
  have hA : tsum s'.nthreads (spAAt s') = 0 := by
    apply tsum_zero_of
    intro u _
    simp only [spAAt, hX]
    by_cases hu : u = t
    · subst hu
      rw [upd_same]
      have := hZa u th hth
      simp only [spAW, hst, spAStk_cons, hfr] at this
      simp only [spAVal, spAW, Thread.cont, hst, List.drop_one, List.tail_cons, List.cons_append, List.nil_append,
        spAStk_cons, hXa, hXr]
      omega
    · rw [upd_ne _ _ hu]
      cases hthu : s.threads u with
      | none => rfl
      | some thu => exact hZa u thu hthu
  have hXs : tsum s'.nthreads (spXAt [] s') = 0 := by
    apply tsum_zero_of
    intro u _
    simp only [spXAt, hX]
    by_cases hu : u = t
    · subst hu
      rw [upd_same]
      have := hZx u th hth []
      simp only [spXW, hst, spXStk_cons, hfr] at this
      simp only [spXVal, spXW, Thread.cont, hst, List.drop_one, List.tail_cons, List.cons_append, List.nil_append,
        spXStk_cons, hXx, hXr]
      omega
    · rw [upd_ne _ _ hu]
      cases hthu : s.threads u with
      | none => rfl
      | some thu => exact hZx u thu hthu []
  rw [h1, h2, h3, hA, hXs, spcR_empty _ [] (Nat.zero_le _)]

/-- while `tp = false` every frame is a frame that is possible before the pool exists -/
theorem spc_early_pre {cfg : Config} {s : State} {t : Tid} {th : Thread} {c : Nat} {rest : List Frame}
    (hr : Reach cfg s) (hth : s.threads t = some th) (hst : th.stack = .cRdTp2 c :: rest)
    (hfin : th.finished = false) (htp : s.tp = false) : ∀ u thu, s.threads u = some thu → AllPre thu.stack := by
  by_cases hl : poolAlive s
  · have hE := (reach_inv hr).early hl htp
    exact fun u thu hthu => hE.pre u thu hthu
  · exfalso
    obtain ⟨hall, _, _⟩ := (reach_join hr).dead hl
    rcases (reach_join hr).kinds t th hth with h3 | h3
    · obtain ⟨th2, h4, h5⟩ := hall t h3
      rw [hth] at h4; injection h4 with h4; subst h4; rw [hfin] at h5; cases h5
    · rw [hst, allNC_cons] at h3; simp [ncFr] at h3

/-! ### a step of a frame that neither is a `push`/`pop` frame nor creates the pool -/

theorem spc_num_plain {cfg : Config} {s : State} {t : Tid} {th : Thread} {fr : Frame} {rest : List Frame}
    (hrep : cfg.repaired = true) (hr : Reach cfg s) (hI : SpcInv s)
    (hth : s.threads t = some th) (hst : th.stack = fr :: rest) (hfin : th.finished = false)
    (hnr : lsRingOf fr = none) (hni : fr ≠ .mInit) (hnc : ∀ c, fr = .cRdTp2 c → s.tp = true) :
    SpcInv (stepFrame s t th fr).1 := by
  have hrep' : s.cfg.repaired = true := by rw [reach_cfg hr]; exact hrep
  have hL := lse_reach hrep hr
  have htlt := ls_thread_lt hr hth
  have hK := LW.shapeK s t th fr rest hth hst hrep'
  have hN := lsShapeN s t th fr rest hth hst hnr hrep' (Nat.ne_of_gt htlt) hni hnc
  have hcb : fr = .tExit → LsAllB rest := by
    intro h
    have := hL.cb t th hth; rw [hst] at this
    exact this.1 (by subst h; simp [lseC])
  have hA := spcShapeA s t th fr rest hth hst hnr hrep' hni hnc (fun h rb ab => spcAStk_base rb ab (hcb h))
  have hX := spcShapeX s t th fr rest hth hst hnr hrep' hni hnc
    (fun h rb rj log ab => spcXStk_base rb rj log ab (hcb h))
  intro p' hp'
  have hsome : (stepFrame s t th fr).1.pool.isSome = true := by rw [hp']; rfl
  obtain ⟨p, hp, hring⟩ : ∃ p, s.pool = some p ∧ p'.ring = p.ring := by
    rcases hN.ring with h0 | h0
    · rw [hp'] at h0; cases h0
    · cases hp : s.pool with
      | none => simp [lsRing, hp, hp'] at h0
      | some p => simp [lsRing, hp, hp'] at h0; exact ⟨p, rfl, h0⟩
  rw [hring]
  have eA := hA hsome
  simp only [spcPu, hp, hp'] at eA
  have eX := hX p.ring.pushLog hsome
  simp only [spcPr, hp, hp'] at eX
  have hothA : ∀ u, u < s.nthreads → u ≠ t → spAAt (stepFrame s t th fr).1 u = spAAt s u := by
    intro u hu hne
    simp only [spAAt]
    rcases hK.others u hne with h2 | ⟨h2, _⟩
    · rw [h2]
    · have : (u : Nat) = s.nthreads := h2
      omega
  have hothX : ∀ u, u < s.nthreads → u ≠ t →
      spXAt p.ring.pushLog (stepFrame s t th fr).1 u = spXAt p.ring.pushLog s u := by
    intro u hu hne
    simp only [spXAt]
    rcases hK.others u hne with h2 | ⟨h2, _⟩
    · rw [h2]
    · have : (u : Nat) = s.nthreads := h2
      omega
  have hn : (stepFrame s t th fr).1.nthreads = s.nthreads ∨ (stepFrame s t th fr).1.nthreads = s.nthreads + 1 := by
    rcases hN.nth with h | ⟨h, _⟩
    · exact Or.inl h
    · exact Or.inr h
  have hsumA := ls_sum (s := s) (s' := (stepFrame s t th fr).1) (f := spAAt s)
    (g := spAAt (stepFrame s t th fr).1) htlt hothA hn
  have hsumX := ls_sum (s := s) (s' := (stepFrame s t th fr).1) (f := spXAt p.ring.pushLog s)
    (g := spXAt p.ring.pushLog (stepFrame s t th fr).1) htlt hothX hn
  have hfresh : spAAt (stepFrame s t th fr).1 s.nthreads = 0 ∧
      spXAt p.ring.pushLog (stepFrame s t th fr).1 s.nthreads = 0 := by
    rcases hK.others s.nthreads (Nat.ne_of_gt htlt) with h2 | ⟨_, h2 | ⟨sc, h2⟩⟩
    · have h0 := (reach_inv hr).fresh s.nthreads (Nat.le_refl _)
      simp only [spAAt, spXAt, h2, h0]
      exact ⟨rfl, rfl⟩
    · simp [spAAt, spXAt, h2, spAVal, spXVal, spAW, spXW, spAFr, spXFr, lsRingOf]
    · simp [spAAt, spXAt, h2, spAVal, spXVal, spAW, spXW, spAFr, spXFr, lsRingOf]
  have hnwA : (if (stepFrame s t th fr).1.nthreads = s.nthreads then 0
      else spAAt (stepFrame s t th fr).1 s.nthreads) = 0 := by
    split
    · rfl
    · exact hfresh.1
  have hnwX : (if (stepFrame s t th fr).1.nthreads = s.nthreads then 0
      else spXAt p.ring.pushLog (stepFrame s t th fr).1 s.nthreads) = 0 := by
    split
    · rfl
    · exact hfresh.2
  rw [hnwA] at hsumA
  rw [hnwX] at hsumX
  have := hI p hp
  omega

/-! ### the identity in reachable states -/

theorem spcInv_step {cfg : Config} {s s' : State} {t : Tid} {o : List String} (hrep : cfg.repaired = true)
    (hr : Reach cfg s) (hI : SpcInv s) (h : step s t = some (s', o)) : SpcInv s' := by
  obtain ⟨th, fr, rest, hth, hst, hfin, rfl⟩ := step_inv h
  cases hnr : lsRingOf fr with
  | some pc =>
    have hfr : fr = .ring pc := by cases fr <;> simp [lsRingOf] at hnr; rw [hnr]
    subst hfr
    cases hp : s.pool with
    | none =>
      have hpn : (stepFrame s t th (.ring pc)).1.pool = none := by
        rw [LW.ring_step_noPool s t th pc hp]; simp [withFault, hp]
      intro p' hp'; rw [hpn] at hp'; cases hp'
    | some p => exact spc_num_ring hrep hr hI hth hst hp h
  | none =>
    by_cases hni : fr = .mInit
    · subst hni
      have hinit := (reach_inv hr).initOnly t th hth (by rw [hst]; rfl)
      have hthr : ∀ u thu, s.threads u = some thu → thu = { stack := [Frame.mInit] } := by
        intro u thu hthu
        rw [hinit] at hthu
        simp only [State.init] at hthu
        split at hthu
        · injection hthu with hthu; exact hthu.symm
        · cases hthu
      have hZa : ∀ u thu, s.threads u = some thu → spAW thu = 0 := by
        intro u thu hthu; rw [hthr u thu hthu]; simp [spAW, spAFr, lsRingOf]
      have hZx : ∀ u thu, s.threads u = some thu → ∀ log, spXW log thu = 0 := by
        intro u thu hthu log; rw [hthr u thu hthu]; simp [spXW, spXFr, lsRingOf]
      have hX : (stepFrame s t th .mInit).1.threads = upd s.threads t (some (th.cont [.mSpawn 0])) := by
        simp only [stepFrame]; split <;> rfl
      have hn : (stepFrame s t th .mInit).1.nthreads = s.nthreads := by
        simp only [stepFrame]; split <;> rfl
      have hlog : ∀ p', (stepFrame s t th .mInit).1.pool = some p' →
          p'.ring.pushLog = [] ∧ p'.pushed = 0 ∧ p'.processed = 0 := by
        intro p' hp'
        simp only [stepFrame] at hp'
        split at hp'
        · rw [hinit] at hp'; simp [setThread, State.init] at hp'
        · simp [setThread] at hp'; subst hp'; exact ⟨rfl, rfl, rfl⟩
      exact spc_num_create hth hst hX (by intro rb ab; rfl) (by intro rb rj log ab; rfl) rfl rfl hn hlog hZa hZx
    · by_cases hc : ∃ c, fr = .cRdTp2 c ∧ s.tp = false
      · obtain ⟨c, rfl, htp⟩ := hc
        have hpre := spc_early_pre hr hth hst hfin htp
        have hZa : ∀ u thu, s.threads u = some thu → spAW thu = 0 :=
          fun u thu hthu => spcAStk_pre _ _ (hpre u thu hthu)
        have hZx : ∀ u thu, s.threads u = some thu → ∀ log, spXW log thu = 0 :=
          fun u thu hthu log => spcXStk_pre _ _ _ _ (hpre u thu hthu)
        have hX : (stepFrame s t th (.cRdTp2 c)).1.threads = upd s.threads t (some (th.cont [.cSwapTp c])) := by
          simp [stepFrame, htp, setThread]
        have hn : (stepFrame s t th (.cRdTp2 c)).1.nthreads = s.nthreads := by
          simp [stepFrame, htp, setThread]
        have hlog : ∀ p', (stepFrame s t th (.cRdTp2 c)).1.pool = some p' →
            p'.ring.pushLog = [] ∧ p'.pushed = 0 ∧ p'.processed = 0 := by
          intro p' hp'
          simp [stepFrame, htp, setThread] at hp'
          subst hp'; exact ⟨rfl, rfl, rfl⟩
        exact spc_num_create hth hst hX (by intro rb ab; rfl) (by intro rb rj log ab; rfl) rfl rfl hn hlog hZa hZx
      · refine spc_num_plain hrep hr hI hth hst hfin hnr hni ?_
        intro c hfr
        cases htp : s.tp with
        | true => rfl
        | false => exact absurd ⟨c, hfr, htp⟩ hc

theorem spc_reach {cfg : Config} (hrep : cfg.repaired = true) {s : State} (h : Reach cfg s) : SpcInv s := by
  induction h with
  | init => exact spcInv_init cfg
  | step t hr hs ih => exact spcInv_step hrep hr ih hs

end Nstd.Future.SPC
