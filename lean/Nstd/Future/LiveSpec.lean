import Nstd.Future.Spec
/-
  Vocabulary of the liveness statements of C10 (deadlock-freedom form: "some thread can step").
-/
namespace Nstd.Future

/-- a job (or terminate job) is in the queue: a ticket has been claimed by a pusher and not yet by a popper -/
def jobQueued (s : State) : Prop := ∃ p, s.pool = some p ∧ p.ring.head < p.ring.tail

/-- a live worker thread -/
def liveWorker (s : State) (w : Tid) : Prop := ∃ th, s.threads w = some th ∧ th.isWorker = true ∧ th.finished = false

/-- the queue has a free slot for the next ticket -/
def slotFree (s : State) : Prop := ∃ p, s.pool = some p ∧ p.ring.tail < p.ring.head + p.ring.cap

end Nstd.Future
