/-
  Join side of deadlock freedom (repaired code, well-formed configurations): a client sleeping in `join()` on the
  Signal of its future while a worker thread is alive implies that some thread can step.

    LiveJoin1–4   token CONSERVATION: `LJ.token_conservation`, `LJ.uncompleted_call_has_holder`
    LiveJoin5     `LJ.future_sigClean`: the Signal of a future is `SigClean` in every reachable state
    LiveJoin6     the argument `LJ.no_stuck_join_side_of` from the state facts `LJ.JoinFacts`
    LiveJoin7–9   the state facts: `LJ.reach_jinv` (joinable ⇒ current call; current call has left the prefix of
                  `startProc`; a thread in `_sig.wait()` waits on a joinable future), `LJ.fw0_of_reach`, `LJ.jt_of_reach`
    LiveJoin10    `LJ.reach_flag`: completion is published (`LJ.FlagPublished`)
    this file     the theorem `no_stuck_join_side`

  The only hypothesis left is the producer side: no thread sleeps in `_dequeuedSignal.wait()` (`asleepOnDeq`,
  `LiveProducer.lean`); with `no_stuck_producer_side` it can be replaced by `slotFree s` (see `no_stuck_join_side'`).
-/
import Nstd.Future.LiveJoin10
namespace Nstd.Future

theorem LJ.joinFacts_of_reach {cfg : Config} {s : State} (hwf : cfg.WellFormed) (h : Reach cfg s)
    (hflag : LJ.FlagPublished s) : LJ.JoinFacts s := by
  have hJ := LJ.reach_jinv hwf h
  refine ⟨hJ.jw, hJ.jc, ?_, hflag, ?_, ?_⟩
  · intro f c hc u thu fr hthu hfr
    cases hp : preArm c fr with
    | false => rfl
    | true => exact absurd ⟨fr, hfr, hp⟩ (hJ.np f c hc u thu hthu)
  · intro u thu x rest hthu hst hk; exact LJ.fw0_of_reach h hthu hst hk
  · intro u thu x rest σ hthu hst hk hσ; exact LJ.jt_of_reach h hthu hst hk hσ

/-- join side of deadlock freedom, relative to `FlagPublished` and to the producer side (`asleepOnDeq`) -/
theorem no_stuck_join_side_partial {cfg : Config} {s : State} (hrep : cfg.repaired = true) (hwf : cfg.WellFormed)
    (h : Reach cfg s) (hflag : LJ.FlagPublished s)
    (hsl : ∃ t f, topFrame s t = some (.sWaitCwake (f + 2)) ∧ t ∈ (s.sigs (f + 2)).waiters)
    (hw : ∃ w, liveWorker s w) (hdeq : ¬ ∃ t, asleepOnDeq s t) : ∃ t, enabled s t = true :=
  LJ.no_stuck_join_side_of (LJ.joinFacts_of_reach hwf h hflag) hrep hwf h hsl hw hdeq

/-- JOIN SIDE OF DEADLOCK FREEDOM: in the repaired system (well-formed configuration: each future is used by one
    client), whenever a client sleeps in `join()` on the Signal of its future and a worker thread is alive, some
    thread can step — unless a thread sleeps on the dequeued signal (producer side, `LiveProducer.lean`) -/
theorem no_stuck_join_side {cfg : Config} {s : State} (hrep : cfg.repaired = true) (hwf : cfg.WellFormed)
    (h : Reach cfg s)
    (hsl : ∃ t f, topFrame s t = some (.sWaitCwake (f + 2)) ∧ t ∈ (s.sigs (f + 2)).waiters)
    (hw : ∃ w, liveWorker s w) (hdeq : ¬ ∃ t, asleepOnDeq s t) : ∃ t, enabled s t = true :=
  no_stuck_join_side_partial hrep hwf h (LJ.reach_flag hwf h) hsl hw hdeq

/-- the same with the producer side discharged by `no_stuck_producer_side`: it suffices that the queue has a free slot -/
theorem no_stuck_join_side' {cfg : Config} {s : State} (hrep : cfg.repaired = true) (hwf : cfg.WellFormed)
    (h : Reach cfg s)
    (hsl : ∃ t f, topFrame s t = some (.sWaitCwake (f + 2)) ∧ t ∈ (s.sigs (f + 2)).waiters)
    (hw : ∃ w, liveWorker s w) (hfree : slotFree s) : ∃ t, enabled s t = true := by
  cases Classical.em (∃ t, asleepOnDeq s t) with
  | inl hd => exact no_stuck_producer_side hrep h hfree hd hw
  | inr hd => exact no_stuck_join_side hrep hwf h hsl hw hd

end Nstd.Future
