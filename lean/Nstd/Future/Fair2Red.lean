/-
  STRONG fairness: definition of a strongly fair run and the GENERIC reduction of `join_eventually_strong`
  to a certificate `F2.SpinCert` (a measure + a "no-stuck modulo futile spinners" invariant).

  Why strong fairness and why this shape (see Fair2Neg.lean / Fair2Stuck.lean for the kernel-checked witnesses):
    * `progresses_not_wf` (Fair2Neg.lean): the relation "state-changing micro-step" of the repaired model is NOT
      well-founded: a worker alone cycles through its idle loop while `_state σ = 0 ∧ signaled σ = true`
      (SPIN MODE of the FastSignal σ) — so no measure decreases on every state-changing step.
    * spin mode can persist with NO thread inside `set()`/`reset()` (Fair2Stuck.lean): then the spinning ends only
      through the progress of OTHER threads (the next push).  Hence the certificate asks for
        - `W` (well-founded, never increases), `M : State → Nat` (never increases while `W` is constant);
          spinner steps may leave both unchanged ("quiet" steps);
        - `NonSp s u` ("u is not a futile spinner"): a step of such a thread strictly decreases `(W, M)`;
        - `nss`: in every reachable non-terminal state some `NonSp` thread is enabled, or is waiting for a mutex
          whose owner `o` is inside a short critical section `Crit s o σ k` that it leaves after `k+1` own steps
          (the spinner inside `Signal::wait`); when the mutex is `Free` the waiter is enabled.
    * weak fairness lets the critical section end; STRONG fairness gives the mutex to the waiter eventually.

  `strong_fair_runs_terminate_of_cert`, `join_eventually_strong_of_cert`: nothing in this file depends on the shape of
  the measure.
-/
import Nstd.Future.FairCore
set_option linter.unusedVariables false
namespace Nstd.Future

/-- an infinite run under a STRONGLY fair schedule: a thread that is enabled infinitely often is scheduled, while
    enabled, again and again -/
structure StrongFairRun (cfg : Config) (σ : Nat → Tid) (run : Nat → State) : Prop where
  init : run 0 = State.init cfg
  next : ∀ n, (∃ o, step (run n) (σ n) = some (run (n+1), o)) ∨ (step (run n) (σ n) = none ∧ run (n+1) = run n)
  fair : ∀ t n, (∀ m, n ≤ m → ∃ k, m ≤ k ∧ enabled (run k) t = true) →
    ∃ m, n ≤ m ∧ σ m = t ∧ enabled (run m) t = true

/-- a strongly fair run is weakly fair -/
theorem StrongFairRun.toFairRun {cfg : Config} {σ : Nat → Tid} {run : Nat → State}
    (hf : StrongFairRun cfg σ run) : FairRun cfg σ run :=
  ⟨hf.init, hf.next, fun t n h => by
    obtain ⟨m, hm, hs, _⟩ := hf.fair t n (fun m hm => ⟨m, Nat.le_refl m, h m hm⟩)
    exact ⟨m, hm, hs⟩⟩

namespace F2

/-- THE CERTIFICATE.  `sg` ranges over signal ids, `k` over the number of remaining steps of a critical section. -/
structure SpinCert (cfg : Config) (α : Type) where
  W : State → α
  rW : α → α → Prop
  wf : WellFounded rW
  M : State → Nat
  NonSp : State → Tid → Prop
  LockWait : State → Tid → Nat → Prop
  Crit : State → Tid → Nat → Nat → Prop
  Free : State → Nat → Prop
  /-- (B1) `W` never increases; while it is constant `M` never increases -/
  mono : ∀ (s s' : State) (t : Tid) (o : List String), Reach cfg s → step s t = some (s', o) →
    rW (W s') (W s) ∨ (W s' = W s ∧ M s' ≤ M s)
  /-- (B2) a step of a non-spinner is not quiet -/
  prog : ∀ (s s' : State) (u : Tid) (o : List String), Reach cfg s → NonSp s u → step s u = some (s', o) →
    ¬ (W s' = W s ∧ M s' = M s)
  /-- quiet steps of other threads do not turn a non-spinner into a spinner -/
  pers : ∀ (s s' : State) (t u : Tid) (o : List String), Reach cfg s → NonSp s u → step s t = some (s', o) →
    t ≠ u → W s' = W s → M s' = M s → NonSp s' u
  /-- quiet steps create no threads -/
  nth : ∀ (s s' : State) (t : Tid) (o : List String), Reach cfg s → step s t = some (s', o) →
    W s' = W s → M s' = M s → s'.nthreads = s.nthreads
  /-- (B3') no-stuck modulo futile spinners -/
  nss : ∀ (s : State), Reach cfg s → (∃ t, enabled s t = true) →
    ∃ u, u < s.nthreads ∧ NonSp s u ∧
      (enabled s u = true ∨ ∃ sg o k, LockWait s u sg ∧ Crit s o sg k)
  lwEn : ∀ (s : State) (u : Tid) (sg : Nat), Reach cfg s → LockWait s u sg → Free s sg → enabled s u = true
  lwPers : ∀ (s s' : State) (t u : Tid) (sg : Nat) (o : List String), Reach cfg s → LockWait s u sg →
    step s t = some (s', o) → t ≠ u → W s' = W s → M s' = M s → LockWait s' u sg
  crEn : ∀ (s : State) (o : Tid) (sg k : Nat), Reach cfg s → Crit s o sg k → enabled s o = true
  crPers : ∀ (s s' : State) (t o : Tid) (sg k : Nat) (out : List String), Reach cfg s → Crit s o sg k →
    step s t = some (s', out) → t ≠ o → W s' = W s → M s' = M s → Crit s' o sg k
  crStep : ∀ (s s' : State) (o : Tid) (sg k : Nat) (out : List String), Reach cfg s → Crit s o sg k →
    step s o = some (s', out) → W s' = W s → M s' = M s →
    (k = 0 → Free s' sg) ∧ (∀ k', k = k' + 1 → Crit s' o sg k')

/-! ### order-theoretic helpers -/

theorem wf_irrefl {α : Type} {r : α → α → Prop} (h : WellFounded r) : ∀ a, ¬ r a a := by
  intro a
  induction a using h.induction with
  | _ a ih => intro haa; exact ih a haa haa

theorem uniform_bound (N : Nat) (P : Nat → Nat → Prop) (h : ∀ u, u < N → ∃ m, ∀ k, m ≤ k → P u k) :
    ∃ m, ∀ u, u < N → ∀ k, m ≤ k → P u k := by
  induction N with
  | zero => exact ⟨0, fun u hu => absurd hu (Nat.not_lt_zero u)⟩
  | succ N ih =>
    obtain ⟨m1, h1⟩ := ih (fun u hu => h u (Nat.lt_succ_of_lt hu))
    obtain ⟨m2, h2⟩ := h N (Nat.lt_succ_self N)
    refine ⟨m1 + m2, fun u hu k hk => ?_⟩
    rcases Nat.lt_or_eq_of_le (Nat.le_of_lt_succ hu) with hlt | heq
    · exact h1 u hlt k (by omega)
    · subst heq; exact h2 k (by omega)

theorem exists_least (Q : Nat → Prop) (m : Nat) (h : ∃ j, m ≤ j ∧ Q j) :
    ∃ j, m ≤ j ∧ Q j ∧ ∀ i, m ≤ i → i < j → ¬ Q i := by
  obtain ⟨j, hj, hq⟩ := h
  induction j using Nat.strongRecOn with
  | _ j ih =>
    by_cases hex : ∃ i, m ≤ i ∧ i < j ∧ Q i
    · obtain ⟨i, hmi, hij, hqi⟩ := hex
      exact ih i hij hmi hqi
    · exact ⟨j, hj, hq, fun i hmi hij hqi => hex ⟨i, hmi, hij, hqi⟩⟩

theorem bool_false_of_not_true {b : Bool} (h : ¬ b = true) : b = false := by
  cases b
  · rfl
  · exact absurd rfl h

section
variable {cfg : Config} {σ : Nat → Tid} {run : Nat → State} {α : Type}

theorem sf_reach (hf : StrongFairRun cfg σ run) (n : Nat) : Reach cfg (run n) :=
  FR.run_reach hf.toFairRun n

/-- a thread that is scheduled while enabled takes a real step of the run -/
theorem sf_actual (hf : StrongFairRun cfg σ run) {j : Nat} {u : Tid} (hs : σ j = u)
    (hen : enabled (run j) u = true) : ∃ o, step (run j) u = some (run (j+1), o) := by
  rcases hf.next j with ⟨o, h⟩ | ⟨h, _⟩
  · exact ⟨o, hs ▸ h⟩
  · obtain ⟨r, hr⟩ := FR.step_isSome_of_enabled hen
    rw [hs, hr] at h; cases h

/-- Step 1: `W` is eventually constant -/
theorem W_stabilises (C : SpinCert cfg α) (hf : StrongFairRun cfg σ run) :
    ∃ n0, ∀ m, n0 ≤ m → C.W (run m) = C.W (run n0) := by
  have key : ∀ a : α, ∀ n, C.W (run n) = a → ∃ n0, ∀ m, n0 ≤ m → C.W (run m) = C.W (run n0) := by
    intro a
    induction a using C.wf.induction with
    | _ a ih =>
      intro n hn
      by_cases hex : ∃ m, n ≤ m ∧ C.rW (C.W (run m)) (C.W (run n))
      · obtain ⟨m, _, hm⟩ := hex
        exact ih _ (hn ▸ hm) m rfl
      · refine ⟨n, ?_⟩
        intro m hm
        induction m with
        | zero =>
          have : n = 0 := by omega
          subst this; rfl
        | succ m ihm =>
          by_cases hnm : n = m + 1
          · subst hnm; rfl
          · have hle : n ≤ m := by omega
            have hm' := ihm hle
            rcases hf.next m with ⟨o, h⟩ | ⟨_, h⟩
            · rcases C.mono _ _ _ _ (sf_reach hf m) h with hd | ⟨he, _⟩
              · exact absurd ⟨m + 1, hm, by rw [hm'] at hd; exact hd⟩ hex
              · rw [he]; exact hm'
            · rw [h]; exact hm'
  exact key _ 0 rfl

/-- while `W` is constant, `M` does not increase along the run -/
theorem M_noninc (C : SpinCert cfg α) (hf : StrongFairRun cfg σ run) {n0 : Nat}
    (h0 : ∀ m, n0 ≤ m → C.W (run m) = C.W (run n0)) (m : Nat) (hm : n0 ≤ m) :
    C.M (run (m+1)) ≤ C.M (run m) := by
  rcases hf.next m with ⟨o, h⟩ | ⟨_, h⟩
  · rcases C.mono _ _ _ _ (sf_reach hf m) h with hd | ⟨_, hle⟩
    · rw [h0 (m+1) (by omega), h0 m hm] at hd
      exact absurd hd (wf_irrefl C.wf _)
    · exact hle
  · rw [h]; exact Nat.le_refl _

/-- Step 2: ... and then `M` is eventually constant -/
theorem M_stabilises (C : SpinCert cfg α) (hf : StrongFairRun cfg σ run) {n0 : Nat}
    (h0 : ∀ m, n0 ≤ m → C.W (run m) = C.W (run n0)) :
    ∃ n1, n0 ≤ n1 ∧ ∀ m, n1 ≤ m → C.M (run m) = C.M (run n1) := by
  have key : ∀ v : Nat, ∀ n, n0 ≤ n → C.M (run n) = v →
      ∃ n1, n0 ≤ n1 ∧ ∀ m, n1 ≤ m → C.M (run m) = C.M (run n1) := by
    intro v
    induction v using Nat.strongRecOn with
    | _ v ih =>
      intro n hn0 hn
      by_cases hex : ∃ m, n ≤ m ∧ C.M (run m) < C.M (run n)
      · obtain ⟨m, hnm, hm⟩ := hex
        exact ih _ (hn ▸ hm) m (by omega) rfl
      · refine ⟨n, hn0, ?_⟩
        intro m hm
        induction m with
        | zero =>
          have : n = 0 := by omega
          subst this; rfl
        | succ m ihm =>
          by_cases hnm : n = m + 1
          · subst hnm; rfl
          · have hle : n ≤ m := by omega
            have hm' := ihm hle
            have h1 := M_noninc C hf h0 m (by omega)
            rcases Nat.lt_or_eq_of_le h1 with hlt | heq
            · exact absurd ⟨m + 1, hm, by omega⟩ hex
            · rw [heq]; exact hm'
  exact key _ n0 (Nat.le_refl _) rfl

/-- the run is QUIET from `n1` on: no step changes `W` or `M` -/
def QuietFrom (C : SpinCert cfg α) (run : Nat → State) (n1 : Nat) : Prop :=
  ∀ m, n1 ≤ m → C.W (run (m+1)) = C.W (run m) ∧ C.M (run (m+1)) = C.M (run m)

theorem quiet_exists (C : SpinCert cfg α) (hf : StrongFairRun cfg σ run) : ∃ n1, QuietFrom C run n1 := by
  obtain ⟨n0, h0⟩ := W_stabilises C hf
  obtain ⟨n1, h01, h1⟩ := M_stabilises C hf h0
  refine ⟨n1, fun m hm => ⟨?_, ?_⟩⟩
  · rw [h0 (m+1) (by omega), h0 m (by omega)]
  · rw [h1 (m+1) (by omega), h1 m hm]

/-- generic persistence: a property of the state that survives the quiet steps of all threads but `o` holds as long
    as `o` is not scheduled while enabled -/
theorem persist_until (C : SpinCert cfg α) (hf : StrongFairRun cfg σ run) {n1 : Nat} (hq : QuietFrom C run n1)
    (P : State → Prop) (o : Tid)
    (hP : ∀ (s s' : State) (t : Tid) (out : List String), Reach cfg s → P s → step s t = some (s', out) → t ≠ o →
      C.W s' = C.W s → C.M s' = C.M s → P s')
    {m : Nat} (hm : n1 ≤ m) (h : P (run m)) :
    ∀ d, (∀ i, m ≤ i → i < m + d → ¬ (σ i = o ∧ enabled (run i) o = true)) → P (run (m + d)) := by
  intro d
  induction d with
  | zero => intro _; exact h
  | succ d ih =>
    intro hno
    have hd := ih (fun i h1 h2 => hno i h1 (by omega))
    rcases hf.next (m + d) with ⟨out, hs⟩ | ⟨_, hs⟩
    · have hne : σ (m + d) ≠ o := by
        intro he
        apply hno (m + d) (by omega) (by omega)
        refine ⟨he, ?_⟩
        rw [he] at hs
        exact FR.enabled_of_step hs
      have := hq (m + d) (by omega)
      exact hP _ _ _ _ (sf_reach hf _) hd hs hne this.1 this.2
    · show P (run (m + d + 1))
      rw [hs]; exact hd

/-- a non-spinner of the quiet phase is never scheduled while enabled, and stays a non-spinner -/
theorem nonsp_forever (C : SpinCert cfg α) (hf : StrongFairRun cfg σ run) {n1 : Nat} (hq : QuietFrom C run n1)
    {m : Nat} (hm : n1 ≤ m) {u : Tid} (h : C.NonSp (run m) u) :
    ∀ d, C.NonSp (run (m + d)) u ∧ ¬ (σ (m + d) = u ∧ enabled (run (m + d)) u = true) := by
  have hno : ∀ j, n1 ≤ j → C.NonSp (run j) u → ¬ (σ j = u ∧ enabled (run j) u = true) := by
    intro j hj hns ⟨hs, hen⟩
    obtain ⟨o, hst⟩ := sf_actual hf hs hen
    exact C.prog _ _ _ _ (sf_reach hf j) hns hst (hq j hj)
  intro d
  induction d with
  | zero => exact ⟨h, hno m hm h⟩
  | succ d ih =>
    have hns : C.NonSp (run (m + (d + 1))) u := by
      rcases hf.next (m + d) with ⟨out, hs⟩ | ⟨_, hs⟩
      · have hne : σ (m + d) ≠ u := by
          intro he
          apply ih.2
          refine ⟨he, ?_⟩
          rw [he] at hs
          exact FR.enabled_of_step hs
        have := hq (m + d) (by omega)
        exact C.pers _ _ _ _ _ (sf_reach hf _) ih.1 hs hne this.1 this.2
      · show C.NonSp (run (m + d + 1)) u
        rw [hs]; exact ih.1
    exact ⟨hns, hno _ (by omega) hns⟩

/-- hence, by strong fairness, it is enabled only finitely often -/
theorem nonsp_eventually_disabled (C : SpinCert cfg α) (hf : StrongFairRun cfg σ run) {n1 : Nat}
    (hq : QuietFrom C run n1) (u : Tid) :
    ∃ mu, ∀ k, mu ≤ k → (n1 ≤ k → C.NonSp (run k) u → enabled (run k) u = false) := by
  by_cases hex : ∃ m, n1 ≤ m ∧ C.NonSp (run m) u
  · obtain ⟨m, hm, hns⟩ := hex
    have hfor := nonsp_forever C hf hq hm hns
    by_cases hinf : ∀ j, m ≤ j → ∃ k, j ≤ k ∧ enabled (run k) u = true
    · obtain ⟨j, hj, hs, hen⟩ := hf.fair u m hinf
      have := (hfor (j - m)).2
      rw [show m + (j - m) = j by omega] at this
      exact absurd ⟨hs, hen⟩ this
    · have : ∃ j, m ≤ j ∧ ∀ k, j ≤ k → ¬ enabled (run k) u = true := by
        apply Classical.byContradiction
        intro hno
        apply hinf
        intro j hj
        apply Classical.byContradiction
        intro hno2
        exact hno ⟨j, hj, fun k hk hen => hno2 ⟨k, hk, hen⟩⟩
      obtain ⟨j, _, hj⟩ := this
      exact ⟨j, fun k hk _ _ => bool_false_of_not_true (hj k hk)⟩
  · exact ⟨0, fun k _ hk hns => absurd ⟨k, hk, hns⟩ hex⟩

/-- a spinner inside its critical section leaves it (weak fairness): the mutex becomes free -/
theorem crit_released (C : SpinCert cfg α) (hf : StrongFairRun cfg σ run) {n1 : Nat} (hq : QuietFrom C run n1)
    (o : Tid) (sg : Nat) :
    ∀ k m, n1 ≤ m → C.Crit (run m) o sg k → ∃ m', m ≤ m' ∧ C.Free (run m') sg := by
  intro k
  induction k with
  | zero =>
    intro m hm hc
    have hpers := persist_until C hf hq (fun s => C.Crit s o sg 0) o
      (fun s s' t out hr hP hs hne h1 h2 => C.crPers s s' t o sg 0 out hr hP hs hne h1 h2) hm hc
    by_cases hex : ∃ j, m ≤ j ∧ (σ j = o ∧ enabled (run j) o = true)
    · obtain ⟨j, hmj, ⟨hs, hen⟩, hleast⟩ := exists_least _ m hex
      have hcj : C.Crit (run j) o sg 0 := by
        have := hpers (j - m) (fun i h1 h2 => hleast i h1 (by omega))
        rw [show m + (j - m) = j by omega] at this
        exact this
      obtain ⟨out, hst⟩ := sf_actual hf hs hen
      have hqj := hq j (by omega)
      exact ⟨j + 1, by omega, (C.crStep _ _ _ _ _ _ (sf_reach hf j) hcj hst hqj.1 hqj.2).1 rfl⟩
    · exfalso
      have hall : ∀ j, m ≤ j → enabled (run j) o = true := by
        intro j hj
        have := hpers (j - m) (fun i h1 _ hi => hex ⟨i, h1, hi⟩)
        rw [show m + (j - m) = j by omega] at this
        exact C.crEn _ _ _ _ (sf_reach hf j) this
      obtain ⟨j, hj, hs⟩ := hf.toFairRun.fair o m hall
      exact hex ⟨j, hj, hs, hall j hj⟩
  | succ k ih =>
    intro m hm hc
    have hpers := persist_until C hf hq (fun s => C.Crit s o sg (k + 1)) o
      (fun s s' t out hr hP hs hne h1 h2 => C.crPers s s' t o sg (k + 1) out hr hP hs hne h1 h2) hm hc
    by_cases hex : ∃ j, m ≤ j ∧ (σ j = o ∧ enabled (run j) o = true)
    · obtain ⟨j, hmj, ⟨hs, hen⟩, hleast⟩ := exists_least _ m hex
      have hcj : C.Crit (run j) o sg (k + 1) := by
        have := hpers (j - m) (fun i h1 h2 => hleast i h1 (by omega))
        rw [show m + (j - m) = j by omega] at this
        exact this
      obtain ⟨out, hst⟩ := sf_actual hf hs hen
      have hqj := hq j (by omega)
      have hc' := (C.crStep _ _ _ _ _ _ (sf_reach hf j) hcj hst hqj.1 hqj.2).2 k rfl
      obtain ⟨m', hm', hfree⟩ := ih (j + 1) (by omega) hc'
      exact ⟨m', by omega, hfree⟩
    · exfalso
      have hall : ∀ j, m ≤ j → enabled (run j) o = true := by
        intro j hj
        have := hpers (j - m) (fun i h1 _ hi => hex ⟨i, h1, hi⟩)
        rw [show m + (j - m) = j by omega] at this
        exact C.crEn _ _ _ _ (sf_reach hf j) this
      obtain ⟨j, hj, hs⟩ := hf.toFairRun.fair o m hall
      exact hex ⟨j, hj, hs, hall j hj⟩

/-- the number of threads is constant in the quiet phase -/
theorem nthreads_const (C : SpinCert cfg α) (hf : StrongFairRun cfg σ run) {n1 : Nat} (hq : QuietFrom C run n1) :
    ∀ d, (run (n1 + d)).nthreads = (run n1).nthreads := by
  intro d
  induction d with
  | zero => rfl
  | succ d ih =>
    rcases hf.next (n1 + d) with ⟨out, hs⟩ | ⟨_, hs⟩
    · have := hq (n1 + d) (by omega)
      show (run (n1 + d + 1)).nthreads = _
      rw [C.nth _ _ _ _ (sf_reach hf _) hs this.1 this.2]; exact ih
    · show (run (n1 + d + 1)).nthreads = _
      rw [hs]; exact ih

end

end F2

open F2

variable {cfg : Config} {σ : Nat → Tid} {run : Nat → State} {α : Type}

/-- THE GENERIC REDUCTION FOR STRONG FAIRNESS: a certificate makes every strongly fair run reach a state in which no
    thread is enabled -/
theorem strong_fair_runs_terminate_of_cert (C : F2.SpinCert cfg α) (hf : StrongFairRun cfg σ run) :
    ∃ n, ∀ t, enabled (run n) t = false := by
  apply Classical.byContradiction
  intro hnot
  have hlive : ∀ n, ∃ t, enabled (run n) t = true := by
    intro n
    apply Classical.byContradiction
    intro hno
    apply hnot
    refine ⟨n, fun t => ?_⟩
    exact bool_false_of_not_true (fun he => hno ⟨t, he⟩)
  obtain ⟨n1, hq⟩ := quiet_exists C hf
  -- all non-spinners are eventually disabled for good
  obtain ⟨m2, h2⟩ := uniform_bound (run n1).nthreads
    (fun u k => n1 ≤ k → C.NonSp (run k) u → enabled (run k) u = false)
    (fun u _ => nonsp_eventually_disabled C hf hq u)
  have hn2 : n1 ≤ n1 + m2 := by omega
  obtain ⟨u, hu, hns, hcase⟩ := C.nss _ (sf_reach hf (n1 + m2)) (hlive (n1 + m2))
  rw [nthreads_const C hf hq m2] at hu
  rcases hcase with hen | ⟨sg, o, k, hlw, hcr⟩
  · have := h2 u hu (n1 + m2) (by omega) hn2 hns
    rw [hen] at this; cases this
  · obtain ⟨m', hm', hfree⟩ := crit_released C hf hq o sg k (n1 + m2) hn2 hcr
    have hfor := nonsp_forever C hf hq hn2 hns
    have hlw' : C.LockWait (run m') u sg := by
      have := persist_until C hf hq (fun s => C.LockWait s u sg) u
        (fun s s' t out hr hP hs hne h1 h2 => C.lwPers s s' t u sg out hr hP hs hne h1 h2) hn2 hlw
        (m' - (n1 + m2)) (fun i h1 _ hi => by
          have := (hfor (i - (n1 + m2))).2
          rw [show n1 + m2 + (i - (n1 + m2)) = i by omega] at this
          exact this hi)
      rw [show n1 + m2 + (m' - (n1 + m2)) = m' by omega] at this
      exact this
    have hen := C.lwEn _ _ _ (sf_reach hf m') hlw' hfree
    have hns' := (hfor (m' - (n1 + m2))).1
    rw [show n1 + m2 + (m' - (n1 + m2)) = m' by omega] at hns'
    have := h2 u hu m' (by omega) (by omega) hns'
    rw [hen] at this; cases this

/-- ... and the state reached is a complete success state -/
theorem join_eventually_strong_of_cert (C : F2.SpinCert cfg α) (hrep : cfg.repaired = true) (hwf : cfg.WellFormed)
    (hf : StrongFairRun cfg σ run) :
    ∃ n, (∀ t th, (run n).threads t = some th → th.finished = true) ∧
      (∀ c, c < (run n).nextCall →
        (run n).completed c = true ∧ (run n).execCount c = 1 ∧ (run n).freeCount c = 1) := by
  obtain ⟨n, hn⟩ := strong_fair_runs_terminate_of_cert C hf
  exact ⟨n, terminal_state_is_complete hrep hwf (F2.sf_reach hf n) hn⟩

end Nstd.Future
