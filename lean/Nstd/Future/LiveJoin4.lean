/-
  Join side of deadlock freedom, part 4: `uncompleted_call_has_holder` — while the pool has not been
  deleted, the token of an uncompleted call record is held by a thread, or queued in the ring (ticket in
  [head, tail)), or claimed by a popper that is about to read it.
-/
import Nstd.Future.LiveJoin3
set_option linter.unusedSimpArgs false
set_option linter.unusedVariables false
namespace Nstd.Future.LJ

/-! ### a ring fact: a claimed ticket is logged or held by its popper -/

def Claimed {α : Type} (s : RingSys α) : Prop :=
  ∀ x, x < s.ring.head → x ∈ s.ring.popLog.map Prod.fst ∨ ∃ t, s.pcs t = some (.popData x)

theorem claimed_setPc {α : Type} {s : RingSys α} {t : Nat} {p' : Option (RingPc α)} (h : Claimed s)
    (hold : ∀ x, s.pcs t ≠ some (.popData x)) : Claimed (s.setPc t p') := by
  intro x hx
  rcases h x hx with h1 | ⟨u, hu⟩
  · exact Or.inl h1
  · right
    refine ⟨u, ?_⟩
    have : u ≠ t := by intro e; subst e; exact hold x hu
    simp [RingSys.setPc, this, hu]

theorem claimed_step {α : Type} {s s' : RingSys α} {t : Nat} {a : RingAct α} (h : Claimed s)
    (hs : s.step t a = some s') : Claimed s' := by
  cases a with
  | callPush d =>
    simp only [RingSys.step] at hs
    split at hs
    · next hn => injection hs with hs; subst hs; exact claimed_setPc h (by simp [hn])
    · cases hs
  | callPop =>
    simp only [RingSys.step] at hs
    split at hs
    · next hn => injection hs with hs; subst hs; exact claimed_setPc h (by simp [hn])
    · cases hs
  | step =>
    simp only [RingSys.step] at hs
    split at hs
    · cases hs
    · next pc hpc =>
      -- the new program counter of `t`
      have key : ∀ (r' : Ring α) (p' : Option (RingPc α)),
          (∀ x, x < r'.head → (x ∈ r'.popLog.map Prod.fst ∨ (∃ u, u ≠ t ∧ s.pcs u = some (.popData x)) ∨ p' = some (.popData x))) →
          Claimed ({ s with ring := r' }.setPc t p') := by
        intro r' p' hk x hx
        rcases hk x hx with h1 | ⟨u, hu, h2⟩ | h3
        · exact Or.inl h1
        · exact Or.inr ⟨u, by simp [RingSys.setPc, hu, h2]⟩
        · exact Or.inr ⟨t, by simp [RingSys.setPc, h3]⟩
      have old : ∀ x, x < s.ring.head → x ∈ s.ring.popLog.map Prod.fst ∨
          (∃ u, u ≠ t ∧ s.pcs u = some (.popData x)) ∨ pc = .popData x := by
        intro x hx
        rcases h x hx with h1 | ⟨u, hu⟩
        · exact Or.inl h1
        · by_cases e : u = t
          · subst e; rw [hpc] at hu; injection hu with hu; exact Or.inr (Or.inr hu)
          · exact Or.inr (Or.inl ⟨u, e, hu⟩)
      rcases hrs : ringStep s.ring pc with ⟨r', res⟩
      rw [hrs] at hs
      have fin : ∀ p', (match res with | .cont pc' => some pc' | _ => none) = p' →
          (∀ x, x < r'.head → (x ∈ r'.popLog.map Prod.fst ∨ (∃ u, u ≠ t ∧ s.pcs u = some (.popData x)) ∨ p' = some (.popData x))) →
          Claimed s' := by
        intro p' hp' hk
        have := key r' p' hk
        cases res <;> simp at hp' hs <;> subst hp' <;> subst hs <;> exact this
      cases pc <;> simp only [ringStep] at hrs
      case popCas hh =>
        split at hrs
        · next he =>
          injection hrs with e1 e2; subst e1; subst e2
          refine fin _ rfl ?_
          intro x hx
          simp only at hx
          by_cases hxh : x = hh
          · exact Or.inr (Or.inr (by rw [hxh]))
          · rcases old x (by omega) with h1 | h1 | h1
            · exact Or.inl h1
            · exact Or.inr (Or.inl h1)
            · cases h1
        · injection hrs with e1 e2; subst e1; subst e2
          refine fin _ rfl ?_
          intro x hx
          rcases old x hx with h1 | h1 | h1
          · exact Or.inl h1
          · exact Or.inr (Or.inl h1)
          · cases h1
      case popData hh =>
        injection hrs with e1 e2; subst e1; subst e2
        refine fin _ rfl ?_
        intro x hx
        simp only [Ring.setSlot] at hx ⊢
        rcases old x hx with h1 | h1 | h1
        · exact Or.inl (by simp only [List.map_append, List.mem_append]; exact Or.inl h1)
        · exact Or.inr (Or.inl h1)
        · injection h1 with h1; subst h1
          exact Or.inl (by simp)
      all_goals
        first
          | (split at hrs <;>
              (injection hrs with e1 e2; subst e1; subst e2
               refine fin _ rfl ?_
               intro x hx
               rcases old x hx with h1 | h1 | h1
               · exact Or.inl h1
               · exact Or.inr (Or.inl h1)
               · cases h1))
          | (injection hrs with e1 e2; subst e1; subst e2
             refine fin _ rfl ?_
             intro x hx
             simp only [Ring.setSlot] at hx ⊢
             rcases old x hx with h1 | h1 | h1
             · exact Or.inl h1
             · exact Or.inr (Or.inl h1)
             · cases h1)

theorem claimed_of_reach {α : Type} {cap : Nat} {s : RingSys α} (h : RingReach cap s) : Claimed s := by
  induction h with
  | init => intro x hx; simp [RingSys.init, Ring.init] at hx
  | step t a _ hs ih => exact claimed_step ih hs

/-! ### token conservation, user form -/

section
variable {cfg : Config} {s : State}

/-- exactly one token per allocated record while the pool has not been deleted -/
theorem token_conservation (h : Reach cfg s) (hl : poolAlive s) {c : Nat} (hc : c < s.nextCall) :
    tsum s.nthreads (wt s c) + ringTok c s.pool + s.freeCount c = 1 :=
  (reach_cons h).cons hl c hc

/-- an uncompleted call has not been freed and nobody is at `pSig c` / `pDelete c` -/
theorem uncompleted_not_freed (h : Reach cfg s) {c : Nat} (hn : s.completed c = false) : s.freeCount c = 0 := by
  have := (reach_cons h).nc3 c hn; omega

/-- what a positive frame weight means -/
theorem fw_pos_cases {c : Nat} {rj : Job} {fr : Frame} (h : 1 ≤ fw c rj fr) :
    preArm c fr = true ∨ inProc c fr = true ∨ fr = .runStart (some c) ∨ fr = .runPush2 (some c) ∨
      ((fr = .wDeq ∨ fr = .wDispatch) ∧ rj = some c) ∨ (∃ pc, fr = .ring pc ∧ 1 ≤ pcW c pc) := by
  cases fr <;> simp [fw, preArm, inProc] at h ⊢ <;> first | exact h | (split at h <;> simp_all) | skip

theorem topW_pos_cases {c : Nat} {rb : Bool} {rj : Job} {fr : Frame} (h : 1 ≤ topW c rb rj fr) :
    1 ≤ fw c rj fr ∨ ((fr = .runChk1 (some c) ∨ fr = .runChk2 (some c)) ∧ rb = false) ∨
      ((fr = .wChk1 ∨ fr = .wChk2) ∧ rb = true ∧ rj = some c) := by
  cases fr <;> simp [topW, fw] at h ⊢ <;> first | exact h | (split at h <;> simp_all) | skip

theorem weight_pos_cases {c : Nat} {th : Thread} (h : 1 ≤ weight c th) :
    (∃ a l, th.stack = a :: l ∧ 1 ≤ topW c th.retB th.retJob a) ∨
    (∃ fr ∈ th.stack.tail, 1 ≤ fw c th.retJob fr) := by
  simp only [weight] at h
  cases hs : th.stack with
  | nil => rw [hs] at h; simp at h
  | cons a l =>
    rw [hs] at h
    simp only [wS_cons] at h
    by_cases ha : 1 ≤ topW c th.retB th.retJob a
    · exact Or.inl ⟨a, l, rfl, ha⟩
    · right
      have hb : 1 ≤ base c th.retJob l := by omega
      have : ∀ l : List Frame, 1 ≤ base c th.retJob l → ∃ fr ∈ l, 1 ≤ fw c th.retJob fr := by
        intro l
        induction l with
        | nil => intro h; simp at h
        | cons b l ih =>
          intro h
          simp only [base_cons] at h
          by_cases hb : 1 ≤ fw c th.retJob b
          · exact ⟨b, List.mem_cons_self .., hb⟩
          · obtain ⟨fr, hfr, h2⟩ := ih (by omega)
            exact ⟨fr, List.mem_cons_of_mem _ hfr, h2⟩
      exact this l hb

/-- (1) while the pool has not been deleted, the token of an uncompleted call is with a thread, or queued in
    the ring, or claimed by a popper that has not read it yet -/
theorem uncompleted_call_has_holder (h : Reach cfg s) (hl : poolAlive s) {c : Nat} (hc : c < s.nextCall)
    (hn : s.completed c = false) :
    (∃ t th, s.threads t = some th ∧ th.finished = false ∧ 1 ≤ weight c th) ∨
    (∃ p x, s.pool = some p ∧ p.ring.head ≤ x ∧ x < p.ring.tail ∧ p.ring.pushLog[x]? = some (some c)) ∨
    (∃ p x t th, s.pool = some p ∧ p.ring.pushLog[x]? = some (some c) ∧ s.threads t = some th ∧
      th.finished = false ∧ th.stack.head? = some (.ring (.popData x))) := by
  have h1 := token_conservation h hl hc
  have h2 := uncompleted_not_freed h hn
  have hfin : ∀ t th, s.threads t = some th → th.stack ≠ [] → th.finished = false := by
    intro t th hth hne
    cases hf : th.finished with
    | false => rfl
    | true => exact absurd (finished_stack_nil h hth hf) hne
  by_cases hw : 1 ≤ tsum s.nthreads (wt s c)
  · left
    obtain ⟨t, _, h3⟩ := tsum_pos hw
    simp only [wt] at h3
    cases hth : s.threads t with
    | none => rw [hth] at h3; simp at h3
    | some th =>
      rw [hth] at h3
      refine ⟨t, th, hth, hfin t th hth ?_, h3⟩
      intro e; simp [weight, e] at h3
  · right
    have hr1 : 1 ≤ ringTok c s.pool := by omega
    cases hp : s.pool with
    | none => rw [hp] at hr1; simp [ringTok_none] at hr1
    | some p =>
      rw [hp, ringTok_mk] at hr1
      obtain ⟨x, hx, h3⟩ := tsum_pos hr1
      have h4 : p.ring.pushLog[x]? = some (some c) ∧ x ∉ p.ring.popLog.map Prod.fst := by
        by_cases hq : p.ring.pushLog[x]? = some (some c) ∧ x ∉ p.ring.popLog.map Prod.fst
        · exact hq
        · have h3' : 1 ≤ (if p.ring.pushLog[x]? = some (some c) ∧ x ∉ p.ring.popLog.map Prod.fst then 1 else 0) := h3
          rw [if_neg hq] at h3'; omega
      have hlen := full_pushLog_len h hp
      by_cases hhx : p.ring.head ≤ x
      · exact Or.inl ⟨p, x, rfl, hhx, by omega, h4.1⟩
      · right
        have hcl := claimed_of_reach (reach_ring h) x (by rw [full_ring hp]; omega)
        rw [full_ring hp] at hcl
        rcases hcl with h5 | ⟨t, ht⟩
        · exact absurd h5 h4.2
        · cases hth : s.threads t with
          | none =>
            have : (proj s).pcs t = none := by simp [proj, hp, hth]
            rw [this] at ht; cases ht
          | some th =>
            rw [full_pcs hp hth] at ht
            have htop : th.stack.head? = some (.ring (.popData x)) := by
              simp only [ringPcOf] at ht
              split at ht
              · next pc l hs => injection ht with ht; subst ht; rw [hs]; rfl
              · cases ht
            refine ⟨p, x, t, th, rfl, h4.1, hth, hfin t th hth ?_, htop⟩
            intro e; rw [e] at htop; cases htop

end

end Nstd.Future.LJ
