/-
  Progress lemmas, part 7: with the hand-shake theorem `destroy_no_signal_user` of `Handshake.lean` (well-formed
  configuration, repaired order: when `~Future` runs `destroyF f` no other thread is at a Signal frame of `f + 2`) the
  side condition of `sigClean_recreated` holds, so the mutual-exclusion / no-lost-wake-up invariants `SigClean` hold for
  EVERY signal (also destroyed and re-created future signals) in EVERY reachable state.
  Kept apart from `Progress.lean` because it depends on `Handshake*.lean`.
-/
import Nstd.Future.Progress
import Nstd.Future.Handshake
namespace Nstd.Future

variable {cfg : Config} {s : State}

theorem sigClean_always (hwf : cfg.WellFormed) (hrep : cfg.repaired = true) (hr : Reach cfg s) (σ : Nat) :
    SigClean cfg s σ := by
  by_cases hσ : σ < 2
  · by_cases hl : poolAlive s
    · exact sigClean_of_neverDestroyed hr (pool_signal_neverDestroyed_of_alive hr hσ hl)
    · refine ⟨?_, ?_, ?_⟩
      · intro u fr hu hc
        have := (dead_top hr hl hu).2; subst this; simp [critF] at hc
      · intro u hu
        have := (dead_top hr hl hu).2; cases this
      · intro hne _
        exfalso
        cases hw : (s.sigs σ).waiters with
        | nil => exact hne hw
        | cons a l =>
          have := (dead_top hr hl (waiter_at_cwake hr (t := a) (by rw [hw]; exact List.mem_cons_self ..))).2
          cases this
  · induction hr with
    | init => exact sigClean_of_neverDestroyed Reach.init ⟨rfl, rfl⟩
    | @step s0 s1 o t hr hs ih =>
      obtain ⟨th, fr, rest, hth, hst, hnf, hblk, hs'⟩ := step_inv2 hs
      have htop : topFrame s0 t = some fr := by rw [topFrame_of hth, hst]; rfl
      by_cases hd : ∃ f, fr = .destroyF f ∧ f + 2 = σ
      · obtain ⟨f, rfl, rfl⟩ := hd
        refine sigClean_recreated hr htop hs ?_
        intro u x hu hx
        have := destroy_no_signal_user hwf hrep hr htop hu hx
        cases x <;> simp [sigFrameOf] at this <;> simp [critFrame, critF] <;> first | exact this | (intro _; exact this)
      · refine sigClean_step hr ih hs ?_
        intro fr' hfr'
        rw [htop] at hfr'; injection hfr' with hfr'; subst hfr'
        cases fr <;> simp [destroys]
        case destroyF f => intro e; exact hd ⟨f, rfl, e⟩
        case dFin => omega

/-- mutual exclusion of every Signal mutex, every reachable state (well-formed configuration, repaired order) -/
theorem sig_mutex_exclusive_always {σ : Nat} {t u : Tid} {a b : Frame} (hwf : cfg.WellFormed) (hrep : cfg.repaired = true)
    (hr : Reach cfg s) (htu : t ≠ u) (ht : topFrame s t = some a) (hu : topFrame s u = some b)
    (ha : critFrame cfg σ a = true) (hb : critFrame cfg σ b = true) : False :=
  (sigClean_always hwf hrep hr σ).mutex_exclusive htu ht hu ha hb

/-- no sleeper misses a set signal: every signal, every reachable state (well-formed configuration, repaired order) -/
theorem waiter_of_set_signal_has_pending_broadcast_always {σ : Nat} {t : Tid} (hwf : cfg.WellFormed)
    (hrep : cfg.repaired = true) (hr : Reach cfg s) (ht : t ∈ (s.sigs σ).waiters) (hs : (s.sigs σ).signaled = true) :
    ∃ u gen, topFrame s u = some (.sSetBcast σ gen) := by
  obtain ⟨u, ⟨h1, _⟩ | ⟨g, h2⟩⟩ := (sigClean_always hwf hrep hr σ).pending_set ht hs
  · rw [hrep] at h1; cases h1
  · exact ⟨u, g, h2⟩

theorem waiter_of_set_signal_has_enabled_setter_always {σ : Nat} {t : Tid} (hwf : cfg.WellFormed)
    (hrep : cfg.repaired = true) (hr : Reach cfg s) (ht : t ∈ (s.sigs σ).waiters) (hs : (s.sigs σ).signaled = true) :
    ∃ u, u ≠ t ∧ enabled s u = true :=
  (sigClean_always hwf hrep hr σ).enabled_setter hr ht hs

end Nstd.Future
