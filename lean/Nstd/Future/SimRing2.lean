/-
  Simulation of the ring system by the full Future/ThreadPool model, part 2:
  effect of one micro-step on the projection `proj`.
-/
import Nstd.Future.SimRing1
namespace Nstd.Future

/-- ring program counters of all threads -/
def pcsOf (s : State) : Nat → Option (RingPc Job) := fun t =>
  match s.threads t with
  | some th => ringPcOf th
  | none => none

theorem proj_some {s : State} {p : Pool} (h : s.pool = some p) :
    proj s = { ring := p.ring, pcs := pcsOf s } := by
  simp only [proj, h]; rfl

theorem proj_none {s : State} (h : s.pool = none) : proj s = RingSys.init (capOf s.cfg) := by
  simp only [proj, h]

theorem pcsOf_setThread (s : State) (t : Tid) (th' : Thread) :
    pcsOf (setThread s t th') = fun u => if u = t then ringPcOf th' else pcsOf s u := by
  funext u
  by_cases hu : u = t
  · simp only [pcsOf, setThread, upd, hu, if_true]
  · simp only [pcsOf, setThread, upd, hu, if_false]

theorem pcsOf_congr {s s' : State} (h : s'.threads = s.threads) : pcsOf s' = pcsOf s := by
  funext u; simp only [pcsOf, h]

/-- plain steps do not change the projection -/
theorem proj_plain {s s' : State} {t : Tid} {th : Thread} (h1 : Shape1 s s' t) (h2 : Shape2 s s' t)
    (hfresh : ∀ u, s.nthreads ≤ u → s.threads u = none) (hth : s.threads t = some th)
    (hpc : ringPcOf th = none) : proj s' = proj s := by
  have hpool := h2.pool
  have hpcs : pcsOf s' = pcsOf s := by
    funext u
    by_cases hu : u = t
    · subst hu; obtain ⟨th', h3, h4⟩ := h2.self; simp only [pcsOf, h3, hth, h4, hpc]
    · rcases h1.others u hu with h | ⟨rfl, _, hf⟩
      · simp only [pcsOf, h]
      · simp only [pcsOf, hfresh _ (Nat.le_refl _)]; exact hf.ringPc
  cases hp : s.pool with
  | none =>
    cases hp' : s'.pool with
    | none => rw [proj_none hp, proj_none hp', h1.cfg]
    | some p' => rw [hp, hp'] at hpool; simp at hpool
  | some p =>
    cases hp' : s'.pool with
    | none => rw [hp, hp'] at hpool; simp at hpool
    | some p' =>
      rw [hp, hp'] at hpool
      simp only [Option.map_some, Option.some.injEq] at hpool
      rw [proj_some hp, proj_some hp', hpool, hpcs]

theorem setPc_mk (r : Ring Job) (pcs : Nat → Option (RingPc Job)) (t : Nat) (v : Option (RingPc Job)) :
    RingSys.setPc { ring := r, pcs := pcs } t v = { ring := r, pcs := fun u => if u = t then v else pcs u } := rfl

/-- a ring micro-step of the full model is the same micro-step of the ring system -/
theorem sim_ring {s : State} {t : Tid} {th : Thread} {pc : RingPc Job} {rest : List Frame} {p : Pool}
    (hp : s.pool = some p) (hth : s.threads t = some th) (hst : th.stack = .ring pc :: rest)
    (hrest : NoSpec rest) :
    (proj s).step t .step = some (proj (stepFrame s t th (.ring pc)).1) := by
  have hrt := hrest.ringTop
  have hpc : pcsOf s t = some pc := by simp only [pcsOf, hth, ringPcOf_eq, hst, ringTop]
  rw [proj_some hp]
  simp only [RingSys.step, hpc, stepFrame, hp]
  rcases hrs : ringStep p.ring pc with ⟨r', res⟩
  cases res with
  | cont pc' =>
    simp only []
    rw [proj_some (s := setThread _ _ _) (p := { p with ring := r' }) rfl, setPc_mk, pcsOf_setThread]
    simp only [ringPcOf_eq, Thread.cont, hst, List.drop_one, List.tail_cons, List.cons_append, List.nil_append, ringTop]
    rfl
  | pushed ok =>
    simp only []
    rw [proj_some (s := setThread _ _ _) (p := { p with ring := r' }) rfl, setPc_mk, pcsOf_setThread]
    simp only [ringPcOf_eq, Thread.cont, hst, List.drop_one, List.tail_cons, List.nil_append, hrt]
    rfl
  | popped o =>
    rcases o with _ | _ | j
    all_goals
      simp only []
      first
      | rw [proj_some (s := setThread _ _ _) (p := { p with ring := r' }) rfl, setPc_mk, pcsOf_setThread]
      | rw [proj_some (s := withFault (setThread _ _ _) _) (p := { p with ring := r' }) rfl, setPc_mk,
          pcsOf_congr (s' := withFault (setThread _ _ _) _) (s := setThread _ _ _) rfl, pcsOf_setThread]
      simp only [ringPcOf_eq, Thread.cont, hst, List.drop_one, List.tail_cons, List.nil_append, hrt]
      rfl

theorem proj_setThread_poolNone {s : State} (t : Tid) (th' : Thread) (hp : s.pool = none) :
    proj (setThread s t th') = proj s := by
  rw [proj_none hp, proj_none (s := setThread s t th') hp]; rfl

theorem proj_setThread_same {s : State} {t : Tid} {th th' : Thread} (hth : s.threads t = some th)
    (h : ringPcOf th = none) (h' : ringPcOf th' = none) : proj (setThread s t th') = proj s := by
  cases hp : s.pool with
  | none => exact proj_setThread_poolNone t th' hp
  | some p =>
    rw [proj_some hp, proj_some (s := setThread s t th') hp, pcsOf_setThread]
    congr 1
    funext u
    by_cases hu : u = t
    · simp only [hu, if_true, h', pcsOf, hth, h]
    · simp only [hu, if_false]

theorem proj_callPush {s : State} {t : Tid} {th th' : Thread} {p : Pool} {j : Job} {l : List Frame}
    (hp : s.pool = some p) (hth : s.threads t = some th) (h : ringPcOf th = none)
    (h' : th'.stack = .ring (.pushRead j) :: l) :
    (proj s).step t (.callPush j) = some (proj (setThread s t th')) := by
  have hpc : pcsOf s t = none := by simp only [pcsOf, hth, h]
  rw [proj_some hp, proj_some (s := setThread s t th') hp, pcsOf_setThread]
  simp only [RingSys.step, hpc, setPc_mk, ringPcOf_eq, h', ringTop]

theorem proj_callPop {s : State} {t : Tid} {th th' : Thread} {p : Pool} {l : List Frame}
    (hp : s.pool = some p) (hth : s.threads t = some th) (h : ringPcOf th = none)
    (h' : th'.stack = .ring .popRead :: l) :
    (proj s).step t .callPop = some (proj (setThread s t th')) := by
  have hpc : pcsOf s t = none := by simp only [pcsOf, hth, h]
  rw [proj_some hp, proj_some (s := setThread s t th') hp, pcsOf_setThread]
  simp only [RingSys.step, hpc, setPc_mk, ringPcOf_eq, h', ringTop]

/-- frames whose step executes a ring micro-step or enters `push` / `pop` -/
def ringy : Frame → Bool
  | .ring _ | .runStart _ | .runPush2 _ | .runRetChk | .wPop1 | .wPop2 | .dPush _ | .dPush2 _ => true
  | _ => false

theorem sim_ringy {s : State} {t : Tid} {th : Thread} {fr : Frame} {rest : List Frame}
    (hth : s.threads t = some th) (hst : th.stack = fr :: rest) (hrest : NoSpec rest)
    (hr : ringy fr = true) :
    (∃ a, (proj s).step t a = some (proj (stepFrame s t th fr).1)) ∨
      proj (stepFrame s t th fr).1 = proj s := by
  have hrt := hrest.ringTop
  cases hp : s.pool with
  | none =>
    right
    cases fr <;> simp only [ringy, Bool.false_eq_true] at hr <;> simp only [stepFrame, hp]
    all_goals first | exact proj_setThread_poolNone _ _ hp | rfl
  | some p =>
    cases fr <;> simp only [ringy, Bool.false_eq_true] at hr
    case ring pc => exact Or.inl ⟨_, sim_ring hp hth hst hrest⟩
    case runStart j =>
      have h0 : ringPcOf th = none := by simp only [ringPcOf_eq, hst, ringTop]
      exact Or.inl ⟨_, proj_callPush hp hth h0 (by simp only [Thread.cont, List.cons_append]; rfl)⟩
    case runPush2 j =>
      have h0 : ringPcOf th = none := by simp only [ringPcOf_eq, hst, ringTop]
      exact Or.inl ⟨_, proj_callPush hp hth h0 (by simp only [Thread.cont, List.cons_append]; rfl)⟩
    case dPush2 j =>
      have h0 : ringPcOf th = none := by simp only [ringPcOf_eq, hst, ringTop]
      exact Or.inl ⟨_, proj_callPush hp hth h0 (by simp only [Thread.cont, List.cons_append]; rfl)⟩
    case wPop1 =>
      have h0 : ringPcOf th = none := by simp only [ringPcOf_eq, hst, ringTop]
      exact Or.inl ⟨_, proj_callPop hp hth h0 (by simp only [Thread.cont, List.cons_append]; rfl)⟩
    case wPop2 =>
      have h0 : ringPcOf th = none := by simp only [ringPcOf_eq, hst, ringTop]
      exact Or.inl ⟨_, proj_callPop hp hth h0 (by simp only [Thread.cont, List.cons_append]; rfl)⟩
    case runRetChk =>
      have h0 : ringPcOf th = none := by simp only [ringPcOf_eq, hst, ringTop]
      simp only [stepFrame, hp]
      repeat' split
      all_goals first
        | exact Or.inl ⟨_, proj_callPush hp hth h0 (by simp only [Thread.cont, List.cons_append]; rfl)⟩
        | exact Or.inr (proj_setThread_same hth h0 (by simp only [ringPcOf_eq, Thread.cont, List.cons_append]; rfl))
    case dPush i =>
      have h0 : ringPcOf th = none := by simp only [ringPcOf_eq, hst, ringTop]
      simp only [stepFrame, hp]
      repeat' split
      all_goals first
        | exact Or.inl ⟨_, proj_callPush hp hth h0 (by simp only [Thread.cont, List.cons_append]; rfl)⟩
        | exact Or.inr (proj_setThread_same hth h0 (by simp only [ringPcOf_eq, Thread.cont, List.cons_append]; rfl))

end Nstd.Future
