import Nstd.Future.LiveSpawnK1
import Nstd.Future.LiveSpawnK2
import Nstd.Future.LiveSpawnK3
import Nstd.Future.LiveSpawnK4
import Nstd.Future.LiveSpawn2
set_option linter.unusedSimpArgs false
set_option linter.unusedVariables false
namespace Nstd.Future

/-- `SPK.spkRunC` = the `run*` frames of `SP.spRun` (which also contains the main thread's frames) -/
theorem SPK.spkRunC_spRun {f : Frame} (h : SPK.spkRunC f = true) : SP.spRun f = true := by
  cases f <;> first | rfl | (simp [SPK.spkRunC] at h)

theorem SPK.spRun_cases {f : Frame} (h : SP.spRun f = true) : SPK.spkRunC f = true ∨ bottomFr f = true := by
  cases f <;> first | (left; rfl) | (right; rfl) | (simp [SP.spRun] at h)

theorem pool_maxT_ge_three {cfg : Config} {s : State} {p : Pool} (hr : Reach cfg s) (hp : s.pool = some p) :
    3 ≤ p.maxT := SPK.spk_maxT_reach hr p hp

theorem client_in_run_not_done {cfg : Config} {s : State} {t : Tid} {th : Thread} (hrep : cfg.repaired = true)
    (hr : Reach cfg s) (hth : s.threads t = some th) (hfin : th.finished = false) (hw : th.isWorker = false)
    (ht0 : t ≠ 0) : ¬ LS.lsDone s :=
  SPK.spk_client_not_done hr hth hfin hw ht0

theorem run_thread_is_client {cfg : Config} {s : State} {t : Tid} {th : Thread} (hrep : cfg.repaired = true)
    (hr : Reach cfg s) (hth : s.threads t = some th) (hrun : ∃ f ∈ th.stack, SPK.spkRunC f = true) :
    th.isWorker = false ∧ t ≠ 0 ∧ th.finished = false :=
  SPK.spk_run_is_client hr hth hrun

/-- `retire_in_flight_le_one` (LiveSpawnP.lean) without the hypothesis `s.pool = some p` -/
theorem retire_in_flight_le_one_any {cfg : Config} {s : State} {t : Tid} {th : Thread} (hrep : cfg.repaired = true)
    (hr : Reach cfg s) (hth : s.threads t = some th) (hfin : th.finished = false) (hw : th.isWorker = false)
    (ht0 : t ≠ 0) : tsum s.nthreads (SP.spOAt s) ≤ 1 :=
  SPK.spk_O_le_one hrep hr hth hfin hw ht0

end Nstd.Future
