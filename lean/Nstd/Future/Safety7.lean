/-
  Safety of the Future/ThreadPool model, part 7: a thread inside pool code implies that the pool exists
  (the "no pool" fault).  Generic per-frame facts.
-/
import Nstd.Future.Safety6
set_option linter.unusedSimpArgs false
set_option linter.unusedVariables false
namespace Nstd.Future.Safe

/-- frames of `~ThreadPool` (main thread) -/
def dFr : Frame → Bool
  | .dPush _ | .dChk1 _ | .dPush2 _ | .dChk2 _ | .dSet _ | .dJoin _ | .dFin => true
  | _ => false
/-- FastSignal / queue operations (called from `run`, `proc`, `~ThreadPool`) -/
def subP : Frame → Bool
  | .fSet _ | .fRst _ | .fRstLoad _ | .fWait _ | .ring _ => true
  | _ => false
/-- frames whose step reads the pool object -/
def needsPool : Frame → Bool
  | .fSet _ | .fRst _ | .fRstLoad _ | .fWait _ | .ring _ => true
  | .runAdd | .runRdProc _ | .runRdTc _ | .runClk1 | .runClk2 _ | .runClk3 | .runSpLock | .cleanAt _ | .cleanJoin _ _
  | .runSpChk | .runSpUnlock _ | .runSpStart _ | .runRetLock | .runRetChk | .runRetAfter | .runRetUnlock => true
  | .wAdd | .wTerm | .dPush _ | .dJoin _ => true
  | _ => false
def isSwap : Frame → Bool
  | .cSwapTp _ => true
  | _ => false

def HasD (l : List Frame) : Prop := ∃ f ∈ l, dFr f = true
def HasSwap (l : List Frame) : Prop := ∃ f ∈ l, isSwap f = true
theorem hasD_nil : HasD [] ↔ False := by simp [HasD]
theorem hasD_cons {a : Frame} {l : List Frame} : HasD (a :: l) ↔ dFr a = true ∨ HasD l := by simp [HasD]
theorem hasSwap_nil : HasSwap [] ↔ False := by simp [HasSwap]
theorem hasSwap_cons {a : Frame} {l : List Frame} : HasSwap (a :: l) ↔ isSwap a = true ∨ HasSwap l := by
  simp [HasSwap]
/-- queue / FastSignal frames are below a `~ThreadPool` frame -/
def HasSub (l : List Frame) : Prop := ∃ f ∈ l, subP f = true
theorem hasSub_nil : HasSub [] ↔ False := by simp [HasSub]
theorem hasSub_cons {a : Frame} {l : List Frame} : HasSub (a :: l) ↔ subP a = true ∨ HasSub l := by
  simp [HasSub]
def SubD (l : List Frame) : Prop := HasSub l → HasD l
theorem subD_nil : SubD [] := by simp [SubD, hasSub_nil]
theorem subD_cons {a : Frame} {l : List Frame} :
    SubD (a :: l) ↔ ((subP a = true ∨ HasSub l) → dFr a = true ∨ HasD l) := by
  simp [SubD, hasD_cons, hasSub_cons]

structure ShapeP (s s' : State) (t : Tid) (th : Thread) (fr : Frame) (rest : List Frame) : Prop where
  keep : fr ≠ .dFin → s.pool ≠ none → s'.pool ≠ none
  tp : s.tp = false → s'.tp = true → isSwap fr = true ∨ s'.pool ≠ none
  self : ∀ th', s'.threads t = some th' →
    (HasSwap th'.stack → HasSwap (fr :: rest) ∨ s'.pool ≠ none) ∧
    (HasD th'.stack → (HasD (fr :: rest) ∧ fr ≠ .dFin) ∨ s'.pool ≠ none) ∧
    (AllNC (fr :: rest) → NoW (fr :: rest) → SubD (fr :: rest) → SubD th'.stack)
  flt : (needsPool fr = true → s.pool ≠ none) → (∀ c', reads fr = some c' → s.calls c' ≠ none) →
    (∀ x, fr ≠ .ring (.popRel x none)) → s'.fault = s.fault

theorem ringStep_raw' {r r' : Ring Job} {pc : RingPc Job} (h : ringStep r pc = (r', .popped (some none))) :
    ∃ x, pc = .popRel x none := ringStep_raw (by rw [h])

set_option maxHeartbeats 16000000 in
theorem shapeP (s : State) (t : Tid) (th : Thread) (fr : Frame) (rest : List Frame)
    (hth : s.threads t = some th) (hst : th.stack = fr :: rest) (hbot : bottomFr fr = true → rest = []) :
    ShapeP s (stepFrame s t th fr).1 t th fr rest := by
  cases fr <;> simp only [stepFrame] <;> repeat' split
  all_goals
    try (have hr := hbot rfl; subst hr)
    constructor
    · simp [setThread, setSig, setPool, setFut, withFault, destroySig]
      try (intros; simp_all; done)
    · simp [setThread, setSig, setPool, setFut, withFault, destroySig, isSwap]
      try (intros; simp_all; done)
    · intro th' h
      simp [setThread, setSig, setPool, setFut, withFault, destroySig, upd_same, hth] at h
      subst h
      refine ⟨?_, ?_, ?_⟩
      · simp [Thread.cont, hst, hasSwap_cons, hasSwap_nil, isSwap, setThread, setSig, setPool, setFut, withFault, destroySig]
        try (intros; simp_all; done)
      · simp [Thread.cont, hst, hasD_cons, hasD_nil, dFr, setThread, setSig, setPool, setFut, withFault, destroySig]
        try (intros; simp_all; done)
      · simp [Thread.cont, hst, allNC_cons, noW_cons, ncFr, isW, subD_cons, subD_nil, hasD_cons, hasD_nil, hasSub_nil, dFr, subP]
        try (intros; first | assumption | (unfold SubD; intro _; assumption) | (unfold SubD; assumption) | (simp_all; done))
    · intro hnp hrec hraw
      simp [needsPool, reads] at hnp hrec
      simp [setThread, setSig, setPool, setFut, withFault, destroySig]
      try (simp_all; done)
      try (exfalso; obtain ⟨x, hx⟩ := ringStep_raw (by assumption); exact hraw x (by rw [hx]))

end Nstd.Future.Safe
