/-
  Safety of the Future/ThreadPool model, part 8: clients and the main thread are inside pool code only while
  the pool exists (`PInv`).
-/
import Nstd.Future.Safety7
set_option linter.unusedSimpArgs false
set_option linter.unusedVariables false
namespace Nstd.Future.Safe

structure PInv (s : State) : Prop where
  p1 : poolAlive s → s.tp = true → s.pool ≠ none
  p2 : poolAlive s → ∀ t th, s.threads t = some th → HasSwap th.stack → s.pool ≠ none
  pm : ∀ t th, s.threads t = some th → HasD th.stack → s.pool ≠ none
  pf : ∀ t th, s.threads t = some th → t ∉ s.clientTids → th.isWorker = false → SubD th.stack
  k3 : ∀ t th, s.threads t = some th → t = 0 ∨ t ∈ s.clientTids ∨ th.isWorker = true

theorem pInv_init (cfg : Config) : PInv (State.init cfg) := by
  have hthr : ∀ t th, (State.init cfg).threads t = some th → t = 0 ∧ th = { stack := [Frame.mInit] } := by
    intro t th h
    simp only [State.init] at h
    split at h
    · next h0 => injection h with h; exact ⟨h0, h.symm⟩
    · cases h
  constructor
  · intro _ h; simp [State.init] at h
  · intro _ t th h hs; obtain ⟨_, rfl⟩ := hthr t th h; simp [hasSwap_cons, hasSwap_nil, isSwap] at hs
  · intro t th h hs; obtain ⟨_, rfl⟩ := hthr t th h; simp [hasD_cons, hasD_nil, dFr] at hs
  · intro t th h _ _; obtain ⟨_, rfl⟩ := hthr t th h; simp [subD_cons, hasSub_nil, subP]
  · intro t th h; exact Or.inl (hthr t th h).1

theorem dFr_bottom {f : Frame} (h : dFr f = true) : bottomFr f = true := by
  cases f <;> simp [dFr, bottomFr] at h ⊢

theorem hasD_not_noBot {l : List Frame} (h : HasD l) (hn : NoBot l) : False := by
  obtain ⟨f, hf, hd⟩ := h
  have := hn f hf
  rw [dFr_bottom hd] at this; cases this

theorem pInv_step {cfg : Config} {s s' : State} {t : Tid} {o : List String}
    (hr : Reach cfg s) (hI : PInv s) (h : step s t = some (s', o)) : PInv s' := by
  obtain ⟨th, fr, rest, hth, hst, hfin, rfl⟩ := step_inv h
  have hSim := reach_inv hr
  have hJ := reach_join hr
  have hSafe := reach_safe hr
  have hrest : NoSpec rest := by
    have := hSim.ringTopOnly t th hth
    rw [hst] at this; exact this
  have hok : StackOk (fr :: rest) := by rw [← hst]; exact hSafe.stk t th hth
  have hbo : BotOnly (fr :: rest) := by rw [← hst]; exact hJ.botOnly t th hth
  have hbot : bottomFr fr = true → rest = [] := fun hb => botOnly_cons_bot hb hbo
  have hS := shapeS s t th fr rest hth hst hrest hok
  have h1 := shape1 s t th fr rest hth hst hfin hrest
  have h4 := shape4 s t th fr rest hth hst
  have hP := shapeP s t th fr rest hth hst hbot
  obtain ⟨th', hth', _⟩ := h1.self
  obtain ⟨_, hwk', _, _⟩ := hS.self th' hth'
  obtain ⟨hsw, hd, hsub⟩ := hP.self th' hth'
  have hlive : poolAlive (stepFrame s t th fr).1 → poolAlive s := h1.live
  have hnotFin : poolAlive (stepFrame s t th fr).1 → fr ≠ .dFin := by
    intro hl e; subst e
    have := dFin_kills (s := s) (t := t) (th := th)
    rw [poolAlive, this] at hl; cases hl
  have hsubCT : ∀ w, w ∈ s.clientTids → w ∈ (stepFrame s t th fr).1.clientTids := by
    intro w hw
    rcases h4.ct with h2 | ⟨_, h2, _⟩
    · rw [h2]; exact hw
    · rw [h2]; exact List.mem_append_left _ hw
  -- the other threads
  have hoth : ∀ u thu, u ≠ t → (stepFrame s t th fr).1.threads u = some thu →
      s.threads u = some thu ∨
      ((thu.stack = [.tStart, .wPop1] ∨ thu.stack = [.tStart, .cNext]) ∧
        (thu.isWorker = true ∨ u ∈ (stepFrame s t th fr).1.clientTids)) := by
    intro u thu hu hthu
    rcases hS.others u hu with h2 | ⟨h2, h3 | ⟨sc, h3⟩⟩
    · left; rw [← h2]; exact hthu
    · right; rw [hthu] at h3; injection h3 with h3; subst h3; exact ⟨Or.inl rfl, Or.inl rfl⟩
    · right
      refine ⟨Or.inr (by rw [hthu] at h3; injection h3 with h3; subst h3; rfl), Or.inr ?_⟩
      rcases h4.others u hu with h5 | ⟨_, thw, h5, _, h6 | ⟨_, h6⟩⟩
      · have := hSim.fresh u (by rw [h2]; exact Nat.le_refl _)
        rw [h5, this] at h3; cases h3
      · rw [h3] at h5; injection h5 with h5; subst h5; simp at h6
      · rw [h6, h2]; exact List.mem_append_right _ (List.mem_singleton_self _)
  -- only the main thread has `~ThreadPool` frames
  have hmainD : ∀ u thu, s.threads u = some thu → HasD thu.stack → u = 0 := by
    intro u thu hthu hD
    cases Nat.decEq u 0 with
    | isTrue h => exact h
    | isFalse h => exact (hasD_not_noBot hD (hJ.mainOnly u thu hthu h)).elim
  constructor
  · -- p1
    intro hl' htp'
    have hl := hlive hl'
    cases htp : s.tp with
    | true => exact hP.keep (hnotFin hl') (hI.p1 hl htp)
    | false =>
      rcases hP.tp htp htp' with h2 | h2
      · refine hP.keep (hnotFin hl') (hI.p2 hl t th hth ?_)
        rw [hst]; exact hasSwap_cons.mpr (Or.inl h2)
      · exact h2
  · -- p2
    intro hl' u thu hthu hs
    have hl := hlive hl'
    by_cases hu : u = t
    · subst hu; rw [hth'] at hthu; injection hthu with hthu; subst hthu
      rcases hsw hs with h2 | h2
      · exact hP.keep (hnotFin hl') (hI.p2 hl u th hth (by rw [hst]; exact h2))
      · exact h2
    · rcases hoth u thu hu hthu with h2 | ⟨h2 | h2, _⟩
      · exact hP.keep (hnotFin hl') (hI.p2 hl u thu h2 hs)
      · rw [h2] at hs; simp [hasSwap_cons, hasSwap_nil, isSwap] at hs
      · rw [h2] at hs; simp [hasSwap_cons, hasSwap_nil, isSwap] at hs
  · -- pm
    intro u thu hthu hD
    by_cases hu : u = t
    · subst hu; rw [hth'] at hthu; injection hthu with hthu; subst hthu
      rcases hd hD with ⟨h2, h3⟩ | h2
      · exact hP.keep h3 (hI.pm u th hth (by rw [hst]; exact h2))
      · exact h2
    · rcases hoth u thu hu hthu with h2 | ⟨h2 | h2, _⟩
      · have hu0 := hmainD u thu h2 hD
        refine hP.keep ?_ (hI.pm u thu h2 hD)
        intro e; subst e
        -- `dFin` is executed by the main thread only
        have ht0 : t = 0 := by
          cases Nat.decEq t 0 with
          | isTrue h => exact h
          | isFalse h =>
            have := hJ.mainOnly t th hth h
            rw [hst, noBot_cons] at this; cases this.1
        exact hu (hu0.trans ht0.symm)
      · rw [h2] at hD; simp [hasD_cons, hasD_nil, dFr] at hD
      · rw [h2] at hD; simp [hasD_cons, hasD_nil, dFr] at hD
  · -- pf
    intro u thu hthu hnc hw
    by_cases hu : u = t
    · subst hu; rw [hth'] at hthu; injection hthu with hthu; subst hthu
      have hnc0 : u ∉ s.clientTids := fun hc => hnc (hsubCT u hc)
      rw [hwk'] at hw
      have hAll : AllNC (fr :: rest) := by
        rcases hJ.kinds u th hth with h2 | h2
        · exact absurd h2 hnc0
        · rw [← hst]; exact h2
      have hNoW : NoW (fr :: rest) := by rw [← hst]; exact hSafe.wk u th hth hw
      exact hsub hAll hNoW (by rw [← hst]; exact hI.pf u th hth hnc0 hw)
    · rcases hoth u thu hu hthu with h2 | ⟨_, h2 | h2⟩
      · exact hI.pf u thu h2 (fun hc => hnc (hsubCT u hc)) hw
      · rw [h2] at hw; cases hw
      · exact absurd h2 hnc
  · -- k3
    intro u thu hthu
    by_cases hu : u = t
    · subst hu; rw [hth'] at hthu; injection hthu with hthu; subst hthu
      rcases hI.k3 u th hth with h2 | h2 | h2
      · exact Or.inl h2
      · exact Or.inr (Or.inl (hsubCT u h2))
      · exact Or.inr (Or.inr (by rw [hwk']; exact h2))
    · rcases hoth u thu hu hthu with h2 | ⟨_, h2 | h2⟩
      · rcases hI.k3 u thu h2 with h3 | h3 | h3
        · exact Or.inl h3
        · exact Or.inr (Or.inl (hsubCT u h3))
        · exact Or.inr (Or.inr h3)
      · exact Or.inr (Or.inr h2)
      · exact Or.inr (Or.inl h2)

theorem reach_pinv {cfg : Config} {s : State} (h : Reach cfg s) : PInv s := by
  induction h with
  | init => exact pInv_init cfg
  | step t hr hs ih => exact pInv_step hr ih hs


theorem needsPool_prePool {f : Frame} (h : needsPool f = true) (hd : dFr f = false) : prePool f = false := by
  cases f <;> simp [needsPool, dFr, prePool] at h hd ⊢

theorem needsPool_nc {f : Frame} (h : needsPool f = true) (hn : ncFr f = true) (hw : isW f = false) :
    subP f = true ∨ dFr f = true := by
  cases f <;> simp [needsPool, ncFr, isW, subP, dFr] at h hn hw ⊢

/-- a client or the main thread is inside pool code only while the pool exists -/
theorem pool_of_nonworker {cfg : Config} {s : State} {t : Tid} {th : Thread} {fr : Frame} {rest : List Frame}
    (hr : Reach cfg s) (hth : s.threads t = some th) (hst : th.stack = fr :: rest)
    (hfin : th.finished = false) (hw : th.isWorker = false) (hnp : needsPool fr = true) : s.pool ≠ none := by
  have hI := reach_pinv hr
  have hJ := reach_join hr
  have hfr : fr ∈ th.stack := by rw [hst]; exact List.mem_cons_self ..
  cases hD : dFr fr with
  | true => exact hI.pm t th hth ⟨fr, hfr, hD⟩
  | false =>
    cases Classical.em (t ∈ s.clientTids) with
    | inl hct =>
      have hl : poolAlive s := by
        cases Classical.em (poolAlive s) with
        | inl h => exact h
        | inr h =>
          obtain ⟨th2, h2, h3⟩ := clients_finished_of_dead hr h t hct
          rw [hth] at h2; injection h2 with h2; subst h2; rw [hfin] at h3; cases h3
      have htp : s.tp = true := by
        cases h : s.tp with
        | true => rfl
        | false =>
          have := ((reach_inv hr).early hl h).pre t th hth fr hfr
          rw [needsPool_prePool hnp hD] at this; cases this
      exact hI.p1 hl htp
    | inr hct =>
      have hAll : AllNC th.stack := by
        rcases hJ.kinds t th hth with h2 | h2
        · exact absurd h2 hct
        · exact h2
      have hNoW := (reach_safe hr).wk t th hth hw
      rcases needsPool_nc hnp (hAll fr hfr) (hNoW fr hfr) with h2 | h2
      · exact hI.pm t th hth (hI.pf t th hth hct hw ⟨fr, hfr, h2⟩)
      · rw [hD] at h2; cases h2

/-- the record read by the next step of a thread is alive -/
theorem top_record_alive {cfg : Config} {s : State} {t : Tid} {th : Thread} {fr : Frame} {rest : List Frame}
    (hr : Reach cfg s) (hth : s.threads t = some th) (hst : th.stack = fr :: rest) :
    ∀ c', reads fr = some c' → s.calls c' ≠ none := by
  intro c' hc'
  have hI := reach_safe hr
  have ht : t < s.nthreads := by
    cases Nat.lt_or_ge t s.nthreads with
    | inl h => exact h
    | inr h => have := (reach_inv hr).fresh t h; rw [hth] at this; cases this
  have hw1 : 1 ≤ weight c' th := by
    simp only [weight, hst, wS_cons, reads_weight hc']; omega
  have h2 := tsum_ge (f := wt s c') ht
  have hwt : wt s c' t = weight c' th := by simp [wt, hth]
  have htok := hI.tok c'
  have hlt : c' < s.nextCall := by
    cases Nat.lt_or_ge c' s.nextCall with
    | inl h => exact h
    | inr h => have := (hI.zero c' h).1; omega
  obtain ⟨h1, h2 | h2⟩ := hI.recs c' hlt
  · rw [h2]; exact h1
  · omega

/-- a live worker thread implies the pool object -/
def WorkerPool (s : State) : Prop :=
  ∀ w th, s.threads w = some th → th.isWorker = true → th.finished = false → s.pool ≠ none

theorem fault_step {cfg : Config} {s s' : State} {t : Tid} {o : List String}
    (hr : Reach cfg s) (hW : WorkerPool s) (hf : s.fault = none) (h : step s t = some (s', o)) :
    s'.fault = none := by
  obtain ⟨th, fr, rest, hth, hst, hfin, rfl⟩ := step_inv h
  have hbo : BotOnly (fr :: rest) := by rw [← hst]; exact (reach_join hr).botOnly t th hth
  have hP := shapeP s t th fr rest hth hst (fun hb => botOnly_cons_bot hb hbo)
  have hpool : needsPool fr = true → s.pool ≠ none := by
    intro hnp
    cases hw : th.isWorker with
    | true => exact hW t th hth hw hfin
    | false => exact pool_of_nonworker hr hth hst hfin hw hnp
  rw [hP.flt hpool (top_record_alive hr hth hst) ?_]
  · exact hf
  · intro x e
    subst e
    cases hp : s.pool with
    | none => exact hpool rfl hp
    | some p =>
      obtain ⟨j, hj⟩ := full_popRel_some hr hp hth (by rw [hst]; rfl)
      cases hj

/-- `no_fault`, given that worker threads run only while the pool exists -/
theorem no_fault_of_workerPool {cfg : Config} (hW : ∀ s, Reach cfg s → WorkerPool s) {s : State}
    (h : Reach cfg s) : s.fault = none := by
  induction h with
  | init => rfl
  | step t hr hs ih => exact fault_step hr (hW _ hr) ih hs

end Nstd.Future.Safe
