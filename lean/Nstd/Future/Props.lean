import Nstd.Future.RingLemmas
import Nstd.Future.SimRing
import Nstd.Future.ProtoLemmas
import Nstd.Future.Witness
import Nstd.Future.Safety
import Nstd.Future.SafetyFault
import Nstd.Future.LiveWorker
import Nstd.Future.Progress
import Nstd.Future.LiveProducer
import Nstd.Future.LiveAll
import Nstd.Future.LiveReduce
import Nstd.Future.LiveSpawn
import Nstd.Future.Terminal
import Nstd.Future.Fair
import Nstd.Future.Fair2
import Nstd.Future.Handshake
import Nstd.Future.HandshakeWitness
/-
  Property C10 — "every Future call runs exactly once and join waits for its result".

  Model: `Nstd.Future.Model` (micro-step transition system of Future / ThreadPool / LockFreeQueue /
  FastSignal / Signal; any number of client threads and workers, any queue capacity; schedules are
  universally quantified through `Reach`).  The model follows the REPAIRED code for `cfg.repaired = true`
  (fixes/future/0001-0004, fixes/sync/0001) and the original code otherwise.

  This file holds only the property theorems (namespace `Nstd.Future.C10`; the lemma files use `Nstd.Future`).  Safety theorems hold for both values of `repaired`.
-/
namespace Nstd.Future.C10

/-! ## The lock-free ring -/

/-- Linearizability lemma of the lock-free ring as a closed system (every capacity > 0, any number of
    threads, every workload, every schedule): each ticket is popped at most once, the payload a popper reads
    for ticket `x` is the `x`-th pushed payload (FIFO by ticket, popped multiset ⊆ pushed multiset), and
    `head ≤ tail ≤ head + capacity`.  Nothing is assumed about `false` results (they may be spurious). -/
theorem ring_is_fifo_multiset {α : Type} {cap : Nat} {s : RingSys α} (hc : 0 < cap) (h : RingReach cap s) :
    (s.ring.popLog.map Prod.fst).Nodup ∧
    (∀ x d, (x, d) ∈ s.ring.popLog → x < s.ring.head ∧ x < s.ring.pushLog.length ∧ d = s.ring.pushLog[x]?) ∧
    s.ring.head ≤ s.ring.tail ∧ s.ring.tail ≤ s.ring.head + cap ∧ s.ring.pushLog.length = s.ring.tail :=
  ⟨ring_popLog_nodup hc h,
   fun _ _ hm => ⟨ring_popLog_lt_head hc h hm, (ring_popLog_sound hc h hm).1, (ring_popLog_sound hc h hm).2⟩,
   ring_head_le_tail hc h, ring_tail_le_head_cap hc h, ring_pushLog_length hc h⟩

/-- A ticket is owned by one thread at a time: two different threads are never both past the successful CAS of
    `pop` (resp. `push`) with the same ticket. -/
theorem ring_ticket_handed_over_once {α : Type} {cap : Nat} {s : RingSys α} (hc : 0 < cap) (h : RingReach cap s)
    {t u : Nat} (htu : t ≠ u) {p q : RingPc α} (hp : s.pcs t = some p) (hq : s.pcs u = some q) {x : Nat} :
    (popTicket p = some x → popTicket q = some x → False) ∧ (pushTicket p = some x → pushTicket q = some x → False) :=
  ⟨ring_claim_unique_pop hc h htu hp hq, ring_claim_unique_push hc h htu hp hq⟩

/-- The same for the queue inside the full system: in every reachable state of the Future/ThreadPool model the
    pool's job queue is a reachable state of the ring system (simulation), hence FIFO / at-most-once. -/
theorem pool_queue_is_fifo_multiset {cfg : Config} {s : State} {p : Pool} (h : Reach cfg s) (hp : s.pool = some p) :
    (p.ring.popLog.map Prod.fst).Nodup ∧
    (∀ x d, (x, d) ∈ p.ring.popLog → x < p.ring.pushLog.length ∧ d = p.ring.pushLog[x]?) ∧
    p.ring.head ≤ p.ring.tail ∧ p.ring.tail ≤ p.ring.head + capOf cfg ∧ p.ring.pushLog.length = p.ring.tail :=
  ⟨full_popLog_nodup h hp, fun _ _ hm => full_popLog_sound h hp hm, full_head_le_tail h hp,
   full_tail_le_head_cap h hp, full_pushLog_len h hp⟩

/-- A worker never reads a raw (unconstructed / already destructed) queue slot: the job it takes out for ticket
    `x` is the job pushed with ticket `x`. -/
theorem pop_delivers_the_pushed_job {cfg : Config} {s : State} {p : Pool} (h : Reach cfg s) (hp : s.pool = some p)
    {t : Tid} {th : Thread} (hth : s.threads t = some th) {x : Nat} {d : Option Job}
    (htop : th.stack.head? = some (.ring (.popRel x d))) :
    x < p.ring.pushLog.length ∧ d = p.ring.pushLog[x]? ∧ ∃ j, d = some j :=
  ⟨(full_popRel_payload h hp hth htop).1, (full_popRel_payload h hp hth htop).2, full_popRel_some h hp hth htop⟩

/-! ## Exactly once, arguments, record lifetime (full model, every schedule, both code variants) -/

/-- Safety half of "each started call is executed exactly once": the body of a call record runs at most once, only a
    pool worker runs it, at most one thread is ever inside `proc` for it.  (The other half — it does run — is
    `join_after_completion`: when a join of that call returns, `execCount = 1`.) -/
theorem exactly_once {cfg : Config} {s : State} (h : Reach cfg s) (c : Nat) :
    s.execCount c ≤ 1 ∧
    (∀ t, executes s t c → ∃ th, s.threads t = some th ∧ th.isWorker = true) ∧
    (∀ t u, executes s t c → executes s u c → t = u) ∧
    (s.completed c = true → s.execCount c = 1) :=
  ⟨exec_at_most_once h c, fun _ he => exec_by_worker h he, fun _ _ ht hu => executor_unique h ht hu,
   fun hc => completed_exec_once h hc⟩

/-- ... with the arguments given to `start`: what the body was called with is what the call record was created with. -/
theorem exec_with_start_arguments {cfg : Config} {s : State} (h : Reach cfg s) {c : Nat} {a b : Int}
    (he : s.execArgs c = some (a, b)) : ∃ r, s.everCalls c = some r ∧ r.a = a ∧ r.b = b :=
  exec_args_are_start_args h he

/-- The `Call` record is deleted at most once; while a thread is inside `proc` for it the record is alive and unchanged;
    the model's fault flag never fires in any reachable state: no use of a record after its delete, no double delete, no
    read of a raw (unconstructed / destructed) queue slot, no pool code running without a pool. -/
theorem call_record_freed_once_and_alive {cfg : Config} {s : State} (h : Reach cfg s) (c : Nat) :
    s.freeCount c ≤ 1 ∧
    (∀ t th fr, s.threads t = some th → fr ∈ th.stack → inProc c fr = true → ∃ r, s.calls c = some r ∧ s.everCalls c = some r) ∧
    s.fault = none :=
  ⟨call_record_freed_once h c, fun _ _ _ hth hfr hp => exec_record_alive h hth hfr hp, no_fault h⟩

/-- Nothing is lost: while the pool exists, a started call that has not completed is held by a live thread (the starting
    client on its way to the queue, a worker that popped it, or its executor), or is queued in the ring, or is claimed by
    a popper that is about to read it (token conservation: exactly one token per call record). -/
theorem started_call_is_never_lost {cfg : Config} {s : State} (h : Reach cfg s) (hl : poolAlive s) {c : Nat}
    (hc : c < s.nextCall) (hn : s.completed c = false) :
    (∃ t th, s.threads t = some th ∧ th.finished = false ∧ 1 ≤ weight c th) ∨
    (∃ p x, s.pool = some p ∧ p.ring.head ≤ x ∧ x < p.ring.tail ∧ p.ring.pushLog[x]? = some (some c)) ∨
    (∃ p x t th, s.pool = some p ∧ p.ring.pushLog[x]? = some (some c) ∧ s.threads t = some th ∧
      th.finished = false ∧ th.stack.head? = some (.ring (.popData x))) :=
  LJ.uncompleted_call_has_holder h hl hc hn

/-! ## Completion handshake (full model, every schedule, both code variants; each future used by one client thread) -/

/-- `join()` (also inside the destructor, the result conversion and a re-`start`) returns only after the call's body has
    run, its result and state have been published — and then the body has run exactly once.  `joinClr f` is the point
    right after `_sig.wait(); _sig.reset();`. -/
theorem join_after_completion {cfg : Config} {s : State} (hwf : cfg.WellFormed) (h : Reach cfg s)
    {t : Tid} {f c : Nat} (htop : topFrame s t = some (.joinClr f)) (hc : (s.futs f).curCall = some c) :
    s.completed c = true ∧ s.execCount c = 1 :=
  join_after_completion_once hwf h htop hc

/-- A join that returns immediately (`_joinable == false`) also means the latest call has completed. -/
theorem join_without_wait_means_completed {cfg : Config} {s : State} (hwf : cfg.WellFormed) (h : Reach cfg s)
    {f c : Nat} (hj : (s.futs f).joinable = false) (hc : (s.futs f).curCall = some c) : s.completed c = true :=
  joined_means_completed hwf h hj hc

/-- The value obtained through the result conversion is the return value of the started function on the arguments
    given to `start` (the model's body returns `a * 100 + b`, as the harness body does). -/
theorem result_is_return_value {cfg : Config} {s : State} (hwf : cfg.WellFormed) (h : Reach cfg s)
    {t : Tid} {f c : Nat} {r : CallRec} (htop : topFrame s t = some (.evResult f)) (hf : f < 8)
    (hc : (s.futs f).curCall = some c) (hr : s.everCalls c = some r) : (s.futs f).result = some (r.a * 100 + r.b) :=
  Nstd.Future.result_is_return_value hwf h htop hf hc hr

/-- After join: `isFinished()` or `isAborted()` holds, and `isAborted()` only if `abort()` was requested since the start. -/
theorem state_after_join {cfg : Config} {s : State} (hwf : cfg.WellFormed) (h : Reach cfg s)
    {f c : Nat} (hj : (s.futs f).joinable = false) (hc : (s.futs f).curCall = some c) :
    ((s.futs f).state = 2 ∨ (s.futs f).state = 3) ∧ ((s.futs f).state = 3 → (s.futs f).abortReq = true) :=
  Nstd.Future.state_after_join hwf h hj hc

/-- With the repaired `Signal::set` (broadcast before unlock): when `~Future` destroys the future's Signal, no other thread
    is inside any operation on that Signal — the worker's last access to the future happens before `join` returns.
    (False for the original order: broadcast-after-unlock touches a destroyed condition variable.) -/
theorem future_destroyed_only_when_unused {cfg : Config} {s : State} (hwf : cfg.WellFormed) (hrep : cfg.repaired = true)
    (h : Reach cfg s) {t u : Tid} {f : Nat} {x : Frame} (htop : topFrame s t = some (.destroyF f))
    (hu : u ≠ t) (hx : topFrame s u = some x) : sigFrameOf (f + 2) x = false :=
  destroy_no_signal_user hwf hrep h htop hu hx

/-- non-vacuity: a well-formed configuration (two clients on different futures) -/
example : hsCfg.WellFormed := by
  constructor
  · intro i j si sj hi hj hij
    rcases i with _ | _ | i <;> rcases j with _ | _ | j <;> simp [hsCfg] at hi hj <;>
      first
        | exact absurd rfl hij
        | (subst hi; subst hj; decide)
  · decide

/-! ## Liveness, deadlock-freedom form (full model of the REPAIRED code) -/

/-- No lost wake-up on the worker side, for every schedule, any number of threads, any capacity: whenever a job is
    queued and a worker thread is alive, some thread can take a step. -/
theorem no_stuck_worker_side {cfg : Config} {s : State} (hrep : cfg.repaired = true) (h : Reach cfg s)
    (hq : jobQueued s) (hw : ∃ w, liveWorker s w) : ∃ t, enabled s t = true :=
  Nstd.Future.no_stuck_worker_side hrep h hq hw

/-- No lost wake-up on the producer side (back-pressure loop of `ThreadPool::run` and of `~ThreadPool`): whenever a thread
    sleeps in `_dequeuedSignal.wait()` and a worker thread is alive, some thread can take a step (whether the queue has
    a free slot or is still full). -/
theorem no_stuck_producer_side {cfg : Config} {s : State} {p : Pool} (hrep : cfg.repaired = true) (h : Reach cfg s)
    (hp : s.pool = some p) (hsl : ∃ t, asleepOnDeq s t) (hw : ∃ w, liveWorker s w) : ∃ t, enabled s t = true :=
  no_stuck_sleeper_on_deq hrep h hp hsl hw

/-- Join side: whenever a client sleeps in `join()` on the Signal of its future and a worker thread is alive, some thread
    can take a step (repaired code, each future used by one client). -/
theorem no_stuck_join_side {cfg : Config} {s : State} (hrep : cfg.repaired = true) (hwf : cfg.WellFormed)
    (h : Reach cfg s) (hsl : ∃ t f, topFrame s t = some (.sWaitCwake (f + 2)) ∧ t ∈ (s.sigs (f + 2)).waiters)
    (hw : ∃ w, liveWorker s w) : ∃ t, enabled s t = true :=
  joinSide_holds hrep hwf s h hsl hw

/-- Shutdown side: while `~ThreadPool` waits in `Thread::join` for a worker, some thread can take a step (the destructor's
    `_threadCount` terminate jobs reach every serving worker). -/
theorem no_stuck_shutdown_side {cfg : Config} {s : State} (hrep : cfg.repaired = true) (h : Reach cfg s)
    (hd : ∃ i, topFrame s 0 = some (.dJoin i)) : ∃ t, enabled s t = true :=
  Nstd.Future.no_stuck_shutdown_side hrep h hd

/-- Deadlock freedom while a worker lives: in every reachable state of the repaired system in which some worker thread is
    alive, some thread can take a step — for every schedule, any number of client threads, workers and futures, any queue
    capacity and thread limits (each future used by one client thread).  Composition of the worker, producer, join and
    shutdown sides with the Signal-layer progress lemmas. -/
theorem no_stuck_while_a_worker_lives {cfg : Config} {s : State} (hrep : cfg.repaired = true) (hwf : cfg.WellFormed)
    (h : Reach cfg s) (hw : ∃ w, liveWorker s w) : ∃ t, enabled s t = true :=
  Nstd.Future.no_stuck_while_a_worker_lives hrep hwf h hw

/-- Terminate jobs reach exactly the serving workers (counting invariant of the pool, equality form): the weighted number of
    serving workers, contexts whose thread is not yet created, a retire in flight and the destructor's pushed jobs equals
    `_threadCount` plus the terminate jobs still queued (and, once the destructor has pushed all its jobs, the serving
    workers are exactly matched by queued terminate jobs). -/
theorem terminate_jobs_balance {cfg : Config} {s : State} {p : Pool} (hrep : cfg.repaired = true) (h : Reach cfg s)
    (hp : s.pool = some p) :
    (¬ LS.lsDone s → tsum s.nthreads (LS.lsAt p.ring.pushLog s) = LS.lsTq p.ring.head p.ring.pushLog + p.threadCount) ∧
    (LS.lsDone s → tsum s.nthreads (LS.lsAt p.ring.pushLog s) = LS.lsTq p.ring.head p.ring.pushLog) :=
  Nstd.Future.terminate_jobs_balance hrep h hp

/-- The pool always has or creates a worker for a queued job: a job is queued and no worker thread is alive ⇒ some thread
    can take a step (spawn arithmetic of `ThreadPool::run` over `_pushedJobs`, `_processedJobs`, `_threadCount` with their
    stale reads, together with the FIFO order of the ring). -/
theorem queued_job_served {cfg : Config} {s : State} (hrep : cfg.repaired = true) (hwf : cfg.WellFormed)
    (h : Reach cfg s) (hq : jobQueued s) (hnw : ∀ w, ¬ liveWorker s w) : ∃ t, enabled s t = true :=
  Nstd.Future.queued_job_served hrep hwf s h hq hnw

/-- Counter identity of the pool: `_pushedJobs` + pushers not yet counted = `_processedJobs` + jobs taken but not yet
    counted + real jobs queued. -/
theorem counters_identity {cfg : Config} {s : State} {p : Pool} (hrep : cfg.repaired = true) (h : Reach cfg s)
    (hp : s.pool = some p) :
    p.pushed + tsum s.nthreads (SP.spAAt s)
      = p.processed + tsum s.nthreads (SP.spXAt p.ring.pushLog s) + SP.spR p.ring.head p.ring.pushLog :=
  Nstd.Future.counters_identity hrep h hp

/-- DEADLOCK FREEDOM of the repaired system (`no_stuck`, unconditional): in every reachable state — every schedule, any
    number of client threads, workers and futures, any queue capacity and thread limits, each future used by one client —
    in which some thread has not finished, some thread can take a step.  In particular no `join()`, no `Future::start`, no
    destructor is ever blocked forever by the pool: whenever a thread waits, another one can move.
    Composition of the worker / producer / join / shutdown sides, the spawn arithmetic and the Signal-layer progress. -/
theorem no_stuck {cfg : Config} {s : State} (hrep : cfg.repaired = true) (hwf : cfg.WellFormed) (h : Reach cfg s)
    (hl : ∃ t th, s.threads t = some th ∧ th.finished = false) : ∃ t, enabled s t = true :=
  Nstd.Future.no_stuck hrep hwf h hl

/-- The program cannot stop early: a reachable state of the repaired system in which no thread can step is a complete
    success state — every thread has finished (so every `join()`, destructor and `Future::start` has returned) and every
    started call has completed, was executed exactly once and its record was freed exactly once. -/
theorem terminal_state_is_complete {cfg : Config} {s : State} (hrep : cfg.repaired = true) (hwf : cfg.WellFormed)
    (h : Reach cfg s) (hterm : ∀ t, enabled s t = false) :
    (∀ t th, s.threads t = some th → th.finished = true) ∧
    (∀ c, c < s.nextCall → s.completed c = true ∧ s.execCount c = 1 ∧ s.freeCount c = 1) :=
  Nstd.Future.terminal_state_is_complete hrep hwf h hterm

/-- `join_eventually`, proved part: every MAXIMAL FINITE schedule of the repaired system (a schedule after which no thread
    can step) ends with all joins returned and every started call executed exactly once.  What is missing for the full
    statement is termination of every weakly fair schedule: `fair_runs_terminate`, hence `join_eventually` below. -/
theorem join_eventually_partial {cfg : Config} (hrep : cfg.repaired = true) (hwf : cfg.WellFormed)
    (sched : List Tid) {s : State} (hrun : runSched (State.init cfg) sched = some s) (hmax : ∀ t, enabled s t = false) :
    (∀ t th, s.threads t = some th → th.finished = true) ∧
    (∀ c, c < s.nextCall → s.completed c = true ∧ s.execCount c = 1 ∧ s.freeCount c = 1) :=
  Nstd.Future.terminal_state_is_complete hrep hwf (runSched_reach Reach.init hrun) hmax

/-- Weak fairness, proved part 1: a weakly fair run (every thread that stays enabled is eventually scheduled) never stalls
    — from every point on it is either in a state where no thread can step, or its state changes again.  (The only
    micro-steps that leave a state unchanged are failing spins on the pool-creation spin lock, and then the lock holder is
    enabled and makes progress.) -/
theorem fair_run_never_stalls {cfg : Config} {σ : Nat → Tid} {run : Nat → State} (hf : FairRun cfg σ run) (n : Nat) :
    (∀ t, enabled (run n) t = false) ∨ ∃ m, n ≤ m ∧ run (m + 1) ≠ run m :=
  fair_run_progresses_or_terminal hf n

/-- Termination measure: on the reachable states of the repaired system the relation "some micro-step of some thread
    changes the state" has no infinite chain (lexicographic measure: remaining work events, Signal::set / `_state` credits,
    wait-loop credits, frame distance).  The only state-preserving micro-steps are failing spins on the pool-creation lock. -/
theorem progresses_wf {cfg : Config} (hrep : cfg.repaired = true) : WellFounded (Progresses cfg) :=
  Nstd.Future.progresses_wf hrep

/-- Every weakly fair run of the repaired system (every thread that stays enabled is eventually scheduled; schedules may
    also pick disabled threads) reaches a state in which no thread can step. -/
theorem fair_runs_terminate {cfg : Config} {σ : Nat → Tid} {run : Nat → State} (hrep : cfg.repaired = true)
    (hf : FairRun cfg σ run) : ∃ n, ∀ t, enabled (run n) t = false :=
  Nstd.Future.fair_runs_terminate hrep hf

/-- **`join_eventually`** — the liveness clause of C10, outright: for every configuration (any number of client threads,
    futures, workers, any queue capacity and thread limits; each future used by one client; bodies terminate and do not
    wait on other futures — they are the model's bodies) and EVERY weakly fair run of the repaired system there is a point
    at which every thread has finished — so every `join()`, destructor, result conversion and `Future::start` has
    returned — and every started call has completed, was executed exactly once and its record was freed exactly once. -/
theorem join_eventually {cfg : Config} {σ : Nat → Tid} {run : Nat → State} (hrep : cfg.repaired = true)
    (hwf : cfg.WellFormed) (hf : FairRun cfg σ run) :
    ∃ n, (∀ t th, (run n).threads t = some th → th.finished = true) ∧
      (∀ c, c < (run n).nextCall →
        (run n).completed c = true ∧ (run n).execCount c = 1 ∧ (run n).freeCount c = 1) :=
  Nstd.Future.join_eventually hrep hwf hf

/-- Negation witness for the ORIGINAL `FastSignal`: a reachable state from which one thread alone repeats a cycle of
    state-changing micro-steps (a waiter busy-spins through `wait()` on a stale Signal), so the step relation is not
    well-founded and weak fairness does not suffice there (the defect repaired by fix 0005). -/
theorem busy_spin_witness_orig :
    ∃ cfg : Config, cfg.repaired = false ∧ cfg.WellFormed ∧ ¬ WellFounded (Progresses cfg) :=
  progresses_not_wf_orig

/-- Mutual exclusion and progress of the simulated Signal layer inside the full model (both code variants): the two
    pool signals' mutexes are exclusive; a thread blocked on any Signal mutex has an owner that can step; a thread
    blocked on the pool mutex implies some other thread can step; no sleeper of a pool signal misses a set flag (a setter
    that can step exists). -/
theorem signal_layer_progress {cfg : Config} {s : State} (h : Reach cfg s) :
    (∀ σ t u a b, σ < 2 → t ≠ u → topFrame s t = some a → topFrame s u = some b →
        critFrame cfg σ a = true → critFrame cfg σ b = true → False) ∧
    (∀ σ t fr, topFrame s t = some fr →
        (fr = .sSetLock σ ∨ fr = .sRstLock σ ∨ fr = .sWaitLock σ ∨ fr = .sWaitRelock σ) → enabled s t = false →
        ∃ o, (s.sigs σ).owner = some o ∧ enabled s o = true) ∧
    (∀ p t fr, s.pool = some p → topFrame s t = some fr → (fr = .runSpLock ∨ fr = .runRetLock) → enabled s t = false →
        ∃ u, u ≠ t ∧ enabled s u = true) ∧
    (∀ σ t, σ < 2 → t ∈ (s.sigs σ).waiters → (s.sigs σ).signaled = true → ∃ u, u ≠ t ∧ enabled s u = true) :=
  ⟨fun _ _ _ _ _ hσ htu ht hu ha hb => pool_sig_mutex_exclusive_always h hσ htu ht hu ha hb,
   fun _ _ _ ht hfr hen => sig_lock_waiter_has_enabled_owner h ht hfr hen,
   fun _ _ _ hp ht hfr hen => pool_lock_waiter_some_enabled h hp ht hfr hen,
   fun _ _ hσ ht hs => pool_sig_waiter_has_enabled_setter h hσ ht hs⟩

/-- Shape of a (hypothetical) global deadlock: every live thread would be asleep on a condition variable whose flag is
    unset (for never-destroyed signals) with no spurious wake-up left, or the main thread waiting in a join. -/
theorem deadlock_shape {cfg : Config} {s : State} (h : Reach cfg s) (hdead : ∀ u, enabled s u = false)
    {t : Tid} {fr : Frame} (ht : topFrame s t = some fr) :
    (∃ σ, fr = .sWaitCwake σ ∧ t ∈ (s.sigs σ).waiters ∧ s.spurious = 0 ∧
        (SigClean cfg s σ → (s.sigs σ).signaled = false)) ∨
    (∃ i, fr = .mJoin i) ∨ (∃ i, fr = .dJoin i) :=
  global_deadlock_shape h hdead ht

/-! ## The sleep / wake protocol (FastSignal), abstract system `Nstd.Future.Proto`

  Resource counter guarded by a FastSignal, `nc` consumers (take / reset / re-check / wait), `ns` suppliers
  (add / set), arbitrary numbers of both.  Both uses of FastSignal in the pool are instances. -/

/-- Repaired `FastSignal::reset` (fix 0001): `_state = 1` is never left with the signal reset unless some thread is
    still inside `set()`/`reset()` on its way to set the signal — the negation of defect D17. -/
theorem fastsignal_set_not_lost {cfg : Proto.PCfg} (hrep : cfg.repaired = true) {s : Proto.PState}
    (h : Proto.PReach cfg s) (hst : s.st = 1) :
    s.sig = true ∨ (∃ j, j < cfg.ns ∧ s.sup j = .setSig) ∨
    (∃ i, i < cfg.nc ∧ (s.cons i = .rstSig ∨ s.cons i = .rstLoad ∨ s.cons i = .rstSet ∨ s.cons i = .leaveSig)) :=
  Proto.fastsignal_set_not_lost hrep h hst

/-- Repaired protocol (fixes 0001 + 0003): with units available and a consumer asleep, the signal is set or some
    thread is active — no lost wake-up, for every number of consumers and suppliers (abstract protocol). -/
theorem no_stuck_protocol {cfg : Proto.PCfg} (hrep : cfg.repaired = true) (hho : cfg.handoff = true) {s : Proto.PState}
    (h : Proto.PReach cfg s) : ¬ Proto.Stuck cfg s :=
  Proto.proto_no_stuck hrep hho h

/-- Negation witness, original `FastSignal::reset` (defect D17): the protocol reaches a stuck state. -/
theorem d17_protocol_witness : ∃ s, Proto.PReach { nc := 2, ns := 1, repaired := false, handoff := true } s ∧
    Proto.Stuck { nc := 2, ns := 1, repaired := false, handoff := true } s :=
  Proto.d17_protocol_witness

/-- Negation witness, a leaving consumer that does not pass the wake-up on (original worker loop). -/
theorem swallowed_wakeup_witness : ∃ s, Proto.PReach { nc := 2, ns := 1, repaired := true, handoff := false } s ∧
    Proto.Stuck { nc := 2, ns := 1, repaired := true, handoff := false } s :=
  Proto.swallowed_wakeup_witness

/-- Negation witness of `join_eventually`-style liveness on the FULL model of the ORIGINAL code (defect D17): a
    schedule (277 micro-steps, replayed from a run of the real thread pool) after which threads are alive, none is
    enabled, `_enqueuedSignal` has `_state = 1` with its Signal reset and a job is queued. -/
theorem d17_model_witness : ∃ sched s, runSched (State.init d17Cfg) sched = some s ∧
    allBlocked s = true ∧ someLive s = true ∧ enqInconsistent s = true := by
  have h := d17_check
  unfold d17Check at h
  cases hr : runSched (State.init d17Cfg) d17Sched with
  | none => rw [hr] at h; exact absurd h (by decide)
  | some s =>
    rw [hr] at h
    simp only [Bool.and_eq_true] at h
    exact ⟨d17Sched, s, hr, h.1.1, h.1.2, h.2⟩

/-- Negation witness of `join_eventually` / "every started call is executed" on the FULL model of the ORIGINAL code
    (defect D17, dequeued side): after this schedule (268 micro-steps, replayed from a run of the real thread pool) no
    thread is enabled, a client thread sleeps inside `ThreadPool::run` (its `Future::start` never returns),
    `_dequeuedSignal` has `_state = 1` with its Signal reset although the queue has a free slot, and a started call has
    never been executed. -/
theorem d17_start_never_returns_witness : ∃ sched s, runSched (State.init d17bCfg) sched = some s ∧
    allBlocked s = true ∧ clientAsleepOnDeq s = true ∧ deqInconsistent s = true ∧ unexecutedCall s = true := by
  have h := d17b_check
  unfold d17bCheck at h
  cases hr : runSched (State.init d17bCfg) d17bSched with
  | none => rw [hr] at h; exact absurd h (by decide)
  | some s =>
    rw [hr] at h
    simp only [Bool.and_eq_true] at h
    exact ⟨d17bSched, s, hr, h.1.1.1, h.1.1.2, h.1.2, h.2⟩

/-
OPEN: nothing.  (`join_eventually` was open until round 2; it needed one more repair of the code, fix 0005: with the
  earlier `FastSignal::reset` a waiter could busy-spin on a stale Signal (`busy_spin_witness_orig`, Fair2Neg/Fair2Stuck),
  the step relation was not well-founded and a thread needing the Signal mutex could starve under weak fairness.)
  Not covered by any theorem here, by construction of the model: real scheduler timing, weak-memory effects on the plain
  volatile accesses, `usize` wrap-around, bodies that do not terminate or that wait on other futures, several client threads
  using one Future object.
-/

end Nstd.Future.C10
