import Nstd.Future.RingLemmas
import Nstd.Future.Spec
/-
  Property C10 — theorems.  (under construction: the ring theorems are stated first)
-/
namespace Nstd.Future

/-- Linearizability lemma of the lock-free ring, for every capacity, any number of threads, every schedule:
    the payload a popper reads for ticket `x` is the `x`-th pushed payload, every ticket is popped at most once
    (so the popped payloads, in ticket order, are a prefix-respecting sub-multiset of the pushed ones). -/
theorem ring_is_fifo_multiset {α : Type} {cap : Nat} {s : RingSys α} (hc : 0 < cap) (h : RingReach cap s) :
    (s.ring.popLog.map Prod.fst).Nodup ∧
    (∀ x d, (x, d) ∈ s.ring.popLog → x < s.ring.head ∧ x < s.ring.pushLog.length ∧ d = s.ring.pushLog[x]?) ∧
    s.ring.head ≤ s.ring.tail ∧ s.ring.tail ≤ s.ring.head + cap ∧ s.ring.pushLog.length = s.ring.tail :=
  ⟨ring_popLog_nodup hc h,
   fun x d hm => ⟨ring_popLog_lt_head hc h hm, (ring_popLog_sound hc h hm).1, (ring_popLog_sound hc h hm).2⟩,
   ring_head_le_tail hc h, ring_tail_le_head_cap hc h, ring_pushLog_length hc h⟩

end Nstd.Future
