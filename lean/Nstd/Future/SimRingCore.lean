/-
  Core of the simulation proof: the invariant `SimInv` of the full Future/ThreadPool micro-step system
  (`Model.lean`) and the simulation of the closed ring system (`Ring.lean`) AS LONG AS THE POOL HAS NOT BEEN
  DELETED (`poolAlive s`: signal 0, the enqueued-signal of the pool, destroyed only by `dFin`, is alive).
  The theorems of namespace `Alive` carry that hypothesis; `SimRing.lean` removes it with the join
  reasoning of `SimRing5.lean`.
-/
import Nstd.Future.SimRing2
import Nstd.Future.SimRing3
namespace Nstd.Future

/-! ### capacity -/

theorem ceilPow2Aux_pos (fuel p n : Nat) (hp : 0 < p) : 0 < ceilPow2Aux fuel p n := by
  induction fuel generalizing p with
  | zero => simpa [ceilPow2Aux] using hp
  | succ k ih =>
    simp only [ceilPow2Aux]
    split
    · exact hp
    · exact ih (2 * p) (by omega)

theorem ceilPow2_pos (n : Nat) : 0 < ceilPow2 n := ceilPow2Aux_pos 64 1 n (by omega)

theorem capOf_pos (cfg : Config) : 0 < capOf cfg := by
  simp only [capOf]; split <;> exact ceilPow2_pos _

/-! ### the invariant -/

/-- the pool has not been deleted: `dFin` is the only step that destroys signal 0 (`_enqueuedSignal`) -/
def poolAlive (s : State) : Prop := (s.sigs 0).live = true

structure SimInv (cfg : Config) (s : State) : Prop where
  cfgEq : s.cfg = cfg
  fresh : ∀ u, s.nthreads ≤ u → s.threads u = none
  /-- ring frames (and `mInit`) occur only on top of a stack -/
  ringTopOnly : ∀ t th, s.threads t = some th → NoSpec th.stack.tail
  finEmpty : ∀ t th, s.threads t = some th → th.finished = true → th.stack = []
  initOnly : ∀ t th, s.threads t = some th → th.stack.head? = some .mInit → s = State.init cfg
  early : poolAlive s → s.tp = false → Early s
  nonlazy : cfg.lazy = false → poolAlive s → s.tp = true ∨ s = State.init cfg
  ringOk : poolAlive s → RingReach (capOf cfg) (proj s)

theorem simInv_init (cfg : Config) : SimInv cfg (State.init cfg) := by
  have hthr : ∀ t th, (State.init cfg).threads t = some th → t = 0 ∧ th = { stack := [Frame.mInit] } := by
    intro t th h
    simp only [State.init] at h
    split at h
    · next h0 => injection h with h; exact ⟨h0, h.symm⟩
    · cases h
  constructor
  · rfl
  · intro u hu
    have : u ≠ 0 := by simp only [State.init] at hu; omega
    simp only [State.init, this, if_false]
  · intro t th h; obtain ⟨_, rfl⟩ := hthr t th h; exact noSpec_nil
  · intro t th h hf; obtain ⟨_, rfl⟩ := hthr t th h; cases hf
  · intro _ _ _ _; rfl
  · intro _ _
    constructor
    · intro t th h; obtain ⟨_, rfl⟩ := hthr t th h
      simp [allPre_cons, allPre_nil, prePool]
    · intro p hp; simp [State.init] at hp
  · intro _ _; exact Or.inr rfl
  · intro _; exact RingReach.init

/-! ### one step -/

theorem step_inv {s s' : State} {t : Tid} {o : List String} (h : step s t = some (s', o)) :
    ∃ th fr rest, s.threads t = some th ∧ th.stack = fr :: rest ∧ th.finished = false ∧
      s' = (stepFrame s t th fr).1 := by
  simp only [step] at h
  split at h
  · cases h
  · next th hth =>
    split at h
    · cases h
    · next fr rest hst =>
      split at h
      · cases h
      · next hc =>
        injection h with h
        refine ⟨th, fr, rest, hth, hst, ?_, ?_⟩
        · cases hf : th.finished
          · rfl
          · simp [hf] at hc
        · rw [h]

theorem init_thread {cfg : Config} {t : Tid} {th : Thread} {fr : Frame} {rest : List Frame}
    (hth : (State.init cfg).threads t = some th) (hst : th.stack = fr :: rest) :
    t = 0 ∧ fr = .mInit ∧ rest = [] ∧ th = { stack := [Frame.mInit] } := by
  simp only [State.init] at hth
  split at hth
  · next h0 =>
    injection hth with hth; subst hth
    simp only [List.cons.injEq] at hst
    exact ⟨h0, hst.1.symm, hst.2.symm, rfl⟩
  · cases hth

theorem plain_ringTop {fr : Frame} (rest : List Frame) (h : plain fr = true) : ringTop (fr :: rest) = none := by
  cases fr <;> first | rfl | (simp [plain] at h)

theorem frame_class (fr : Frame) :
    plain fr = true ∨ ringy fr = true ∨ fr = .mInit ∨ (∃ c, fr = .cRdTp2 c) ∨ fr = .dFin := by
  cases fr <;> simp [plain, ringy]

theorem dFin_kills {s : State} {t : Tid} {th : Thread} :
    ((stepFrame s t th .dFin).1.sigs 0).live = false := by
  simp [stepFrame, setThread, destroySig, setSig, upd]

theorem head?_ring {th : Thread} {pc : RingPc Job} (h : th.stack.head? = some (.ring pc)) :
    ringPcOf th = some pc := by
  rw [ringPcOf_eq]
  cases hs : th.stack with
  | nil => rw [hs] at h; cases h
  | cons a l =>
    rw [hs] at h; simp only [List.head?_cons, Option.some.injEq] at h; subst h; rfl

/-- the projection after `mInit` (executed in the initial state only) -/
theorem proj_mInit (cfg : Config) :
    proj (stepFrame (State.init cfg) 0 { stack := [Frame.mInit] } .mInit).1 = RingSys.init (capOf cfg) := by
  simp only [stepFrame]
  by_cases hl : cfg.lazy = true
  · have : (State.init cfg).cfg.lazy = true := hl
    simp only [this, if_true]
    rw [proj_setThread_poolNone _ _ rfl]; rfl
  · have : (State.init cfg).cfg.lazy = false := by simpa [State.init] using hl
    simp only [this, Bool.false_eq_true, if_false]
    rw [proj_some (s := setThread _ _ _) (p := mkPool cfg.q cfg.minT cfg.maxT) rfl, pcsOf_setThread]
    have hc : capOf cfg = ceilPow2 cfg.q := by simp [capOf, hl]
    rw [hc]
    simp only [RingSys.init, mkPool]
    congr 1
    funext u
    by_cases hu : u = 0
    · simp only [hu, if_true]; rfl
    · simp only [hu, if_false, pcsOf, State.init]

theorem tp_mInit (cfg : Config) (hl : cfg.lazy = false) :
    (stepFrame (State.init cfg) 0 { stack := [Frame.mInit] } .mInit).1.tp = true := by
  have : (State.init cfg).cfg.lazy = false := hl
  simp only [stepFrame, this, Bool.false_eq_true, if_false]; rfl

/-- the projection after `cRdTp2` while `tp = false`: a fresh pool and no thread inside `push`/`pop` -/
theorem proj_cRdTp2_new {s : State} {t : Tid} {th : Thread} {c : Nat} (he : Early s) (htp : s.tp = false) :
    proj (stepFrame s t th (.cRdTp2 c)).1 = RingSys.init (ceilPow2 0x100) := by
  simp only [stepFrame, htp, Bool.false_eq_true, if_false]
  rw [proj_some (s := setThread _ _ _) (p := mkPool 0x100 0 4) rfl, pcsOf_setThread]
  simp only [RingSys.init, mkPool]
  congr 1
  funext u
  by_cases hu : u = t
  · simp only [hu, if_true]; rfl
  · simp only [hu, if_false, pcsOf]
    cases hthu : s.threads u with
    | none => rfl
    | some thu => exact (he.pre u thu hthu).ringTop

theorem proj_cRdTp2_old {s : State} {t : Tid} {th : Thread} {c : Nat} {rest : List Frame}
    (hth : s.threads t = some th) (hst : th.stack = .cRdTp2 c :: rest) (htp : s.tp = true) :
    proj (stepFrame s t th (.cRdTp2 c)).1 = proj s := by
  simp only [stepFrame, htp, if_true]
  exact proj_setThread_same hth (by simp only [ringPcOf_eq, hst, ringTop])
    (by simp only [ringPcOf_eq, Thread.cont, List.cons_append]; rfl)

theorem simInv_step {cfg : Config} {s s' : State} {t : Tid} {o : List String}
    (hI : SimInv cfg s) (h : step s t = some (s', o)) : SimInv cfg s' := by
  obtain ⟨th, fr, rest, hth, hst, hfin, rfl⟩ := step_inv h
  have hrest : NoSpec rest := by
    have := hI.ringTopOnly t th hth
    rw [hst] at this; exact this
  have h1 := shape1 s t th fr rest hth hst hfin hrest
  obtain ⟨th', hth', hns', hhd', hfe'⟩ := h1.self
  have hcfg := hI.cfgEq
  -- threads other than `t` in the new state
  have hoth : ∀ u thu, u ≠ t → (stepFrame s t th fr).1.threads u = some thu →
      s.threads u = some thu ∨ (thu.finished = false ∧ ∃ x, thu.stack = [.tStart, x] ∧ special x = false) := by
    intro u thu hu hthu
    rcases h1.others u hu with h2 | ⟨_, _, thw, x, h3, h4, h5, h6⟩
    · left; rw [← h2]; exact hthu
    · right; rw [hthu] at h3; injection h3 with h3; subst h3; exact ⟨h6, x, h4, h5⟩
  have hlive : poolAlive (stepFrame s t th fr).1 → poolAlive s := h1.live
  constructor
  · rw [h1.cfg]; exact hcfg
  · intro u hu
    have hut : u ≠ t := by
      intro hut; subst hut
      have := hI.fresh u (Nat.le_trans h1.nth hu)
      rw [hth] at this; cases this
    rcases h1.others u hut with h2 | ⟨h3, h4, _⟩
    · rw [h2]; exact hI.fresh u (Nat.le_trans h1.nth hu)
    · have h3' : (u : Nat) = s.nthreads := h3
      omega
  · intro u thu hthu
    by_cases hu : u = t
    · subst hu; rw [hth'] at hthu; injection hthu with hthu; subst hthu; exact hns'
    · rcases hoth u thu hu hthu with h2 | ⟨_, x, h3, h4⟩
      · exact hI.ringTopOnly u thu h2
      · rw [h3]; simp only [List.tail_cons, noSpec_cons, h4, noSpec_nil, and_self]
  · intro u thu hthu hf
    by_cases hu : u = t
    · subst hu; rw [hth'] at hthu; injection hthu with hthu; subst hthu; exact hfe' hf
    · rcases hoth u thu hu hthu with h2 | ⟨h3, _⟩
      · exact hI.finEmpty u thu h2 hf
      · rw [h3] at hf; cases hf
  · intro u thu hthu hhd
    exfalso
    by_cases hu : u = t
    · subst hu; rw [hth'] at hthu; injection hthu with hthu; subst hthu; exact hhd' hhd
    · rcases hoth u thu hu hthu with h2 | ⟨_, x, h3, _⟩
      · have hs := hI.initOnly u thu h2 hhd
        rw [hs] at h2 hth
        have hu0 : u = 0 := by
          simp only [State.init] at h2
          split at h2
          · assumption
          · cases h2
        exact hu (hu0.trans (init_thread hth hst).1.symm)
      · rw [h3] at hhd; simp at hhd
  · intro hl' htp'
    have hl := hlive hl'
    have htp : s.tp = false := by
      cases h2 : s.tp
      · rfl
      · have := h1.tp hl' h2; rw [htp'] at this; cases this
    have he := hI.early hl htp
    have hpre : AllPre (fr :: rest) := by rw [← hst]; exact he.pre t th hth
    have h3 := shape3 s t th fr rest hth hst hpre he.ctxs htp htp' hl'
    constructor
    · intro u thu hthu
      by_cases hu : u = t
      · subst hu
        obtain ⟨th3, h4, h5⟩ := h3.self
        rw [h4] at hthu; injection hthu with hthu; subst hthu; exact h5
      · rcases h3.others u hu with h4 | ⟨thw, h4, h5⟩
        · rw [h4] at hthu; exact he.pre u thu hthu
        · rw [h4] at hthu; injection hthu with hthu; subst hthu; exact h5
    · exact h3.ctxs
  · intro hlz hl'
    have hl := hlive hl'
    rcases hI.nonlazy hlz hl with h2 | h2
    · exact Or.inl (h1.tp hl' h2)
    · left
      subst h2
      obtain ⟨rfl, rfl, rfl, rfl⟩ := init_thread hth hst
      exact tp_mInit cfg hlz
  · intro hl'
    have hl := hlive hl'
    have hR := hI.ringOk hl
    rcases frame_class fr with hp | hr | rfl | ⟨c, rfl⟩ | rfl
    · have h2 := shape2 s t th fr rest hth hst hrest hp
      have hpc : ringPcOf th = none := by rw [ringPcOf_eq, hst]; exact plain_ringTop rest hp
      rw [proj_plain h1 h2 hI.fresh hth hpc]; exact hR
    · rcases sim_ringy hth hst hrest hr with ⟨a, ha⟩ | ha
      · exact RingReach.step t a hR ha
      · rw [ha]; exact hR
    · have hs := hI.initOnly t th hth (by rw [hst]; rfl)
      subst hs
      obtain ⟨rfl, _, rfl, rfl⟩ := init_thread hth hst
      rw [proj_mInit]; exact RingReach.init
    · cases htp : s.tp
      · have hlazy : cfg.lazy = true := by
          cases hlz : cfg.lazy
          · rcases hI.nonlazy hlz hl with h2 | h2
            · rw [htp] at h2; cases h2
            · subst h2
              have := (init_thread hth hst).2.1; cases this
          · rfl
        rw [proj_cRdTp2_new (hI.early hl htp) htp]
        have : capOf cfg = ceilPow2 0x100 := by simp only [capOf, hlazy, if_true]
        rw [this]; exact RingReach.init
      · rw [proj_cRdTp2_old hth hst htp]; exact hR
    · have := dFin_kills (s := s) (t := t) (th := th)
      rw [poolAlive, this] at hl'; cases hl'

/-! ### reachable states -/

theorem reach_inv {cfg : Config} {s : State} (h : Reach cfg s) : SimInv cfg s := by
  induction h with
  | init => exact simInv_init cfg
  | step t _ hs ih => exact simInv_step ih hs

theorem reach_cfg {cfg : Config} {s : State} (h : Reach cfg s) : s.cfg = cfg := (reach_inv h).cfgEq

namespace Alive
/-- the full system simulates the ring system, as long as the pool has not been deleted -/
theorem reach_ring {cfg : Config} {s : State} (h : Reach cfg s) (hl : poolAlive s) :
    RingReach (capOf cfg) (proj s) := (reach_inv h).ringOk hl

end Alive

/-- ... and trivially whenever there is no pool -/
theorem reach_ring_noPool {cfg : Config} {s : State} (h : Reach cfg s) (hp : s.pool = none) :
    RingReach (capOf cfg) (proj s) := by
  rw [proj_none hp, reach_cfg h]; exact RingReach.init

namespace Alive
theorem ring_facts {cfg : Config} {s : State} {p : Pool} (h : Reach cfg s) (hl : poolAlive s)
    (_hp : s.pool = some p) : ∃ cap, 0 < cap ∧ RingReach cap (proj s) :=
  ⟨capOf cfg, capOf_pos cfg, reach_ring h hl⟩

end Alive

/-- ring frames occur only on top of a stack -/
theorem ring_only_top {cfg : Config} {s : State} {t : Tid} {th : Thread} (h : Reach cfg s)
    (hth : s.threads t = some th) (pc : RingPc Job) : Frame.ring pc ∉ th.stack.tail := by
  intro hm
  have := (reach_inv h).ringTopOnly t th hth _ hm
  simp [special] at this

/-- a finished thread has an empty stack -/
theorem finished_stack_nil {cfg : Config} {s : State} {t : Tid} {th : Thread} (h : Reach cfg s)
    (hth : s.threads t = some th) (hf : th.finished = true) : th.stack = [] :=
  (reach_inv h).finEmpty t th hth hf

/-! ### the ring facts lifted to the full system -/

namespace Alive
section lifted
variable {cfg : Config} {s : State} {p : Pool}

theorem proj_ring (hp : s.pool = some p) : (proj s).ring = p.ring := by rw [proj_some hp]

theorem proj_pcs (hp : s.pool = some p) {t : Tid} {th : Thread} (hth : s.threads t = some th) :
    (proj s).pcs t = ringPcOf th := by
  rw [proj_some hp]; simp only [pcsOf, hth]

theorem full_cap (h : Reach cfg s) (hl : poolAlive s) (hp : s.pool = some p) : p.ring.cap = capOf cfg := by
  have := ring_cap_const (capOf_pos cfg) (reach_ring h hl); rwa [proj_ring hp] at this

theorem full_popLog_nodup (h : Reach cfg s) (hl : poolAlive s) (hp : s.pool = some p) :
    (p.ring.popLog.map Prod.fst).Nodup := by
  have := ring_popLog_nodup (capOf_pos cfg) (reach_ring h hl); rwa [proj_ring hp] at this

theorem full_popLog_sound (h : Reach cfg s) (hl : poolAlive s) (hp : s.pool = some p) {x : Nat} {d : Option Job}
    (hm : (x, d) ∈ p.ring.popLog) : x < p.ring.pushLog.length ∧ d = p.ring.pushLog[x]? := by
  have := ring_popLog_sound (capOf_pos cfg) (reach_ring h hl) (x := x) (d := d) (by rwa [proj_ring hp])
  rwa [proj_ring hp] at this

theorem full_popRel_payload (h : Reach cfg s) (hl : poolAlive s) (hp : s.pool = some p) {t : Tid} {th : Thread}
    {x : Nat} {d : Option Job} (hth : s.threads t = some th)
    (htop : th.stack.head? = some (.ring (.popRel x d))) :
    x < p.ring.pushLog.length ∧ d = p.ring.pushLog[x]? := by
  have hpc : (proj s).pcs t = some (.popRel x d) := by rw [proj_pcs hp hth]; exact head?_ring htop
  have := ring_pop_reads_pushed (capOf_pos cfg) (reach_ring h hl) hpc
  rwa [proj_ring hp] at this

/-- hence the "pop read a raw slot" fault never fires: the payload read is a pushed job -/
theorem full_popRel_some (h : Reach cfg s) (hl : poolAlive s) (hp : s.pool = some p) {t : Tid} {th : Thread}
    {x : Nat} {d : Option Job} (hth : s.threads t = some th)
    (htop : th.stack.head? = some (.ring (.popRel x d))) : ∃ j, d = some j := by
  obtain ⟨h1, h2⟩ := full_popRel_payload h hl hp hth htop
  exact ⟨p.ring.pushLog[x], by rw [h2, List.getElem?_eq_getElem h1]⟩

theorem full_popData_slot (h : Reach cfg s) (hl : poolAlive s) (hp : s.pool = some p) {t : Tid} {th : Thread}
    {x : Nat} (hth : s.threads t = some th) (htop : th.stack.head? = some (.ring (.popData x))) :
    x < p.ring.pushLog.length ∧ (p.ring.slots (x % p.ring.cap)).data = p.ring.pushLog[x]? := by
  have hpc : (proj s).pcs t = some (.popData x) := by rw [proj_pcs hp hth]; exact head?_ring htop
  have := ring_popData_slot (capOf_pos cfg) (reach_ring h hl) hpc
  rw [proj_ring hp, ← full_cap h hl hp] at this
  exact ⟨this.1, this.2.1⟩

theorem full_claim_unique_pop (h : Reach cfg s) (hl : poolAlive s) (hp : s.pool = some p) {t u : Tid}
    {tht thu : Thread} {pt pu : RingPc Job} {x : Nat} (htu : t ≠ u)
    (hth : s.threads t = some tht) (hthu : s.threads u = some thu)
    (htop : tht.stack.head? = some (.ring pt)) (hutop : thu.stack.head? = some (.ring pu))
    (hpt : popTicket pt = some x) (hpu : popTicket pu = some x) : False := by
  have h1 : (proj s).pcs t = some pt := by rw [proj_pcs hp hth]; exact head?_ring htop
  have h2 : (proj s).pcs u = some pu := by rw [proj_pcs hp hthu]; exact head?_ring hutop
  exact ring_claim_unique_pop (capOf_pos cfg) (reach_ring h hl) htu h1 h2 hpt hpu

theorem full_claim_unique_push (h : Reach cfg s) (hl : poolAlive s) (hp : s.pool = some p) {t u : Tid}
    {tht thu : Thread} {pt pu : RingPc Job} {x : Nat} (htu : t ≠ u)
    (hth : s.threads t = some tht) (hthu : s.threads u = some thu)
    (htop : tht.stack.head? = some (.ring pt)) (hutop : thu.stack.head? = some (.ring pu))
    (hpt : pushTicket pt = some x) (hpu : pushTicket pu = some x) : False := by
  have h1 : (proj s).pcs t = some pt := by rw [proj_pcs hp hth]; exact head?_ring htop
  have h2 : (proj s).pcs u = some pu := by rw [proj_pcs hp hthu]; exact head?_ring hutop
  exact ring_claim_unique_push (capOf_pos cfg) (reach_ring h hl) htu h1 h2 hpt hpu

theorem full_pushLog_len (h : Reach cfg s) (hl : poolAlive s) (hp : s.pool = some p) :
    p.ring.pushLog.length = p.ring.tail := by
  have := ring_pushLog_length (capOf_pos cfg) (reach_ring h hl); rwa [proj_ring hp] at this

theorem full_head_le_tail (h : Reach cfg s) (hl : poolAlive s) (hp : s.pool = some p) :
    p.ring.head ≤ p.ring.tail := by
  have := ring_head_le_tail (capOf_pos cfg) (reach_ring h hl); rwa [proj_ring hp] at this

theorem full_tail_le_head_cap (h : Reach cfg s) (hl : poolAlive s) (hp : s.pool = some p) :
    p.ring.tail ≤ p.ring.head + capOf cfg := by
  have := ring_tail_le_head_cap (capOf_pos cfg) (reach_ring h hl); rwa [proj_ring hp] at this

end lifted
end Alive

end Nstd.Future
