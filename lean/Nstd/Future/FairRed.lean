/-
  Weakly fair schedules of the Future/ThreadPool model: the definition of a fair run and the GENERIC reduction

      a well-founded measure that every micro-step decreases, except "spin" steps that leave the state
      unchanged, + "whenever some thread spins, some enabled thread does not spin"
      ⟹ every weakly fair run reaches a state in which no thread is enabled
      ⟹ (with `terminal_state_is_complete`) every weakly fair run reaches a complete success state.

  Nothing in this file depends on the shape of the measure.
-/
import Nstd.Future.Terminal
set_option linter.unusedVariables false
namespace Nstd.Future

/-- an infinite run of the model under schedule `σ`: at time `n` thread `σ n` is scheduled; if it cannot step
    (does not exist, finished, blocked) the state stays; the schedule is WEAKLY FAIR: a thread that is enabled
    continuously from some time on is scheduled again -/
structure FairRun (cfg : Config) (σ : Nat → Tid) (run : Nat → State) : Prop where
  init : run 0 = State.init cfg
  next : ∀ n, (∃ o, step (run n) (σ n) = some (run (n+1), o)) ∨ (step (run n) (σ n) = none ∧ run (n+1) = run n)
  fair : ∀ t n, (∀ m, n ≤ m → enabled (run m) t = true) → ∃ m, n ≤ m ∧ σ m = t

namespace FR

variable {cfg : Config} {σ : Nat → Tid} {run : Nat → State}

/-- every state of a run is reachable -/
theorem run_reach (hf : FairRun cfg σ run) (n : Nat) : Reach cfg (run n) := by
  induction n with
  | zero => rw [hf.init]; exact Reach.init
  | succ n ih =>
    rcases hf.next n with ⟨o, h⟩ | ⟨_, h⟩
    · exact Reach.step _ ih h
    · rw [h]; exact ih

/-- `enabled` is exactly "`step` is defined" -/
theorem step_isSome_of_enabled {s : State} {t : Tid} (h : enabled s t = true) : ∃ r, step s t = some r := by
  rcases hth : s.threads t with _ | th
  · simp [enabled, hth] at h
  · rcases hst : th.stack with _ | ⟨fr, rest⟩
    · simp [enabled, hth, hst] at h
    · simp only [enabled, hth, hst, Bool.and_eq_true, Bool.not_eq_true'] at h
      simp only [step, hth, hst, h.1, h.2, Bool.or_self]
      exact ⟨_, rfl⟩

theorem enabled_of_step {s : State} {t : Tid} {r : State × List String} (h : step s t = some r) :
    enabled s t = true := by
  rcases hth : s.threads t with _ | th
  · simp [step, hth] at h
  · rcases hst : th.stack with _ | ⟨fr, rest⟩
    · simp [step, hth, hst] at h
    · simp only [step, hth, hst] at h
      simp only [enabled, hth, hst]
      cases hfin : th.finished <;> cases hb : blockedFrame s t fr <;> simp [hfin, hb] at h ⊢

/-- the state of a run is frozen from time `n` on -/
def Frozen (run : Nat → State) (n : Nat) : Prop := ∀ m, n ≤ m → run m = run n

/-- in a frozen fair run a thread that is enabled at time `n` takes a (state-preserving) step at some later time -/
theorem frozen_scheduled (hf : FairRun cfg σ run) {n : Nat} (hfr : Frozen run n) {t : Tid}
    (hen : enabled (run n) t = true) : ∃ m o, n ≤ m ∧ step (run n) t = some (run n, o) := by
  obtain ⟨m, hm, hσ⟩ := hf.fair t n (fun m hm => by rw [hfr m hm]; exact hen)
  rcases hf.next m with ⟨o, h⟩ | ⟨h, _⟩
  · rw [hσ, hfr m hm, hfr (m+1) (by omega)] at h
    exact ⟨m, o, hm, h⟩
  · rw [hσ, hfr m hm] at h
    obtain ⟨r, hr⟩ := step_isSome_of_enabled hen
    rw [hr] at h; cases h

end FR

open FR

variable {cfg : Config} {σ : Nat → Tid} {run : Nat → State}

/-- THE REDUCTION.  Let `μ` be a measure into a well-founded order such that every micro-step from a reachable
    state strictly decreases `μ`, except steps that leave the state unchanged and are classified `isSpin`
    (`hdec`); and let every reachable state in which some thread spins have an enabled thread that does not spin
    (`hholder`, the lock holder).  Then every weakly fair run reaches a state in which no thread is enabled. -/
theorem fair_runs_terminate_of_measure {α : Type} (μ : State → α) (r : α → α → Prop) (hwfr : WellFounded r)
    (isSpin : State → Tid → Prop)
    (hdec : ∀ (s s' : State) (t : Tid) (o : List String), Reach cfg s → step s t = some (s', o) →
      r (μ s') (μ s) ∨ (s' = s ∧ isSpin s t))
    (hholder : ∀ (s : State) (t : Tid), Reach cfg s → enabled s t = true → isSpin s t →
      ∃ u, enabled s u = true ∧ ¬ isSpin s u)
    (hf : FairRun cfg σ run) : ∃ n, ∀ t, enabled (run n) t = false := by
  -- well-founded induction on the measure of `run n`
  have key : ∀ a : α, ∀ n, μ (run n) = a → ∃ m, ∀ t, enabled (run m) t = false := by
    intro a
    induction a using hwfr.induction with
    | _ a ih =>
      intro n hn
      by_cases hex : ∃ m, n ≤ m ∧ r (μ (run m)) (μ (run n))
      · obtain ⟨m, _, hm⟩ := hex
        exact ih _ (hn ▸ hm) m rfl
      · -- no further decrease: the run is frozen from `n` on
        have hfr : Frozen run n := by
          intro m hm
          induction m with
          | zero => have : n = 0 := by omega
                    subst this; rfl
          | succ m ihm =>
            by_cases hnm : n = m + 1
            · subst hnm; rfl
            · have hle : n ≤ m := by omega
              have hm' := ihm hle
              rcases hf.next m with ⟨o, h⟩ | ⟨_, h⟩
              · rcases hdec _ _ _ _ (run_reach hf m) h with hd | ⟨he, _⟩
                · exact absurd ⟨m + 1, hm, by rw [hm'] at hd; exact hd⟩ hex
                · rw [he]; exact hm'
              · rw [h]; exact hm'
        by_cases hterm : ∀ t, enabled (run n) t = false
        · exact ⟨n, hterm⟩
        · exfalso
          have : ∃ t, enabled (run n) t = true := by
            apply Classical.byContradiction
            intro hno
            apply hterm
            intro t
            cases he : enabled (run n) t
            · rfl
            · exact absurd ⟨t, he⟩ hno
          obtain ⟨t, hen⟩ := this
          have hrn := run_reach hf n
          -- a frozen step never decreases the measure
          have nodec : ∀ u o, step (run n) u = some (run n, o) → isSpin (run n) u := by
            intro u o hs
            rcases hdec _ _ _ _ hrn hs with hd | ⟨_, hsp⟩
            · exact absurd ⟨n, Nat.le_refl n, hd⟩ hex
            · exact hsp
          obtain ⟨m, o, _, hs⟩ := frozen_scheduled hf hfr hen
          obtain ⟨u, hu, hnsp⟩ := hholder _ _ hrn hen (nodec t o hs)
          obtain ⟨m', o', _, hs'⟩ := frozen_scheduled hf hfr hu
          exact hnsp (nodec u o' hs')
  exact key _ 0 rfl

/-- ... and the state reached is a complete success state (`terminal_state_is_complete`): all threads have
    finished, every call that was started has completed, ran exactly once, its record was freed exactly once. -/
theorem join_eventually_of_measure {α : Type} (μ : State → α) (r : α → α → Prop) (hwfr : WellFounded r)
    (isSpin : State → Tid → Prop)
    (hdec : ∀ (s s' : State) (t : Tid) (o : List String), Reach cfg s → step s t = some (s', o) →
      r (μ s') (μ s) ∨ (s' = s ∧ isSpin s t))
    (hholder : ∀ (s : State) (t : Tid), Reach cfg s → enabled s t = true → isSpin s t →
      ∃ u, enabled s u = true ∧ ¬ isSpin s u)
    (hrep : cfg.repaired = true) (hwf : cfg.WellFormed) (hf : FairRun cfg σ run) :
    ∃ n, (∀ t th, (run n).threads t = some th → th.finished = true) ∧
      (∀ c, c < (run n).nextCall →
        (run n).completed c = true ∧ (run n).execCount c = 1 ∧ (run n).freeCount c = 1) := by
  obtain ⟨n, hn⟩ := fair_runs_terminate_of_measure μ r hwfr isSpin hdec hholder hf
  exact ⟨n, terminal_state_is_complete hrep hwf (run_reach hf n) hn⟩

/-- a terminal state of a run is permanent: once no thread is enabled the run stays in that state -/
theorem terminal_is_permanent (hf : FairRun cfg σ run) {n : Nat} (hn : ∀ t, enabled (run n) t = false) :
    ∀ m, n ≤ m → run m = run n := by
  intro m hm
  induction m with
  | zero => have : n = 0 := by omega
            subst this; rfl
  | succ m ih =>
    by_cases hnm : n = m + 1
    · subst hnm; rfl
    · have hm' := ih (by omega)
      rcases hf.next m with ⟨o, h⟩ | ⟨_, h⟩
      · have := enabled_of_step h
        rw [hm', hn] at this; cases this
      · rw [h]; exact hm'

end Nstd.Future
