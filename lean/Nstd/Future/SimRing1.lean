/-
  Simulation of the ring system by the full Future/ThreadPool model, part 1:
  the generic shape of one micro-step (`Shape1`): which threads change, what the new stack of the
  stepping thread looks like, monotonicity of the "pool alive" flag.
-/
import Nstd.Future.Spec
import Nstd.Future.RingLemmas
namespace Nstd.Future

/-- frames that may only ever be the TOP frame of a stack -/
def special : Frame → Bool
  | .ring _ | .mInit => true
  | _ => false

/-- a freshly created thread -/
def FreshTh (o : Option Thread) : Prop :=
  ∃ thw x, o = some thw ∧ thw.stack = [.tStart, x] ∧ special x = false ∧ thw.finished = false

/-- no special frame in the list -/
def NoSpec (l : List Frame) : Prop := ∀ f ∈ l, special f = false

theorem noSpec_nil : NoSpec [] := by intro f hf; cases hf
theorem noSpec_cons {a : Frame} {l : List Frame} : NoSpec (a :: l) ↔ special a = false ∧ NoSpec l := by
  simp [NoSpec]
theorem noSpec_append {l r : List Frame} : NoSpec (l ++ r) ↔ NoSpec l ∧ NoSpec r := by
  simp only [NoSpec, List.mem_append]
  constructor
  · intro h; exact ⟨fun f hf => h f (Or.inl hf), fun f hf => h f (Or.inr hf)⟩
  · intro h f hf; rcases hf with hf | hf
    · exact h.1 f hf
    · exact h.2 f hf
theorem NoSpec.tail {l : List Frame} (h : NoSpec l) : NoSpec l.tail :=
  fun f hf => h f (List.mem_of_mem_tail hf)
theorem NoSpec.head_ne {l : List Frame} (h : NoSpec l) : l.head? ≠ some .mInit := by
  cases l with
  | nil => simp
  | cons a l =>
    intro h1; simp only [List.head?_cons, Option.some.injEq] at h1; subst h1
    have := h .mInit (List.mem_cons_self ..); simp [special] at this

structure Shape1 (s s' : State) (t : Tid) : Prop where
  cfg : s'.cfg = s.cfg
  self : ∃ th', s'.threads t = some th' ∧ NoSpec th'.stack.tail ∧
      th'.stack.head? ≠ some .mInit ∧ (th'.finished = true → th'.stack = [])
  others : ∀ u, u ≠ t → s'.threads u = s.threads u ∨
      (u = s.nthreads ∧ s'.nthreads = s.nthreads + 1 ∧ FreshTh (s'.threads u))
  nth : s.nthreads ≤ s'.nthreads
  live : (s'.sigs 0).live = true → (s.sigs 0).live = true
  tp : (s'.sigs 0).live = true → s.tp = true → s'.tp = true

theorem upd_same {β : Type} (f : Nat → β) (i : Nat) (v : β) : upd f i v i = v := by simp [upd]
theorem upd_ne {β : Type} (f : Nat → β) {i j : Nat} (v : β) (h : j ≠ i) : upd f i v j = f j := by
  simp [upd, h]

set_option maxHeartbeats 4000000 in
theorem shape1 (s : State) (t : Tid) (th : Thread) (fr : Frame) (rest : List Frame)
    (hth : s.threads t = some th) (hst : th.stack = fr :: rest) (hfin : th.finished = false)
    (hrest : NoSpec rest) :
    Shape1 s (stepFrame s t th fr).1 t := by
  have hrt := hrest.tail
  have hhd := hrest.head_ne
  cases fr <;> simp only [stepFrame] <;> repeat' split
  all_goals
    constructor
    · simp [setThread, setSig, setPool, setFut, withFault, destroySig]
    · simp [setThread, setSig, setPool, setFut, withFault, destroySig, upd_same, Thread.cont, hst, hth, hfin, special, hrest, hrt, hhd, noSpec_cons, noSpec_nil]
    · intro u hu
      simp [setThread, setSig, setPool, setFut, withFault, destroySig, upd_ne _ _ hu]
      try (by_cases hw : u = s.nthreads
           · right; subst hw; exact ⟨rfl, ⟨_, _, by rw [upd_same], rfl, rfl, rfl⟩⟩
           · left; exact upd_ne _ _ hw)
    · simp [setThread, setSig, setPool, setFut, withFault, destroySig]
    · simp [setThread, setSig, setPool, setFut, withFault, destroySig, upd]
      try grind
    · simp [setThread, setSig, setPool, setFut, withFault, destroySig, upd]
      try grind

/-- top-of-stack ring program counter -/
def ringTop : List Frame → Option (RingPc Job)
  | .ring pc :: _ => some pc
  | _ => none

theorem ringPcOf_eq (th : Thread) : ringPcOf th = ringTop th.stack := rfl
theorem ringTop_ring (pc : RingPc Job) (l : List Frame) : ringTop (.ring pc :: l) = some pc := rfl
theorem ringTop_nil : ringTop [] = none := rfl
theorem ringTop_cons_of {a : Frame} (l : List Frame) (h : special a = false) : ringTop (a :: l) = none := by
  cases a <;> first | rfl | (simp [special] at h)
theorem NoSpec.ringTop {l : List Frame} (h : NoSpec l) : ringTop l = none := by
  cases l with
  | nil => rfl
  | cons a l => exact ringTop_cons_of l (h a (List.mem_cons_self ..))
theorem FreshTh.ringPc {o : Option Thread} (h : FreshTh o) :
    (match o with | some th => ringPcOf th | none => none) = none := by
  obtain ⟨thw, x, rfl, h2, _, _⟩ := h
  simp only [ringPcOf_eq, h2]; rfl

/-- frames whose step neither touches the ring, nor pushes a ring frame, nor creates / deletes the pool -/
def plain : Frame → Bool
  | .ring _ | .runStart _ | .runPush2 _ | .runRetChk | .wPop1 | .wPop2 | .dPush _ | .dPush2 _ => false
  | .mInit | .cRdTp2 _ | .dFin => false
  | _ => true

structure Shape2 (s s' : State) (t : Tid) : Prop where
  self : ∃ th', s'.threads t = some th' ∧ ringPcOf th' = none
  pool : s'.pool.map (·.ring) = s.pool.map (·.ring)

set_option maxHeartbeats 4000000 in
theorem shape2 (s : State) (t : Tid) (th : Thread) (fr : Frame) (rest : List Frame)
    (hth : s.threads t = some th) (hst : th.stack = fr :: rest)
    (hrest : NoSpec rest) (hpl : plain fr = true) :
    Shape2 s (stepFrame s t th fr).1 t := by
  have hrt := hrest.ringTop
  cases fr <;> simp only [plain, Bool.false_eq_true] at hpl <;> simp only [stepFrame] <;> repeat' split
  all_goals
    constructor
    · simp [setThread, setSig, setPool, setFut, withFault, destroySig, upd_same, Thread.cont, hst, hth, hrt, ringPcOf_eq]
      try rfl
    · simp [setThread, setSig, setPool, setFut, withFault, destroySig, setFsState]
      try grind

end Nstd.Future
