import Nstd.Future.Ring
/-
  Executable model of `Future<A>` + `Future<void>::Private::ThreadPool` (include/nstd/Future.hpp,
  src/Future.cpp) over `Signal` (src/Signal.cpp) at the granularity "one shared-memory access or
  one POSIX call per step".  A thread's control state is a stack of frames (program counters with
  their locals); `step s t` executes the next micro-step of thread `t` (`none` = `t` does not exist,
  has finished or is blocked).  Schedules are lists of thread ids; every interleaving of the real
  code under sequentially consistent atomics is a schedule of this system.

  With `cfg.repaired = true` the model follows the REPAIRED code (fixes/future/000{1,2,3,4,5}-*.patch, fixes/sync/0001-*.patch:
  `FastSignal::reset` always clears the Signal and re-signals when `_state` is set again; the retire path of `run` sets the enqueued signal; a terminating
  worker sets it before leaving; `~ThreadPool` queues `_threadCount` terminate jobs; `Signal::set` broadcasts before it unlocks); with `false` the original code (negation witnesses of the defects).

  Simulated POSIX layer (assumed semantics, identical to harness/future/sched.cpp): mutex
  (owner), condition variable (wait set; `broadcast` wakes all current waiters; budgeted spurious
  wake-ups), thread create/join/exit, a virtual monotone clock advanced by each reading.
-/
namespace Nstd.Future

abbrev Tid := Nat
/-- a queued job: `some c` = run call record `c`, `none` = the terminate job `{0, 0}` -/
abbrev Job := Option Nat

def upd {β : Type} (f : Nat → β) (i : Nat) (v : β) : Nat → β := fun j => if j = i then v else f j

/-- `Signal`: pthread mutex + condition variable + flag -/
structure SigSt where
  owner : Option Tid := none
  signaled : Bool := false
  waiters : List Tid := []       -- in the wait set of the condition variable, not yet woken
  live : Bool := true            -- false after ~Signal
  gen : Nat := 0                 -- incarnation of the object at this address (a destroyed and re-created Signal is a new object)

structure Ctx where
  id : Nat                       -- identity of the ThreadContext object (its address in the PoolList)
  tid : Option Tid               -- the worker thread once `_thread.start` has run
  terminated : Bool

structure Pool where
  minT : Nat
  maxT : Nat
  ring : Ring Job
  enq : Nat                      -- _enqueuedSignal._state   (its Signal is signal 0)
  deq : Nat                      -- _dequeuedSignal._state   (its Signal is signal 1)
  pushed : Nat
  processed : Nat
  threadCount : Nat
  idleReset : Nat
  mOwner : Option Tid            -- _mutex
  ctxs : List Ctx                -- _threads
  nextCtx : Nat

structure Fut where
  aborting : Bool := false
  state : Nat := 0               -- idleState 0, runningState 1, finishedState 2, abortedState 3
  joinable : Bool := false
  result : Option Int := none    -- `result` member of Future<A>; none = never stored
  curCall : Option Nat := none   -- ghost: the call record of the latest start (set when startProc arms the future)
  abortReq : Bool := false       -- ghost: abort() was called since the latest start armed the future

structure CallRec where
  a : Int
  b : Int
  fut : Nat                      -- future id: 0..7 = Future<int> f<k>, 8..15 = Future<void> g<k-8>

inductive ClientOp where
  | start (f : Nat) (a b : Int)
  | join (f : Nat) | result (f : Nat) | abort (f : Nat) | query (f : Nat) | destroy (f : Nat)

inductive Frame where
  -- Signal::set / reset / wait on signal σ
  | sSetLock (σ : Nat) | sSetStore (σ : Nat) | sSetUnlock (σ : Nat) | sSetBcast (σ : Nat) (gen : Nat)
  | sRstLock (σ : Nat) | sRstStore (σ : Nat) | sRstUnlock (σ : Nat)
  | sWaitLock (σ : Nat) | sWaitChk (σ : Nat) | sWaitUnlock (σ : Nat) | sWaitCwait (σ : Nat)
  | sWaitCwake (σ : Nat) | sWaitRelock (σ : Nat)
  -- FastSignal::set / reset / wait   (fs = 0 enqueued, 1 dequeued)
  | fSet (fs : Nat) | fRst (fs : Nat) | fRstLoad (fs : Nat) | fWait (fs : Nat)
  -- LockFreeQueue::push / pop
  | ring (pc : RingPc Job)
  -- ThreadPool::run
  | runStart (j : Job) | runChk1 (j : Job) | runPush2 (j : Job) | runChk2 (j : Job) | runSet
  | runAdd | runRdProc (p : Nat) | runRdTc (busy : Int) | runClk1 | runClk2 (tc : Nat) | runClk3
  | runSpLock | runSpChk | runSpUnlock (ctx : Option Nat) | runSpStart (ctx : Nat) | runSpawned (w : Tid)
  | runRetLock | runRetChk | runRetAfter | runRetUnlock
  | cleanAt (i : Nat) | cleanJoin (i : Nat) (w : Tid)
  -- ThreadContext::proc
  | wPop1 | wChk1 | wPop2 | wChk2 | wDeq | wDispatch | wAdd | wTerm
  -- Future<A>::proc
  | pCall (c : Nat) | pBody (c : Nat) | pStore (c : Nat) | pSetRd (c : Nat) | pSetX (c : Nat) (ab : Bool)
  | pSig (c : Nat) | pDelete (c : Nat)
  -- client thread
  | cNext | cRdTp (c : Nat) | cSpin (c : Nat) | cRdTp2 (c : Nat) | cSwapTp (c : Nat) | cUnlockTp (c : Nat)
  | cJoin (c : Nat) | cArm (c : Nat) | cStarted (f : Nat) (a : Int)
  | join (f : Nat) | joinClr (f : Nat) | evJoined (f : Nat) | evResult (f : Nat) | destroyF (f : Nat)
  | cEnd (f : Nat)
  -- main thread
  | mInit | mSpawn (i : Nat) | mSpawned (i : Nat) (w : Tid) | mJoin (i : Nat) | mDel
  | dPush (i : Nat) | dChk1 (i : Nat) | dPush2 (i : Nat) | dChk2 (i : Nat) | dSet (i : Nat) | dJoin (i : Nat) | dFin
  | tStart | tExit

structure Thread where
  stack : List Frame
  finished : Bool := false
  retB : Bool := false                   -- result of the last push/pop
  retJob : Job := none                   -- job delivered by the last successful pop
  jobTicket : Nat := 0                   -- ghost: ring ticket of the last successful pop
  script : List ClientOp := []
  used : List Nat := []                  -- futures this client has started (destroyed at its end)
  isWorker : Bool := false

structure Config where
  q : Nat
  minT : Nat
  maxT : Nat
  lazy : Bool
  tick : Nat
  spurious : Nat
  repaired : Bool
  scripts : List (List ClientOp)

structure State where
  cfg : Config
  threads : Nat → Option Thread
  nthreads : Nat
  sigs : Nat → SigSt
  pool : Option Pool
  tp : Bool                       -- Private::_threadPool != 0
  tplock : Nat
  futs : Nat → Fut
  calls : Nat → Option CallRec
  nextCall : Nat
  clientTids : List Tid           -- threads created by the main thread, in creation order
  spurious : Nat
  clockCalls : Nat
  -- ghost
  execCount : Nat → Nat           -- how often the body of call c ran
  execArgs : Nat → Option (Int × Int)
  freeCount : Nat → Nat           -- how often record c was deleted
  everCalls : Nat → Option CallRec  -- the record as allocated by start (never erased)
  completed : Nat → Bool          -- the worker has published the state of call c (after body and result store)
  dispatched : List Nat           -- ring tickets whose job a worker has taken to dispatch, in dispatch order
  fault : Option String           -- the model detected an illegal access (raw slot read, freed record, destroyed signal ...)

def futName (f : Nat) : String := if f < 8 then s!"f{f}" else s!"g{f - 8}"
def sigName (σ : Nat) : String := if σ = 0 then "enq" else if σ = 1 then "deq" else futName (σ - 2)
def fsName (fs : Nat) : String := if fs = 0 then "enq" else "deq"

def mkPool (q minT maxT : Nat) : Pool :=
  { minT := minT, maxT := if maxT < 3 then 3 else maxT, ring := Ring.init (ceilPow2 q),
    enq := 0, deq := 0, pushed := 0, processed := 0, threadCount := 0, idleReset := 0, mOwner := none, ctxs := [], nextCtx := 0 }

def State.init (cfg : Config) : State :=
  { cfg := cfg,
    threads := fun t => if t = 0 then some { stack := [Frame.mInit] } else none,
    nthreads := 1, sigs := fun _ => {}, pool := none, tp := false, tplock := 0,
    futs := fun _ => {}, calls := fun _ => none, nextCall := 0, clientTids := [], spurious := cfg.spurious, clockCalls := 0,
    execCount := fun _ => 0, execArgs := fun _ => none, freeCount := fun _ => 0, everCalls := fun _ => none,
    completed := fun _ => false, dispatched := [], fault := none }

/-- virtual clock: `Time::ticks()` in ms; every reading advances it by `tick` -/
def clockMs (s : State) : Nat := 5000 + s.clockCalls * s.cfg.tick

/-- is the next action of this frame a scheduling point of the controlled scheduler (POSIX call / atomic op)? -/
def Frame.isSync : Frame → Bool
  | .sSetLock _ | .sSetUnlock _ | .sSetBcast _ _ | .sRstLock _ | .sRstUnlock _ => true
  | .sWaitLock _ | .sWaitUnlock _ | .sWaitCwait _ | .sWaitCwake _ | .sWaitRelock _ => true
  | .fSet _ | .fRst _ => true
  | .ring (.pushCas _ _) | .ring (.pushPub _ _) | .ring (.popCas _) | .ring (.popRel _ _) => true
  | .runAdd | .runSpLock | .runSpUnlock _ | .runSpawned _ | .runRetLock | .runRetUnlock | .cleanJoin _ _ => true
  | .wAdd | .pBody _ | .pSetX _ _ | .cSpin _ | .cSwapTp _ => true
  | .mSpawned _ _ | .mJoin _ | .dJoin _ | .tStart | .tExit => true
  | _ => false

/-- blocked = the frame is a scheduling point whose operation cannot complete now -/
def blockedFrame (s : State) (t : Tid) : Frame → Bool
  | .sSetLock σ | .sRstLock σ | .sWaitLock σ | .sWaitRelock σ => (s.sigs σ).owner.isSome
  | .sWaitCwake σ => (s.sigs σ).waiters.contains t && s.spurious == 0
  | .runSpLock | .runRetLock => match s.pool with
      | some p => p.mOwner.isSome
      | none => false
  | .cleanJoin _ w => match s.threads w with
      | some th => !th.finished
      | none => false
  | .mJoin i => match s.clientTids[i]? with
      | some w => match s.threads w with
        | some th => !th.finished
        | none => false
      | none => false
  | .dJoin i => match s.pool with
      | some p => match p.ctxs[i]? with
        | some { tid := some w, .. } => match s.threads w with
          | some th => !th.finished
          | none => false
        | _ => false
      | none => false
  | _ => false

structure Out where
  lines : List String := []

def setThread (s : State) (t : Tid) (th : Thread) : State := { s with threads := upd s.threads t (some th) }

/-- replace the top frame of `th` by `fs` -/
def Thread.cont (th : Thread) (fs : List Frame) : Thread := { th with stack := fs ++ th.stack.drop 1 }

def opLine (op obj : String) (res : Int) : String := s!"O {op} {obj} {res}"

def setSig (s : State) (σ : Nat) (g : SigSt) : State := { s with sigs := upd s.sigs σ g }
def setPool (s : State) (p : Pool) : State := { s with pool := some p }
def setFut (s : State) (f : Nat) (x : Fut) : State := { s with futs := upd s.futs f x }
def withFault (s : State) (msg : String) : State := { s with fault := some (s.fault.getD msg) }

def fsState (p : Pool) (fs : Nat) : Nat := if fs = 0 then p.enq else p.deq
def setFsState (p : Pool) (fs : Nat) (v : Nat) : Pool := if fs = 0 then { p with enq := v } else { p with deq := v }

def slotOf (p : Pool) (ticket : Nat) : Nat := ticket % p.ring.cap

/-- O-line of a ring micro-step that is an atomic operation -/
def ringOpLine (p : Pool) : RingPc Job → List String
  | .pushCas _ _ => [opLine "cas" "q.tail" p.ring.tail]
  | .pushPub _ t => [opLine "xchg" s!"slot{slotOf p t}.head" (match (p.ring.slots (slotOf p t)).headT with | some h => (h : Int) | none => -1)]
  | .popCas _ => [opLine "cas" "q.head" p.ring.head]
  | .popRel h _ => [opLine "xchg" s!"slot{slotOf p h}.tail" (p.ring.slots (slotOf p h)).tailT]
  | _ => []

def destroySig (s : State) (σ : Nat) (t : Tid) : State × List String :=
  let g := s.sigs σ
  let l1 := if g.waiters.isEmpty then [] else [s!"X cond-destroyed-with-waiters {sigName σ}.c by={t}"]
  let l2 := match g.owner with
    | some o => [s!"X mutex-destroyed-while-locked {sigName σ}.m owner={o} by={t}"]
    | none => []
  (setSig s σ { g with live := false, owner := none }, l1 ++ l2)

/-- one micro-step of thread `t` (top frame `fr`, thread record `th`, not blocked) -/
def stepFrame (s : State) (t : Tid) (th : Thread) (fr : Frame) : State × List String :=
  let ret := fun (s : State) (th : Thread) => setThread s t (th.cont [])
  let go := fun (s : State) (fs : List Frame) => setThread s t (th.cont fs)
  match fr with
  -- ---------------- Signal::set
  | .sSetLock σ => (go (setSig s σ { s.sigs σ with owner := some t }) [.sSetStore σ], [opLine "lock" s!"{sigName σ}.m" 0])
  | .sSetStore σ =>
      (go (setSig s σ { s.sigs σ with signaled := true }) (if s.cfg.repaired then [.sSetBcast σ (s.sigs σ).gen] else [.sSetUnlock σ]), [])
  | .sSetUnlock σ =>
      (go (setSig s σ { s.sigs σ with owner := none }) (if s.cfg.repaired then [] else [.sSetBcast σ (s.sigs σ).gen]), [opLine "unlock" s!"{sigName σ}.m" 0])
  | .sSetBcast σ gen =>
      let g := s.sigs σ
      let x := if g.live ∧ g.gen = gen then [] else [s!"X broadcast-on-destroyed-cond {sigName σ}.c by={t}"]
      (go (setSig s σ { g with waiters := [] }) (if s.cfg.repaired then [.sSetUnlock σ] else []), x ++ [opLine "bcast" s!"{sigName σ}.c" g.waiters.length])
  -- ---------------- Signal::reset
  | .sRstLock σ => (go (setSig s σ { s.sigs σ with owner := some t }) [.sRstStore σ], [opLine "lock" s!"{sigName σ}.m" 0])
  | .sRstStore σ => (go (setSig s σ { s.sigs σ with signaled := false }) [.sRstUnlock σ], [])
  | .sRstUnlock σ => (ret (setSig s σ { s.sigs σ with owner := none }) th, [opLine "unlock" s!"{sigName σ}.m" 0])
  -- ---------------- Signal::wait
  | .sWaitLock σ => (go (setSig s σ { s.sigs σ with owner := some t }) [.sWaitChk σ], [opLine "lock" s!"{sigName σ}.m" 0])
  | .sWaitChk σ => if (s.sigs σ).signaled then (go s [.sWaitUnlock σ], []) else (go s [.sWaitCwait σ], [])
  | .sWaitUnlock σ => (ret (setSig s σ { s.sigs σ with owner := none }) th, [opLine "unlock" s!"{sigName σ}.m" 0])
  | .sWaitCwait σ =>
      let g := s.sigs σ
      (go (setSig s σ { g with owner := none, waiters := g.waiters ++ [t] }) [.sWaitCwake σ], [opLine "cwait" s!"{sigName σ}.c" 0])
  | .sWaitCwake σ =>
      let g := s.sigs σ
      if g.waiters.contains t then   -- spurious wake-up (budgeted)
        (go { (setSig s σ { g with waiters := g.waiters.filter (· ≠ t) }) with spurious := s.spurious - 1 } [.sWaitRelock σ],
          [opLine "cwake" s!"{sigName σ}.c" 1])
      else (go s [.sWaitRelock σ], [opLine "cwake" s!"{sigName σ}.c" 0])
  | .sWaitRelock σ => (go (setSig s σ { s.sigs σ with owner := some t }) [.sWaitChk σ], [opLine "relock" s!"{sigName σ}.m" 0])
  -- ---------------- FastSignal
  | .fSet fs => match s.pool with
      | none => (withFault s "no pool", [])
      | some p =>
        let old := fsState p fs
        let s' := setPool s (setFsState p fs 1)
        (if old = 0 then setThread s' t (th.cont [.sSetLock fs]) else setThread s' t (th.cont []), [opLine "xchg" s!"{fsName fs}.state" old])
  | .fRst fs => match s.pool with
      | none => (withFault s "no pool", [])
      | some p =>
        let old := fsState p fs
        let s' := setPool s (setFsState p fs 0)
        (if s.cfg.repaired then setThread s' t (th.cont [.sRstLock fs, .fRstLoad fs])   -- repaired (fix 0005): reset() always clears the Signal
          else if old = 1 then setThread s' t (th.cont [.sRstLock fs])
          else setThread s' t (th.cont []), [opLine "xchg" s!"{fsName fs}.state" old])
  | .fRstLoad fs => match s.pool with       -- repaired code only: `if(Atomic::load(_state)) _signal.set();`
      | none => (withFault s "no pool", [])
      | some p => if fsState p fs ≠ 0 then (go s [.sSetLock fs], []) else (ret s th, [])
  | .fWait fs => match s.pool with
      | none => (withFault s "no pool", [])
      | some p => if fsState p fs ≠ 0 then (ret s th, []) else (go s [.sWaitLock fs], [])
  -- ---------------- LockFreeQueue
  | .ring pc => match s.pool with
      | none => (withFault s "no pool", [])
      | some p =>
        let line := ringOpLine p pc
        let (r', res) := ringStep p.ring pc
        let s' := setPool s { p with ring := r' }
        match res with
        | .cont pc' => (setThread s' t (th.cont [.ring pc']), line)
        | .pushed ok => (setThread s' t ({ th with retB := ok }.cont []), line)
        | .popped none => (setThread s' t ({ th with retB := false }.cont []), line)
        | .popped (some (some j)) =>
          (setThread s' t ({ th with retB := true, retJob := j, jobTicket := (match pc with | .popRel h _ => h | _ => 0) }.cont []), line)
        | .popped (some none) => (withFault (setThread s' t ({ th with retB := true, retJob := none }.cont [])) "pop read a raw slot", line)
  -- ---------------- ThreadPool::run
  | .runStart j => (go s [.ring (.pushRead j), .runChk1 j], [])
  | .runChk1 j => if th.retB then (go s [.runSet], []) else (go s [.fRst 1, .runPush2 j], [])
  | .runPush2 j => (go s [.ring (.pushRead j), .runChk2 j], [])
  | .runChk2 j => if th.retB then (go s [.runSet], []) else (go s [.fWait 1, .runStart j], [])
  | .runSet => (go s [.fSet 0, .runAdd], [])
  | .runAdd => match s.pool with
      | none => (withFault s "no pool", [])
      | some p => (go (setPool s { p with pushed := p.pushed + 1 }) [.runRdProc (p.pushed + 1)], [opLine "add" "pushed" (p.pushed + 1)])
  | .runRdProc pj => match s.pool with
      | none => (withFault s "no pool", [])
      | some p => (go s [.runRdTc ((pj : Int) - p.processed)], [])
  | .runRdTc busy => match s.pool with
      | none => (withFault s "no pool", [])
      | some p =>
        let tc := p.threadCount
        let idle : Int := (tc : Int) - busy
        if idle = 1 then (go s [.runClk1], [])
        else if idle ≤ 0 then (go s [.runClk2 tc], [])
        else if idle > 1 ∧ tc > p.minT then (go s [.runClk3], [])
        else (ret s th, [])
  | .runClk1 => match s.pool with
      | none => (withFault s "no pool", [])
      | some p => (ret { (setPool s { p with idleReset := clockMs s / 1024 }) with clockCalls := s.clockCalls + 1 } th, [])
  | .runClk2 tc => match s.pool with
      | none => (withFault s "no pool", [])
      | some p =>
        let s' := { (setPool s { p with idleReset := clockMs s / 1024 }) with clockCalls := s.clockCalls + 1 }
        if tc < p.maxT then (setThread s' t (th.cont [.runSpLock]), []) else (setThread s' t (th.cont []), [])
  | .runClk3 => match s.pool with
      | none => (withFault s "no pool", [])
      | some p =>
        let now := clockMs s / 1024
        let s' := { s with clockCalls := s.clockCalls + 1 }
        if now - p.idleReset > 1 then (setThread s' t (th.cont [.runRetLock]), []) else (setThread s' t (th.cont []), [])
  | .runSpLock => match s.pool with
      | none => (withFault s "no pool", [])
      | some p => (go (setPool s { p with mOwner := some t }) [.cleanAt 0, .runSpChk], [opLine "lock" "pool.m" 0])
  | .cleanAt i => match s.pool with
      | none => (withFault s "no pool", [])
      | some p => match p.ctxs[i]? with
        | none => (ret s th, [])
        | some c =>
          if c.terminated then
            match c.tid with
            | some w => (go s [.cleanJoin i w], [])
            | none => (go (setPool s { p with ctxs := p.ctxs.eraseIdx i }) [.cleanAt i], [])
          else (go s [.cleanAt (i + 1)], [])
  | .cleanJoin i w => match s.pool with
      | none => (withFault s "no pool", [])
      | some p => (go (setPool s { p with ctxs := p.ctxs.eraseIdx i }) [.cleanAt i], [opLine "join" "thread" w])
  | .runSpChk => match s.pool with
      | none => (withFault s "no pool", [])
      | some p =>
        if p.threadCount < p.maxT then
          let s' := setPool s { p with threadCount := p.threadCount + 1, nextCtx := p.nextCtx + 1,
                                       ctxs := p.ctxs ++ [{ id := p.nextCtx, tid := none, terminated := false }] }
          (setThread s' t (th.cont [.runSpUnlock (some p.nextCtx)]), [])
        else (go s [.runSpUnlock none], [])
  | .runSpUnlock ctx => match s.pool with
      | none => (withFault s "no pool", [])
      | some p =>
        (go (setPool s { p with mOwner := none }) (match ctx with | some k => [.runSpStart k] | none => []), [opLine "unlock" "pool.m" 0])
  | .runSpStart k => match s.pool with
      | none => (withFault s "no pool", [])
      | some p =>
        let w := s.nthreads
        let ctxs := p.ctxs.map (fun c => if c.id = k then { c with tid := some w } else c)
        let s' := { (setPool s { p with ctxs := ctxs }) with
                    threads := upd s.threads w (some { stack := [.tStart, .wPop1], isWorker := true }), nthreads := w + 1 }
        (setThread s' t (th.cont [.runSpawned w]), [s!"E {t} create t{w}"])
  | .runSpawned w => (ret s th, [opLine "spawned" "thread" w])
  | .runRetLock => match s.pool with
      | none => (withFault s "no pool", [])
      | some p => (go (setPool s { p with mOwner := some t }) [.runRetChk], [opLine "lock" "pool.m" 0])
  | .runRetChk => match s.pool with
      | none => (withFault s "no pool", [])
      | some p =>
        if p.threadCount > p.minT then (go s [.ring (.pushRead none), .runRetAfter], [])
        else (go s [.cleanAt 0, .runRetUnlock], [])
  | .runRetAfter => match s.pool with
      | none => (withFault s "no pool", [])
      | some p =>
        if th.retB then
          (go (setPool s { p with threadCount := p.threadCount - 1 })
            (if s.cfg.repaired then [.fSet 0, .cleanAt 0, .runRetUnlock] else [.cleanAt 0, .runRetUnlock]), [])
        else (go s [.cleanAt 0, .runRetUnlock], [])
  | .runRetUnlock => match s.pool with
      | none => (withFault s "no pool", [])
      | some p => (ret (setPool s { p with mOwner := none }) th, [opLine "unlock" "pool.m" 0])
  -- ---------------- worker
  | .wPop1 => (go s [.ring .popRead, .wChk1], [])
  | .wChk1 => if th.retB then (go s [.wDeq], []) else (go s [.fRst 0, .wPop2], [])
  | .wPop2 => (go s [.ring .popRead, .wChk2], [])
  | .wChk2 => if th.retB then (go s [.wDeq], []) else (go s [.fWait 0, .wPop1], [])
  | .wDeq => (go s [.fSet 1, .wDispatch], [])
  | .wDispatch =>
      let s := { s with dispatched := s.dispatched ++ [th.jobTicket] }
      match th.retJob with
      | some c => (setThread s t (th.cont [.pCall c, .wAdd]), [])
      | none => (setThread s t (th.cont (if s.cfg.repaired then [.fSet 0, .wTerm] else [.wTerm])), [])
  | .wAdd => match s.pool with
      | none => (withFault s "no pool", [])
      | some p => (go (setPool s { p with processed := p.processed + 1 }) [.wPop1], [opLine "add" "processed" (p.processed + 1)])
  | .wTerm => match s.pool with
      | none => (withFault s "no pool", [])
      | some p =>
        let ctxs := p.ctxs.map (fun c => if c.tid = some t then { c with terminated := true } else c)
        (go (setPool s { p with ctxs := ctxs }) [.tExit], [])
  -- ---------------- Future<A>::proc
  | .pCall c => match s.calls c with
      | none => (withFault s "call record used after delete", [])
      | some r =>
        (go { s with execCount := upd s.execCount c (s.execCount c + 1), execArgs := upd s.execArgs c (some (r.a, r.b)) } [.pBody c],
          [s!"E {t} exec {r.a} {r.b}"])
  | .pBody c => match s.calls c with
      | none => (withFault s "call record used after delete", [])
      | some r => (go s [.pStore c], [opLine "body" "body" r.a])
  | .pStore c => match s.calls c with
      | none => (withFault s "call record used after delete", [])
      | some r =>
        if r.fut < 8 then (go (setFut s r.fut { s.futs r.fut with result := some (r.a * 100 + r.b) }) [.pSetRd c], [])
        else (go s [.pSetRd c], [])
  | .pSetRd c => match s.calls c with
      | none => (withFault s "call record used after delete", [])
      | some r => (go s [.pSetX c (s.futs r.fut).aborting], [])
  | .pSetX c ab => match s.calls c with
      | none => (withFault s "call record used after delete", [])
      | some r =>
        let f := s.futs r.fut
        (go { (setFut s r.fut { f with state := if ab then 3 else 2 }) with completed := upd s.completed c true } [.pSig c],
          [opLine "xchg" s!"{futName r.fut}.state" f.state])
  | .pSig c => match s.calls c with
      | none => (withFault s "call record used after delete", [])
      | some r => (go s [.sSetLock (r.fut + 2), .pDelete c], [])
  | .pDelete c => match s.calls c with
      | none => (withFault { s with freeCount := upd s.freeCount c (s.freeCount c + 1) } "call record deleted twice", [])
      | some r =>
        (ret { s with calls := upd s.calls c none, freeCount := upd s.freeCount c (s.freeCount c + 1) } th, [s!"E {t} rec-del {r.a}"])
  -- ---------------- client
  | .cNext => match th.script with
      | [] => (setThread s t ({ th with script := [] }.cont [.cEnd 0]), [])
      | op :: rest =>
        let th := { th with script := rest }
        match op with
        | .start f a b =>
          let c := s.nextCall
          let s' := { s with calls := upd s.calls c (some { a := a, b := b, fut := f }), nextCall := c + 1, everCalls := upd s.everCalls c (some { a := a, b := b, fut := f }) }
          (setThread s' t ({ th with used := if th.used.contains f then th.used else th.used ++ [f] }.cont [.cRdTp c, .cStarted f a, .cNext]), [s!"E {t} rec-new {a}"])
        | .join f => (setThread s t (th.cont [.join f, .evJoined f, .cNext]), [])
        | .result f => (setThread s t (th.cont [.join f, .evResult f, .cNext]), [])
        | .abort f => (setThread (setFut s f { s.futs f with aborting := true, abortReq := true }) t (th.cont [.cNext]), [s!"E {t} abort {futName f}"])
        | .query f =>
          let x := s.futs f
          (setThread s t (th.cont [.cNext]),
            [s!"E {t} query {futName f} aborted={if x.state = 3 then 1 else 0} finished={if x.state = 2 then 1 else 0} aborting={if x.aborting then 1 else 0}"])
        | .destroy f => (setThread s t (th.cont [.join f, .destroyF f, .cNext]), [])
  | .cRdTp c => if s.tp then (go s [.cJoin c], []) else (go s [.cSpin c], [])
  | .cSpin c =>
      let old := s.tplock
      (go { s with tplock := 1 } [if old ≠ 0 then .cSpin c else .cRdTp2 c], [opLine "xchg" "tplock" old])
  | .cRdTp2 c =>
      if s.tp then (go s [.cUnlockTp c], [])
      else (go { s with pool := some (mkPool 0x100 0 4) } [.cSwapTp c], [])
  | .cSwapTp c => (go { s with tp := true } [.cUnlockTp c], [opLine "xchg" "tp" (if s.tp then 1 else 0)])
  | .cUnlockTp c => (go { s with tplock := 0 } [.cJoin c], [])
  | .cJoin c => match s.calls c with       -- startProc: join();
      | none => (withFault s "call record used after delete", [])
      | some r => (go s [.join r.fut, .cArm c], [])
  | .cArm c => match s.calls c with        -- _joinable = true; _aborting = false; threadPool->run(proc, args);
      | none => (withFault s "call record used after delete", [])
      | some r => (go (setFut s r.fut { s.futs r.fut with joinable := true, aborting := false, curCall := some c, abortReq := false }) [.runStart (some c)], [])
  | .cStarted f a => (ret s th, [s!"E {t} started {futName f} {a}"])
  | .join f =>
      if (s.futs f).joinable then (go s [.sWaitLock (f + 2), .sRstLock (f + 2), .joinClr f], []) else (ret s th, [])
  | .joinClr f => (ret (setFut s f { s.futs f with joinable := false }) th, [])
  | .evJoined f => (ret s th, [s!"E {t} joined {futName f}"])
  | .evResult f =>
      (ret s th, [s!"E {t} result {futName f} {match (s.futs f).result with | some v => toString v | none => "unset"}"])
  | .destroyF f =>
      let (s', x) := destroySig s (f + 2) t
      (ret { (setFut s' f {}) with sigs := upd s'.sigs (f + 2) { gen := (s.sigs (f + 2)).gen + 1 } } th, x ++ [s!"E {t} destroyed {futName f}"])
  | .cEnd k =>
      -- end of the client: its futures go out of scope in the order f0, g0, f1, g1, ...
      if k ≥ 16 then (go s [.tExit], [])
      else
        let f := if k % 2 = 0 then k / 2 else 8 + k / 2
        if th.used.contains f then (go s [.join f, .destroyF f, .cEnd (k + 1)], []) else (go s [.cEnd (k + 1)], [])
  -- ---------------- main thread
  | .mInit =>
      if s.cfg.lazy then (go s [.mSpawn 0], [])
      else (go { s with pool := some (mkPool s.cfg.q s.cfg.minT s.cfg.maxT), tp := true } [.mSpawn 0], [])
  | .mSpawn i => match s.cfg.scripts[i]? with
      | none => (go s [if s.cfg.scripts.isEmpty then .mDel else .mJoin 0], [])
      | some sc =>
        let w := s.nthreads
        let s' := { s with threads := upd s.threads w (some { stack := [.tStart, .cNext], script := sc }), nthreads := w + 1, clientTids := s.clientTids ++ [w] }
        (setThread s' t (th.cont [.mSpawned i w]), [s!"E {t} create t{w}"])
  | .mSpawned i w => (go s [.mSpawn (i + 1)], [opLine "spawned" "thread" w])
  | .mJoin i =>
      if i < s.cfg.scripts.length then
        (go s [if i + 1 < s.cfg.scripts.length then .mJoin (i + 1) else .mDel], [opLine "join" "thread" (s.clientTids.getD i 0)])
      else (go s [.mDel], [])
  | .mDel => match s.pool with
      | none => (go s [.tExit], [s!"E {t} clients-joined", s!"E {t} pool-deleted"])
      | some _ => (go s [.dPush 0], [s!"E {t} clients-joined"])
  | .dPush i => match s.pool with
      | none => (withFault s "no pool", [])
      | some p => if i < (if s.cfg.repaired then p.threadCount else p.ctxs.length) then (go s [.ring (.pushRead none), .dChk1 i], [])
        else (go s [if p.ctxs.isEmpty then .dFin else .dJoin 0], [])
  | .dChk1 i => if th.retB then (go s [.dSet i], []) else (go s [.fRst 1, .dPush2 i], [])
  | .dPush2 i => (go s [.ring (.pushRead none), .dChk2 i], [])
  | .dChk2 i => if th.retB then (go s [.dSet i], []) else (go s [.fWait 1, .dPush i], [])
  | .dSet i => (go s [.fSet 0, .dPush (i + 1)], [])
  | .dJoin i => match s.pool with
      | none => (withFault s "no pool", [])
      | some p => match p.ctxs[i]? with
        | none => (go s [.dFin], [])
        | some c => match c.tid with
          | some w => (go s [if i + 1 < p.ctxs.length then .dJoin (i + 1) else .dFin], [opLine "join" "thread" w])
          | none => (go s [if i + 1 < p.ctxs.length then .dJoin (i + 1) else .dFin], [])
  | .dFin =>
      let (s1, x1) := destroySig s 1 t
      let (s2, x2) := destroySig s1 0 t
      (setThread { s2 with pool := none, tp := false } t (th.cont [.tExit]), x1 ++ x2 ++ [s!"E {t} pool-deleted"])
  | .tStart => (ret s th, [opLine "start" "thread" 0])
  | .tExit => (setThread s t { th with stack := [], finished := true }, [opLine "exit" "thread" 0])

/-- thread `t` can take a step -/
def enabled (s : State) (t : Tid) : Bool :=
  match s.threads t with
  | none => false
  | some th => match th.stack with
    | [] => false
    | fr :: _ => !th.finished && !blockedFrame s t fr

/-- one micro-step of thread `t` -/
def step (s : State) (t : Tid) : Option (State × List String) :=
  match s.threads t with
  | none => none
  | some th => match th.stack with
    | [] => none
    | fr :: _ => if th.finished || blockedFrame s t fr then none else some (stepFrame s t th fr)

def topIsSync (s : State) (t : Tid) : Bool :=
  match s.threads t with
  | some { stack := fr :: _, finished := false, .. } => fr.isSync
  | _ => false

/-- run thread `t` through its thread-local / plain-access micro-steps until its next action is a scheduling point -/
def runOn : Nat → State → Tid → List String → State × List String
  | 0, s, _, acc => (withFault s "runOn: out of fuel", acc)
  | fuel + 1, s, t, acc =>
    match s.threads t with
    | some { stack := fr :: _, finished := false, .. } =>
      if fr.isSync then (s, acc)
      else match step s t with
        | some (s', o) => runOn fuel s' t (acc ++ o)
        | none => (s, acc)
    | _ => (s, acc)

/-- one step of the controlled scheduler: thread `t` performs its pending scheduling-point operation and runs on
    to its next scheduling point (exactly what the harness does between two `S` lines) -/
def macroStep (s : State) (t : Tid) : Option (State × List String) :=
  if topIsSync s t then
    match step s t with
    | some (s', o) => some (runOn 10000 s' t o)
    | none => none
  else none

/-- schedules of micro-steps -/
def runSched : State → List Tid → Option State
  | s, [] => some s
  | s, t :: ts => match step s t with
    | some (s', _) => runSched s' ts
    | none => none

inductive Reach (cfg : Config) : State → Prop where
  | init : Reach cfg (State.init cfg)
  | step {s s' : State} {o : List String} (t : Tid) : Reach cfg s → step s t = some (s', o) → Reach cfg s'

end Nstd.Future
