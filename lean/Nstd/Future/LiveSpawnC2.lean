/-
  Counters identity (C1) of the thread pool, part 2: the exact effect of one micro-step of a frame other than a
  `push`/`pop` frame on `_pushedJobs` + A-weight (`spcShapeA`) and on `_processedJobs` + X-weight (`spcShapeX`).
-/
import Nstd.Future.LiveSpawn1
set_option linter.unusedSimpArgs false
set_option linter.unusedVariables false
namespace Nstd.Future.SPC

open LS SP

def spcPu (s : State) : Nat := match s.pool with | some p => p.pushed | none => 0
def spcPr (s : State) : Nat := match s.pool with | some p => p.processed | none => 0

theorem setFsState_pushed (p : Pool) (fs v : Nat) : (setFsState p fs v).pushed = p.pushed := by
  unfold setFsState; split <;> rfl
theorem setFsState_processed (p : Pool) (fs v : Nat) : (setFsState p fs v).processed = p.processed := by
  unfold setFsState; split <;> rfl

set_option maxHeartbeats 32000000 in
/-- `_pushedJobs` + A-weight of the stepping thread is unchanged (`runAdd`: +1 −1) -/
theorem spcShapeA (s : State) (t : Tid) (th : Thread) (fr : Frame) (rest : List Frame)
    (hth : s.threads t = some th) (hst : th.stack = fr :: rest) (hnr : lsRingOf fr = none)
    (hrep : s.cfg.repaired = true) (hni : fr ≠ .mInit)
    (hnc : ∀ c, fr = .cRdTp2 c → s.tp = true)
    (h0 : fr = .tExit → ∀ rb ab, spAStk rb ab rest = 0) :
    (stepFrame s t th fr).1.pool.isSome = true →
      spcPu (stepFrame s t th fr).1 + spAAt (stepFrame s t th fr).1 t = spcPu s + spAAt s t := by
  cases fr
  case ring pc => cases hnr
  case mInit => exact absurd rfl hni
  case cRdTp2 c =>
    have htp := hnc c rfl
    rcases hp : s.pool with _ | p
    all_goals
      simp only [stepFrame, htp, if_true]
      simp [spcPu, spAAt, spAVal, spAW, hp, hth, hst, setThread, upd_same, Thread.cont, spAFr, lsRingOf]
  case tExit =>
    have h1 := h0 rfl
    rcases hp : s.pool with _ | p
    all_goals
      simp only [stepFrame]
      simp [spcPu, spAAt, spAVal, spAW, hp, hth, hst, setThread, upd_same, spAFr, lsRingOf, h1]
  all_goals
    rcases hp : s.pool with _ | p
  all_goals
    simp only [stepFrame, hp]
    repeat' split
  all_goals
    simp [spcPu, spAAt, spAVal, spAW, hp, hth, hst, hrep, setThread, setSig, setPool, setFut, withFault, destroySig,
      upd_same, Thread.cont, spAFr, lsRingOf, lsCapt, lsCaptPc, setFsState_pushed, *]
    try grind

set_option maxHeartbeats 32000000 in
/-- `_processedJobs` + X-weight of the stepping thread is unchanged (`wAdd`: +1 −1) -/
theorem spcShapeX (s : State) (t : Tid) (th : Thread) (fr : Frame) (rest : List Frame)
    (hth : s.threads t = some th) (hst : th.stack = fr :: rest) (hnr : lsRingOf fr = none)
    (hrep : s.cfg.repaired = true) (hni : fr ≠ .mInit)
    (hnc : ∀ c, fr = .cRdTp2 c → s.tp = true)
    (h0 : fr = .tExit → ∀ rb rj log ab, spXStk rb rj log ab rest = 0) :
    ∀ log, (stepFrame s t th fr).1.pool.isSome = true →
      spcPr (stepFrame s t th fr).1 + spXAt log (stepFrame s t th fr).1 t = spcPr s + spXAt log s t := by
  cases fr
  case ring pc => cases hnr
  case mInit => exact absurd rfl hni
  case cRdTp2 c =>
    have htp := hnc c rfl
    rcases hp : s.pool with _ | p
    all_goals
      simp only [stepFrame, htp, if_true]
      intro log
      simp [spcPr, spXAt, spXVal, spXW, hp, hth, hst, setThread, upd_same, Thread.cont, spXFr, lsRingOf]
  case tExit =>
    have h1 := h0 rfl
    rcases hp : s.pool with _ | p
    all_goals
      simp only [stepFrame]
      intro log
      simp [spcPr, spXAt, spXVal, spXW, hp, hth, hst, setThread, upd_same, spXFr, lsRingOf, h1]
  all_goals
    rcases hp : s.pool with _ | p
  all_goals
    simp only [stepFrame, hp]
    repeat' split
  all_goals
    intro log
    simp [spcPr, spXAt, spXVal, spXW, hp, hth, hst, hrep, setThread, setSig, setPool, setFut, withFault, destroySig,
      upd_same, Thread.cont, spXFr, spXRet, spXPc, lsRingOf, setFsState_processed, *]
    try grind

end Nstd.Future.SPC
