/-
  No lost wake-up on the worker side, part 1: vocabulary (the enqueued FastSignal as seen from a state,
  witnesses "busy supplier" / "looking consumer") and the stack discipline the argument needs:
    * `AdjOk`   what sits directly below a ring frame / a `FastSignal::reset` frame of the enqueued signal,
    * `HasLoop` every unfinished thread has a frame that never returns (so its stack is not empty),
    * `AllW`    a worker thread only runs worker code (its only `Signal::wait` is the one on signal 0).
  All three are preserved by every micro-step of the repaired model (`stk_reach`).
-/
import Nstd.Future.SimRing
import Nstd.Future.LiveSpec
set_option linter.unusedSimpArgs false
set_option linter.unusedVariables false
namespace Nstd.Future.LW

/-! ### the state as seen by the enqueued FastSignal -/

/-- `_enqueuedSignal._state` (0 when there is no pool) -/
def enqOf (s : State) : Nat := match s.pool with | some p => p.enq | none => 0
def hdOf (s : State) : Nat := match s.pool with | some p => p.ring.head | none => 0
def tlOf (s : State) : Nat := match s.pool with | some p => p.ring.tail | none => 0
/-- the flag of the Signal of `_enqueuedSignal` -/
def sig0 (s : State) : Bool := (s.sigs 0).signaled

/-! ### stack discipline -/

def isPopPc : RingPc Job → Bool
  | .popRead | .popChk _ | .popCas _ | .popData _ | .popRel _ _ => true
  | _ => false

def pushCaller : Frame → Bool
  | .runChk1 _ | .runChk2 _ | .dChk1 _ | .dChk2 _ | .runRetAfter => true
  | _ => false
def popCaller : Frame → Bool
  | .wChk1 | .wChk2 => true
  | _ => false

def callerOk (pc : RingPc Job) : Option Frame → Bool
  | some c => if isPopPc pc then popCaller c else pushCaller c
  | none => false

/-- what must sit directly below a frame -/
def adj : Frame → Option Frame → Prop
  | .ring pc, o => callerOk pc o = true
  | .fRst fs, o => fs = 0 → o = some .wPop2
  | .fRstLoad fs, o => fs = 0 → o = some .wPop2
  | .sRstLock σ, o => σ = 0 → o = some (.fRstLoad 0)
  | .sRstStore σ, o => σ = 0 → o = some (.fRstLoad 0)
  | .sRstUnlock σ, o => σ = 0 → o = some (.fRstLoad 0)
  | _, _ => True

def AdjOk : List Frame → Prop
  | [] => True
  | a :: l => adj a l.head? ∧ AdjOk l

theorem adjOk_nil : AdjOk [] := trivial
theorem adjOk_cons {a : Frame} {l : List Frame} : AdjOk (a :: l) ↔ adj a l.head? ∧ AdjOk l := Iff.rfl

/-- frames that never return -/
def loopFr : Frame → Bool
  | .wPop1 | .wChk1 | .wPop2 | .wChk2 | .wDeq | .wDispatch | .wAdd | .wTerm | .tExit => true
  | .cNext | .cEnd _ => true
  | .mInit | .mSpawn _ | .mSpawned _ _ | .mJoin _ | .mDel
  | .dPush _ | .dChk1 _ | .dPush2 _ | .dChk2 _ | .dSet _ | .dJoin _ | .dFin => true
  | _ => false

def HasLoop (l : List Frame) : Prop := ∃ f ∈ l, loopFr f = true
theorem hasLoop_nil : HasLoop [] ↔ False := by simp [HasLoop]
theorem hasLoop_cons {a : Frame} {l : List Frame} : HasLoop (a :: l) ↔ loopFr a = true ∨ HasLoop l := by
  simp [HasLoop]

/-- worker code -/
def wkFr : Frame → Bool
  | .sSetLock _ | .sSetStore _ | .sSetUnlock _ | .sSetBcast _ _ | .sRstLock _ | .sRstStore _ | .sRstUnlock _ => true
  | .sWaitLock σ | .sWaitChk σ | .sWaitUnlock σ | .sWaitCwait σ | .sWaitCwake σ | .sWaitRelock σ => σ == 0
  | .fSet _ | .fRst _ | .fRstLoad _ => true
  | .fWait fs => fs == 0
  | .ring _ => true
  | .wPop1 | .wChk1 | .wPop2 | .wChk2 | .wDeq | .wDispatch | .wAdd | .wTerm => true
  | .pCall _ | .pBody _ | .pStore _ | .pSetRd _ | .pSetX _ _ | .pSig _ | .pDelete _ => true
  | .tStart | .tExit => true
  | _ => false

def AllW (l : List Frame) : Prop := ∀ f ∈ l, wkFr f = true
theorem allW_nil : AllW [] := by intro f hf; cases hf
theorem allW_cons {a : Frame} {l : List Frame} : AllW (a :: l) ↔ wkFr a = true ∧ AllW l := by
  simp [AllW]

/-- what one step does to the stack discipline of the stepping thread and to the other threads -/
structure ShapeK (s s' : State) (t : Tid) (th : Thread) (fr : Frame) (rest : List Frame) : Prop where
  self : ∃ th', s'.threads t = some th' ∧ th'.isWorker = th.isWorker ∧
      (AdjOk (fr :: rest) → AdjOk th'.stack) ∧
      (HasLoop (fr :: rest) → th'.finished = false → HasLoop th'.stack) ∧
      (AllW (fr :: rest) → AllW th'.stack)
  others : ∀ u, u ≠ t → s'.threads u = s.threads u ∨
      (u = s.nthreads ∧
        (s'.threads u = some { stack := [.tStart, .wPop1], isWorker := true } ∨
         ∃ sc, s'.threads u = some { stack := [.tStart, .cNext], script := sc }))

theorem ringStep_cont_pop {r r' : Ring Job} {pc pc' : RingPc Job} (h : ringStep r pc = (r', .cont pc')) :
    isPopPc pc' = isPopPc pc := by
  cases pc <;> simp only [ringStep] at h
  all_goals first
    | (split at h <;> (injection h with h1 h2; first | (injection h2 with h2; subst h2; rfl) | cases h2))
    | (injection h with h1 h2; first | (injection h2 with h2; subst h2; rfl) | cases h2)

/-- the thread record after a ring micro-step -/
structure RingSelf (th th' : Thread) (pc : RingPc Job) (rest : List Frame) (res : RingRes Job) : Prop where
  wk : th'.isWorker = th.isWorker
  fin : th'.finished = th.finished
  shape : (∃ pc', res = .cont pc' ∧ th'.stack = .ring pc' :: rest ∧ th'.retB = th.retB) ∨
          (∃ ok, res = .pushed ok ∧ th'.stack = rest ∧ th'.retB = ok) ∨
          (∃ o, res = .popped o ∧ th'.stack = rest ∧ th'.retB = o.isSome)

/-- exact description of a ring micro-step of the full model -/
theorem ring_step_desc (s : State) (t : Tid) (th : Thread) (pc : RingPc Job) (rest : List Frame) (p : Pool)
    (hp : s.pool = some p) (hst : th.stack = .ring pc :: rest) :
    ∃ th', (stepFrame s t th (.ring pc)).1.threads = upd s.threads t (some th') ∧
      (stepFrame s t th (.ring pc)).1.pool = some { p with ring := (ringStep p.ring pc).1 } ∧
      (stepFrame s t th (.ring pc)).1.sigs = s.sigs ∧
      (stepFrame s t th (.ring pc)).1.cfg = s.cfg ∧
      (stepFrame s t th (.ring pc)).1.nthreads = s.nthreads ∧
      RingSelf th th' pc rest (ringStep p.ring pc).2 := by
  simp only [stepFrame, hp]
  rcases hrs : ringStep p.ring pc with ⟨r', res⟩
  cases res with
  | cont pc' =>
    refine ⟨_, rfl, rfl, rfl, rfl, rfl, rfl, rfl, Or.inl ⟨pc', rfl, ?_, rfl⟩⟩
    simp [Thread.cont, hst]
  | pushed ok =>
    refine ⟨_, rfl, rfl, rfl, rfl, rfl, rfl, rfl, Or.inr (Or.inl ⟨ok, rfl, ?_, rfl⟩)⟩
    simp [Thread.cont, hst]
  | popped o =>
    rcases o with _ | _ | j
    · refine ⟨_, rfl, rfl, rfl, rfl, rfl, rfl, rfl, Or.inr (Or.inr ⟨none, rfl, ?_, rfl⟩)⟩
      simp [Thread.cont, hst]
    · refine ⟨_, rfl, rfl, rfl, rfl, rfl, rfl, rfl, Or.inr (Or.inr ⟨some none, rfl, ?_, rfl⟩)⟩
      simp [Thread.cont, hst]
    · refine ⟨_, rfl, rfl, rfl, rfl, rfl, rfl, rfl, Or.inr (Or.inr ⟨some (some j), rfl, ?_, rfl⟩)⟩
      simp [Thread.cont, hst]

theorem ring_step_noPool (s : State) (t : Tid) (th : Thread) (pc : RingPc Job)
    (hp : s.pool = none) : (stepFrame s t th (.ring pc)).1 = withFault s "no pool" := by
  simp only [stepFrame, hp]

theorem adjOk_head_noSpec {l : List Frame} (h : AdjOk l) : AdjOk l.tail := by
  cases l with
  | nil => exact adjOk_nil
  | cons a l => exact h.2

set_option maxHeartbeats 8000000 in
theorem shapeK (s : State) (t : Tid) (th : Thread) (fr : Frame) (rest : List Frame)
    (hth : s.threads t = some th) (hst : th.stack = fr :: rest) (hrep : s.cfg.repaired = true) :
    ShapeK s (stepFrame s t th fr).1 t th fr rest := by
  have hnoth : ∀ (s0 : State) (th0 : Thread), s0.threads = s.threads →
      ∀ u, u ≠ t → (setThread s0 t th0).threads u = s.threads u := by
    intro s0 th0 h0 u hu; simp only [setThread, h0, upd_ne _ _ hu]
  cases fr
  case ring pc =>
    cases hp : s.pool with
    | none =>
      rw [ring_step_noPool s t th pc hp]
      refine ⟨⟨th, hth, rfl, ?_, ?_, ?_⟩, fun u hu => Or.inl rfl⟩
      · intro h; rw [hst]; exact h
      · intro h _; rw [hst]; exact h
      · intro h; rw [hst]; exact h
    | some p =>
      obtain ⟨th', h1, h2, h3, h4, h5, h6⟩ := ring_step_desc s t th pc rest p hp hst
      refine ⟨⟨th', by rw [h1, upd_same], h6.wk, ?_, ?_, ?_⟩, fun u hu => Or.inl (by rw [h1, upd_ne _ _ hu])⟩
      · intro h
        rcases h6.shape with ⟨pc', hr, hs, _⟩ | ⟨ok, _, hs, _⟩ | ⟨o, _, hs, _⟩
        · rw [hs]
          have hpp : isPopPc pc' = isPopPc pc :=
            ringStep_cont_pop (r := p.ring) (r' := (ringStep p.ring pc).1) (by rw [← hr])
          refine ⟨?_, h.2⟩
          have := h.1
          simp only [adj, callerOk] at this ⊢
          rw [hpp]; exact this
        · rw [hs]; exact h.2
        · rw [hs]; exact h.2
      · intro h _
        rw [hasLoop_cons] at h
        rcases h with h | h
        · cases h
        · rcases h6.shape with ⟨pc', _, hs, _⟩ | ⟨ok, _, hs, _⟩ | ⟨o, _, hs, _⟩
          · rw [hs, hasLoop_cons]; exact Or.inr h
          · rw [hs]; exact h
          · rw [hs]; exact h
      · intro h
        rw [allW_cons] at h
        rcases h6.shape with ⟨pc', _, hs, _⟩ | ⟨ok, _, hs, _⟩ | ⟨o, _, hs, _⟩
        · rw [hs, allW_cons]; exact ⟨rfl, h.2⟩
        · rw [hs]; exact h.2
        · rw [hs]; exact h.2
  all_goals
    simp only [stepFrame]
    repeat' split
  all_goals
    constructor
    · simp only [setThread, setSig, setPool, setFut, withFault, destroySig, upd_same, hth, Option.some.injEq, exists_eq_left']
      refine ⟨?_, ?_, ?_, ?_⟩
      · simp [Thread.cont]
      · intro hb
        simp only [adjOk_cons, adj] at hb
        simp [Thread.cont, hst, hrep, adjOk_cons, adjOk_nil, adj, callerOk, isPopPc, popCaller, pushCaller, hb]
        try (simp_all; done)
      · intro hb
        simp only [hasLoop_cons, loopFr] at hb
        simp [Thread.cont, hst, hrep, hasLoop_cons, hasLoop_nil, loopFr, hb]
        try (simp_all; done)
      · intro hb
        simp only [allW_cons, wkFr] at hb
        simp [Thread.cont, hst, hrep, allW_cons, allW_nil, wkFr, hb]
        try (simp_all; done)
    · intro u hu
      simp [setThread, setSig, setPool, setFut, withFault, destroySig, upd_ne _ _ hu]
      try (by_cases hw : u = s.nthreads
           · right; subst hw; refine ⟨rfl, ?_⟩; simp [upd_same]
           · left; exact upd_ne _ _ hw)

end Nstd.Future.LW
