/-
  `spk_run_is_client`: a thread with a `ThreadPool::run` frame on its stack is an unfinished client thread
  (neither a worker nor the main thread).
-/
import Nstd.Future.LiveGlue
import Nstd.Future.SimRing5
set_option linter.unusedSimpArgs false
set_option linter.unusedVariables false
namespace Nstd.Future.SPK

/-- the 20 frames of `ThreadPool::run` -/
def spkRunC : Frame → Bool
  | .runStart _ | .runChk1 _ | .runPush2 _ | .runChk2 _ | .runSet | .runAdd | .runRdProc _ | .runRdTc _ | .runClk1
  | .runClk2 _ | .runClk3 | .runSpLock | .runSpChk | .runSpUnlock _ | .runSpStart _ | .runSpawned _
  | .runRetLock | .runRetChk | .runRetAfter | .runRetUnlock => true
  | _ => false

theorem spkRunC_not_nc {f : Frame} (h : spkRunC f = true) : ncFr f = false := by
  cases f <;> first | rfl | (simp [spkRunC] at h)

theorem spk_run_client_tid {cfg : Config} {s : State} {t : Tid} {th : Thread} (hr : Reach cfg s)
    (hth : s.threads t = some th) (hrun : ∃ f ∈ th.stack, spkRunC f = true) : t ∈ s.clientTids := by
  obtain ⟨f, hf, hc⟩ := hrun
  rcases (reach_join hr).kinds t th hth with h | h
  · exact h
  · have h1 := h f hf
    rw [spkRunC_not_nc hc] at h1; cases h1

theorem spk_run_is_client {cfg : Config} {s : State} {t : Tid} {th : Thread} (hr : Reach cfg s)
    (hth : s.threads t = some th) (hrun : ∃ f ∈ th.stack, spkRunC f = true) :
    th.isWorker = false ∧ t ≠ 0 ∧ th.finished = false := by
  have hc := spk_run_client_tid hr hth hrun
  refine ⟨lg_client_not_worker hr hc hth, lg_client_not_main hr hc, ?_⟩
  cases hfin : th.finished with
  | false => rfl
  | true =>
    have hnil := finished_stack_nil hr hth hfin
    obtain ⟨f, hf, _⟩ := hrun
    rw [hnil] at hf; cases hf

end Nstd.Future.SPK
