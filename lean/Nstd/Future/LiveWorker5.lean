/-
  No lost wake-up on the worker side, part 5: the invariants in plain terms (`enq_le_one`, `enq_set_not_lost`,
  `queued_job_is_covered`) and the deadlock-freedom statement relative to the two Signal-level progress facts
  `SigFacts` (`no_stuck_worker_side_partial`; `LiveWorker.lean` discharges them with `Progress.lean`).
-/
import Nstd.Future.LiveWorker4
set_option linter.unusedSimpArgs false
set_option linter.unusedVariables false
namespace Nstd.Future

open LW

/-- the two facts about `Signal` (mutex + condition variable) the argument uses -/
structure SigFacts (s : State) : Prop where
  /-- a thread blocked on the mutex of a Signal: somebody (the owner) can step -/
  lock : ∀ (t : Tid) (fr : Frame) (σ : Nat), topFrame s t = some fr →
      (fr = .sSetLock σ ∨ fr = .sRstLock σ ∨ fr = .sWaitLock σ ∨ fr = .sWaitRelock σ) →
      enabled s t = false → ∃ o, enabled s o = true
  /-- a sleeper in the wait set of the enqueued signal's condition variable while the flag is set: somebody
      (the thread that owes the broadcast) can step -/
  wake : ∀ t : Tid, t ∈ (s.sigs 0).waiters → (s.sigs 0).signaled = true → ∃ u, enabled s u = true

variable {cfg : Config} {s : State}

/-- `_enqueuedSignal._state` only takes the values 0 and 1 -/
theorem enq_le_one {p : Pool} (hrep : cfg.repaired = true) (hr : Reach cfg s) (hp : s.pool = some p) :
    p.enq ≤ 1 := by
  have := enqLe_reach hrep hr
  simpa only [enqOf, hp] using this

theorem w1At_iff {t : Tid} : w1At s t = true ↔
    ∃ th fr rest, s.threads t = some th ∧ th.stack = fr :: rest ∧ w1 fr = true := by
  simp only [w1At]
  cases hth : s.threads t with
  | none => simp
  | some th =>
    cases hst : th.stack with
    | nil => simp [w1S, hst]
    | cons a l => simp [w1S, hst]

/-- (I1) negation of D17 inside the full repaired model: whenever `_enqueuedSignal._state = 1`, the Signal is set
    or some (unfinished) thread is inside `FastSignal::set()`/`reset()` of the enqueued signal at a point from
    which it is still going to store `signaled := true`: at `sSetLock 0`/`sSetStore 0`, at the re-check
    `fRstLoad 0` of the repaired `reset()` (which goes on to `sSetLock 0` unless `_state` has become 0 again), or
    inside the `Signal::reset` of `reset()` with that re-check directly below on its stack -/
theorem enq_set_not_lost {p : Pool} (hrep : cfg.repaired = true) (hr : Reach cfg s) (hp : s.pool = some p)
    (he : p.enq = 1) :
    (s.sigs 0).signaled = true ∨
    ∃ t th fr rest, s.threads t = some th ∧ th.finished = false ∧ th.stack = fr :: rest ∧
      (fr = .sSetLock 0 ∨ fr = .sSetStore 0 ∨ fr = .fRstLoad 0 ∨
        ((fr = .sRstLock 0 ∨ fr = .sRstStore 0 ∨ fr = .sRstUnlock 0) ∧ rest.head? = some (.fRstLoad 0))) := by
  rcases i1_reach hrep hr (by simpa only [enqOf, hp] using he) with h | ⟨u, hu⟩
  · exact Or.inl h
  · right
    obtain ⟨th, fr, rest, hth, hst, hw⟩ := w1At_iff.mp hu
    have hfin : th.finished = false := by
      cases hf : th.finished
      · rfl
      · have := finished_stack_nil hr hth hf; rw [hst] at this; cases this
    have hadj := (stk_reach hrep hr).adj u th hth
    rw [hst] at hadj
    refine ⟨u, th, fr, rest, hth, hfin, hst, ?_⟩
    have h1 := hadj.1
    cases fr <;> simp [w1] at hw <;> subst hw <;> simp [adj] at h1 ⊢ <;> exact h1

theorem witAt_iff {H : Nat} {t : Tid} : witAt s H t = true ↔
    ∃ th fr rest, s.threads t = some th ∧ th.stack = fr :: rest ∧
      (busyTop th.retB fr = true ∨ look H th.retB th.stack = true) := by
  simp only [witAt]
  cases hth : s.threads t with
  | none => simp
  | some th =>
    cases hst : th.stack with
    | nil => simp [witS, look_nil, hst]
    | cons a l => simp [witS, hst]

/-- (I2) every queued ticket is covered: when `head < tail`, then `_enqueuedSignal._state = 1`, or the Signal is
    set, or some (unfinished) thread is a busy supplier (`LW.busyTop`: top frame between its successful `pushCas`
    and the `fSet 0` that follows the push: `pushData`/`pushPub`, the caller's check with `retB = true`,
    `runSet`/`dSet`, `fSet 0` -- this includes the hand-off `fSet 0` of a terminating worker and the one of the
    repaired retire path) or a looking consumer (`LW.look`: a worker that is going to execute a fresh `popRead`,
    or holds a pop ticket equal to the current head, before it can go to sleep) -/
theorem queued_job_is_covered {p : Pool} (hrep : cfg.repaired = true) (hr : Reach cfg s) (hp : s.pool = some p)
    (hlt : p.ring.head < p.ring.tail) :
    p.enq = 1 ∨ (s.sigs 0).signaled = true ∨
    ∃ t th fr rest, s.threads t = some th ∧ th.finished = false ∧ th.stack = fr :: rest ∧
      (busyTop th.retB fr = true ∨ look p.ring.head th.retB th.stack = true) := by
  have h2 := i2_reach hrep hr
  simp only [I2, hdOf, tlOf, enqOf, hp] at h2
  rcases h2 hlt with h | h | ⟨u, hu⟩
  · exact Or.inl h
  · exact Or.inr (Or.inl h)
  · right; right
    obtain ⟨th, fr, rest, hth, hst, hw⟩ := witAt_iff.mp hu
    have hfin : th.finished = false := by
      cases hf : th.finished
      · rfl
      · have := finished_stack_nil hr hth hf; rw [hst] at this; cases this
    exact ⟨u, th, fr, rest, hth, hfin, hst, hw⟩

/-! ### the final argument -/

/-- when nothing is enabled, the top frame of every unfinished thread is blocked -/
theorem stuck_top (hr : Reach cfg s) (hne : ∀ t, enabled s t = false) {t : Tid} {th : Thread} {fr : Frame}
    {rest : List Frame} (hth : s.threads t = some th) (hst : th.stack = fr :: rest) :
    blockedFrame s t fr = true := by
  have hfin : th.finished = false := by
    cases hf : th.finished
    · rfl
    · have := finished_stack_nil hr hth hf; rw [hst] at this; cases this
  have := hne t
  simp only [enabled, hth, hst, hfin] at this
  cases hb : blockedFrame s t fr
  · rw [hb] at this; cases this
  · rfl

theorem topFrame_of_stack {t : Tid} {th : Thread} {fr : Frame} {rest : List Frame}
    (hth : s.threads t = some th) (hst : th.stack = fr :: rest) : topFrame s t = some fr := by
  simp only [topFrame, hth, hst, List.head?_cons]

/-- a blocked witness of (I2) is blocked on a Signal mutex -/
theorem wit_blocked {H : Nat} {rb : Bool} {t : Tid} {fr : Frame} {rest : List Frame}
    (hw : busyTop rb fr = true ∨ look H rb (fr :: rest) = true) (hb : blockedFrame s t fr = true) :
    ∃ σ, fr = .sSetLock σ ∨ fr = .sRstLock σ ∨ fr = .sWaitLock σ ∨ fr = .sWaitRelock σ := by
  cases fr <;> simp [blockedFrame] at hb <;> simp [busyTop, look_cons, transp, lookTop] at hw ⊢

/-- a blocked witness of (I1) is blocked on a Signal mutex -/
theorem w1_blocked {t : Tid} {fr : Frame} (hw : w1 fr = true) (hb : blockedFrame s t fr = true) :
    ∃ σ, fr = .sSetLock σ ∨ fr = .sRstLock σ ∨ fr = .sWaitLock σ ∨ fr = .sWaitRelock σ := by
  cases fr <;> simp [blockedFrame] at hb <;> simp [w1] at hw ⊢

/-- a blocked worker is blocked on a Signal mutex or sleeps on the enqueued signal -/
theorem worker_blocked {t : Tid} {fr : Frame} (hw : wkFr fr = true) (hb : blockedFrame s t fr = true) :
    (∃ σ, fr = .sSetLock σ ∨ fr = .sRstLock σ ∨ fr = .sWaitLock σ ∨ fr = .sWaitRelock σ) ∨
    (fr = .sWaitCwake 0 ∧ t ∈ (s.sigs 0).waiters) := by
  cases fr <;> simp [blockedFrame] at hb <;> simp [wkFr] at hw ⊢
  case sWaitCwake σ => subst hw; exact ⟨rfl, hb.1⟩

/-- in the repaired system, whenever a job is queued and a worker thread is alive, some thread can step --
    relative to the two Signal-level facts `SigFacts` -/
theorem no_stuck_worker_side_partial (hrep : cfg.repaired = true) (hr : Reach cfg s) (hsf : SigFacts s)
    (hq : jobQueued s) (hw : ∃ w, liveWorker s w) : ∃ t, enabled s t = true := by
  apply Classical.byContradiction
  intro hcon
  have hne : ∀ t, enabled s t = false := by
    intro t
    cases he : enabled s t
    · rfl
    · exact absurd ⟨t, he⟩ hcon
  obtain ⟨p, hp, hlt⟩ := hq
  obtain ⟨W, thW, hthW, hwk, hfinW⟩ := hw
  have hstk := stk_reach hrep hr
  -- a thread blocked on a Signal mutex contradicts `hne`
  have nolock : ∀ (t : Tid) (th : Thread) (fr : Frame) (rest : List Frame), s.threads t = some th →
      th.stack = fr :: rest →
      (∃ σ, fr = .sSetLock σ ∨ fr = .sRstLock σ ∨ fr = .sWaitLock σ ∨ fr = .sWaitRelock σ) → False := by
    intro t th fr rest hth hst ⟨σ, hfr⟩
    obtain ⟨o, ho⟩ := hsf.lock t fr σ (topFrame_of_stack hth hst) hfr (hne t)
    rw [hne o] at ho; cases ho
  -- the live worker sleeps on the enqueued signal
  have hWs : W ∈ (s.sigs 0).waiters := by
    obtain ⟨f, hf, _⟩ := hstk.loop W thW hthW hfinW
    cases hst : thW.stack with
    | nil => rw [hst] at hf; cases hf
    | cons fr rest =>
      have hall := hstk.wk W thW hthW hwk
      rw [hst] at hall
      rcases worker_blocked (allW_cons.mp hall).1 (stuck_top hr hne hthW hst) with h | ⟨_, h⟩
      · exact (nolock W thW fr rest hthW hst h).elim
      · exact h
  -- hence the Signal is not set
  have hsig : (s.sigs 0).signaled = false := by
    cases hs : (s.sigs 0).signaled
    · rfl
    · obtain ⟨u, hu⟩ := hsf.wake W hWs hs
      rw [hne u] at hu; cases hu
  -- (I2): the queued ticket is covered
  rcases queued_job_is_covered hrep hr hp hlt with he | hs | ⟨t, th, fr, rest, hth, _, hst, hwit⟩
  · -- (I1)
    rcases enq_set_not_lost hrep hr hp he with hs | ⟨t, th, fr, rest, hth, _, hst, hfr⟩
    · rw [hsig] at hs; cases hs
    · have hw1 : w1 fr = true := by
        rcases hfr with rfl | rfl | rfl | ⟨rfl | rfl | rfl, _⟩ <;> rfl
      exact nolock t th fr rest hth hst (w1_blocked hw1 (stuck_top hr hne hth hst))
  · rw [hsig] at hs; cases hs
  · rw [hst] at hwit
    exact nolock t th fr rest hth hst (wit_blocked hwit (stuck_top hr hne hth hst))

end Nstd.Future
