import Nstd.Future.SpawnFail
import Nstd.Future.Safety
import Nstd.Future.SafetyFault
import Nstd.Future.Witness
import Nstd.Future.Fair2Main
/-
  Facts about the extended system of `SpawnFail.lean` (failing creation of pool workers as an environment choice):
    xreach_reach       every state of the extended system is a reachable state of `Model.lean` (so every safety theorem
                       over `Reach` holds with failing thread creations)
    dead_fresh         a thread whose creation failed is, in every later state, the untouched record of a freshly created
                       worker: it has executed nothing and never will (the encoding is faithful: such a thread does nothing)
    xrun_reach         runs driven by a failure mask (`xrun`, what the driver replays) are runs of the extended system
    sfJoin_check / sfDtor_check   kernel-evaluated schedules, found on the REAL thread pool under the controlled scheduler
                       with a failing `pthread_create` (corpus/C10/spawn-failure-*.txt), replayed by the driver
-/
namespace Nstd.Future

variable {cfg : Config}

theorem xstep_inv {x x' : XState} {t : Tid} {o : List String} (h : xstep x t = some (x', o)) :
    x.dead.contains t = false ∧ ∃ s', step x.s t = some (s', o) ∧ x' = { x with s := s' } := by
  unfold xstep at h
  cases hd : x.dead.contains t with
  | true => rw [hd] at h; simp at h
  | false =>
    rw [hd] at h
    refine ⟨rfl, ?_⟩
    cases hs : step x.s t with
    | none => rw [hs] at h; simp at h
    | some r =>
      obtain ⟨s', o'⟩ := r
      rw [hs] at h
      simp only [Bool.false_eq_true, if_false, Option.some.injEq, Prod.mk.injEq] at h
      exact ⟨s', by rw [h.2], h.1.symm⟩

theorem xfail_inv {x x' : XState} {t : Tid} {o : List String} (h : xfail x t = some (x', o)) :
    x.dead.contains t = false ∧ ∃ k s1 o1 s2 o2, spawnIdx x.s t = some k ∧ step x.s t = some (s1, o1) ∧
      step s1 t = some (s2, o2) ∧ x' = { s := s2, dead := x.s.nthreads :: x.dead } := by
  unfold xfail at h
  cases hd : x.dead.contains t with
  | true => rw [hd] at h; simp at h
  | false =>
    rw [hd] at h
    refine ⟨rfl, ?_⟩
    cases hk : spawnIdx x.s t with
    | none => simp [hk] at h
    | some k =>
      cases h1 : step x.s t with
      | none => simp [hk, h1] at h
      | some r1 =>
        obtain ⟨s1, o1⟩ := r1
        cases h2 : step s1 t with
        | none => simp [hk, h1, h2] at h
        | some r2 =>
          obtain ⟨s2, o2⟩ := r2
          simp [hk, h1, h2] at h
          exact ⟨k, s1, o1, s2, o2, rfl, rfl, h2, h.1.symm⟩

/-- every state of the extended system is a reachable state of the model: a failed creation is two ordinary micro-steps
    (the thread record is created, the creator passes the yield after the creation), a dead thread is a thread that is
    not scheduled -/
theorem xreach_reach {x : XState} (h : XReach cfg x) : Reach cfg x.s := by
  induction h with
  | init => exact Reach.init
  | step t _ hs ih =>
    obtain ⟨_, s', h1, rfl⟩ := xstep_inv hs
    exact Reach.step t ih h1
  | fail t _ hs ih =>
    obtain ⟨_, k, s1, o1, s2, o2, _, h1, h2, rfl⟩ := xfail_inv hs
    exact Reach.step t (Reach.step t ih h1) h2

/-- the record of a freshly created pool worker -/
def freshWorker : Thread := { stack := [.tStart, .wPop1], isWorker := true }

/-- a micro-step of `t` does not touch the record of another existing thread -/
theorem step_other_thread {s s' : State} {t u : Tid} {o : List String} {th : Thread} (hr : Reach cfg s)
    (hs : step s t = some (s', o)) (hu : u ≠ t) (hth : s.threads u = some th) : s'.threads u = some th := by
  obtain ⟨th0, fr, rest, hth0, hst, hfin, rfl⟩ := step_inv hs
  have hSim := reach_inv hr
  have hrest : NoSpec rest := by
    have := hSim.ringTopOnly t th0 hth0
    rw [hst] at this; exact this
  have h1 := shape1 s t th0 fr rest hth0 hst hfin hrest
  rcases h1.others u hu with h | ⟨h, _⟩
  · rw [h]; exact hth
  · have := hSim.fresh u (by rw [h]; exact Nat.le_refl _)
    rw [hth] at this; cases this

/-- the step at `runSpStart` creates the worker record with the next thread id -/
theorem spawn_creates {s s1 : State} {t : Tid} {o : List String} {k : Nat} (hr : Reach cfg s)
    (hk : spawnIdx s t = some k) (hs : step s t = some (s1, o)) : s1.threads s.nthreads = some freshWorker := by
  have hr1 : Reach cfg s1 := Reach.step t hr hs
  have hnf := no_fault hr1
  obtain ⟨th, fr, rest, hth, hst, hfin, rfl⟩ := step_inv hs
  have hlt : t < s.nthreads := thread_lt hr hth
  have hne : s.nthreads ≠ t := Nat.ne_of_gt hlt
  have hfr : fr = .runSpStart k := by
    simp only [spawnIdx, hth, hfin, hst] at hk
    cases fr <;> simp at hk
    rw [hk]
  subst hfr
  cases hp : s.pool with
  | none =>
    simp only [stepFrame, hp, withFault] at hnf
    cases hf : s.fault <;> simp [hf] at hnf
  | some p =>
    simp only [stepFrame, hp, setThread, setPool, upd, hne, if_false, if_true, freshWorker]

/-- invariant of the extended system: a thread whose creation failed stays the untouched record of a new worker -/
theorem dead_fresh {x : XState} (h : XReach cfg x) : ∀ w ∈ x.dead, x.s.threads w = some freshWorker := by
  induction h with
  | init => intro w hw; simp at hw
  | step t hx hs ih =>
    obtain ⟨hd, s', h1, rfl⟩ := xstep_inv hs
    intro w hw
    have hne : w ≠ t := by
      intro e; subst e
      have : _ := List.contains_iff_mem.mpr hw
      rw [hd] at this; cases this
    exact step_other_thread (xreach_reach hx) h1 hne (ih w hw)
  | fail t hx hs ih =>
    obtain ⟨hd, k, s1, o1, s2, o2, hk, h1, h2, rfl⟩ := xfail_inv hs
    have hr := xreach_reach hx
    have hr1 : Reach cfg s1 := Reach.step t hr h1
    intro w hw
    rcases List.mem_cons.mp hw with e | hw'
    · subst e
      have hth : _ := (step_inv h1).choose_spec.choose_spec.choose_spec.1
      have hlt := thread_lt hr hth
      exact step_other_thread hr1 h2 (Nat.ne_of_gt hlt) (spawn_creates hr hk h1)
    · have hne : w ≠ t := by
        intro e; subst e
        have : _ := List.contains_iff_mem.mpr hw'
        rw [hd] at this; cases this
      exact step_other_thread hr1 h2 hne (step_other_thread hr h1 hne (ih w hw'))

/-- runs driven by a failure mask are runs of the extended system -/
theorem xrun_reach {mask : Nat} {x x' : XState} {sched : List Tid} (hx : XReach cfg x) (h : xrun mask x sched = some x') :
    XReach cfg x' := by
  induction sched generalizing x with
  | nil => simp only [xrun, Option.some.injEq] at h; rw [← h]; exact hx
  | cons t ts ih =>
    simp only [xrun] at h
    cases hm : xmove mask x t with
    | none => rw [hm] at h; cases h
    | some r =>
      obtain ⟨x1, o⟩ := r
      rw [hm] at h
      apply ih _ h
      unfold xmove at hm
      split at hm
      · split at hm
        · exact XReach.fail t hx hm
        · exact XReach.step t hx hm
      · exact XReach.step t hx hm

/-! ### witnesses (schedules of the real thread pool with a failing `pthread_create`, replayed by the driver) -/

/-- one client: `f0.start(..); f0.join();`, queue size 1; the creation of the first worker fails -/
def sfJoinCfg : Config :=
  { q := 1, minT := 0, maxT := 3, lazy := false, tick := 0, spurious := 0, repaired := true,
    scripts := [[.start 0 11 5, .join 0]] }

def sfJoinSched : List Tid := [0,0,0,0,1,1,1,1,1,1,1,1,1,1,1,1,1,1,1,1,1,1,1,1,1,1,1,1,1,1,1,1,1,1,1,1,1,1]

/-- the client (thread 1) sleeps in `join()` on the Signal of future 0 (signal 2) -/
def clientAsleepInJoin (s : State) (t : Tid) (f : Nat) : Bool :=
  match s.threads t with
  | some th => (match th.stack.head? with | some fr => isCwake (f + 2) fr | none => false) && (s.sigs (f + 2)).waiters.contains t
  | none => false

def queuedJobs (s : State) : Nat :=
  match s.pool with
  | some p => p.ring.tail - p.ring.head
  | none => 0

def poolThreadCount (s : State) : Nat :=
  match s.pool with
  | some p => p.threadCount
  | none => 0

def sfJoinCheck : Bool :=
  match xrun 1 { s := State.init sfJoinCfg } sfJoinSched with
  | some x => xAllBlocked x && clientAsleepInJoin x.s 1 0 && x.s.nextCall == 1 && x.s.execCount 0 == 0 && queuedJobs x.s == 1 &&
      poolThreadCount x.s == 1 && x.dead == [2] && x.s.fault.isNone
  | none => false

theorem sfJoin_check : sfJoinCheck = true := by decide +kernel

/-- two clients, three calls, queue size 1; the creations of the second and third worker fail -/
def sfDtorCfg : Config :=
  { q := 1, minT := 0, maxT := 3, lazy := false, tick := 0, spurious := 0, repaired := true,
    scripts := [[.start 0 11 5, .join 0, .start 0 12 6, .join 0], [.start 1 21 1, .join 1]] }

def sfDtorSched : List Tid := [0,0,1,1,1,1,1,1,1,1,1,1,0,0,1,1,1,1,1,0,0,2,2,1,1,2,2,2,2,2,2,1,2,2,1,1,2,2,2,1,1,1,1,1,1,1,1,3,3,3,1,1,1,1,3,2,3,3,2,2,3,3,3,2,2,3,2,2,2,2,2,1,1,3,3,3,3,3,3,2,2,2,2,2,3,3,3,3,3,2,2,2,2,2,2,2,2,2,1,3,3,2,2,3,1,3,3,1,1,1,3,3,3,1,1,1,1,1,1,2,1,1,1,1,1,3,3,3,1,3,3,3,1,1,1,3,3,3,1,1,1,3,3,3,1,3,3,3,3,3,2,1,3,3,1,3,3,2,2,3,2,1,1,2,2,3,1,1,1,1,1,1,1,1,1,1,3,1,1,1,3,2,2,2,2,2,2,2,2,2,2,2,2,2,2,2,2,2,2,2,2,2,2,2,3,3,3,3,3,3,3,3,3,2,3,3,3,3,3,1,3,3,1,1,3,3,3,3,3,3,1,1,1,1,1,1,1,1,1,1,1,1,1,1,1,1,1,1,1,1,1,1,1,1,1,1,1,0,3,3,0,0,0,3,3,3,0,0,0,0,3,0,0,0,3,0,3,3,3,3,3,3,3,3,3,0,0,0,0,0,3,0,0,0,0,0,0,0,0,0,0,0,0,0,0,0,0,0,0,0,0,0,0,0,0,0]

/-- the main thread (pool destructor) sleeps in `_dequeuedSignal.wait()` -/
def mainAsleepOnDeq (s : State) : Bool :=
  match s.threads 0 with
  | some th => (match th.stack.head? with | some fr => isCwake 1 fr | none => false) && (s.sigs 1).waiters.contains 0
  | none => false

def allCallsDone (s : State) : Bool :=
  (List.range s.nextCall).all (fun c => s.completed c && s.execCount c == 1 && s.freeCount c == 1)

def clientsFinished (s : State) : Bool :=
  s.clientTids.all (fun t => match s.threads t with
    | some th => th.finished
    | none => false)

/-- worker threads that exist and have not finished -/
def liveRealWorkers (x : XState) : Nat :=
  ((List.range x.s.nthreads).filter (fun t => !x.dead.contains t && (match x.s.threads t with
    | some th => th.isWorker && !th.finished
    | none => false))).length

def sfDtorCheck : Bool :=
  match xrun 6 { s := State.init sfDtorCfg } sfDtorSched with
  | some x => xAllBlocked x && mainAsleepOnDeq x.s && x.s.nextCall == 3 && allCallsDone x.s && clientsFinished x.s &&
      poolThreadCount x.s == 3 && liveRealWorkers x == 0 && x.dead.length == 2 && x.s.fault.isNone
  | none => false

theorem sfDtor_check : sfDtorCheck = true := by decide +kernel

end Nstd.Future

/-! ## round 4: the tail rule, the repaired failure branch (fixes/future/0006), finite progress -/

namespace Nstd.Future

/-- the tail rule `xpass` (join of a never-started thread returns at once) is safety-neutral: it rewrites the top frame of the
    joining thread and nothing else — every ghost counter, record, future, signal, the pool and every other thread are unchanged -/
theorem xpass_changes_only_the_joining_stack {x x' : XState} {t : Tid} (h : xpass x t = some x') :
    x'.dead = x.dead ∧ x'.s.execCount = x.s.execCount ∧ x'.s.completed = x.s.completed ∧ x'.s.freeCount = x.s.freeCount ∧
    x'.s.execArgs = x.s.execArgs ∧ x'.s.everCalls = x.s.everCalls ∧ x'.s.calls = x.s.calls ∧ x'.s.futs = x.s.futs ∧
    x'.s.sigs = x.s.sigs ∧ x'.s.pool = x.s.pool ∧ x'.s.fault = x.s.fault ∧ x'.s.nextCall = x.s.nextCall ∧
    (∀ u, u ≠ t → x'.s.threads u = x.s.threads u) ∧
    (∃ th i rest, x.s.threads t = some th ∧ th.stack = .dJoin i :: rest) := by
  unfold xpass at h
  split at h
  · next th p hth hp =>
    split at h
    · next i rest hst =>
      split at h
      · split at h
        · injection h with h; subst h
          refine ⟨rfl, rfl, rfl, rfl, rfl, rfl, rfl, rfl, rfl, rfl, rfl, rfl, ?_, th, i, rest, hth, hst⟩
          intro u hu; simp [setThread, upd, hu]
        · cases h
      · cases h
    · cases h
  · cases h

/-- `Model.lean` already passes a context that is terminated and was never started (what the REPAIRED failure branch leaves in
    `_threads`): the join loop of `~ThreadPool` is not blocked by it and moves on without any operation -/
theorem join_loop_skips_never_started_context (s : State) (t : Tid) (th : Thread) (p : Pool) (i : Nat) (c : Ctx)
    (hp : s.pool = some p) (hc : p.ctxs[i]? = some c) (hn : c.tid = none) :
    blockedFrame s t (.dJoin i) = false ∧
    stepFrame s t th (.dJoin i) = (setThread s t (th.cont [if i + 1 < p.ctxs.length then .dJoin (i + 1) else .dFin]), []) := by
  obtain ⟨id, tid, term⟩ := c
  simp only at hn; subst hn
  constructor
  · simp [blockedFrame, hp, hc]
  · simp [stepFrame, hp, hc]

/-- finite progress with refused threads (any failure pattern): the relation "an ordinary micro-step of an existing thread changes
    the state" has no infinite chain on `XReach` — after finitely many state-changing steps an extended run can only stop, spin on the
    pool-creation lock, or refuse further creations (each refusal consumes one of the `_maxThreads` reservations in the unrepaired code) -/
def XProgresses (cfg : Config) (x' x : XState) : Prop :=
  XReach cfg x ∧ x'.s ≠ x.s ∧ ∃ t o, xstep x t = some (x', o)

theorem xprogresses_wf {cfg : Config} (hrep : cfg.repaired = true) : WellFounded (XProgresses cfg) := by
  have h : WellFounded (InvImage (Progresses cfg) XState.s) := InvImage.wf _ (progresses_wf hrep)
  refine Subrelation.wf ?_ h
  intro x' x ⟨hx, hne, t, o, hs⟩
  obtain ⟨_, s', h1, rfl⟩ := xstep_inv hs
  exact ⟨xreach_reach hx, hne, t, o, h1⟩

/-! ### the repaired failure branch: kernel-evaluated runs of the REPAIRED real code (harness built from /repo + fixes/future/0006) -/

def allFinished (s : State) : Bool :=
  (List.range s.nthreads).all (fun t => match s.threads t with
    | some th => th.finished
    | none => true)

/-- repaired code, `q=1 cf=1 | s0:11:5 j0` (default policy): the handler has undone the reservation (`_threadCount = 0`), the job is
    queued, the client sleeps in `join()`, nothing can step — the documented limit is independent of the repair -/
def sfxJoinSched : List Tid := [0,0,0,0,1,1,1,1,1,1,1,1,1,1,1,1,1,1,1,1,1,1,1,1,1,1,1,1,1,1,1,1,1,1,1,1,1,1,1,1,1]

def sfxJoinCheck : Bool :=
  match xrunFix 1 { s := State.init sfJoinCfg } sfxJoinSched with
  | some x => xAllBlockedF x && clientAsleepInJoin x.s 1 0 && x.s.execCount 0 == 0 && queuedJobs x.s == 1 &&
      poolThreadCount x.s == 0 && x.fixing.isEmpty && x.s.fault.isNone
  | none => false

theorem sfxJoin_check : sfxJoinCheck = true := by decide +kernel

/-- repaired code, recovery: `q=2 cf=1 | s0:11:5 s1:12:6 j0 j1`: the first creation is refused, the second `start()` creates the
    worker, both calls are executed, joined, the pool is deleted, every thread finishes -/
def sfxRecoverCfg : Config :=
  { q := 2, minT := 0, maxT := 3, lazy := false, tick := 0, spurious := 0, repaired := true,
    scripts := [[.start 0 11 5, .start 1 12 6, .join 0, .join 1]] }

def sfxRecoverSched : List Tid := [0,0,0,0,1,1,1,1,1,1,1,1,1,1,1,1,1,1,1,1,1,1,1,1,1,1,1,1,1,1,1,1,1,1,1,1,1,1,1,1,1,1,1,1,1,1,1,1,1,1,1,1,1,1,1,1,1,1,1,1,1,1,1,1,1,1,1,3,3,3,3,3,3,3,3,3,3,3,3,3,3,3,3,3,3,3,3,3,3,3,3,3,3,3,3,3,3,3,3,3,3,3,3,3,3,3,3,3,3,3,3,3,3,3,3,3,3,3,3,3,3,3,3,3,3,3,3,3,3,3,3,3,3,1,1,1,1,1,1,1,1,1,1,1,1,1,1,1,1,1,1,1,1,1,1,1,1,1,1,1,1,1,1,1,1,1,1,1,1,1,1,1,1,1,1,0,0,0,0,0,0,0,0,0,0,0,0,0,0,0,0,3,3,3,3,3,3,3,3,3,3,3,3,3,3,3,3,3,0,0,0]

def sfxRecoverCheck : Bool :=
  match xrunFix 1 { s := State.init sfxRecoverCfg } sfxRecoverSched with
  | some x => allFinished x.s && x.s.nextCall == 2 && allCallsDone x.s && x.fixing.isEmpty && x.s.pool.isNone && x.s.fault.isNone
  | none => false

theorem sfxRecover_check : sfxRecoverCheck = true := by decide +kernel

/-- repaired code on the schedule request that hangs the original (`corpus/C10/spawn-failure-destructor-waits-forever.txt`):
    both refused reservations are undone, `~ThreadPool` queues ONE terminate job, joins the worker, skips the two never-started
    contexts and completes -/
def sfxDtorSched : List Tid := [0,0,1,1,1,1,1,1,1,1,1,1,0,0,1,1,1,1,1,0,0,2,2,1,1,2,2,2,2,2,2,1,2,2,1,1,2,2,2,1,1,1,1,1,1,1,1,3,3,3,1,1,1,1,3,2,3,3,2,2,3,3,3,2,2,3,2,2,2,2,2,1,1,3,3,3,3,3,3,2,2,2,2,2,3,3,3,3,3,2,2,2,2,2,2,1,3,3,2,2,3,1,3,3,1,1,1,3,3,3,1,1,1,1,1,1,2,2,2,2,2,2,3,2,3,1,1,1,1,1,3,1,1,1,1,3,3,3,1,1,3,1,3,3,3,3,3,3,3,3,3,1,3,3,1,1,1,1,1,3,3,1,1,3,3,3,1,1,3,3,1,1,1,1,2,3,3,2,2,3,2,3,1,1,2,2,3,3,3,2,2,2,2,2,2,2,2,2,2,2,2,2,2,2,2,2,2,2,2,2,2,2,2,3,3,3,3,3,3,3,3,1,1,1,1,1,1,1,1,1,1,1,1,1,1,1,3,3,3,3,3,3,3,1,1,1,1,1,1,1,1,1,1,1,1,1,1,1,1,1,1,1,1,1,1,1,1,1,1,1,1,3,1,3,3,0,3,3,3,3,3,3,3,0,0,0,0,0,3,3,3,3,3,3,0,0,0,0,0,0,0,0,0,0,0,3,3,3,3,3,3,3,3,3,3,3,3,3,3,3,3,3,0,0,0,0]

def sfxDtorCheck : Bool :=
  match xrunFix 6 { s := State.init sfDtorCfg } sfxDtorSched with
  | some x => allFinished x.s && x.s.nextCall == 3 && allCallsDone x.s && x.fixing.isEmpty && x.s.pool.isNone && x.s.fault.isNone
  | none => false

theorem sfxDtor_check : sfxDtorCheck = true := by decide +kernel

theorem xrunFix_reach {cfg : Config} {mask : Nat} {x x' : XState} {sched : List Tid} (hx : XReachFix cfg x)
    (h : xrunFix mask x sched = some x') : XReachFix cfg x' := by
  induction sched generalizing x with
  | nil => simp only [xrunFix, Option.some.injEq] at h; rw [← h]; exact hx
  | cons t ts ih =>
    simp only [xrunFix] at h
    cases hm : xmoveFix mask x t with
    | none => rw [hm] at h; cases h
    | some r =>
      obtain ⟨x1, o⟩ := r
      rw [hm] at h
      apply ih _ h
      unfold xmoveFix at hm
      split at hm
      · exact XReachFix.fix t hx hm
      · split at hm
        · split at hm
          · exact XReachFix.fail t hx hm
          · exact XReachFix.step t hx hm
        · exact XReachFix.step t hx hm

/-- a run of the repaired system in which no creation is refused is a run of `Model.lean`, state by state -/
inductive XReachFix0 (cfg : Config) : XState → Prop where
  | init : XReachFix0 cfg { s := State.init cfg }
  | step {x x' : XState} {o : List String} (t : Tid) : XReachFix0 cfg x → xstepF x t = some (x', o) → XReachFix0 cfg x'

theorem xreachfix0_reach {cfg : Config} {x : XState} (h : XReachFix0 cfg x) : Reach cfg x.s ∧ x.fixing = [] ∧ x.dead = [] := by
  induction h with
  | init => exact ⟨Reach.init, rfl, rfl⟩
  | step t _ hs ih =>
    unfold xstepF at hs
    split at hs
    · cases hs
    · obtain ⟨_, s', h1, rfl⟩ := xstep_inv hs
      exact ⟨Reach.step t ih.1 h1, ih.2.1, ih.2.2⟩

end Nstd.Future
