import Nstd.Future.Ring
/-
  Helper lemmas of PropsGen.lean (round 7): the bit smearing of the `LockFreeQueue` constructor
  (`m |= m >> 1; m |= m >> 2; m |= m >> 4; m |= m >> 8; m |= m >> 16;`) on a value below 2^32 yields `ceilPow2 (m + 1) - 1`.
  `Smeared a m w` : bit `i` of `a` is set iff one of the bits `i … i+w-1` of `m` is; one smearing step doubles `w`.
-/
namespace Nstd.Future.C10
open Nstd.Future

/-- `a` has bit `i` set iff `m` has one of the bits `i … i+w-1` set -/
def Smeared (a m w : Nat) : Prop := ∀ i, a.testBit i = true ↔ ∃ j, j < w ∧ m.testBit (i + j) = true

theorem smeared_self (m : Nat) : Smeared m m 1 := by
  intro i
  constructor
  · intro h; exact ⟨0, by omega, by simpa using h⟩
  · rintro ⟨j, hj, h⟩
    have : j = 0 := by omega
    subst this; simpa using h

theorem smeared_step {a m w : Nat} (h : Smeared a m w) : Smeared (a ||| (a >>> w)) m (w + w) := by
  intro i
  rw [Nat.testBit_or, Nat.testBit_shiftRight, Bool.or_eq_true, h i, h (w + i)]
  constructor
  · rintro (⟨j, hj, hb⟩ | ⟨j, hj, hb⟩)
    · exact ⟨j, by omega, hb⟩
    · exact ⟨w + j, by omega, by rw [show i + (w + j) = w + i + j by omega]; exact hb⟩
  · rintro ⟨j, hj, hb⟩
    by_cases hjw : j < w
    · exact Or.inl ⟨j, hjw, hb⟩
    · exact Or.inr ⟨j - w, by omega, by rw [show w + i + (j - w) = i + j by omega]; exact hb⟩

/-- what `ceilPow2` computes: the least power of two that is ≥ n (for n ≤ 2^64) -/
theorem ceilPow2Aux_spec (fuel : Nat) : ∀ (j n : Nat), n ≤ 2 ^ (j + fuel) → (j = 0 ∨ 2 ^ (j - 1) < n) →
    ∃ k, ceilPow2Aux fuel (2 ^ j) n = 2 ^ k ∧ n ≤ 2 ^ k ∧ (k = 0 ∨ 2 ^ (k - 1) < n) := by
  induction fuel with
  | zero => intro j n hn hj; exact ⟨j, rfl, by simpa using hn, hj⟩
  | succ f ih =>
    intro j n hn hj
    simp only [ceilPow2Aux]
    by_cases h : n ≤ 2 ^ j
    · exact ⟨j, by simp [h], h, hj⟩
    · obtain ⟨k, hk, h1, h2⟩ := ih (j + 1) n (by rw [show j + 1 + f = j + (f + 1) by omega]; exact hn)
        (Or.inr (by simp only [Nat.add_sub_cancel]; omega))
      refine ⟨k, ?_, h1, h2⟩
      simp only [h, if_false]
      rw [← hk, Nat.pow_succ, Nat.mul_comm]

theorem ceilPow2_spec (n : Nat) (hn : n ≤ 2 ^ 64) :
    ∃ k, ceilPow2 n = 2 ^ k ∧ n ≤ 2 ^ k ∧ (k = 0 ∨ 2 ^ (k - 1) < n) := by
  have := ceilPow2Aux_spec 64 0 n (by simpa using hn) (Or.inl rfl)
  simpa [ceilPow2] using this

/-- a number whose bits are the 32-bit smear of `m < 2^32` is `ceilPow2 (m + 1) - 1` -/
theorem smeared_is_ceilPow2 {a m : Nat} (h : Smeared a m 32) (hm : m < 2 ^ 32) : a + 1 = ceilPow2 (m + 1) := by
  have h64 : m + 1 ≤ 2 ^ 64 := by
    have : (2:Nat) ^ 32 ≤ 2 ^ 64 := by decide
    omega
  obtain ⟨k, hk, h1, h2⟩ := ceilPow2_spec (m + 1) h64
  rw [hk]
  have hpos : 0 < 2 ^ k := Nat.pow_pos (by decide)
  suffices a = 2 ^ k - 1 by omega
  apply Nat.eq_of_testBit_eq
  intro i
  rw [Nat.testBit_two_pow_sub_one]
  by_cases hik : i < k
  · simp only [hik, decide_true]
    rw [h i]
    have hk1 : 2 ^ (k - 1) ≤ m := by
      rcases h2 with h2 | h2
      · omega
      · omega
    obtain ⟨b, hb, hbit⟩ := Nat.exists_ge_and_testBit_of_ge_two_pow hk1
    have hb32 : b < 32 := by
      have := Nat.ge_two_pow_of_testBit hbit
      have : 2 ^ b < 2 ^ 32 := by omega
      exact (Nat.pow_lt_pow_iff_right (by decide)).mp this
    exact ⟨b - i, by omega, by rw [show i + (b - i) = b by omega]; exact hbit⟩
  · simp only [hik, decide_false]
    cases hb : a.testBit i with
    | false => rfl
    | true =>
      exfalso
      obtain ⟨j, _, hbit⟩ := (h i).mp hb
      have h3 := Nat.ge_two_pow_of_testBit hbit
      have h4 : 2 ^ k ≤ 2 ^ (i + j) := (Nat.pow_le_pow_iff_right (by decide)).mpr (by omega)
      omega

def smear5 (m : Nat) : Nat :=
  let mask := m
  let mask := (mask ||| (mask >>> 1))
  let mask := (mask ||| (mask >>> 2))
  let mask := (mask ||| (mask >>> 4))
  let mask := (mask ||| (mask >>> 8))
  let mask := (mask ||| (mask >>> 16))
  mask

theorem smear5_smeared (m : Nat) : Smeared (smear5 m) m 32 :=
  smeared_step (smeared_step (smeared_step (smeared_step (smeared_step (smeared_self m)))))

end Nstd.Future.C10
