/-
  LEVEL 3 of the lexicographic termination measure of the repaired model (fix 0005): the WAIT-LOOP argument.

  `lev3 s = Σ_{t < nthreads} phi s t` (Fair2Pot.lean).  On a micro-step of the repaired model that is not a work event
  (`¬ workFr`), raises no flag and wakes nobody (`FlagsLe s' s t`), is not a spurious wake-up and is not the return
  of `Signal::set` (`sSetUnlock`, a step that strictly decreases level 2), `lev3` does not increase (`lev3_step`), and
  it strictly decreases at the back edges of the wait loops (`lev3_relock`, `lev3_chk2`).

  STACK DISCIPLINE used: `l3Disc (fr :: rest)` (a condition on the top frame and the frames directly below it only);
  `Disc` = `l3Disc` of every suffix.  BONUS (proved): `disc_reach` — `Disc th.stack` holds for every thread of every reachable
  state of the repaired model (via the inductive strengthening `l3DiscS` / `l3adj`), hence `lev3_step'` without `hdisc`.

  Proved: `phi_mono_others`, `l3own` (stepping thread, ≤), `l3own_relock`, `l3own_chk2` (stepping thread, <),
  `lev3_step`, `lev3_relock`, `lev3_chk2`, `disc_reach`, `lev3_step'`, `phiStk_le3`, `l3phiStk_le2`.
  Extra hypotheses of `lev3_step` beyond the task statement: `hsp` (not a spurious wake-up: `fr = sWaitCwake σ → t ∉ waiters`)
  and `hsu` (`fr ≠ sSetUnlock σ`; that step returns to a frame of class up to 3 and strictly decreases level 2).
  OPEN: nothing in this file.
-/
import Nstd.Future.Fair2Pot
set_option linter.unusedVariables false
set_option linter.unusedSimpArgs false
namespace Nstd.Future.F2

variable {cfg : Config} {s s' S : State} {t u : Tid} {out : List String} {th : Thread} {fr : Frame} {rest : List Frame}

/-! ### arithmetic of the flags -/

theorem l3b2n_le {a b : Bool} (h : a = true → b = true) : b2n a ≤ b2n b := by
  cases a <;> cases b <;> simp [b2n] at *

theorem l3b2n_le2 (a : Bool) : b2n a ≤ 2 := by cases a <;> simp [b2n]

theorem l3b2n_true {a : Bool} (h : a = true) : b2n a = 2 := by subst h; rfl

theorem l3b2n_false {a : Bool} (h : a = false) : b2n a = 0 := by subst h; rfl

theorem l3flagUp_le (h : FlagsLe s' s t) (σ : Nat) : flagUp s' σ = true → flagUp s σ = true := by
  simp only [flagUp, Bool.or_eq_true]
  rintro (h1 | h1)
  · exact Or.inl ((h σ).1 h1)
  · exact Or.inr ((h σ).2.1 h1)

theorem l3fu (h : FlagsLe s' s t) (σ : Nat) : b2n (flagUp s' σ) ≤ b2n (flagUp s σ) := l3b2n_le (l3flagUp_le h σ)
theorem l3sg (h : FlagsLe s' s t) (σ : Nat) : b2n (s'.sigs σ).signaled ≤ b2n (s.sigs σ).signaled := l3b2n_le (h σ).2.1
theorem l3st (h : FlagsLe s' s t) (σ : Nat) : b2n (stSet s' σ) ≤ b2n (stSet s σ) := l3b2n_le (h σ).1
theorem l3sg_fu (h : FlagsLe s' s t) (σ : Nat) : b2n (s'.sigs σ).signaled ≤ b2n (flagUp s σ) :=
  l3b2n_le (fun h1 => by simp only [flagUp, Bool.or_eq_true]; exact Or.inr ((h σ).2.1 h1))

/-! ### sums -/

theorem l3tsum_lt {n t : Nat} {f g : Nat → Nat} (ht : t < n) (hle : ∀ u, u < n → f u ≤ g u) (hlt : f t < g t) :
    tsum n f < tsum n g := by
  induction n with
  | zero => omega
  | succ n ih =>
    simp only [tsum]
    by_cases h : t = n
    · subst h
      have := tsum_le_mono (n := t) (f := f) (g := g) (fun u hu => hle u (by omega))
      omega
    · have := ih (by omega) (fun u hu => hle u (by omega))
      have := hle n (by omega)
      omega

/-! ### monotonicity of the credit of the other threads -/

/-- the credit of a stack is monotone in the flags (for a thread that stays in every wait set it was in) -/
theorem l3phiStk_mono (hfl : FlagsLe s' s t) (hu : u ≠ t) (l : List Frame) : phiStk s' u l ≤ phiStk s u l := by
  unfold phiStk
  split
  all_goals first
    | exact Nat.le_refl _
    | exact l3fu hfl _
    | exact l3sg hfl _
    | exact Nat.add_le_add_left (l3fu hfl _) _
    | exact Nat.add_le_add_left (l3sg hfl _) _
    | exact Nat.add_le_add_left (l3st hfl _) _
    | skip
  rename_i σ _
  by_cases hc : (s.sigs σ).waiters.contains u = true
  · have : (s'.sigs σ).waiters.contains u = true := by
      simp only [List.contains_iff_mem] at hc ⊢
      exact (hfl σ).2.2 u hu hc
    simp only [hc, this, if_true]; exact Nat.le_refl _
  · simp only [hc, if_false]
    split
    · omega
    · exact Nat.add_le_add_left (l3sg hfl _) _

/-- OTHER THREADS: a thread whose stack is unchanged does not gain credit when no flag is raised and it is not woken -/
theorem phi_mono_others (hfl : FlagsLe s' s t) (hu : u ≠ t) (hstk : thStack s' u = thStack s u) :
    phi s' u ≤ phi s u := by
  simp only [phi, hstk]; exact l3phiStk_mono hfl hu _

/-! ### classes of stacks -/

/-- stacks whose credit is at most 2 in every state ("default class" or lower) -/
def l3le2 : List Frame → Bool
  | .sWaitCwake _ :: _ | .sWaitRelock _ :: _ => false
  | .sRstLock _ :: .fRstLoad _ :: _ | .sRstStore _ :: .fRstLoad _ :: _ | .sRstUnlock _ :: .fRstLoad _ :: _ => false
  | .fRstLoad _ :: _ => false
  | .wPop2 :: _ | .ring _ :: .wChk2 :: _ | .wChk2 :: _ => false
  | .runPush2 _ :: _ | .ring _ :: .runChk2 _ :: _ | .runChk2 _ :: _ => false
  | .dPush2 _ :: _ | .ring _ :: .dChk2 _ :: _ | .dChk2 _ :: _ => false
  | _ => true

theorem phiStk_le3 (s : State) (t : Tid) (l : List Frame) : phiStk s t l ≤ 3 := by
  unfold phiStk
  split
  all_goals first
    | omega
    | exact Nat.add_le_add_left (l3b2n_le2 _) 1
    | exact Nat.le_trans (l3b2n_le2 _) (by decide)
    | skip
  rename_i σ _
  have := l3b2n_le2 (s.sigs σ).signaled
  split <;> omega

theorem l3phiStk_le2 {l : List Frame} (h : l3le2 l = true) (s : State) (t : Tid) : phiStk s t l ≤ 2 := by
  unfold phiStk
  split
  all_goals first
    | (simp [l3le2] at h; done)
    | omega
    | exact l3b2n_le2 _
    | skip

/-- the loop (σ = 0 worker loop, σ = 1 run / destructor loop) whose second attempt is the top frame -/
def l3loopOf : List Frame → Option Nat
  | .wPop2 :: _ => some 0
  | .runPush2 _ :: _ => some 1
  | .dPush2 _ :: _ => some 1
  | _ => none

theorem l3loopOf_phi {l : List Frame} {σ : Nat} (h : l3loopOf l = some σ) (s : State) (t : Tid) :
    phiStk s t l = 1 + b2n (flagUp s σ) := by
  unfold l3loopOf at h
  split at h <;> cases h <;> simp only [phiStk]

/-- the loop whose second check is the top frame -/
def l3chk : List Frame → Option Nat
  | .wChk2 :: _ => some 0
  | .runChk2 _ :: _ => some 1
  | .dChk2 _ :: _ => some 1
  | _ => none

theorem l3chk_phi {l : List Frame} {σ : Nat} (h : l3chk l = some σ) (s : State) (t : Tid) :
    phiStk s t l = 1 + b2n (flagUp s σ) := by
  unfold l3chk at h
  split at h <;> cases h <;> simp only [phiStk]

/-- credit of a ring frame, by the frames below it -/
def l3ringV (s : State) (l : List Frame) : Nat :=
  match l3chk l with
  | some σ => 1 + b2n (flagUp s σ)
  | none => 2

theorem l3ring_cons (s : State) (t : Tid) (pc : RingPc Job) (l : List Frame) :
    phiStk s t (.ring pc :: l) = l3ringV s l := by
  cases l with
  | nil => rfl
  | cons f r => cases f <;> rfl

def l3rstB : List Frame → Bool
  | .fRstLoad _ :: _ => true
  | _ => false

theorem l3rstLock_cons (s : State) (t : Tid) (σ : Nat) (l : List Frame) :
    phiStk s t (.sRstLock σ :: l) = if l3rstB l then 1 + b2n (stSet s σ) else 2 := by
  cases l with
  | nil => rfl
  | cons f r => cases f <;> rfl

theorem l3rstStore_cons (s : State) (t : Tid) (σ : Nat) (l : List Frame) :
    phiStk s t (.sRstStore σ :: l) = if l3rstB l then 1 + b2n (stSet s σ) else 2 := by
  cases l with
  | nil => rfl
  | cons f r => cases f <;> rfl

theorem l3rstUnlock_cons (s : State) (t : Tid) (σ : Nat) (l : List Frame) :
    phiStk s t (.sRstUnlock σ :: l) = if l3rstB l then 1 + b2n (flagUp s σ) else 2 := by
  cases l with
  | nil => rfl
  | cons f r => cases f <;> rfl

/-! ### the stack discipline -/

/-- the (non-work) frames whose micro-step may pop the frame and expose the frames below -/
def l3Returns : Frame → Bool
  | .sWaitUnlock _ | .fWait _ | .runRdTc _ | .runClk1 | .runClk2 _ | .runClk3 | .runSpUnlock _ | .runSpawned _
  | .runRetUnlock | .pDelete _ | .cStarted _ _ | .join _ | .joinClr _ | .evJoined _ | .evResult _ | .tStart => true
  | _ => false

/-- below `sRstUnlock σ`: the re-check `fRstLoad σ` of the same FastSignal, or a stack of default class -/
def l3belowRst (σ : Nat) : List Frame → Prop
  | .fRstLoad σ' :: _ => σ' = σ
  | l => l3le2 l = true

/-- STACK DISCIPLINE at the top of a stack (adjacent-pair conditions on the top frame and the frames below it):
    `fRstLoad σ` sits directly above the second attempt of the loop of σ (`wPop2` for σ = 0, `runPush2`/`dPush2` for σ = 1);
    below `sRstUnlock σ` is `fRstLoad σ` or a stack of default class; below a ring frame is a second check
    (`wChk2`/`runChk2`/`dChk2`) or a stack of default class; below every other returning frame is a stack of default class -/
def l3Disc : List Frame → Prop
  | [] => True
  | .fRstLoad σ :: rest => l3loopOf rest = some σ
  | .sRstUnlock σ :: rest => l3belowRst σ rest
  | .ring _ :: rest => l3chk rest = none → l3le2 rest = true
  | fr :: rest => l3Returns fr = true → l3le2 rest = true

/-- the discipline at every suffix of the stack -/
def Disc : List Frame → Prop
  | [] => True
  | fr :: rest => l3Disc (fr :: rest) ∧ Disc rest

theorem Disc.top {l : List Frame} (h : Disc l) : l3Disc l := by
  cases l with
  | nil => trivial
  | cons f r => exact h.1

theorem l3belowRst_phi {σ : Nat} (hd : l3belowRst σ rest) (hfl : FlagsLe S s t) :
    phiStk S t rest ≤ if l3rstB rest then 1 + b2n (flagUp s σ) else 2 := by
  unfold l3belowRst at hd
  split at hd
  · subst hd
    simp only [phiStk, l3rstB, if_true]
    exact Nat.add_le_add_left (l3fu hfl _) 1
  · next hneg =>
    have : l3rstB rest = false := by
      unfold l3rstB
      split
      · exact absurd rfl (hneg _ _)
      · rfl
    simp only [this]
    exact l3phiStk_le2 hd S t

/-! ### the stepping thread -/

theorem l3phi_of {stk : List Frame} (h : (S.threads t).map Thread.stack = some stk) : phi S t = phiStk S t stk := by
  simp only [phi, thStack]
  cases h1 : S.threads t with
  | none => rw [h1] at h; cases h
  | some x =>
    rw [h1] at h
    simp only [Option.map_some, Option.some.injEq] at h
    simp only [h]

theorem l3own_of {stk : List Frame} (h0 : phi s t = phiStk s t (fr :: rest))
    (hT : (S.threads t).map Thread.stack = some stk) (hle : phiStk S t stk ≤ phiStk s t (fr :: rest)) :
    phi S t ≤ phi s t := by
  rw [h0, l3phi_of hT]; exact hle

theorem l3own_lt_of {stk : List Frame} (h0 : phi s t = phiStk s t (fr :: rest))
    (hT : (S.threads t).map Thread.stack = some stk) (hle : phiStk S t stk < phiStk s t (fr :: rest)) :
    phi S t < phi s t := by
  rw [h0, l3phi_of hT]; exact hle

theorem l3own_le2 (h0 : phi s t = 2) (hT : ∃ th', S.threads t = some th' ∧ l3le2 th'.stack = true) :
    phi S t ≤ phi s t := by
  obtain ⟨th', h1, h2⟩ := hT
  rw [h0, l3phi_of (stk := th'.stack) (by rw [h1]; rfl)]
  exact l3phiStk_le2 h2 S t

theorem l3fs_set0 (p : Pool) (σ : Nat) : fsState (setFsState p σ 0) σ = 0 := by
  unfold fsState setFsState
  by_cases h : σ = 0 <;> simp [h]

theorem l3phi_fault (s : State) (m : String) (t : Tid) : phi (withFault s m) t = phi s t := rfl

macro "l3stk" : tactic => `(tactic| (simp [setThread, setSig, setPool, upd_same, Thread.cont, *]; done))

set_option maxHeartbeats 4000000 in
/-- THE STEPPING THREAD: its loop credit does not increase -/
theorem l3own {O : List String} (hrep : s.cfg.repaired = true) (hth : s.threads t = some th) (hst : th.stack = fr :: rest)
    (hsf : stepFrame s t th fr = (S, O)) (hnw : ¬ workFr s th fr) (hfl : FlagsLe S s t) (hd : l3Disc (fr :: rest))
    (hsp : ∀ σ, fr = .sWaitCwake σ → (s.sigs σ).waiters.contains t = false) (hsu : ∀ σ, fr ≠ .sSetUnlock σ) :
    phi S t ≤ phi s t := by
  have h0 : phi s t = phiStk s t (fr :: rest) := by simp only [phi, thStack, hth, hst]
  cases fr
  case sSetUnlock σ => exact absurd rfl (hsu σ)
  case sRstLock σ =>
    simp only [stepFrame, Prod.mk.injEq] at hsf
    obtain ⟨rfl, -⟩ := hsf
    refine l3own_of h0 (stk := .sRstStore σ :: rest) (by l3stk) ?_
    rw [l3rstStore_cons, l3rstLock_cons]
    split
    · exact Nat.add_le_add_left (l3st hfl σ) 1
    · exact Nat.le_refl _
  case sRstStore σ =>
    simp only [stepFrame, Prod.mk.injEq] at hsf
    obtain ⟨rfl, -⟩ := hsf
    refine l3own_of h0 (stk := .sRstUnlock σ :: rest) (by l3stk) ?_
    rw [l3rstStore_cons, l3rstUnlock_cons]
    split
    · refine Nat.add_le_add_left (l3b2n_le ?_) 1
      intro h1
      refine (hfl σ).1 ?_
      simpa [flagUp, setThread, setSig, upd_same] using h1
    · exact Nat.le_refl _
  case sRstUnlock σ =>
    simp only [stepFrame, Prod.mk.injEq] at hsf
    obtain ⟨rfl, -⟩ := hsf
    refine l3own_of h0 (stk := rest) (by l3stk) ?_
    rw [l3rstUnlock_cons]
    exact l3belowRst_phi hd hfl
  case sWaitLock σ =>
    simp only [stepFrame, Prod.mk.injEq] at hsf
    obtain ⟨rfl, -⟩ := hsf
    refine l3own_of h0 (stk := .sWaitChk σ :: rest) (by l3stk) ?_
    simp only [phiStk]
    exact l3sg hfl σ
  case sWaitChk σ =>
    simp only [stepFrame] at hsf
    by_cases hc : (s.sigs σ).signaled = true
    · simp only [hc, if_true, Prod.mk.injEq] at hsf
      obtain ⟨rfl, -⟩ := hsf
      refine l3own_of h0 (stk := .sWaitUnlock σ :: rest) (by l3stk) ?_
      simp only [phiStk, l3b2n_true hc]
      exact Nat.le_refl _
    · simp only [hc, if_false, Prod.mk.injEq] at hsf
      obtain ⟨rfl, -⟩ := hsf
      refine l3own_of h0 (stk := .sWaitCwait σ :: rest) (by l3stk) ?_
      simp only [phiStk]
      exact Nat.zero_le _
  case sWaitCwait σ =>
    simp only [stepFrame, Prod.mk.injEq] at hsf
    obtain ⟨rfl, -⟩ := hsf
    refine l3own_of h0 (stk := .sWaitCwake σ :: rest) (by l3stk) ?_
    simp [phiStk, setThread, setSig, upd_same]
  case sWaitCwake σ =>
    have hc := hsp σ rfl
    simp only [stepFrame, hc, Bool.false_eq_true, if_false, Prod.mk.injEq] at hsf
    obtain ⟨rfl, -⟩ := hsf
    refine l3own_of h0 (stk := .sWaitRelock σ :: rest) (by l3stk) ?_
    simp only [phiStk, hc, Bool.false_eq_true, if_false]
    exact Nat.add_le_add_left (l3sg hfl σ) 1
  case sWaitRelock σ =>
    simp only [stepFrame, Prod.mk.injEq] at hsf
    obtain ⟨rfl, -⟩ := hsf
    refine l3own_of h0 (stk := .sWaitChk σ :: rest) (by l3stk) ?_
    simp only [phiStk]
    exact Nat.le_trans (l3sg hfl σ) (Nat.le_add_left _ _)
  case fRst σ =>
    cases hp : s.pool with
    | none =>
      simp only [stepFrame, hp, Prod.mk.injEq] at hsf
      obtain ⟨rfl, -⟩ := hsf
      exact Nat.le_refl _
    | some p =>
      simp only [stepFrame, hp, hrep, if_true, Prod.mk.injEq] at hsf
      obtain ⟨rfl, -⟩ := hsf
      refine l3own_of h0 (stk := .sRstLock σ :: .fRstLoad σ :: rest) (by l3stk) ?_
      simp [phiStk, stSet, setThread, setPool, l3fs_set0, b2n]
  case fRstLoad σ =>
    cases hp : s.pool with
    | none =>
      simp only [stepFrame, hp, Prod.mk.injEq] at hsf
      obtain ⟨rfl, -⟩ := hsf
      exact Nat.le_refl _
    | some p =>
      simp only [stepFrame, hp] at hsf
      by_cases hc : fsState p σ = 0
      rotate_left
      · simp only [hc, ↓reduceIte, ne_eq, not_true_eq_false, not_false_eq_true, Prod.mk.injEq] at hsf
        obtain ⟨rfl, -⟩ := hsf
        refine l3own_of h0 (stk := .sSetLock σ :: rest) (by l3stk) ?_
        have : flagUp s σ = true := by simp [flagUp, stSet, hp, hc]
        simp only [phiStk, l3b2n_true this]
        omega
      · simp only [hc, ↓reduceIte, ne_eq, not_true_eq_false, not_false_eq_true, Prod.mk.injEq] at hsf
        obtain ⟨rfl, -⟩ := hsf
        refine l3own_of h0 (stk := rest) (by l3stk) ?_
        simp only [l3Disc] at hd
        rw [l3loopOf_phi hd]
        simp only [phiStk]
        exact Nat.add_le_add_left (l3fu hfl σ) 1
  case fWait σ =>
    cases hp : s.pool with
    | none =>
      simp only [stepFrame, hp, Prod.mk.injEq] at hsf
      obtain ⟨rfl, -⟩ := hsf
      exact Nat.le_refl _
    | some p =>
      simp only [stepFrame, hp] at hsf
      by_cases hc : fsState p σ = 0
      rotate_left
      · simp only [hc, ↓reduceIte, ne_eq, not_true_eq_false, not_false_eq_true, Prod.mk.injEq] at hsf
        obtain ⟨rfl, -⟩ := hsf
        refine l3own_of h0 (stk := rest) (by l3stk) ?_
        have : flagUp s σ = true := by simp [flagUp, stSet, hp, hc]
        simp only [phiStk, l3b2n_true this]
        simp only [l3Disc, l3Returns, forall_const] at hd
        exact l3phiStk_le2 hd _ t
      · simp only [hc, ↓reduceIte, ne_eq, not_true_eq_false, not_false_eq_true, Prod.mk.injEq] at hsf
        obtain ⟨rfl, -⟩ := hsf
        refine l3own_of h0 (stk := .sWaitLock σ :: rest) (by l3stk) ?_
        simp only [phiStk]
        exact l3sg_fu hfl σ
  case wPop2 =>
    simp only [stepFrame, Prod.mk.injEq] at hsf
    obtain ⟨rfl, -⟩ := hsf
    refine l3own_of h0 (stk := .ring .popRead :: .wChk2 :: rest) (by l3stk) ?_
    simp only [phiStk]
    exact Nat.add_le_add_left (l3fu hfl 0) 1
  case runPush2 j =>
    simp only [stepFrame, Prod.mk.injEq] at hsf
    obtain ⟨rfl, -⟩ := hsf
    refine l3own_of h0 (stk := .ring (.pushRead j) :: .runChk2 j :: rest) (by l3stk) ?_
    simp only [phiStk]
    exact Nat.add_le_add_left (l3fu hfl 1) 1
  case dPush2 i =>
    simp only [stepFrame, Prod.mk.injEq] at hsf
    obtain ⟨rfl, -⟩ := hsf
    refine l3own_of h0 (stk := .ring (.pushRead none) :: .dChk2 i :: rest) (by l3stk) ?_
    simp only [phiStk]
    exact Nat.add_le_add_left (l3fu hfl 1) 1
  case wChk2 =>
    have hb : th.retB = false := by simpa [workFr] using hnw
    simp only [stepFrame, hb, Bool.false_eq_true, if_false, Prod.mk.injEq] at hsf
    obtain ⟨rfl, -⟩ := hsf
    refine l3own_of h0 (stk := .fWait 0 :: .wPop1 :: rest) (by l3stk) ?_
    simp only [phiStk]
    exact Nat.le_trans (l3fu hfl 0) (Nat.le_add_left _ _)
  case runChk2 j =>
    have hb : th.retB = false := by simpa [workFr] using hnw
    simp only [stepFrame, hb, Bool.false_eq_true, if_false, Prod.mk.injEq] at hsf
    obtain ⟨rfl, -⟩ := hsf
    refine l3own_of h0 (stk := .fWait 1 :: .runStart j :: rest) (by l3stk) ?_
    simp only [phiStk]
    exact Nat.le_trans (l3fu hfl 1) (Nat.le_add_left _ _)
  case dChk2 i =>
    have hb : th.retB = false := by simpa [workFr] using hnw
    simp only [stepFrame, hb, Bool.false_eq_true, if_false, Prod.mk.injEq] at hsf
    obtain ⟨rfl, -⟩ := hsf
    refine l3own_of h0 (stk := .fWait 1 :: .dPush i :: rest) (by l3stk) ?_
    simp only [phiStk]
    exact Nat.le_trans (l3fu hfl 1) (Nat.le_add_left _ _)
  case ring pc =>
    cases hp : s.pool with
    | none =>
      simp only [stepFrame, hp, Prod.mk.injEq] at hsf
      obtain ⟨rfl, -⟩ := hsf
      exact Nat.le_refl _
    | some p =>
      simp only [stepFrame, hp] at hsf
      have hcont : ∀ pc', phiStk S t (.ring pc' :: rest) ≤ phiStk s t (.ring pc :: rest) := by
        intro pc'
        rw [l3ring_cons, l3ring_cons]
        unfold l3ringV
        split
        · exact Nat.add_le_add_left (l3fu hfl _) 1
        · exact Nat.le_refl _
      have hret : phiStk S t rest ≤ phiStk s t (.ring pc :: rest) := by
        rw [l3ring_cons]
        unfold l3ringV
        simp only [l3Disc] at hd
        split
        · next σ hσ => rw [l3chk_phi hσ]; exact Nat.add_le_add_left (l3fu hfl _) 1
        · next hσ => exact l3phiStk_le2 (hd hσ) S t
      rcases hrs : ringStep p.ring pc with ⟨r', res⟩
      rw [hrs] at hsf
      cases res with
      | cont pc' =>
        simp only [Prod.mk.injEq] at hsf
        obtain ⟨hS, -⟩ := hsf
        exact l3own_of h0 (stk := .ring pc' :: rest) (by subst hS; l3stk) (hcont pc')
      | pushed ok =>
        simp only [Prod.mk.injEq] at hsf
        obtain ⟨hS, -⟩ := hsf
        exact l3own_of h0 (stk := rest) (by subst hS; l3stk) hret
      | popped o =>
        rcases o with _ | _ | j
        all_goals
          simp only [Prod.mk.injEq] at hsf
          obtain ⟨hS, -⟩ := hsf
          exact l3own_of h0 (stk := rest) (by subst hS; simp [withFault, setThread, setSig, setPool, upd_same, Thread.cont, *]; done) hret
  all_goals first
    | (exfalso; simp [workFr] at hnw; done)
    | skip
  all_goals
    have h2 : phi s t = 2 := by rw [h0]; simp only [phiStk]
    refine l3own_le2 h2 ?_
    try simp [l3Disc, l3Returns] at hd
    simp only [stepFrame, hrep, ↓reduceIte] at hsf
    (repeat' split at hsf)
  all_goals
    simp only [Prod.mk.injEq] at hsf
    obtain ⟨rfl, -⟩ := hsf
    simp [setThread, setSig, setPool, setFut, withFault, destroySig, upd_same, Thread.cont, *] <;> first | rfl | assumption

/-- the back edge of `Signal::wait` (re-lock after a wake-up): the credit of the stepping thread strictly decreases -/
theorem l3own_relock {O : List String} {σ : Nat} (hth : s.threads t = some th) (hst : th.stack = .sWaitRelock σ :: rest)
    (hsf : stepFrame s t th (.sWaitRelock σ) = (S, O)) (hfl : FlagsLe S s t) : phi S t < phi s t := by
  have h0 : phi s t = phiStk s t (.sWaitRelock σ :: rest) := by simp only [phi, thStack, hth, hst]
  simp only [stepFrame, Prod.mk.injEq] at hsf
  obtain ⟨rfl, -⟩ := hsf
  refine l3own_lt_of h0 (stk := .sWaitChk σ :: rest) (by l3stk) ?_
  simp only [phiStk]
  have := l3sg hfl σ
  omega

/-- the back edges of the wait loops (second attempt failed: wait and retry) -/
theorem l3own_chk2 {O : List String} (hth : s.threads t = some th) (hst : th.stack = fr :: rest)
    (hfr : fr = .wChk2 ∨ (∃ j, fr = .runChk2 j) ∨ (∃ i, fr = .dChk2 i)) (hb : th.retB = false)
    (hsf : stepFrame s t th fr = (S, O)) (hfl : FlagsLe S s t) : phi S t < phi s t := by
  have h0 : phi s t = phiStk s t (fr :: rest) := by simp only [phi, thStack, hth, hst]
  rcases hfr with rfl | ⟨j, rfl⟩ | ⟨i, rfl⟩
  · simp only [stepFrame, hb, Bool.false_eq_true, if_false, Prod.mk.injEq] at hsf
    obtain ⟨rfl, -⟩ := hsf
    refine l3own_lt_of h0 (stk := .fWait 0 :: .wPop1 :: rest) (by l3stk) ?_
    simp only [phiStk]
    have := l3fu hfl 0
    omega
  · simp only [stepFrame, hb, Bool.false_eq_true, if_false, Prod.mk.injEq] at hsf
    obtain ⟨rfl, -⟩ := hsf
    refine l3own_lt_of h0 (stk := .fWait 1 :: .runStart j :: rest) (by l3stk) ?_
    simp only [phiStk]
    have := l3fu hfl 1
    omega
  · simp only [stepFrame, hb, Bool.false_eq_true, if_false, Prod.mk.injEq] at hsf
    obtain ⟨rfl, -⟩ := hsf
    refine l3own_lt_of h0 (stk := .fWait 1 :: .dPush i :: rest) (by l3stk) ?_
    simp only [phiStk]
    have := l3fu hfl 1
    omega

/-! ### the sum -/

theorem l3spawns_of_nw (hnw : ¬ workFr s th fr) : FR.spawns fr = false := by
  cases fr
  all_goals first
    | rfl
    | (exfalso; simp [workFr] at hnw; done)

/-- a non-work micro-step: same thread count, the other threads keep their stacks -/
theorem l3frame (hr : Reach cfg s) (h : step s t = some (s', out)) (hth : s.threads t = some th)
    (hst : th.stack = fr :: rest) (hnw : ¬ workFr s th fr) :
    (∃ O, stepFrame s t th fr = (s', O)) ∧ t < s.nthreads ∧ s'.nthreads = s.nthreads ∧
      ∀ u, u < s.nthreads → u ≠ t → thStack s' u = thStack s u := by
  obtain ⟨th0, fr0, rest0, hth0, hst0, -, -, hs'⟩ := lkStep_inv h
  rw [hth] at hth0
  cases hth0
  rw [hst] at hst0
  cases hst0
  refine ⟨⟨(stepFrame s t th fr).2, by rw [hs']⟩, thread_lt hr hth, ?_, ?_⟩
  · rw [hs']; exact FR.flNth s t th fr (l3spawns_of_nw hnw)
  · intro u hu hut
    simp only [thStack]
    rw [hs', FR.flOthers s t th fr u hut (Nat.ne_of_lt hu)]

theorem l3sum_le (hn : s'.nthreads = s.nthreads) (hle : ∀ u, u < s.nthreads → phi s' u ≤ phi s u) :
    lev3 s' ≤ lev3 s := by
  simp only [lev3, hn]
  exact tsum_le_mono hle

theorem l3sum_lt (hn : s'.nthreads = s.nthreads) (ht : t < s.nthreads) (hle : ∀ u, u < s.nthreads → phi s' u ≤ phi s u)
    (hlt : phi s' t < phi s t) : lev3 s' < lev3 s := by
  simp only [lev3, hn]
  exact l3tsum_lt ht hle hlt

/-- LEVEL 3 NEVER INCREASES on a micro-step of the repaired model that is not a work event, raises no flag and wakes
    nobody, is not a spurious wake-up and is not the return of `Signal::set` -/
theorem lev3_step (hrep : cfg.repaired = true) (hr : Reach cfg s) (h : step s t = some (s', out))
    (hth : s.threads t = some th) (hst : th.stack = fr :: rest) (hnw : ¬ workFr s th fr) (hfl : FlagsLe s' s t)
    (hdisc : l3Disc (fr :: rest))
    (hsp : ∀ σ, fr = .sWaitCwake σ → t ∉ (s.sigs σ).waiters) (hsu : ∀ σ, fr ≠ .sSetUnlock σ) :
    lev3 s' ≤ lev3 s := by
  obtain ⟨⟨O, hsf⟩, ht, hn, hoth⟩ := l3frame hr h hth hst hnw
  have hrep' : s.cfg.repaired = true := by rw [reach_cfg hr]; exact hrep
  refine l3sum_le hn (fun u hu => ?_)
  by_cases hut : u = t
  · subst hut
    refine l3own hrep' hth hst hsf hnw hfl hdisc (fun σ e => ?_) hsu
    have := hsp σ e
    simpa [List.contains_iff_mem] using this
  · exact phi_mono_others hfl hut (hoth u hu hut)

/-- STRICT DECREASE at the back edge of `Signal::wait` -/
theorem lev3_relock {σ : Nat} (hrep : cfg.repaired = true) (hr : Reach cfg s) (h : step s t = some (s', out))
    (hth : s.threads t = some th) (hst : th.stack = .sWaitRelock σ :: rest) (hfl : FlagsLe s' s t) :
    lev3 s' < lev3 s := by
  have hnw : ¬ workFr s th (.sWaitRelock σ) := by simp [workFr]
  obtain ⟨⟨O, hsf⟩, ht, hn, hoth⟩ := l3frame hr h hth hst hnw
  have hrep' : s.cfg.repaired = true := by rw [reach_cfg hr]; exact hrep
  have hlt := l3own_relock hth hst hsf hfl
  refine l3sum_lt hn ht (fun u hu => ?_) hlt
  by_cases hut : u = t
  · subst hut; exact Nat.le_of_lt hlt
  · exact phi_mono_others hfl hut (hoth u hu hut)

/-- STRICT DECREASE at the back edges of the wait loops: the failed second attempt `wChk2` / `runChk2 j` / `dChk2 i`
    (`th.retB = false`, i.e. `¬ workFr`) -/
theorem lev3_chk2 (hrep : cfg.repaired = true) (hr : Reach cfg s) (h : step s t = some (s', out))
    (hth : s.threads t = some th) (hst : th.stack = fr :: rest)
    (hfr : fr = .wChk2 ∨ (∃ j, fr = .runChk2 j) ∨ (∃ i, fr = .dChk2 i)) (hb : th.retB = false)
    (hfl : FlagsLe s' s t) : lev3 s' < lev3 s := by
  have hnw : ¬ workFr s th fr := by
    rcases hfr with rfl | ⟨j, rfl⟩ | ⟨i, rfl⟩ <;> simp [workFr, hb]
  obtain ⟨⟨O, hsf⟩, ht, hn, hoth⟩ := l3frame hr h hth hst hnw
  have hlt := l3own_chk2 hth hst hfr hb hsf hfl
  refine l3sum_lt hn ht (fun u hu => ?_) hlt
  by_cases hut : u = t
  · subst hut; exact Nat.le_of_lt hlt
  · exact phi_mono_others hfl hut (hoth u hu hut)

/-! ### BONUS: the discipline is an invariant -/

/-- what must sit below a frame (the inductive form of the discipline) -/
def l3adj : Frame → List Frame → Prop
  | .sSetLock _, _ | .sSetStore _, _ | .sSetBcast _ _, _ | .sSetUnlock _, _ => True
  | .fRst σ, l => l3loopOf l = some σ
  | .fRstLoad σ, l => l3loopOf l = some σ
  | .sRstLock σ, l | .sRstStore σ, l | .sRstUnlock σ, l => l3belowRst σ l
  | .ring _, l => l3chk l = none → l3le2 l = true
  | _, l => l3le2 l = true

/-- the inductive stack discipline -/
def l3DiscS : List Frame → Prop
  | [] => True
  | fr :: rest => l3adj fr rest ∧ l3DiscS rest

theorem l3discS_nil : l3DiscS [] := trivial
theorem l3discS_cons {a : Frame} {l : List Frame} : l3DiscS (a :: l) ↔ l3adj a l ∧ l3DiscS l := Iff.rfl

theorem l3belowRst_load (σ σ' : Nat) (l : List Frame) : l3belowRst σ (.fRstLoad σ' :: l) = (σ' = σ) := rfl
theorem l3belowRst_joinClr (σ f : Nat) (l : List Frame) : l3belowRst σ (.joinClr f :: l) = (l3le2 (.joinClr f :: l) = true) := rfl

set_option maxHeartbeats 4000000 in
theorem l3discS_own (hrep : s.cfg.repaired = true) (hth : s.threads t = some th) (hst : th.stack = fr :: rest)
    (hD : l3DiscS (fr :: rest)) : ∀ th', (stepFrame s t th fr).1.threads t = some th' → l3DiscS th'.stack := by
  obtain ⟨ha, hR⟩ := hD
  cases fr
  case ring pc =>
    have hcont : ∀ pc', l3adj (.ring pc') rest := fun pc' => by simp only [l3adj] at ha ⊢; exact ha
    cases hp : s.pool with
    | none =>
      simp only [stepFrame, hp]
      intro th' h
      simp [withFault, hth] at h
      subst h
      rw [hst]
      exact ⟨ha, hR⟩
    | some p =>
      simp only [stepFrame, hp]
      rcases hrs : ringStep p.ring pc with ⟨r', res⟩
      cases res with
      | cont pc' =>
        intro th' h
        simp [setThread, setPool, upd_same] at h
        subst h
        simp only [Thread.cont, hst, List.drop_one, List.tail_cons, List.cons_append, List.nil_append]
        exact ⟨hcont pc', hR⟩
      | pushed ok =>
        intro th' h
        simp [setThread, setPool, upd_same] at h
        subst h
        simp only [Thread.cont, hst, List.drop_one, List.tail_cons, List.cons_append, List.nil_append]
        exact hR
      | popped o =>
        rcases o with _ | _ | j
        all_goals
          intro th' h
          simp [setThread, setPool, withFault, upd_same] at h
          subst h
          simp only [Thread.cont, hst, List.drop_one, List.tail_cons, List.cons_append, List.nil_append]
          exact hR
  all_goals
    simp only [l3adj] at ha
    simp only [stepFrame, hrep, ↓reduceIte]
    repeat' split
  all_goals
    intro th' h
    simp [setThread, setSig, setPool, setFut, withFault, destroySig, upd_same, hth] at h
    subst h
    simp [Thread.cont, hst, l3discS_cons, l3discS_nil, l3adj, l3belowRst_load, l3belowRst_joinClr, *]
  all_goals
    and_intros
  all_goals first
    | rfl
    | assumption
    | (intro h; first | rfl | (simp [l3chk] at h; done))
    | skip

/-- the inductive discipline implies the discipline used by `lev3_step` -/
theorem l3adj_disc {l : List Frame} (h : l3adj fr l) : l3Disc (fr :: l) := by
  cases fr
  all_goals first
    | (simp only [l3adj] at h; simp only [l3Disc]; intro _; exact h)
    | (simp only [l3adj] at h; simp only [l3Disc]; exact h)
    | (simp only [l3Disc]; intro h1; simp [l3Returns] at h1; done)

theorem l3DiscS.disc {l : List Frame} (h : l3DiscS l) : Disc l := by
  induction l with
  | nil => trivial
  | cons a l ih => exact ⟨l3adj_disc h.1, ih h.2⟩

def l3DiscInv (s : State) : Prop := ∀ t th, s.threads t = some th → l3DiscS th.stack

theorem l3discInv_init (cfg : Config) : l3DiscInv (State.init cfg) := by
  intro t th h
  simp only [State.init] at h
  split at h
  · injection h with h; subst h
    exact ⟨rfl, trivial⟩
  · cases h

theorem l3discInv_step {o : List String} (hrep : s.cfg.repaired = true) (hI : l3DiscInv s)
    (h : step s t = some (s', o)) : l3DiscInv s' := by
  obtain ⟨th, fr, rest, hth, hst, hfin, rfl⟩ := step_inv h
  have hk := LW.shapeK s t th fr rest hth hst hrep
  intro u thu hthu
  by_cases hu : u = t
  · subst hu
    exact l3discS_own hrep hth hst (by rw [← hst]; exact hI u th hth) thu hthu
  · rcases hk.others u hu with h2 | ⟨_, h2 | ⟨sc, h2⟩⟩
    · rw [h2] at hthu; exact hI u thu hthu
    · rw [hthu] at h2; injection h2 with h2; subst h2; exact ⟨rfl, rfl, trivial⟩
    · rw [hthu] at h2; injection h2 with h2; subst h2; exact ⟨rfl, rfl, trivial⟩

theorem l3discS_reach (hrep : cfg.repaired = true) (hr : Reach cfg s) : l3DiscInv s := by
  induction hr with
  | init => exact l3discInv_init cfg
  | step t hr hs ih => exact l3discInv_step (by rw [reach_cfg hr]; exact hrep) ih hs

/-- BONUS: the stack discipline is an invariant of the repaired model -/
theorem disc_reach (hrep : cfg.repaired = true) (hr : Reach cfg s) (hth : s.threads t = some th) : Disc th.stack :=
  (l3discS_reach hrep hr t th hth).disc

/-- `lev3_step` without the discipline hypothesis -/
theorem lev3_step' (hrep : cfg.repaired = true) (hr : Reach cfg s) (h : step s t = some (s', out))
    (hth : s.threads t = some th) (hst : th.stack = fr :: rest) (hnw : ¬ workFr s th fr) (hfl : FlagsLe s' s t)
    (hsp : ∀ σ, fr = .sWaitCwake σ → t ∉ (s.sigs σ).waiters) (hsu : ∀ σ, fr ≠ .sSetUnlock σ) :
    lev3 s' ≤ lev3 s :=
  lev3_step hrep hr h hth hst hnw hfl (by rw [← hst]; exact (disc_reach hrep hr hth).top) hsp hsu

end Nstd.Future.F2
