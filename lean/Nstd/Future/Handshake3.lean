/-
  Completion handshake of a Future, part 3: effect of a micro-step on the bookkeeping fields
  (`calls`, `everCalls`, `nextCall`, `completed`, `curCall`, `aborting`/`abortReq`), new threads.
-/
import Nstd.Future.Handshake2
set_option linter.unusedSimpArgs false
set_option linter.unusedVariables false
namespace Nstd.Future

structure HsShapeE (s s' : State) (t : Tid) (fr : Frame) : Prop where
  cfg : s'.cfg = s.cfg
  ev : (s'.everCalls = s.everCalls ∧ s'.nextCall = s.nextCall ∧ ∀ c r, s'.calls c = some r → s.calls c = some r) ∨
       (∃ r, s'.everCalls = upd s.everCalls s.nextCall (some r) ∧ s'.calls = upd s.calls s.nextCall (some r) ∧
          s'.nextCall = s.nextCall + 1)
  compl : ∀ c, s'.completed c = true → s.completed c = true ∨ (s.calls c).isSome = true
  complMono : ∀ c, s.completed c = true → s'.completed c = true
  cur : ∀ f c, (s'.futs f).curCall = some c → (s.futs f).curCall = some c ∨ ∃ r, s.calls c = some r ∧ r.fut = f
  ab : ∀ f, (s'.futs f).aborting = true → (s'.futs f).abortReq = true ∨
      ((s.futs f).aborting = true ∧ (s'.futs f).abortReq = (s.futs f).abortReq)
  ct : s'.clientTids = s.clientTids ∨ s'.clientTids = s.clientTids ++ [s.nthreads]
  others : ∀ u, u ≠ t → s'.threads u = s.threads u ∨
      (∃ thw, s'.threads u = some thw ∧ thw.stack = [.tStart, .wPop1] ∧ thw.script = [] ∧ thw.used = []) ∨
      (∃ i sc thw, fr = .mSpawn i ∧ s.cfg.scripts[i]? = some sc ∧ s'.threads u = some thw ∧
        thw.stack = [.tStart, .cNext] ∧ thw.script = sc ∧ thw.used = [] ∧ s'.clientTids = s.clientTids ++ [u])

set_option maxHeartbeats 8000000 in
theorem hsShapeE (s : State) (t : Tid) (th : Thread) (fr : Frame) (rest : List Frame)
    (hth : s.threads t = some th) (hst : th.stack = fr :: rest) :
    HsShapeE s (stepFrame s t th fr).1 t fr := by
  cases fr <;> simp only [stepFrame] <;> repeat' split
  all_goals
    constructor
    · simp [setThread, setSig, setPool, setFut, withFault, destroySig]
    · simp [setThread, setSig, setPool, setFut, withFault, destroySig]
      try first
        | exact ⟨_, rfl, rfl⟩
        | (intro c r; simp [upd]; try grind)
    · intro c
      simp [setThread, setSig, setPool, setFut, withFault, destroySig, upd]
      try grind
    · intro c
      simp [setThread, setSig, setPool, setFut, withFault, destroySig, upd]
      try grind
    · intro f c
      simp [setThread, setSig, setPool, setFut, withFault, destroySig, upd]
      try grind
    · intro f
      simp [setThread, setSig, setPool, setFut, withFault, destroySig, upd]
      try grind
    · simp [setThread, setSig, setPool, setFut, withFault, destroySig]
    · intro u hu
      simp [setThread, setSig, setPool, setFut, withFault, destroySig, upd_ne _ _ hu]
      try (by_cases hw : u = s.nthreads
           · right; subst hw; simp [upd_same, *]
           · left; exact upd_ne _ _ hw)

end Nstd.Future
