/-
  Safety of the Future/ThreadPool model, part 2: the stack discipline `StackOk` is preserved by every
  micro-step; precise description of the threads a step creates.
-/
import Nstd.Future.Safety1
set_option linter.unusedSimpArgs false
set_option linter.unusedVariables false
namespace Nstd.Future

theorem ringStep_cont {r r' : Ring Job} {pc pc' : RingPc Job} (h : ringStep r pc = (r', .cont pc')) :
    pushPay pc' = pushPay pc ∧ isPop pc' = isPop pc := by
  cases pc <;> simp only [ringStep] at h
  all_goals first
    | (split at h <;> (injection h with h1 h2; first | (injection h2 with h2; subst h2; exact ⟨rfl, rfl⟩) | cases h2))
    | (injection h with h1 h2; first | (injection h2 with h2; subst h2; exact ⟨rfl, rfl⟩) | cases h2)

theorem compat_congr {pc pc' : RingPc Job} {g : Frame} (h1 : pushPay pc' = pushPay pc)
    (h2 : isPop pc' = isPop pc) (h : compat pc g) : compat pc' g := by
  cases g <;> simp only [compat] at h ⊢ <;> first | (rw [h1]; exact h) | (rw [h2]; exact h) | trivial

theorem stackOk_ring {pc : RingPc Job} {rest : List Frame} (h : StackOk (.ring pc :: rest)) :
    NoChk rest.tail ∧ NoWD rest := by
  constructor
  · rcases h.chk with h1 | h1
    · exact NoChk.tail h1
    · exact h1.2
  · rcases wdOk_nonset h.wd with h1 | h1
    · cases h1
    · exact h1

theorem stackOk_ring_cont {pc pc' : RingPc Job} {rest : List Frame} (h : StackOk (.ring pc :: rest))
    (h1 : pushPay pc' = pushPay pc) (h2 : isPop pc' = isPop pc) : StackOk (.ring pc' :: rest) := by
  obtain ⟨hc, hw⟩ := stackOk_ring h
  refine ⟨Or.inr ⟨rfl, hc⟩, Or.inl hw, ?_⟩
  cases rest with
  | nil => trivial
  | cons g r => exact compat_congr h1 h2 h.link

theorem stackOk_ring_ret {pc : RingPc Job} {rest : List Frame} (h : StackOk (.ring pc :: rest))
    (hrest : NoSpec rest) : StackOk rest := by
  obtain ⟨hc, hw⟩ := stackOk_ring h
  exact ⟨Or.inl hc, wdOk_of_noWD hw, linkOk_of_noSpec hrest⟩

/-- what one step does to the other threads, and to the own stack discipline -/
structure ShapeS (s s' : State) (t : Tid) (th : Thread) (fr : Frame) (rest : List Frame) : Prop where
  self : ∀ th', s'.threads t = some th' → StackOk th'.stack ∧ th'.isWorker = th.isWorker ∧
      (NoW (fr :: rest) → NoW th'.stack) ∧ (LastOnly (fr :: rest) → LastOnly th'.stack)
  others : ∀ u, u ≠ t → s'.threads u = s.threads u ∨
      (u = s.nthreads ∧
        (s'.threads u = some { stack := [.tStart, .wPop1], isWorker := true } ∨
         ∃ sc, s'.threads u = some { stack := [.tStart, .cNext], script := sc }))
  nth : s'.nthreads = s.nthreads ∨ s'.nthreads = s.nthreads + 1

theorem noW_ring_tail {pc : RingPc Job} {rest : List Frame} (h : NoW (.ring pc :: rest)) : NoW rest :=
  (noW_cons.mp h).2

set_option maxHeartbeats 8000000 in
theorem shapeS (s : State) (t : Tid) (th : Thread) (fr : Frame) (rest : List Frame)
    (hth : s.threads t = some th) (hst : th.stack = fr :: rest)
    (hrest : NoSpec rest) (hok : StackOk (fr :: rest)) :
    ShapeS s (stepFrame s t th fr).1 t th fr rest := by
  have hwdr := wdOk_tail hok.wd
  have hnwd := wdOk_nonset hok.wd
  have hlr := linkOk_of_noSpec hrest
  have hnoth : ∀ (s0 : State) (th0 : Thread), s0.threads = s.threads →
      ∀ u, u ≠ t → (setThread s0 t th0).threads u = s.threads u := by
    intro s0 th0 h0 u hu; simp only [setThread, h0, upd_ne _ _ hu]
  cases fr
  case ring pc =>
    have hok0 : StackOk th.stack := by rw [hst]; exact hok
    refine ⟨?_, ?_, ?_⟩
    · intro th' h
      have key : ∀ (l : List Frame), (l = rest ∨ ∃ pc', l = .ring pc' :: rest ∧ pushPay pc' = pushPay pc ∧ isPop pc' = isPop pc) →
          th'.stack = l → th'.isWorker = th.isWorker →
          StackOk th'.stack ∧ th'.isWorker = th.isWorker ∧ (NoW (.ring pc :: rest) → NoW th'.stack) ∧
            (LastOnly (.ring pc :: rest) → LastOnly th'.stack) := by
        intro l hl he hw
        rw [he]
        rcases hl with rfl | ⟨pc', rfl, h1, h2⟩
        · exact ⟨stackOk_ring_ret hok hrest, hw, noW_ring_tail, fun h => (lastOnly_cons_of rfl).mp h⟩
        · exact ⟨stackOk_ring_cont hok h1 h2, hw, fun h => by rw [noW_cons] at h ⊢; exact ⟨rfl, h.2⟩,
            fun h => (lastOnly_cons_of rfl).mpr ((lastOnly_cons_of rfl).mp h)⟩
      cases hp : s.pool with
      | none =>
        simp only [stepFrame, hp] at h
        simp [withFault, hth] at h
        subst h
        exact ⟨hok0, rfl, fun h => by rw [hst]; exact h, fun h => by rw [hst]; exact h⟩
      | some p =>
        simp only [stepFrame, hp] at h
        rcases hrs : ringStep p.ring pc with ⟨r', res⟩
        rw [hrs] at h
        cases res with
        | cont pc' =>
          obtain ⟨h1, h2⟩ := ringStep_cont hrs
          simp [setThread, upd_same] at h
          exact key _ (Or.inr ⟨pc', rfl, h1, h2⟩) (by subst h; simp [Thread.cont, hst]) (by subst h; rfl)
        | pushed ok =>
          simp [setThread, upd_same] at h
          exact key _ (Or.inl rfl) (by subst h; simp [Thread.cont, hst]) (by subst h; rfl)
        | popped o =>
          rcases o with _ | _ | j
          · simp [setThread, upd_same] at h
            exact key _ (Or.inl rfl) (by subst h; simp [Thread.cont, hst]) (by subst h; rfl)
          · simp [setThread, withFault, upd_same] at h
            exact key _ (Or.inl rfl) (by subst h; simp [Thread.cont, hst]) (by subst h; rfl)
          · simp [setThread, upd_same] at h
            exact key _ (Or.inl rfl) (by subst h; simp [Thread.cont, hst]) (by subst h; rfl)
    · intro u hu
      left
      cases hp : s.pool with
      | none => simp only [stepFrame, hp]; rfl
      | some p =>
        simp only [stepFrame, hp]
        rcases hrs : ringStep p.ring pc with ⟨r', res⟩
        cases res with
        | cont pc' => exact hnoth _ _ rfl u hu
        | pushed ok => exact hnoth _ _ rfl u hu
        | popped o => rcases o with _ | _ | j <;> exact hnoth _ _ rfl u hu
    · left
      cases hp : s.pool with
      | none => simp only [stepFrame, hp]; rfl
      | some p =>
        simp only [stepFrame, hp]
        rcases hrs : ringStep p.ring pc with ⟨r', res⟩
        cases res with
        | cont pc' => rfl
        | pushed ok => rfl
        | popped o => rcases o with _ | _ | j <;> rfl
  all_goals
    have hnc : NoChk rest := by
      rcases hok.chk with h | h
      · exact h
      · simp [isRing] at h
    have hnct := hnc.tail
    simp only [setFr, Bool.false_eq_true, false_or, true_or] at hnwd
    simp only [stepFrame]
    repeat' split
  all_goals
    constructor
    · intro th' h
      simp [setThread, setSig, setPool, setFut, withFault, destroySig, upd_same, hth] at h
      subst h
      refine ⟨⟨?_, ?_, ?_⟩, ?_, ?_, ?_⟩
      · simp [Thread.cont, hst, chkOk, noChk_cons, noChk_nil, isChk, isRing, hnc, hnct]
      · simp only [Thread.cont, hst, List.drop_one, List.tail_cons, List.cons_append, List.nil_append]
        first | exact hwdr | simp [wdOk, noWD_cons, noWD_nil, isWD, setFr, hwdr, hnwd]
      · simp only [Thread.cont, hst, List.drop_one, List.tail_cons, List.cons_append, List.nil_append]
        first | exact hlr | simp [linkOk, compat, pushPay, isPop]
      · simp [Thread.cont]
      · simp [Thread.cont, hst, noW_cons, noW_nil, isW]
        try (intros; simp_all; done)
      · intro hb
        first
          | (have hr := lastOnly_cons_last (a := _) rfl hb; subst hr)
          | (rw [lastOnly_cons_of rfl] at hb)
        simp [Thread.cont, hst, hb, isLast, lastOnly_cons_iff, lastOnly_nil]
    · intro u hu
      simp [setThread, setSig, setPool, setFut, withFault, destroySig, upd_ne _ _ hu]
      try (by_cases hw : u = s.nthreads
           · right; subst hw; refine ⟨rfl, ?_⟩; simp [upd_same]
           · left; exact upd_ne _ _ hw)
    · simp [setThread, setSig, setPool, setFut, withFault, destroySig]

end Nstd.Future
