/-
  Join side of deadlock freedom, part 8: `JInv` — a joinable future has a current call, the current call has
  left the prefix of `startProc`, and a thread inside `_sig.wait()` of `join()` waits on a joinable future.
-/
import Nstd.Future.LiveJoin7
set_option linter.unusedSimpArgs false
set_option linter.unusedVariables false
namespace Nstd.Future.LJ

/-- where a `wait` frame on top of the new stack comes from -/
structure ShapeTop (s s' : State) (t : Tid) (fr : Frame) (rest : List Frame) : Prop where
  top : ∀ th', s'.threads t = some th' → ∀ x σ, th'.stack.head? = some x → kindA x = .wait σ →
    kindA fr = .wait σ ∨ (fr = .join (σ - 2) ∧ (s.futs (σ - 2)).joinable = true ∧ 2 ≤ σ) ∨ fr = .fWait σ ∨
      rest.head? = some x

set_option maxHeartbeats 16000000 in
theorem shapeTop (s : State) (t : Tid) (th : Thread) (fr : Frame) (rest : List Frame)
    (hth : s.threads t = some th) (hst : th.stack = fr :: rest) :
    ShapeTop s (stepFrame s t th fr).1 t fr rest := by
  cases fr <;> simp only [stepFrame] <;> repeat' split
  all_goals
    constructor
    intro th' h x σ
    simp [setThread, setSig, setPool, setFut, withFault, destroySig, upd_same, hth] at h
    subst h
    simp only [Thread.cont, hst, List.drop_one, List.tail_cons, List.cons_append, List.nil_append, List.head?_cons,
      Option.some.injEq]
    first
      | (intro hx; simp at hx; done)
      | (intro hx; exact fun _ => Or.inr (Or.inr (Or.inr hx)))
      | (intro hx hk; subst hx; simp only [kindA, reduceCtorEq] at hk; done)
      | (intro hx hk; subst hx; simp [kindA] at hk ⊢; try (first | (subst hk; simp_all) | simp_all))

theorem no_above_wait {ev : Nat → Option CallRec} {k : Kind} {x : Frame} {σ : Nat} (h : RelO ev k (some x))
    (hx : kindA x = .wait σ) (hσ : 2 ≤ σ) : False := by
  have hob : openB x = false := by
    cases x <;> simp [kindA] at hx <;> subst hx <;> simp [openB] <;> omega
  have hro : ¬ RelOther (some x) := fun h => by have := h x rfl; rw [hob] at this; cases this
  cases k <;> simp only [RelO] at h
  · exact hro h
  · cases h
  · rcases h with ⟨_, h⟩ | ⟨_, c, r, h, _⟩
    · exact hro h
    · injection h with h; subst h; simp [kindA] at hx
  · rcases h with ⟨_, h⟩ | ⟨_, h⟩
    · exact hro h
    · injection h with h; subst h; simp [kindA] at hx
  · rcases h with ⟨_, h⟩ | ⟨_, h⟩
    · exact hro h
    · injection h with h; subst h; simp [kindA] at hx
  · obtain ⟨b, h1, h2⟩ := h
    injection h1 with h1; subst h1
    cases x <;> simp [AfterB] at h2 <;> simp [kindA] at hx
  · exact hro h.2

structure JInv (s : State) : Prop where
  jc : ∀ f, (s.futs f).joinable = true → ∃ c, (s.futs f).curCall = some c
  np : ∀ f c, (s.futs f).curCall = some c → ∀ u thu, s.threads u = some thu → ¬ HasPA c thu.stack
  jw : ∀ u x f, topFrame s u = some x → kindA x = .wait (f + 2) → (s.futs f).joinable = true

theorem jInv_init (cfg : Config) : JInv (State.init cfg) := by
  constructor
  · intro f h; simp [State.init] at h
  · intro f c h; simp [State.init] at h
  · intro u x f h hk
    simp only [topFrame, State.init] at h
    split at h
    · next th hth =>
      split at hth
      · injection hth with hth; subst hth; simp at h; subst h; simp [kindA] at hk
      · cases hth
    · cases h

theorem cArm_stack {s : State} {t : Tid} {th th' : Thread} {c : Nat} {rest : List Frame} {r : CallRec}
    (hst : th.stack = .cArm c :: rest) (hr : s.calls c = some r)
    (h : (stepFrame s t th (.cArm c)).1.threads t = some th') : th'.stack = .runStart (some c) :: rest := by
  simp [stepFrame, hr, setThread, setFut, upd_same] at h
  subst h; simp [Thread.cont, hst]

theorem hasPA_hv {c : Nat} {l : List Frame} (h : HasPA c l) : 1 ≤ lsum (hv c) l := by
  obtain ⟨fr, hfr, hp⟩ := h
  have := lsum_mem (g := hv c) hfr
  rw [hv_preArm hp] at this; exact this

theorem jInv_step {cfg : Config} {s s' : State} {t : Tid} {o : List String} (hwf : cfg.WellFormed)
    (hr : Reach cfg s) (hI : JInv s) (h : step s t = some (s', o)) : JInv s' := by
  obtain ⟨th, fr, rest, hth, hst, hfin, rfl⟩ := step_inv h
  have hSim := reach_inv hr
  have hSafe := reach_safe hr
  have h0 := reach_inv0 hr
  have hrest : NoSpec rest := by
    have := hSim.ringTopOnly t th hth
    rw [hst] at this; exact this
  have hok : StackOk (fr :: rest) := by rw [← hst]; exact hSafe.stk t th hth
  have hS := shapeS s t th fr rest hth hst hrest hok
  obtain ⟨th', hth', _⟩ := (shape1 s t th fr rest hth hst hfin hrest).self
  have hrec := Safe.top_record_alive hr hth hst
  have hH := shapeH s t th fr rest hth hst hrec
  have hT := shapeTop s t th fr rest hth hst
  have htop : topFrame s t = some fr := topFrame_of_stack hth hst
  have hcfg : s.cfg.WellFormed := by rw [reach_cfg hr]; exact hwf
  have hfrmem : fr ∈ th.stack := by rw [hst]; exact List.mem_cons_self ..
  -- threads other than `t`
  have hoth : ∀ u thu, u ≠ t → (stepFrame s t th fr).1.threads u = some thu →
      s.threads u = some thu ∨ (thu.stack = [.tStart, .wPop1] ∨ thu.stack = [.tStart, .cNext]) := by
    intro u thu hu hthu
    rcases hS.others u hu with h2 | ⟨h2, h3 | ⟨sc, h3⟩⟩
    · left; rw [← h2]; exact hthu
    · right; rw [hthu] at h3; injection h3 with h3; subst h3; exact Or.inl rfl
    · right; rw [hthu] at h3; injection h3 with h3; subst h3; exact Or.inr rfl
  constructor
  · -- jc
    intro f hj
    rcases hH.fut f with ⟨h1, h2⟩ | ⟨c, r, _, _, _, h1, _⟩ | ⟨_, _, h2⟩ | ⟨_, _, h2⟩
    · rw [h1]; exact hI.jc f (by rw [← h2]; exact hj)
    · exact ⟨c, h1⟩
    · rw [h2] at hj; cases hj
    · rw [h2] at hj; cases hj
  · -- np
    intro f c hc u thu hthu hpa
    have hold : ∀ c0, (s.futs f).curCall = some c0 → c0 = c → False := by
      intro c0 hc0 e
      subst e
      by_cases hu : u = t
      · subst hu; rw [hth'] at hthu; injection hthu with hthu; subst hthu
        rcases hH.pa th' hth' c0 hpa with h1 | h1
        · exact hI.np f c0 hc0 u th hth (by rw [hst]; exact h1)
        · obtain ⟨r, hev, _⟩ := h0.curLt f c0 hc0
          have := h0.evLt c0 r hev
          omega
      · rcases hoth u thu hu hthu with h1 | h1 | h1
        · exact hI.np f c0 hc0 u thu h1 hpa
        · rw [h1] at hpa; simp [hasPA_cons, hasPA_nil, preArm] at hpa
        · rw [h1] at hpa; simp [hasPA_cons, hasPA_nil, preArm] at hpa
    rcases hH.fut f with ⟨h1, _⟩ | ⟨c0, r, hfr, hcalls, _, h1, _⟩ | ⟨_, h1, _⟩ | ⟨_, h1, _⟩
    · rw [h1] at hc; exact hold c hc rfl
    · rw [h1] at hc; injection hc with hc; subst hc; subst hfr
      -- the step is `cArm c`: the token of `c` was in that frame
      have hhv : hv c0 (.cArm c0) = 1 := hv_preArm (by simp [preArm])
      by_cases hu : u = t
      · subst hu; rw [hth'] at hthu; injection hthu with hthu; subst hthu
        rw [cArm_stack hst hcalls hth'] at hpa
        rw [hasPA_cons] at hpa
        rcases hpa with h2 | h2
        · simp [preArm] at h2
        · have h3 := hasPA_hv h2
          have h4 := lsum_hv_le_weight c0 th
          rw [hst] at h4; simp only [lsum_cons, hhv] at h4
          have h5 := (holder_facts hr hth hfrmem hhv).2.2.2.2
          simp only [wt, hth] at h5
          omega
      · rcases hoth u thu hu hthu with h2 | h2 | h2
        · obtain ⟨g, hg, hgp⟩ := hpa
          exact hu (holders_same_thread hr h2 hg (hv_preArm hgp) hth hfrmem hhv)
        · rw [h2] at hpa; simp [hasPA_cons, hasPA_nil, preArm] at hpa
        · rw [h2] at hpa; simp [hasPA_cons, hasPA_nil, preArm] at hpa
    · rw [h1] at hc; exact hold c hc rfl
    · rw [h1] at hc; cases hc
  · -- jw
    intro u x f hx hk
    have hown : ∀ v y, topFrame s v = some y → kindA y = .wait (f + 2) → Owns s v f := by
      intro v y hy hky
      obtain ⟨thv, l, hthv, hstv⟩ := topFrame_some hy
      have := (h0.own v thv hthv).1 y (by rw [hstv]; exact List.mem_cons_self ..)
      cases y <;> simp [kindA] at hky <;> subst hky <;> simp [FrOwn] at this <;>
        (rcases this with h | h
         · omega
         · exact h)
    -- the owner of `f` is not at `joinClr f` / `destroyF f` while another thread waits
    have hkeep : ∀ v y, v ≠ t → topFrame s v = some y → kindA y = .wait (f + 2) →
        (s.futs f).joinable = true → ((stepFrame s t th fr).1.futs f).joinable = true := by
      intro v y hv hy hky hj
      have hOt : (fr = .joinClr f ∨ fr = .destroyF f) → False := by
        intro hfr
        have h1 : Owns s t f := by
          have := (h0.own t th hth).1 fr hfrmem
          rcases hfr with rfl | rfl <;> exact this
        exact hv (owns_unique hcfg (hown v y hy hky) h1)
      rcases hH.fut f with ⟨_, h2⟩ | ⟨_, _, _, _, _, _, h2⟩ | ⟨h1, _⟩ | ⟨h1, _⟩
      · rw [h2]; exact hj
      · exact h2
      · exact (hOt (Or.inl h1)).elim
      · exact (hOt (Or.inr h1)).elim
    by_cases hu : u = t
    · subst hu
      obtain ⟨thx, l, hthx, hstx⟩ := topFrame_some hx
      rw [hth'] at hthx; injection hthx with hthx; subst hthx
      have hsame : (∀ c, fr ≠ .cArm c) → fr ≠ .joinClr f → fr ≠ .destroyF f →
          ((stepFrame s u th fr).1.futs f).joinable = (s.futs f).joinable := by
        intro a1 a2 a3
        rcases hH.fut f with ⟨_, h2⟩ | ⟨c, _, h1, _⟩ | ⟨h1, _⟩ | ⟨h1, _⟩
        · exact h2
        · exact absurd h1 (a1 c)
        · exact absurd h1 a2
        · exact absurd h1 a3
      rcases hT.top th' hth' x (f + 2) (by rw [hstx]; rfl) hk with h1 | ⟨h1, h2, _⟩ | h1 | h1
      · have hj := hI.jw u fr f htop h1
        rw [hsame (by intro c e; subst e; simp [kindA] at h1) (by intro e; subst e; simp [kindA] at h1)
          (by intro e; subst e; simp [kindA] at h1)]
        exact hj
      · simp only [Nat.add_sub_cancel] at h1 h2
        rw [hsame (by intro c e; rw [e] at h1; cases h1) (by intro e; rw [e] at h1; cases h1)
          (by intro e; rw [e] at h1; cases h1)]
        exact h2
      · exfalso
        subst h1
        have := (h0.chain u th hth)
        rw [hst, chainOk_cons] at this
        have h2 := this.1
        simp only [kindA, RelO] at h2
        omega
      · exfalso
        have := (h0.chain u th hth)
        rw [hst, chainOk_cons, h1] at this
        exact no_above_wait this.1 hk (by omega)
    · have hxs : topFrame s u = some x := by
        obtain ⟨thx, l, hthx, hstx⟩ := topFrame_some hx
        rcases hoth u thx hu hthx with h2 | h2 | h2
        · exact topFrame_of_stack h2 hstx
        · rw [h2] at hstx; injection hstx with e1 e2; subst e1; simp [kindA] at hk
        · rw [h2] at hstx; injection hstx with e1 e2; subst e1; simp [kindA] at hk
      exact hkeep u x hu hxs hk (hI.jw u x f hxs hk)

theorem reach_jinv {cfg : Config} {s : State} (hwf : cfg.WellFormed) (h : Reach cfg s) : JInv s := by
  induction h with
  | init => exact jInv_init cfg
  | step t hr hs ih => exact jInv_step hwf hr ih hs

end Nstd.Future.LJ
