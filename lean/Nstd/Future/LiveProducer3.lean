/-
  No lost wake-up on the producer side, part 3: the coverage invariant (J2) is preserved by ring micro-steps
  (`ring_j2`: the only steps that move `head`/`tail`, and the only ones where a looking pusher can turn into a
  committed one -- the failing `pushChk` with the current tail as ticket, covered by `full_stale_slot_popper`), by
  the two steps that create the pool (`create_j2`: no thread is committed then) and by all other steps (`shapeP`);
  hence it holds in every reachable state of the repaired model (`j2_reach`).
-/
import Nstd.Future.LiveProducer2
set_option linter.unusedSimpArgs false
set_option linter.unusedVariables false
namespace Nstd.Future.LP
open LW

/-- the queue has a free slot for the next ticket (false when there is no pool) -/
def freeS (s : State) : Prop := tlOf s < hdOf s + cpOf s
/-- the free slot is covered -/
def CovP (s : State) : Prop :=
  deqOf s = 1 ∨ sig1 s = true ∨ hdOf s < tlOf s ∨ ∃ u, witAtP s (tlOf s) u = true
/-- (J2) in the vocabulary of these files -/
def J2 (s : State) : Prop := freeS s → (∃ u, commitAt s (tlOf s) u = true) → CovP s

/-! ### the ring fact behind the failing fresh `pushChk` -/

/-- the slot of the next ticket `tail` is not ready although the queue is not full: the popper that claimed ticket
    `tail - cap` has not released the slot yet, i.e. it is at `popData`/`popRel` -/
theorem full_stale_slot_popper {cfg : Config} {s : State} {p : Pool} (hr : Reach cfg s) (hp : s.pool = some p)
    (hfree : p.ring.tail < p.ring.head + p.ring.cap)
    (hne : (p.ring.slots (p.ring.tail % p.ring.cap)).tailT ≠ p.ring.tail) :
    ∃ v thv l pc, s.threads v = some thv ∧ thv.stack = .ring pc :: l ∧ popOwn pc = true := by
  have hc := capOf_pos cfg
  have hR := reach_ring hr
  have hI := ringInv_of_reach hc hR
  have hcap := full_cap hr hp
  have hring := full_ring (s := s) hp
  rw [hcap] at hfree hne
  have hic : p.ring.tail % capOf cfg < capOf cfg := Nat.mod_lt _ hc
  have hm := hI.slotMod _ hic
  have hl := hI.slotLt _ hic
  have hg := hI.slotGe _ hic
  have hle := hI.hLeT
  rw [hring] at hm hl hg hle
  generalize hy : (p.ring.slots (p.ring.tail % capOf cfg)).tailT = y at *
  have hyT : y + capOf cfg = p.ring.tail := by
    by_cases h1 : y ≤ p.ring.tail
    · by_cases h2 : p.ring.tail < y + capOf cfg
      · exact absurd (mod_window hm h1 h2) hne
      · omega
    · exact absurd (mod_window (x := p.ring.tail) (y := y) hm.symm (by omega) (by omega)).symm hne
  have hyH : y < p.ring.head := by omega
  have hymod : y % capOf cfg = p.ring.tail % capOf cfg := hm
  have hx := ring_claimed_pop_held hc hR (x := y) (by rw [hring]; exact hyH) (by rw [hring, hymod]; exact hy)
  obtain ⟨v, hv⟩ := hx
  rw [proj_some hp] at hv
  simp only [pcsOf] at hv
  cases hthv : s.threads v with
  | none => rw [hthv] at hv; rcases hv with hv | ⟨d, hv⟩ <;> cases hv
  | some thv =>
    rw [hthv] at hv
    rcases hv with hv | ⟨d, hv⟩
    · obtain ⟨l, hl⟩ := ringPcOf_stack hv
      exact ⟨v, thv, l, _, hthv, hl, rfl⟩
    · obtain ⟨l, hl⟩ := ringPcOf_stack hv
      exact ⟨v, thv, l, _, hthv, hl, rfl⟩

/-! ### classification of ring frames and of the frame a push / pop returns to -/

theorem witSP_ring (T : Nat) (rb : Bool) (pc : RingPc Job) (c : Frame) (l : List Frame) :
    witSP T rb (.ring pc :: c :: l) = (popOwn pc || ((isChk1 c && prePush pc) || (isChk2 c && freshPush T pc))) := by
  simp [witSP, busyPop, lookP_cons, transpP, lookTopP]

theorem commitP_ring (T : Nat) (rb : Bool) (pc : RingPc Job) (c : Frame) (l : List Frame) :
    commitP T rb (.ring pc :: c :: l) = (isChk2 c && stalePush T pc) := rfl

theorem pushCaller_ret {c : Frame} (h : pushCaller c = true) (T : Nat) (rb : Bool) (l : List Frame) :
    commitP T rb (c :: l) = (isChk2 c && !rb) ∧ witSP T rb (c :: l) = (isChk1 c && !rb) := by
  cases c <;> simp [pushCaller] at h <;>
    simp [commitP_cons, commitTop, witSP, busyPop, lookP_cons, transpP, lookTopP, isChk1, isChk2]

theorem popCaller_ret {c : Frame} (h : popCaller c = true) (T : Nat) (rb : Bool) (l : List Frame) :
    isChk1 c = false ∧ isChk2 c = false ∧ commitP T rb (c :: l) = false ∧ witSP T rb (c :: l) = rb := by
  cases c <;> simp [popCaller] at h <;>
    simp [commitP_cons, commitTop, witSP, busyPop, lookP_cons, transpP, lookTopP, isChk1, isChk2]

theorem ringStep_cap (r : Ring Job) (pc : RingPc Job) : (ringStep r pc).1.cap = r.cap := by
  cases pc <;> simp only [ringStep] <;> (try split) <;> rfl

set_option maxHeartbeats 2000000 in
theorem ring_j2 {cfg : Config} (hrep : cfg.repaired = true) {s : State} (hr : Reach cfg s) (hI : J2 s)
    {t : Tid} {th : Thread} {pc : RingPc Job} {rest : List Frame}
    (hth : s.threads t = some th) (hst : th.stack = .ring pc :: rest) :
    J2 (stepFrame s t th (.ring pc)).1 := by
  cases hp : s.pool with
  | none => rw [ring_step_noPool s t th pc hp]; exact hI
  | some p =>
    obtain ⟨th', h1, h2, h3, h4, h5, h6⟩ := ring_step_desc s t th pc rest p hp hst
    generalize (stepFrame s t th (.ring pc)).1 = s' at *
    have hcall : callerOk pc rest.head? = true := by
      have := (stk_reach hrep hr).adj t th hth
      rw [hst] at this; exact this.1
    obtain ⟨c, rest', rfl⟩ : ∃ c rest', rest = c :: rest' := by
      cases rest with
      | nil => simp [callerOk] at hcall
      | cons c r => exact ⟨c, r, rfl⟩
    simp only [List.head?_cons] at hcall
    have hdeq : deqOf s' = deqOf s := by simp only [deqOf, h2, hp]
    have hsig : sig1 s' = sig1 s := by simp only [sig1, h3]
    have hH : hdOf s = p.ring.head := by simp only [hdOf, hp]
    have hT : tlOf s = p.ring.tail := by simp only [tlOf, hp]
    have hC : cpOf s = p.ring.cap := by simp only [cpOf, hp]
    have hH' : hdOf s' = (ringStep p.ring pc).1.head := by simp only [hdOf, h2]
    have hT' : tlOf s' = (ringStep p.ring pc).1.tail := by simp only [tlOf, h2]
    have hC' : cpOf s' = p.ring.cap := by simp only [cpOf, h2, ringStep_cap]
    have hle : p.ring.head ≤ p.ring.tail := full_head_le_tail hr hp
    have hwit' : ∀ T, witAtP s' T t = witSP T th'.retB th'.stack := by
      intro T; simp only [witAtP, h1, upd_same]
    have hwit : ∀ T, witAtP s T t = witSP T th.retB (.ring pc :: c :: rest') := by
      intro T; simp only [witAtP, hth, hst]
    have hcom' : ∀ T, commitAt s' T t = commitP T th'.retB th'.stack := by
      intro T; simp only [commitAt, h1, upd_same]
    have hcom : ∀ T, commitAt s T t = commitP T th.retB (.ring pc :: c :: rest') := by
      intro T; simp only [commitAt, hth, hst]
    have hkeepW : ∀ T u, u ≠ t → witAtP s' T u = witAtP s T u := by
      intro T u hu; simp only [witAtP, h1, upd_ne _ _ hu]
    have hkeepC : ∀ T u, u ≠ t → commitAt s' T u = commitAt s T u := by
      intro T u hu; simp only [commitAt, h1, upd_ne _ _ hu]
    have pself : witSP (tlOf s') th'.retB th'.stack = true → J2 s' := by
      intro hw _ _; exact Or.inr (Or.inr (Or.inr ⟨t, by rw [hwit']; exact hw⟩))
    have psame : hdOf s' = hdOf s → tlOf s' = tlOf s →
        (commitP (tlOf s) th'.retB th'.stack = true → commitP (tlOf s) th.retB (.ring pc :: c :: rest') = true) →
        (witSP (tlOf s) th.retB (.ring pc :: c :: rest') = true → witSP (tlOf s) th'.retB th'.stack = true) →
        J2 s' := by
      intro e1 e2 hc hw hfree hex
      obtain ⟨u, hu⟩ := hex
      have hfree0 : freeS s := by
        unfold freeS at hfree ⊢; rw [e1, e2, hC'] at hfree; rw [hC]; exact hfree
      rw [e2] at hu
      have hcom0 : ∃ u, commitAt s (tlOf s) u = true := by
        by_cases hut : u = t
        · subst hut; exact ⟨u, by rw [hcom]; exact hc (by rw [← hcom']; exact hu)⟩
        · exact ⟨u, by rw [← hkeepC _ u hut]; exact hu⟩
      rcases hI hfree0 hcom0 with h | h | h | ⟨v, hv⟩
      · exact Or.inl (by rw [hdeq]; exact h)
      · exact Or.inr (Or.inl (by rw [hsig]; exact h))
      · exact Or.inr (Or.inr (Or.inl (by rw [e1, e2]; exact h)))
      · refine Or.inr (Or.inr (Or.inr ⟨v, ?_⟩))
        rw [e2]
        by_cases hvt : v = t
        · subst hvt; rw [hwit']; rw [hwit] at hv; exact hw hv
        · rw [hkeepW _ v hvt]; exact hv
    cases pc with
    | pushRead d =>
      have e : ringStep p.ring (.pushRead d) = (p.ring, .cont (.pushChk d p.ring.tail)) := rfl
      rw [e] at h6 hH' hT'
      obtain ⟨hs, hb⟩ := h6.cont
      refine psame (by rw [hH', hH]) (by rw [hT', hT]) ?_ ?_
      · rw [hs, hT, commitP_ring]; simp [stalePush]
      · rw [hs, hT, witSP_ring, witSP_ring]; simp [popOwn, prePush, freshPush]
    | pushChk d x =>
      simp only [callerOk, isPopPc] at hcall
      have hret := pushCaller_ret (by simpa using hcall) (tlOf s)
      by_cases hc : (p.ring.slots (x % p.ring.cap)).tailT ≠ x
      · have e : ringStep p.ring (.pushChk d x) = (p.ring, .pushed false) := by simp [ringStep, hc]
        rw [e] at h6 hH' hT'
        obtain ⟨hs, hb⟩ := h6.pushed
        by_cases hx : isChk2 c = true ∧ x = p.ring.tail
        · -- second push, ticket = current tail: the slot is still held by the popper of the previous round
          obtain ⟨hc2, hx⟩ := hx
          subst hx
          intro hfree _
          unfold freeS at hfree
          rw [hH', hT', hC'] at hfree
          obtain ⟨v, thv, l, pcv, hthv, hstv, hown⟩ := full_stale_slot_popper hr hp hfree hc
          have hvt : v ≠ t := by
            intro hvt; subst hvt
            rw [hth] at hthv; injection hthv with hthv; subst hthv
            rw [hst] at hstv; injection hstv with e1 _; injection e1 with e1; subst e1
            cases hown
          refine Or.inr (Or.inr (Or.inr ⟨v, ?_⟩))
          rw [hkeepW _ v hvt]
          simp only [witAtP, hthv, hstv]
          cases l with
          | nil => simp [witSP, busyPop, hown]
          | cons c2 l2 => rw [witSP_ring, hown]; rfl
        · refine psame (by rw [hH', hH]) (by rw [hT', hT]) ?_ ?_
          · rw [hs, hb, (hret false rest').1, commitP_ring]
            intro h
            simp only [Bool.not_false, Bool.and_true] at h
            simp only [stalePush, h, Bool.true_and, decide_eq_true_eq]
            intro hx2; exact hx ⟨h, by rw [hx2, hT]⟩
          · rw [hs, hb, (hret false rest').2, witSP_ring]
            simp only [popOwn, prePush, freshPush, Bool.false_or, Bool.and_true, Bool.not_false]
            intro h
            rcases Bool.or_eq_true _ _ |>.mp h with h | h
            · exact h
            · exfalso
              simp only [Bool.and_eq_true, decide_eq_true_eq] at h
              exact hx ⟨h.1, by rw [h.2, hT]⟩
      · have e : ringStep p.ring (.pushChk d x) = (p.ring, .cont (.pushCas d x)) := by simp [ringStep, hc]
        rw [e] at h6 hH' hT'
        obtain ⟨hs, hb⟩ := h6.cont
        refine psame (by rw [hH', hH]) (by rw [hT', hT]) ?_ ?_
        · rw [hs, commitP_ring]; simp [stalePush]
        · rw [hs, witSP_ring, witSP_ring]
          simp only [popOwn, prePush, freshPush, Bool.false_or, Bool.and_true]
          intro h
          rcases Bool.or_eq_true _ _ |>.mp h with h | h
          · simp [h]
          · simp only [Bool.and_eq_true] at h; simp [h.1]
    | pushCas d x =>
      by_cases hc : p.ring.tail = x
      · have e : ringStep p.ring (.pushCas d x) =
            ({ p.ring with tail := x + 1, pushLog := p.ring.pushLog ++ [d] }, .cont (.pushData d x)) := by
          simp [ringStep, hc]
        rw [e] at hH' hT'
        intro _ _
        refine Or.inr (Or.inr (Or.inl ?_))
        rw [hH', hT']
        show p.ring.head < x + 1
        omega
      · have e : ringStep p.ring (.pushCas d x) = (p.ring, .cont (.pushChk d p.ring.tail)) := by
          simp [ringStep, hc]
        rw [e] at h6 hH' hT'
        obtain ⟨hs, hb⟩ := h6.cont
        refine psame (by rw [hH', hH]) (by rw [hT', hT]) ?_ ?_
        · rw [hs, hT, commitP_ring]; simp [stalePush]
        · rw [hs, hT, witSP_ring, witSP_ring]; simp [popOwn, prePush, freshPush]
    | pushData d x =>
      have e : ringStep p.ring (.pushData d x) =
          (p.ring.setSlot (x % p.ring.cap) { p.ring.slots (x % p.ring.cap) with data := some d }, .cont (.pushPub d x)) := rfl
      rw [e] at h6 hH' hT'
      obtain ⟨hs, hb⟩ := h6.cont
      refine psame (by rw [hH', hH]; rfl) (by rw [hT', hT]; rfl) ?_ ?_
      · rw [hs, commitP_ring]; simp [stalePush]
      · rw [witSP_ring]; simp [popOwn, prePush, freshPush]
    | pushPub d x =>
      simp only [callerOk, isPopPc] at hcall
      have hret := pushCaller_ret (by simpa using hcall) (tlOf s)
      have e : ringStep p.ring (.pushPub d x) =
          (p.ring.setSlot (x % p.ring.cap) { p.ring.slots (x % p.ring.cap) with headT := some x }, .pushed true) := rfl
      rw [e] at h6 hH' hT'
      obtain ⟨hs, hb⟩ := h6.pushed
      refine psame (by rw [hH', hH]; rfl) (by rw [hT', hT]; rfl) ?_ ?_
      · rw [hs, hb, (hret true rest').1]; simp
      · rw [witSP_ring]; simp [popOwn, prePush, freshPush]
    | popRead =>
      simp only [callerOk, isPopPc] at hcall
      have hret := popCaller_ret (by simpa using hcall) (tlOf s)
      have e : ringStep p.ring (.popRead : RingPc Job) = (p.ring, .cont (.popChk p.ring.head)) := rfl
      rw [e] at h6 hH' hT'
      obtain ⟨hs, hb⟩ := h6.cont
      refine psame (by rw [hH', hH]) (by rw [hT', hT]) ?_ ?_
      · rw [hs, commitP_ring]; simp [stalePush]
      · rw [witSP_ring]; simp [popOwn, prePush, freshPush]
    | popChk h =>
      simp only [callerOk, isPopPc] at hcall
      have hret := popCaller_ret (by simpa using hcall) (tlOf s)
      by_cases hc : (p.ring.slots (h % p.ring.cap)).headT ≠ some h
      · have e : ringStep p.ring (.popChk h : RingPc Job) = (p.ring, .popped none) := by simp [ringStep, hc]
        rw [e] at h6 hH' hT'
        obtain ⟨hs, hb⟩ := h6.popped
        refine psame (by rw [hH', hH]) (by rw [hT', hT]) ?_ ?_
        · rw [hs, (hret _ rest').2.2.1]; simp
        · rw [witSP_ring]; simp [popOwn, prePush, freshPush]
      · have e : ringStep p.ring (.popChk h : RingPc Job) = (p.ring, .cont (.popCas h)) := by simp [ringStep, hc]
        rw [e] at h6 hH' hT'
        obtain ⟨hs, hb⟩ := h6.cont
        refine psame (by rw [hH', hH]) (by rw [hT', hT]) ?_ ?_
        · rw [hs, commitP_ring]; simp [stalePush]
        · rw [witSP_ring]; simp [popOwn, prePush, freshPush]
    | popCas h =>
      by_cases hc : p.ring.head = h
      · have e : ringStep p.ring (.popCas h : RingPc Job) = ({ p.ring with head := h + 1 }, .cont (.popData h)) := by
          simp [ringStep, hc]
        rw [e] at h6
        obtain ⟨hs, hb⟩ := h6.cont
        apply pself
        rw [hs, witSP_ring]; rfl
      · simp only [callerOk, isPopPc] at hcall
        have e : ringStep p.ring (.popCas h : RingPc Job) = (p.ring, .cont (.popChk p.ring.head)) := by
          simp [ringStep, hc]
        rw [e] at h6 hH' hT'
        obtain ⟨hs, hb⟩ := h6.cont
        refine psame (by rw [hH', hH]) (by rw [hT', hT]) ?_ ?_
        · rw [hs, commitP_ring]; simp [stalePush]
        · rw [witSP_ring]; simp [popOwn, prePush, freshPush]
    | popData h =>
      have e : ringStep p.ring (.popData h : RingPc Job) =
          ({ (p.ring.setSlot (h % p.ring.cap) { p.ring.slots (h % p.ring.cap) with data := none }) with
              popLog := p.ring.popLog ++ [(h, (p.ring.slots (h % p.ring.cap)).data)] },
            .cont (.popRel h (p.ring.slots (h % p.ring.cap)).data)) := rfl
      rw [e] at h6
      obtain ⟨hs, hb⟩ := h6.cont
      apply pself
      rw [hs, witSP_ring]; rfl
    | popRel h d =>
      simp only [callerOk, isPopPc] at hcall
      have hret := popCaller_ret (by simpa using hcall) (tlOf s')
      have e : ringStep p.ring (.popRel h d) =
          (p.ring.setSlot (h % p.ring.cap) { p.ring.slots (h % p.ring.cap) with tailT := h + p.ring.cap },
            .popped (some d)) := rfl
      rw [e] at h6
      obtain ⟨hs, hb⟩ := h6.popped
      apply pself
      rw [hs, hb, (hret _ rest').2.2.2]; rfl

/-! ### the steps that create the pool -/

theorem commit_pre {T : Nat} {rb : Bool} {a : Frame} {o : Option Frame} (h2 : prePool a = true)
    (hct : commitTop T rb a o = true) (h1 : adjP a o) : optB isRestart o = true := by
  cases a <;> simp [prePool] at h2 <;> simp [commitTop] at hct <;> (subst hct; exact h1 rfl)

/-- when a client is about to create the pool lazily, no thread is a committed pusher -/
theorem no_commit_cRdTp2 {cfg : Config} (hrep : cfg.repaired = true) {s : State} (hr : Reach cfg s)
    {t : Tid} {th : Thread} {c : Nat} {rest : List Frame}
    (hth : s.threads t = some th) (hst : th.stack = .cRdTp2 c :: rest) (htp : s.tp = false) :
    ∀ T u, commitAt s T u = false := by
  have hjoin := reach_join hr
  have htc : t ∈ s.clientTids := by
    rcases hjoin.kinds t th hth with h | h
    · exact h
    · have := h (.cRdTp2 c) (by rw [hst]; exact List.mem_cons_self ..)
      cases this
  have hnf : ¬ AllFin s := by
    intro h
    obtain ⟨th2, h2, h3⟩ := h t htc
    rw [hth] at h2; injection h2 with h2; subst h2
    have := finished_stack_nil hr hth h3
    rw [hst] at this; cases this
  have halive : poolAlive s := Classical.byContradiction fun h => hnf (hjoin.dead h).1
  have hearly := (reach_inv hr).early halive htp
  intro T u
  cases hthu : s.threads u with
  | none => simp [commitAt, hthu]
  | some thu =>
    have hpre := hearly.pre u thu hthu
    have hadj := adj_reach hrep hr u thu hthu
    simp only [commitAt, hthu]
    cases hs : thu.stack with
    | nil => rfl
    | cons a l =>
      rw [hs, allPre_cons] at hpre
      rw [hs] at hadj
      rw [commitP_cons]
      cases hct : commitTop T thu.retB a l.head? with
      | false => rfl
      | true =>
        exfalso
        have h3 := commit_pre hpre.1 hct hadj.1
        cases l with
        | nil => simp [optB] at h3
        | cons b l' =>
          simp only [List.head?_cons, optB] at h3
          have hb := hpre.2 b (List.mem_cons_self ..)
          cases b <;> simp [isRestart] at h3 <;> simp [prePool] at hb
          next i =>
            have := hjoin.phase u thu hthu (.dPush i) (by rw [hs]; simp)
            exact hnf this

theorem no_commit_mInit {cfg : Config} {s : State} (hr : Reach cfg s)
    {t : Tid} {th : Thread} {rest : List Frame}
    (hth : s.threads t = some th) (hst : th.stack = .mInit :: rest) :
    ∀ T u, commitAt s T u = false := by
  have := (reach_inv hr).initOnly t th hth (by rw [hst]; rfl)
  subst this
  intro T u
  simp only [commitAt, State.init]
  split
  · next th2 h2 =>
    split at h2
    · injection h2 with h2; subst h2; rfl
    · cases h2
  · rfl

theorem create_j2 {cfg : Config} (hrep : cfg.repaired = true) {s : State} (hr : Reach cfg s)
    {t : Tid} {th : Thread} {fr : Frame} {rest : List Frame}
    (hth : s.threads t = some th) (hst : th.stack = fr :: rest) (hc : creates s fr = true) :
    J2 (stepFrame s t th fr).1 := by
  have hrep' : s.cfg.repaired = true := by rw [reach_cfg hr]; exact hrep
  have hno : ∀ T u, commitAt s T u = false := by
    cases fr <;> simp [creates] at hc
    case cRdTp2 c => exact no_commit_cRdTp2 hrep hr hth hst hc
    case mInit => exact no_commit_mInit hr hth hst
  have hk := shapeK s t th fr rest hth hst hrep'
  intro _ hex
  obtain ⟨u, hu⟩ := hex
  exfalso
  by_cases hut : u = t
  · subst hut
    cases fr <;> simp [creates] at hc
    case cRdTp2 c =>
      simp [commitAt, stepFrame, hc, setThread, upd_same, Thread.cont, hst, commitP_cons, commitTop] at hu
    case mInit =>
      simp [commitAt, stepFrame, hc, setThread, upd_same, Thread.cont, hst, commitP_cons, commitTop] at hu
  · rcases hk.others u hut with h2 | ⟨_, h2 | ⟨sc, h2⟩⟩
    · have h9 := hno (tlOf (stepFrame s t th fr).1) u
      simp only [commitAt, h2] at hu
      simp only [commitAt] at h9
      rw [h9] at hu; cases hu
    · simp [commitAt, h2, commitP_cons, commitTop] at hu
    · simp [commitAt, h2, commitP_cons, commitTop] at hu

/-! ### (J2) in reachable states -/

theorem j2_init (cfg : Config) : J2 (State.init cfg) := by
  intro h; simp [freeS, hdOf, tlOf, cpOf, State.init] at h

theorem hd_le_tl {cfg : Config} {s : State} (hr : Reach cfg s) : hdOf s ≤ tlOf s := by
  cases hp : s.pool with
  | none => simp [hdOf, tlOf, hp]
  | some p => simp only [hdOf, tlOf, hp]; exact full_head_le_tail hr hp

theorem j2_step {cfg : Config} (hrep : cfg.repaired = true) {s s' : State} {t : Tid} {o : List String}
    (hr : Reach cfg s) (hI : J2 s) (hs : step s t = some (s', o)) : J2 s' := by
  have hr' : Reach cfg s' := Reach.step t hr hs
  obtain ⟨th, fr, rest, hth, hst, hfin, rfl⟩ := step_inv hs
  have hrep' : s.cfg.repaired = true := by rw [reach_cfg hr]; exact hrep
  by_cases hring : ∃ pc, fr = .ring pc
  · obtain ⟨pc, rfl⟩ := hring
    exact ring_j2 hrep hr hI hth hst
  · by_cases hcr : creates s fr = true
    · exact create_j2 hrep hr hth hst hcr
    · have hnr : ∀ pc, fr ≠ .ring pc := fun pc h => hring ⟨pc, h⟩
      have hadj : AdjP (fr :: rest) := by rw [← hst]; exact adj_reach hrep hr t th hth
      have hbel : BelowOk (fr :: rest) := by rw [← hst]; exact below_reach hrep hr t th hth
      have hP := shapeP s t th fr rest hth hst hrep' hnr (by simpa using hcr) hadj hbel
      have hk := shapeK s t th fr rest hth hst hrep'
      have hkeep := step_keep hr hth hst hrep'
      intro hfree' hex
      obtain ⟨u, hu⟩ := hex
      unfold freeS at hfree'
      have hle0 := hd_le_tl hr
      rcases hP.pool with ⟨hh, ht, hc⟩ | h0
      · rw [hh, ht, hc] at hfree'
        rw [ht] at hu
        have hcom0 : ∃ u, commitAt s (tlOf s) u = true := by
          by_cases hut : u = t
          · subst hut
            exact ⟨u, by simp only [commitAt, hth, hst]; exact hP.c1 hu⟩
          · rcases hk.others u hut with h2 | ⟨_, h2 | ⟨sc, h2⟩⟩
            · exact ⟨u, by simp only [commitAt, h2] at hu; simp only [commitAt]; exact hu⟩
            · simp [commitAt, h2, commitP_cons, commitTop] at hu
            · simp [commitAt, h2, commitP_cons, commitTop] at hu
        show deqOf _ = 1 ∨ sig1 _ = true ∨ hdOf _ < tlOf _ ∨ ∃ u, witAtP _ (tlOf _) u = true
        rw [hh, ht]
        rcases hI hfree' hcom0 with he | hsg | hlt | ⟨v, hv⟩
        · rcases hP.f2 he with h | h | h
          · exact Or.inl h
          · exact Or.inr (Or.inr (Or.inr ⟨t, h⟩))
          · omega
        · rcases hP.f3 hsg with h | h | h
          · exact Or.inr (Or.inl h)
          · exact Or.inr (Or.inr (Or.inr ⟨t, h⟩))
          · omega
        · exact Or.inr (Or.inr (Or.inl hlt))
        · by_cases hvt : v = t
          · subst hvt
            have h4 : witSP (tlOf s) th.retB (fr :: rest) = true := by
              simp only [witAtP, hth] at hv; rw [← hst]; exact hv
            rcases hP.f4 h4 with h | h | h
            · exact Or.inr (Or.inr (Or.inr ⟨v, h⟩))
            · exact Or.inl h
            · omega
          · refine Or.inr (Or.inr (Or.inr ⟨v, ?_⟩))
            cases hthv : s.threads v with
            | none => simp [witAtP, hthv] at hv
            | some thv =>
              simp only [witAtP, hthv] at hv
              simp only [witAtP, hkeep v thv hvt hthv]; exact hv
      · have := hd_le_tl hr'
        omega

theorem j2_reach {cfg : Config} (hrep : cfg.repaired = true) {s : State} (h : Reach cfg s) : J2 s := by
  induction h with
  | init => exact j2_init cfg
  | step t hr hs ih => exact j2_step hrep hr ih hs

end Nstd.Future.LP
