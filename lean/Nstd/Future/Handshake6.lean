/-
  Completion handshake of a Future, part 6: helper lemmas about roles, ownership and the threads of the
  successor state; the step of a quiet frame preserves `HsInv`.
-/
import Nstd.Future.Handshake5
set_option linter.unusedSimpArgs false
set_option linter.unusedVariables false
namespace Nstd.Future

theorem dull_role {ev : Nat → Option CallRec} {x : Frame} (h : dull x = true) : roleOf ev x = none := by
  cases x <;> simp only [dull, Bool.false_eq_true, decide_eq_true_eq] at h <;> simp only [roleOf] <;>
    first
      | rfl
      | (rw [if_neg (by omega)])

theorem role_owns {s : State} (h0 : Inv0 s) {u : Tid} {k : RK} {f : Nat} (hr : Role s u k f) (hk : k ≠ .exec) :
    Owns s u f := by
  obtain ⟨x, ⟨thu, h1, h2⟩, h3⟩ := hr
  have hx : x ∈ thu.stack := by
    cases hs : thu.stack with
    | nil => rw [hs] at h2; cases h2
    | cons a l => rw [hs] at h2; simp only [List.head?_cons, Option.some.injEq] at h2; subst h2; exact List.mem_cons_self ..
  have ho := (h0.own u thu h1).1 x hx
  cases x <;> simp only [roleOf] at h3 <;> simp only [FrOwn] at ho <;>
    first
      | (cases h3; done)
      | (cases h3; exact ho)
      | (split at h3
         · injection h3 with h3; injection h3 with h4 h5; subst h5
           rcases ho with ho | ho
           · omega
           · exact ho
         · cases h3)
      | (obtain ⟨r, h4, h5⟩ := ho
         rw [h4] at h3; simp only [Option.map_some] at h3
         injection h3 with h3; injection h3 with h6 h7; subst h7; exact h5)
      | (exfalso; cases hv : s.everCalls _ with
         | none => rw [hv] at h3; cases h3
         | some r => rw [hv] at h3; simp only [Option.map_some] at h3; injection h3 with h3; injection h3 with h6 h7
                     exact hk h6.symm)
      | (exfalso; split at h3
         · injection h3 with h3; injection h3 with h4 h5; exact hk h4.symm
         · cases h3)

/-- threads other than the stepping one keep their record or are freshly created -/
def Others (s s' : State) (t : Tid) : Prop :=
  ∀ u, u ≠ t → s'.threads u = s.threads u ∨
    (s.threads u = none ∧ ∃ thw, s'.threads u = some thw ∧
      (thw.stack = [.tStart, .wPop1] ∨ thw.stack = [.tStart, .cNext]))

section ctx
variable {s s' : State} {t : Tid} {th th' : Thread}

theorem topIs_other (ho : Others s s' t) {u : Tid} (hu : u ≠ t) {x : Frame} (h : TopIs s' u x) :
    TopIs s u x ∨ x = .tStart := by
  obtain ⟨thu, h1, h2⟩ := h
  rcases ho u hu with h3 | ⟨_, thw, h3, h4⟩
  · left; exact ⟨thu, by rw [← h3]; exact h1, h2⟩
  · right; rw [h1] at h3; injection h3 with h3; subst h3
    rcases h4 with h4 | h4 <;> (rw [h4] at h2; simp at h2; exact h2.symm)

theorem role_other (ho : Others s s' t) {u : Tid} (hev : ∀ x k f, roleOf s'.everCalls x = some (k, f) → TopIs s u x →
      roleOf s.everCalls x = some (k, f))
    (hu : u ≠ t) {k : RK} {f : Nat} (h : Role s' u k f) : Role s u k f := by
  obtain ⟨x, h1, h2⟩ := h
  rcases topIs_other ho hu h1 with h3 | h3
  · exact ⟨x, h3, hev x k f h2 h3⟩
  · subst h3; cases h2

theorem role_other_eq (ho : Others s s' t) (hev : s'.everCalls = s.everCalls)
    {u : Tid} (hu : u ≠ t) {k : RK} {f : Nat} (h : Role s' u k f) : Role s u k f := by
  obtain ⟨x, h1, h2⟩ := h
  rcases topIs_other ho hu h1 with h3 | h3
  · exact ⟨x, h3, by rw [← hev]; exact h2⟩
  · subst h3; cases h2

theorem role_self (hth' : s'.threads t = some th') {k : RK} {f : Nat} (h : Role s' t k f) :
    ∃ x, th'.stack.head? = some x ∧ roleOf s'.everCalls x = some (k, f) := by
  obtain ⟨x, ⟨thu, h1, h2⟩, h3⟩ := h
  rw [hth'] at h1; injection h1 with h1; subst h1
  exact ⟨x, h2, h3⟩

theorem preArmed_fwd (ho : Others s s' t) (hth : s.threads t = some th) (hth' : s'.threads t = some th')
    {c : Nat} (hk : (∃ x ∈ th.stack, hsPreArm c x = true) → ∃ x ∈ th'.stack, hsPreArm c x = true)
    (h : PreArmed s c) : PreArmed s' c := by
  obtain ⟨u, thu, x, h1, h2, h3⟩ := h
  by_cases hu : u = t
  · subst hu
    rw [hth] at h1; injection h1 with h1; subst h1
    obtain ⟨y, h4, h5⟩ := hk ⟨x, h2, h3⟩
    exact ⟨u, th', y, hth', h4, h5⟩
  · rcases ho u hu with h4 | ⟨h4, _⟩
    · exact ⟨u, thu, x, by rw [h4]; exact h1, h2, h3⟩
    · rw [h4] at h1; cases h1

theorem preArmed_bwd (ho : Others s s' t) (hth : s.threads t = some th) (hth' : s'.threads t = some th')
    {c : Nat} (hk : (∃ x ∈ th'.stack, hsPreArm c x = true) → ∃ x ∈ th.stack, hsPreArm c x = true)
    (h : PreArmed s' c) : PreArmed s c := by
  obtain ⟨u, thu, x, h1, h2, h3⟩ := h
  by_cases hu : u = t
  · subst hu
    rw [hth'] at h1; injection h1 with h1; subst h1
    obtain ⟨y, h4, h5⟩ := hk ⟨x, h2, h3⟩
    exact ⟨u, th, y, hth, h4, h5⟩
  · rcases ho u hu with h4 | ⟨_, thw, h4, h5⟩
    · exact ⟨u, thu, x, by rw [← h4]; exact h1, h2, h3⟩
    · rw [h1] at h4; injection h4 with h4; subst h4
      rcases h5 with h5 | h5 <;>
        (rw [h5] at h2; simp at h2; rcases h2 with rfl | rfl <;> cases h3)

theorem noPassed_keep (ho : Others s s' t) (hth' : s'.threads t = some th')
    (hev : ∀ u x k f, u ≠ t → roleOf s'.everCalls x = some (k, f) → TopIs s u x → roleOf s.everCalls x = some (k, f))
    {f : Nat}
    (hk : ∀ x, th'.stack.head? = some x → roleOf s'.everCalls x ≠ some (.passed, f) ∧ roleOf s'.everCalls x ≠ some (.rstDone, f))
    (h : NoPassed s f) : NoPassed s' f := by
  intro u
  by_cases hu : u = t
  · subst hu
    constructor
    · intro hr; obtain ⟨x, h1, h2⟩ := role_self hth' hr; exact (hk x h1).1 h2
    · intro hr; obtain ⟨x, h1, h2⟩ := role_self hth' hr; exact (hk x h1).2 h2
  · constructor
    · intro hr; exact (h u).1 (role_other ho (fun x k f h1 h2 => hev u x k f hu h1 h2) hu hr)
    · intro hr; exact (h u).2 (role_other ho (fun x k f h1 h2 => hev u x k f hu h1 h2) hu hr)

end ctx

end Nstd.Future
