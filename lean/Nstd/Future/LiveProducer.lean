/-
  No lost wake-up on the producer side of the repaired thread pool (C10 liveness, deadlock-freedom form), proved
  inside the FULL micro-step model (`Model.lean`, `cfg.repaired = true`) for every schedule, any number of threads
  and any queue capacity:

      no_stuck_producer_side :
        cfg.repaired = true → Reach cfg s → slotFree s → (∃ t, asleepOnDeq s t) → (∃ w, liveWorker s w) →
          ∃ t, enabled s t = true

  i.e. a thread never sleeps in `_dequeuedSignal.wait()` (back-pressure loop of `ThreadPool::run` / `~ThreadPool`)
  while a queue slot is free, a worker is alive and nothing can move.  It is the argument of `LiveWorker.lean`
  mirrored for the dequeued FastSignal (`p.deq` = `_state`, `s.sigs 1` = its Signal, units = free slots
  `tail < head + cap`, suppliers = poppers, consumers = pushers).  Differences to the worker side:
    * a pusher that succeeds LEAVES without hand-off; instead its `pushCas` makes the queue non-empty, and then
      `no_stuck_worker_side` applies (hence the disjunct `head < tail` and the live-worker hypothesis);
    * free slots exist from the start (the pool is created empty, `_state = 0`, Signal unset), so the coverage
      invariant (J2) cannot hold as "free slot ⇒ covered": right after the pool is created a slot is free and
      nothing covers it (`free_slot_uncovered_at_start`).  It protects the threads that need it: the COMMITTED
      pushers (`LP.commitP`: second push failed / bound to fail with a stale ticket, `fWait 1`, `Signal::wait` on
      signal 1).  `free_slot_is_covered` therefore has the additional disjunct "no thread is a committed pusher".

    LiveProducer1  vocabulary; stack discipline `AdjP`; `_state ≤ 1`; (J1) `j1_reach`
    LiveProducer2  stack discipline `BelowOk`; witnesses `busyPop` / `lookP`, committed pushers `commitP`;
                   non-ring steps (`shapeP`)
    LiveProducer3  ring steps (`ring_j2`, uses `full_stale_slot_popper` = `ring_claimed_pop_held` for the failing
                   fresh `pushChk`), pool creation (`create_j2`); (J2) `j2_reach`
    LiveProducer   (this file) plain statements and `no_stuck_producer_side`

  Proved (signatures; `open LP`):
    deq_le_one           : cfg.repaired = true → Reach cfg s → s.pool = some p → p.deq ≤ 1
    deq_set_not_lost     : cfg.repaired = true → Reach cfg s → s.pool = some p → p.deq = 1 →
                             (s.sigs 1).signaled = true ∨ ∃ t th fr rest, s.threads t = some th ∧ th.finished = false ∧
                               th.stack = fr :: rest ∧ (fr = .sSetLock 1 ∨ fr = .sSetStore 1 ∨ fr = .fRstLoad 1 ∨
                                 ((fr = .sRstLock 1 ∨ fr = .sRstStore 1 ∨ fr = .sRstUnlock 1) ∧
                                   rest.head? = some (.fRstLoad 1)))
    free_slot_is_covered : cfg.repaired = true → Reach cfg s → s.pool = some p →
                             p.ring.tail < p.ring.head + p.ring.cap →
                             p.deq = 1 ∨ (s.sigs 1).signaled = true ∨ p.ring.head < p.ring.tail ∨
                             (∃ t th fr rest, s.threads t = some th ∧ th.finished = false ∧ th.stack = fr :: rest ∧
                               (busyPop th.retB fr = true ∨ lookP p.ring.tail th.retB th.stack = true)) ∨
                             (∀ u thu, s.threads u = some thu → commitP p.ring.tail thu.retB thu.stack = false)
    no_stuck_producer_side : (above), no hypothesis left.
    no_stuck_sleeper_on_deq : cfg.repaired = true → Reach cfg s → s.pool = some p → (∃ t, asleepOnDeq s t) →
                             (∃ w, liveWorker s w) → ∃ t, enabled s t = true      (free slot or full queue alike)
    free_slot_uncovered_at_start : the statement of `free_slot_is_covered` without its last disjunct is false in the
                             reachable state right after `mInit` (eager pool, capacity 1).
-/
import Nstd.Future.LiveProducer3
set_option linter.unusedSimpArgs false
set_option linter.unusedVariables false
namespace Nstd.Future

open LW LP

/-- thread `t` sleeps in `_dequeuedSignal.wait()` -/
def asleepOnDeq (s : State) (t : Tid) : Prop :=
  topFrame s t = some (.sWaitCwake 1) ∧ t ∈ (s.sigs 1).waiters

variable {cfg : Config} {s : State}

/-- `_dequeuedSignal._state` only takes the values 0 and 1 -/
theorem deq_le_one {p : Pool} (hrep : cfg.repaired = true) (hr : Reach cfg s) (hp : s.pool = some p) :
    p.deq ≤ 1 := by
  have := deqLe_reach hrep hr
  simpa only [deqOf, hp] using this

theorem w1PAt_iff {t : Tid} : w1PAt s t = true ↔
    ∃ th fr rest, s.threads t = some th ∧ th.stack = fr :: rest ∧ w1P fr = true := by
  simp only [w1PAt]
  cases hth : s.threads t with
  | none => simp
  | some th =>
    cases hst : th.stack with
    | nil => simp [w1PS, hst]
    | cons a l => simp [w1PS, hst]

theorem unfinished_of_stack {t : Tid} {th : Thread} {fr : Frame} {rest : List Frame} (hr : Reach cfg s)
    (hth : s.threads t = some th) (hst : th.stack = fr :: rest) : th.finished = false := by
  cases hf : th.finished
  · rfl
  · have := finished_stack_nil hr hth hf; rw [hst] at this; cases this

/-- (J1) for the dequeued FastSignal: whenever `_dequeuedSignal._state = 1`, the Signal is set or some (unfinished)
    thread is inside `FastSignal::set()`/`reset()` of the dequeued signal at a point from which it is still going to
    store `signaled := true`: at `sSetLock 1`/`sSetStore 1`, at the re-check `fRstLoad 1` of the repaired `reset()`
    (which goes on to `sSetLock 1` unless `_state` has become 0 again), or inside the `Signal::reset` of `reset()`
    with that re-check directly below on its stack -/
theorem deq_set_not_lost {p : Pool} (hrep : cfg.repaired = true) (hr : Reach cfg s) (hp : s.pool = some p)
    (he : p.deq = 1) :
    (s.sigs 1).signaled = true ∨
    ∃ t th fr rest, s.threads t = some th ∧ th.finished = false ∧ th.stack = fr :: rest ∧
      (fr = .sSetLock 1 ∨ fr = .sSetStore 1 ∨ fr = .fRstLoad 1 ∨
        ((fr = .sRstLock 1 ∨ fr = .sRstStore 1 ∨ fr = .sRstUnlock 1) ∧ rest.head? = some (.fRstLoad 1))) := by
  rcases j1_reach hrep hr (by simpa only [deqOf, hp] using he) with h | ⟨u, hu⟩
  · exact Or.inl h
  · right
    obtain ⟨th, fr, rest, hth, hst, hw⟩ := w1PAt_iff.mp hu
    have hadj := adj_reach hrep hr u th hth
    rw [hst] at hadj
    refine ⟨u, th, fr, rest, hth, unfinished_of_stack hr hth hst, hst, ?_⟩
    have h1 := hadj.1
    cases fr <;> simp [w1P] at hw <;> subst hw <;> simp [adjP] at h1 ⊢ <;> exact h1

theorem witAtP_iff {T : Nat} {t : Tid} : witAtP s T t = true ↔
    ∃ th fr rest, s.threads t = some th ∧ th.stack = fr :: rest ∧
      (busyPop th.retB fr = true ∨ lookP T th.retB th.stack = true) := by
  simp only [witAtP]
  cases hth : s.threads t with
  | none => simp
  | some th =>
    cases hst : th.stack with
    | nil => simp [witSP, lookP_nil, hst]
    | cons a l => simp [witSP, hst]

/-- (J2) every free slot is covered as soon as somebody depends on it: when `tail < head + cap`, then
    `_dequeuedSignal._state = 1`, or the Signal is set, or the queue is not empty (`head < tail`: then the worker
    side is responsible, `no_stuck_worker_side`), or some (unfinished) thread is a busy popper (`LP.busyPop`: top frame
    between its successful `popCas` and the `fSet 1` that follows the pop: `popData`/`popRel`, the worker's check
    with `retB = true`, `wDeq`, `fSet 1`) or a looking pusher (`LP.lookP`: a thread in a back-pressure loop that is
    going to execute a fresh `pushRead`, or holds a push ticket equal to the current tail, before it can go to
    sleep), or no thread is a committed pusher (`LP.commitP`: in its second push with a stale ticket at `pushChk`,
    back from a failed second push, in `fWait 1` or in `Signal::wait` on signal 1) -/
theorem free_slot_is_covered {p : Pool} (hrep : cfg.repaired = true) (hr : Reach cfg s) (hp : s.pool = some p)
    (hfree : p.ring.tail < p.ring.head + p.ring.cap) :
    p.deq = 1 ∨ (s.sigs 1).signaled = true ∨ p.ring.head < p.ring.tail ∨
    (∃ t th fr rest, s.threads t = some th ∧ th.finished = false ∧ th.stack = fr :: rest ∧
      (busyPop th.retB fr = true ∨ lookP p.ring.tail th.retB th.stack = true)) ∨
    (∀ u thu, s.threads u = some thu → commitP p.ring.tail thu.retB thu.stack = false) := by
  have h2 := j2_reach hrep hr
  simp only [J2, CovP, freeS, hdOf, tlOf, cpOf, deqOf, hp] at h2
  by_cases hex : ∃ u, commitAt s p.ring.tail u = true
  · rcases h2 hfree hex with h | h | h | ⟨u, hu⟩
    · exact Or.inl h
    · exact Or.inr (Or.inl h)
    · exact Or.inr (Or.inr (Or.inl h))
    · right; right; right; left
      obtain ⟨th, fr, rest, hth, hst, hw⟩ := witAtP_iff.mp hu
      exact ⟨u, th, fr, rest, hth, unfinished_of_stack hr hth hst, hst, hw⟩
  · right; right; right; right
    intro u thu hthu
    cases hc : commitP p.ring.tail thu.retB thu.stack
    · rfl
    · exact absurd ⟨u, by simp only [commitAt, hthu]; exact hc⟩ hex

/-! ### the final argument -/

/-- a witness of (J2) never has one of the top frames a thread can have in a dead state -/
theorem witP_not_dead {T : Nat} {rb : Bool} {fr : Frame} {rest : List Frame}
    (hw : busyPop rb fr = true ∨ lookP T rb (fr :: rest) = true)
    (hd : (∃ σ, fr = .sWaitCwake σ) ∨ (∃ i, fr = .mJoin i) ∨ (∃ i, fr = .dJoin i)) : False := by
  rcases hd with ⟨σ, rfl⟩ | ⟨i, rfl⟩ | ⟨i, rfl⟩ <;> simp [busyPop, lookP_cons, transpP, lookTopP] at hw

theorem w1P_not_dead {fr : Frame} (hw : w1P fr = true)
    (hd : (∃ σ, fr = .sWaitCwake σ) ∨ (∃ i, fr = .mJoin i) ∨ (∃ i, fr = .dJoin i)) : False := by
  rcases hd with ⟨σ, rfl⟩ | ⟨i, rfl⟩ | ⟨i, rfl⟩ <;> simp [w1P] at hw

/-- in the repaired system, whenever a thread sleeps on the dequeued signal while the queue has a free slot and a
    worker thread is alive, some thread can step: no lost wake-up on the producer side, for every schedule, any
    number of threads, any capacity -/
theorem no_stuck_producer_side (hrep : cfg.repaired = true) (hr : Reach cfg s) (hfree : slotFree s)
    (hsl : ∃ t, asleepOnDeq s t) (hw : ∃ w, liveWorker s w) : ∃ t, enabled s t = true := by
  apply Classical.byContradiction
  intro hcon
  have hne : ∀ t, enabled s t = false := by
    intro t
    cases he : enabled s t
    · rfl
    · exact absurd ⟨t, he⟩ hcon
  obtain ⟨p, hp, hlt⟩ := hfree
  obtain ⟨P, hPtop, hPw⟩ := hsl
  obtain ⟨thP, restP, hthP, hstP⟩ := topFrame_some hPtop
  -- the sleeper is a committed pusher
  have hcom : ∃ u, commitAt s (tlOf s) u = true :=
    ⟨P, by simp [commitAt, hthP, hstP, commitP_cons, commitTop]⟩
  have hfreeS : freeS s := by simp only [freeS, hdOf, tlOf, cpOf, hp]; exact hlt
  have hnd := pool_signal_neverDestroyed hr (by omega : 1 < 2) hp
  -- in a dead state every top frame is `sWaitCwake`, `mJoin` or `dJoin`
  have hshape : ∀ (t : Tid) (th : Thread) (fr : Frame) (rest : List Frame), s.threads t = some th →
      th.stack = fr :: rest → (∃ σ, fr = .sWaitCwake σ) ∨ (∃ i, fr = .mJoin i) ∨ (∃ i, fr = .dJoin i) := by
    intro t th fr rest hth hst
    rcases global_deadlock_shape hr hne (topFrame_of_stack hth hst) with ⟨σ, h, _⟩ | h | h
    · exact Or.inl ⟨σ, h⟩
    · exact Or.inr (Or.inl h)
    · exact Or.inr (Or.inr h)
  -- hence the Signal of the dequeued FastSignal is not set
  have hsig : sig1 s = true → False := by
    intro hs
    obtain ⟨u, _, hu⟩ := waiter_of_set_signal_has_enabled_setter hr hnd hPw hs
    rw [hne u] at hu; cases hu
  -- (J2): the free slot is covered
  rcases j2_reach hrep hr hfreeS hcom with he | hs | hlt2 | ⟨v, hv⟩
  · -- (J1)
    rcases j1_reach hrep hr he with hs | ⟨u, hu⟩
    · exact hsig hs
    · obtain ⟨th, fr, rest, hth, hst, hw1⟩ := w1PAt_iff.mp hu
      exact w1P_not_dead hw1 (hshape u th fr rest hth hst)
  · exact hsig hs
  · -- the queue is not empty: the worker side
    obtain ⟨u, hu⟩ := no_stuck_worker_side hrep hr
      ⟨p, hp, by simpa only [hdOf, tlOf, hp] using hlt2⟩ hw
    rw [hne u] at hu; cases hu
  · obtain ⟨th, fr, rest, hth, hst, hwit⟩ := witAtP_iff.mp hv
    rw [hst] at hwit
    exact witP_not_dead hwit (hshape v th fr rest hth hst)

/-- corollary (both sides together): with a live worker, a thread sleeping on the dequeued signal of an existing pool is
    never part of a dead state -- if the queue has a free slot by the producer side, if it is full (hence not empty)
    by the worker side -/
theorem no_stuck_sleeper_on_deq {p : Pool} (hrep : cfg.repaired = true) (hr : Reach cfg s) (hp : s.pool = some p)
    (hsl : ∃ t, asleepOnDeq s t) (hw : ∃ w, liveWorker s w) : ∃ t, enabled s t = true := by
  by_cases hfree : p.ring.tail < p.ring.head + p.ring.cap
  · exact no_stuck_producer_side hrep hr ⟨p, hp, hfree⟩ hsl hw
  · have hcap := full_cap hr hp
    have hpos := capOf_pos cfg
    exact no_stuck_worker_side hrep hr ⟨p, hp, by omega⟩ hw

/-! ### why (J2) needs the disjunct "no thread is a committed pusher" -/

/-- the configuration of the witness below: eager pool of capacity 1, no clients -/
def cfgStart : Config :=
  { q := 1, minT := 0, maxT := 3, lazy := false, tick := 0, spurious := 0, repaired := true, scripts := [] }

/-- the state right after the main thread has created the pool -/
def sStart : State := (stepFrame (State.init cfgStart) 0 { stack := [.mInit] } .mInit).1

theorem sStart_reach : Reach cfgStart sStart := Reach.step (o := []) 0 Reach.init rfl

theorem sStart_threads (t : Tid) :
    sStart.threads t = if t = 0 then some { stack := [.mSpawn 0] } else none := by
  by_cases ht : t = 0
  · subst ht; rfl
  · simp only [ht, if_false]
    show upd (State.init cfgStart).threads 0 _ t = none
    rw [upd_ne _ _ ht]
    simp [State.init, ht]

/-- the coverage statement without the disjunct "no thread is a committed pusher" is false: right after the pool has
    been created a slot is free, `_dequeuedSignal` is unset, the queue is empty and no thread is a busy popper or a
    looking pusher -/
theorem free_slot_uncovered_at_start :
    ∃ (cfg : Config) (s : State) (p : Pool), cfg.repaired = true ∧ Reach cfg s ∧ s.pool = some p ∧
      p.ring.tail < p.ring.head + p.ring.cap ∧
      ¬ (p.deq = 1 ∨ (s.sigs 1).signaled = true ∨ p.ring.head < p.ring.tail ∨
          ∃ t th fr rest, s.threads t = some th ∧ th.finished = false ∧ th.stack = fr :: rest ∧
            (busyPop th.retB fr = true ∨ lookP p.ring.tail th.retB th.stack = true)) := by
  refine ⟨cfgStart, sStart, mkPool 1 0 3, rfl, sStart_reach, rfl, by decide, ?_⟩
  rintro (h | h | h | ⟨t, th, fr, rest, hth, _, hst, hw⟩)
  · cases h
  · cases h
  · exact absurd h (by decide)
  · rw [sStart_threads] at hth
    split at hth
    · injection hth with hth
      subst hth
      simp only [List.cons.injEq] at hst
      obtain ⟨rfl, rfl⟩ := hst
      simp [busyPop, lookP_cons, lookP_nil, transpP, lookTopP] at hw
    · cases hth
end Nstd.Future
