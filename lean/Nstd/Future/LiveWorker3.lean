/-
  No lost wake-up on the worker side, part 3: the witnesses of the coverage invariant (I2) -- "busy supplier"
  and "looking consumer" -- and the effect of every micro-step other than a ring step on them (`shapeC`).
-/
import Nstd.Future.LiveWorker2
set_option linter.unusedSimpArgs false
set_option linter.unusedVariables false
namespace Nstd.Future.LW

/-- a pop whose read ticket is the current head `H` (or that re-reads the head before it can fail): everything
    except `popChk h` with `h ≠ H` -/
def freshPc (H : Nat) : RingPc Job → Bool
  | .popChk h => decide (h = H)
  | _ => true

/-- frames a worker may have above the frame that decides whether it is a looking consumer: thread start, the
    enqueued signal's `reset()`, every `Signal::set`, `FastSignal::set`, and `Future<A>::proc` -/
def transp : Frame → Bool
  | .tStart | .fRst _ | .fRstLoad _ | .sRstLock _ | .sRstStore _ | .sRstUnlock _ => true
  | .sSetLock _ | .sSetStore _ | .sSetBcast _ _ | .sSetUnlock _ | .fSet _ => true
  | .pCall _ | .pBody _ | .pStore _ | .pSetRd _ | .pSetX _ _ | .pSig _ | .pDelete _ => true
  | _ => false

/-- the deciding frame (with the frame below it): the worker is going to execute a fresh `popRead` (or has a
    ticket that is not stale) before it can go to sleep -/
def lookTop (H : Nat) (rb : Bool) : Frame → Option Frame → Bool
  | .wPop1, _ | .wChk1, _ | .wPop2, _ | .wDeq, _ | .wDispatch, _ | .wAdd, _ => true
  | .wChk2, _ => rb
  | .ring pc, some .wChk1 => isPopPc pc
  | .ring pc, some .wChk2 => isPopPc pc && freshPc H pc
  | _, _ => false

/-- looking consumer -/
def look (H : Nat) (rb : Bool) : List Frame → Bool
  | [] => false
  | fr :: rest => if transp fr then look H rb rest else lookTop H rb fr rest.head?

theorem look_nil (H : Nat) (rb : Bool) : look H rb [] = false := rfl
theorem look_cons (H : Nat) (rb : Bool) (fr : Frame) (rest : List Frame) :
    look H rb (fr :: rest) = if transp fr then look H rb rest else lookTop H rb fr rest.head? := rfl

def pushOwn : RingPc Job → Bool
  | .pushData _ _ | .pushPub _ _ => true
  | _ => false

/-- busy supplier (top frame): between its successful `pushCas` and the `FastSignal::set` on the enqueued
    signal that follows the push -/
def busyTop (rb : Bool) : Frame → Bool
  | .ring pc => pushOwn pc
  | .runChk1 _ | .runChk2 _ | .dChk1 _ | .dChk2 _ | .runRetAfter => rb
  | .runSet | .dSet _ => true
  | .fSet fs => fs == 0
  | _ => false

def witS (H : Nat) (rb : Bool) (l : List Frame) : Bool :=
  (match l.head? with | some fr => busyTop rb fr | none => false) || look H rb l

def witAt (s : State) (H : Nat) (t : Tid) : Bool :=
  match s.threads t with
  | some th => witS H th.retB th.stack
  | none => false

theorem look_of_head_wPop2 {H : Nat} {rb : Bool} {rest : List Frame} (h : rest.head? = some .wPop2) :
    look H rb rest = true := by
  cases rest with
  | nil => cases h
  | cons a l =>
    simp only [List.head?_cons, Option.some.injEq] at h; subst h
    simp [look_cons, transp, lookTop]

theorem look_of_head_fRstLoad {H : Nat} {rb : Bool} {rest : List Frame} (h : rest.head? = some (.fRstLoad 0))
    (h2 : AdjOk rest) : look H rb rest = true := by
  cases rest with
  | nil => cases h
  | cons a l =>
    simp only [List.head?_cons, Option.some.injEq] at h; subst h
    have := h2.1
    simp only [adj] at this
    simp [look_cons, transp, look_of_head_wPop2 (this trivial)]

structure ShapeC (s s' : State) (t : Tid) (th : Thread) (fr : Frame) (rest : List Frame) : Prop where
  pool : (hdOf s' = hdOf s ∧ tlOf s' = tlOf s) ∨ tlOf s' = 0
  f2 : AdjOk (fr :: rest) → enqOf s = 1 → enqOf s' = 1 ∨ witAt s' (hdOf s) t = true ∨ tlOf s' = 0
  f3 : AdjOk (fr :: rest) → sig0 s = true → sig0 s' = true ∨ witAt s' (hdOf s) t = true ∨ tlOf s' = 0
  f4 : witS (hdOf s) th.retB (fr :: rest) = true → witAt s' (hdOf s) t = true ∨ enqOf s' = 1 ∨ tlOf s' = 0

set_option maxHeartbeats 16000000 in
theorem shapeC (s : State) (t : Tid) (th : Thread) (fr : Frame) (rest : List Frame)
    (hth : s.threads t = some th) (hst : th.stack = fr :: rest) (hrep : s.cfg.repaired = true)
    (hnr : ∀ pc, fr ≠ .ring pc) :
    ShapeC s (stepFrame s t th fr).1 t th fr rest := by
  cases fr
  case ring pc => exact absurd rfl (hnr pc)
  all_goals
    rcases hp : s.pool with _ | p
  all_goals
    simp only [stepFrame, hp]
    repeat' split
  all_goals (try simp only [fsState] at *)
  all_goals
    constructor
    · simp [hdOf, tlOf, hp, setThread, setSig, setPool, setFut, withFault, destroySig, setFsState_ring, mkPool, Ring.init]
    · intro hb h1
      simp only [adjOk_cons, adj] at hb
      simp [enqOf, hdOf, tlOf, witAt, witS, busyTop, look_cons, look_nil, transp, lookTop, hp, hth, hst, hrep,
        setThread, setSig, setPool, setFut, withFault, destroySig, setFsState_enq, setFsState_ring, mkPool, Ring.init,
        upd_same, Thread.cont] at h1 ⊢
      try grind [look_of_head_wPop2]
    · intro hb h1
      simp only [adjOk_cons, adj] at hb
      simp [sig0, enqOf, hdOf, tlOf, witAt, witS, busyTop, look_cons, look_nil, transp, lookTop, hp, hth, hst, hrep,
        setThread, setSig, setPool, setFut, withFault, destroySig, setFsState_enq, setFsState_ring, mkPool, Ring.init,
        upd_same, Thread.cont] at h1 ⊢
      try grind [upd, look_of_head_fRstLoad]
    · intro h1
      simp [enqOf, hdOf, tlOf, witAt, witS, busyTop, look_cons, look_nil, transp, lookTop, hp, hth, hst, hrep,
        isPopPc, freshPc,
        setThread, setSig, setPool, setFut, withFault, destroySig, setFsState_enq, setFsState_ring, mkPool, Ring.init,
        upd_same, Thread.cont] at h1 ⊢
      try grind

end Nstd.Future.LW
