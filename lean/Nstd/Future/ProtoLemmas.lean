/-
  Theorems about the abstract sleep/wake protocol `Nstd.Future.Proto`:
    * `fastsignal_st_le_one`, `fastsignal_set_not_lost`  (repaired FastSignal::reset: negation of D17)
    * `proto_no_stuck`                                   (repaired + handoff: no lost wake-up)
    * `d17_protocol_witness`, `swallowed_wakeup_witness` (the original variants do get stuck)
-/
import Nstd.Future.ProtoLemmas1

namespace Nstd.Future.Proto

/-! ### 3. negation witnesses -/

/-- shortest D17 schedule (16 steps): C0 goes to sleep; S0's `set()` is interleaved with C1's `reset()` so that
    `_state = 1` with the signal reset; C1 takes the unit, leaves, its hand-off `set()` sees `_state = 1` -/
def d17Sched : List (Nat × Nat) :=
  [(0,0),(0,0),(0,0),(0,0),(0,1),(1,0),(1,0),(0,1),(1,0),(1,0),(1,0),(1,0),(0,1),(0,1),(2,1),(0,1)]

/-- shortest swallowed-wake-up schedule (15 steps): two units, one `set()`; the consumer that resets the
    signal takes one unit and leaves without passing the wake-up on -/
def swallowSched : List (Nat × Nat) :=
  [(0,0),(0,0),(0,0),(0,0),(0,0),(0,0),(0,1),(1,0),(1,0),(1,0),(1,0),(1,0),(0,1),(0,1),(0,1),(0,1),(2,1)]

theorem d17_run_stuck :
    runStuckB { nc := 2, ns := 1, repaired := false, handoff := true } d17Sched = true := by decide

theorem swallow_run_stuck :
    runStuckB { nc := 2, ns := 1, repaired := true, handoff := false } swallowSched = true := by decide

theorem d17_protocol_witness : ∃ s, PReach { nc := 2, ns := 1, repaired := false, handoff := true } s ∧
    Stuck { nc := 2, ns := 1, repaired := false, handoff := true } s :=
  runStuckB_sound d17_run_stuck

theorem swallowed_wakeup_witness : ∃ s, PReach { nc := 2, ns := 1, repaired := true, handoff := false } s ∧
    Stuck { nc := 2, ns := 1, repaired := true, handoff := false } s :=
  runStuckB_sound swallow_run_stuck

/-- in the D17 witness the final state has `_state = 1` and the signal reset, with every thread outside
    `set()`/`reset()` (the quiescent form of defect D17) -/
theorem d17_witness_state : ∃ s, runP { nc := 2, ns := 1, repaired := false, handoff := true } PState.init d17Sched = some s ∧
    s.st = 1 ∧ s.sig = false ∧ s.units = 1 ∧ s.cons 0 = .blocked ∧ s.cons 1 = .gone ∧ s.sup 0 = .idle := by
  refine ⟨_, rfl, ?_⟩
  decide

/-! ### 1. the FastSignal core invariant (repaired `reset`) -/

/-- consumer pcs strictly inside `reset()`/`set()` from which the signal is going to be set again
    (or, for `rstLoad`, `_state` is re-read) -/
def cw1 : CPc → Bool
  | .rstSig | .rstLoad | .rstSet | .leaveSig => true
  | _ => false

def isSetSig : SPc → Bool
  | .setSig => true
  | _ => false

/-- `_state ≤ 1`, and `_state = 1` implies that the signal is set or somebody is about to set it -/
structure Inv1 (cfg : PCfg) (s : PState) : Prop where
  st_le : s.st ≤ 1
  notlost : s.st = 1 → s.sig = true ∨ ExS cfg.ns s.sup isSetSig ∨ ExC cfg.nc s.cons cw1

theorem inv1_init (cfg : PCfg) : Inv1 cfg PState.init := by
  constructor
  · simp [PState.init]
  · intro h; simp [PState.init] at h

theorem inv1_stepC {cfg : PCfg} (hrep : cfg.repaired = true) {s s' : PState} {i : Nat}
    (hinv : Inv1 cfg s) (h : stepC cfg s i = some s') : Inv1 cfg s' := by
  obtain ⟨hle, hnl⟩ := hinv
  unfold stepC at h
  by_cases hi : i ≥ cfg.nc
  · simp only [hi, if_true] at h; cases h
  · simp only [hi, if_false] at h
    have hi' : i < cfg.nc := by omega
    rw [exC_split cw1 hi'] at hnl
    cases hpc : s.cons i <;> simp only [hpc, hrep, if_true] at h hnl
    all_goals (try (split at h)) <;> (try cases h) <;> (constructor <;> simp only [exC_upd cw1 _ hi', cw1])
    all_goals (try simp only [cw1] at hnl)
    all_goals first | omega | grind

theorem inv1_leaveC {cfg : PCfg} {s s' : PState} {i : Nat}
    (hinv : Inv1 cfg s) (h : leaveC cfg s i = some s') : Inv1 cfg s' := by
  obtain ⟨hle, hnl⟩ := hinv
  unfold leaveC at h
  by_cases hi : i ≥ cfg.nc
  · simp only [hi, if_true] at h; cases h
  · simp only [hi, if_false] at h
    have hi' : i < cfg.nc := by omega
    rw [exC_split cw1 hi'] at hnl
    cases hpc : s.cons i <;> simp only [hpc] at h hnl
    all_goals (try (split at h)) <;> (try cases h) <;> (constructor <;> simp only [exC_upd cw1 _ hi', cw1])
    all_goals (try simp only [cw1] at hnl)
    all_goals first | omega | grind

theorem inv1_stepS {cfg : PCfg} {s s' : PState} {j : Nat}
    (hinv : Inv1 cfg s) (h : stepS cfg s j = some s') : Inv1 cfg s' := by
  obtain ⟨hle, hnl⟩ := hinv
  unfold stepS at h
  by_cases hj : j ≥ cfg.ns
  · simp only [hj, if_true] at h; cases h
  · simp only [hj, if_false] at h
    have hj' : j < cfg.ns := by omega
    rw [exS_split isSetSig hj'] at hnl
    cases hpc : s.sup j <;> simp only [hpc] at h hnl
    all_goals (try (split at h)) <;> (try cases h) <;> (constructor <;> simp only [exS_upd isSetSig _ hj', isSetSig])
    all_goals (try simp only [isSetSig] at hnl)
    all_goals first | omega | grind

theorem inv1_reach {cfg : PCfg} (hrep : cfg.repaired = true) {s : PState} (hr : PReach cfg s) : Inv1 cfg s := by
  induction hr with
  | init => exact inv1_init cfg
  | stepC i _ h ih => exact inv1_stepC hrep ih h
  | stepS j _ h ih => exact inv1_stepS ih h
  | leaveC i _ h ih => exact inv1_leaveC ih h

theorem exS_isSetSig {cfg : PCfg} {s : PState} (h : ExS cfg.ns s.sup isSetSig) :
    ∃ j, j < cfg.ns ∧ s.sup j = .setSig := by
  obtain ⟨j, hj, hp⟩ := h
  refine ⟨j, hj, ?_⟩
  cases hpc : s.sup j <;> simp only [hpc, isSetSig] at hp <;> first | rfl | cases hp

theorem exC_cw1 {cfg : PCfg} {s : PState} (h : ExC cfg.nc s.cons cw1) :
    ∃ i, i < cfg.nc ∧ (s.cons i = .rstSig ∨ s.cons i = .rstLoad ∨ s.cons i = .rstSet ∨ s.cons i = .leaveSig) := by
  obtain ⟨i, hi, hp⟩ := h
  refine ⟨i, hi, ?_⟩
  cases hpc : s.cons i <;> simp only [hpc, cw1] at hp <;> first | exact absurd hp (by decide) | simp

/-- `FastSignal._state` only takes the values 0 and 1 (every variant of the protocol) -/
theorem fastsignal_st_le_one {cfg : PCfg} {s : PState} (hr : PReach cfg s) : s.st ≤ 1 := by
  induction hr with
  | init => simp [PState.init]
  | @stepC s s' i _ h ih =>
    unfold Proto.stepC at h
    by_cases hi : i ≥ cfg.nc
    · simp only [hi, if_true] at h; cases h
    · simp only [hi, if_false] at h
      cases hpc : s.cons i <;> simp only [hpc] at h
      all_goals (try (split at h)) <;> (try cases h) <;> first | exact ih | exact Nat.zero_le 1 | exact Nat.le_refl 1
  | @stepS s s' j _ h ih =>
    unfold Proto.stepS at h
    by_cases hj : j ≥ cfg.ns
    · simp only [hj, if_true] at h; cases h
    · simp only [hj, if_false] at h
      cases hpc : s.sup j <;> simp only [hpc] at h
      all_goals (try cases h) <;> first | exact ih | exact Nat.zero_le 1 | exact Nat.le_refl 1
  | @leaveC s s' i _ h ih =>
    unfold Proto.leaveC at h
    by_cases hi : i ≥ cfg.nc
    · simp only [hi, if_true] at h; cases h
    · simp only [hi, if_false] at h
      cases hpc : s.cons i <;> simp only [hpc] at h
      all_goals (try cases h) <;> first | exact ih | exact Nat.zero_le 1 | exact Nat.le_refl 1

/-- negation of D17 for the repaired `FastSignal::reset` (any `handoff`, any number of threads): whenever
    `_state = 1`, the signal is set or some thread is strictly inside `set()`/`reset()` at a point from
    which it is going to set the signal (`rstLoad` re-reads `_state` first: if it has become 0 the
    invariant has nothing to say, otherwise the thread continues to `rstSet`) -/
theorem fastsignal_set_not_lost {cfg : PCfg} (hrep : cfg.repaired = true) {s : PState} :
    PReach cfg s → s.st = 1 →
      s.sig = true ∨ (∃ j, j < cfg.ns ∧ s.sup j = .setSig) ∨
      (∃ i, i < cfg.nc ∧ (s.cons i = .rstSig ∨ s.cons i = .rstLoad ∨ s.cons i = .rstSet ∨ s.cons i = .leaveSig)) := by
  intro hr hst
  rcases (inv1_reach hrep hr).notlost hst with h | h | h
  · exact Or.inl h
  · exact Or.inr (Or.inl (exS_isSetSig h))
  · exact Or.inr (Or.inr (exC_cw1 h))

/-- the quiescent form (exactly the negation of D17): when no thread is inside `set()`/`reset()`,
    `_state = 1` implies that the signal is set -/
theorem fastsignal_quiescent {cfg : PCfg} (hrep : cfg.repaired = true) {s : PState} (hr : PReach cfg s)
    (hS : ∀ j, j < cfg.ns → s.sup j = .idle)
    (hC : ∀ i, i < cfg.nc → s.cons i = .take1 ∨ s.cons i = .take2 ∨ s.cons i = .waitLoad ∨ s.cons i = .blocked ∨
      s.cons i = .work ∨ s.cons i = .gone)
    (hst : s.st = 1) : s.sig = true := by
  rcases fastsignal_set_not_lost hrep hr hst with h | ⟨j, hj, hp⟩ | ⟨i, hi, hp⟩
  · exact h
  · rw [hS j hj] at hp; cases hp
  · rcases hC i hi with h | h | h | h | h | h <;> rw [h] at hp <;> simp at hp

/-! ### 2. no lost wake-up (repaired `reset` + hand-off on leave) -/

/-- consumer pcs from which the consumer is going to look at the counter again, or to call `set()`,
    before it can block: everything except `waitLoad`, `blocked`, `gone` -/
def cw2 : CPc → Bool
  | .waitLoad | .blocked | .gone => false
  | _ => true

def isBusy : SPc → Bool
  | .idle => false
  | _ => true

/-- available units are covered: `_state = 1`, or the signal is set, or a supplier is inside `set()`, or a
    consumer is going to re-check the counter / pass the wake-up on -/
def Inv2 (cfg : PCfg) (s : PState) : Prop :=
  s.units > 0 → s.st = 1 ∨ s.sig = true ∨ ExS cfg.ns s.sup isBusy ∨ ExC cfg.nc s.cons cw2

theorem inv2_init (cfg : PCfg) : Inv2 cfg PState.init := by
  intro h; simp [PState.init] at h

theorem inv2_stepC {cfg : PCfg} {s s' : PState} {i : Nat}
    (hinv : Inv2 cfg s) (h : stepC cfg s i = some s') : Inv2 cfg s' := by
  unfold Inv2 at hinv ⊢
  unfold stepC at h
  by_cases hi : i ≥ cfg.nc
  · simp only [hi, if_true] at h; cases h
  · simp only [hi, if_false] at h
    have hi' : i < cfg.nc := by omega
    rw [exC_split cw2 hi'] at hinv
    cases hpc : s.cons i <;> simp only [hpc] at h hinv
    all_goals (try (split at h)) <;> (try (split at h)) <;> (try cases h) <;> simp only [exC_upd cw2 _ hi', cw2]
    all_goals (try simp only [cw2] at hinv)
    all_goals first | omega | grind

theorem inv2_leaveC {cfg : PCfg} (hho : cfg.handoff = true) {s s' : PState} {i : Nat}
    (hinv : Inv2 cfg s) (h : leaveC cfg s i = some s') : Inv2 cfg s' := by
  unfold Inv2 at hinv ⊢
  unfold leaveC at h
  by_cases hi : i ≥ cfg.nc
  · simp only [hi, if_true] at h; cases h
  · simp only [hi, if_false] at h
    have hi' : i < cfg.nc := by omega
    rw [exC_split cw2 hi'] at hinv
    cases hpc : s.cons i <;> simp only [hpc, hho, if_true] at h hinv
    all_goals (try cases h) <;> simp only [exC_upd cw2 _ hi', cw2]
    all_goals (try simp only [cw2] at hinv)
    all_goals first | omega | grind

theorem inv2_stepS {cfg : PCfg} {s s' : PState} {j : Nat}
    (h : stepS cfg s j = some s') : Inv2 cfg s' := by
  unfold Inv2
  unfold stepS at h
  by_cases hj : j ≥ cfg.ns
  · simp only [hj, if_true] at h; cases h
  · simp only [hj, if_false] at h
    have hj' : j < cfg.ns := by omega
    cases hpc : s.sup j <;> simp only [hpc] at h
    all_goals (try (split at h)) <;> (try cases h) <;> simp only [exS_upd isBusy _ hj', isBusy]
    all_goals first | omega | grind

theorem inv2_reach {cfg : PCfg} (hho : cfg.handoff = true) {s : PState} (hr : PReach cfg s) : Inv2 cfg s := by
  induction hr with
  | init => exact inv2_init cfg
  | stepC i _ h ih => exact inv2_stepC ih h
  | stepS j _ h _ => exact inv2_stepS h
  | leaveC i _ h ih => exact inv2_leaveC hho ih h

/-- the coverage invariant in plain terms (needs only the hand-off, not the repaired reset) -/
theorem units_covered {cfg : PCfg} (hho : cfg.handoff = true) {s : PState} (hr : PReach cfg s) (hu : s.units > 0) :
    s.st = 1 ∨ s.sig = true ∨ (∃ j, supBusy cfg s j) ∨
    (∃ i, i < cfg.nc ∧ s.cons i ≠ .waitLoad ∧ s.cons i ≠ .blocked ∧ s.cons i ≠ .gone) := by
  rcases inv2_reach hho hr hu with h | h | ⟨j, hj, hp⟩ | ⟨i, hi, hp⟩
  · exact Or.inl h
  · exact Or.inr (Or.inl h)
  · refine Or.inr (Or.inr (Or.inl ⟨j, hj, ?_⟩))
    intro hidle; simp only [hidle, isBusy] at hp; cases hp
  · refine Or.inr (Or.inr (Or.inr ⟨i, hi, ?_, ?_, ?_⟩)) <;>
      (intro hc; simp only [hc, cw2] at hp; cases hp)

/-- no lost wake-up for the pool pattern with both repairs, any number of consumers and suppliers -/
theorem proto_no_stuck {cfg : PCfg} (hrep : cfg.repaired = true) (hho : cfg.handoff = true) {s : PState} :
    PReach cfg s → ¬ Stuck cfg s := by
  intro hr ⟨hu, _, hsig, hnc, hns⟩
  have noS : ∀ j, j < cfg.ns → s.sup j = .idle := by
    intro j hj
    apply Classical.byContradiction
    intro hne
    exact hns j ⟨hj, hne⟩
  have noC : ∀ i, i < cfg.nc → s.cons i = .blocked ∨ s.cons i = .gone := by
    intro i hi
    apply Classical.byContradiction
    intro hne
    exact hnc i ⟨hi, fun hb => hne (Or.inl hb), fun hg => hne (Or.inr hg)⟩
  have hst : s.st = 1 := by
    rcases inv2_reach hho hr hu with h | h | ⟨j, hj, hp⟩ | ⟨i, hi, hp⟩
    · exact h
    · rw [hsig] at h; cases h
    · rw [noS j hj] at hp; simp only [isBusy] at hp; cases hp
    · rcases noC i hi with h | h <;> (rw [h] at hp; simp only [cw2] at hp; cases hp)
  rcases (inv1_reach hrep hr).notlost hst with h | ⟨j, hj, hp⟩ | ⟨i, hi, hp⟩
  · rw [hsig] at h; cases h
  · rw [noS j hj] at hp; simp only [isSetSig] at hp; cases hp
  · rcases noC i hi with h | h <;> (rw [h] at hp; simp only [cw1] at hp; cases hp)

end Nstd.Future.Proto
