/-
  Field `caller` of `L1.Side` for reachable states: a `push`/`pop` frame (`ring pc`) sits directly above one of
  its callers.  Inductive stack invariant `sbOk` (adjacency), no hypothesis on the configuration.
-/
import Nstd.Future.Fair2L1Def
set_option linter.unusedVariables false
namespace Nstd.Future.L1

def sbCk (pc : RingPc Job) : Option Frame → Bool
  | some c => if isPopB pc then popCallerB c else pushCallerB c
  | none => false

def sbAdj : Frame → Option Frame → Prop
  | .ring pc, o => sbCk pc o = true
  | _, _ => True

def sbOk : List Frame → Prop
  | [] => True
  | a :: l => sbAdj a l.head? ∧ sbOk l

theorem sbOk_nil : sbOk [] := trivial
theorem sbOk_cons {a : Frame} {l : List Frame} : sbOk (a :: l) ↔ sbAdj a l.head? ∧ sbOk l := Iff.rfl

theorem sbIsPop_eq : isPopB = LW.isPopPc := by
  funext pc; cases pc <;> rfl

/-- what one step does to the stack invariant of the stepping thread and to the other threads -/
structure sbShapeT (s s' : State) (t : Tid) (th : Thread) (fr : Frame) (rest : List Frame) : Prop where
  self : ∃ th', s'.threads t = some th' ∧ (sbOk (fr :: rest) → sbOk th'.stack)
  others : ∀ u, u ≠ t → s'.threads u = s.threads u ∨
      (u = s.nthreads ∧
        (s'.threads u = some { stack := [.tStart, .wPop1], isWorker := true } ∨
         ∃ sc, s'.threads u = some { stack := [.tStart, .cNext], script := sc }))

set_option maxHeartbeats 8000000 in
theorem sbShape (s : State) (t : Tid) (th : Thread) (fr : Frame) (rest : List Frame)
    (hth : s.threads t = some th) (hst : th.stack = fr :: rest) :
    sbShapeT s (stepFrame s t th fr).1 t th fr rest := by
  cases fr
  case ring pc =>
    cases hp : s.pool with
    | none =>
      rw [LW.ring_step_noPool s t th pc hp]
      exact ⟨⟨th, hth, fun h => by rw [hst]; exact h⟩, fun u hu => Or.inl rfl⟩
    | some p =>
      obtain ⟨th', h1, h2, h3, h4, h5, h6⟩ := LW.ring_step_desc s t th pc rest p hp hst
      refine ⟨⟨th', by rw [h1, upd_same], ?_⟩, fun u hu => Or.inl (by rw [h1, upd_ne _ _ hu])⟩
      intro h
      rcases h6.shape with ⟨pc', hr, hs, _⟩ | ⟨ok, _, hs, _⟩ | ⟨o, _, hs, _⟩
      · rw [hs]
        have hpp : LW.isPopPc pc' = LW.isPopPc pc :=
          LW.ringStep_cont_pop (r := p.ring) (r' := (ringStep p.ring pc).1) (by rw [← hr])
        refine ⟨?_, h.2⟩
        have h0 := h.1
        cases hd : rest.head? with
        | none => rw [hd] at h0; simp [sbAdj, sbCk] at h0
        | some c =>
          rw [hd] at h0
          simp only [sbAdj, sbCk, sbIsPop_eq] at h0 ⊢
          rw [hpp]; exact h0
      · rw [hs]; exact h.2
      · rw [hs]; exact h.2
  all_goals
    simp only [stepFrame]
    repeat' split
  all_goals
    constructor
    · simp only [setThread, setSig, setPool, setFut, withFault, destroySig, upd_same, hth, Option.some.injEq, exists_eq_left']
      intro hb
      simp only [sbOk_cons, sbAdj] at hb
      simp [Thread.cont, hst, sbOk_cons, sbOk_nil, sbAdj, sbCk, isPopB, popCallerB, pushCallerB, hb]
      try (simp_all; done)
    · intro u hu
      simp [setThread, setSig, setPool, setFut, withFault, destroySig, upd_ne _ _ hu]
      try (by_cases hw : u = s.nthreads
           · right; subst hw; refine ⟨rfl, ?_⟩; simp [upd_same]
           · left; exact upd_ne _ _ hw)

def sbInv (s : State) : Prop := ∀ u th, s.threads u = some th → sbOk th.stack

theorem sbInv_init (cfg : Config) : sbInv (State.init cfg) := by
  intro u th h
  simp only [State.init] at h
  split at h
  · injection h with h; subst h
    exact ⟨trivial, trivial⟩
  · cases h

theorem sbInv_step {s s' : State} {t : Tid} {o : List String} (hI : sbInv s)
    (h : step s t = some (s', o)) : sbInv s' := by
  obtain ⟨th, fr, rest, hth, hst, hfin, rfl⟩ := step_inv h
  have hk := sbShape s t th fr rest hth hst
  intro u thu hthu
  by_cases hu : u = t
  · subst hu
    obtain ⟨th', h1, h2⟩ := hk.self
    rw [hthu] at h1; injection h1 with h1; subst h1
    exact h2 (by rw [← hst]; exact hI u th hth)
  · rcases hk.others u hu with h2 | ⟨_, h2 | ⟨sc, h2⟩⟩
    · rw [h2] at hthu; exact hI u thu hthu
    · rw [hthu] at h2; injection h2 with h2; subst h2; exact ⟨trivial, trivial, trivial⟩
    · rw [hthu] at h2; injection h2 with h2; subst h2; exact ⟨trivial, trivial, trivial⟩

theorem sbInv_reach {cfg : Config} {s : State} (hr : Reach cfg s) : sbInv s := by
  induction hr with
  | init => exact sbInv_init cfg
  | step t hr hs ih => exact sbInv_step ih hs

/-- field `caller` of `L1.Side` for reachable states -/
theorem caller_reach {cfg : Config} {s : State} (hr : Reach cfg s) :
    ∀ t th pc rest, s.threads t = some th → th.stack = .ring pc :: rest →
      ∃ c rest', rest = c :: rest' ∧ (if isPopB pc then popCallerB c else pushCallerB c) = true := by
  intro t th pc rest hth hst
  have h := sbInv_reach hr t th hth
  rw [hst] at h
  have h0 := h.1
  cases rest with
  | nil => simp [sbAdj, sbCk] at h0
  | cons c rest' =>
    refine ⟨c, rest', rfl, ?_⟩
    simpa [sbAdj, sbCk] using h0

end Nstd.Future.L1
