/-
  Shutdown side of deadlock freedom, part 6: the EQUALITY form of the counting invariant in every reachable state of
  the repaired model (`lse_reach`).
-/
import Nstd.Future.LiveShutdown5
set_option linter.unusedSimpArgs false
set_option linter.unusedVariables false
namespace Nstd.Future.LS

/-! ### one ring micro-step: the exact count -/

set_option maxHeartbeats 4000000 in
theorem lse_ring_pure (r : Ring Job) (pc : RingPc Job) (c : Frame) (rb : Bool) (rj : Job)
    (hcall : LW.callerOk pc (some c) = true) (hpay : lsePayC pc (some c) = true)
    (hht : r.head ≤ r.pushLog.length)
    (hcas : ∀ h, pc = .popCas h → r.head = h → h < r.pushLog.length)
    (hrel : ∀ x d, pc = .popRel x d → ∃ j, d = some j ∧ r.pushLog[x]? = some j) :
    lsFr (lsAfter rb rj (ringStep r pc).2).1 (lsAfter rb rj (ringStep r pc).2).2.1 (ringStep r pc).1.pushLog
        (lsAfter rb rj (ringStep r pc).2).2.2 c + lsTq r.head r.pushLog
      = lsFr rb rj r.pushLog (some pc) c + lsTq (ringStep r pc).1.head (ringStep r pc).1.pushLog := by
  cases pc
  case pushCas d tk =>
    simp only [ringStep]
    split
    · next heq =>
      simp only [lsAfter, lsTq_push _ _ _ hht]
      cases c <;> simp [LW.callerOk, LW.isPopPc, LW.pushCaller] at hcall <;>
        simp [lsePayC, LW.isPopPc, lsRestr, lsNonePc] at hpay <;>
        simp [lsFr, lsCapt, lsCaptPc, hpay]
      all_goals first | omega | (cases d <;> simp_all)
    · simp only [lsAfter]
      cases c <;> simp [LW.callerOk, LW.isPopPc, LW.pushCaller] at hcall <;> simp [lsFr, lsCapt, lsCaptPc]
  case popCas h =>
    simp only [ringStep]
    split
    · next heq =>
      have hlt := hcas h rfl heq
      simp only [lsAfter]
      rw [heq, lsTq_pop h _ hlt]
      cases c <;> simp [LW.callerOk, LW.isPopPc, LW.popCaller] at hcall <;>
        simp [lsFr, lsServ, lsServPc]
      all_goals (split <;> omega)
    · simp only [lsAfter]
      cases c <;> simp [LW.callerOk, LW.isPopPc, LW.popCaller] at hcall <;> simp [lsFr, lsServ, lsServPc]
  case popRel x d =>
    obtain ⟨j, rfl, hj⟩ := hrel x d rfl
    simp only [ringStep, lsAfter, Ring.setSlot]
    cases c <;> simp [LW.callerOk, LW.isPopPc, LW.popCaller] at hcall <;>
      simp [lsFr, lsServ, lsServPc, hj]
    all_goals (cases j <;> simp)
  case pushRead d =>
    simp only [ringStep, lsAfter]
    cases c <;> simp [LW.callerOk, LW.isPopPc, LW.pushCaller] at hcall <;> simp [lsFr, lsCapt, lsCaptPc]
  case pushChk d tk =>
    simp only [ringStep]
    split <;> simp only [lsAfter] <;>
      cases c <;> simp [LW.callerOk, LW.isPopPc, LW.pushCaller] at hcall <;> simp [lsFr, lsCapt, lsCaptPc]
  case pushData d tk =>
    simp only [ringStep, lsAfter, Ring.setSlot]
    cases c <;> simp [LW.callerOk, LW.isPopPc, LW.pushCaller] at hcall <;> simp [lsFr, lsCapt, lsCaptPc]
  case pushPub d tk =>
    simp only [ringStep, lsAfter, Ring.setSlot]
    cases c <;> simp [LW.callerOk, LW.isPopPc, LW.pushCaller] at hcall <;> simp [lsFr, lsCapt, lsCaptPc]
  case popRead =>
    simp only [ringStep, lsAfter]
    cases c <;> simp [LW.callerOk, LW.isPopPc, LW.popCaller] at hcall <;> simp [lsFr, lsServ, lsServPc]
  case popChk h =>
    simp only [ringStep]
    split <;> simp only [lsAfter] <;>
      cases c <;> simp [LW.callerOk, LW.isPopPc, LW.popCaller] at hcall <;> simp [lsFr, lsServ, lsServPc]
  case popData h =>
    simp only [ringStep, lsAfter, Ring.setSlot]
    cases c <;> simp [LW.callerOk, LW.isPopPc, LW.popCaller] at hcall <;> simp [lsFr, lsServ, lsServPc]

/-! ### the invariant -/

structure LseInv (s : State) : Prop where
  cb : ∀ t th, s.threads t = some th → LseCB th.stack
  pay : ∀ t th, s.threads t = some th → LsePayOk th.stack
  l : ∀ p u, s.pool = some p → lsM2At s u ≤ p.threadCount
  r : ∀ p u, s.pool = some p → 1 ≤ lsRaAt s u → p.minT < p.threadCount
  e : ∀ p, s.pool = some p →
    (¬ lsDone s → tsum s.nthreads (lsAt p.ring.pushLog s) = lsTq p.ring.head p.ring.pushLog + p.threadCount) ∧
    (lsDone s → tsum s.nthreads (lsAt p.ring.pushLog s) = lsTq p.ring.head p.ring.pushLog)

theorem lseInv_init (cfg : Config) : LseInv (State.init cfg) := by
  have hthr : ∀ t th, (State.init cfg).threads t = some th → th = { stack := [Frame.mInit] } := by
    intro t th h
    simp only [State.init] at h
    split at h
    · injection h with h; exact h.symm
    · cases h
  refine ⟨?_, ?_, ?_, ?_, ?_⟩
  · intro t th h; rw [hthr t th h]; simp [lseCB_cons, lseCB_nil, lsAllB_nil]
  · intro t th h; rw [hthr t th h]; simp [lsePayOk_cons, lsePayOk_nil, lsePadj]
  · intro p u h; simp [State.init] at h
  · intro p u h; simp [State.init] at h
  · intro p h; simp [State.init] at h

/-! ### the stack side conditions across one step -/

theorem lse_stack_step {cfg : Config} {s s' : State} {t : Tid} {o : List String} (hrep : cfg.repaired = true)
    (hr : Reach cfg s) (hI : LseInv s) (h : step s t = some (s', o)) :
    (∀ u thu, s'.threads u = some thu → LseCB thu.stack) ∧ (∀ u thu, s'.threads u = some thu → LsePayOk thu.stack) := by
  obtain ⟨th, fr, rest, hth, hst, hfin, rfl⟩ := step_inv h
  have hrep' : s.cfg.repaired = true := by rw [reach_cfg hr]; exact hrep
  have hK := LW.shapeK s t th fr rest hth hst hrep'
  have hself : ∃ th', (stepFrame s t th fr).1.threads t = some th' ∧
      (LseCB (fr :: rest) → LseCB th'.stack) ∧ (LsePayOk (fr :: rest) → LsePayOk th'.stack) := by
    cases hnr : lsRingOf fr with
    | none => exact (lseShapeD s t th fr rest hth hst hnr hrep').self
    | some pc =>
      have hfr : fr = .ring pc := by cases fr <;> simp [lsRingOf] at hnr; rw [hnr]
      subst hfr
      cases hp : s.pool with
      | none =>
        rw [LW.ring_step_noPool s t th pc hp]
        exact ⟨th, hth, fun h => by rw [hst]; exact h, fun h => by rw [hst]; exact h⟩
      | some p =>
        obtain ⟨th', h1, h2, h3, h4, h5, h6⟩ := ls_ring_desc s t th pc rest p hp hst
        refine ⟨th', by rw [h1, upd_same], ?_, ?_⟩
        · intro hb
          rw [h6]
          cases hres : (ringStep p.ring pc).2 with
          | cont pc' => exact ⟨fun hc => by simp [lseC, lsC] at hc, hb.2⟩
          | pushed ok => exact hb.2
          | popped x => exact hb.2
        · intro hb
          rw [h6]
          cases hres : (ringStep p.ring pc).2 with
          | cont pc' =>
            have hn : lsNonePc pc' = lsNonePc pc :=
              ls_cont_none (r := p.ring) (r' := (ringStep p.ring pc).1) (by rw [← hres])
            have hpp : LW.isPopPc pc' = LW.isPopPc pc :=
              LW.ringStep_cont_pop (r := p.ring) (r' := (ringStep p.ring pc).1) (by rw [← hres])
            refine ⟨?_, hb.2⟩
            have h0 := hb.1
            simp only [lsePadj, lsePayC, lsAfterStk] at h0 ⊢
            rw [hn, hpp]; exact h0
          | pushed ok => exact hb.2
          | popped x => exact hb.2
  obtain ⟨th', hth', hcb', hpay'⟩ := hself
  have hoth : ∀ u thu, u ≠ t → (stepFrame s t th fr).1.threads u = some thu →
      s.threads u = some thu ∨ thu = { stack := [.tStart, .wPop1], isWorker := true } ∨
        ∃ sc, thu = { stack := [.tStart, .cNext], script := sc } := by
    intro u thu hu hthu
    rcases hK.others u hu with h2 | ⟨_, h2 | ⟨sc, h2⟩⟩
    · left; rw [← h2]; exact hthu
    · right; left; rw [hthu] at h2; injection h2
    · right; right; rw [hthu] at h2; injection h2 with h2; exact ⟨sc, h2⟩
  constructor
  · intro u thu hthu
    by_cases hu : u = t
    · subst hu; rw [hth'] at hthu; injection hthu with hthu; subst hthu
      exact hcb' (by rw [← hst]; exact hI.cb u th hth)
    · rcases hoth u thu hu hthu with h2 | rfl | ⟨sc, rfl⟩
      · exact hI.cb u thu h2
      · simp [lseCB_cons, lseCB_nil, lsAllB_nil, lseC, lsC]
      · simp [lseCB_cons, lseCB_nil, lsAllB_nil, lseC, lsC]
  · intro u thu hthu
    by_cases hu : u = t
    · subst hu; rw [hth'] at hthu; injection hthu with hthu; subst hthu
      exact hpay' (by rw [← hst]; exact hI.pay u th hth)
    · rcases hoth u thu hu hthu with h2 | rfl | ⟨sc, rfl⟩
      · exact hI.pay u thu h2
      · simp [lsePayOk_cons, lsePayOk_nil, lsePadj]
      · simp [lsePayOk_cons, lsePayOk_nil, lsePadj]

/-! ### helpers -/

structure LseNum (s : State) : Prop where
  l : ∀ p u, s.pool = some p → lsM2At s u ≤ p.threadCount
  r : ∀ p u, s.pool = some p → 1 ≤ lsRaAt s u → p.minT < p.threadCount
  e : ∀ p, s.pool = some p →
    (¬ lsDone s → tsum s.nthreads (lsAt p.ring.pushLog s) = lsTq p.ring.head p.ring.pushLog + p.threadCount) ∧
    (lsDone s → tsum s.nthreads (lsAt p.ring.pushLog s) = lsTq p.ring.head p.ring.pushLog)

theorem lsRA_noHold {l : List Frame} (h : 1 ≤ lsum lsRA l) : noHold l = false := by
  induction l with
  | nil => simp at h
  | cons a l ih =>
    simp only [lsum_cons] at h
    by_cases ha : 1 ≤ lsRA a
    · have : poolHold a = true := by cases a <;> first | rfl | (simp [lsRA] at ha)
      simp [noHold, this]
    · simp [noHold, ih (by omega)]

theorem lsM2_pos {l : List Frame} (h : 1 ≤ lsum lsM2 l) : ∃ f ∈ l, ∀ s : State, Phase s f → AllFin s := by
  induction l with
  | nil => simp at h
  | cons a l ih =>
    simp only [lsum_cons] at h
    by_cases ha : 1 ≤ lsM2 a
    · refine ⟨a, List.mem_cons_self .., ?_⟩
      cases a <;> simp [lsM2] at ha <;> exact fun s h => h
    · obtain ⟨f, hf, h2⟩ := ih (by omega)
      exact ⟨f, List.mem_cons_of_mem _ hf, h2⟩

theorem lse_allfin_nonclient {cfg : Config} {s : State} (hr : Reach cfg s) (hall : AllFin s) {t : Tid} {th : Thread}
    (hth : s.threads t = some th) (hfin : th.finished = false) : AllNC th.stack := by
  rcases (reach_join hr).kinds t th hth with h3 | h3
  · obtain ⟨th2, h4, h5⟩ := hall t h3
    rw [hth] at h4; injection h4 with h4; subst h4; rw [hfin] at h5; cases h5
  · exact h3

/-- if some thread is inside the destructor loop, every client has finished -/
theorem lse_m2_allfin {cfg : Config} {s : State} (hr : Reach cfg s) {u : Tid} (h : 1 ≤ lsM2At s u) : AllFin s := by
  simp only [lsM2At] at h
  cases hthu : s.threads u with
  | none => rw [hthu] at h; simp at h
  | some thu =>
    rw [hthu] at h
    obtain ⟨f, hf, h2⟩ := lsM2_pos h
    exact h2 s ((reach_join hr).phase u thu hthu f hf)

theorem lse_done_allfin {cfg : Config} {s : State} (hr : Reach cfg s) (hd : lsDone s) : AllFin s := by
  obtain ⟨u, thu, hthu, h1⟩ := hd
  obtain ⟨f, hf, h2⟩ := lsDJ_pos h1
  have hph := (reach_join hr).phase u thu hthu f hf
  rcases h2 with ⟨i, rfl⟩ | rfl <;> exact hph

theorem lsum_afterStk {g : Frame → Nat} (hg : ∀ pc, g (.ring pc) = 0) (res : RingRes Job) (pc : RingPc Job)
    (rest : List Frame) : lsum g (lsAfterStk res rest) = lsum g (.ring pc :: rest) := by
  cases res <;> simp [lsAfterStk, hg]

/-! ### a `push`/`pop` micro-step -/

theorem lse_num_ring {cfg : Config} {s : State} {t : Tid} {th : Thread} {pc : RingPc Job} {rest : List Frame}
    {p : Pool} {o : List String}
    (hrep : cfg.repaired = true) (hr : Reach cfg s) (hI : LseInv s)
    (hth : s.threads t = some th) (hst : th.stack = .ring pc :: rest) (hp : s.pool = some p)
    (hstep : step s t = some ((stepFrame s t th (.ring pc)).1, o)) : LseNum (stepFrame s t th (.ring pc)).1 := by
  have hrep' : s.cfg.repaired = true := by rw [reach_cfg hr]; exact hrep
  have hr' : Reach cfg (stepFrame s t th (.ring pc)).1 := Reach.step t hr hstep
  have htlt := ls_thread_lt hr hth
  have hK := LW.shapeK s t th (.ring pc) rest hth hst hrep'
  have hadj := (LW.stk_reach hrep hr).adj t th hth
  rw [hst] at hadj
  have hcall0 : LW.callerOk pc rest.head? = true := hadj.1
  obtain ⟨c, rest2, hrest⟩ : ∃ c rest2, rest = c :: rest2 := by
    cases rest with
    | nil => simp [LW.callerOk] at hcall0
    | cons c rest2 => exact ⟨c, rest2, rfl⟩
  subst hrest
  have hcall : LW.callerOk pc (some c) = true := hcall0
  have hpay : lsePayC pc (some c) = true := by
    have := hI.pay t th hth; rw [hst] at this; exact this.1
  have hallB : LsAllB rest2 := by
    have := hI.cb t th hth; rw [hst] at this
    exact this.2.1 (by simp [lseC, lsC_of_caller hcall])
  obtain ⟨th', h1, h2, h3, h4, h5, h6⟩ := ls_ring_desc s t th pc (c :: rest2) p hp hst
  have hthr : ∀ u, u ≠ t → (stepFrame s t th (.ring pc)).1.threads u = s.threads u := by
    intro u hu; rw [h1, upd_ne _ _ hu]
  have hm2 : ∀ u, lsM2At (stepFrame s t th (.ring pc)).1 u = lsM2At s u := by
    intro u
    by_cases hu : u = t
    · subst hu
      simp only [lsM2At, h1, upd_same, hth, h6, hst]
      exact lsum_afterStk (fun _ => rfl) _ pc _
    · simp only [lsM2At, hthr u hu]
  have hra : ∀ u, lsRaAt (stepFrame s t th (.ring pc)).1 u = lsRaAt s u := by
    intro u
    by_cases hu : u = t
    · subst hu
      simp only [lsRaAt, h1, upd_same, hth, h6, hst]
      exact lsum_afterStk (fun _ => rfl) _ pc _
    · simp only [lsRaAt, hthr u hu]
  have hdj : lsDjAt (stepFrame s t th (.ring pc)).1 t = lsDjAt s t := by
    simp only [lsDjAt, h1, upd_same, hth, h6, hst]
    exact lsum_afterStk (fun _ => rfl) _ pc _
  have hdone : lsDone (stepFrame s t th (.ring pc)).1 ↔ lsDone s := by
    constructor
    · intro hd
      rcases ls_done_cases hK hd with hd | hd
      · exact hd
      · rw [hdj] at hd; exact ⟨t, th, hth, by simpa [lsDjAt, hth] using hd⟩
    · rintro ⟨u, thu, hthu, hd⟩
      by_cases hu : u = t
      · subst hu
        have : 1 ≤ lsDjAt s u := by simpa [lsDjAt, hthu] using hd
        rw [← hdj] at this
        simp only [lsDjAt, h1, upd_same] at this
        exact ⟨u, th', by rw [h1, upd_same], this⟩
      · exact ⟨u, thu, by rw [hthr u hu]; exact hthu, hd⟩
  refine ⟨?_, ?_, ?_⟩
  · intro p0 u hp0
    rw [h2] at hp0; injection hp0 with hp0; subst hp0
    rw [hm2 u]; exact hI.l p u hp
  · intro p0 u hp0 h
    rw [h2] at hp0; injection hp0 with hp0; subst hp0
    rw [hra u] at h; exact hI.r p u hp h
  · intro p0 hp0
    rw [h2] at hp0; injection hp0 with hp0; subst hp0
    simp only []
    have hlen := full_pushLog_len hr hp
    have hht : p.ring.head ≤ p.ring.pushLog.length := by rw [hlen]; exact full_head_le_tail hr hp
    have hcas : ∀ h, pc = .popCas h → p.ring.head = h → h < p.ring.pushLog.length := by
      intro h hpc heq
      subst hpc
      have h7 := full_head_le_tail hr' h2
      simp [ringStep, heq] at h7
      omega
    have hrel : ∀ x d, pc = .popRel x d → ∃ j, d = some j ∧ p.ring.pushLog[x]? = some j := by
      intro x d hpc
      subst hpc
      have htop : th.stack.head? = some (.ring (.popRel x d)) := by rw [hst]; rfl
      obtain ⟨_, h8⟩ := full_popRel_payload hr hp hth htop
      obtain ⟨j, h9⟩ := full_popRel_some hr hp hth htop
      exact ⟨j, h9, by rw [← h8, h9]⟩
    have hpure := lse_ring_pure p.ring pc c th.retB th.retJob hcall hpay hht hcas hrel
    have ha : lsAt p.ring.pushLog s t = lsFr th.retB th.retJob p.ring.pushLog (some pc) c := by
      simp [lsAt, lsVal, hth, lsW, hst, lsFr_ring, lsRingOf, lsStk_base _ _ _ _ hallB]
    have ha' : lsAt (ringStep p.ring pc).1.pushLog (stepFrame s t th (.ring pc)).1 t =
        lsFr (lsAfter th.retB th.retJob (ringStep p.ring pc).2).1 (lsAfter th.retB th.retJob (ringStep p.ring pc).2).2.1
          (ringStep p.ring pc).1.pushLog (lsAfter th.retB th.retJob (ringStep p.ring pc).2).2.2 c := by
      simp only [lsAt, h1, upd_same, lsVal, lsW, h4, h5, h6]
      cases hres : (ringStep p.ring pc).2 with
      | cont pc' => simp [lsAfter, lsAfterStk, lsFr_ring, lsRingOf, lsStk_base _ _ _ _ hallB]
      | pushed ok => simp [lsAfter, lsAfterStk, lsFr_ring, lsRingOf, lsStk_base _ _ _ _ hallB]
      | popped x =>
        rcases x with _ | _ | j <;> simp [lsAfter, lsAfterStk, lsFr_ring, lsRingOf, lsStk_base _ _ _ _ hallB]
    have hoth : ∀ u, u < s.nthreads → u ≠ t →
        lsAt (ringStep p.ring pc).1.pushLog (stepFrame s t th (.ring pc)).1 u = lsAt p.ring.pushLog s u := by
      intro u hu hne
      simp only [lsAt, h1, upd_ne _ _ hne]
      cases hthu : s.threads u with
      | none => rfl
      | some thu =>
        simp only [lsVal]
        rcases ls_ring_log p.ring pc with h | ⟨d, h⟩
        · rw [h]
        · rw [h]; exact ls_log_stable hr hp hthu d
    have hsum := ls_sum (s := s) (s' := (stepFrame s t th (.ring pc)).1) (f := lsAt p.ring.pushLog s)
      (g := lsAt (ringStep p.ring pc).1.pushLog (stepFrame s t th (.ring pc)).1) htlt hoth (Or.inl h3)
    rw [if_pos h3] at hsum
    obtain ⟨e1, e2⟩ := hI.e p hp
    constructor
    · intro hnd
      have := e1 (fun h => hnd (hdone.mpr h))
      omega
    · intro hd
      have := e2 (hdone.mp hd)
      omega

/-! ### a step that creates the pool -/

theorem lsM2_pre {l : List Frame} (h : AllPre l) (hd : ∀ f ∈ l, ∀ i, f ≠ .dPush i) : lsum lsM2 l = 0 := by
  induction l with
  | nil => rfl
  | cons a l ih =>
    rw [allPre_cons] at h
    have : lsM2 a = 0 := by
      have h1 := h.1
      have h2 := hd a (List.mem_cons_self ..)
      cases a <;> first | rfl | (simp [prePool] at h1; done) | (exact absurd rfl (h2 _))
    simp only [lsum_cons, this, ih h.2 (fun f hf => hd f (List.mem_cons_of_mem _ hf))]

theorem lsRA_pre {l : List Frame} (h : AllPre l) : lsum lsRA l = 0 := by
  induction l with
  | nil => rfl
  | cons a l ih =>
    rw [allPre_cons] at h
    have : lsRA a = 0 := by
      have h1 := h.1
      cases a <;> first | rfl | (simp [prePool] at h1; done)
    simp only [lsum_cons, this, ih h.2]

theorem lse_early_zero {cfg : Config} {s : State} {t : Tid} {th : Thread} {c : Nat} {rest : List Frame}
    (hr : Reach cfg s) (hI : LseInv s) (hth : s.threads t = some th) (hst : th.stack = .cRdTp2 c :: rest)
    (hfin : th.finished = false) (htp : s.tp = false) : (∀ u, lsM2At s u = 0) ∧ (∀ u, lsRaAt s u = 0) := by
  by_cases hl : poolAlive s
  · have hE := (reach_inv hr).early hl htp
    cases hp : s.pool with
    | none =>
      constructor
      · intro u
        simp only [lsM2At]
        cases hthu : s.threads u with
        | none => rfl
        | some thu =>
          apply lsM2_pre (hE.pre u thu hthu)
          intro f hf i hfi
          subst hfi
          by_cases hu : u = 0
          · subst hu
            obtain ⟨p, hp2⟩ := (reach_finInv hr).dph thu _ hthu hf
            rw [hp] at hp2; cases hp2
          · have := (reach_join hr).mainOnly u thu hthu hu _ hf
            simp [bottomFr] at this
      · intro u
        simp only [lsRaAt]
        cases hthu : s.threads u with
        | none => rfl
        | some thu => exact lsRA_pre (hE.pre u thu hthu)
    | some p =>
      have hpm := hE.ctxs p hp
      constructor
      · intro u
        have := hI.l p u hp
        rw [hpm] at this
        simp [mkPool] at this
        exact this
      · intro u
        cases Nat.eq_zero_or_pos (lsRaAt s u) with
        | inl h => exact h
        | inr h =>
          have := hI.r p u hp h
          rw [hpm] at this
          simp [mkPool] at this
  · exfalso
    obtain ⟨hall, _, _⟩ := (reach_join hr).dead hl
    have h3 := lse_allfin_nonclient hr hall hth hfin
    rw [hst, allNC_cons] at h3; simp [ncFr] at h3

theorem lse_num_create {s s' : State} {t : Tid} {th : Thread} {fr X : Frame} {rest : List Frame}
    (hth : s.threads t = some th) (hst : th.stack = fr :: rest)
    (hX : s'.threads = upd s.threads t (some (th.cont [X]))) (hX0 : ∀ rb rj log ab, lsFr rb rj log ab X = 0)
    (hXr : lsRingOf X = none) (hfr : lsRingOf fr = none) (hXm : lsM2 X = 0) (hXa : lsRA X = 0)
    (hn : s'.nthreads = s.nthreads)
    (hlog : ∀ p', s'.pool = some p' → p'.ring.pushLog = [] ∧ p'.threadCount = 0)
    (hZ : ∀ u thu, s.threads u = some thu → lsW [] thu = 0)
    (hZ2 : ∀ u, lsM2At s u = 0) (hZ3 : ∀ u, lsRaAt s u = 0) : LseNum s' := by
  have hm : ∀ u, lsM2At s' u = 0 := by
    intro u
    by_cases hu : u = t
    · subst hu
      have := hZ2 u
      simp only [lsM2At, hth, hst, lsum_cons] at this
      simp only [lsM2At, hX, upd_same, Thread.cont, hst, List.drop_one, List.tail_cons, List.cons_append,
        List.nil_append, lsum_cons, hXm]
      omega
    · have := hZ2 u
      simp only [lsM2At, hX, upd_ne _ _ hu] at this ⊢
      exact this
  have ha : ∀ u, lsRaAt s' u = 0 := by
    intro u
    by_cases hu : u = t
    · subst hu
      have := hZ3 u
      simp only [lsRaAt, hth, hst, lsum_cons] at this
      simp only [lsRaAt, hX, upd_same, Thread.cont, hst, List.drop_one, List.tail_cons, List.cons_append,
        List.nil_append, lsum_cons, hXa]
      omega
    · have := hZ3 u
      simp only [lsRaAt, hX, upd_ne _ _ hu] at this ⊢
      exact this
  refine ⟨?_, ?_, ?_⟩
  · intro p' u _; rw [hm u]; exact Nat.zero_le _
  · intro p' u _ h; rw [ha u] at h; omega
  · intro p' hp'
    have hz := ls_num_create hth hst hX hX0 hXr hfr hn (fun p' hp' => (hlog p' hp').1) hZ p' hp'
    obtain ⟨h1, h2⟩ := hlog p' hp'
    rw [hz, h1, h2]
    simp [lsTq, lsCnt]

/-! ### a step of a frame that neither is a `push`/`pop` frame nor creates the pool -/

theorem lse_num_plain {cfg : Config} {s : State} {t : Tid} {th : Thread} {fr : Frame} {rest : List Frame}
    (hrep : cfg.repaired = true) (hr : Reach cfg s) (hI : LseInv s)
    (hth : s.threads t = some th) (hst : th.stack = fr :: rest) (hfin : th.finished = false)
    (hnr : lsRingOf fr = none) (hni : fr ≠ .mInit) (hnc : ∀ c, fr = .cRdTp2 c → s.tp = true) :
    LseNum (stepFrame s t th fr).1 := by
  have hrep' : s.cfg.repaired = true := by rw [reach_cfg hr]; exact hrep
  have htlt := ls_thread_lt hr hth
  have hK := LW.shapeK s t th fr rest hth hst hrep'
  have hN := lsShapeN s t th fr rest hth hst hnr hrep' (Nat.ne_of_gt htlt) hni hnc
  have hcb : lseC fr = true → LsAllB rest := by
    have := hI.cb t th hth; rw [hst] at this; exact this.1
  have htc : fr = .runRetAfter → th.retB = true → 0 < lsTc s := by
    intro hfr _
    subst hfr
    cases hp : s.pool with
    | none =>
      obtain ⟨p, hp2⟩ := pool_frame_has_pool hr hth hfin (by rw [hst]; rfl) rfl
      rw [hp] at hp2; cases hp2
    | some p =>
      have := hI.r p t hp (by simp [lsRaAt, hth, hst, lsRA])
      simp only [lsTc, hp]; omega
  have hE := lseShapeN s t th fr rest hth hst hnr hrep' hni hnc hcb htc
  have hE2 := lseShapeM s t th fr rest hth hst hnr hrep' hni hnc hcb htc
  -- the pool before
  have hpool : ∀ p', (stepFrame s t th fr).1.pool = some p' → ∃ p, s.pool = some p ∧ p'.ring = p.ring := by
    intro p' hp'
    rcases hN.ring with h0 | h0
    · rw [hp'] at h0; cases h0
    · cases hp : s.pool with
      | none => simp [lsRing, hp, hp'] at h0
      | some p => simp [lsRing, hp, hp'] at h0; exact ⟨p, rfl, h0⟩
  -- the other threads
  have hothr : ∀ u, u ≠ t → (stepFrame s t th fr).1.threads u = s.threads u ∨
      (s.threads u = none ∧ ((stepFrame s t th fr).1.threads u = some { stack := [.tStart, .wPop1], isWorker := true } ∨
         ∃ sc, (stepFrame s t th fr).1.threads u = some { stack := [.tStart, .cNext], script := sc })) := by
    intro u hu
    rcases hK.others u hu with h2 | ⟨h2, h3⟩
    · exact Or.inl h2
    · exact Or.inr ⟨by rw [h2]; exact (reach_inv hr).fresh _ (Nat.le_refl _), h3⟩
  have hm2o : ∀ u, u ≠ t → lsM2At (stepFrame s t th fr).1 u = lsM2At s u := by
    intro u hu
    rcases hothr u hu with h | ⟨h0, h | ⟨sc, h⟩⟩
    · simp only [lsM2At, h]
    · simp [lsM2At, h, h0, lsM2]
    · simp [lsM2At, h, h0, lsM2]
  have hrao : ∀ u, u ≠ t → lsRaAt (stepFrame s t th fr).1 u = lsRaAt s u := by
    intro u hu
    rcases hothr u hu with h | ⟨h0, h | ⟨sc, h⟩⟩
    · simp only [lsRaAt, h]
    · simp [lsRaAt, h, h0, lsRA]
    · simp [lsRaAt, h, h0, lsRA]
  -- if every client has finished, the stepping thread runs no client code
  have hnc2 : AllFin s → ncFr fr = true := by
    intro hall
    have := lse_allfin_nonclient hr hall hth hfin
    rw [hst, allNC_cons] at this; exact this.1
  refine ⟨?_, ?_, ?_⟩
  · -- the destructor loop stays below `_threadCount`
    intro p' u hp'
    obtain ⟨p, hp, _⟩ := hpool p' hp'
    have hsome : (stepFrame s t th fr).1.pool.isSome = true := by rw [hp']; rfl
    have hdec := hE2.dec hsome
    simp only [lsTc, lsMinT, hp, hp'] at hdec
    by_cases hu : u = t
    · subst hu
      have hm := hE2.m2 hsome
      simp only [lsTc, hp, hp'] at hm
      cases hn : ncFr fr with
      | true => exact hm.1 hn (hI.l p u hp)
      | false =>
        have h1 := hm.2 hn
        cases Nat.eq_zero_or_pos (lsM2At s u) with
        | inl h0 => omega
        | inr h0 => rw [hnc2 (lse_m2_allfin hr h0)] at hn; cases hn
    · rw [hm2o u hu]
      have h1 := hI.l p u hp
      cases Nat.eq_zero_or_pos (lsM2At s u) with
      | inl h0 => omega
      | inr h0 =>
        have hn := hnc2 (lse_m2_allfin hr h0)
        cases Nat.lt_or_ge p'.threadCount p.threadCount with
        | inl hlt => have := hdec.1 hlt; subst this; simp [ncFr] at hn
        | inr hge => omega
  · -- `_threadCount > minT` while a retire is in flight
    intro p' u hp' h
    obtain ⟨p, hp, _⟩ := hpool p' hp'
    have hsome : (stepFrame s t th fr).1.pool.isSome = true := by rw [hp']; rfl
    have hdec := hE2.dec hsome
    simp only [lsTc, lsMinT, hp, hp'] at hdec
    by_cases hu : u = t
    · subst hu
      have hra := hE2.ra hsome h
      simp only [lsTc, lsMinT, hp, hp'] at hra
      rcases hra with h1 | ⟨h1, h2⟩
      · exact h1
      · have := hI.r p u hp h1; omega
    · rw [hrao u hu] at h
      have h1 := hI.r p u hp h
      cases Nat.lt_or_ge p'.threadCount p.threadCount with
      | inr hge => omega
      | inl hlt =>
        exfalso
        have hfr := hdec.1 hlt
        subst hfr
        cases hthu : s.threads u with
        | none => simp [lsRaAt, hthu] at h
        | some thu =>
          simp only [lsRaAt, hthu] at h
          have hh1 : holdStack th.stack = true := by
            rcases pool_marker_unique hr hth with h2 | h2
            · exact h2
            · rw [hst] at h2; simp [noHold, poolHold] at h2
          have hh2 : holdStack thu.stack = true := by
            rcases pool_marker_unique hr hthu with h2 | h2
            · exact h2
            · rw [lsRA_noHold h] at h2; cases h2
          exact pool_mutex_exclusive hr hp (fun e => hu e.symm) hth hthu hh1 hh2
  · -- the balance
    intro p' hp'
    obtain ⟨p, hp, hring⟩ := hpool p' hp'
    have hsome : (stepFrame s t th fr).1.pool.isSome = true := by rw [hp']; rfl
    rw [hring]
    have hoth : ∀ u, u < s.nthreads → u ≠ t →
        lsAt p.ring.pushLog (stepFrame s t th fr).1 u = lsAt p.ring.pushLog s u := by
      intro u hu hne
      simp only [lsAt]
      rcases hK.others u hne with h2 | ⟨h2, _⟩
      · rw [h2]
      · have : (u : Nat) = s.nthreads := h2
        omega
    have hn : (stepFrame s t th fr).1.nthreads = s.nthreads ∨ (stepFrame s t th fr).1.nthreads = s.nthreads + 1 := by
      rcases hN.nth with h | ⟨h, _⟩
      · exact Or.inl h
      · exact Or.inr h
    have hsum := ls_sum (s := s) (s' := (stepFrame s t th fr).1) (f := lsAt p.ring.pushLog s)
      (g := lsAt p.ring.pushLog (stepFrame s t th fr).1) htlt hoth hn
    have hnw : (if (stepFrame s t th fr).1.nthreads = s.nthreads then 0
        else lsAt p.ring.pushLog (stepFrame s t th fr).1 s.nthreads) = lsSpawnW fr := by
      rcases hN.nth with h | ⟨h, h2⟩
      · rw [if_pos h, hE2.nth0 hsome h]
      · have : ¬ ((stepFrame s t th fr).1.nthreads = s.nthreads) := by omega
        rw [if_neg this]; simp only [lsAt]; rw [h2]
    rw [hnw] at hsum
    obtain ⟨e1, e2⟩ := hI.e p hp
    have hl := hI.l p t hp
    -- a fresh transition into `dJoin`/`dFin` is made by thread 0, which then has no such frame yet
    have hdd := hE.dd p.ring.pushLog hsome
    have hnofresh : lsDone s → 1 ≤ lsDjAt (stepFrame s t th fr).1 t → 1 ≤ lsDjAt s t := by
      intro hds hd'
      rcases hdd hd' with h | ⟨hb, _⟩
      · exact h
      · have ht0 : t = 0 := by
          cases Nat.decEq t 0 with
          | isTrue h0 => exact h0
          | isFalse h0 =>
            have := (reach_join hr).mainOnly t th hth h0 fr (by rw [hst]; exact List.mem_cons_self ..)
            rw [hb] at this; cases this
        obtain ⟨u, thu, hthu, h1⟩ := hds
        obtain ⟨f, hf, h2⟩ := lsDJ_pos h1
        have hu0 : u = 0 := by
          cases Nat.decEq u 0 with
          | isTrue h0 => exact h0
          | isFalse h0 =>
            have := (reach_join hr).mainOnly u thu hthu h0 f hf
            rcases h2 with ⟨i, rfl⟩ | rfl <;> simp [bottomFr] at this
        subst ht0; subst hu0
        rw [hth] at hthu; injection hthu with hthu; subst hthu
        simpa [lsDjAt, hth] using h1
    constructor
    · intro hnd'
      -- not done afterwards: not done before
      have hnd : ¬ lsDone s := by
        rintro ⟨u, thu, hthu, h1⟩
        apply hnd'
        by_cases hu : u = t
        · subst hu
          have := hE.dk hsome (by simpa [lsDjAt, hthu] using h1)
          simp only [lsDjAt] at this
          cases hth' : (stepFrame s u th fr).1.threads u with
          | none => rw [hth'] at this; simp at this
          | some th' => rw [hth'] at this; exact ⟨u, th', hth', this⟩
        · exact ⟨u, thu, LW.step_keep hr hth hst hrep' u thu hu hthu, h1⟩
      have hd0 : ¬ 1 ≤ lsDjAt (stepFrame s t th fr).1 t := by
        intro h
        apply hnd'
        simp only [lsDjAt] at h
        cases hth' : (stepFrame s t th fr).1.threads t with
        | none => rw [hth'] at h; simp at h
        | some th' => rw [hth'] at h; exact ⟨t, th', hth', h⟩
      have h1 := hE.e1 p.ring.pushLog hsome (fun h => absurd h hd0)
      simp only [lsTc, hp, hp'] at h1
      have := e1 hnd
      omega
    · intro hd'
      by_cases hds : lsDone s
      · have hncf := hnc2 (lse_done_allfin hr hds)
        have h2 := hE.e2 p.ring.pushLog hsome hncf (hnofresh hds)
        have := e2 hds
        omega
      · -- the destructor leaves its push loop
        rcases ls_done_cases hK hd' with h | h
        · exact absurd h hds
        · rcases hdd h with h3 | ⟨_, h4, h5, h6⟩
          · exact absurd ⟨t, th, hth, by simpa [lsDjAt, hth] using h3⟩ hds
          · simp only [lsTc, hp, hp'] at h5 h6
            have := h6 hl
            have := e1 hds
            omega

/-! ### the invariant in reachable states -/

theorem lseInv_step {cfg : Config} {s s' : State} {t : Tid} {o : List String} (hrep : cfg.repaired = true)
    (hr : Reach cfg s) (hI : LseInv s) (h : step s t = some (s', o)) : LseInv s' := by
  have hS := lse_stack_step hrep hr hI h
  suffices hnum : LseNum s' from ⟨hS.1, hS.2, hnum.l, hnum.r, hnum.e⟩
  obtain ⟨th, fr, rest, hth, hst, hfin, rfl⟩ := step_inv h
  cases hnr : lsRingOf fr with
  | some pc =>
    have hfr : fr = .ring pc := by cases fr <;> simp [lsRingOf] at hnr; rw [hnr]
    subst hfr
    cases hp : s.pool with
    | none =>
      have hpn : (stepFrame s t th (.ring pc)).1.pool = none := by
        rw [LW.ring_step_noPool s t th pc hp]; simp [withFault, hp]
      exact ⟨fun p' u hp' => (by rw [hpn] at hp'; cases hp'), fun p' u hp' => (by rw [hpn] at hp'; cases hp'),
        fun p' hp' => (by rw [hpn] at hp'; cases hp')⟩
    | some p => exact lse_num_ring hrep hr hI hth hst hp h
  | none =>
    by_cases hni : fr = .mInit
    · subst hni
      have hinit := (reach_inv hr).initOnly t th hth (by rw [hst]; rfl)
      have hthr : ∀ u thu, s.threads u = some thu → thu = { stack := [Frame.mInit] } := by
        intro u thu hthu
        rw [hinit] at hthu
        simp only [State.init] at hthu
        split at hthu
        · injection hthu with hthu; exact hthu.symm
        · cases hthu
      have hZ : ∀ u thu, s.threads u = some thu → lsW [] thu = 0 := by
        intro u thu hthu; rw [hthr u thu hthu]; simp [lsW, lsFr, lsRingOf]
      have hZ2 : ∀ u, lsM2At s u = 0 := by
        intro u; simp only [lsM2At]
        cases hthu : s.threads u with
        | none => rfl
        | some thu => rw [hthr u thu hthu]; simp [lsM2]
      have hZ3 : ∀ u, lsRaAt s u = 0 := by
        intro u; simp only [lsRaAt]
        cases hthu : s.threads u with
        | none => rfl
        | some thu => rw [hthr u thu hthu]; simp [lsRA]
      have hX : (stepFrame s t th .mInit).1.threads = upd s.threads t (some (th.cont [.mSpawn 0])) := by
        simp only [stepFrame]; split <;> rfl
      have hn : (stepFrame s t th .mInit).1.nthreads = s.nthreads := by
        simp only [stepFrame]; split <;> rfl
      have hlog : ∀ p', (stepFrame s t th .mInit).1.pool = some p' → p'.ring.pushLog = [] ∧ p'.threadCount = 0 := by
        intro p' hp'
        simp only [stepFrame] at hp'
        split at hp'
        · rw [hinit] at hp'; simp [setThread, State.init] at hp'
        · simp [setThread] at hp'; subst hp'; exact ⟨rfl, rfl⟩
      exact lse_num_create hth hst hX (by intro rb rj log ab; rfl) rfl rfl rfl rfl hn hlog hZ hZ2 hZ3
    · by_cases hc : ∃ c, fr = .cRdTp2 c ∧ s.tp = false
      · obtain ⟨c, rfl, htp⟩ := hc
        have hZ := ls_early_zero hr (ls_reach hrep hr) hth hst hfin htp
        obtain ⟨hZ2, hZ3⟩ := lse_early_zero hr hI hth hst hfin htp
        have hX : (stepFrame s t th (.cRdTp2 c)).1.threads = upd s.threads t (some (th.cont [.cSwapTp c])) := by
          simp [stepFrame, htp, setThread]
        have hn : (stepFrame s t th (.cRdTp2 c)).1.nthreads = s.nthreads := by
          simp [stepFrame, htp, setThread]
        have hlog : ∀ p', (stepFrame s t th (.cRdTp2 c)).1.pool = some p' →
            p'.ring.pushLog = [] ∧ p'.threadCount = 0 := by
          intro p' hp'
          simp [stepFrame, htp, setThread] at hp'
          subst hp'; exact ⟨rfl, rfl⟩
        exact lse_num_create hth hst hX (by intro rb rj log ab; rfl) rfl rfl rfl rfl hn hlog hZ hZ2 hZ3
      · refine lse_num_plain hrep hr hI hth hst hfin hnr hni ?_
        intro c hfr
        cases htp : s.tp with
        | true => rfl
        | false => exact absurd ⟨c, hfr, htp⟩ hc

theorem lse_reach {cfg : Config} (hrep : cfg.repaired = true) {s : State} (h : Reach cfg s) : LseInv s := by
  induction h with
  | init => exact lseInv_init cfg
  | step t hr hs ih => exact lseInv_step hrep hr ih hs

end Nstd.Future.LS
