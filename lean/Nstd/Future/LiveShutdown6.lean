/-
  Shutdown side of deadlock freedom, part 6: the EQUALITY form of the counting invariant in every reachable state of
  the repaired model (`lse_reach`).
-/
import Nstd.Future.LiveShutdown5
set_option linter.unusedSimpArgs false
set_option linter.unusedVariables false
namespace Nstd.Future.LS

/-! ### one ring micro-step: the exact count -/

set_option maxHeartbeats 4000000 in
theorem lse_ring_pure (r : Ring Job) (pc : RingPc Job) (c : Frame) (rb : Bool) (rj : Job)
    (hcall : LW.callerOk pc (some c) = true) (hpay : lsePayC pc (some c) = true)
    (hht : r.head ≤ r.pushLog.length)
    (hcas : ∀ h, pc = .popCas h → r.head = h → h < r.pushLog.length)
    (hrel : ∀ x d, pc = .popRel x d → ∃ j, d = some j ∧ r.pushLog[x]? = some j) :
    lsFr (lsAfter rb rj (ringStep r pc).2).1 (lsAfter rb rj (ringStep r pc).2).2.1 (ringStep r pc).1.pushLog
        (lsAfter rb rj (ringStep r pc).2).2.2 c + lsTq r.head r.pushLog
      = lsFr rb rj r.pushLog (some pc) c + lsTq (ringStep r pc).1.head (ringStep r pc).1.pushLog := by
  cases pc
  case pushCas d tk =>
    simp only [ringStep]
    split
    · next heq =>
      simp only [lsAfter, lsTq_push _ _ _ hht]
      cases c <;> simp [LW.callerOk, LW.isPopPc, LW.pushCaller] at hcall <;>
        simp [lsePayC, LW.isPopPc, lsRestr, lsNonePc] at hpay <;>
        simp [lsFr, lsCapt, lsCaptPc, hpay]
      all_goals omega
    · simp only [lsAfter]
      cases c <;> simp [LW.callerOk, LW.isPopPc, LW.pushCaller] at hcall <;> simp [lsFr, lsCapt, lsCaptPc]
  case popCas h =>
    simp only [ringStep]
    split
    · next heq =>
      have hlt := hcas h rfl heq
      simp only [lsAfter]
      rw [heq, lsTq_pop h _ hlt]
      cases c <;> simp [LW.callerOk, LW.isPopPc, LW.popCaller] at hcall <;>
        simp [lsFr, lsServ, lsServPc]
      all_goals (split <;> omega)
    · simp only [lsAfter]
      cases c <;> simp [LW.callerOk, LW.isPopPc, LW.popCaller] at hcall <;> simp [lsFr, lsServ, lsServPc]
  case popRel x d =>
    obtain ⟨j, rfl, hj⟩ := hrel x d rfl
    simp only [ringStep, lsAfter, Ring.setSlot]
    cases c <;> simp [LW.callerOk, LW.isPopPc, LW.popCaller] at hcall <;>
      simp [lsFr, lsServ, lsServPc, hj]
    all_goals (cases j <;> simp)
  case pushRead d =>
    simp only [ringStep, lsAfter]
    cases c <;> simp [LW.callerOk, LW.isPopPc, LW.pushCaller] at hcall <;> simp [lsFr, lsCapt, lsCaptPc]
  case pushChk d tk =>
    simp only [ringStep]
    split <;> simp only [lsAfter] <;>
      cases c <;> simp [LW.callerOk, LW.isPopPc, LW.pushCaller] at hcall <;> simp [lsFr, lsCapt, lsCaptPc]
  case pushData d tk =>
    simp only [ringStep, lsAfter, Ring.setSlot]
    cases c <;> simp [LW.callerOk, LW.isPopPc, LW.pushCaller] at hcall <;> simp [lsFr, lsCapt, lsCaptPc]
  case pushPub d tk =>
    simp only [ringStep, lsAfter, Ring.setSlot]
    cases c <;> simp [LW.callerOk, LW.isPopPc, LW.pushCaller] at hcall <;> simp [lsFr, lsCapt, lsCaptPc]
  case popRead =>
    simp only [ringStep, lsAfter]
    cases c <;> simp [LW.callerOk, LW.isPopPc, LW.popCaller] at hcall <;> simp [lsFr, lsServ, lsServPc]
  case popChk h =>
    simp only [ringStep]
    split <;> simp only [lsAfter] <;>
      cases c <;> simp [LW.callerOk, LW.isPopPc, LW.popCaller] at hcall <;> simp [lsFr, lsServ, lsServPc]
  case popData h =>
    simp only [ringStep, lsAfter, Ring.setSlot]
    cases c <;> simp [LW.callerOk, LW.isPopPc, LW.popCaller] at hcall <;> simp [lsFr, lsServ, lsServPc]

/-! ### the invariant -/

structure LseInv (s : State) : Prop where
  cb : ∀ t th, s.threads t = some th → LseCB th.stack
  pay : ∀ t th, s.threads t = some th → LsePayOk th.stack
  l : ∀ p u, s.pool = some p → lsM2At s u ≤ p.threadCount
  r : ∀ p u, s.pool = some p → 1 ≤ lsRaAt s u → p.minT < p.threadCount
  e : ∀ p, s.pool = some p →
    (¬ lsDone s → tsum s.nthreads (lsAt p.ring.pushLog s) = lsTq p.ring.head p.ring.pushLog + p.threadCount) ∧
    (lsDone s → tsum s.nthreads (lsAt p.ring.pushLog s) = lsTq p.ring.head p.ring.pushLog)

theorem lseInv_init (cfg : Config) : LseInv (State.init cfg) := by
  have hthr : ∀ t th, (State.init cfg).threads t = some th → th = { stack := [Frame.mInit] } := by
    intro t th h
    simp only [State.init] at h
    split at h
    · injection h with h; exact h.symm
    · cases h
  refine ⟨?_, ?_, ?_, ?_, ?_⟩
  · intro t th h; rw [hthr t th h]; simp [lseCB_cons, lseCB_nil, lsAllB_nil]
  · intro t th h; rw [hthr t th h]; simp [lsePayOk_cons, lsePayOk_nil, lsePadj]
  · intro p u h; simp [State.init] at h
  · intro p u h; simp [State.init] at h
  · intro p h; simp [State.init] at h

/-! ### the stack side conditions across one step -/

theorem lse_stack_step {cfg : Config} {s s' : State} {t : Tid} {o : List String} (hrep : cfg.repaired = true)
    (hr : Reach cfg s) (hI : LseInv s) (h : step s t = some (s', o)) :
    (∀ u thu, s'.threads u = some thu → LseCB thu.stack) ∧ (∀ u thu, s'.threads u = some thu → LsePayOk thu.stack) := by
  obtain ⟨th, fr, rest, hth, hst, hfin, rfl⟩ := step_inv h
  have hrep' : s.cfg.repaired = true := by rw [reach_cfg hr]; exact hrep
  have hK := LW.shapeK s t th fr rest hth hst hrep'
  have hself : ∃ th', (stepFrame s t th fr).1.threads t = some th' ∧
      (LseCB (fr :: rest) → LseCB th'.stack) ∧ (LsePayOk (fr :: rest) → LsePayOk th'.stack) := by
    cases hnr : lsRingOf fr with
    | none => exact (lseShapeD s t th fr rest hth hst hnr hrep').self
    | some pc =>
      have hfr : fr = .ring pc := by cases fr <;> simp [lsRingOf] at hnr; rw [hnr]
      subst hfr
      cases hp : s.pool with
      | none =>
        rw [LW.ring_step_noPool s t th pc hp]
        exact ⟨th, hth, fun h => by rw [hst]; exact h, fun h => by rw [hst]; exact h⟩
      | some p =>
        obtain ⟨th', h1, h2, h3, h4, h5, h6⟩ := ls_ring_desc s t th pc rest p hp hst
        refine ⟨th', by rw [h1, upd_same], ?_, ?_⟩
        · intro hb
          rw [h6]
          cases hres : (ringStep p.ring pc).2 with
          | cont pc' => exact ⟨fun hc => by simp [lseC, lsC] at hc, hb.2⟩
          | pushed ok => exact hb.2
          | popped x => exact hb.2
        · intro hb
          rw [h6]
          cases hres : (ringStep p.ring pc).2 with
          | cont pc' =>
            have hn : lsNonePc pc' = lsNonePc pc :=
              ls_cont_none (r := p.ring) (r' := (ringStep p.ring pc).1) (by rw [← hres])
            have hpp : LW.isPopPc pc' = LW.isPopPc pc :=
              LW.ringStep_cont_pop (r := p.ring) (r' := (ringStep p.ring pc).1) (by rw [← hres])
            refine ⟨?_, hb.2⟩
            have h0 := hb.1
            simp only [lsePadj, lsePayC, lsAfterStk] at h0 ⊢
            rw [hn, hpp]; exact h0
          | pushed ok => exact hb.2
          | popped x => exact hb.2
  obtain ⟨th', hth', hcb', hpay'⟩ := hself
  have hoth : ∀ u thu, u ≠ t → (stepFrame s t th fr).1.threads u = some thu →
      s.threads u = some thu ∨ thu = { stack := [.tStart, .wPop1], isWorker := true } ∨
        ∃ sc, thu = { stack := [.tStart, .cNext], script := sc } := by
    intro u thu hu hthu
    rcases hK.others u hu with h2 | ⟨_, h2 | ⟨sc, h2⟩⟩
    · left; rw [← h2]; exact hthu
    · right; left; rw [hthu] at h2; injection h2
    · right; right; rw [hthu] at h2; injection h2 with h2; exact ⟨sc, h2⟩
  constructor
  · intro u thu hthu
    by_cases hu : u = t
    · subst hu; rw [hth'] at hthu; injection hthu with hthu; subst hthu
      exact hcb' (by rw [← hst]; exact hI.cb u th hth)
    · rcases hoth u thu hu hthu with h2 | rfl | ⟨sc, rfl⟩
      · exact hI.cb u thu h2
      · simp [lseCB_cons, lseCB_nil, lsAllB_nil, lseC, lsC]
      · simp [lseCB_cons, lseCB_nil, lsAllB_nil, lseC, lsC]
  · intro u thu hthu
    by_cases hu : u = t
    · subst hu; rw [hth'] at hthu; injection hthu with hthu; subst hthu
      exact hpay' (by rw [← hst]; exact hI.pay u th hth)
    · rcases hoth u thu hu hthu with h2 | rfl | ⟨sc, rfl⟩
      · exact hI.pay u thu h2
      · simp [lsePayOk_cons, lsePayOk_nil, lsePadj]
      · simp [lsePayOk_cons, lsePayOk_nil, lsePadj]

end Nstd.Future.LS
