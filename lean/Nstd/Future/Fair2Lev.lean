/-
  WEAK fairness after fix 0005 (`FastSignal::reset` always clears the Signal): the LEVEL INTERFACE.

  `progresses_wf_of_levels`: let `L1 L2 L3 : State → Nat` be such that, along micro-steps from reachable states,
    * `L1` never increases and strictly decreases on every state-changing WORK EVENT (`F2.workFr`, Fair2Pot.lean),
    * on a step that is no work event, `(L2, L3)` does not increase lexicographically, and strictly decreases when the
      top frame is one of the loop heads `FR.isBack` (for non-work steps these are exactly `sWaitRelock` and
      `wChk2`/`runChk2`/`dChk2` with `retB = false`; a failing `cSpin` does not change the state).
  Then `Progresses cfg` is well-founded — the measure is the lexicographic quadruple (L1, L2, L3, Σ_t frameDist) —
  hence every WEAKLY fair run terminates in a complete success state (`fair_runs_terminate_of_levels`,
  `join_eventually_of_levels`).  Compared with `progresses_wf_of_budget` the wait-loop accounting is separated from
  the counting of work events: `L2 := F2.lev2`, `L3 := F2.lev3` are concrete (Fair2Lev2.lean, Fair2Lev3.lean).
-/
import Nstd.Future.Fair2Pot
set_option linter.unusedVariables false
set_option linter.unusedSimpArgs false
namespace Nstd.Future.F2
open FR

variable {cfg : Config}

/-- a step that is no work event creates no thread and does not move the ring counters -/
theorem nonwork_quiet (s : State) (t : Tid) (th : Thread) (fr : Frame) (hnw : ¬ workFr s th fr) :
    FR.spawns fr = false ∧ FR.rtl (stepFrame s t th fr).1 = FR.rtl s ∧ FR.rhd (stepFrame s t th fr).1 = FR.rhd s := by
  cases fr
  case ring pc =>
    refine ⟨rfl, ?_⟩
    apply flRingStableR
    intro p hp
    cases pc
    case pushCas d x =>
      show p.ring.tail ≠ x
      intro he
      apply hnw
      intro p' hp'
      rw [hp] at hp'; cases hp'; exact he
    case popCas x =>
      show p.ring.head ≠ x
      intro he
      apply hnw
      intro p' hp'
      rw [hp] at hp'; cases hp'; exact he
    all_goals trivial
  all_goals first
    | (exfalso; exact hnw trivial)
    | exact ⟨rfl, flRingStable s t th _ rfl⟩

/-- THE LEVEL INTERFACE -/
theorem progresses_wf_of_levels (hrep : cfg.repaired = true) (L1 L2 L3 : State → Nat)
    (h1le : ∀ (s s' : State) (t : Tid) (o : List String), Reach cfg s → step s t = some (s', o) → L1 s' ≤ L1 s)
    (h1lt : ∀ (s s' : State) (t : Tid) (o : List String) (th : Thread) (fr : Frame) (rest : List Frame),
      Reach cfg s → step s t = some (s', o) → s' ≠ s → s.threads t = some th → th.stack = fr :: rest →
      workFr s th fr → L1 s' < L1 s)
    (h23 : ∀ (s s' : State) (t : Tid) (o : List String) (th : Thread) (fr : Frame) (rest : List Frame),
      Reach cfg s → step s t = some (s', o) → s.threads t = some th → th.stack = fr :: rest →
      ¬ workFr s th fr → L2 s' < L2 s ∨ (L2 s' = L2 s ∧ L3 s' ≤ L3 s))
    (h3lt : ∀ (s s' : State) (t : Tid) (o : List String) (th : Thread) (fr : Frame) (rest : List Frame),
      Reach cfg s → step s t = some (s', o) → s' ≠ s → s.threads t = some th → th.stack = fr :: rest →
      ¬ workFr s th fr → FR.isBack fr = true → L2 s' < L2 s ∨ (L2 s' = L2 s ∧ L3 s' < L3 s)) :
    WellFounded (Progresses cfg) := by
  have hwf : WellFounded (Prod.Lex Nat.lt (Prod.Lex Nat.lt (Prod.Lex Nat.lt Nat.lt))) :=
    (Prod.lex Nat.lt_wfRel (Prod.lex Nat.lt_wfRel (Prod.lex Nat.lt_wfRel Nat.lt_wfRel))).wf
  refine Subrelation.wf ?_ (InvImage.wf (fun s => (L1 s, (L2 s, (L3 s, totalDist s)))) hwf)
  intro s' s ⟨hr, hne, t, o, hs⟩
  simp only [InvImage]
  obtain ⟨th, fr, rest, hth, hst, _, _, he⟩ := lkStep_inv hs
  by_cases hw : workFr s th fr
  · exact Prod.Lex.left _ _ (h1lt s s' t o th fr rest hr hs hne hth hst hw)
  · rcases Nat.lt_or_eq_of_le (h1le s s' t o hr hs) with h1 | h1
    · exact Prod.Lex.left _ _ h1
    · rw [h1]
      apply Prod.Lex.right
      -- levels 2, 3 and the frame distance
      have hlow : L2 s' < L2 s ∨ (L2 s' = L2 s ∧ (L3 s' < L3 s ∨ (L3 s' = L3 s ∧ totalDist s' < totalDist s))) := by
        by_cases hb : FR.isBack fr = true
        · rcases h3lt s s' t o th fr rest hr hs hne hth hst hw hb with h | ⟨h2, h3⟩
          · exact Or.inl h
          · exact Or.inr ⟨h2, Or.inl h3⟩
        · have hb' : FR.isBack fr = false := by
            cases hx : FR.isBack fr
            · rfl
            · exact absurd hx hb
          obtain ⟨hsp, hT, hH⟩ := nonwork_quiet s t th fr hw
          rw [← he] at hT hH
          have hd := quiet_step_decreases_total hrep hr hs hth hst hb' hsp hT hH
          rcases h23 s s' t o th fr rest hr hs hth hst hw with h | ⟨h2, h3⟩
          · exact Or.inl h
          · rcases Nat.lt_or_eq_of_le h3 with h3 | h3
            · exact Or.inr ⟨h2, Or.inl h3⟩
            · exact Or.inr ⟨h2, Or.inr ⟨h3, hd⟩⟩
      rcases hlow with h | ⟨h2, h | ⟨h3, h4⟩⟩
      · exact Prod.Lex.left _ _ h
      · rw [h2]; exact Prod.Lex.right _ (Prod.Lex.left _ _ h)
      · rw [h2, h3]; exact Prod.Lex.right _ (Prod.Lex.right _ h4)

end Nstd.Future.F2

namespace Nstd.Future
open F2

variable {cfg : Config} {σ : Nat → Tid} {run : Nat → State}

theorem fair_runs_terminate_of_levels (hrep : cfg.repaired = true) (L1 L2 L3 : State → Nat)
    (h1le : ∀ (s s' : State) (t : Tid) (o : List String), Reach cfg s → step s t = some (s', o) → L1 s' ≤ L1 s)
    (h1lt : ∀ (s s' : State) (t : Tid) (o : List String) (th : Thread) (fr : Frame) (rest : List Frame),
      Reach cfg s → step s t = some (s', o) → s' ≠ s → s.threads t = some th → th.stack = fr :: rest →
      workFr s th fr → L1 s' < L1 s)
    (h23 : ∀ (s s' : State) (t : Tid) (o : List String) (th : Thread) (fr : Frame) (rest : List Frame),
      Reach cfg s → step s t = some (s', o) → s.threads t = some th → th.stack = fr :: rest →
      ¬ workFr s th fr → L2 s' < L2 s ∨ (L2 s' = L2 s ∧ L3 s' ≤ L3 s))
    (h3lt : ∀ (s s' : State) (t : Tid) (o : List String) (th : Thread) (fr : Frame) (rest : List Frame),
      Reach cfg s → step s t = some (s', o) → s' ≠ s → s.threads t = some th → th.stack = fr :: rest →
      ¬ workFr s th fr → FR.isBack fr = true → L2 s' < L2 s ∨ (L2 s' = L2 s ∧ L3 s' < L3 s))
    (hf : FairRun cfg σ run) : ∃ n, ∀ t, enabled (run n) t = false :=
  fair_runs_terminate_of_wf (progresses_wf_of_levels hrep L1 L2 L3 h1le h1lt h23 h3lt) hf

theorem join_eventually_of_levels (hrep : cfg.repaired = true) (hwf : cfg.WellFormed) (L1 L2 L3 : State → Nat)
    (h1le : ∀ (s s' : State) (t : Tid) (o : List String), Reach cfg s → step s t = some (s', o) → L1 s' ≤ L1 s)
    (h1lt : ∀ (s s' : State) (t : Tid) (o : List String) (th : Thread) (fr : Frame) (rest : List Frame),
      Reach cfg s → step s t = some (s', o) → s' ≠ s → s.threads t = some th → th.stack = fr :: rest →
      workFr s th fr → L1 s' < L1 s)
    (h23 : ∀ (s s' : State) (t : Tid) (o : List String) (th : Thread) (fr : Frame) (rest : List Frame),
      Reach cfg s → step s t = some (s', o) → s.threads t = some th → th.stack = fr :: rest →
      ¬ workFr s th fr → L2 s' < L2 s ∨ (L2 s' = L2 s ∧ L3 s' ≤ L3 s))
    (h3lt : ∀ (s s' : State) (t : Tid) (o : List String) (th : Thread) (fr : Frame) (rest : List Frame),
      Reach cfg s → step s t = some (s', o) → s' ≠ s → s.threads t = some th → th.stack = fr :: rest →
      ¬ workFr s th fr → FR.isBack fr = true → L2 s' < L2 s ∨ (L2 s' = L2 s ∧ L3 s' < L3 s))
    (hf : FairRun cfg σ run) :
    ∃ n, (∀ t th, (run n).threads t = some th → th.finished = true) ∧
      (∀ c, c < (run n).nextCall →
        (run n).completed c = true ∧ (run n).execCount c = 1 ∧ (run n).freeCount c = 1) :=
  join_eventually_of_wf (progresses_wf_of_levels hrep L1 L2 L3 h1le h1lt h23 h3lt) hrep hwf hf

end Nstd.Future
