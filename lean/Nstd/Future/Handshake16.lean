/-
  Completion handshake of a Future, part 16: the second layer of the invariant (`_state`, `result`,
  `abortReq` of a completed call) and its preservation by the steps that do not touch the `Fut` records.
-/
import Nstd.Future.Handshake15
set_option linter.unusedSimpArgs false
set_option linter.unusedVariables false
namespace Nstd.Future

def ResOk (s : State) (r : CallRec) : Prop := r.fut < 8 → (s.futs r.fut).result = some (r.a * 100 + r.b)
def StOk (s : State) (f : Nat) : Prop :=
  ((s.futs f).state = 2 ∨ (s.futs f).state = 3) ∧ ((s.futs f).state = 3 → (s.futs f).abortReq = true)

structure HsInv2 (s : State) : Prop where
  st : ∀ f c, cur s f = some c → s.completed c = true → StOk s f
  res : ∀ f c r, cur s f = some c → s.completed c = true → s.everCalls c = some r → ResOk s r
  topRd : ∀ u c r, TopIs s u (.pSetRd c) → s.everCalls c = some r → ResOk s r
  topX : ∀ u c ab r, TopIs s u (.pSetX c ab) → s.everCalls c = some r →
      ResOk s r ∧ (ab = true → (s.futs r.fut).abortReq = true)

theorem exec_qright {s : State} (h0 : Inv0 s) (hX : ExecFacts s) (hH : HsInv s) {u : Tid} {x : Frame} {c : Nat}
    {r : CallRec} (htop : TopIs s u x) (hp : hsPreX c x = true) (hev : s.everCalls c = some r) :
    QRight s c r.fut ∧ s.completed c = false ∧ executes s u c := by
  obtain ⟨thu, h1, h2⟩ := htop
  have hx := mem_of_head h2
  have hex : executes s u c := ⟨thu, h1, x, hx, by
    cases x <;> simp [hsPreX] at hp <;> simp [inProc, hp]⟩
  have hnd := hX.notDone u thu x c h1 hx hp
  refine ⟨?_, hnd, hex⟩
  rcases hH.q c r hev hnd with ⟨v, thv, y, h3, h4, h5⟩ | h
  · rw [(hX.started u c hex).2 v thv y h3 h4] at h5; cases h5
  · exact h

theorem hs2_same {s s' : State} {t : Tid} {th' : Thread} (h0 : Inv0 s) (hX : ExecFacts s) (hI : HsInv2 s)
    (hO : Others s s' t) (hth' : s'.threads t = some th')
    (hfut : s'.futs = s.futs) (hcompl : s'.completed = s.completed)
    (hev : ∀ c r, s'.everCalls c = some r → s.everCalls c = some r ∨ c = s.nextCall)
    (htop : ∀ x, th'.stack.head? = some x → notP x = true) : HsInv2 s' := by
  have hevx : ∀ u x c r, TopIs s u x → hsPreX c x = true → s'.everCalls c = some r → s.everCalls c = some r := by
    intro u x c r ⟨thu, h1, h2⟩ hp hc
    rcases hev c r hc with h | h
    · exact h
    · have hex : executes s u c := ⟨thu, h1, x, mem_of_head h2, by
        cases x <;> simp [hsPreX] at hp <;> simp [inProc, hp]⟩
      have := (hX.started u c hex).1; omega
  have hother : ∀ u x, notP x = false → TopIs s' u x → u ≠ t ∧ TopIs s u x := by
    intro u x hx hti
    by_cases hu : u = t
    · subst hu
      obtain ⟨thu, h1, h2⟩ := hti
      rw [hth'] at h1; injection h1 with h1; subst h1
      rw [htop x h2] at hx; cases hx
    · refine ⟨hu, ?_⟩
      rcases topIs_other hO hu hti with h | h
      · exact h
      · subst h; cases hx
  constructor
  · intro f c hc hcc
    simp only [cur, StOk, hfut, hcompl] at hc hcc ⊢
    exact hI.st f c hc hcc
  · intro f c r hc hcc hr
    simp only [cur, ResOk, hfut, hcompl] at hc hcc ⊢
    rcases hev c r hr with h | h
    · exact hI.res f c r hc hcc h
    · have := h0.complLt c hcc; omega
  · intro u c r hti hr
    obtain ⟨_, h1⟩ := hother u _ rfl hti
    have := hI.topRd u c r h1 (hevx u _ c r h1 (by simp [hsPreX]) hr)
    simp only [ResOk, hfut] at this ⊢; exact this
  · intro u c ab r hti hr
    obtain ⟨_, h1⟩ := hother u _ rfl hti
    have := hI.topX u c ab r h1 (hevx u _ c r h1 (by simp [hsPreX]) hr)
    simp only [ResOk, hfut] at this ⊢; exact this

theorem hs2_quiet {cfg : Config} {s : State} {t : Tid} {th : Thread} {fr : Frame} {rest : List Frame}
    (hS : SimInv cfg s) (h0 : Inv0 s) (hX : ExecFacts s) (hI : HsInv2 s)
    (hth : s.threads t = some th) (hst : th.stack = fr :: rest) (hq : quiet2 fr = true) :
    HsInv2 (stepFrame s t th fr).1 := by
  have hO := others_of_step hS hth hst
  have hch := h0.chain t th hth
  rw [hst, chainOk_cons] at hch
  have hQ := hsShapeQ2 s t th fr rest hth hst hq hch.1
  obtain ⟨th', hth', htop⟩ := hQ.top
  exact hs2_same h0 hX hI hO hth' hQ.futs hQ.compl (fun c r h => by rw [hQ.ev] at h; exact Or.inl h) htop

end Nstd.Future
