/-
  THE RESULT: fair termination of the repaired Future/ThreadPool model (after fix 0005) under WEAK fairness, outright.

    fair_runs_terminate : cfg.repaired = true → FairRun cfg σ run → ∃ n, ∀ t, enabled (run n) t = false
    join_eventually     : cfg.repaired = true → cfg.WellFormed → FairRun cfg σ run →
                            ∃ n, all threads finished ∧ every started call completed, executed once, freed once
    progresses_wf       : cfg.repaired = true → WellFounded (Progresses cfg)

  Measure: lexicographic (lev1, lev2, lev3, Σ frameDist):
    lev1 (Fair2L1*.lean, agent `level1`)  amortised count of the work events `F2.workFr`, with the side invariants
         `L1.Side` (Fair2L1SideA–D.lean: `popWin_reach`, `caller_reach`, `ctxsLe_reach`/`dtorIdx_reach`, `cjIdx_reach`);
    lev2, lev3 (Fair2Pot/Fair2Lev2/Fair2Lev3.lean)  the wait-loop accounting; assembly in Fair2Final.lean.
-/
import Nstd.Future.Fair2Final
import Nstd.Future.Fair2Red
import Nstd.Future.Fair2L1
import Nstd.Future.Fair2L1SideA
import Nstd.Future.Fair2L1SideB
import Nstd.Future.Fair2L1SideC
import Nstd.Future.Fair2L1SideD
set_option linter.unusedVariables false
namespace Nstd.Future

variable {cfg : Config} {σ : Nat → Tid} {run : Nat → State}

/-- the side invariants of level 1 hold in every reachable state of the repaired model -/
theorem L1.side_reach {s : State} (hrep : cfg.repaired = true) (hr : Reach cfg s) : L1.Side s where
  ctxsLe := L1.ctxsLe_reach hrep hr
  caller := L1.caller_reach hr
  dtorIdx := L1.dtorIdx_reach hrep hr
  cjIdx := L1.cjIdx_reach hrep hr
  popWin := L1.popWin_reach hr

/-- the relation "state-changing micro-step from a reachable state" of the repaired model is well-founded -/
theorem progresses_wf (hrep : cfg.repaired = true) : WellFounded (Progresses cfg) :=
  progresses_wf_of_lev1 hrep lev1 (lev1_le' hrep (fun s hr => L1.side_reach hrep hr))
    (lev1_lt' hrep (fun s hr => L1.side_reach hrep hr))

/-- EVERY WEAKLY FAIR RUN OF THE REPAIRED MODEL TERMINATES: it reaches a state in which no thread is enabled -/
theorem fair_runs_terminate (hrep : cfg.repaired = true) (hf : FairRun cfg σ run) :
    ∃ n, ∀ t, enabled (run n) t = false :=
  fair_runs_terminate_of_wf (progresses_wf hrep) hf

/-- ... and that state is a complete success state: all threads have finished, every call that was started has
    completed, ran exactly once and its record was freed exactly once -/
theorem join_eventually (hrep : cfg.repaired = true) (hwf : cfg.WellFormed) (hf : FairRun cfg σ run) :
    ∃ n, (∀ t th, (run n).threads t = some th → th.finished = true) ∧
      (∀ c, c < (run n).nextCall →
        (run n).completed c = true ∧ (run n).execCount c = 1 ∧ (run n).freeCount c = 1) :=
  join_eventually_of_wf (progresses_wf hrep) hrep hwf hf

/-- the same for strongly fair runs (a strongly fair run is weakly fair) -/
theorem join_eventually_strong (hrep : cfg.repaired = true) (hwf : cfg.WellFormed) (hf : StrongFairRun cfg σ run) :
    ∃ n, (∀ t th, (run n).threads t = some th → th.finished = true) ∧
      (∀ c, c < (run n).nextCall →
        (run n).completed c = true ∧ (run n).execCount c = 1 ∧ (run n).freeCount c = 1) :=
  join_eventually hrep hwf hf.toFairRun

end Nstd.Future
