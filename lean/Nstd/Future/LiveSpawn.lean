/-
  SPAWN side of deadlock freedom of the repaired thread pool (C10 liveness, deadlock-freedom form), proved inside the
  FULL micro-step model (`Model.lean`, `cfg.repaired = true`) for every schedule, any number of threads, any capacity:

      queued_job_served : cfg.repaired = true → cfg.WellFormed → QueuedJobServed cfg
        i.e.  Reach cfg s → jobQueued s → (∀ w, ¬ liveWorker s w) → ∃ t, enabled s t = true
  ("a queued job with no live worker ⇒ somebody can step": the pool always has or creates a worker for a queued job),
  and with LiveReduce the unconditional deadlock freedom
      no_stuck : cfg.repaired = true → cfg.WellFormed → Reach cfg s →
                   (∃ t th, s.threads t = some th ∧ th.finished = false) → ∃ t, enabled s t = true.

  Files:
    LiveSpawn1   vocabulary: A-weight (pushed a real job, `runAdd` pending), X-weight (popped a real job, `wAdd`
                 pending), O-weight (retire job in flight + destructor loop), covering frames of the decision phase
    LiveSpawnC*  (C1)  counters_identity : pushed + A = processed + X + R ;  pushed_gt_processed
    LiveSpawnP*  fifo_potential_mono : the FIFO potential  tcEff + #terminate tickets ≥ x − O  of a ticket position
                 never decreases ;  retire_in_flight_le_one
    LiveSpawnK*  pool_maxT_ge_three, client_in_run_not_done, run_thread_is_client, retire_in_flight_le_one_any
    LiveSpawn2   stack discipline: a thread inside `run` / the main thread is not inside `Future::join` (`spStk_reach`)
    LiveSpawn3   the invariant `SpInv` (cover ∨ every queued real ticket has potential ≥ 1) and the FINAL STEP
                 `sp_final` (dead state without live worker + `SpInv` + balance (K) of LiveShutdown ⇒ queue empty)
    LiveSpawn4   one plain micro-step and the cover status of the stepping thread (`spShapeC`)
    LiveSpawn5   `SpInv` across a `push`/`pop` micro-step (`spInv_ring`)
    LiveSpawn6   `SpInv` across a plain micro-step (`spInv_plain`), incl. the decisive steps `runRdProc pushed`
                 (busy ≥ 1 by (C1)), `runRdTc busy` (spawn path or `_threadCount ≥ 2`), `runSpChk`
    LiveSpawn    (this file) `spInv_reach`, `fifo_potential_invariant`, `queued_job_served`, `no_stuck`

  OPEN: nothing.
-/
import Nstd.Future.LiveSpawn6
set_option linter.unusedSimpArgs false
set_option linter.unusedVariables false
namespace Nstd.Future

open LS SP

variable {cfg : Config} {s : State}

theorem SP.spCli_holds (hrep : cfg.repaired = true) : SpCli cfg := by
  refine ⟨?_, ?_, ?_⟩
  · intro s t th fr rest hr hth hst hrun hbot
    rcases SPK.spRun_cases hrun with h | h
    · obtain ⟨h1, h2, _⟩ := run_thread_is_client hrep hr hth ⟨fr, by rw [hst]; exact List.mem_cons_self .., h⟩
      exact ⟨h1, h2⟩
    · rw [hbot] at h; cases h
  · intro s t th hr hth hfin hw ht0
    exact client_in_run_not_done hrep hr hth hfin hw ht0
  · intro s p hr hp
    exact pool_maxT_ge_three hr hp

theorem SP.spInv_step {s' : State} {t : Tid} {o : List String} (hrep : cfg.repaired = true) (hr : Reach cfg s)
    (hI : SpInv s) (h : step s t = some (s', o)) : SpInv s' := by
  have hF := spCli_holds hrep
  have hrep' : s.cfg.repaired = true := by rw [reach_cfg hr]; exact hrep
  obtain ⟨th, fr, rest, hth, hst, hfin, rfl⟩ := step_inv h
  have hvac : ∀ p', p'.ring.pushLog = [] →
      SpCov (stepFrame s t th fr).1 p' ∨ SpPotOk (stepFrame s t th fr).1 p' := by
    intro p' hlog; right; intro x _ hx2; rw [hlog] at hx2; simp at hx2
  cases hnr : lsRingOf fr with
  | some pc =>
    have hfr : fr = .ring pc := by cases fr <;> simp [lsRingOf] at hnr; rw [hnr]
    subst hfr
    cases hp : s.pool with
    | none =>
      rw [LW.ring_step_noPool s t th pc hp]
      intro p' hp'
      simp [withFault, hp] at hp'
    | some p => exact spInv_ring hrep hr hI hth hst hp h
  | none =>
    by_cases hni : fr = .mInit
    · subst hni
      have hinit := (reach_inv hr).initOnly t th hth (by rw [hst]; rfl)
      intro p' hp'
      apply hvac p'
      simp only [stepFrame] at hp'
      split at hp'
      · simp [setThread, hinit, State.init] at hp'
      · simp [setThread] at hp'; subst hp'; rfl
    · by_cases hc : ∃ c, fr = .cRdTp2 c ∧ s.tp = false
      · obtain ⟨c, rfl, htp⟩ := hc
        intro p' hp'
        apply hvac p'
        simp [stepFrame, htp, setThread] at hp'
        subst hp'; rfl
      · have hnc : ∀ c, fr = .cRdTp2 c → s.tp = true := by
          intro c hfr
          cases htp : s.tp with
          | true => rfl
          | false => exact absurd ⟨c, hfr, htp⟩ hc
        cases hp : s.pool with
        | none =>
          have hN := lsShapeN s t th fr rest hth hst hnr hrep' (Nat.ne_of_gt (ls_thread_lt hr hth)) hni hnc
          intro p' hp'
          rcases hN.ring with h1 | h1
          · rw [h1] at hp'; cases hp'
          · simp [lsRing, hp, hp'] at h1
        | some p => exact spInv_plain hrep hF hr hI hth hst hfin hp hnr hni hnc h

theorem SP.spInv_reach (hrep : cfg.repaired = true) (h : Reach cfg s) : SpInv s := by
  induction h with
  | init => intro p hp; simp [State.init] at hp
  | step t hr hs ih => exact spInv_step hrep hr ih hs

/-- FIFO potential invariant: in every reachable state of the repaired system, some thread covers the queued real jobs
    (it has queued a real job and not yet executed `runAdd`, or it is the last incrementer of `_pushedJobs` in its
    decision phase and still promises a worker: `runRdProc pushed`, `runRdTc busy` with `busy ≥ 1`, `runClk2 tc` with
    `tc < maxT`, the spawn path up to `runSpChk`), or every queued real ticket `x` has potential ≥ 1:
    `1 + (retire job in flight + terminate jobs queued by the destructor loop) ≤ _threadCount + #terminate tickets ≥ x`
    (`_threadCount` counted as 0 once the destructor has left its push loop). -/
theorem fifo_potential_invariant {p : Pool} (hrep : cfg.repaired = true) (hr : Reach cfg s) (hp : s.pool = some p) :
    (∃ t th, s.threads t = some th ∧ spCovTh p th = true) ∨
    (∀ x, p.ring.head ≤ x → x < p.ring.pushLog.length → spReal p.ring.pushLog x = true →
      (¬ lsDone s → 1 + tsum s.nthreads (spOAt s) ≤ p.threadCount + lsTq x p.ring.pushLog) ∧
      (lsDone s → 1 + tsum s.nthreads (spOAt s) ≤ lsTq x p.ring.pushLog)) :=
  spInv_reach hrep hr p hp

/-- a queued job with no live worker ⇒ somebody can step -/
theorem queued_job_served (hrep : cfg.repaired = true) (hwf : cfg.WellFormed) : QueuedJobServed cfg := by
  intro s hr hq hnw
  apply Classical.byContradiction
  intro hne
  have hdead : ∀ u, enabled s u = false := LR.lr_dead_of_not hne
  obtain ⟨p, hp, hlt⟩ := hq
  exact sp_final hrep hr (spInv_reach hrep hr) hdead hnw hp hlt

/-- the same, spelled out -/
theorem queued_job_served' (hrep : cfg.repaired = true) (hwf : cfg.WellFormed) (hr : Reach cfg s)
    (hq : jobQueued s) (hnw : ∀ w, ¬ liveWorker s w) : ∃ t, enabled s t = true :=
  queued_job_served hrep hwf s hr hq hnw

/-- THE REPAIRED SYSTEM IS NEVER DEADLOCKED: while some thread is unfinished, some thread can step -/
theorem no_stuck (hrep : cfg.repaired = true) (hwf : cfg.WellFormed) (hr : Reach cfg s)
    (hl : ∃ t th, s.threads t = some th ∧ th.finished = false) : ∃ t, enabled s t = true :=
  no_stuck_of_queuedJobServed hrep hwf (queued_job_served hrep hwf) hr hl

end Nstd.Future
