/-
  "The program cannot stop early", part 2: the steps of the frames `cNext`, `cEnd k`, `destroyF f`, `cArm c`, `tExit`.
-/
import Nstd.Future.Terminal1
set_option linter.unusedSimpArgs false
set_option linter.unusedVariables false
namespace Nstd.Future.TM
open Nstd.Future

/-- the future destroyed by `cEnd k` -/
def futK (k : Nat) : Nat := if k % 2 = 0 then k / 2 else 8 + k / 2

theorem futK_idxF {f : Nat} (h : f < 16) : futK (idxF f) = f := by
  by_cases h8 : f < 8
  · simp only [idxF, futK, h8, if_true]; split <;> omega
  · simp only [idxF, futK, h8, if_false]; split <;> omega

theorem idxF_lt {f : Nat} (h : f < 16) : idxF f < 16 := by
  unfold idxF; split <;> omega

theorem tExit_step (s : State) (t : Tid) (th : Thread) :
    (stepFrame s t th .tExit).1.everCalls = s.everCalls ∧ (stepFrame s t th .tExit).1.futs = s.futs ∧
    ∀ th', (stepFrame s t th .tExit).1.threads t = some th' → th'.stack = [] := by
  refine ⟨rfl, rfl, ?_⟩
  intro th' h
  simp [stepFrame, setThread, upd_same] at h
  subst h; rfl

theorem destroyF_step (s : State) (t : Tid) (th : Thread) (f0 : Nat) (rest : List Frame)
    (hth : s.threads t = some th) (hst : th.stack = .destroyF f0 :: rest) :
    (stepFrame s t th (.destroyF f0)).1.everCalls = s.everCalls ∧
    (∀ f, ((stepFrame s t th (.destroyF f0)).1.futs f).joinable = true → (s.futs f).joinable = true ∧ f ≠ f0) ∧
    ∀ th', (stepFrame s t th (.destroyF f0)).1.threads t = some th' → th'.used = th.used ∧ th'.stack = rest := by
  refine ⟨?_, ?_, ?_⟩
  · simp [stepFrame, setThread, setSig, setFut, destroySig]
  · intro f
    simp [stepFrame, setThread, setSig, setFut, destroySig, upd]
    grind
  · intro th' h
    simp [stepFrame, setThread, setSig, setFut, destroySig, upd_same] at h
    subst h
    simp [Thread.cont, hst]

theorem cArm_step (s : State) (t : Tid) (th : Thread) (c : Nat) (rest : List Frame)
    (hth : s.threads t = some th) (hst : th.stack = .cArm c :: rest) :
    (stepFrame s t th (.cArm c)).1.everCalls = s.everCalls ∧
    (∀ f, ((stepFrame s t th (.cArm c)).1.futs f).joinable = true →
        (s.futs f).joinable = true ∨ ∃ r, s.calls c = some r ∧ r.fut = f) ∧
    ∀ th', (stepFrame s t th (.cArm c)).1.threads t = some th' → th'.used = th.used ∧ rest <:+ th'.stack ∧
      ∀ c', HasPre c' th'.stack → HasPre c' (.cArm c :: rest) := by
  simp only [stepFrame]
  split
  · refine ⟨rfl, fun f h => Or.inl h, ?_⟩
    intro th' h
    simp [withFault, hth] at h
    subst h
    refine ⟨rfl, by rw [hst]; exact List.suffix_cons _ _, ?_⟩
    intro c' h
    rw [hst] at h
    exact h
  · rename_i r hr
    refine ⟨rfl, ?_, ?_⟩
    · intro f
      simp [setThread, setFut, upd]
      grind
    · intro th' h
      simp [setThread, setFut, upd_same] at h
      subst h
      simp [Thread.cont, hst, hasPre_cons, hsPreArm, List.suffix_cons_iff]
      intro c' h; exact Or.inr h

theorem cEnd_step (s : State) (t : Tid) (th : Thread) (k : Nat) (rest : List Frame)
    (hth : s.threads t = some th) (hst : th.stack = .cEnd k :: rest) :
    (stepFrame s t th (.cEnd k)).1.everCalls = s.everCalls ∧ (stepFrame s t th (.cEnd k)).1.futs = s.futs ∧
    ∀ th', (stepFrame s t th (.cEnd k)).1.threads t = some th' → th'.used = th.used ∧
      ((16 ≤ k ∧ th'.stack = .tExit :: rest) ∨
       (k < 16 ∧ futK k ∈ th.used ∧ th'.stack = .join (futK k) :: .destroyF (futK k) :: .cEnd (k + 1) :: rest) ∨
       (k < 16 ∧ futK k ∉ th.used ∧ th'.stack = .cEnd (k + 1) :: rest)) := by
  simp only [stepFrame]
  rw [show (if k % 2 = 0 then k / 2 else 8 + k / 2) = futK k from rfl]
  by_cases hk : k ≥ 16
  · rw [if_pos hk]
    refine ⟨rfl, rfl, ?_⟩
    intro th' h
    simp [setThread, upd_same] at h
    subst h
    simp [Thread.cont, hst]
    omega
  · rw [if_neg hk]
    by_cases hc : th.used.contains (futK k) = true
    · rw [if_pos hc]
      refine ⟨rfl, rfl, ?_⟩
      intro th' h
      simp [setThread, upd_same] at h
      subst h
      have hm : futK k ∈ th.used := by simpa using hc
      simp [Thread.cont, hst, hm]
      omega
    · rw [if_neg hc]
      refine ⟨rfl, rfl, ?_⟩
      intro th' h
      simp [setThread, upd_same] at h
      subst h
      have hm : futK k ∉ th.used := by simpa using hc
      simp [Thread.cont, hst, hm]
      omega

set_option maxHeartbeats 4000000 in
theorem cNext_step (s : State) (t : Tid) (th : Thread) (rest : List Frame)
    (hth : s.threads t = some th) (hst : th.stack = .cNext :: rest) :
    (∀ f, ((stepFrame s t th .cNext).1.futs f).joinable = (s.futs f).joinable) ∧
    ∀ th', (stepFrame s t th .cNext).1.threads t = some th' →
      (∀ f ∈ th.used, f ∈ th'.used) ∧ (Frame.cNext ∈ th'.stack ∨ th'.stack = .cEnd 0 :: rest) ∧
      (∀ c, HasPre c th'.stack → HasPre c rest ∨
        ∃ r, (stepFrame s t th .cNext).1.everCalls c = some r ∧ r.fut ∈ th'.used ∧ Frame.cNext ∈ th'.stack) := by
  simp only [stepFrame]
  repeat' split
  all_goals
    refine ⟨?_, ?_⟩
    · intro f
      simp [setThread, setFut, upd]
      try grind
    · intro th' h
      simp [setThread, setFut, upd_same] at h
      subst h
      simp [Thread.cont, hst, hasPre_cons, hsPreArm, upd_same, setThread]
      try (first
        | (intro c hc; rcases hc with rfl | hc
           · right; exact ⟨_, upd_same _ _ _, by simp_all⟩
           · left; exact hc)
        | (refine ⟨fun f hf => Or.inl hf, ?_⟩; intro c hc; rcases hc with rfl | hc
           · right; exact ⟨_, upd_same _ _ _, Or.inr rfl⟩
           · left; exact hc)
        | grind)

end Nstd.Future.TM
