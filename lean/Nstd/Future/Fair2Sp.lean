/-
  Concrete vocabulary for the strong-fairness certificate (`F2.SpinCert`, Fair2Red.lean):
    * `F2.KeyFlags s`   the shared words whose change every measure must account for (the "flags" + ring counters);
    * `F2.Sp s t`       "t is a FUTILE SPINNER": it is inside one of the three FastSignal wait loops (idle loop of a
                        worker on `_enqueuedSignal`, back-pressure loop of `run` / of `~ThreadPool` on
                        `_dequeuedSignal`), the loop's signal is in SPIN MODE (`_state = 0 ∧ signaled = true`) and its
                        pop/push fails — or it is spinning on the taken `tplock`;
    * `F2.sp_congr`     `Sp s t` depends only on the record of `t` and on `KeyFlags s`.
-/
import Nstd.Future.Fair2Red
set_option linter.unusedVariables false
namespace Nstd.Future.F2

/-- ring micro-steps of a `pop` that cannot succeed while nothing is published at `_head` -/
inductive PopFr (r : Ring Job) : RingPc Job → Prop where
  | read : PopFr r .popRead
  | chk (h : Nat) : PopFr r (.popChk h)
  | cas (h : Nat) : h ≠ r.head → PopFr r (.popCas h)

/-- ring micro-steps of a `push` that cannot succeed while the slot at `_tail` is not free -/
inductive PushFr (r : Ring Job) : RingPc Job → Prop where
  | read (d : Job) : PushFr r (.pushRead d)
  | chk (d : Job) (t : Nat) : PushFr r (.pushChk d t)
  | cas (d : Job) (t : Nat) : t ≠ r.tail → PushFr r (.pushCas d t)

/-- stack shapes of a thread inside the idle loop of `ThreadContext::proc` (FastSignal 0) -/
inductive Loop0 (r : Ring Job) (retB : Bool) : List Frame → Prop where
  | pop1 (rest : List Frame) : Loop0 r retB (.wPop1 :: rest)
  | ring1 (pc : RingPc Job) (rest : List Frame) : PopFr r pc → Loop0 r retB (.ring pc :: .wChk1 :: rest)
  | chk1 (rest : List Frame) : retB = false → Loop0 r retB (.wChk1 :: rest)
  | rst (rest : List Frame) : Loop0 r retB (.fRst 0 :: .wPop2 :: rest)
  | pop2 (rest : List Frame) : Loop0 r retB (.wPop2 :: rest)
  | ring2 (pc : RingPc Job) (rest : List Frame) : PopFr r pc → Loop0 r retB (.ring pc :: .wChk2 :: rest)
  | chk2 (rest : List Frame) : retB = false → Loop0 r retB (.wChk2 :: rest)
  | wait (rest : List Frame) : Loop0 r retB (.fWait 0 :: .wPop1 :: rest)
  | lock (rest : List Frame) : Loop0 r retB (.sWaitLock 0 :: .wPop1 :: rest)
  | chk (rest : List Frame) : Loop0 r retB (.sWaitChk 0 :: .wPop1 :: rest)
  | unlock (rest : List Frame) : Loop0 r retB (.sWaitUnlock 0 :: .wPop1 :: rest)

/-- stack shapes of a thread inside a back-pressure loop (FastSignal 1) with loop frames
    `hd` (loop head), `c1`, `p2`, `c2`: `(runStart j, runChk1 j, runPush2 j, runChk2 j)` for `ThreadPool::run`,
    `(dPush i, dChk1 i, dPush2 i, dChk2 i)` for `~ThreadPool` -/
inductive Loop1 (r : Ring Job) (retB : Bool) (hd c1 p2 c2 : Frame) : List Frame → Prop where
  | head (rest : List Frame) : Loop1 r retB hd c1 p2 c2 (hd :: rest)
  | ring1 (pc : RingPc Job) (rest : List Frame) : PushFr r pc → Loop1 r retB hd c1 p2 c2 (.ring pc :: c1 :: rest)
  | chk1 (rest : List Frame) : retB = false → Loop1 r retB hd c1 p2 c2 (c1 :: rest)
  | rst (rest : List Frame) : Loop1 r retB hd c1 p2 c2 (.fRst 1 :: p2 :: rest)
  | push2 (rest : List Frame) : Loop1 r retB hd c1 p2 c2 (p2 :: rest)
  | ring2 (pc : RingPc Job) (rest : List Frame) : PushFr r pc → Loop1 r retB hd c1 p2 c2 (.ring pc :: c2 :: rest)
  | chk2 (rest : List Frame) : retB = false → Loop1 r retB hd c1 p2 c2 (c2 :: rest)
  | wait (rest : List Frame) : Loop1 r retB hd c1 p2 c2 (.fWait 1 :: hd :: rest)
  | lock (rest : List Frame) : Loop1 r retB hd c1 p2 c2 (.sWaitLock 1 :: hd :: rest)
  | chk (rest : List Frame) : Loop1 r retB hd c1 p2 c2 (.sWaitChk 1 :: hd :: rest)
  | unlock (rest : List Frame) : Loop1 r retB hd c1 p2 c2 (.sWaitUnlock 1 :: hd :: rest)

/-- the shared words a spinner reads (and every measure has to account for) -/
structure KeyFlags where
  poolSome : Bool
  enq : Nat
  deq : Nat
  head : Nat
  tail : Nat
  cap : Nat
  headPub : Option Nat      -- `headT` of the slot at `_head`
  tailFree : Nat            -- `tailT` of the slot at `_tail`
  threadCount : Nat
  sig0 : Bool
  sig1 : Bool
  tplTaken : Bool          -- `tplock ≠ 0`
  repaired : Bool

def keyFlags (s : State) : KeyFlags :=
  match s.pool with
  | some p =>
    { poolSome := true, enq := p.enq, deq := p.deq, head := p.ring.head, tail := p.ring.tail, cap := p.ring.cap,
      headPub := (p.ring.slots (p.ring.head % p.ring.cap)).headT,
      tailFree := (p.ring.slots (p.ring.tail % p.ring.cap)).tailT,
      threadCount := p.threadCount,
      sig0 := (s.sigs 0).signaled, sig1 := (s.sigs 1).signaled, tplTaken := decide (s.tplock ≠ 0), repaired := s.cfg.repaired }
  | none =>
    { poolSome := false, enq := 0, deq := 0, head := 0, tail := 0, cap := 0, headPub := none, tailFree := 0,
      threadCount := 0,
      sig0 := (s.sigs 0).signaled, sig1 := (s.sigs 1).signaled, tplTaken := decide (s.tplock ≠ 0), repaired := s.cfg.repaired }

/-- SPIN MODE of the worker idle loop with nothing to pop -/
def Futile0 (s : State) (p : Pool) : Prop :=
  p.enq = 0 ∧ (s.sigs 0).signaled = true ∧ (p.ring.slots (p.ring.head % p.ring.cap)).headT ≠ some p.ring.head

/-- SPIN MODE of the back-pressure loops with no room to push -/
def Futile1 (s : State) (p : Pool) : Prop :=
  p.deq = 0 ∧ (s.sigs 1).signaled = true ∧ (p.ring.slots (p.ring.tail % p.ring.cap)).tailT ≠ p.ring.tail

/-- the looping part of `Sp`, for the thread record `th` -/
def SpLoop (s : State) (p : Pool) (th : Thread) : Prop :=
  (Futile0 s p ∧ Loop0 p.ring th.retB th.stack) ∨
  (Futile1 s p ∧ ∃ j, Loop1 p.ring th.retB (.runStart j) (.runChk1 j) (.runPush2 j) (.runChk2 j) th.stack) ∨
  (Futile1 s p ∧ ∃ i, i < p.threadCount ∧ s.cfg.repaired = true ∧
      Loop1 p.ring th.retB (.dPush i) (.dChk1 i) (.dPush2 i) (.dChk2 i) th.stack)

/-- `t` is a FUTILE SPINNER -/
def Sp (s : State) (t : Tid) : Prop :=
  ∃ th, s.threads t = some th ∧ th.finished = false ∧
    ((∃ p, s.pool = some p ∧ SpLoop s p th) ∨ (s.tplock ≠ 0 ∧ ∃ c rest, th.stack = .cSpin c :: rest))

/-- `u` exists, has not finished and is no futile spinner -/
def NonSp (s : State) (u : Tid) : Prop :=
  (∃ th, s.threads u = some th ∧ th.finished = false) ∧ ¬ Sp s u

/-! ### `Sp` depends only on the thread record and the key flags -/

/-- the ring data `Sp` looks at -/
def SpView (s : State) (th : Thread) : Prop :=
  th.finished = false ∧
    ((∃ p, s.pool = some p ∧ SpLoop s p th) ∨ (s.tplock ≠ 0 ∧ ∃ c rest, th.stack = .cSpin c :: rest))

theorem sp_iff_view {s : State} {t : Tid} : Sp s t ↔ ∃ th, s.threads t = some th ∧ SpView s th := by
  constructor
  · rintro ⟨th, h1, h2, h3⟩; exact ⟨th, h1, h2, h3⟩
  · rintro ⟨th, h1, h2, h3⟩; exact ⟨th, h1, h2, h3⟩

theorem popFr_congr {r r' : Ring Job} (hh : r'.head = r.head) {pc : RingPc Job} (h : PopFr r pc) : PopFr r' pc := by
  cases h with
  | read => exact .read
  | chk h => exact .chk h
  | cas h hne => exact .cas h (by rw [hh]; exact hne)

theorem pushFr_congr {r r' : Ring Job} (hh : r'.tail = r.tail) {pc : RingPc Job} (h : PushFr r pc) : PushFr r' pc := by
  cases h with
  | read d => exact .read d
  | chk d t => exact .chk d t
  | cas d t hne => exact .cas d t (by rw [hh]; exact hne)

theorem loop0_congr {r r' : Ring Job} (hh : r'.head = r.head) {b : Bool} {l : List Frame} (h : Loop0 r b l) :
    Loop0 r' b l := by
  cases h with
  | pop1 rest => exact .pop1 rest
  | ring1 pc rest hp => exact .ring1 pc rest (popFr_congr hh hp)
  | chk1 rest hb => exact .chk1 rest hb
  | rst rest => exact .rst rest
  | pop2 rest => exact .pop2 rest
  | ring2 pc rest hp => exact .ring2 pc rest (popFr_congr hh hp)
  | chk2 rest hb => exact .chk2 rest hb
  | wait rest => exact .wait rest
  | lock rest => exact .lock rest
  | chk rest => exact .chk rest
  | unlock rest => exact .unlock rest

theorem loop1_congr {r r' : Ring Job} (hh : r'.tail = r.tail) {b : Bool} {hd c1 p2 c2 : Frame} {l : List Frame}
    (h : Loop1 r b hd c1 p2 c2 l) : Loop1 r' b hd c1 p2 c2 l := by
  cases h with
  | head rest => exact .head rest
  | ring1 pc rest hp => exact .ring1 pc rest (pushFr_congr hh hp)
  | chk1 rest hb => exact .chk1 rest hb
  | rst rest => exact .rst rest
  | push2 rest => exact .push2 rest
  | ring2 pc rest hp => exact .ring2 pc rest (pushFr_congr hh hp)
  | chk2 rest hb => exact .chk2 rest hb
  | wait rest => exact .wait rest
  | lock rest => exact .lock rest
  | chk rest => exact .chk rest
  | unlock rest => exact .unlock rest

/-- one direction of the congruence -/
theorem spView_of_keyFlags {s s' : State} {th : Thread} (hk : keyFlags s' = keyFlags s) (h : SpView s th) :
    SpView s' th := by
  obtain ⟨hfin, h⟩ := h
  refine ⟨hfin, ?_⟩
  rcases h with ⟨p, hp, hl⟩ | ⟨htl, hc⟩
  · left
    cases hp' : s'.pool with
    | none =>
      have := congrArg KeyFlags.poolSome hk
      simp [keyFlags, hp, hp'] at this
    | some p' =>
      refine ⟨p', rfl, ?_⟩
      simp only [keyFlags, hp, hp'] at hk
      have e1 := congrArg KeyFlags.enq hk
      have e2 := congrArg KeyFlags.deq hk
      have e3 := congrArg KeyFlags.head hk
      have e4 := congrArg KeyFlags.tail hk
      have e5 := congrArg KeyFlags.cap hk
      have e6 := congrArg KeyFlags.headPub hk
      have e7 := congrArg KeyFlags.tailFree hk
      have e8 := congrArg KeyFlags.threadCount hk
      have e9 := congrArg KeyFlags.sig0 hk
      have e10 := congrArg KeyFlags.sig1 hk
      have e11 := congrArg KeyFlags.repaired hk
      simp only at e1 e2 e3 e4 e5 e6 e7 e8 e9 e10 e11
      have hF0 : Futile0 s p → Futile0 s' p' := by
        rintro ⟨a, b, c⟩
        refine ⟨by rw [e1]; exact a, by rw [e9]; exact b, ?_⟩
        rw [e6, e3]; exact c
      have hF1 : Futile1 s p → Futile1 s' p' := by
        rintro ⟨a, b, c⟩
        refine ⟨by rw [e2]; exact a, by rw [e10]; exact b, ?_⟩
        rw [e7, e4]; exact c
      rcases hl with ⟨hf, hl⟩ | ⟨hf, j, hl⟩ | ⟨hf, i, hi, hrep, hl⟩
      · exact Or.inl ⟨hF0 hf, loop0_congr e3 hl⟩
      · exact Or.inr (Or.inl ⟨hF1 hf, j, loop1_congr e4 hl⟩)
      · exact Or.inr (Or.inr ⟨hF1 hf, i, by rw [e8]; exact hi, by rw [e11]; exact hrep, loop1_congr e4 hl⟩)
  · right
    refine ⟨?_, hc⟩
    have h1 : decide (s'.tplock ≠ 0) = decide (s.tplock ≠ 0) := by
      have := congrArg KeyFlags.tplTaken hk
      simp only [keyFlags] at this
      split at this <;> split at this <;> exact this
    have h2 : decide (s.tplock ≠ 0) = true := decide_eq_true htl
    rw [h2] at h1
    exact of_decide_eq_true h1

/-- `Sp s t` depends only on the record of `t` and on `keyFlags s` -/
theorem sp_congr {s s' : State} {t : Tid} (hth : s'.threads t = s.threads t) (hk : keyFlags s' = keyFlags s) :
    Sp s' t ↔ Sp s t := by
  rw [sp_iff_view, sp_iff_view, hth]
  constructor
  · rintro ⟨th, h1, h2⟩; exact ⟨th, h1, spView_of_keyFlags hk.symm h2⟩
  · rintro ⟨th, h1, h2⟩; exact ⟨th, h1, spView_of_keyFlags hk h2⟩

end Nstd.Future.F2
