/-
  Shutdown side of deadlock freedom, part 4: every ThreadContext with a started thread belongs to a worker thread
  (`ls_ctxw_reach`).
-/
import Nstd.Future.LiveShutdown3
set_option linter.unusedSimpArgs false
set_option linter.unusedVariables false
namespace Nstd.Future.LS

/-- the thread of a ThreadContext is a worker thread -/
def LsCtxW (s : State) : Prop :=
  ∀ p c w, s.pool = some p → c ∈ p.ctxs → c.tid = some w → ∃ th, s.threads w = some th ∧ th.isWorker = true

theorem lsCtxW_step {cfg : Config} {s s' : State} {t : Tid} {o : List String} (hrep : cfg.repaired = true)
    (hr : Reach cfg s) (hI : LsCtxW s) (h : step s t = some (s', o)) : LsCtxW s' := by
  obtain ⟨th, fr, rest, hth, hst, hfin, rfl⟩ := step_inv h
  have hrep' : s.cfg.repaired = true := by rw [reach_cfg hr]; exact hrep
  have hK := LW.shapeK s t th fr rest hth hst hrep'
  have htlt := ls_thread_lt hr hth
  have hkeep : ∀ w thw, s.threads w = some thw → thw.isWorker = true →
      ∃ th', (stepFrame s t th fr).1.threads w = some th' ∧ th'.isWorker = true := by
    intro w thw hthw hw
    by_cases hwt : w = t
    · subst hwt
      obtain ⟨th', h1, h2, _⟩ := hK.self
      rw [hth] at hthw; injection hthw with hthw; subst hthw
      exact ⟨th', h1, by rw [h2]; exact hw⟩
    · exact ⟨thw, LW.step_keep hr hth hst hrep' w thw hwt hthw, hw⟩
  intro p' c' w hp' hc' hw
  cases hp : s.pool with
  | none =>
    exfalso
    cases hct : ctxTouch fr with
    | true =>
      have hnp : needsPool fr = true := by cases fr <;> first | rfl | (simp [ctxTouch] at hct)
      obtain ⟨p, hp2⟩ := pool_frame_has_pool hr hth hfin (by rw [hst]; rfl) hnp
      rw [hp] at hp2; cases hp2
    | false =>
      rcases (shape6 s t th fr rest hth hst).same hct p' hp' with ⟨h1, _⟩ | ⟨p2, h1, _⟩
      · rw [h1] at hc'; cases hc'
      · rw [hp] at h1; cases h1
  | some p =>
    have hold : ∀ c, c ∈ p.ctxs → c.tid = some w →
        ∃ th', (stepFrame s t th fr).1.threads w = some th' ∧ th'.isWorker = true := by
      intro c hc hcw
      obtain ⟨thw, h1, h2⟩ := hI p c w hp hc hcw
      exact hkeep w thw h1 h2
    rcases ctxFwd_of s t th fr rest hth hst hp hp' with h1 | ⟨_, h1⟩ | ⟨k, hfr, h1⟩ | ⟨_, h1⟩ | ⟨i, c, _, _, _, _, h1⟩ |
      ⟨i, w2, _, h1⟩ | ⟨h1, _⟩
    · rw [h1] at hc'; exact hold c' hc' hw
    · rw [h1] at hc'
      rcases List.mem_append.mp hc' with hc' | hc'
      · exact hold c' hc' hw
      · simp only [List.mem_singleton] at hc'; subst hc'; cases hw
    · rw [h1] at hc'
      obtain ⟨c, hc, rfl⟩ := List.mem_map.mp hc'
      by_cases hk : c.id = k
      · simp only [hk, if_true] at hw
        injection hw with hw
        subst hfr
        refine ⟨{ stack := [.tStart, .wPop1], isWorker := true }, ?_, rfl⟩
        have hne : s.nthreads ≠ t := Nat.ne_of_gt htlt
        rw [← hw]
        simp [stepFrame, hp, setThread, upd, hne]
      · simp only [hk, if_false] at hw; exact hold c hc hw
    · rw [h1] at hc'
      obtain ⟨c, hc, rfl⟩ := List.mem_map.mp hc'
      refine hold c hc ?_
      by_cases hct : c.tid = some t
      · simp only [hct, if_true] at hw; rw [← hw, hct]
      · simp only [hct, if_false] at hw; exact hw
    · rw [h1] at hc'; exact hold c' (List.mem_of_mem_eraseIdx hc') hw
    · rw [h1] at hc'; exact hold c' (List.mem_of_mem_eraseIdx hc') hw
    · rw [h1] at hc'; cases hc'

theorem ls_ctxw_reach {cfg : Config} (hrep : cfg.repaired = true) {s : State} (h : Reach cfg s) : LsCtxW s := by
  induction h with
  | init => intro p c w hp; simp [State.init] at hp
  | step t hr hs ih => exact lsCtxW_step hrep hr ih hs

end Nstd.Future.LS
