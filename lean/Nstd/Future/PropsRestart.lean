import Nstd.Future.Handshake
import Nstd.Future.HandshakeWitness
/-
  Property C10, last sentence — "after join, isAborted() is true only if abort() was requested SINCE THE START, and isFinished() is
  true otherwise" — stated over HISTORIES, so that a re-start of the same Future object is visibly covered (round 7).

  `state_after_join` / `flags_after_join` speak through the ghost field `Fut.abortReq`.  Here the ghost is eliminated: `ReachH cfg s h`
  is `Reach cfg s` together with the list `h` of the flag-relevant events of the run that led to `s` (arming of a future by `startProc`
  = `_joinable = true; _aborting = false;`, a call of `abort()`, the destruction of a future), `abortSince f h` scans that list
  ("the last of these events about `f` is an `abort()`"), and
      `abortReq_is_abort_since_last_start` : in every reachable state the ghost equals the scan of the history, whatever the client
          scripts are (any number of start / abort / join / destroy / re-start rounds on the same object),
      `flags_after_join_across_restarts`   : after join exactly one of finished / aborted holds, and aborted implies that the run
          contains an `abort()` on this future AFTER the last arming of the object — an abort of an earlier incarnation does not count.
  Non-vacuity: `restart_history_witness` (kernel-evaluated run: start, abort, join → aborted; re-start, join → finished although the
  history contains an abort of the same object).
-/
set_option linter.unusedSimpArgs false
set_option linter.unusedVariables false
namespace Nstd.Future.C10

/-- the events of a run the last sentence of C10 speaks about -/
inductive FlagEv where
  | armed (f : Nat)          -- `startProc`: `_joinable = true; _aborting = false;` (frame `cArm`)
  | abortCalled (f : Nat)    -- `abort()`
  | destroyed (f : Nat)      -- `~Future` (the object at this address is a new one afterwards)
  | other
  deriving DecidableEq, Repr

/-- the event of the micro-step thread `t` is about to take in `s` -/
def flagEvOf (s : State) (t : Tid) : FlagEv :=
  match s.threads t with
  | some th => match th.stack with
    | .cArm c :: _ => (match s.calls c with | some r => .armed r.fut | none => .other)
    | .cNext :: _ => (match th.script with | .abort f :: _ => .abortCalled f | _ => .other)
    | .destroyF f :: _ => .destroyed f
    | _ => .other
  | none => .other

/-- effect of one event on "abort() was requested since the start" of future `f` -/
def flagUpd (f : Nat) (b : Bool) : FlagEv → Bool
  | .armed g => if g = f then false else b
  | .abortCalled g => if g = f then true else b
  | .destroyed g => if g = f then false else b
  | .other => b

/-- "the last event about `f` in the history is an `abort()`": abort() was requested since the (latest) start -/
def abortSince (f : Nat) (h : List FlagEv) : Bool := h.foldl (flagUpd f) false

/-- reachable states with the history of flag events of the run -/
inductive ReachH (cfg : Config) : State → List FlagEv → Prop where
  | init : ReachH cfg (State.init cfg) []
  | step {s s' : State} {o : List String} {h : List FlagEv} (t : Tid) :
      ReachH cfg s h → step s t = some (s', o) → ReachH cfg s' (h ++ [flagEvOf s t])

theorem reachH_reach {cfg : Config} {s : State} {h : List FlagEv} (hr : ReachH cfg s h) : Reach cfg s := by
  induction hr with
  | init => exact Reach.init
  | step t _ hs ih => exact Reach.step t ih hs

theorem reach_reachH {cfg : Config} {s : State} (hr : Reach cfg s) : ∃ h, ReachH cfg s h := by
  induction hr with
  | init => exact ⟨[], ReachH.init⟩
  | step t _ hs ih => obtain ⟨h, hh⟩ := ih; exact ⟨_, ReachH.step t hh hs⟩

/-- how one micro-step changes the ghost `abortReq` of every future: exactly as its event says -/
theorem abortReq_step (s : State) (t : Tid) (th : Thread) (fr : Frame) (rest : List Frame)
    (hth : s.threads t = some th) (hst : th.stack = fr :: rest) (f : Nat) :
    ((stepFrame s t th fr).1.futs f).abortReq = flagUpd f (s.futs f).abortReq (flagEvOf s t) := by
  cases fr
  case cNext =>
    simp only [flagEvOf, hth, hst, stepFrame]
    cases hsc : th.script with
    | nil => simp [flagUpd, setThread]
    | cons op rest' =>
      cases op <;> simp [flagUpd, setThread, setFut, upd]
      · split <;> simp_all
        intro h; exact absurd h.symm ‹_›
  case cArm c =>
    simp only [flagEvOf, hth, hst, stepFrame]
    cases hc : s.calls c with
    | none => simp [flagUpd, withFault]
    | some r =>
      simp only [flagUpd, setThread, setFut, upd]
      by_cases hf : f = r.fut
      · subst hf; simp
      · have : ¬ r.fut = f := fun h => hf h.symm
        simp [hf, this]
  case destroyF g =>
    simp only [flagEvOf, hth, hst, stepFrame, flagUpd, destroySig, setThread, setFut, setSig, upd]
    by_cases hf : f = g
    · subst hf; simp
    · have : ¬ g = f := fun h => hf h.symm
      simp [hf, this]
  all_goals
    simp only [flagEvOf, hth, hst, flagUpd, stepFrame]
    repeat' split
  all_goals first
    | rfl
    | (simp [setThread, setSig, setPool, setFut, withFault, destroySig, upd]; done)
    | (simp [setThread, setSig, setPool, setFut, withFault, destroySig, upd]; split <;> simp_all; done)

/-- **`abortReq_is_abort_since_last_start`** — the ghost flag the handshake theorems use IS the history predicate: in every reachable
    state, for every future, `abortReq` holds iff the last arming / abort / destruction event of that future in the run is an
    `abort()`.  No assumption about the scripts: any sequence of starts, aborts, joins, destroys and re-starts. -/
theorem abortReq_is_abort_since_last_start {cfg : Config} {s : State} {h : List FlagEv} (hr : ReachH cfg s h) (f : Nat) :
    (s.futs f).abortReq = abortSince f h := by
  induction hr with
  | init => simp [State.init, abortSince]
  | @step s s' o h t hr hs ih =>
    simp only [abortSince, List.foldl_append, List.foldl_cons, List.foldl_nil]
    rw [← abortSince, ← ih]
    simp only [step] at hs
    cases hth : s.threads t with
    | none => simp [hth] at hs
    | some th =>
      cases hst : th.stack with
      | nil => simp [hth, hst] at hs
      | cons fr rest =>
        simp only [hth, hst] at hs
        split at hs
        · cases hs
        · simp only [Option.some.injEq] at hs
          have e : s' = (stepFrame s t th fr).1 := by rw [hs]
          rw [e]
          exact abortReq_step s t th fr rest hth hst f

/-- **`flags_after_join_across_restarts`** (C10, last sentence, over restart histories) — in every reachable state of every
    well-formed configuration, with `h` the history of the run: once `join()` has returned for the current call of future `f`
    (`_joinable` cleared), exactly one of `isFinished()` / `isAborted()` holds, and `isAborted()` implies that the run contains an
    `abort()` on `f` after the LAST arming of the object by `start()` (and after its last destruction): an abort requested for an
    earlier call of the same object does not make a later call "aborted". -/
theorem flags_after_join_across_restarts {cfg : Config} {s : State} {h : List FlagEv} (hwf : cfg.WellFormed)
    (hr : ReachH cfg s h) {f c : Nat} (hj : (s.futs f).joinable = false) (hc : (s.futs f).curCall = some c) :
    (((s.futs f).state = 2 ∧ (s.futs f).state ≠ 3) ∨ ((s.futs f).state = 3 ∧ (s.futs f).state ≠ 2)) ∧
    ((s.futs f).state = 3 → abortSince f h = true) := by
  obtain ⟨h1, h2⟩ := Nstd.Future.state_after_join hwf (reachH_reach hr) hj hc
  refine ⟨?_, fun h3 => ?_⟩
  · rcases h1 with h1 | h1
    · left; exact ⟨h1, by rw [h1]; decide⟩
    · right; exact ⟨h1, by rw [h1]; decide⟩
  · rw [← abortReq_is_abort_since_last_start hr f]; exact h2 h3

theorem foldl_flag_aux (f : Nat) : ∀ (h : List FlagEv) (b : Bool), h.foldl (flagUpd f) b = true →
    (b = true ∧ ∀ e ∈ h, e ≠ .armed f ∧ e ≠ .destroyed f) ∨
    ∃ pre post, h = pre ++ .abortCalled f :: post ∧ (∀ e ∈ post, e ≠ .armed f ∧ e ≠ .destroyed f) := by
  intro h
  induction h with
  | nil => intro b hb; left; exact ⟨by simpa using hb, by simp⟩
  | cons e l ih =>
    intro b hb
    simp only [List.foldl_cons] at hb
    rcases ih _ hb with ⟨hb', hl⟩ | ⟨pre, post, rfl, hp⟩
    · by_cases he : e = .abortCalled f
      · right; exact ⟨[], l, by simp [he], hl⟩
      · cases e with
        | armed g =>
          by_cases hg : g = f
          · simp [flagUpd, hg] at hb'
          · simp only [flagUpd, hg, if_false] at hb'
            left; refine ⟨hb', ?_⟩
            intro x hx
            rcases List.mem_cons.mp hx with rfl | hx
            · exact ⟨fun h => hg (by injection h), by simp⟩
            · exact hl x hx
        | abortCalled g =>
          have hg : ¬ g = f := fun h => he (by rw [h])
          simp only [flagUpd, hg, if_false] at hb'
          left; refine ⟨hb', ?_⟩
          intro x hx
          rcases List.mem_cons.mp hx with rfl | hx
          · exact ⟨by simp, by simp⟩
          · exact hl x hx
        | destroyed g =>
          by_cases hg : g = f
          · simp [flagUpd, hg] at hb'
          · simp only [flagUpd, hg, if_false] at hb'
            left; refine ⟨hb', ?_⟩
            intro x hx
            rcases List.mem_cons.mp hx with rfl | hx
            · exact ⟨by simp, fun h => hg (by injection h)⟩
            · exact hl x hx
        | other =>
          simp only [flagUpd] at hb'
          left; refine ⟨hb', ?_⟩
          intro x hx
          rcases List.mem_cons.mp hx with rfl | hx
          · exact ⟨by simp, by simp⟩
          · exact hl x hx
    · right; exact ⟨e :: pre, post, by simp, hp⟩

/-- `abortSince` spelled out, in the direction the property needs: if it holds, the history contains an `abort()` on `f` that is
    followed by no arming and no destruction of `f`. -/
theorem abortSince_has_abort (f : Nat) (h : List FlagEv) (ha : abortSince f h = true) :
    ∃ pre post, h = pre ++ .abortCalled f :: post ∧ (∀ e ∈ post, e ≠ .armed f ∧ e ≠ .destroyed f) := by
  rcases foldl_flag_aux f h false ha with ⟨hb, _⟩ | hx
  · cases hb
  · exact hx

/-- **C10, last sentence, with the ghost eliminated**: after join, `isAborted()` (state 3) implies that the history of the run has
    the shape `… abort() on f … ` with no arming (`start()`) and no destruction of `f` after that abort. -/
theorem aborted_after_join_means_abort_since_last_start {cfg : Config} {s : State} {h : List FlagEv} (hwf : cfg.WellFormed)
    (hr : ReachH cfg s h) {f c : Nat} (hj : (s.futs f).joinable = false) (hc : (s.futs f).curCall = some c)
    (h3 : (s.futs f).state = 3) :
    ∃ pre post, h = pre ++ .abortCalled f :: post ∧ (∀ e ∈ post, e ≠ .armed f ∧ e ≠ .destroyed f) :=
  abortSince_has_abort f h ((flags_after_join_across_restarts hwf hr hj hc).2 h3)

/-! ### non-vacuity: a run that re-starts an aborted future -/

/-- one client: `start g1(1,2); abort; join; query; start g1(3,4); join; query` -/
def rsCfg : Config :=
  { q := 2, minT := 0, maxT := 3, lazy := false, tick := 0, spurious := 0, repaired := true,
    scripts := [[.start 9 1 2, .abort 9, .join 9, .query 9, .start 9 3 4, .join 9, .query 9]] }

def runSchedH : State → List FlagEv → List Tid → Option (State × List FlagEv)
  | s, h, [] => some (s, h)
  | s, h, t :: ts => match step s t with
    | some (s', _) => runSchedH s' (h ++ [flagEvOf s t]) ts
    | none => none

theorem runSchedH_reach {cfg : Config} {l : List Tid} : ∀ {s s' : State} {h h' : List FlagEv}, ReachH cfg s h →
    runSchedH s h l = some (s', h') → ReachH cfg s' h' := by
  induction l with
  | nil => intro s s' h h' hr he; simp only [runSchedH, Option.some.injEq, Prod.mk.injEq] at he; obtain ⟨rfl, rfl⟩ := he; exact hr
  | cons t l ih =>
    intro s s' h h' hr he
    simp only [runSchedH] at he
    split at he
    · next s1 o hs => exact ih (ReachH.step t hr hs) he
    · cases he

/-- the first join has returned (93 micro-steps: the worker read `_aborting` after the client's `abort()`) -/
def rsSched1 : List Tid := [
   0, 0, 0, 0, 1, 1, 1, 1, 1, 1, 1, 1, 1, 1, 1, 1, 1, 1, 1, 1, 1, 1, 1, 1, 1, 1, 1, 1, 1, 1, 1, 1, 1, 1, 1, 1, 1, 1, 1, 1,
   2, 2, 2, 2, 2, 2, 2, 2, 2, 2, 2, 2, 2, 2, 2, 2, 2, 2, 2, 2, 2, 2, 2, 2, 2, 2, 2, 2, 2, 2, 2, 2, 2, 2, 2, 2, 2, 2, 2, 2,
   2, 2, 2, 2, 1, 1, 1, 1, 1, 1, 1, 1, 1]
/-- … and 88 micro-steps later the join of the re-started call has returned -/
def rsSched2 : List Tid := rsSched1 ++ [
   1, 1, 1, 1, 1, 1, 1, 1, 1, 1, 1, 1, 1, 1, 1, 1, 1, 1, 1, 1, 1, 1, 1, 1, 1, 1, 1, 1, 1, 1, 1, 1, 1, 1, 1, 1, 2, 2, 2, 2,
   2, 2, 2, 2, 2, 2, 2, 2, 2, 2, 2, 2, 2, 2, 2, 2, 2, 2, 2, 2, 2, 2, 2, 2, 2, 2, 2, 2, 2, 2, 2, 2, 2, 2, 2, 2, 2, 2, 2, 1,
   1, 1, 1, 1, 1, 1, 1, 1]

def rsCheck1 : Bool :=
  match runSchedH (State.init rsCfg) [] rsSched1 with
  | some (s, h) => (s.futs 9).joinable == false && (s.futs 9).curCall == some 0 && (s.futs 9).state == 3 && abortSince 9 h
  | none => false
def rsCheck2 : Bool :=
  match runSchedH (State.init rsCfg) [] rsSched2 with
  | some (s, h) => (s.futs 9).joinable == false && (s.futs 9).curCall == some 1 && (s.futs 9).state == 2 && !abortSince 9 h &&
      h.contains (.abortCalled 9) && (h.filter (· == .armed 9)).length == 2
  | none => false

theorem rsCheck1_true : rsCheck1 = true := by decide +kernel
theorem rsCheck2_true : rsCheck2 = true := by decide +kernel

theorem rsCfg_wellFormed : rsCfg.WellFormed := by
  constructor
  · intro i j si sj hi hj hij
    rcases i with _ | i <;> rcases j with _ | j <;> simp [rsCfg] at hi hj
    exact absurd rfl hij
  · decide

/-- **`restart_history_witness`** — the hypotheses of `flags_after_join_across_restarts` are met by a run over a RESTART: the first call
    of `g1` is aborted (state 3 after its join, an `abort()` since its start), the object is started again (armed twice), and after
    the second join the state is "finished" and `abortSince` is false although the history contains an `abort()` of the same object. -/
theorem restart_history_witness :
    (∃ s h, ReachH rsCfg s h ∧ (s.futs 9).joinable = false ∧ (s.futs 9).curCall = some 0 ∧ (s.futs 9).state = 3 ∧
        abortSince 9 h = true) ∧
    (∃ s h, ReachH rsCfg s h ∧ (s.futs 9).joinable = false ∧ (s.futs 9).curCall = some 1 ∧ (s.futs 9).state = 2 ∧
        abortSince 9 h = false ∧ FlagEv.abortCalled 9 ∈ h ∧ (h.filter (· == .armed 9)).length = 2) := by
  constructor
  · have h := rsCheck1_true
    simp only [rsCheck1] at h
    split at h
    · next s hh hs =>
      simp only [Bool.and_eq_true, beq_iff_eq] at h
      exact ⟨s, hh, runSchedH_reach ReachH.init hs, h.1.1.1, h.1.1.2, h.1.2, h.2⟩
    · cases h
  · have h := rsCheck2_true
    simp only [rsCheck2] at h
    split at h
    · next s hh hs =>
      simp only [Bool.and_eq_true, beq_iff_eq, Bool.not_eq_true', List.contains_iff_mem] at h
      exact ⟨s, hh, runSchedH_reach ReachH.init hs, h.1.1.1.1.1, h.1.1.1.1.2, h.1.1.1.2, h.1.1.2, h.1.2, h.2⟩
    · cases h

end Nstd.Future.C10
