/-
  Completion handshake of a Future, part 8: steps that change only the top frame of the stepping thread.
-/
import Nstd.Future.Handshake7
set_option linter.unusedSimpArgs false
set_option linter.unusedVariables false
namespace Nstd.Future

theorem afterB_role {ev : Nat → Option CallRec} {f : Nat} {b : Frame} (h : AfterB ev f b) :
    roleOf ev b = some (.after, f) := by
  cases b <;> simp only [AfterB] at h <;>
    first
      | exact h.elim
      | (subst h; rfl)
      | (obtain ⟨r, h1, h2⟩ := h; simp only [roleOf, h1, Option.map_some, h2])

theorem obl_transfer {s s' : State} {k : RK} {f : Nat}
    (hjn : jn s' f = jn s f) (hcur : cur s' f = cur s f) (hsg : sg s' f = sg s f)
    (hcm : ∀ c, s.completed c = true → s'.completed c = true)
    (hnp : NoPassed s f → NoPassed s' f ∨ sg s f = true) (h : Obl s k f) : Obl s' k f := by
  cases k with
  | after => simp only [Obl] at h ⊢; rw [hjn]; exact h
  | passed => exact doneCur_mono hcur hcm h
  | rstDone => exact ⟨doneCur_mono hcur hcm h.1, by rw [hsg]; exact h.2⟩
  | exec =>
    obtain ⟨h1, h2, h3, h4⟩ := h
    refine ⟨by rw [hjn]; exact h1, by rw [hsg]; exact h2, ?_, doneCur_mono hcur hcm h4⟩
    rcases hnp h3 with h5 | h5
    · exact h5
    · rw [h2] at h5; cases h5

theorem hs_toponly {s s' : State} {t : Tid} {th th' : Thread} {fr : Frame} (hH : HsInv s)
    (hO : Others s s' t) (hth : s.threads t = some th) (hfr : th.stack.head? = some fr)
    (hth' : s'.threads t = some th')
    (hjn : ∀ f, jn s' f = jn s f) (hcur : ∀ f, cur s' f = cur s f) (hsg : ∀ f, sg s' f = sg s f)
    (hcompl : s'.completed = s.completed) (hev : s'.everCalls = s.everCalls)
    (hpre : ∀ c, (∃ x ∈ th'.stack, hsPreArm c x = true) ↔ (∃ x ∈ th.stack, hsPreArm c x = true))
    (hnew : ∀ x, th'.stack.head? = some x → ∀ k f, roleOf s.everCalls x = some (k, f) →
        Obl s k f ∧ (k = .exec → roleOf s.everCalls fr = some (.exec, f)) ∧
        ((k = .passed ∨ k = .rstDone) →
          (roleOf s.everCalls fr = some (.passed, f) ∨ roleOf s.everCalls fr = some (.rstDone, f)) ∨ sg s f = true)) :
    HsInv s' := by
  have hnp : ∀ f, NoPassed s f → NoPassed s' f ∨ sg s f = true := by
    intro f hn
    cases hs : sg s f with
    | true => exact Or.inr rfl
    | false =>
      left
      refine noPassed_keep hO hth' (fun u x k f _ h1 _ => by rw [← hev]; exact h1) ?_ hn
      intro x hx
      rw [hev]
      constructor
      · intro hr
        rcases (hnew x hx _ _ hr).2.2 (Or.inl rfl) with h1 | h1
        · rcases h1 with h1 | h1
          · exact (hn t).1 ⟨fr, ⟨th, hth, hfr⟩, h1⟩
          · exact (hn t).2 ⟨fr, ⟨th, hth, hfr⟩, h1⟩
        · rw [hs] at h1; cases h1
      · intro hr
        rcases (hnew x hx _ _ hr).2.2 (Or.inr rfl) with h1 | h1
        · rcases h1 with h1 | h1
          · exact (hn t).1 ⟨fr, ⟨th, hth, hfr⟩, h1⟩
          · exact (hn t).2 ⟨fr, ⟨th, hth, hfr⟩, h1⟩
        · rw [hs] at h1; cases h1
  apply hs_generic (t := t) none hH
  · intro f _; exact hjn f
  · intro f _; exact hcur f
  · intro f _; exact hsg f
  · intro c hc; rw [hcompl]; exact hc
  · intro c r hc; rw [hev] at hc; exact Or.inl hc
  · intro u hu k f hr; exact role_other_eq hO hev hu hr
  · intro c r _ _ hp; exact preArmed_fwd hO hth hth' (hpre c).mpr hp
  · intro c hp; rw [hcompl]; exact hH.c0 c (preArmed_bwd hO hth hth' (hpre c).mp hp)
  · intro k f hr
    obtain ⟨x, h1, h2⟩ := role_self hth' hr
    rw [hev] at h2
    obtain ⟨h3, h4, _⟩ := hnew x h1 k f h2
    refine ⟨obl_transfer (hjn f) (hcur f) (hsg f) (fun c hc => by rw [hcompl]; exact hc) (hnp f) h3, ?_⟩
    intro hk v hv hrv
    exact hv (hH.uniq v t f hrv ⟨fr, ⟨th, hth, hfr⟩, h4 hk⟩)
  · intro f _; exact hnp f
  · intro f c r h; cases h
  · intro f h; cases h
  · intro f h; cases h
  · intro f h; cases h
  · intro f h; cases h

end Nstd.Future
