/-
  Shutdown side of deadlock freedom, part 5: towards the EQUALITY form of the counting invariant.
  Sharper stack side conditions (`LseCB`: `tExit` is a control frame; `LsePayOk`: a push carries the terminate job
  IFF it is called from `runRetAfter`/`dChk1`/`dChk2`, jobs handed to `run` are `some c`) and the exact effect of one
  micro-step of a non-ring frame on the weights (`lseShapeN`).
-/
import Nstd.Future.LiveShutdown3
set_option linter.unusedSimpArgs false
set_option linter.unusedVariables false
namespace Nstd.Future.LS

/-! ### sharper side conditions -/

def lseC (f : Frame) : Bool := lsC f || (match f with | .tExit => true | _ => false)

def LseCB : List Frame → Prop
  | [] => True
  | a :: l => (lseC a = true → LsAllB l) ∧ LseCB l
theorem lseCB_nil : LseCB [] := trivial
theorem lseCB_cons {a : Frame} {l : List Frame} : LseCB (a :: l) ↔ (lseC a = true → LsAllB l) ∧ LseCB l := Iff.rfl

def lsePayC (pc : RingPc Job) : Option Frame → Bool
  | some c => LW.isPopPc pc || (lsRestr c == lsNonePc pc)
  | none => true

def lsePadj : Frame → Option Frame → Prop
  | .ring pc, o => lsePayC pc o = true
  | .runStart j, _ => j.isSome = true
  | .runChk1 j, _ => j.isSome = true
  | .runPush2 j, _ => j.isSome = true
  | .runChk2 j, _ => j.isSome = true
  | _, _ => True

def LsePayOk : List Frame → Prop
  | [] => True
  | a :: l => lsePadj a l.head? ∧ LsePayOk l
theorem lsePayOk_nil : LsePayOk [] := trivial
theorem lsePayOk_cons {a : Frame} {l : List Frame} : LsePayOk (a :: l) ↔ lsePadj a l.head? ∧ LsePayOk l := Iff.rfl

structure LseShapeD (s s' : State) (t : Tid) (th : Thread) (fr : Frame) (rest : List Frame) : Prop where
  self : ∃ th', s'.threads t = some th' ∧
      (LseCB (fr :: rest) → LseCB th'.stack) ∧
      (LsePayOk (fr :: rest) → LsePayOk th'.stack)

set_option maxHeartbeats 8000000 in
theorem lseShapeD (s : State) (t : Tid) (th : Thread) (fr : Frame) (rest : List Frame)
    (hth : s.threads t = some th) (hst : th.stack = fr :: rest) (hnr : lsRingOf fr = none)
    (hrep : s.cfg.repaired = true) :
    LseShapeD s (stepFrame s t th fr).1 t th fr rest := by
  cases fr
  case ring pc => cases hnr
  all_goals
    simp only [stepFrame]
    repeat' split
  all_goals
    constructor
    simp only [setThread, setSig, setPool, setFut, withFault, destroySig, upd_same, hth, Option.some.injEq, exists_eq_left']
    refine ⟨?_, ?_⟩
    · intro hb
      simp only [lseCB_cons, lseC, lsC] at hb
      simp [Thread.cont, hst, hrep, lseCB_cons, lseCB_nil, lsAllB_cons, lsAllB_nil, lseC, lsC, lsB, hb]
      try (simp_all; done)
    · intro hb
      simp only [lsePayOk_cons, lsePadj] at hb
      simp [Thread.cont, hst, hrep, lsePayOk_cons, lsePayOk_nil, lsePadj, lsePayC, lsRestr, lsNonePc, LW.isPopPc, hb]
      try (simp_all; done)

/-! ### the exact numbers -/

/-- number of terminate jobs the destructor will have queued at the end of its current loop iteration -/
def lsM2 : Frame → Nat
  | .dPush i => i
  | .dChk1 i | .dPush2 i | .dChk2 i | .dSet i => i + 1
  | _ => 0

def lsRA : Frame → Nat
  | .runRetAfter => 1
  | _ => 0

def lsM2At (s : State) (t : Tid) : Nat := match s.threads t with | some th => lsum lsM2 th.stack | none => 0
def lsRaAt (s : State) (t : Tid) : Nat := match s.threads t with | some th => lsum lsRA th.stack | none => 0
def lsMinT (s : State) : Nat := match s.pool with | some p => p.minT | none => 0

theorem setFsState_minT (p : Pool) (fs v : Nat) : (setFsState p fs v).minT = p.minT := by
  unfold setFsState; split <;> rfl

theorem lsDJ_base {l : List Frame} (h : LsAllB l) : lsum lsDJ l = 0 := by
  induction l with
  | nil => rfl
  | cons a l ih =>
    rw [lsAllB_cons] at h
    have : lsDJ a = 0 := by cases a <;> first | rfl | (have := h.1; simp [lsB] at this)
    simp only [lsum_cons, this, ih h.2]

theorem lsM2_base {l : List Frame} (h : LsAllB l) : lsum lsM2 l = 0 := by
  induction l with
  | nil => rfl
  | cons a l ih =>
    rw [lsAllB_cons] at h
    have : lsM2 a = 0 := by cases a <;> first | rfl | (have := h.1; simp [lsB] at this)
    simp only [lsum_cons, this, ih h.2]

theorem lsRA_base {l : List Frame} (h : LsAllB l) : lsum lsRA l = 0 := by
  induction l with
  | nil => rfl
  | cons a l ih =>
    rw [lsAllB_cons] at h
    have : lsRA a = 0 := by cases a <;> first | rfl | (have := h.1; simp [lsB] at this)
    simp only [lsum_cons, this, ih h.2]

structure LseShapeN (s s' : State) (t : Tid) (fr : Frame) : Prop where
  e1 : ∀ log, s'.pool.isSome = true → (1 ≤ lsDjAt s' t → 1 ≤ lsDjAt s t) →
        lsAt log s' t + lsSpawnW fr + lsTc s = lsAt log s t + lsTc s'
  e2 : ∀ log, s'.pool.isSome = true → ncFr fr = true → (1 ≤ lsDjAt s' t → 1 ≤ lsDjAt s t) →
        lsAt log s' t + lsSpawnW fr = lsAt log s t ∧ lsTc s' = lsTc s
  dk : s'.pool.isSome = true → 1 ≤ lsDjAt s t → 1 ≤ lsDjAt s' t
  dd : ∀ log, s'.pool.isSome = true → 1 ≤ lsDjAt s' t → 1 ≤ lsDjAt s t ∨
        (bottomFr fr = true ∧ lsSpawnW fr = 0 ∧ lsTc s' = lsTc s ∧
          (lsM2At s t ≤ lsTc s → lsAt log s' t + lsTc s = lsAt log s t))

set_option maxHeartbeats 32000000 in
theorem lseShapeN (s : State) (t : Tid) (th : Thread) (fr : Frame) (rest : List Frame)
    (hth : s.threads t = some th) (hst : th.stack = fr :: rest) (hnr : lsRingOf fr = none)
    (hrep : s.cfg.repaired = true) (hni : fr ≠ .mInit)
    (hnc : ∀ c, fr = .cRdTp2 c → s.tp = true)
    (hcb : lseC fr = true → LsAllB rest)
    (htc : fr = .runRetAfter → th.retB = true → 0 < lsTc s) :
    LseShapeN s (stepFrame s t th fr).1 t fr := by
  have hR : lseC fr = true → lsum lsRA rest = 0 := fun h => lsRA_base (hcb h)
  have hD : lseC fr = true → lsum lsDJ rest = 0 := fun h => lsDJ_base (hcb h)
  have hM : lseC fr = true → lsum lsM2 rest = 0 := fun h => lsM2_base (hcb h)
  cases fr
  case ring pc => cases hnr
  case mInit => exact absurd rfl hni
  case cRdTp2 c =>
    have htp := hnc c rfl
    rcases hp : s.pool with _ | p
    all_goals
      simp only [stepFrame, htp, if_true]
      constructor
      · intro log
        simp [lsDjAt, lsDJ, lsAt, lsVal, lsW, lsTc, hp, hth, hst, setThread, upd_same, Thread.cont, lsFr, lsRingOf, lsSpawnW]
      · intro log
        simp [lsDjAt, lsDJ, lsAt, lsVal, lsW, lsTc, hp, hth, hst, setThread, upd_same, Thread.cont, lsFr, lsRingOf, lsSpawnW, ncFr]
      · simp [lsDjAt, lsDJ, hp, hth, hst, setThread, upd_same, Thread.cont]
      · intro log
        simp [lsDjAt, lsDJ, lsAt, lsVal, lsW, lsTc, hp, hth, hst, setThread, upd_same, Thread.cont, lsFr, lsRingOf, lsSpawnW]
        try (intro h; exact Or.inl h)
  case tExit =>
    have hB := hcb (by simp [lseC])
    have h0 : ∀ rb rj log, lsStk rb rj log none rest = 0 := fun rb rj log => lsStk_base rb rj log none hB
    have h1 := lsDJ_base hB
    have h2 := lsRA_base hB
    rcases hp : s.pool with _ | p
    all_goals
      simp only [stepFrame]
      constructor
      · intro log
        simp [lsDjAt, lsDJ, lsAt, lsVal, lsW, lsTc, hp, hth, hst, setThread, upd_same, lsFr, lsRingOf, lsSpawnW, h0]
      · intro log
        simp [lsDjAt, lsDJ, lsAt, lsVal, lsW, lsTc, hp, hth, hst, setThread, upd_same, lsFr, lsRingOf, lsSpawnW, h0]
      · simp [lsDjAt, lsDJ, hp, hth, hst, setThread, upd_same, h1]
      · intro log
        simp [lsDjAt, lsDJ, lsAt, lsVal, lsW, lsTc, hp, hth, hst, setThread, upd_same, lsFr, lsRingOf, lsSpawnW]
  all_goals
    rcases hp : s.pool with _ | p
  all_goals
    simp only [stepFrame, hp]
    repeat' split
  all_goals
    try simp [lseC, lsC] at hR hD hM
  all_goals
    try simp [lsTc, hp] at htc
  all_goals
    constructor
    · intro log
      simp [lsDjAt, lsDJ, lsAt, lsVal, lsW, lsTc, hp, hth, hst, hrep, setThread, setSig, setPool, setFut, withFault, destroySig,
        upd_same, Thread.cont, lsFr, lsRingOf, lsSpawnW, lsCapt, lsServ, lsCaptPc, lsServPc, setFsState_tc, *]
      try grind
    · intro log
      simp [lsDjAt, lsDJ, lsAt, lsVal, lsW, lsTc, hp, hth, hst, hrep, setThread, setSig, setPool, setFut, withFault,
        destroySig, upd_same, Thread.cont, lsFr, lsRingOf, lsSpawnW, ncFr, lsCapt, lsServ, lsCaptPc, lsServPc,
        setFsState_tc, *]
      try grind
    · simp [lsDjAt, lsDJ, hp, hth, hst, hrep, setThread, setSig, setPool, setFut, withFault, destroySig, upd_same,
        Thread.cont]
      try grind
    · intro log
      simp [lsDjAt, lsDJ, lsM2At, lsM2, bottomFr, lsAt, lsVal, lsW, lsTc, hp, hth, hst, hrep, setThread, setSig, setPool,
        setFut, withFault, destroySig, upd_same, Thread.cont, lsFr, lsRingOf, lsSpawnW, lsCapt, lsServ, lsCaptPc,
        lsServPc, setFsState_tc, *]
      try grind

structure LseShapeM (s s' : State) (t : Tid) (fr : Frame) : Prop where
  m2 : s'.pool.isSome = true → (ncFr fr = true → lsM2At s t ≤ lsTc s → lsM2At s' t ≤ lsTc s') ∧
        (ncFr fr = false → lsM2At s' t ≤ lsM2At s t)
  nth0 : s'.pool.isSome = true → s'.nthreads = s.nthreads → lsSpawnW fr = 0
  ra : s'.pool.isSome = true → 1 ≤ lsRaAt s' t →
        lsMinT s' < lsTc s' ∨ (1 ≤ lsRaAt s t ∧ lsTc s ≤ lsTc s')
  dec : s'.pool.isSome = true → (lsTc s' < lsTc s → fr = .runRetAfter) ∧ lsMinT s' = lsMinT s


set_option maxHeartbeats 32000000 in
theorem lseShapeM (s : State) (t : Tid) (th : Thread) (fr : Frame) (rest : List Frame)
    (hth : s.threads t = some th) (hst : th.stack = fr :: rest) (hnr : lsRingOf fr = none)
    (hrep : s.cfg.repaired = true) (hni : fr ≠ .mInit)
    (hnc : ∀ c, fr = .cRdTp2 c → s.tp = true)
    (hcb : lseC fr = true → LsAllB rest)
    (htc : fr = .runRetAfter → th.retB = true → 0 < lsTc s) :
    LseShapeM s (stepFrame s t th fr).1 t fr := by
  have hR : lseC fr = true → lsum lsRA rest = 0 := fun h => lsRA_base (hcb h)
  have hD : lseC fr = true → lsum lsDJ rest = 0 := fun h => lsDJ_base (hcb h)
  have hM : lseC fr = true → lsum lsM2 rest = 0 := fun h => lsM2_base (hcb h)
  cases fr
  case ring pc => cases hnr
  case mInit => exact absurd rfl hni
  case cRdTp2 c =>
    have htp := hnc c rfl
    rcases hp : s.pool with _ | p
    all_goals
      simp only [stepFrame, htp, if_true]
      constructor
      · simp [ncFr, lsM2At, lsM2, hp, hth, hst, setThread, upd_same, Thread.cont]
      · simp [lsSpawnW]
      · simp [lsRaAt, lsRA, lsTc, lsMinT, hp, hth, hst, setThread, upd_same, Thread.cont]
        try (intro h; exact Or.inr h)
      · simp [lsTc, lsMinT, hp, setThread]
  case tExit =>
    have hB := hcb (by simp [lseC])
    have h0 : ∀ rb rj log, lsStk rb rj log none rest = 0 := fun rb rj log => lsStk_base rb rj log none hB
    have h1 := lsDJ_base hB
    have h2 := lsRA_base hB
    rcases hp : s.pool with _ | p
    all_goals
      simp only [stepFrame]
      constructor
      · simp [lsM2At, lsM2, lsTc, hp, hth, hst, setThread, upd_same]
      · simp [lsSpawnW]
      · simp [lsRaAt, lsRA, lsTc, lsMinT, hp, hth, hst, setThread, upd_same]
      · simp [lsTc, lsMinT, hp, setThread]
  all_goals
    rcases hp : s.pool with _ | p
  all_goals
    simp only [stepFrame, hp]
    repeat' split
  all_goals
    try simp [lseC, lsC] at hR hD hM
  all_goals
    try simp [lsTc, hp] at htc
  all_goals
    constructor
    · simp [lsM2At, lsM2, ncFr, lsTc, hp, hth, hst, hrep, setThread, setSig, setPool, setFut, withFault, destroySig,
        upd_same, Thread.cont, setFsState_tc, *]
      try grind
    · simp [lsSpawnW, hp, setThread, setSig, setPool, setFut, withFault, destroySig]
    · simp [lsRaAt, lsRA, lsTc, lsMinT, hp, hth, hst, hrep, setThread, setSig, setPool, setFut, withFault, destroySig,
        upd_same, Thread.cont, setFsState_tc, setFsState_minT, *]
      try grind
    · simp [lsTc, lsMinT, hp, setThread, setSig, setPool, setFut, withFault, destroySig, setFsState_tc,
        setFsState_minT, *]
      try grind


end Nstd.Future.LS
