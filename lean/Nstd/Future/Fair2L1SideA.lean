/-
  Field `popWin` of `L1.Side` (Fair2L1Def.lean): a thread at `popCas h` while the ring head is still `h` (its CAS
  will win) takes a queued ticket, `h < tail`.  Transfer of `RingInv` through the simulation `reach_ring`.
-/
import Nstd.Future.Fair2L1Def
import Nstd.Future.SimRing
import Nstd.Future.RingLemmas
set_option linter.unusedVariables false
namespace Nstd.Future.L1
open Nstd.Future

/-- abstract form: in a ring state satisfying `RingInv`, a `popCas h` with `head = h` has `h < tail` -/
theorem saPopWin_inv {α : Type} {cap : Nat} (hc : 0 < cap) {r : RingSys α} (inv : RingInv cap r)
    {t : Nat} {h : Nat} (hpc : r.pcs t = some (.popCas h)) (hh : r.ring.head = h) : h < r.ring.tail := by
  have hi : h % cap < cap := Nat.mod_lt _ hc
  have hlt := inv.slotLt _ hi
  rcases inv.pcPopCas t h hpc with hs | hs
  · rcases inv.slotHead _ hi with hp | hp
    · rcases hp with ⟨h1, _⟩ | ⟨y, h1, h2⟩
      · rw [hs] at h1; cases h1
      · rw [hs] at h1; cases h1; omega
    · have hp' := hp
      rw [hs] at hp'
      have he : h = (r.ring.slots (h % cap)).tailT := Option.some.inj hp'
      have := (inv.slotPub _ hi hp).1
      omega
  · omega

theorem popWin_reach {cfg : Config} {s : State} (hr : Reach cfg s) :
    ∀ p t th h rest, s.pool = some p → s.threads t = some th → th.stack = .ring (.popCas h) :: rest →
      p.ring.head = h → h < p.ring.tail := by
  intro p t th h rest hp hth hst hh
  have inv := ringInv_of_reach (capOf_pos cfg) (reach_ring hr)
  have hpc : (proj s).pcs t = some (.popCas h) := by
    rw [full_pcs hp hth]; simp only [ringPcOf, hst]
  have hring : (proj s).ring = p.ring := full_ring hp
  have := saPopWin_inv (capOf_pos cfg) inv hpc (by rw [hring]; exact hh)
  rw [hring] at this; exact this

end Nstd.Future.L1
