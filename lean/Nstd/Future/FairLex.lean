/-
  Packaging of the proved components into the interface for the remaining work: a BUDGET.

  `progresses_wf_of_budget`: let `B : State → Nat` never increase along micro-steps and strictly decrease on every
  state-changing micro-step that is (i) a step of one of the ten cross-thread loop heads `FR.isBack`, (ii) a thread
  creation (`FR.spawns`: `mSpawn`, `runSpStart`), or (iii) moves `_tail`/`_head` of the ring (winning CAS, pool
  creation/destruction).  Then the progress relation is well-founded — the measure is the lexicographic pair
  (`B s`, Σ over threads of `frameDist s t`) — hence every weakly fair run terminates in a complete success state
  (`fair_runs_terminate_of_budget`, `join_eventually_of_budget`).
-/
import Nstd.Future.FairBudget
import Nstd.Future.FairCore
set_option linter.unusedVariables false
set_option linter.unusedSimpArgs false
namespace Nstd.Future.FR

/-- frames whose micro-step creates a thread -/
def spawns : Frame → Bool
  | .mSpawn _ | .runSpStart _ => true
  | _ => false

set_option maxHeartbeats 4000000 in
theorem flNth (s : State) (t : Tid) (th : Thread) (fr : Frame) (hk : spawns fr = false) :
    (stepFrame s t th fr).1.nthreads = s.nthreads := by
  cases fr
  case ring pc =>
    cases hp : s.pool with
    | none => simp only [stepFrame, hp]; rfl
    | some p =>
      simp only [stepFrame, hp]
      rcases hrs : ringStep p.ring pc with ⟨r', res⟩
      cases res with
      | cont pc' => rfl
      | pushed ok => rfl
      | popped o => rcases o with _ | _ | j <;> rfl
  all_goals first | (simp [spawns] at hk; done) | skip
  all_goals
    simp only [stepFrame]
    repeat' split
  all_goals first
    | rfl
    | (simp [setThread, setSig, setPool, setFut, withFault, destroySig]; done)

end Nstd.Future.FR

namespace Nstd.Future
open FR

variable {cfg : Config} {σ : Nat → Tid} {run : Nat → State}

/-- total frame distance -/
def totalDist (s : State) : Nat := tsum s.nthreads (frameDist s)

/-- a step that is no loop head, creates no thread and does not move the ring counters decreases the total
    frame distance -/
theorem quiet_step_decreases_total {s s' : State} {t : Tid} {o : List String}
    (hrep : cfg.repaired = true) (hr : Reach cfg s) (h : step s t = some (s', o))
    {th : Thread} {fr : Frame} {rest : List Frame} (hth : s.threads t = some th) (hst : th.stack = fr :: rest)
    (hb : FR.isBack fr = false) (hsp : FR.spawns fr = false)
    (hT : FR.rtl s' = FR.rtl s) (hH : FR.rhd s' = FR.rhd s) : totalDist s' < totalDist s := by
  have he := step_eq_stepFrame h hth hst
  have hn : s'.nthreads = s.nthreads := by rw [he]; exact flNth s t th fr hsp
  have ht : t < s.nthreads := thread_lt hr hth
  have hown := straight_line_step_decreases hrep hr h hth hst hb hT hH
  have hoth : ∀ u, u < s.nthreads → u ≠ t → frameDist s' u = frameDist s u :=
    fun u hu hne => frameDist_others hr h hne (Nat.ne_of_lt hu) hT hH
  have := tsum_upd (f := frameDist s) (g := frameDist s') ht hoth
  simp only [totalDist, hn]
  omega

/-- THE INTERFACE FOR THE REMAINING WORK: a budget that pays for the loop heads, the thread creations and the
    moves of the ring counters makes the progress relation well-founded -/
theorem progresses_wf_of_budget (hrep : cfg.repaired = true) (B : State → Nat)
    (hle : ∀ (s s' : State) (t : Tid) (o : List String), Reach cfg s → step s t = some (s', o) → B s' ≤ B s)
    (hlt : ∀ (s s' : State) (t : Tid) (o : List String) (th : Thread) (fr : Frame) (rest : List Frame),
      Reach cfg s → step s t = some (s', o) → s' ≠ s → s.threads t = some th → th.stack = fr :: rest →
      (FR.isBack fr = true ∨ FR.spawns fr = true ∨ FR.rtl s' ≠ FR.rtl s ∨ FR.rhd s' ≠ FR.rhd s) → B s' < B s) :
    WellFounded (Progresses cfg) := by
  have hwf : WellFounded (Prod.Lex Nat.lt Nat.lt) := (Prod.lex Nat.lt_wfRel Nat.lt_wfRel).wf
  refine Subrelation.wf ?_ (InvImage.wf (fun s => (B s, totalDist s)) hwf)
  intro s' s ⟨hr, hne, t, o, hs⟩
  simp only [InvImage]
  rcases hth : s.threads t with _ | th
  · simp [step, hth] at hs
  · rcases hst : th.stack with _ | ⟨fr, rest⟩
    · simp [step, hth, hst] at hs
    · by_cases hD : FR.isBack fr = true ∨ FR.spawns fr = true ∨ FR.rtl s' ≠ FR.rtl s ∨ FR.rhd s' ≠ FR.rhd s
      · exact Prod.Lex.left _ _ (hlt s s' t o th fr rest hr hs hne hth hst hD)
      · have hb : FR.isBack fr = false := by
          cases hx : FR.isBack fr
          · rfl
          · exact absurd (Or.inl hx) hD
        have hsp : FR.spawns fr = false := by
          cases hx : FR.spawns fr
          · rfl
          · exact absurd (Or.inr (Or.inl hx)) hD
        have hT : FR.rtl s' = FR.rtl s := by
          apply Classical.byContradiction; intro hx; exact hD (Or.inr (Or.inr (Or.inl hx)))
        have hH : FR.rhd s' = FR.rhd s := by
          apply Classical.byContradiction; intro hx; exact hD (Or.inr (Or.inr (Or.inr hx)))
        have htot := quiet_step_decreases_total hrep hr hs hth hst hb hsp hT hH
        rcases Nat.lt_or_eq_of_le (hle s s' t o hr hs) with hl | heq
        · exact Prod.Lex.left _ _ hl
        · rw [heq]
          exact Prod.Lex.right _ htot

theorem fair_runs_terminate_of_budget (hrep : cfg.repaired = true) (B : State → Nat)
    (hle : ∀ (s s' : State) (t : Tid) (o : List String), Reach cfg s → step s t = some (s', o) → B s' ≤ B s)
    (hlt : ∀ (s s' : State) (t : Tid) (o : List String) (th : Thread) (fr : Frame) (rest : List Frame),
      Reach cfg s → step s t = some (s', o) → s' ≠ s → s.threads t = some th → th.stack = fr :: rest →
      (FR.isBack fr = true ∨ FR.spawns fr = true ∨ FR.rtl s' ≠ FR.rtl s ∨ FR.rhd s' ≠ FR.rhd s) → B s' < B s)
    (hf : FairRun cfg σ run) : ∃ n, ∀ t, enabled (run n) t = false :=
  fair_runs_terminate_of_wf (progresses_wf_of_budget hrep B hle hlt) hf

theorem join_eventually_of_budget (hrep : cfg.repaired = true) (hwf : cfg.WellFormed) (B : State → Nat)
    (hle : ∀ (s s' : State) (t : Tid) (o : List String), Reach cfg s → step s t = some (s', o) → B s' ≤ B s)
    (hlt : ∀ (s s' : State) (t : Tid) (o : List String) (th : Thread) (fr : Frame) (rest : List Frame),
      Reach cfg s → step s t = some (s', o) → s' ≠ s → s.threads t = some th → th.stack = fr :: rest →
      (FR.isBack fr = true ∨ FR.spawns fr = true ∨ FR.rtl s' ≠ FR.rtl s ∨ FR.rhd s' ≠ FR.rhd s) → B s' < B s)
    (hf : FairRun cfg σ run) :
    ∃ n, (∀ t th, (run n).threads t = some th → th.finished = true) ∧
      (∀ c, c < (run n).nextCall →
        (run n).completed c = true ∧ (run n).execCount c = 1 ∧ (run n).freeCount c = 1) :=
  join_eventually_of_wf (progresses_wf_of_budget hrep B hle hlt) hrep hwf hf

end Nstd.Future
