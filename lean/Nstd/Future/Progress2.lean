/-
  Progress lemmas of the Signal layer, part 2: the invariants of the Signal layer over the abstraction
  (top frames, signals) of `Progress1.lean`, and their transfer to every reachable state of the full model.
-/
import Nstd.Future.Progress1
set_option linter.unusedSimpArgs false
namespace Nstd.Future

structure AStep (rep : Bool) (t : Tid) (top top' : Tid → Option Frame) (sg sg' : Nat → SigSt) : Prop where
  others : ∀ u, u ≠ t → top' u = top u ∨ (top u = none ∧ top' u = some .tStart)
  self : SelfStep rep t sg (top t) (top' t) sg'

structure AInvA (rep : Bool) (top : Tid → Option Frame) (sg : Nat → SigSt) : Prop where
  own : ∀ σ o, (sg σ).owner = some o → ∃ fr, top o = some fr ∧ critF rep σ fr = true
  wait : ∀ σ u, u ∈ (sg σ).waiters → top u = some (.sWaitCwake σ)
  nodup : ∀ σ, (sg σ).waiters.Nodup

/-- the invariants of ONE signal `σ` that rely on mutual exclusion, hence on "σ is not destroyed under the feet of
    its users": a thread inside the critical section is the owner; a thread about to sleep has seen the flag unset and
    it still is; sleepers on a set flag have a broadcast pending -/
structure BInv (rep : Bool) (top : Tid → Option Frame) (sg : Nat → SigSt) (σ : Nat) : Prop where
  excl : ∀ u fr, top u = some fr → critF rep σ fr = true → (sg σ).owner = some u
  chk : ∀ u, top u = some (.sWaitCwait σ) → (sg σ).signaled = false
  pend : (sg σ).waiters ≠ [] → (sg σ).signaled = true → ∃ u fr, top u = some fr ∧ pendB rep σ fr = true

/-- the step of this frame destroys signal `σ` (`~Future` re-creates it, `~ThreadPool` destroys the pool signals) -/
def destroys : Frame → Nat → Bool
  | .destroyF f, σ => f + 2 == σ
  | .dFin, σ => decide (σ < 2)
  | _, _ => false

def AInvB (rep : Bool) (top : Tid → Option Frame) (sg : Nat → SigSt) : Prop :=
  ∀ σ, Pristine (sg σ) → BInv rep top sg σ

theorem pendB_touch {rep : Bool} {σ : Nat} {fr : Frame} (h : pendB rep σ fr = true) : touch fr = true := by
  cases fr <;> first | rfl | (simp [pendB] at h)

theorem critF_touch {rep : Bool} {σ : Nat} {fr : Frame} (h : critF rep σ fr = true) : touch fr = true := by
  cases fr <;> first | rfl | (simp [critF] at h)

theorem critF_inner {rep : Bool} {σ : Nat} {fr : Frame} (h : critF rep σ fr = true) : inner fr = true := by
  cases fr <;> first | rfl | (simp [critF] at h)

theorem own_step {rep : Bool} {t : Tid} {top top' : Tid → Option Frame} {sg sg' : Nat → SigSt}
    (hI : AInvA rep top sg) (hS : AStep rep t top top' sg sg') :
    ∀ σ o, (sg' σ).owner = some o → ∃ fr, top' o = some fr ∧ critF rep σ fr = true := by
  obtain ⟨hoth, hself⟩ := hS
  have keep : ∀ u fr, u ≠ t → top u = some fr → top' u = some fr := by
    intro u fr hu h
    rcases hoth u hu with h1 | ⟨h1, _⟩
    · rw [h1, h]
    · rw [h] at h1; cases h1
  have back : ∀ u fr, u ≠ t → top' u = some fr → top u = some fr ∨ fr = .tStart := by
    intro u fr hu h
    rcases hoth u hu with h1 | ⟨_, h1⟩
    · rw [← h1, h]; exact Or.inl rfl
    · rw [h] at h1; injection h1 with h1; exact Or.inr h1
  generalize hto : top t = ot at hself
  generalize hto' : top' t = ot' at hself
  have hown := hI.own
  have hwait := hI.wait
  have hnodup := hI.nodup
  cases hself <;> (try simp only [LockPair] at *)
  all_goals grind [critF, upd, Popped, critF_touch, critF_inner]

theorem wait_step {rep : Bool} {t : Tid} {top top' : Tid → Option Frame} {sg sg' : Nat → SigSt}
    (hI : AInvA rep top sg) (hS : AStep rep t top top' sg sg') :
    ∀ σ u, u ∈ (sg' σ).waiters → top' u = some (.sWaitCwake σ) := by
  obtain ⟨hoth, hself⟩ := hS
  have keep : ∀ u fr, u ≠ t → top u = some fr → top' u = some fr := by
    intro u fr hu h
    rcases hoth u hu with h1 | ⟨h1, _⟩
    · rw [h1, h]
    · rw [h] at h1; cases h1
  have back : ∀ u fr, u ≠ t → top' u = some fr → top u = some fr ∨ fr = .tStart := by
    intro u fr hu h
    rcases hoth u hu with h1 | ⟨_, h1⟩
    · rw [← h1, h]; exact Or.inl rfl
    · rw [h] at h1; injection h1 with h1; exact Or.inr h1
  generalize hto : top t = ot at hself
  generalize hto' : top' t = ot' at hself
  have hown := hI.own
  have hwait := hI.wait
  have hnodup := hI.nodup
  cases hself <;> (try simp only [LockPair] at *)
  all_goals grind [critF, upd, Popped, critF_touch, critF_inner, touch, inner]

theorem nodup_step {rep : Bool} {t : Tid} {top top' : Tid → Option Frame} {sg sg' : Nat → SigSt}
    (hI : AInvA rep top sg) (hS : AStep rep t top top' sg sg') :
    ∀ σ, (sg' σ).waiters.Nodup := by
  obtain ⟨hoth, hself⟩ := hS
  have keep : ∀ u fr, u ≠ t → top u = some fr → top' u = some fr := by
    intro u fr hu h
    rcases hoth u hu with h1 | ⟨h1, _⟩
    · rw [h1, h]
    · rw [h] at h1; cases h1
  have back : ∀ u fr, u ≠ t → top' u = some fr → top u = some fr ∨ fr = .tStart := by
    intro u fr hu h
    rcases hoth u hu with h1 | ⟨_, h1⟩
    · rw [← h1, h]; exact Or.inl rfl
    · rw [h] at h1; injection h1 with h1; exact Or.inr h1
  generalize hto : top t = ot at hself
  generalize hto' : top' t = ot' at hself
  have hown := hI.own
  have hwait := hI.wait
  have hnodup := hI.nodup
  cases hself <;> (try simp only [LockPair] at *)
  all_goals grind [critF, upd, Popped, critF_touch, critF_inner, touch, inner]

theorem pristine_back {rep : Bool} {t : Tid} {o o' : Option Frame} {sg sg' : Nat → SigSt}
    (hself : SelfStep rep t sg o o' sg') (σ : Nat) (h : Pristine (sg' σ)) : Pristine (sg σ) := by
  cases hself
  all_goals grind [Pristine, upd]

theorem pristine_not_destroyed {rep : Bool} {t : Tid} {o o' : Option Frame} {sg sg' : Nat → SigSt}
    (hself : SelfStep rep t sg o o' sg') (σ : Nat) (h : Pristine (sg' σ)) :
    ∀ fr, o = some fr → destroys fr σ = false := by
  have hdt : ∀ fr, destroys fr σ = true → touch fr = true := by
    intro fr h; cases fr <;> first | rfl | (simp [destroys] at h)
  cases hself <;> (try simp only [LockPair] at *)
  all_goals grind [Pristine, upd, destroys]

theorem excl_step {rep : Bool} {t : Tid} {top top' : Tid → Option Frame} {sg sg' : Nat → SigSt} {σ : Nat}
    (hI : AInvA rep top sg) (hB : BInv rep top sg σ) (hS : AStep rep t top top' sg sg')
    (hnd : ∀ fr, top t = some fr → destroys fr σ = false) :
    ∀ u fr, top' u = some fr → critF rep σ fr = true → (sg' σ).owner = some u := by
  obtain ⟨hoth, hself⟩ := hS
  have keep : ∀ u fr, u ≠ t → top u = some fr → top' u = some fr := by
    intro u fr hu h
    rcases hoth u hu with h1 | ⟨h1, _⟩
    · rw [h1, h]
    · rw [h] at h1; cases h1
  have back : ∀ u fr, u ≠ t → top' u = some fr → top u = some fr ∨ fr = .tStart := by
    intro u fr hu h
    rcases hoth u hu with h1 | ⟨_, h1⟩
    · rw [← h1, h]; exact Or.inl rfl
    · rw [h] at h1; injection h1 with h1; exact Or.inr h1
  generalize hto : top t = ot at hself hnd
  generalize hto' : top' t = ot' at hself
  have hown := hI.own
  have hwait := hI.wait
  have hnodup := hI.nodup
  have hexcl := hB.excl
  have hchk := hB.chk
  have hpend := hB.pend
  cases hself <;> (try simp only [LockPair] at *)
  all_goals grind [critF, upd, Popped, critF_touch, critF_inner, touch, inner, destroys]

theorem chk_step {rep : Bool} {t : Tid} {top top' : Tid → Option Frame} {sg sg' : Nat → SigSt} {σ : Nat}
    (hI : AInvA rep top sg) (hB : BInv rep top sg σ) (hS : AStep rep t top top' sg sg')
    (hnd : ∀ fr, top t = some fr → destroys fr σ = false) :
    ∀ u, top' u = some (.sWaitCwait σ) → (sg' σ).signaled = false := by
  obtain ⟨hoth, hself⟩ := hS
  have keep : ∀ u fr, u ≠ t → top u = some fr → top' u = some fr := by
    intro u fr hu h
    rcases hoth u hu with h1 | ⟨h1, _⟩
    · rw [h1, h]
    · rw [h] at h1; cases h1
  have back : ∀ u fr, u ≠ t → top' u = some fr → top u = some fr ∨ fr = .tStart := by
    intro u fr hu h
    rcases hoth u hu with h1 | ⟨_, h1⟩
    · rw [← h1, h]; exact Or.inl rfl
    · rw [h] at h1; injection h1 with h1; exact Or.inr h1
  generalize hto : top t = ot at hself hnd
  generalize hto' : top' t = ot' at hself
  have hown := hI.own
  have hwait := hI.wait
  have hnodup := hI.nodup
  have hexcl := hB.excl
  have hchk := hB.chk
  have hpend := hB.pend
  cases hself <;> (try simp only [LockPair] at *)
  all_goals grind [critF, upd, Popped, critF_touch, critF_inner, touch, inner, destroys]

theorem ne_nil_of_filter_ne_nil {α : Type} {p : α → Bool} {l : List α} (h : l.filter p ≠ []) : l ≠ [] := by
  intro e; subst e; exact h rfl

theorem pend_step {rep : Bool} {t : Tid} {top top' : Tid → Option Frame} {sg sg' : Nat → SigSt} {σ : Nat}
    (hI : AInvA rep top sg) (hB : BInv rep top sg σ) (hS : AStep rep t top top' sg sg')
    (hnd : ∀ fr, top t = some fr → destroys fr σ = false) :
    (sg' σ).waiters ≠ [] → (sg' σ).signaled = true → ∃ u fr, top' u = some fr ∧ pendB rep σ fr = true := by
  obtain ⟨hoth, hself⟩ := hS
  have keep : ∀ u fr, u ≠ t → top u = some fr → top' u = some fr := by
    intro u fr hu h
    rcases hoth u hu with h1 | ⟨h1, _⟩
    · rw [h1, h]
    · rw [h] at h1; cases h1
  have back : ∀ u fr, u ≠ t → top' u = some fr → top u = some fr ∨ fr = .tStart := by
    intro u fr hu h
    rcases hoth u hu with h1 | ⟨_, h1⟩
    · rw [← h1, h]; exact Or.inl rfl
    · rw [h] at h1; injection h1 with h1; exact Or.inr h1
  generalize hto : top t = ot at hself hnd
  generalize hto' : top' t = ot' at hself
  have hown := hI.own
  have hwait := hI.wait
  have hnodup := hI.nodup
  have hexcl := hB.excl
  have hchk := hB.chk
  have hpend := hB.pend
  cases hself <;> (try simp only [LockPair] at *)
  case cwake σ0 =>
    intro hw hs
    by_cases hσ : σ = σ0
    · subst hσ
      simp only [upd_same] at hw hs
      obtain ⟨u, fr, h1, h2⟩ := hpend (ne_nil_of_filter_ne_nil hw) hs
      grind [pendB]
    · grind [pendB, upd]
  all_goals grind [critF, pendB, upd, Popped, critF_touch, critF_inner, pendB_touch, touch, inner, destroys]

theorem ainvA_step {rep : Bool} {t : Tid} {top top' : Tid → Option Frame} {sg sg' : Nat → SigSt}
    (hI : AInvA rep top sg) (hS : AStep rep t top top' sg sg') : AInvA rep top' sg' :=
  ⟨own_step hI hS, wait_step hI hS, nodup_step hI hS⟩

/-- the invariants of signal `σ` survive every step that does not destroy `σ` -/
theorem binv_step {rep : Bool} {t : Tid} {top top' : Tid → Option Frame} {sg sg' : Nat → SigSt} {σ : Nat}
    (hI : AInvA rep top sg) (hB : BInv rep top sg σ) (hS : AStep rep t top top' sg sg')
    (hnd : ∀ fr, top t = some fr → destroys fr σ = false) : BInv rep top' sg' σ :=
  ⟨excl_step hI hB hS hnd, chk_step hI hB hS hnd, pend_step hI hB hS hnd⟩

theorem ainvB_step {rep : Bool} {t : Tid} {top top' : Tid → Option Frame} {sg sg' : Nat → SigSt}
    (hI : AInvA rep top sg) (hB : AInvB rep top sg) (hS : AStep rep t top top' sg sg') : AInvB rep top' sg' :=
  fun σ hp => binv_step hI (hB σ (pristine_back hS.self σ hp)) hS (pristine_not_destroyed hS.self σ hp)

/-- a freshly re-created signal (`destroyF`) satisfies its invariants when no other thread is inside its critical
    section at that moment -/
theorem binv_recreated {rep : Bool} {t : Tid} {top top' : Tid → Option Frame} {sg sg' : Nat → SigSt} {f : Nat}
    (hS : AStep rep t top top' sg sg') (ht : top t = some (.destroyF f))
    (hq : ∀ u fr, u ≠ t → top u = some fr → critF rep (f + 2) fr = false) : BInv rep top' sg' (f + 2) := by
  obtain ⟨hoth, hself⟩ := hS
  have back : ∀ u fr, u ≠ t → top' u = some fr → top u = some fr ∨ fr = .tStart := by
    intro u fr hu h
    rcases hoth u hu with h1 | ⟨_, h1⟩
    · rw [← h1, h]; exact Or.inl rfl
    · rw [h] at h1; injection h1 with h1; exact Or.inr h1
  rw [ht] at hself
  generalize hto' : top' t = ot' at hself
  cases hself with
  | quiet fr o' hq' _ => simp [touch] at hq'
  | lock σ fr fr' hl _ => simp [LockPair] at hl
  | unlock σ fr o' hl _ => simp at hl
  | destroyF f o' hp =>
    refine ⟨?_, ?_, ?_⟩
    · intro u fr hu hc
      exfalso
      by_cases hut : u = t
      · subst hut; rw [hto'] at hu; have h1 := hp fr hu; rw [critF_inner hc] at h1; cases h1
      · rcases back u fr hut hu with h1 | h1
        · rw [hq u fr hut h1] at hc; cases hc
        · subst h1; simp [critF] at hc
    · intro u _; simp [upd_same]
    · intro hw; simp [upd_same] at hw

/-- the two pool signals (0 = enqueued, 1 = dequeued) are destroyed together (`dFin`) and never re-created -/
def Pool01 (sg : Nat → SigSt) : Prop := (sg 1).live = (sg 0).live ∧ (sg 0).gen = 0 ∧ (sg 1).gen = 0

theorem pool01_step {rep : Bool} {t : Tid} {o o' : Option Frame} {sg sg' : Nat → SigSt}
    (hself : SelfStep rep t sg o o' sg') (h : Pool01 sg) : Pool01 sg' := by
  cases hself
  all_goals grind [Pool01, upd]

/-! ### the full model -/

structure SigInv (cfg : Config) (s : State) : Prop where
  noInner : ∀ t th, s.threads t = some th → NoInner th.stack.tail
  a : AInvA cfg.repaired (topFrame s) s.sigs
  b : AInvB cfg.repaired (topFrame s) s.sigs
  p01 : Pool01 s.sigs

theorem topFrame_init (cfg : Config) (u : Tid) (fr : Frame) (h : topFrame (State.init cfg) u = some fr) :
    fr = .mInit := by
  simp only [topFrame, State.init] at h
  split at h
  · next th hth =>
    split at hth
    · injection hth with hth; subst hth; simp at h; exact h.symm
    · cases hth
  · cases h

theorem sigInv_init (cfg : Config) : SigInv cfg (State.init cfg) := by
  refine ⟨?_, ⟨?_, ?_, ?_⟩, fun σ _ => ⟨?_, ?_, ?_⟩, ⟨rfl, rfl, rfl⟩⟩
  · intro t th h
    simp only [State.init] at h
    split at h
    · injection h with h; subst h; exact noInner_nil
    · cases h
  · intro σ o h; simp [State.init] at h
  · intro σ u h; simp [State.init] at h
  · intro σ; simp [State.init]
  · intro u fr h hc
    have := topFrame_init cfg u fr h; subst this; simp [critF] at hc
  · intro u h
    have := topFrame_init cfg u _ h; cases this
  · intro h; simp [State.init] at h

theorem topFrame_of {s : State} {t : Tid} {th : Thread} (h : s.threads t = some th) :
    topFrame s t = th.stack.head? := by simp only [topFrame, h]

/-- one micro-step of the full model, seen by the Signal layer -/
theorem astep_of_step {cfg : Config} {s s' : State} {t : Tid} {o : List String}
    (hr : Reach cfg s) (hni : ∀ t th, s.threads t = some th → NoInner th.stack.tail)
    (h : step s t = some (s', o)) :
    AStep cfg.repaired t (topFrame s) (topFrame s') s.sigs s'.sigs ∧
      (∀ t th, s'.threads t = some th → NoInner th.stack.tail) := by
  obtain ⟨th, fr, rest, hth, hst, hnf, hblk, rfl⟩ := step_inv2 h
  have hS := reach_inv hr
  have hrest : NoInner rest := by
    have := hni t th hth
    rw [hst] at this; exact this
  have h4 := shape4 s t th fr rest hth hst
  have hfresh : s.threads s.nthreads = none := hS.fresh _ (Nat.le_refl _)
  obtain ⟨th', hth', htl', hself⟩ := selfStep_of s t th fr rest hth hst hrest hblk
  rw [hS.cfgEq] at hself
  refine ⟨⟨?_, ?_⟩, ?_⟩
  · intro u hu
    rcases h4.others u hu with h2 | ⟨h2, thw, h3, _, h5⟩
    · left; simp only [topFrame, h2]
    · right
      have h2' : (u : Nat) = s.nthreads := h2
      refine ⟨?_, ?_⟩
      · simp only [topFrame, h2', hfresh]
      · rw [topFrame_of h3]
        rcases h5 with h5 | ⟨h5, _⟩ <;> rw [h5] <;> rfl
  · rw [topFrame_of hth, hst, topFrame_of hth']; exact hself
  · intro u thu hthu
    by_cases hu : u = t
    · subst hu; rw [hth'] at hthu; injection hthu with hthu; subst hthu; exact htl'
    · rcases h4.others u hu with h2 | ⟨h2, thw, h3, _, h5⟩
      · rw [h2] at hthu; exact hni u thu hthu
      · rw [hthu] at h3; injection h3 with h3; subst h3
        rcases h5 with h5 | ⟨h5, _⟩ <;> rw [h5] <;> simp [noInner_cons, noInner_nil, inner]

theorem sigInv_step {cfg : Config} {s s' : State} {t : Tid} {o : List String}
    (hr : Reach cfg s) (hI : SigInv cfg s) (h : step s t = some (s', o)) : SigInv cfg s' := by
  obtain ⟨hstep, hni'⟩ := astep_of_step hr hI.noInner h
  exact ⟨hni', ainvA_step hI.a hstep, ainvB_step hI.a hI.b hstep, pool01_step hstep.self hI.p01⟩

theorem reach_sigInv {cfg : Config} {s : State} (h : Reach cfg s) : SigInv cfg s := by
  induction h with
  | init => exact sigInv_init cfg
  | step t hr hs ih => exact sigInv_step hr ih hs

end Nstd.Future
