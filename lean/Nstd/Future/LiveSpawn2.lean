/-
  Spawn side of deadlock freedom, part 2: a stack discipline.
  A thread inside `ThreadPool::run` (any `run*` frame on its stack) or running the main thread's own code is not inside `Future::join` (frames `join f`,
  `joinClr f`, `Signal::wait`/`Signal::reset` on a future signal σ ≥ 2) — `spStk_reach`.
-/
import Nstd.Future.LiveSpawn1
import Nstd.Future.LiveProducer1
set_option linter.unusedSimpArgs false
set_option linter.unusedVariables false
namespace Nstd.Future.SP

open LS

def spJn : Frame → Bool
  | .join _ | .joinClr _ => true
  | .sWaitLock σ | .sWaitChk σ | .sWaitUnlock σ | .sWaitCwait σ | .sWaitCwake σ | .sWaitRelock σ => decide (2 ≤ σ)
  | .sRstLock σ | .sRstStore σ | .sRstUnlock σ => decide (2 ≤ σ)
  | _ => false

def spRun : Frame → Bool
  | .runStart _ | .runChk1 _ | .runPush2 _ | .runChk2 _ | .runSet | .runAdd | .runRdProc _ | .runRdTc _ | .runClk1
  | .runClk2 _ | .runClk3 | .runSpLock | .runSpChk | .runSpUnlock _ | .runSpStart _ | .runSpawned _
  | .runRetLock | .runRetChk | .runRetAfter | .runRetUnlock => true
  | .mInit | .mSpawn _ | .mSpawned _ _ | .mJoin _ | .mDel
  | .dPush _ | .dChk1 _ | .dPush2 _ | .dChk2 _ | .dSet _ | .dJoin _ | .dFin => true
  | _ => false

def SpHasJn (l : List Frame) : Prop := ∃ f ∈ l, spJn f = true
def SpHasRun (l : List Frame) : Prop := ∃ f ∈ l, spRun f = true

theorem spHasJn_nil : SpHasJn [] ↔ False := by simp [SpHasJn]
theorem spHasJn_cons {a : Frame} {l : List Frame} : SpHasJn (a :: l) ↔ spJn a = true ∨ SpHasJn l := by
  simp [SpHasJn]
theorem spHasRun_nil : SpHasRun [] ↔ False := by simp [SpHasRun]
theorem spHasRun_cons {a : Frame} {l : List Frame} : SpHasRun (a :: l) ↔ spRun a = true ∨ SpHasRun l := by
  simp [SpHasRun]

theorem spHasJn_base {l : List Frame} (h : LsAllB l) : ¬ SpHasJn l := by
  rintro ⟨f, hf, h2⟩
  have := h f hf
  cases f <;> simp [lsB] at this <;> simp [spJn] at h2
theorem spHasRun_base {l : List Frame} (h : LsAllB l) : ¬ SpHasRun l := by
  rintro ⟨f, hf, h2⟩
  have := h f hf
  cases f <;> simp [lsB] at this <;> simp [spRun] at h2

/-- the stack discipline: not both a `run*` frame and a frame of `Future::join` -/
def SpStk (l : List Frame) : Prop := SpHasRun l → ¬ SpHasJn l

set_option maxHeartbeats 8000000 in
theorem spShapeJ (s : State) (t : Tid) (th : Thread) (fr : Frame) (rest : List Frame)
    (hth : s.threads t = some th) (hst : th.stack = fr :: rest) (hnr : lsRingOf fr = none)
    (hrep : s.cfg.repaired = true) (hb1 : lseC fr = true → ¬ SpHasJn rest) (hb2 : lseC fr = true → ¬ SpHasRun rest)
    (hfs : ∀ fs, (fr = .fRst fs ∨ fr = .fWait fs ∨ fr = .fRstLoad fs ∨ fr = .fSet fs) → fs < 2) :
    ∃ th', (stepFrame s t th fr).1.threads t = some th' ∧ (SpStk (fr :: rest) → SpStk th'.stack) := by
  cases fr
  case ring pc => cases hnr
  all_goals
    simp only [stepFrame]
    repeat' split
  all_goals
    simp only [setThread, setSig, setPool, setFut, withFault, destroySig, upd_same, hth, Option.some.injEq, exists_eq_left']
    have hb1' := hb1
    have hb2' := hb2
    have hfs' := hfs
    try simp at hfs'
    simp only [lseC, lsC, Bool.or_self, Bool.or_false, Bool.or_true, forall_const, reduceCtorEq, false_implies] at hb1' hb2'
    intro hb
    simp only [SpStk, spHasJn_cons, spHasRun_cons, spJn, spRun] at hb
    simp [SpStk, Thread.cont, hst, hrep, spHasJn_cons, spHasRun_cons, spHasJn_nil, spHasRun_nil, spJn, spRun, hb1', hb2']
    try (simp_all; done)
    try (intro _; omega)

def SpStkInv (s : State) : Prop := ∀ t th, s.threads t = some th → SpStk th.stack

theorem spStk_step {cfg : Config} {s s' : State} {t : Tid} {o : List String} (hrep : cfg.repaired = true)
    (hr : Reach cfg s) (hI : SpStkInv s) (h : step s t = some (s', o)) : SpStkInv s' := by
  have hL := lse_reach hrep hr
  obtain ⟨th, fr, rest, hth, hst, hfin, rfl⟩ := step_inv h
  have hrep' : s.cfg.repaired = true := by rw [reach_cfg hr]; exact hrep
  have hK := LW.shapeK s t th fr rest hth hst hrep'
  have hcb : LseCB (fr :: rest) := by rw [← hst]; exact hL.cb t th hth
  have hself : ∃ th', (stepFrame s t th fr).1.threads t = some th' ∧ (SpStk (fr :: rest) → SpStk th'.stack) := by
    cases hnr : lsRingOf fr with
    | none =>
      exact spShapeJ s t th fr rest hth hst hnr hrep' (fun hc => spHasJn_base (hcb.1 hc))
        (fun hc => spHasRun_base (hcb.1 hc))
        (by
          have hadj : LP.AdjP (fr :: rest) := by rw [← hst]; exact LP.adj_reach hrep hr t th hth
          intro fs hfs
          have h0 := hadj.1
          rcases hfs with rfl | rfl | rfl | rfl <;> simp only [LP.adjP] at h0 <;> omega)
    | some pc =>
      have hfr : fr = .ring pc := by cases fr <;> simp [lsRingOf] at hnr; rw [hnr]
      subst hfr
      cases hp : s.pool with
      | none =>
        rw [LW.ring_step_noPool s t th pc hp]
        exact ⟨th, hth, fun h => by rw [hst]; exact h⟩
      | some p =>
        obtain ⟨th', h1, h2, h3, h4, h5, h6⟩ := ls_ring_desc s t th pc rest p hp hst
        refine ⟨th', by rw [h1, upd_same], ?_⟩
        intro hb
        rw [h6]
        have hb' : SpStk rest := by
          intro h1 h2
          exact hb (spHasRun_cons.mpr (Or.inr h1)) (spHasJn_cons.mpr (Or.inr h2))
        cases hres : (ringStep p.ring pc).2 with
        | cont pc' =>
          intro h1 h2
          simp only [lsAfterStk, spHasRun_cons, spHasJn_cons, spRun, spJn, Bool.false_eq_true, false_or] at h1 h2
          exact hb' h1 h2
        | pushed ok => exact hb'
        | popped x => exact hb'
  obtain ⟨th', hth', hstk'⟩ := hself
  intro u thu hthu
  by_cases hu : u = t
  · subst hu; rw [hth'] at hthu; injection hthu with hthu; subst hthu
    exact hstk' (by rw [← hst]; exact hI u th hth)
  · rcases hK.others u hu with h2 | ⟨_, h2 | ⟨sc, h2⟩⟩
    · rw [h2] at hthu; exact hI u thu hthu
    · rw [hthu] at h2; injection h2 with h2; subst h2
      simp [SpStk, spHasRun_cons, spHasRun_nil, spRun]
    · rw [hthu] at h2; injection h2 with h2; subst h2
      simp [SpStk, spHasRun_cons, spHasRun_nil, spRun]

theorem spStk_reach {cfg : Config} (hrep : cfg.repaired = true) {s : State} (h : Reach cfg s) : SpStkInv s := by
  induction h with
  | init =>
    intro t th h
    simp only [State.init] at h
    split at h
    · injection h with h; subst h; simp [SpStk, spHasRun_cons, spHasRun_nil, spRun, spHasJn_cons, spHasJn_nil, spJn]
    · cases h
  | step t hr hs ih => exact spStk_step hrep hr ih hs

end Nstd.Future.SP
