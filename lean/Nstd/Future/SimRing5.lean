/-
  Simulation of the ring system by the full Future/ThreadPool model, part 5 (join reasoning):
  the main thread passes `mJoin` only after all client threads have finished, hence after
  `~ThreadPool` (`dFin`) no thread can run `startProc` and no pool is created again:
  `s.pool = some p → poolAlive s` for every reachable state.
-/
import Nstd.Future.SimRingCore
import Nstd.Future.SimRing4
set_option linter.unusedSimpArgs false
namespace Nstd.Future

def ThFin (s : State) (w : Tid) : Prop := ∃ th, s.threads w = some th ∧ th.finished = true
def AllFin (s : State) : Prop := ∀ w ∈ s.clientTids, ThFin s w

/-- what the main thread knows at its frames -/
def Phase (s : State) : Frame → Prop
  | .mInit => s.clientTids = []
  | .mSpawn i => s.clientTids.length = i ∧ i ≤ s.cfg.scripts.length
  | .mSpawned i _ => s.clientTids.length = i + 1 ∧ i + 1 ≤ s.cfg.scripts.length
  | .mJoin i => s.clientTids.length = s.cfg.scripts.length ∧
      ∀ j, j < i → ∀ w, s.clientTids[j]? = some w → ThFin s w
  | .mDel | .dPush _ | .dChk1 _ | .dPush2 _ | .dChk2 _ | .dSet _ | .dJoin _ | .dFin => AllFin s
  | _ => True

theorem phase_of_nonbot (s : State) {f : Frame} (h : bottomFr f = false) : Phase s f := by
  cases f <;> first | trivial | (simp [bottomFr] at h)

theorem phase_mono {s s' : State} {f : Frame} (hcfg : s'.cfg = s.cfg) (hct : s'.clientTids = s.clientTids)
    (hfin : ∀ w, ThFin s w → ThFin s' w) (h : Phase s f) : Phase s' f := by
  cases f <;> simp only [Phase, hcfg, hct, AllFin] at h ⊢ <;> try exact h
  · exact ⟨h.1, fun j hj w hw => hfin w (h.2 j hj w hw)⟩
  all_goals exact fun w hw => hfin w (h w hw)

structure JoinInv (s : State) : Prop where
  botOnly : ∀ t th, s.threads t = some th → BotOnly th.stack
  mainOnly : ∀ t th, s.threads t = some th → t ≠ 0 → NoBot th.stack
  kinds : ∀ t th, s.threads t = some th → t ∈ s.clientTids ∨ AllNC th.stack
  exist : ∀ w ∈ s.clientTids, ∃ th, s.threads w = some th
  phase : ∀ t th, s.threads t = some th → ∀ f ∈ th.stack, Phase s f
  dead : ¬ poolAlive s → AllFin s ∧ (∀ t th, s.threads t = some th → NoBot th.stack) ∧ s.pool = none

theorem joinInv_init (cfg : Config) : JoinInv (State.init cfg) := by
  have hthr : ∀ t th, (State.init cfg).threads t = some th → t = 0 ∧ th = { stack := [Frame.mInit] } := by
    intro t th h
    simp only [State.init] at h
    split at h
    · next h0 => injection h with h; exact ⟨h0, h.symm⟩
    · cases h
  constructor
  · intro t th h; obtain ⟨_, rfl⟩ := hthr t th h; exact botOnly_singleton _
  · intro t th h h0; exact absurd (hthr t th h).1 h0
  · intro t th h; obtain ⟨_, rfl⟩ := hthr t th h; right; simp [allNC_cons, allNC_nil, ncFr]
  · intro w hw; simp [State.init] at hw
  · intro t th h f hf; obtain ⟨_, rfl⟩ := hthr t th h
    simp only [List.mem_singleton] at hf; subst hf; rfl
  · intro h; exact absurd rfl h

theorem step_inv2 {s s' : State} {t : Tid} {o : List String} (h : step s t = some (s', o)) :
    ∃ th fr rest, s.threads t = some th ∧ th.stack = fr :: rest ∧ th.finished = false ∧
      blockedFrame s t fr = false ∧ s' = (stepFrame s t th fr).1 := by
  simp only [step] at h
  split at h
  · cases h
  · next th hth =>
    split at h
    · cases h
    · next fr rest hst =>
      split at h
      · cases h
      · next hc =>
        injection h with h
        simp only [Bool.or_eq_true, not_or, Bool.not_eq_true] at hc
        exact ⟨th, fr, rest, hth, hst, hc.1, hc.2, by rw [h]⟩

/-- the new stack of the main thread after one of its own frames satisfies `Phase` again -/
theorem phase_main {s : State} {t : Tid} {th : Thread} {fr : Frame}
    (hth : s.threads t = some th) (hst : th.stack = [fr]) (hnf : th.finished = false)
    (hb : bottomFr fr = true)
    (hph : Phase s fr) (hblk : blockedFrame s t fr = false)
    (hex : ∀ w ∈ s.clientTids, ∃ th, s.threads w = some th) :
    ∀ th', (stepFrame s t th fr).1.threads t = some th' → ∀ f ∈ th'.stack, Phase (stepFrame s t th fr).1 f := by
  have hfinG : ∀ s'' : State, (∀ w, w ≠ t → s''.threads w = s.threads w) → ∀ w, ThFin s w → ThFin s'' w := by
    intro s'' h w ⟨thw, h1, h2⟩
    have : w ≠ t := by
      intro e; subst e; rw [hth] at h1; injection h1 with h1; subst h1; rw [hnf] at h2; cases h2
    exact ⟨thw, by rw [h _ this]; exact h1, h2⟩
  have hallG : ∀ s'' : State, (∀ w, w ≠ t → s''.threads w = s.threads w) → s''.clientTids = s.clientTids →
      AllFin s → AllFin s'' := by
    intro s'' h1 h2 h3 w hw; rw [h2] at hw; exact hfinG s'' h1 w (h3 w hw)
  cases fr with
  | mSpawn i =>
    simp only [Phase] at hph
    simp only [stepFrame]
    split
    · next heq =>
      have hlen := List.getElem?_eq_none_iff.mp heq
      split
      all_goals
        intro th' h
        simp [setThread, upd_same, Thread.cont, hst, withFault, hth] at h
        subst h
        simp [Phase, hst, Thread.cont, destroySig, setSig, setThread]
      · next hemp =>
        have : s.clientTids = [] := by
          have : s.cfg.scripts.length = 0 := by simpa using hemp
          apply List.eq_nil_of_length_eq_zero; omega
        intro w hw; rw [this] at hw; cases hw
      · omega
    · next sc heq =>
      have hlen := (List.getElem?_eq_some_iff.mp heq).1
      intro th' h
      simp [setThread, upd_same, Thread.cont, hst, withFault, hth] at h
      subst h
      simp [Phase, hst, Thread.cont, destroySig, setSig, setThread]
      omega
  | mJoin i =>
    simp only [Phase] at hph
    have hfi : i < s.cfg.scripts.length → ∀ w, s.clientTids[i]? = some w → ThFin s w := by
      intro hi w hw
      obtain ⟨thw, hthw⟩ := hex w (List.mem_of_getElem? hw)
      simp only [blockedFrame, hw, hthw, Bool.not_eq_false'] at hblk
      exact ⟨thw, hthw, hblk⟩
    have hall : ∀ k, (∀ j, j < k → ∀ w, s.clientTids[j]? = some w → ThFin s w) →
        s.cfg.scripts.length ≤ k → AllFin s := by
      intro k hk hle w hw
      obtain ⟨j, hj, hjw⟩ := List.getElem_of_mem hw
      exact hk j (by omega) w (by rw [List.getElem?_eq_getElem hj, hjw])
    simp only [stepFrame]
    repeat' split
    all_goals
      intro th' h
      simp [setThread, upd_same, Thread.cont, hst, withFault, hth] at h
      subst h
      simp [Phase, hst, Thread.cont, destroySig, setSig, setThread]
    · next hi _ =>
      refine ⟨hph.1, fun j hj w hw => hfinG _ (fun w hw => upd_ne _ _ hw) w ?_⟩
      by_cases hji : j = i
      · subst hji; exact hfi hi w hw
      · exact hph.2 j (by omega) w hw
    · next hi hi2 =>
      refine hallG _ (fun w hw => upd_ne _ _ hw) rfl (hall (i + 1) ?_ (by omega))
      intro j hj w hw
      by_cases hji : j = i
      · subst hji; exact hfi hi w hw
      · exact hph.2 j (by omega) w hw
    · next hi =>
      exact hallG _ (fun w hw => upd_ne _ _ hw) rfl (hall i hph.2 (by omega))
  | mInit | mSpawned _ _ | mDel | dPush _ | dChk1 _ | dPush2 _ | dChk2 _ | dSet _ | dJoin _ | dFin =>
    simp only [stepFrame]
    repeat' split
    all_goals
      intro th' h
      simp [setThread, upd_same, Thread.cont, hst, withFault, hth] at h
      subst h
      simp [Phase, hst, Thread.cont, destroySig, setSig, setThread]
      try first
        | exact hph
        | exact hallG _ (fun w hw => upd_ne _ _ hw) rfl hph
        | exact hallG _ (fun w hw => rfl) rfl hph
  | _ => simp [bottomFr] at hb

theorem dFin_pool {s : State} {t : Tid} {th : Thread} : (stepFrame s t th .dFin).1.pool = none := by
  simp [stepFrame, setThread]

theorem joinInv_step {cfg : Config} {s s' : State} {t : Tid} {o : List String}
    (hS : SimInv cfg s) (hJ : JoinInv s) (h : step s t = some (s', o)) : JoinInv s' := by
  obtain ⟨th, fr, rest, hth, hst, hnf, hblk, rfl⟩ := step_inv2 h
  have hrest : NoSpec rest := by
    have := hS.ringTopOnly t th hth
    rw [hst] at this; exact this
  have h1 := shape1 s t th fr rest hth hst hnf hrest
  have h4 := shape4 s t th fr rest hth hst
  have hbo : BotOnly (fr :: rest) := by rw [← hst]; exact hJ.botOnly t th hth
  have hfresh : s.threads s.nthreads = none := hS.fresh _ (Nat.le_refl _)
  -- finished threads stay finished
  have hfin : ∀ w, ThFin s w → ThFin (stepFrame s t th fr).1 w := by
    intro w ⟨thw, h2, h3⟩
    have hwt : w ≠ t := by
      intro e; subst e; rw [hth] at h2; injection h2 with h2; subst h2; rw [hnf] at h3; cases h3
    rcases h4.others w hwt with h5 | ⟨h5, _⟩
    · exact ⟨thw, by rw [h5]; exact h2, h3⟩
    · have h5' : (w : Nat) = s.nthreads := h5
      rw [h5', hfresh] at h2; cases h2
  have hsub : ∀ w, w ∈ s.clientTids → w ∈ (stepFrame s t th fr).1.clientTids := by
    intro w hw
    rcases h4.ct with h2 | ⟨_, h2, _⟩
    · rw [h2]; exact hw
    · rw [h2]; exact List.mem_append_left _ hw
  -- the frame is a main frame: then `t = 0` and it is the whole stack
  have hmain : bottomFr fr = true → t = 0 ∧ rest = [] := by
    intro hb
    refine ⟨?_, botOnly_cons_bot hb hbo⟩
    cases Nat.decEq t 0 with
    | isTrue h0 => exact h0
    | isFalse h0 =>
      have := hJ.mainOnly t th hth h0
      rw [hst, noBot_cons, hb] at this; cases this.1
  have hctEq2 : (∀ i, fr ≠ .mSpawn i) → (stepFrame s t th fr).1.clientTids = s.clientTids := by
    intro hb
    rcases h4.ct with h2 | ⟨⟨i, hi⟩, _⟩
    · exact h2
    · exact absurd hi (hb i)
  have hctEq : bottomFr fr = false → (stepFrame s t th fr).1.clientTids = s.clientTids := by
    intro hb; apply hctEq2; intro i hi; subst hi; cases hb
  -- stacks of the other threads
  have hoth : ∀ u thu, u ≠ t → (stepFrame s t th fr).1.threads u = some thu →
      s.threads u = some thu ∨
      (thu.stack = [.tStart, .wPop1] ∨
        (thu.stack = [.tStart, .cNext] ∧ u ∈ (stepFrame s t th fr).1.clientTids)) := by
    intro u thu hu hthu
    rcases h4.others u hu with h2 | ⟨h2, thw, h3, _, h5⟩
    · left; rw [← h2]; exact hthu
    · right; rw [hthu] at h3; injection h3 with h3; subst h3
      rcases h5 with h5 | ⟨h5, h6⟩
      · exact Or.inl h5
      · refine Or.inr ⟨h5, ?_⟩
        rw [h6]; have h2' : (u : Nat) = s.nthreads := h2
        rw [h2']; exact List.mem_append_right _ (List.mem_singleton_self _)
  constructor
  · -- botOnly
    intro u thu hthu
    by_cases hu : u = t
    · subst hu
      obtain ⟨th', h2, h3⟩ := h4.bot hbo
      rw [h2] at hthu; injection hthu with hthu; subst hthu; exact h3
    · rcases hoth u thu hu hthu with h2 | h2 | ⟨h2, _⟩
      · exact hJ.botOnly u thu h2
      · rw [h2]; simp [botOnly_cons_iff, bottomFr, botOnly_nil]
      · rw [h2]; simp [botOnly_cons_iff, bottomFr, botOnly_nil]
  · -- mainOnly
    intro u thu hthu hu0
    by_cases hu : u = t
    · subst hu
      obtain ⟨th', h2, h3⟩ := h4.nobot (by rw [← hst]; exact hJ.mainOnly u th hth hu0)
      rw [h2] at hthu; injection hthu with hthu; subst hthu; exact h3
    · rcases hoth u thu hu hthu with h2 | h2 | ⟨h2, _⟩
      · exact hJ.mainOnly u thu h2 hu0
      · rw [h2]; simp [noBot_cons, bottomFr, noBot_nil]
      · rw [h2]; simp [noBot_cons, bottomFr, noBot_nil]
  · -- kinds
    intro u thu hthu
    by_cases hu : u = t
    · subst hu
      rcases hJ.kinds u th hth with h2 | h2
      · exact Or.inl (hsub u h2)
      · obtain ⟨th', h3, h5⟩ := h4.nc (by rw [← hst]; exact h2)
        rw [h3] at hthu; injection hthu with hthu; subst hthu; exact Or.inr h5
    · rcases hoth u thu hu hthu with h2 | h2 | ⟨_, h2⟩
      · rcases hJ.kinds u thu h2 with h3 | h3
        · exact Or.inl (hsub u h3)
        · exact Or.inr h3
      · right; rw [h2]; simp [allNC_cons, ncFr, allNC_nil]
      · exact Or.inl h2
  · -- exist
    intro w hw
    have hkeep : ∀ w thw, s.threads w = some thw → ∃ th2, (stepFrame s t th fr).1.threads w = some th2 := by
      intro w thw h2
      by_cases hwt : w = t
      · subst hwt; obtain ⟨th', h3, _⟩ := h1.self; exact ⟨th', h3⟩
      · rcases h4.others w hwt with h3 | ⟨_, thw', h3, _⟩
        · exact ⟨thw, by rw [h3]; exact h2⟩
        · exact ⟨thw', h3⟩
    rcases h4.ct with h2 | ⟨_, h2, h6⟩
    · rw [h2] at hw
      obtain ⟨thw, h3⟩ := hJ.exist w hw
      exact hkeep w thw h3
    · rw [h2] at hw
      rcases List.mem_append.mp hw with hw | hw
      · obtain ⟨thw, h3⟩ := hJ.exist w hw
        exact hkeep w thw h3
      · simp only [List.mem_singleton] at hw
        rw [hw]
        cases h7 : (stepFrame s t th fr).1.threads s.nthreads with
        | none => rw [h7] at h6; cases h6
        | some thw => exact ⟨thw, rfl⟩
  · -- phase
    intro u thu hthu f hf
    cases hb : bottomFr fr with
    | false =>
      have hct := hctEq hb
      by_cases hu : u = t
      · subst hu
        obtain ⟨th', h2, h3⟩ := h4.newFr hb
        rw [h2] at hthu; injection hthu with hthu; subst hthu
        rcases h3 f hf with h5 | h5
        · exact phase_of_nonbot _ h5
        · exact phase_mono h1.cfg hct hfin (hJ.phase u th hth f (by rw [hst]; exact List.mem_cons_of_mem _ h5))
      · rcases hoth u thu hu hthu with h2 | h2 | ⟨h2, _⟩
        · exact phase_mono h1.cfg hct hfin (hJ.phase u thu h2 f hf)
        · rw [h2] at hf; simp at hf; rcases hf with rfl | rfl <;> trivial
        · rw [h2] at hf; simp at hf; rcases hf with rfl | rfl <;> trivial
    | true =>
      obtain ⟨ht0, hr⟩ := hmain hb
      subst hr
      subst ht0
      by_cases hu : u = 0
      · subst hu
        exact phase_main hth hst hnf hb (hJ.phase 0 th hth fr (by rw [hst]; exact List.mem_cons_self ..)) hblk
          hJ.exist thu hthu f hf
      · apply phase_of_nonbot
        rcases hoth u thu hu hthu with h2 | h2 | ⟨h2, _⟩
        · exact hJ.mainOnly u thu h2 hu f hf
        · rw [h2] at hf; simp at hf; rcases hf with rfl | rfl <;> rfl
        · rw [h2] at hf; simp at hf; rcases hf with rfl | rfl <;> rfl
  · -- dead
    intro hl'
    by_cases hl : poolAlive s
    · -- the step is `dFin`
      have hfr : fr = .dFin := by
        cases Classical.em (fr = .dFin) with
        | inl h2 => exact h2
        | inr h2 => exact absurd (h4.liveKeep h2 hl) hl'
      subst hfr
      obtain ⟨ht0, hr⟩ := hmain rfl
      subst hr
      subst ht0
      have hall : AllFin s := hJ.phase 0 th hth .dFin (by rw [hst]; exact List.mem_cons_self ..)
      refine ⟨?_, ?_, dFin_pool⟩
      · intro w hw; rw [hctEq2 (by intro i hi; cases hi)] at hw; exact hfin w (hall w hw)
      · intro u thu hthu
        by_cases hu : u = 0
        · subst hu
          have : (stepFrame s 0 th .dFin).1.threads 0 = some (th.cont [.tExit]) := by
            simp [stepFrame, setThread, upd_same]
          rw [this] at hthu; injection hthu with hthu; subst hthu
          simp [Thread.cont, hst, noBot_cons, noBot_nil, bottomFr]
        · rcases hoth u thu hu hthu with h2 | h2 | ⟨h2, _⟩
          · exact hJ.mainOnly u thu h2 hu
          · rw [h2]; simp [noBot_cons, bottomFr, noBot_nil]
          · rw [h2]; simp [noBot_cons, bottomFr, noBot_nil]
    · obtain ⟨hall, hnb, hpn⟩ := hJ.dead hl
      have hnbt : NoBot (fr :: rest) := by rw [← hst]; exact hnb t th hth
      have hb : bottomFr fr = false := (noBot_cons.mp hnbt).1
      refine ⟨?_, ?_, ?_⟩
      · intro w hw; rw [hctEq hb] at hw; exact hfin w (hall w hw)
      · intro u thu hthu
        by_cases hu : u = t
        · subst hu
          obtain ⟨th', h2, h3⟩ := h4.nobot hnbt
          rw [h2] at hthu; injection hthu with hthu; subst hthu; exact h3
        · rcases hoth u thu hu hthu with h2 | h2 | ⟨h2, _⟩
          · exact hnb u thu h2
          · rw [h2]; simp [noBot_cons, bottomFr, noBot_nil]
          · rw [h2]; simp [noBot_cons, bottomFr, noBot_nil]
      · apply h4.poolNone
        · intro e; subst e; cases hb
        · intro c e; subst e
          rcases hJ.kinds t th hth with h2 | h2
          · obtain ⟨thw, h3, h5⟩ := hall t h2
            rw [hth] at h3; injection h3 with h3; subst h3; rw [hnf] at h5; cases h5
          · rw [hst, allNC_cons] at h2; cases h2.1
        · exact hpn

theorem reach_join {cfg : Config} {s : State} (h : Reach cfg s) : JoinInv s := by
  induction h with
  | init => exact joinInv_init cfg
  | step t hr hs ih => exact joinInv_step (reach_inv hr) ih hs

/-- a pool exists only while it has not been deleted: after `dFin` no pool is created again -/
theorem pool_alive {cfg : Config} {s : State} {p : Pool} (h : Reach cfg s) (hp : s.pool = some p) :
    poolAlive s := by
  cases Classical.em (poolAlive s) with
  | inl hl => exact hl
  | inr hl =>
    have := ((reach_join h).dead hl).2.2
    rw [hp] at this; cases this

/-- the main thread has joined all clients when it deletes the pool (and ever after) -/
theorem clients_finished_of_dead {cfg : Config} {s : State} (h : Reach cfg s) (hl : ¬ poolAlive s) :
    ∀ w ∈ s.clientTids, ∃ th, s.threads w = some th ∧ th.finished = true :=
  ((reach_join h).dead hl).1

end Nstd.Future
