/-
  Counters identity (C1) of the thread pool: final statements.

  In every reachable state of the repaired model, as long as the pool exists,

      _pushedJobs + A  =  _processedJobs + X + R

  where A = clients that have queued a real job (successful CAS of their push) and not yet executed `runAdd`,
  X = workers that have claimed a real ticket (successful CAS of their pop) and not yet executed `wAdd`,
  R = real tickets `x ≥ head` of the push log (vocabulary of `LiveSpawn1`).

  Proof (copy-and-adapt of the terminate-job balance `lse_reach` of LiveShutdown5/6):
    * `LiveSpawnC1`: `spc_ring_pure` (the count across one `push`/`pop` micro-step for the caller frame),
      `spc_log_stable` (appending to the push log does not change any X-weight), base/pre-pool frames weigh nothing;
    * `LiveSpawnC2`: `spcShapeA`, `spcShapeX` (a non-ring frame keeps `pushed + A_t` and `processed + X_t`);
    * `LiveSpawnC3`: `spc_reach` (induction over `Reach`; the stack side conditions `LseCB`/`LsePayOk` are taken from
      `lse_reach`, which is where `cfg.repaired = true` is used).
-/
import Nstd.Future.LiveSpawnC1
import Nstd.Future.LiveSpawnC2
import Nstd.Future.LiveSpawnC3
set_option linter.unusedSimpArgs false
set_option linter.unusedVariables false
namespace Nstd.Future

open LS

/-- (C1) the counters identity -/
theorem counters_identity {cfg : Config} {s : State} {p : Pool} (hrep : cfg.repaired = true) (hr : Reach cfg s)
    (hp : s.pool = some p) :
    p.pushed + tsum s.nthreads (SP.spAAt s)
      = p.processed + tsum s.nthreads (SP.spXAt p.ring.pushLog s) + SP.spR p.ring.head p.ring.pushLog :=
  SPC.spc_reach hrep hr p hp

/-- a queued real ticket while no client is between its push and `runAdd`: some job is counted as pushed and not yet
    as processed -/
theorem pushed_gt_processed {cfg : Config} {s : State} {p : Pool} (hrep : cfg.repaired = true) (hr : Reach cfg s)
    (hp : s.pool = some p) (hA : ∀ t, SP.spAAt s t = 0) {x : Nat} (h1 : p.ring.head ≤ x)
    (h2 : x < p.ring.pushLog.length) (h3 : SP.spReal p.ring.pushLog x = true) : p.processed + 1 ≤ p.pushed := by
  have hC := counters_identity hrep hr hp
  have hz : tsum s.nthreads (SP.spAAt s) = 0 := tsum_zero_of (fun u _ => hA u)
  have hR := SPC.spcR_pos h1 h2 h3
  omega

end Nstd.Future
