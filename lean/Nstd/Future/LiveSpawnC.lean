/-
  Counters identity (C1) of the thread pool: final statements.
-/
import Nstd.Future.LiveSpawnC1
import Nstd.Future.LiveSpawnC2
import Nstd.Future.LiveSpawnC3
set_option linter.unusedSimpArgs false
set_option linter.unusedVariables false
namespace Nstd.Future

end Nstd.Future
